module verif

go 1.23
