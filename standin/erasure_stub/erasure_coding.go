// Package erasurecoding is a pure-Go stand-in for /repo/pkg/erasure_coding/erasure_coding.go
// (cgo against the Rust staticlib reed-solomon-ffi, whose crate reed-solomon-simd is not available
// offline). It is injected with `go test -overlay` by /verif/bin/vcheck ("standins": ["erasure_stub"])
// and is NOT Reed-Solomon: it is a deterministic *systematic* code with the same exported API, the
// same shapes (padding to a multiple of 2*dataShards, shard size, shard-major layout, data shards =
// the original data verbatim) and the same error structure as the FFI wrapper. Every parity shard is
// a position-tweaked XOR of all data shards, so DecodeShards can restore at most ONE missing data
// shard (enough for code that only needs the API to link and to be deterministic).
//
// Properties that depend on the real code's recovery capability (C30) must not use this stand-in.
package erasurecoding

import (
	"errors"
	"fmt"
)

// EncodeDataShards mirrors the wrapper in the real file: flat encode, then slice into
// dataShard+parityShard shards of equal size.
func EncodeDataShards(data []byte, dataShard, parityShard int) ([][]byte, error) {
	flat, err := EncodeData(data, dataShard, parityShard)
	if err != nil {
		return nil, err
	}

	numShards := dataShard + parityShard
	shardSize := len(flat) / numShards
	if len(flat)%numShards != 0 {
		return nil, fmt.Errorf("unexpected output size %d is not divisible by %d shards", len(flat), numShards)
	}

	shards := make([][]byte, numShards)
	for i := 0; i < numShards; i++ {
		start := i * shardSize
		end := start + shardSize
		shardCopy := make([]byte, shardSize)
		copy(shardCopy, flat[start:end])
		shards[i] = shardCopy
	}
	return shards, nil
}

func stubTweak(parityIdx, pos int) byte {
	return byte((parityIdx+1)*131 + pos*17)
}

// EncodeData: pad to a multiple of 2*dataShards with zeros; shardSize = len/dataShards; output =
// data shards (verbatim) followed by parityShards parity shards, shard-major.
func EncodeData(data []byte, dataShards, parityShards int) ([]byte, error) {
	if len(data) == 0 {
		return nil, errors.New("input data is empty")
	}
	if dataShards <= 0 || parityShards < 0 {
		return nil, errors.New("erasure_encode failed with code 1")
	}
	we := dataShards * 2
	padded := make([]byte, len(data), len(data)+we)
	copy(padded, data)
	if len(padded)%we != 0 {
		padded = append(padded, make([]byte, we-(len(padded)%we))...)
	}
	shardSize := len(padded) / dataShards
	total := dataShards + parityShards
	out := make([]byte, total*shardSize)
	copy(out, padded)
	x := make([]byte, shardSize)
	for j := 0; j < dataShards; j++ {
		for k := 0; k < shardSize; k++ {
			x[k] ^= padded[j*shardSize+k]
		}
	}
	for p := 0; p < parityShards; p++ {
		base := (dataShards + p) * shardSize
		for k := 0; k < shardSize; k++ {
			out[base+k] = x[k] ^ stubTweak(p, k)
		}
	}
	return out, nil
}

type Shard struct {
	Index int
	Data  [2]byte
}

// DecodeShards restores the dataShards*shardSize original (padded) bytes from the given shards
// (flatten = the shards concatenated in the order of indices). At most one data shard may be missing,
// and then at least one parity shard must be present.
func DecodeShards(flatten []byte, indices []int, dataShards, parityShards, shardSize int) ([]byte, error) {
	if len(flatten) == 0 || len(indices) == 0 {
		return nil, errors.New("no shards provided")
	}
	if shardSize <= 0 {
		return nil, fmt.Errorf("erasure_decode failed with code %d", 97)
	}
	if len(flatten)%shardSize != 0 {
		return nil, fmt.Errorf("flatten data length %d not divisible by shardSize %d", len(flatten), shardSize)
	}
	if shardSize%2 != 0 {
		return nil, fmt.Errorf("erasure_decode failed with code %d", 97)
	}
	if len(flatten) < len(indices)*shardSize || dataShards <= 0 {
		return nil, fmt.Errorf("erasure_decode failed with code %d", 2)
	}
	have := make([][]byte, dataShards)
	var parity []byte
	parityIdx := -1
	for i, idx := range indices {
		s := flatten[i*shardSize : (i+1)*shardSize]
		switch {
		case idx < 0 || idx >= dataShards+parityShards:
			return nil, fmt.Errorf("erasure_decode failed with code %d", 2)
		case idx < dataShards:
			if have[idx] != nil {
				return nil, fmt.Errorf("erasure_decode failed with code %d", 2)
			}
			have[idx] = s
		default:
			if parity == nil {
				parity = s
				parityIdx = idx - dataShards
			}
		}
	}
	missing := -1
	for j := 0; j < dataShards; j++ {
		if have[j] == nil {
			if missing >= 0 {
				return nil, fmt.Errorf("erasure_decode failed with code %d", 3)
			}
			missing = j
		}
	}
	if missing >= 0 {
		if parity == nil {
			return nil, fmt.Errorf("erasure_decode failed with code %d", 3)
		}
		rec := make([]byte, shardSize)
		for k := 0; k < shardSize; k++ {
			rec[k] = parity[k] ^ stubTweak(parityIdx, k)
		}
		for j := 0; j < dataShards; j++ {
			if j == missing {
				continue
			}
			for k := 0; k < shardSize; k++ {
				rec[k] ^= have[j][k]
			}
		}
		have[missing] = rec
	}
	out := make([]byte, 0, dataShards*shardSize)
	for j := 0; j < dataShards; j++ {
		out = append(out, have[j]...)
	}
	return out, nil
}
