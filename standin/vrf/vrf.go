// Package vrf is a pure-Go stand-in for the absent git submodule
// pkg/Rust-VRF/vrf-func-ffi/src (Bandersnatch VRF via Rust FFI).
// It is injected with `go build -overlay` by /verif/bin/vcheck and is NOT
// cryptography: it is a deterministic, collision-free function family with the
// same accept/reject structure (see /verif/DESIGN.md §2.3).
//
//	pk           = H("pk" ‖ sk)
//	IETF sig(96) = out(32)=H("o"‖pk‖ctx) ‖ proof(64)=H64("p"‖pk‖ctx‖msg)
//	ring sig(784)= id(32) ‖ tag(32)=H("r"‖commitment‖ctx‖msg‖id) ‖ zero padding
//
// The ring "signer" is free to choose the ticket id, a strict superset of what a
// real ring VRF allows.
package vrf

import (
	"bytes"
	"errors"

	"golang.org/x/crypto/blake2b"
)

const (
	RingSignatureSize = 784
	IETFSignatureSize = 96
)

func h(parts ...[]byte) [32]byte {
	hh, _ := blake2b.New256(nil)
	for _, p := range parts {
		var l [4]byte
		l[0], l[1], l[2], l[3] = byte(len(p)), byte(len(p)>>8), byte(len(p)>>16), byte(len(p)>>24)
		hh.Write(l[:])
		hh.Write(p)
	}
	var out [32]byte
	copy(out[:], hh.Sum(nil))
	return out
}

type Verifier struct {
	ring       []byte
	size       uint
	commitment [144]byte
}

type VerifyItem struct {
	Context   []byte
	Message   []byte
	Signature []byte
}

type VerifyResult struct {
	Output []byte
	Error  error
}

func NewVerifier(ring []byte, ringSize uint) (*Verifier, error) {
	if ringSize == 0 || uint(len(ring)) != ringSize*32 {
		return nil, errors.New("vrf stand-in: bad ring size")
	}
	v := &Verifier{ring: append([]byte(nil), ring...), size: ringSize}
	a := h([]byte("commit-a"), ring)
	b := h([]byte("commit-b"), ring)
	c := h([]byte("commit-c"), ring)
	d := h([]byte("commit-d"), ring)
	e := h([]byte("commit-e"), ring)
	copy(v.commitment[0:], a[:])
	copy(v.commitment[32:], b[:])
	copy(v.commitment[64:], c[:])
	copy(v.commitment[96:], d[:])
	copy(v.commitment[128:], e[:16])
	return v, nil
}

func (v *Verifier) Free() {}

func (v *Verifier) GetCommitment() ([]byte, error) {
	return append([]byte(nil), v.commitment[:]...), nil
}

// RingTag is exported for harnesses that need to build accepted ring signatures.
func RingTag(commitment, context, message, id []byte) [32]byte {
	return h([]byte("r"), commitment, context, message, id)
}

// MakeRingSignature builds a ring signature accepted by a Verifier for `ring`.
func MakeRingSignature(ring []byte, ringSize uint, context, message []byte, id [32]byte) ([]byte, error) {
	v, err := NewVerifier(ring, ringSize)
	if err != nil {
		return nil, err
	}
	sig := make([]byte, RingSignatureSize)
	copy(sig, id[:])
	tag := RingTag(v.commitment[:], context, message, id[:])
	copy(sig[32:], tag[:])
	return sig, nil
}

func (v *Verifier) RingVerify(context, message, signature []byte) ([]byte, error) {
	if len(signature) != RingSignatureSize {
		return nil, errors.New("vrf stand-in: bad ring signature length")
	}
	tag := RingTag(v.commitment[:], context, message, signature[:32])
	if !bytes.Equal(tag[:], signature[32:64]) {
		return nil, errors.New("vrf stand-in: bad ring proof")
	}
	for _, b := range signature[64:] {
		if b != 0 {
			return nil, errors.New("vrf stand-in: bad ring proof padding")
		}
	}
	return append([]byte(nil), signature[:32]...), nil
}

func (v *Verifier) RingVerifyBatch(items []VerifyItem) ([]VerifyResult, error) {
	out := make([]VerifyResult, len(items))
	for i, it := range items {
		o, err := v.RingVerify(it.Context, it.Message, it.Signature)
		out[i] = VerifyResult{Output: o, Error: err}
	}
	return out, nil
}

func GetPublicKeyFromSecret(secret []byte) ([]byte, error) {
	if len(secret) == 0 {
		return nil, errors.New("vrf stand-in: empty secret")
	}
	pk := h([]byte("pk"), secret)
	return pk[:], nil
}

func ietfOut(pk, context []byte) [32]byte { return h([]byte("o"), pk, context) }

func ietfProof(pk, context, message []byte) [64]byte {
	a := h([]byte("p1"), pk, context, message)
	b := h([]byte("p2"), pk, context, message)
	var p [64]byte
	copy(p[:32], a[:])
	copy(p[32:], b[:])
	return p
}

func IETFSign(secret, context, message []byte) ([]byte, error) {
	pk, err := GetPublicKeyFromSecret(secret)
	if err != nil {
		return nil, err
	}
	o := ietfOut(pk, context)
	p := ietfProof(pk, context, message)
	sig := make([]byte, 0, IETFSignatureSize)
	sig = append(sig, o[:]...)
	sig = append(sig, p[:]...)
	return sig, nil
}

func IETFVerify(context, message, signature, publicKey []byte) ([]byte, error) {
	if len(signature) != IETFSignatureSize || len(publicKey) != 32 {
		return nil, errors.New("vrf stand-in: bad ietf signature length")
	}
	o := ietfOut(publicKey, context)
	p := ietfProof(publicKey, context, message)
	if !bytes.Equal(o[:], signature[:32]) || !bytes.Equal(p[:], signature[32:]) {
		return nil, errors.New("vrf stand-in: bad ietf signature")
	}
	return append([]byte(nil), o[:]...), nil
}

func VRFIetfOutput(signature []byte) ([]byte, error) {
	if len(signature) < 32 {
		return nil, errors.New("vrf stand-in: short signature")
	}
	return append([]byte(nil), signature[:32]...), nil
}

type Handler struct {
	ring      []byte
	secret    []byte
	size, idx uint
}

func NewHandler(ring, secret []byte, ringSize, proverIdx uint) (*Handler, error) {
	if ringSize == 0 || uint(len(ring)) != ringSize*32 {
		return nil, errors.New("vrf stand-in: bad ring size")
	}
	return &Handler{ring: append([]byte(nil), ring...), secret: append([]byte(nil), secret...), size: ringSize, idx: proverIdx}, nil
}

func (h *Handler) Free() {}

func (h *Handler) IETFSign(context, message []byte) ([]byte, error) {
	return IETFSign(h.secret, context, message)
}

func (h *Handler) IETFVerify(context, message, signature []byte, signerIdx uint) ([]byte, error) {
	if signerIdx >= h.size {
		return nil, errors.New("vrf stand-in: signer index out of range")
	}
	return IETFVerify(context, message, signature, h.ring[signerIdx*32:signerIdx*32+32])
}

func (h *Handler) VRFIetfOutput(signature []byte) ([]byte, error) { return VRFIetfOutput(signature) }

func (h *Handler) RingSign(context, message []byte) ([]byte, error) {
	pk, _ := GetPublicKeyFromSecret(h.secret)
	id := ietfOut(pk, context)
	return MakeRingSignature(h.ring, h.size, context, message, id)
}

func (h *Handler) RingVerify(context, message, signature []byte) ([]byte, error) {
	v, err := NewVerifier(h.ring, h.size)
	if err != nil {
		return nil, err
	}
	return v.RingVerify(context, message, signature)
}

func (h *Handler) VRFRingOutput(signature []byte) ([]byte, error) { return VRFIetfOutput(signature) }
