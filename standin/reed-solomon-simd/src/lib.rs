//! Stand-in for the `reed-solomon-simd` crate (absent from the offline registry).
//! A systematic MDS code over GF(2^16): the k original shards are the values of a
//! polynomial of degree < k at the points 0..k-1, recovery shard j is its value at
//! the point k+j. Any k distinct shards determine the polynomial (Lagrange).
//! Each shard is a sequence of little-endian 16-bit symbols, coded independently.

use std::collections::BTreeMap;
use std::fmt;

#[derive(Debug, Clone, PartialEq, Eq)]
pub enum Error {
    UnsupportedShardCount,
    InvalidShardSize,
    DifferentShardSize,
    TooManyOriginalShards,
    TooFewOriginalShards,
    InvalidOriginalShardIndex,
    InvalidRecoveryShardIndex,
    DuplicateOriginalShardIndex,
    DuplicateRecoveryShardIndex,
    NotEnoughShards,
}

impl fmt::Display for Error {
    fn fmt(&self, f: &mut fmt::Formatter<'_>) -> fmt::Result {
        write!(f, "{:?}", self)
    }
}
impl std::error::Error for Error {}

const POLY: u32 = 0x1100B; // x^16 + x^12 + x^3 + x + 1

struct Gf {
    exp: Vec<u16>,
    log: Vec<u16>,
}

impl Gf {
    fn new() -> Gf {
        let mut exp = vec![0u16; 2 * 65535 + 2];
        let mut log = vec![0u16; 65536];
        let mut x: u32 = 1;
        for i in 0..65535usize {
            exp[i] = x as u16;
            log[x as usize] = i as u16;
            x <<= 1;
            if x & 0x10000 != 0 {
                x ^= POLY;
            }
        }
        for i in 65535..exp.len() {
            exp[i] = exp[i - 65535];
        }
        Gf { exp, log }
    }
    #[inline]
    fn mul(&self, a: u16, b: u16) -> u16 {
        if a == 0 || b == 0 {
            0
        } else {
            self.exp[self.log[a as usize] as usize + self.log[b as usize] as usize]
        }
    }
    #[inline]
    fn inv(&self, a: u16) -> u16 {
        self.exp[65535 - self.log[a as usize] as usize]
    }
}

fn gf() -> &'static Gf {
    use std::sync::OnceLock;
    static G: OnceLock<Gf> = OnceLock::new();
    G.get_or_init(Gf::new)
}

/// Lagrange coefficients: value at `target` = sum_i coeff[i] * y_i for the given points xs.
fn lagrange_coeffs(xs: &[u16], target: u16) -> std::sync::Arc<Vec<u16>> {
    // the repository's FFI layer builds a fresh encoder/decoder per 2-byte chunk with the same
    // point set every time: memoise the coefficient vectors
    use std::collections::HashMap;
    use std::sync::{Arc, Mutex, OnceLock};
    static CACHE: OnceLock<Mutex<HashMap<(Vec<u16>, u16), Arc<Vec<u16>>>>> = OnceLock::new();
    let cache = CACHE.get_or_init(|| Mutex::new(HashMap::new()));
    let key = (xs.to_vec(), target);
    if let Some(v) = cache.lock().unwrap().get(&key) {
        return v.clone();
    }
    let v = Arc::new(lagrange_coeffs_raw(xs, target));
    let mut c = cache.lock().unwrap();
    if c.len() > 4096 {
        c.clear();
    }
    c.insert(key, v.clone());
    v
}

fn lagrange_coeffs_raw(xs: &[u16], target: u16) -> Vec<u16> {
    let g = gf();
    let mut out = Vec::with_capacity(xs.len());
    for (i, &xi) in xs.iter().enumerate() {
        let mut num: u16 = 1;
        let mut den: u16 = 1;
        for (j, &xj) in xs.iter().enumerate() {
            if i == j {
                continue;
            }
            num = g.mul(num, target ^ xj);
            den = g.mul(den, xi ^ xj);
        }
        out.push(g.mul(num, g.inv(den)));
    }
    out
}

fn check_counts(original: usize, recovery: usize, shard_bytes: usize) -> Result<(), Error> {
    if original == 0 || recovery == 0 || original + recovery > 65535 {
        return Err(Error::UnsupportedShardCount);
    }
    if shard_bytes == 0 || shard_bytes % 2 != 0 {
        return Err(Error::InvalidShardSize);
    }
    Ok(())
}

pub struct ReedSolomonEncoder {
    original: usize,
    recovery: usize,
    shard_bytes: usize,
    shards: Vec<Vec<u8>>,
}

pub struct EncoderResult {
    recovery: Vec<Vec<u8>>,
}

impl EncoderResult {
    pub fn recovery_iter(&self) -> impl Iterator<Item = &[u8]> {
        self.recovery.iter().map(|v| v.as_slice())
    }
    pub fn recovery(&self, index: usize) -> Option<&[u8]> {
        self.recovery.get(index).map(|v| v.as_slice())
    }
}

impl ReedSolomonEncoder {
    pub fn new(original_count: usize, recovery_count: usize, shard_bytes: usize) -> Result<Self, Error> {
        check_counts(original_count, recovery_count, shard_bytes)?;
        Ok(ReedSolomonEncoder { original: original_count, recovery: recovery_count, shard_bytes, shards: Vec::new() })
    }

    pub fn add_original_shard<T: AsRef<[u8]>>(&mut self, shard: T) -> Result<(), Error> {
        let s = shard.as_ref();
        if s.len() != self.shard_bytes {
            return Err(Error::DifferentShardSize);
        }
        if self.shards.len() >= self.original {
            return Err(Error::TooManyOriginalShards);
        }
        self.shards.push(s.to_vec());
        Ok(())
    }

    pub fn encode(&mut self) -> Result<EncoderResult, Error> {
        if self.shards.len() != self.original {
            return Err(Error::TooFewOriginalShards);
        }
        let g = gf();
        let xs: Vec<u16> = (0..self.original as u16).collect();
        let mut recovery = Vec::with_capacity(self.recovery);
        for j in 0..self.recovery {
            let target = (self.original + j) as u16;
            let coeffs = lagrange_coeffs(&xs, target);
            let mut out = vec![0u8; self.shard_bytes];
            for sym in 0..self.shard_bytes / 2 {
                let mut acc: u16 = 0;
                for (i, c) in coeffs.iter().enumerate() {
                    let y = u16::from_le_bytes([self.shards[i][2 * sym], self.shards[i][2 * sym + 1]]);
                    acc ^= g.mul(*c, y);
                }
                out[2 * sym..2 * sym + 2].copy_from_slice(&acc.to_le_bytes());
            }
            recovery.push(out);
        }
        self.shards.clear();
        Ok(EncoderResult { recovery })
    }
}

pub struct ReedSolomonDecoder {
    original: usize,
    recovery: usize,
    shard_bytes: usize,
    orig: BTreeMap<usize, Vec<u8>>,
    rec: BTreeMap<usize, Vec<u8>>,
}

pub struct DecoderResult {
    restored: BTreeMap<usize, Vec<u8>>,
}

impl DecoderResult {
    pub fn restored_original_iter(&self) -> impl Iterator<Item = (usize, &[u8])> {
        self.restored.iter().map(|(k, v)| (*k, v.as_slice()))
    }
    pub fn restored_original(&self, index: usize) -> Option<&[u8]> {
        self.restored.get(&index).map(|v| v.as_slice())
    }
}

impl ReedSolomonDecoder {
    pub fn new(original_count: usize, recovery_count: usize, shard_bytes: usize) -> Result<Self, Error> {
        check_counts(original_count, recovery_count, shard_bytes)?;
        Ok(ReedSolomonDecoder { original: original_count, recovery: recovery_count, shard_bytes, orig: BTreeMap::new(), rec: BTreeMap::new() })
    }

    pub fn add_original_shard<T: AsRef<[u8]>>(&mut self, index: usize, shard: T) -> Result<(), Error> {
        let s = shard.as_ref();
        if index >= self.original {
            return Err(Error::InvalidOriginalShardIndex);
        }
        if s.len() != self.shard_bytes {
            return Err(Error::DifferentShardSize);
        }
        if self.orig.contains_key(&index) {
            return Err(Error::DuplicateOriginalShardIndex);
        }
        self.orig.insert(index, s.to_vec());
        Ok(())
    }

    pub fn add_recovery_shard<T: AsRef<[u8]>>(&mut self, index: usize, shard: T) -> Result<(), Error> {
        let s = shard.as_ref();
        if index >= self.recovery {
            return Err(Error::InvalidRecoveryShardIndex);
        }
        if s.len() != self.shard_bytes {
            return Err(Error::DifferentShardSize);
        }
        if self.rec.contains_key(&index) {
            return Err(Error::DuplicateRecoveryShardIndex);
        }
        self.rec.insert(index, s.to_vec());
        Ok(())
    }

    pub fn decode(&mut self) -> Result<DecoderResult, Error> {
        let mut restored = BTreeMap::new();
        if self.orig.len() == self.original {
            self.orig.clear();
            self.rec.clear();
            return Ok(DecoderResult { restored });
        }
        if self.orig.len() + self.rec.len() < self.original {
            return Err(Error::NotEnoughShards);
        }
        let g = gf();
        // choose k known points: all originals, then recovery shards in index order
        let mut xs: Vec<u16> = Vec::with_capacity(self.original);
        let mut ys: Vec<&Vec<u8>> = Vec::with_capacity(self.original);
        for (i, v) in self.orig.iter() {
            xs.push(*i as u16);
            ys.push(v);
        }
        for (j, v) in self.rec.iter() {
            if xs.len() == self.original {
                break;
            }
            xs.push((self.original + *j) as u16);
            ys.push(v);
        }
        for target in 0..self.original {
            if self.orig.contains_key(&target) {
                continue;
            }
            let coeffs = lagrange_coeffs(&xs, target as u16);
            let mut out = vec![0u8; self.shard_bytes];
            for sym in 0..self.shard_bytes / 2 {
                let mut acc: u16 = 0;
                for (i, c) in coeffs.iter().enumerate() {
                    let y = u16::from_le_bytes([ys[i][2 * sym], ys[i][2 * sym + 1]]);
                    acc ^= g.mul(*c, y);
                }
                out[2 * sym..2 * sym + 2].copy_from_slice(&acc.to_le_bytes());
            }
            restored.insert(target, out);
        }
        self.orig.clear();
        self.rec.clear();
        Ok(DecoderResult { restored })
    }
}

#[cfg(test)]
mod tests {
    use super::*;
    #[test]
    fn roundtrip() {
        let k = 5;
        let m = 7;
        let mut enc = ReedSolomonEncoder::new(k, m, 2).unwrap();
        let data: Vec<[u8; 2]> = (0..k).map(|i| [(i * 37 + 1) as u8, (i * 91 + 3) as u8]).collect();
        for d in &data {
            enc.add_original_shard(d).unwrap();
        }
        let r = enc.encode().unwrap();
        let rec: Vec<Vec<u8>> = r.recovery_iter().map(|s| s.to_vec()).collect();
        let mut dec = ReedSolomonDecoder::new(k, m, 2).unwrap();
        dec.add_original_shard(1, &data[1]).unwrap();
        for j in [0usize, 2, 4, 6] {
            dec.add_recovery_shard(j, &rec[j]).unwrap();
        }
        let out = dec.decode().unwrap();
        for (i, s) in out.restored_original_iter() {
            assert_eq!(s, &data[i][..]);
        }
        assert_eq!(out.restored_original_iter().count(), 4);
    }
}
