package telemetry

// Free-running -race twin of the C28 harness (DESIGN §3.3): same client, real
// goroutines, un-instrumented sources. It samples; its only job is to establish
// the precondition of the schedule exploration, namely that all shared accesses
// of tcpClient happen at synchronisation operations (no data race).

import (
	"context"
	"io"
	"log"
	"net"
	"os"
	"sync"
	"testing"
	"time"
)

func TestVerif_C28_Race(t *testing.T) {
	if os.Getenv("VERIF_ID") != "C28" {
		t.Skip("not selected")
	}
	log.SetOutput(io.Discard)
	iters := 300
	for it := 0; it < iters; it++ {
		var mu sync.Mutex
		var servers []net.Conn
		cfg := Config{Endpoint: "fake:1", NodeInfo: NodeInfo{ImplName: "verif", ImplVersion: "0", GrayPaperVer: "0.7.2"},
			BufferSize: 1 + it%2, ReconnectMin: time.Millisecond, ReconnectMax: time.Millisecond,
			CloseTimeout: 20 * time.Millisecond, TailDropInterval: time.Millisecond}
		c, err := newTCPClient(cfg)
		if err != nil {
			t.Fatal(err)
		}
		c.dialer = func(ctx context.Context, addr string) (net.Conn, error) {
			a, b := net.Pipe()
			mu.Lock()
			servers = append(servers, b)
			n := len(servers)
			mu.Unlock()
			go func() {
				buf := make([]byte, 64)
				total := 0
				for {
					k, err := b.Read(buf)
					total += k
					if err != nil {
						return
					}
					// some connections are cut by the peer after a few bytes
					if (it+n)%3 == 0 && total > 120 {
						b.Close()
						return
					}
				}
			}()
			return a, nil
		}
		c.start()
		var wg sync.WaitGroup
		for g := 0; g < 3; g++ {
			wg.Add(1)
			go func(g int) {
				defer wg.Done()
				for k := 0; k < 6; k++ {
					id := c.Emit(uint8(10+g), []byte{byte(g), byte(k)})
					c.EmitFollowup(11, id, []byte{byte(g)})
					c.EmitLazy(12, func() []byte { return []byte{byte(k)} })
					if k%3 == it%3 {
						time.Sleep(200 * time.Microsecond)
					}
				}
			}(g)
		}
		if it%2 == 0 {
			wg.Wait()
		}
		c.Close()
		wg.Wait()
		mu.Lock()
		for _, s := range servers {
			s.Close()
		}
		mu.Unlock()
	}
}
