package telemetry

// C28 — telemetry stream stays aligned with event IDs.
// Stateless schedule exploration (vsched) of the REAL tcpClient (sources
// rewritten by vrewrite so that every mutex/atomic/channel/timer/go statement is
// a scheduling point), with a fake dialer/connection whose answers are
// explorer-owned choices. Every execution within the deviation bound is run and
// checked against the R-telemetry receiver.

import (
	"bytes"
	"context"
	"encoding/binary"
	"errors"
	"fmt"
	"io"
	"log"
	"net"
	"os"
	"strings"
	"testing"
	"time"

	"github.com/New-JAMneration/JAM-Protocol/internal/zzverif/vlib"
	"github.com/New-JAMneration/JAM-Protocol/internal/zzverif/vsched"
	"github.com/New-JAMneration/JAM-Protocol/internal/zzverif/vsync"
)

// ---------------------------------------------------------------- fake network

type c28Conn struct {
	w          *c28World
	idx        int
	buf        []byte
	closed     bool
	peerClosed bool
	broken     bool // a write failed: later writes fail too
	failedMid  bool // a write error / stall interrupted a frame
	obj        uint64
}

func (c *c28Conn) StateHash() uint64 {
	h := uint64(len(c.buf))<<8 | uint64(c.idx)<<4
	if c.closed {
		h |= 1
	}
	if c.peerClosed {
		h |= 2
	}
	if c.broken {
		h |= 4
	}
	return h
}

var c28ErrWrite = errors.New("c28: injected write error")

func (c *c28Conn) Write(b []byte) (int, error) {
	e := vsched.Current()
	if e == nil || e.Aborted() {
		return 0, net.ErrClosed
	}
	e.Point("conn.write", c.obj)
	if c.closed {
		c.failedMid = true // a frame may be cut short by the local (forced) close
		return 0, net.ErrClosed
	}
	if c.broken {
		c.failedMid = true
		return 0, c28ErrWrite
	}
	ans := 0
	if c.w.faults > 0 {
		ans = e.Choose("write-answer", 4, []int{0, 1, 1, 1})
		if ans != 0 {
			c.w.faults--
		}
	}
	switch ans {
	case 1: // error, nothing written
		c.broken = true
		c.failedMid = true
		c.w.note("write-error")
		return 0, c28ErrWrite
	case 2: // short write, no error (io.Writer contract allows it for wrappers)
		n := (len(b) + 1) / 2
		c.buf = append(c.buf, b[:n]...)
		c.w.note("write-short")
		return n, nil
	case 3: // stall until the connection is closed locally
		c.w.note("write-stall")
		c.failedMid = true
		e.Yield(&vsched.Op{Kind: "conn.write.stalled", Obj: c.obj, Enabled: func() bool { return c.closed }})
		return 0, net.ErrClosed
	}
	c.buf = append(c.buf, b...)
	return len(b), nil
}

func (c *c28Conn) Read(b []byte) (int, error) {
	e := vsched.Current()
	if e == nil || e.Aborted() {
		return 0, io.EOF
	}
	e.Yield(&vsched.Op{Kind: "conn.read", Obj: c.obj, Enabled: func() bool { return c.closed || c.peerClosed }})
	if c.closed {
		return 0, net.ErrClosed
	}
	return 0, io.EOF
}

func (c *c28Conn) Close() error {
	e := vsched.Current()
	if e != nil && !e.Aborted() {
		e.Point("conn.close", c.obj)
	}
	c.closed = true
	return nil
}

type c28Addr struct{}

func (c28Addr) Network() string { return "fake" }
func (c28Addr) String() string  { return "fake" }

func (c *c28Conn) LocalAddr() net.Addr                { return c28Addr{} }
func (c *c28Conn) RemoteAddr() net.Addr               { return c28Addr{} }
func (c *c28Conn) SetDeadline(t time.Time) error      { return nil }
func (c *c28Conn) SetReadDeadline(t time.Time) error  { return nil }
func (c *c28Conn) SetWriteDeadline(t time.Time) error { return nil }

// ---------------------------------------------------------------- world

type c28Emit struct {
	Tag    string `json:"tag"`
	ID     uint64 `json:"id"`
	Parent string `json:"parent,omitempty"`
	Thread string `json:"thread"`
	Conn   int    `json:"conn"` // index of the connection that was current when the call returned
}

type c28World struct {
	conns     []*c28Conn
	emits     []c28Emit
	faults    int
	maxConns  int
	notes     []string
	blocked   string // first "emitter blocked" observation
	wantEmits int
	nodeInfo  []byte
}

func (w *c28World) note(s string) { w.notes = append(w.notes, s) }

func (w *c28World) dial(ctx context.Context, addr string) (net.Conn, error) {
	e := vsched.Current()
	if e == nil || e.Aborted() {
		return nil, errors.New("aborted")
	}
	e.Point("dial", 0)
	if ctx.Err() != nil {
		return nil, ctx.Err()
	}
	if len(w.conns) >= w.maxConns {
		return nil, errors.New("c28: no more connections")
	}
	if w.faults > 0 {
		if e.Choose("dial-answer", 2, []int{0, 1}) == 1 {
			w.faults--
			w.note("dial-fail")
			return nil, errors.New("c28: injected dial failure")
		}
	}
	c := &c28Conn{w: w, idx: len(w.conns)}
	c.obj = e.NewObj(c)
	w.conns = append(w.conns, c)
	// the peer may close the connection at any later point (environment event, 1 deviation)
	e.AddEvent(&vsched.EnvEvent{
		Name:    fmt.Sprintf("peer-close-%d", c.idx),
		Enabled: func() bool { return !c.closed && !c.peerClosed && w.faults > 0 },
		Fire: func() {
			c.peerClosed = true
			w.faults--
			w.note("peer-close")
		},
	})
	return c, nil
}

// ---------------------------------------------------------------- scenario

type c28Scenario struct {
	Name      string
	Buffer    int
	MaxBound  int // 0: no cap; otherwise this scenario is explored with at most this many deviations
	LazyNil   int // 0: the lazy builder returns a payload; 1: it returns nil; 2: it returns an empty, non-nil slice
	CloseMode int // 0: Close after the emitters finished; 1: Close concurrently with the emitters; 2: two phases separated by a pause long enough for a reconnect, then Close
	Faults    int
	MaxConns  int
	// StartEpoch != 0: the exploration starts from the (reachable) state after StartEpoch-1 reconnections,
	// with an emitter still holding the id of the first event of the very first connection ("old")
	StartEpoch int
}

func c28Want(sc c28Scenario) int {
	if sc.CloseMode == 2 && sc.StartEpoch != 0 {
		return 7 // the six calls plus the recorded "old" id
	}
	if sc.CloseMode == 2 {
		return 6
	}
	return 4
}

func c28NodeInfo() NodeInfo {
	return NodeInfo{ImplName: "verif", ImplVersion: "0", GrayPaperVer: "0.7.2", PeerPort: 1}
}

func c28Body(sc c28Scenario, w *c28World) func(e *vsched.Exec) {
	return func(e *vsched.Exec) {
		cfg := Config{Endpoint: "fake:1", NodeInfo: c28NodeInfo(), BufferSize: sc.Buffer,
			ReconnectMin: 7 * time.Millisecond, ReconnectMax: 7 * time.Millisecond,
			CloseTimeout: 25 * time.Millisecond, TailDropInterval: 10 * time.Millisecond}
		c, err := newTCPClient(cfg)
		if err != nil {
			panic(err)
		}
		c.dialer = w.dial
		if sc.StartEpoch != 0 {
			c.seq.currentEpoch = uint16(sc.StartEpoch)
			w.emits = append(w.emits, c28Emit{Tag: "old", ID: makeEventID(1, 0), Thread: "history", Conn: -1})
		}
		c.start()
		// wait (visibly) until the first connection is up so that the default schedule delivers events
		e.Await("await-enabled", func() bool { return c.enabledFlag.Peek() || len(w.notes) > 0 || len(w.conns) >= w.maxConns })
		var wg vsync.WaitGroup
		wg.Add(2)
		rec := func(th, tag, parent string, id uint64) {
			// no scheduling point lies between the try-send inside Emit* and this line, and a
			// reconnect needs the sequencer lock the emitter held, so the newest connection is
			// the one the returned id belongs to
			w.emits = append(w.emits, c28Emit{Tag: tag, ID: id, Parent: parent, Thread: th, Conn: len(w.conns) - 1})
		}
		vsched.GoNamed("emitterA", func() {
			defer wg.Done()
			id1 := c.Emit(10, []byte("a1"))
			rec("emitterA", "a1", "", id1)
			id2 := c.EmitFollowup(11, id1, []byte("a2"))
			rec("emitterA", "a2", "a1", id2)
		})
		vsched.GoNamed("emitterB", func() {
			defer wg.Done()
			// the lazy event's payload is the tag by which the receiver oracle recognises it; in the
			// nil / empty variants the tag is the empty string (a header-only frame must still be sent:
			// the id was handed out and the receiver's numbering advances per frame)
			b1 := []byte("b1")
			switch sc.LazyNil {
			case 1:
				b1 = nil
			case 2:
				b1 = []byte{}
			}
			id1 := c.EmitLazy(12, func() []byte { return b1 })
			rec("emitterB", string(b1), "", id1)
			id2 := c.Emit(13, []byte("b2"))
			rec("emitterB", "b2", "", id2)
		})
		if sc.CloseMode != 1 {
			wg.Wait()
		}
		if sc.CloseMode == 2 {
			// phase 2 after a pause that lets a lost connection be re-established: a fresh
			// event and a follow-up whose parent (a1) may belong to the previous connection
			vsched.Sleep(20 * time.Millisecond)
			wg.Add(1)
			vsched.GoNamed("emitterC", func() {
				defer wg.Done()
				id1 := c.Emit(14, []byte("c1"))
				rec("emitterC", "c1", "", id1)
				var pid uint64 = InvalidID
				for _, em := range w.emits {
					if em.Tag == "a1" {
						pid = em.ID
					}
				}
				ptag := "a1"
				if sc.StartEpoch != 0 {
					ptag, pid = "old", makeEventID(1, 0)
				}
				id2 := c.EmitFollowup(11, pid, []byte("c2"))
				rec("emitterC", "c2", ptag, id2)
			})
			wg.Wait()
		}
		c.Close()
		wg.Wait()
	}
}

// emitters never block: an emitter thread may only ever wait for the sequencer
// mutex, and then only behind a thread that can itself make progress.
func c28OnStep(w *c28World) func(e *vsched.Exec) {
	return func(e *vsched.Exec) {
		if w.blocked != "" {
			return
		}
		ths := e.Threads()
		for _, t := range ths {
			if !strings.HasPrefix(t.Name, "emitter") || t.Done || t.Pending == "" || t.Enabled {
				continue
			}
			if t.Pending != "mutex.lock" {
				w.blocked = fmt.Sprintf("%s blocked on %s#%d", t.Name, t.Pending, t.Obj)
				return
			}
			if t.Owner >= 0 && t.Owner < len(ths) {
				o := ths[t.Owner]
				if !o.Done && o.Pending != "" && !o.Enabled && !strings.HasPrefix(o.Name, "emitter") {
					w.blocked = fmt.Sprintf("%s waits for the sequencer lock held by %s, which is blocked on %s#%d", t.Name, o.Name, o.Pending, o.Obj)
					return
				}
			}
		}
	}
}

// ---------------------------------------------------------------- oracle (R-telemetry receiver)

type c28Verdict struct {
	Kind   string
	Key    string
	Detail string
}

func c28Check(e *vsched.Exec, w *c28World) (out []c28Verdict, class string) {
	bad := func(kind, key, format string, a ...interface{}) {
		out = append(out, c28Verdict{kind, key, fmt.Sprintf(format, a...)})
	}
	// Close is bounded by design (CloseTimeout, force-close of the registered connection, one second of
	// grace, then it returns and logs "goroutines still running"). When the peer never answers a write
	// (the fake connection stalls it until a LOCAL close, i.e. forever once Close has given up), the
	// client's own goroutines stay parked behind that write after main and every emitter have finished.
	// The statement says nothing about goroutines outliving Close, so this terminal state is not a
	// deadlock of the protocol: it is recorded in the class and the stream oracle still applies.
	leak := false
	if e.Outcome == "deadlock" {
		leak = true
		stalled := false
		for _, b := range e.Blocked {
			at := strings.Index(b, "@")
			name, kind := b[:at], b[at+1:]
			if h := strings.Index(kind, "#"); h >= 0 {
				kind = kind[:h]
			}
			if name == "main" || strings.HasPrefix(name, "emitter") {
				leak = false
			}
			switch kind {
			case "conn.write.stalled":
				stalled = true
			case "conn.read", "wg.wait":
			default:
				leak = false
			}
		}
		leak = leak && stalled
	}
	if e.Outcome != "ok" && !leak {
		switch e.Outcome {
		case "deadlock":
			bad("deadlock", strings.Join(c28Names(e.Blocked), ","), "no enabled thread and no timer: %v", e.Blocked)
		case "horizon":
			bad("no-termination", "", "%s; blocked: %v", e.Detail, e.Blocked)
		case "panic":
			bad("go-panic", "", "%s", e.Detail)
		default:
			bad("harness-"+e.Outcome, "", "%s", e.Detail)
		}
	}
	if w.blocked != "" {
		bad("emitter-blocked", "", "%s", w.blocked)
	}
	byTag := map[string]c28Emit{}
	for _, em := range w.emits {
		byTag[em.Tag] = em
	}
	if (e.Outcome == "ok" || leak) && len(w.emits) != w.wantEmits {
		bad("emitter-unfinished", "", "only %d of %d emit calls returned", len(w.emits), w.wantEmits)
	}
	// follow-ups only with a parent from the same connection
	for _, em := range w.emits {
		if em.Parent == "" || em.ID == InvalidID {
			continue
		}
		p := byTag[em.Parent]
		if p.ID == InvalidID || eventIDEpoch(p.ID) != eventIDEpoch(em.ID) {
			bad("followup-parent-epoch", "", "follow-up %s got id %#x with parent %s id %#x (different connection epoch or invalid parent)", em.Tag, em.ID, p.Tag, p.ID)
		} else if p.Conn != em.Conn {
			bad("followup-parent-other-connection", "", "follow-up %s got id %#x on connection %d although its parent %s (id %#x) was handed out on connection %d", em.Tag, em.ID, em.Conn, p.Tag, p.ID, p.Conn)
		}
	}
	delivered := 0
	dropsSeen := 0
	var lastEpoch uint16
	for _, c := range w.conns {
		s := c.buf
		frames := [][]byte{}
		for len(s) >= 4 {
			n := int(binary.LittleEndian.Uint32(s))
			if len(s) < 4+n {
				break
			}
			frames = append(frames, s[4:4+n])
			s = s[4+n:]
		}
		if len(s) != 0 && !c.failedMid {
			bad("malformed-stream", "trailing", "connection %d: %d trailing bytes that are not a complete frame although no write failed: %x", c.idx, len(s), s)
		}
		if len(frames) == 0 {
			continue
		}
		if !bytes.Equal(frames[0], w.nodeInfo) {
			bad("malformed-stream", "nodeinfo", "connection %d does not start with the node-information frame: %x", c.idx, frames[0])
			continue
		}
		var counter uint64
		var epoch uint16
		haveEpoch := false
		seenSeq := map[uint64]string{}
		for _, f := range frames[1:] {
			if len(f) < 9 {
				bad("malformed-stream", "short-frame", "connection %d: frame of %d bytes", c.idx, len(f))
				break
			}
			disc := f[8]
			body := f[9:]
			if disc == 0 {
				if len(body) != 16 {
					bad("malformed-stream", "dropped-size", "connection %d: Dropped record with %d payload bytes", c.idx, len(body))
					break
				}
				cnt := binary.LittleEndian.Uint64(body[8:])
				if cnt == 0 {
					bad("malformed-stream", "dropped-zero", "connection %d: Dropped record with count 0", c.idx)
				}
				counter += cnt
				dropsSeen++
				continue
			}
			tag := string(body)
			var parentSeq uint64
			isFollow := disc == 11
			if isFollow {
				if len(body) < 8 {
					bad("malformed-stream", "followup-size", "connection %d: follow-up frame too short", c.idx)
					break
				}
				parentSeq = binary.LittleEndian.Uint64(body)
				tag = string(body[8:])
			}
			em, ok := byTag[tag]
			if !ok {
				bad("unknown-event", "", "connection %d delivered an event with payload %q that no emitter call produced (or whose call never returned)", c.idx, tag)
				counter++
				continue
			}
			delivered++
			if prev, dup := seenSeq[counter]; dup {
				bad("duplicate-seq", "", "connection %d: %s and %s both numbered %d", c.idx, prev, tag, counter)
			}
			seenSeq[counter] = tag
			if em.ID == InvalidID {
				bad("delivered-invalid", "", "event %s was delivered on connection %d as #%d but its emitter received InvalidID", tag, c.idx, counter)
			} else {
				if em.Conn != c.idx {
					bad("stale-delivery", "", "event %s received its id %#x while connection %d was current but was delivered on connection %d as #%d", tag, em.ID, em.Conn, c.idx, counter)
				}
				if eventIDSeq(em.ID) != counter {
					bad("misaligned", fmt.Sprintf("disc=%d", disc), "connection %d: receiver numbers event %s as %d but its emitter received seq %d (id %#x); notes=%v", c.idx, tag, counter, eventIDSeq(em.ID), em.ID, w.notes)
				}
				ep := eventIDEpoch(em.ID)
				if haveEpoch && ep != epoch {
					bad("mixed-epochs", "", "connection %d carries events of epochs %d and %d", c.idx, epoch, ep)
				}
				if !haveEpoch {
					haveEpoch = true
					epoch = ep
					if ep <= lastEpoch {
						bad("epoch-order", "", "connection %d uses epoch %d after epoch %d", c.idx, ep, lastEpoch)
					}
					lastEpoch = ep
				}
				if isFollow {
					p := byTag[em.Parent]
					if p.ID == InvalidID || eventIDSeq(p.ID) != parentSeq {
						bad("followup-parent-seq", "", "follow-up %s carries parent seq %d but parent %s has id %#x", tag, parentSeq, p.Tag, p.ID)
					}
				}
			}
			counter++
		}
	}
	valid := 0
	for _, em := range w.emits {
		if em.ID != InvalidID {
			valid++
		}
	}
	oc := e.Outcome
	if leak {
		oc = "ok-goroutines-parked-behind-stalled-write-after-bounded-close"
	}
	class = fmt.Sprintf("out=%s conns=%d valid=%d delivered=%d drops=%d notes=%s", oc, len(w.conns), valid, delivered, dropsSeen, strings.Join(w.notes, "+"))
	return
}

func c28Names(b []string) []string {
	var o []string
	for _, s := range b {
		if i := strings.Index(s, "@"); i > 0 {
			o = append(o, s[:i]+"@"+strings.SplitN(s[i+1:], "#", 2)[0])
		}
	}
	return o
}

// ---------------------------------------------------------------- self checks of the scheduler

func c28SelfTest(t *testing.T) {
	// planted lost update: two threads do load;store on a shared counter through
	// atomics. Must be found with 1 preemption and not with 0.
	find := func(bound int) bool {
		found := false
		var result int64
		x := &vsched.Explorer{Bound: bound, NShards: 1,
			Body: func(e *vsched.Exec) {
				var ctr c28AtomicI64
				var wg vsync.WaitGroup
				wg.Add(2)
				for i := 0; i < 2; i++ {
					vsched.Go(func() {
						defer wg.Done()
						v := ctr.Load()
						ctr.Store(v + 1)
					})
				}
				wg.Wait()
				result = ctr.v
			},
			OnExec: func(e *vsched.Exec) {
				if e.Outcome != "ok" {
					t.Fatalf("selftest outcome %s %s", e.Outcome, e.Detail)
				}
				if result != 2 {
					found = true
				}
			}}
		x.Run()
		return found
	}
	if find(0) {
		t.Fatalf("vsched selftest: lost update found with 0 preemptions")
	}
	if !find(1) {
		t.Fatalf("vsched selftest: planted lost update NOT found with 1 preemption")
	}
}

type c28AtomicI64 struct {
	v   int64
	obj uint64
	ep  uint64
}

func (a *c28AtomicI64) StateHash() uint64 { return uint64(a.v) }
func (a *c28AtomicI64) pt() {
	e := vsched.Current()
	if a.ep != e.Epoch() {
		a.ep = e.Epoch()
		a.obj = e.NewObj(a)
	}
	e.Point("toy.atomic", a.obj)
}
func (a *c28AtomicI64) Load() int64   { a.pt(); return a.v }
func (a *c28AtomicI64) Store(v int64) { a.pt(); a.v = v }

// ---------------------------------------------------------------- driver

type c28Replay struct {
	Scenario c28Scenario `json:"scenario"`
	Free     bool        `json:"free_switch"`
	Choices  []int       `json:"choices"`
	Ops      []string    `json:"ops,omitempty"`
	Emits    []c28Emit   `json:"emits,omitempty"`
	Streams  []string    `json:"streams,omitempty"`
}

func TestVerif_C28(t *testing.T) {
	r := vlib.Start(t, "C28")
	defer r.Finish()
	log.SetOutput(io.Discard)
	nodeInfo, err := c28NodeInfo().Encode()
	if err != nil {
		t.Fatal(err)
	}

	freeMode := false
	runOne := func(sc c28Scenario, prefix []int, keep bool) (*vsched.Exec, *c28World) {
		w := &c28World{faults: sc.Faults, maxConns: sc.MaxConns, nodeInfo: nodeInfo, wantEmits: c28Want(sc)}
		e := vsched.RunOnce(prefix, nil, func(e *vsched.Exec) {
			e.KeepOps = keep
			e.OnStep = c28OnStep(w)
			e.MaxSteps = 4000
			e.MaxFires = 30
			e.FreeSwitch = freeMode
		}, c28Body(sc, w))
		return e, w
	}
	report := func(sc c28Scenario, e *vsched.Exec, w *c28World, vs []c28Verdict, free bool) {
		freeMode = free
		defer func() { freeMode = false }()
		for _, v := range vs {
			// re-run with the op trace for the artefact, and confirm determinism
			e2, w2 := runOne(sc, e.Choices(), true)
			vs2, _ := c28Check(e2, w2)
			same := false
			for _, x := range vs2 {
				if x.Kind == v.Kind {
					same = true
				}
			}
			var streams []string
			for _, c := range w2.conns {
				streams = append(streams, vlib.Hex(c.buf))
			}
			rp := c28Replay{Scenario: sc, Free: free, Choices: e.Choices(), Ops: e2.OpTrace, Emits: w2.emits, Streams: streams}
			if !same {
				r.Violation("harness", "nondeterministic-replay", sc.Name, "violation "+v.Kind+" did not reproduce from its choice list: "+v.Detail, rp)
				continue
			}
			r.Violation("telemetry.tcpClient", v.Kind, sc.Name+";"+v.Key, fmt.Sprintf("scenario %s, %d choice points, cost %d: %s", sc.Name, len(e.Points), e.Cost(), v.Detail), rp)
		}
	}

	var rp c28Replay
	if r.IsReplay(&rp) {
		freeMode = rp.Free
		e, w := runOne(rp.Scenario, rp.Choices, true)
		vs, class := c28Check(e, w)
		r.Eval()
		r.Class(class)
		report(rp.Scenario, e, w, vs, rp.Free)
		return
	}

	c28SelfTest(t)

	type mode struct {
		Free  bool
		Bound int
	}
	// delay bounding (every departure from the default thread order costs 1) and
	// CHESS preemption bounding (switches at blocking points are free)
	modes := vlib.Pick(r, []mode{{false, 3}, {true, 1}}, []mode{{false, 4}, {true, 2}})
	if v := os.Getenv("VERIF_C28_BOUND"); v != "" {
		var b int
		fmt.Sscan(v, &b)
		modes = []mode{{os.Getenv("VERIF_C28_FREE") == "1", b}}
	}
	scenarios := []c28Scenario{
		{Name: "buf1-close-after", Buffer: 1, CloseMode: 0, Faults: 2, MaxConns: 2},
		{Name: "buf1-close-concurrent", Buffer: 1, CloseMode: 1, Faults: 2, MaxConns: 2},
		{Name: "buf2-two-phase", Buffer: 2, CloseMode: 2, Faults: 2, MaxConns: 2},
		// payload-shape variants: the defect class they are for needs no particular interleaving
		{Name: "buf2-lazy-nil-payload", Buffer: 2, CloseMode: 0, Faults: 1, MaxConns: 2, LazyNil: 1, MaxBound: 1},
		{Name: "buf2-lazy-empty-payload", Buffer: 2, CloseMode: 0, Faults: 1, MaxConns: 2, LazyNil: 2, MaxBound: 1},
		// the last epoch of the 16-bit space: a lost connection here exhausts the epoch counter
		{Name: "last-epoch-two-phase", Buffer: 2, CloseMode: 2, Faults: 1, MaxConns: 2, StartEpoch: 0xFFFF, MaxBound: 2},
	}
	if only := os.Getenv("VERIF_C28_ONLY"); only != "" { // development knob: one scenario
		var keep []c28Scenario
		for _, sc := range scenarios {
			if sc.Name == only {
				keep = append(keep, sc)
			}
		}
		scenarios = keep
	}
	totalStates := 0
	for _, md := range modes {
		md := md
		mname := fmt.Sprintf("delay<=%d", md.Bound)
		if md.Free {
			mname = fmt.Sprintf("preempt<=%d", md.Bound)
		}
		for _, sc := range scenarios {
			sc := sc
			// determinism self check: the default execution twice
			a, wa := runOne(sc, nil, false)
			b, wb := runOne(sc, nil, false)
			if a.OpHash() != b.OpHash() || len(wa.emits) != len(wb.emits) {
				t.Fatalf("C28: default execution of %s is not deterministic", sc.Name)
			}
			var w *c28World
			bound := md.Bound
			if sc.MaxBound > 0 && bound > sc.MaxBound {
				bound = sc.MaxBound
			}
			x := &vsched.Explorer{Bound: bound, Shard: r.Shard, NShards: r.NShards,
				Setup: func(e *vsched.Exec) {
					w = &c28World{faults: sc.Faults, maxConns: sc.MaxConns, nodeInfo: nodeInfo, wantEmits: c28Want(sc)}
					e.OnStep = c28OnStep(w)
					e.MaxSteps = 4000
					e.MaxFires = 30
					e.FreeSwitch = md.Free
				},
				Stop: r.Expired,
			}
			x.Body = func(e *vsched.Exec) { c28Body(sc, w)(e) }
			x.OnExec = func(e *vsched.Exec) {
				vs, class := c28Check(e, w)
				r.Eval()
				r.Trace()
				r.Class(class)
				if len(vs) > 0 {
					report(sc, e, w, vs, md.Free)
				}
				if r.WantSample() && e.Cost() == bound {
					r.Sample(map[string]interface{}{"mode": mname, "scenario": sc.Name, "choices": e.Choices(), "cost": e.Cost(), "class": class})
				}
			}
			st := x.Run()
			r.TransitionN(st.Transitions)
			totalStates += st.States
			if st.Capped {
				r.Cap("deadline reached in " + mname + " scenario " + sc.Name)
			}
			r.Extra("sum_executions "+mname+" "+sc.Name, st.Executions)
		}
	}
	r.StateCount(uint64(totalStates))
	r.Extra("sum_scheduler_states_per_shard", totalStates)
}
