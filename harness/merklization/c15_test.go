package merklization

// C15 — the state root is the GP Appendix D binary Merkle trie root and does
// not depend on the order of the entries; root(σ) = root(T(σ)).
//
// Bounded-exhaustive: 9-key universe (common prefixes 0,1,7,8,9,15,247 bits
// with a base key, plus one second pair differing only in the last bit), all
// subsets up to a size bound, every value-length assignment over
// {0,1,31,32,33,64}, every permutation of the entry list, against R-trie
// (lib/reftrie, bit-string definition).

import (
	"bytes"
	"fmt"
	"sort"
	"testing"

	"github.com/New-JAMneration/JAM-Protocol/internal/types"
	"github.com/New-JAMneration/JAM-Protocol/internal/zzverif/reftrie"
	"github.com/New-JAMneration/JAM-Protocol/internal/zzverif/vlib"
)

var c15PrefixLens = []int{0, 1, 7, 8, 9, 15, 247}
var c15ValueLens = []int{0, 1, 31, 32, 33, 64}

func c15FlipBit(k []byte, bit int) []byte {
	o := append([]byte(nil), k...)
	o[bit/8] ^= 1 << uint(7-bit%8)
	return o
}

// c15Universe: key 0 = base; keys 1..7 = base with bit p flipped (shares
// exactly p leading bits with base); key 8 = key 1 (the one that shares 0 bits)
// with its last bit flipped, i.e. a second pair that differs only in bit 247.
func c15Universe() [][]byte {
	base := make([]byte, 31)
	for i := range base {
		base[i] = byte(0x5A + 0x3D*i)
	}
	keys := [][]byte{base}
	for _, p := range c15PrefixLens {
		keys = append(keys, c15FlipBit(base, p))
	}
	keys = append(keys, c15FlipBit(keys[1], 247))
	return keys
}

func c15Value(keyIdx, l int) []byte {
	if l == 0 {
		if keyIdx%2 == 0 {
			return nil
		}
		return []byte{}
	}
	v := make([]byte, l)
	for j := range v {
		v[j] = byte(0x80 + 17*keyIdx + 29*j + l) // first octets have the top bit set or not, mixed
	}
	return v
}

type c15Case struct {
	Mode   string `json:"mode"`             // "set" | "state" | "lattice"
	Subset []int  `json:"subset,omitempty"` // key indices
	Lens   []int  `json:"lens,omitempty"`   // value length per subset member
	State  int    `json:"state,omitempty"`
	// lattice
	N       int    `json:"n,omitempty"`
	Pattern string `json:"pattern,omitempty"`
	Mix     string `json:"mix,omitempty"`
}

func c15MaxPrefix(keys [][]byte, subset []int) string {
	if len(subset) < 2 {
		return "-"
	}
	m := 0
	for i := range subset {
		for j := i + 1; j < len(subset); j++ {
			if p := reftrie.CommonPrefix(keys[subset[i]], keys[subset[j]]); p > m {
				m = p
			}
		}
	}
	return fmt.Sprint(m)
}

func c15RunSet(r *vlib.Run, keys [][]byte, c c15Case) {
	n := len(c.Subset)
	ref := make([]reftrie.Entry, n)
	kvs := make([]types.StateKeyVal, n)
	for i, ki := range c.Subset {
		v := c15Value(ki, c.Lens[i])
		ref[i] = reftrie.Entry{Key: keys[ki], Value: v}
		var sk types.StateKey
		copy(sk[:], keys[ki])
		kvs[i] = types.StateKeyVal{Key: sk, Value: types.ByteSequence(v)}
	}
	want, st := reftrie.RootStats(ref)
	depthClass := "0"
	switch {
	case st.MaxDepth >= 248:
		depthClass = "248"
	case st.MaxDepth >= 9:
		depthClass = "9..16"
	case st.MaxDepth >= 1:
		depthClass = "1..8"
	}
	r.Class(fmt.Sprintf("set n=%d embedded=%d hashed=%d depth=%s", n, st.Embedded, st.Hashed, depthClass))
	key := fmt.Sprintf("n=%d,maxprefix=%s", n, c15MaxPrefix(keys, c.Subset))
	if n == 1 {
		key = fmt.Sprintf("n=1,vlen=%d", c.Lens[0])
	}
	var first types.StateRoot
	firstSet := false
	in := make(types.StateKeyVals, n)
	vlib.Permutations(n, func(p []int) {
		for i, j := range p {
			in[i] = kvs[j]
		}
		var got types.StateRoot
		panicked, msg, site := vlib.Guard(func() { got = MerklizationSerializedState(in) })
		r.Eval()
		r.Space(1)
		r.Transition()
		if panicked {
			r.Violation("merklization."+site, "go-panic", key, fmt.Sprintf("subset %v lens %v perm %v: %s", c.Subset, c.Lens, p, msg), c)
			return
		}
		// the caller's list must not be reordered
		for i, j := range p {
			if in[i].Key != kvs[j].Key {
				r.Violation("merklization.MerklizationSerializedState", "input-reordered", key, fmt.Sprintf("subset %v lens %v perm %v: the caller's entry list was permuted", c.Subset, c.Lens, p), c)
				break
			}
		}
		if !firstSet {
			first, firstSet = got, true
		} else if got != first {
			r.Violation("merklization.MerklizationSerializedState", "order-dependent", key, fmt.Sprintf("subset %v lens %v: perm %v gives %x, first perm gave %x", c.Subset, c.Lens, p, got[:], first[:]), c)
		}
		if [32]byte(got) != want {
			r.Violation("merklization.MerklizationSerializedState", "root-mismatch", key, fmt.Sprintf("subset %v lens %v perm %v: got %x, R-trie %x", c.Subset, c.Lens, p, got[:], want[:]), c)
		}
	})
	// the cache-less entry point of the cached variant must agree as well
	var got2 types.StateRoot
	for i := range kvs {
		in[i] = kvs[i]
	}
	if panicked, msg, site := vlib.Guard(func() { got2 = MerklizationSerializedStateWithCache(in, nil) }); panicked {
		r.Violation("merklization."+site, "go-panic", key, msg, c)
	} else if [32]byte(got2) != want {
		r.Violation("merklization.MerklizationSerializedStateWithCache(nil)", "root-mismatch", key, fmt.Sprintf("subset %v lens %v: got %x, R-trie %x", c.Subset, c.Lens, got2[:], want[:]), c)
	}
	r.Transition()
	if r.WantSample() && n >= 3 {
		r.Sample(map[string]interface{}{"subset": c.Subset, "value_lens": c.Lens, "root": vlib.Hex(want[:]), "trie": st})
	}
}

// ---- full-state clause: MerklizationState(σ) = MerklizationSerializedState(T(σ)) = R-trie(T(σ)) ----

func c15Hash(seed byte) (h types.OpaqueHash) {
	for i := range h {
		h[i] = seed + byte(7*i)
	}
	return h
}

func c15Blob(seed byte, n int) types.ByteSequence {
	b := make(types.ByteSequence, n)
	for i := range b {
		b[i] = seed ^ byte(11*i)
	}
	return b
}

type c15Expect struct {
	key   []byte
	value []byte // nil = only presence of the key is asserted
	what  string
}

func c15States() (states []types.State, expects [][]c15Expect, names []string) {
	add := func(name string, s types.State, e []c15Expect) {
		states = append(states, s)
		expects = append(expects, e)
		names = append(names, name)
	}
	// 0: the zero state
	add("zero", types.State{}, nil)
	// 1: a few scalar components set, no services
	s1 := types.State{Tau: 0x01020304}
	s1.Eta[0] = types.Entropy(c15Hash(1))
	s1.Eta[3] = types.Entropy(c15Hash(9))
	add("scalars", s1, nil)
	// 2: one service with storage (embedded and hashed values), preimages and lookups
	mk := func(ids ...types.ServiceID) (types.State, []c15Expect) {
		s := types.State{Tau: 77, Delta: types.ServiceAccountState{}}
		var exp []c15Expect
		for n, id := range ids {
			acc := types.ServiceAccount{
				ServiceInfo:    types.ServiceInfo{CodeHash: c15Hash(byte(40 + n)), Balance: types.U64(1000 + n), Items: 5, Bytes: 300},
				StorageDict:    types.Storage{},
				PreimageLookup: types.PreimagesMapEntry{},
				LookupDict:     types.LookupMetaMapEntry{},
			}
			for j, sk := range []string{"", "k", string(c15Blob(3, 40))} {
				val := c15Blob(byte(60+j), []int{0, 32, 33}[j])
				acc.StorageDict[sk] = val
				h := append(reftrie.E4(0xFFFFFFFF), []byte(sk)...)
				exp = append(exp, c15Expect{reftrie.KeyServiceHash(uint32(id), h), val, fmt.Sprintf("storage service=%d keylen=%d", id, len(sk))})
			}
			for j := 0; j < 2; j++ {
				ph := c15Hash(byte(100 + 10*j + n))
				blob := c15Blob(byte(5+j), 31+2*j)
				acc.PreimageLookup[ph] = blob
				h := append(reftrie.E4(0xFFFFFFFE), ph[:]...)
				exp = append(exp, c15Expect{reftrie.KeyServiceHash(uint32(id), h), blob, fmt.Sprintf("preimage service=%d", id)})
				lk := types.LookupMetaMapkey{Hash: ph, Length: types.U32(len(blob))}
				acc.LookupDict[lk] = types.TimeSlotSet{types.TimeSlot(3 + j)}
				h2 := append(reftrie.E4(uint32(len(blob))), ph[:]...)
				exp = append(exp, c15Expect{reftrie.KeyServiceHash(uint32(id), h2), nil, fmt.Sprintf("lookup service=%d", id)})
			}
			s.Delta[id] = acc
			exp = append(exp, c15Expect{reftrie.KeyIndexService(255, uint32(id)), nil, fmt.Sprintf("service info service=%d", id)})
		}
		for i := byte(1); i <= 16; i++ {
			exp = append(exp, c15Expect{reftrie.KeyIndex(i), nil, fmt.Sprintf("component %d", i)})
		}
		return s, exp
	}
	s2, e2 := mk(7)
	add("one-service", s2, e2)
	// 3: three services whose ids share octets (interleaved key bytes collide in the first octet)
	s3, e3 := mk(0, 0x01000000, 0xFFFFFFFF)
	add("three-services", s3, e3)
	return
}

func c15RunState(r *vlib.Run, idx int) {
	states, expects, names := c15States()
	s, exp, name := states[idx], expects[idx], names[idx]
	c := c15Case{Mode: "state", State: idx}
	key := "state=" + name
	var kvs types.StateKeyVals
	var err error
	if panicked, msg, site := vlib.Guard(func() { kvs, err = StateEncoder(s) }); panicked {
		r.Violation("merklization."+site, "go-panic", key, msg, c)
		return
	}
	r.Transition()
	if err != nil {
		r.Violation("merklization.StateEncoder", "encode-error", key, err.Error(), c)
		return
	}
	ref := make([]reftrie.Entry, len(kvs))
	seen := map[string][]byte{}
	for i, kv := range kvs {
		ref[i] = reftrie.Entry{Key: append([]byte(nil), kv.Key[:]...), Value: kv.Value}
		if _, dup := seen[string(kv.Key[:])]; dup {
			r.Violation("merklization.StateEncoder", "duplicate-key", key, fmt.Sprintf("T(σ) contains key %x twice", kv.Key[:]), c)
			return
		}
		seen[string(kv.Key[:])] = kv.Value
	}
	for _, e := range exp {
		v, ok := seen[string(e.key)]
		if !ok {
			r.Violation("merklization.StateEncoder", "missing-key", key, fmt.Sprintf("%s: GP D.1 key %x not in T(σ)", e.what, e.key), c)
		} else if e.value != nil && !bytes.Equal(v, e.value) {
			r.Violation("merklization.StateEncoder", "wrong-value", key, fmt.Sprintf("%s: key %x has value %x, want %x", e.what, e.key, v, e.value), c)
		}
	}
	if len(exp) > 0 && len(exp) != len(kvs) {
		r.Violation("merklization.StateEncoder", "extra-keys", key, fmt.Sprintf("T(σ) has %d entries, GP D.2 gives %d", len(kvs), len(exp)), c)
	}
	want, st := reftrie.RootStats(ref)
	r.Class(fmt.Sprintf("state %s entries=%d hashedleaves>0=%v", name, len(kvs), st.Hashed > 0))
	root2 := MerklizationSerializedState(kvs)
	r.Transition()
	if [32]byte(root2) != want {
		r.Violation("merklization.MerklizationSerializedState", "root-mismatch", key, fmt.Sprintf("T(σ) root %x, R-trie %x", root2[:], want[:]), c)
	}
	// reversed and rotated orders of T(σ)
	rev := make(types.StateKeyVals, len(kvs))
	for i := range kvs {
		rev[len(kvs)-1-i] = kvs[i]
	}
	if got := MerklizationSerializedState(rev); got != root2 {
		r.Violation("merklization.MerklizationSerializedState", "order-dependent", key, "reversed T(σ) gives another root", c)
	}
	// the map-iteration / goroutine order inside StateEncoder differs from run to run
	for rep := 0; rep < 8; rep++ {
		var root1 types.StateRoot
		if panicked, msg, site := vlib.Guard(func() { root1 = MerklizationState(s) }); panicked {
			r.Violation("merklization."+site, "go-panic", key, msg, c)
			return
		}
		r.Transition()
		r.Eval()
		r.Space(1)
		if root1 != root2 {
			r.Violation("merklization.MerklizationState", "state-vs-serialisation", key, fmt.Sprintf("MerklizationState(σ)=%x, MerklizationSerializedState(T(σ))=%x", root1[:], root2[:]), c)
		}
	}
	if r.WantSample() {
		r.Sample(map[string]interface{}{"state": name, "entries": len(kvs), "root": vlib.Hex(want[:])})
	}
}

// ---- size lattice (NOT complete: a lattice of sizes x key-shape patterns) ----
//
// Large entry sets reach code paths the <= 5-key enumeration cannot (size
// thresholds, bucketing by leading key bits). Keys are pseudo-random (Blake2b of
// a counter) with the leading nibble / leading bytes forced by the pattern.

var c15LatticePatterns = []string{"nib-all", "nib-0", "nib-0,1", "nib-0,15", "nib-7,8", "nib-even", "prefix-1", "prefix-2", "prefix-3"}

func c15LatticeSizes(thorough bool) []int {
	s := []int{6, 16, 17, 255, 256, 257, 1023, 1024, 1025, 1500}
	if thorough {
		s = append(s, 4096)
	}
	return s
}

func c15LatticeKeys(n int, pattern string) [][]byte {
	var nibbles []int
	prefix := 0
	switch pattern {
	case "nib-all":
		for i := 0; i < 16; i++ {
			nibbles = append(nibbles, i)
		}
	case "nib-0":
		nibbles = []int{0}
	case "nib-0,1":
		nibbles = []int{0, 1}
	case "nib-0,15":
		nibbles = []int{0, 15}
	case "nib-7,8":
		nibbles = []int{7, 8}
	case "nib-even":
		nibbles = []int{0, 2, 4, 6, 8, 10, 12, 14}
	case "prefix-1":
		prefix = 1
	case "prefix-2":
		prefix = 2
	case "prefix-3":
		prefix = 3
	default:
		panic("c15: unknown lattice pattern " + pattern)
	}
	fixed := []byte{0xA5, 0x5A, 0xC3}
	seen := map[string]bool{}
	var keys [][]byte
	for ctr := 0; len(keys) < n; ctr++ {
		h := reftrie.H([]byte(fmt.Sprintf("c15-lattice-%s-%d", pattern, ctr)))
		k := append([]byte(nil), h[:31]...)
		if nibbles != nil {
			k[0] = byte(nibbles[ctr%len(nibbles)]<<4) | k[0]&0x0F
		}
		copy(k, fixed[:prefix])
		if seen[string(k)] {
			continue
		}
		seen[string(k)] = true
		keys = append(keys, k)
	}
	return keys
}

func c15LatticeValue(i int, mix string) []byte {
	l := c15ValueLens[i%len(c15ValueLens)]
	if mix == "boundary" {
		l = 32 + i%2
	}
	return c15Value(i, l)
}

func c15RunLattice(r *vlib.Run, c c15Case) {
	keys := c15LatticeKeys(c.N, c.Pattern)
	ref := make([]reftrie.Entry, c.N)
	kvs := make(types.StateKeyVals, c.N)
	for i, k := range keys {
		v := c15LatticeValue(i, c.Mix)
		ref[i] = reftrie.Entry{Key: k, Value: v}
		copy(kvs[i].Key[:], k)
		kvs[i].Value = types.ByteSequence(v)
	}
	want, st := reftrie.RootStats(ref)
	sizeClass := "<1024"
	if c.N >= 1024 {
		sizeClass = ">=1024"
	}
	r.Class(fmt.Sprintf("lattice n%s pattern=%s mix=%s hashed>0=%v", sizeClass, c.Pattern, c.Mix, st.Hashed > 0))
	key := fmt.Sprintf("lattice;n%s;%s", sizeClass, c.Pattern)
	// two supply orders: ascending by key, and a stride permutation of the generation order
	sorted := make(types.StateKeyVals, c.N)
	copy(sorted, kvs)
	sort.Slice(sorted, func(i, j int) bool { return bytes.Compare(sorted[i].Key[:], sorted[j].Key[:]) < 0 })
	gcd := func(a, b int) int {
		for b != 0 {
			a, b = b, a%b
		}
		return a
	}
	stride := 7
	for gcd(stride, c.N) != 1 {
		stride += 2
	}
	strided := make(types.StateKeyVals, c.N)
	for i := range strided {
		strided[i] = kvs[(i*stride+3)%c.N] // a permutation of the generation order
	}
	for oi, in := range []types.StateKeyVals{sorted, strided} {
		order := []string{"sorted", "strided"}[oi]
		snapshot := make([]types.StateKey, c.N)
		for i := range in {
			snapshot[i] = in[i].Key
		}
		var got, got2 types.StateRoot
		panicked, msg, site := vlib.Guard(func() {
			got = MerklizationSerializedState(in)
			got2 = MerklizationSerializedStateWithCache(in, nil)
		})
		r.Eval()
		r.Space(1)
		r.TransitionN(2)
		if panicked {
			r.Violation("merklization."+site, "go-panic", key, fmt.Sprintf("%+v order %s: %s", c, order, msg), c)
			continue
		}
		for i := range in {
			if in[i].Key != snapshot[i] {
				r.Violation("merklization.MerklizationSerializedState", "input-reordered", key, fmt.Sprintf("%+v order %s: the caller's entry list was permuted", c, order), c)
				break
			}
		}
		if [32]byte(got) != want {
			r.Violation("merklization.MerklizationSerializedState", "root-mismatch", key, fmt.Sprintf("n=%d pattern=%s mix=%s order=%s: got %x, R-trie %x (trie: %+v)", c.N, c.Pattern, c.Mix, order, got[:], want[:], st), c)
		}
		if [32]byte(got2) != want {
			r.Violation("merklization.MerklizationSerializedStateWithCache(nil)", "root-mismatch", key, fmt.Sprintf("n=%d pattern=%s mix=%s order=%s: got %x, R-trie %x", c.N, c.Pattern, c.Mix, order, got2[:], want[:]), c)
		}
	}
	if r.WantSample() && c.N >= 1024 {
		r.Sample(map[string]interface{}{"lattice_n": c.N, "pattern": c.Pattern, "mix": c.Mix, "root": vlib.Hex(want[:]), "trie": st})
	}
}

func TestVerif_C15(t *testing.T) {
	r := vlib.Start(t, "C15")
	defer r.Finish()
	keys := c15Universe()

	// self-check of the universe: prefixes are what the rule says
	for i, p := range c15PrefixLens {
		if reftrie.CommonPrefix(keys[0], keys[1+i]) != p {
			t.Fatalf("universe: key %d shares %d bits, want %d", 1+i, reftrie.CommonPrefix(keys[0], keys[1+i]), p)
		}
	}
	if reftrie.CommonPrefix(keys[1], keys[8]) != 247 {
		t.Fatalf("universe: keys 1 and 8 must differ only in the last bit")
	}

	var rc c15Case
	if r.IsReplay(&rc) {
		if rc.Mode == "state" {
			c15RunState(r, rc.State)
		} else if rc.Mode == "lattice" {
			c15RunLattice(r, rc)
		} else {
			c15RunSet(r, keys, rc)
		}
		return
	}

	maxSize := vlib.Pick(r, 4, 5)
	var subsets [][]int
	vlib.Subsets(len(keys), maxSize, func(s []int) { subsets = append(subsets, append([]int(nil), s...)) })
	sort.SliceStable(subsets, func(i, j int) bool { return len(subsets[i]) < len(subsets[j]) })
	idx := uint64(0)
	for _, sub := range subsets {
		radix := make([]int, len(sub))
		for i := range radix {
			radix[i] = len(c15ValueLens)
		}
		od := vlib.NewOdometer(radix...)
		for od.Next() {
			idx++
			if !r.Mine(idx) {
				continue
			}
			lens := make([]int, len(sub))
			for i, d := range od.Digit {
				lens[i] = c15ValueLens[d]
			}
			c15RunSet(r, keys, c15Case{Mode: "set", Subset: sub, Lens: lens})
		}
	}
	ns, _, _ := c15States()
	for i := range ns {
		idx++
		if !r.Mine(idx) {
			continue
		}
		c15RunState(r, i)
	}
	// size lattice (a lattice, not a complete enumeration)
	for _, n := range c15LatticeSizes(r.Thorough()) {
		for _, pat := range c15LatticePatterns {
			for _, mix := range []string{"cycle", "boundary"} {
				idx++
				if !r.Mine(idx) {
					continue
				}
				c15RunLattice(r, c15Case{Mode: "lattice", N: n, Pattern: pat, Mix: mix})
			}
		}
	}
}
