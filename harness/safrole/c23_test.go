package safrole

// C23 — ticket accumulator and slot-sealer sequence (GP 6.24–6.26, 6.30–6.34).
//
// E2 (explicit-state search): state = history of accepted blocks; the frontier
// of canonical states (slot-in-epoch, accumulator ids, sealer kind) is computed
// with the reference model identically in every shard; every (state, event)
// pair is then checked on the real code: reset the singleton, replay the
// state's shortest history block by block through OuterUsedSafrole (every
// replayed block is compared too), apply the event, compare verdict, γ_a′, γ_s′
// with the reference and check the statement's clauses on γ_a′ directly.
// Ticket ids are chosen by the harness through the VRF stand-in.

import (
	"bytes"
	"fmt"
	"strings"
	"testing"

	"github.com/New-JAMneration/JAM-Protocol/config"
	"github.com/New-JAMneration/JAM-Protocol/internal/blockchain"
	"github.com/New-JAMneration/JAM-Protocol/internal/types"
	"github.com/New-JAMneration/JAM-Protocol/internal/zzverif/vlib"
	"github.com/New-JAMneration/JAM-Protocol/logger"
	vrf "github.com/New-JAMneration/JAM-Protocol/pkg/Rust-VRF/vrf-func-ffi/src"
	"golang.org/x/crypto/blake2b"
)

const (
	c23E = 4 // epoch length
	c23Y = 3 // submission window end
	c23K = 3 // max tickets per block
	c23N = 3 // attempts per validator
	c23V = 6 // validators
)

func c23World() {
	logger.GetLogger("main").Disable()
	config.Config.Database.Type = "memory"
	types.TEST_MODE = "tiny"
	types.ValidatorsCount = c23V
	types.CoresCount = 2
	types.EpochLength = c23E
	types.SlotSubmissionEnd = c23Y
	types.RotationPeriod = 4
	types.MaxTicketsPerBlock = c23K
	types.TicketsPerValidator = c23N
	types.ValidatorsSuperMajority = 5
	types.AvailBitfieldBytes = 1
	types.MaxLookupAge = 24
	types.MaxKeyLevelCacheSize = types.EpochLength * 50
}

func c23Reset() *blockchain.ChainState {
	blockchain.ResetInstance()
	blockchain.ClearVerifierCache()
	return blockchain.GetInstance()
}

// ---------- fixed validator set ----------

func c23Validators() types.ValidatorsData {
	vs := make(types.ValidatorsData, c23V)
	for i := range vs {
		for k := range vs[i].Bandersnatch {
			vs[i].Bandersnatch[k] = byte(0xB0 + i)
		}
		vs[i].Bandersnatch[0] = byte(i + 1)
		for k := range vs[i].Ed25519 {
			vs[i].Ed25519[k] = byte(0xE0 + i)
		}
	}
	return vs
}

func c23Ring() []byte {
	var ring []byte
	for _, v := range c23Validators() {
		ring = append(ring, v.Bandersnatch[:]...)
	}
	return ring
}

// ticket id label 1..6 -> 32-byte id; larger label = larger id
func c23ID(l int) types.TicketID {
	var id types.TicketID
	for k := 0; k < 31; k++ {
		id[k] = byte(0x77 ^ k) // all ids share their first 31 bytes
	}
	id[31] = byte(0x10 * l)
	return id
}

func c23LabelOf(id types.TicketID) int {
	for l := 0; l <= 9; l++ {
		if id == c23ID(l) {
			return l
		}
	}
	return -1
}

// ---------- reference model ----------

type c23Ticket struct {
	ID      int `json:"id"`
	Attempt int `json:"a"`
}

type c23State struct {
	Tau     int
	GammaA  []c23Ticket
	Tickets []c23Ticket // γ_s when it is a ticket sequence
	Keys    []int       // γ_s when it is a key sequence (validator indices)
	Eta     [4][32]byte
}

type c23Event struct {
	Step int         `json:"step"` // 0: +1, 1: +2, 2: next epoch start, 3: across Y, 4: start of the epoch after next
	Ext  []c23Ticket `json:"ext"`
}

var c23StepNames = []string{"+1", "+2", "next-epoch", "across-Y", "skip-epoch"}

func c23Slot(tau, step int) int {
	e, m := tau/c23E, tau%c23E
	switch step {
	case 0:
		return tau + 1
	case 1:
		return tau + 2
	case 2:
		return (e + 1) * c23E
	case 3:
		if m < c23Y {
			return e*c23E + c23Y
		}
		return (e+1)*c23E + c23Y
	default:
		return (e + 2) * c23E
	}
}

func c23Blake(parts ...[]byte) [32]byte {
	h, _ := blake2b.New256(nil)
	for _, p := range parts {
		h.Write(p)
	}
	var o [32]byte
	copy(o[:], h.Sum(nil))
	return o
}

// (6.26) F(r, k)
func c23Fallback(r [32]byte) []int {
	out := make([]int, c23E)
	for i := 0; i < c23E; i++ {
		h := c23Blake(r[:], []byte{byte(i), 0, 0, 0})
		v := uint32(h[0]) | uint32(h[1])<<8 | uint32(h[2])<<16 | uint32(h[3])<<24
		out[i] = int(v % c23V)
	}
	return out
}

// (6.25) Z
func c23OutsideIn(a []c23Ticket) []c23Ticket {
	out := make([]c23Ticket, 0, len(a))
	for i, j := 0, len(a)-1; i <= j; i, j = i+1, j-1 {
		out = append(out, a[i])
		if i != j {
			out = append(out, a[j])
		}
	}
	return out
}

// verdict of the reference on the extrinsic: "" = accept
func c23Verdict(s *c23State, slot int, ext []c23Ticket) string {
	e, ePrime, mPrime := s.Tau/c23E, slot/c23E, slot%c23E
	if mPrime >= c23Y && len(ext) > 0 {
		return "after-window"
	}
	for _, t := range ext {
		if t.Attempt >= c23N {
			return "over-attempt"
		}
	}
	for i := 1; i < len(ext); i++ {
		if ext[i-1].ID > ext[i].ID {
			return "unsorted"
		}
	}
	for i := 1; i < len(ext); i++ {
		if ext[i-1].ID == ext[i].ID {
			return "duplicate"
		}
	}
	if ePrime == e {
		for _, t := range ext {
			for _, a := range s.GammaA {
				if a.ID == t.ID {
					return "already-accumulated"
				}
			}
		}
	}
	return ""
}

// all reasons for which the statement wants the block rejected (for classes)
func c23Step(s *c23State, ev c23Event) (next c23State, verdict string, useless bool) {
	slot := c23Slot(s.Tau, ev.Step)
	e, m := s.Tau/c23E, s.Tau%c23E
	ePrime := slot / c23E
	next = *s
	next.Tau = slot
	// (6.22), (6.23) with Y(H_v) = 32 zero bytes (header entropy source is all zero)
	if ePrime > e {
		next.Eta[1], next.Eta[2], next.Eta[3] = s.Eta[0], s.Eta[1], s.Eta[2]
	}
	next.Eta[0] = c23Blake(s.Eta[0][:], make([]byte, 32))
	verdict = c23Verdict(s, slot, ev.Ext)
	if verdict != "" {
		return *s, verdict, false
	}
	// (6.34)
	var carried []c23Ticket
	if ePrime == e {
		carried = s.GammaA
	}
	all := append(append([]c23Ticket{}, ev.Ext...), carried...)
	for i := 1; i < len(all); i++ { // insertion sort by id
		for j := i; j > 0 && all[j-1].ID > all[j].ID; j-- {
			all[j-1], all[j] = all[j], all[j-1]
		}
	}
	if len(all) > c23E {
		for _, t := range ev.Ext {
			if t.ID >= all[c23E].ID {
				useless = true // GP 6.35 would reject; the statement does not say so
			}
		}
		all = all[:c23E]
	}
	next.GammaA = all
	// (6.24)
	switch {
	case ePrime == e+1 && m >= c23Y && len(s.GammaA) == c23E:
		next.Tickets, next.Keys = c23OutsideIn(s.GammaA), nil
	case ePrime == e:
	default:
		next.Tickets, next.Keys = nil, c23Fallback(next.Eta[2])
	}
	return next, "", useless
}

func c23Initial() c23State {
	var s c23State
	s.Tau = 2 * c23E
	for i := 0; i < 4; i++ {
		for k := 0; k < 32; k++ {
			s.Eta[i][k] = byte(0x31*(i+1) + k)
		}
	}
	s.Keys = c23Fallback(s.Eta[2])
	return s
}

func c23Canon(s *c23State) string {
	var sb strings.Builder
	fmt.Fprintf(&sb, "m=%d a=", s.Tau%c23E)
	for _, t := range s.GammaA {
		fmt.Fprintf(&sb, "%d", t.ID)
	}
	if s.Tickets != nil {
		sb.WriteString(" s=tickets")
	} else {
		sb.WriteString(" s=keys")
	}
	return sb.String()
}

// ---------- driving the real code ----------

func c23Install(cs *blockchain.ChainState, s *c23State) {
	vs := c23Validators()
	p := cs.GetPriorStates()
	p.SetTau(types.TimeSlot(s.Tau))
	var eta types.EntropyBuffer
	for i := range eta {
		eta[i] = types.Entropy(s.Eta[i])
	}
	p.SetEta(eta)
	p.SetGammaK(c23Validators())
	p.SetKappa(c23Validators())
	p.SetLambda(c23Validators())
	p.SetIota(c23Validators())
	ga := c23Body(s.GammaA)
	if c23Spare > 0 { // a slice with spare capacity, as the node's own posterior accumulator has
		g2 := make(types.TicketsAccumulator, len(ga), len(ga)+c23Spare)
		copy(g2, ga)
		ga = g2
	}
	p.SetGammaA(ga)
	var gs types.TicketsOrKeys
	if s.Tickets != nil {
		gs.Tickets = c23Body(s.Tickets)
	} else {
		for _, k := range s.Keys {
			gs.Keys = append(gs.Keys, vs[k].Bandersnatch)
		}
	}
	p.SetGammaS(gs)
}

func c23Body(ts []c23Ticket) types.TicketsAccumulator {
	out := make(types.TicketsAccumulator, 0, len(ts))
	for _, t := range ts {
		out = append(out, types.TicketBody{ID: c23ID(t.ID), Attempt: types.TicketAttempt(t.Attempt)})
	}
	return out
}

var c23RingBytes []byte

// spare capacity (cap - len) of the prior accumulator slice built by c23Install
var c23Spare int

var c23DiagPriorMutated int

func c23Extrinsic(ext []c23Ticket, eta2 [32]byte) types.TicketsExtrinsic {
	var out types.TicketsExtrinsic
	for _, t := range ext {
		ctx := append(append([]byte(types.JamTicketSeal), eta2[:]...), byte(t.Attempt))
		sig, err := vrf.MakeRingSignature(c23RingBytes, c23V, ctx, []byte{}, [32]byte(c23ID(t.ID)))
		if err != nil {
			panic(err)
		}
		var env types.TicketEnvelope
		env.Attempt = types.TicketAttempt(t.Attempt)
		copy(env.Signature[:], sig)
		out = append(out, env)
	}
	return out
}

func c23Tix(ts []types.TicketBody) string {
	var sb strings.Builder
	sb.WriteString("[")
	for i, t := range ts {
		if i > 0 {
			sb.WriteString(" ")
		}
		fmt.Fprintf(&sb, "%d/%d", c23LabelOf(t.ID), t.Attempt)
	}
	sb.WriteString("]")
	return sb.String()
}

func c23RefTix(ts []c23Ticket) string { return c23Tix(c23Body(ts)) }

func c23BodyEq(a []types.TicketBody, b []c23Ticket) bool {
	if len(a) != len(b) {
		return false
	}
	for i := range a {
		if a[i].ID != c23ID(b[i].ID) || int(a[i].Attempt) != b[i].Attempt {
			return false
		}
	}
	return true
}

type c23Case struct {
	History []c23Event   `json:"history"` // accepted blocks
	Event   c23Event     `json:"event"`
	Fork    *[3]c23Event `json:"fork,omitempty"` // fork-order case: e1, e2 on the state after History, e3 on step(S, e1)
	// same-parent case: block A then block B imported on the SAME installed parent object (no
	// re-install in between); Spare = spare capacity of the parent's accumulator slice
	Same  *[2]c23Event `json:"same,omitempty"`
	Spare int          `json:"spare,omitempty"`
}

// non-empty while a fork-order transition runs: prefixes the violation key
var c23KeyPrefix string

func c23ExtClass(s *c23State, slot int, ext []c23Ticket) string {
	if len(ext) == 0 {
		return "empty"
	}
	v := c23Verdict(s, slot, ext)
	if v == "" {
		return "fresh-sorted"
	}
	return v
}

func c23ALen(n int) string {
	switch {
	case n == 0:
		return "empty"
	case n < c23E:
		return "partial"
	}
	return "full"
}

// apply one block on the singleton and compare with the reference; returns the reference successor,
// whether the block was accepted by both, and false if a violation makes continuing pointless.
func c23Apply(r *vlib.Run, cs *blockchain.ChainState, s *c23State, ev c23Event, c *c23Case, isFinal, count bool) (c23State, bool, bool) {
	slot := c23Slot(s.Tau, ev.Step)
	next, verdict, useless := c23Step(s, ev)
	e, ePrime := s.Tau/c23E, slot/c23E
	// η′₂ as the implementation will compute it
	eta2 := s.Eta[2]
	if ePrime > e {
		eta2 = s.Eta[1]
	}
	blk := types.Block{Header: types.Header{Slot: types.TimeSlot(slot)}, Extrinsic: types.Extrinsic{Tickets: c23Extrinsic(ev.Ext, eta2)}}
	var code *types.ErrorCode
	panicked, msg, psite := vlib.Guard(func() {
		cs.AddBlock(blk)
		cs.GetPosteriorStates().SetTau(types.TimeSlot(slot))
		code = OuterUsedSafrole()
	})
	if count {
		r.Transition()
	}
	extClass := c23ExtClass(s, slot, ev.Ext)
	key := fmt.Sprintf("step=%s,ext=%s,acc=%s", c23StepNames[ev.Step], extClass, c23ALen(len(s.GammaA)))
	if c23KeyPrefix != "" {
		key = c23KeyPrefix // one hidden-state defect = few signatures
	}
	where := func() string {
		return c23KeyPrefix + fmt.Sprintf(" after %d accepted blocks (τ=%d m=%d γ_a=%s γ_s tickets=%v): block slot %d (m′=%d, %s) tickets %v", len(c.History), s.Tau, s.Tau%c23E, c23RefTix(s.GammaA), s.Tickets != nil, slot, slot%c23E, c23StepNames[ev.Step], ev.Ext)
	}
	if panicked {
		r.Violation("safrole."+strings.TrimPrefix(psite, "safrole."), "go-panic", key, where()+": Go panic "+msg, c)
		return next, false, false
	}
	if isFinal && count {
		codeS := "accepted"
		if code != nil {
			codeS = fmt.Sprintf("rejected(code %d)", int(*code))
		}
		sk := "keys-kept"
		switch {
		case verdict != "":
			sk = "-"
		case ePrime == e && s.Tickets != nil:
			sk = "tickets-kept"
		case ePrime == e:
		case next.Tickets != nil:
			sk = "outside-in"
		case ePrime == e+1 && len(s.GammaA) == c23E:
			sk = "fallback(full-but-early)"
		case ePrime > e+1 && len(s.GammaA) == c23E && s.Tau%c23E >= c23Y:
			sk = "fallback(epoch-skipped)"
		default:
			sk = "fallback"
		}
		r.Class(fmt.Sprintf("ext=%s %s acc=%s->%s sealer=%s useless=%v", extClass, codeS, c23ALen(len(s.GammaA)), c23ALen(len(next.GammaA)), sk, useless))
	}
	if verdict != "" {
		if code == nil {
			r.Violation("safrole.CreateNewTicketAccumulator", "bad-block-accepted", key, fmt.Sprintf("%s: accepted, but the extrinsic is %s", where(), verdict), c)
		}
		return next, false, true
	}
	if code != nil {
		if useless || len(ev.Ext) > c23K {
			// GP 6.35 (every submitted ticket must make it into γ_a′) / GP 6.30 (|E_T| ≤ K) — rejecting is GP-conform, the
			// statement is silent: both outcomes are allowed.
			return next, false, true
		}
		r.Violation("safrole.CreateNewTicketAccumulator", "good-block-rejected", key, fmt.Sprintf("%s: rejected with code %d, reference accepts", where(), int(*code)), c)
		return next, false, false
	}
	post := cs.GetPosteriorStates()
	gotA := post.GetGammaA()
	gotS := post.GetGammaS()
	ok := true
	// statement clauses directly on γ_a′
	if len(gotA) > c23E {
		ok = false
		r.Violation("safrole.CreateNewTicketAccumulator", "accumulator-longer-than-epoch", key, fmt.Sprintf("%s: γ_a′ = %s", where(), c23Tix(gotA)), c)
	}
	for i := 1; i < len(gotA); i++ {
		if bytes.Compare(gotA[i-1].ID[:], gotA[i].ID[:]) >= 0 {
			ok = false
			r.Violation("safrole.CreateNewTicketAccumulator", "accumulator-not-strictly-increasing", key, fmt.Sprintf("%s: γ_a′ = %s", where(), c23Tix(gotA)), c)
			break
		}
	}
	if !c23BodyEq(gotA, next.GammaA) {
		ok = false
		r.Violation("safrole.CreateNewTicketAccumulator", "wrong-accumulator", key, fmt.Sprintf("%s: γ_a′ = %s, reference (lowest %d of new ∪ carried) %s", where(), c23Tix(gotA), c23E, c23RefTix(next.GammaA)), c)
	}
	// γ_s′
	vs := c23Validators()
	sOK := true
	if next.Tickets != nil {
		sOK = len(gotS.Keys) == 0 && c23BodyEq(gotS.Tickets, next.Tickets)
	} else {
		sOK = len(gotS.Tickets) == 0 && len(gotS.Keys) == len(next.Keys)
		for i := 0; sOK && i < len(next.Keys); i++ {
			sOK = gotS.Keys[i] == vs[next.Keys[i]].Bandersnatch
		}
	}
	if !sOK {
		ok = false
		kind := "wrong-sealer-sequence"
		switch {
		case ePrime == e:
			kind = "sealer-changed-within-epoch"
		case next.Tickets != nil:
			kind = "sealer-not-outside-in"
		default:
			kind = "sealer-not-fallback"
		}
		r.Violation("safrole.UpdateSlotKeySequence", kind, key, fmt.Sprintf("%s: γ_s′ tickets %s keys %x…, reference tickets %s keys(validator indices) %v", where(), c23Tix(gotS.Tickets), c23KeyHeads(gotS.Keys), c23RefTix(next.Tickets), next.Keys), c)
	}
	// entropy bookkeeping (the harness needs η′ to sign the next tickets)
	gotEta := post.GetEta()
	for i := 0; i < 4; i++ {
		if [32]byte(gotEta[i]) != next.Eta[i] {
			ok = false
			r.Violation("safrole.UpdateEntropy", "entropy-differs-from-reference", key, fmt.Sprintf("%s: η′[%d] = %x, reference %x", where(), i, gotEta[i][:6], next.Eta[i][:6]), c)
			break
		}
	}
	if post.GetTau() != types.TimeSlot(slot) {
		ok = false
	}
	return next, true, ok
}

func c23KeyHeads(ks []types.BandersnatchPublic) []byte {
	var o []byte
	for _, k := range ks {
		o = append(o, k[0])
	}
	return o
}

func c23Commit(cs *blockchain.ChainState) {
	post := cs.GetPosteriorStates().GetState()
	// ι′ is written by accumulation, which is not run here: carry it over as the rest of the STF would
	post.Iota = cs.GetPriorStates().GetIota()
	cs.GetPriorStates().SetState(post)
	cs.GetPosteriorStates().SetState(blockchain.NewPosteriorStates().GetState())
}

// c23Run: rebuild from a reset singleton, replay the history, apply the event.
func c23Run(r *vlib.Run, c *c23Case, count bool) string {
	cs := c23Reset()
	s := c23Initial()
	c23Install(cs, &s)
	var trace strings.Builder
	for i, ev := range c.History {
		next, accepted, ok := c23Apply(r, cs, &s, ev, c, false, count)
		if !ok || !accepted {
			if ok {
				// the reference itself says this history is not a chain of accepted blocks
				r.Violation("harness", "history-not-accepted", "replay", fmt.Sprintf("history block %d of %v is not accepted by the reference", i, c.History), c)
			}
			return "diverged"
		}
		c23Commit(cs)
		s = next
		trace.WriteString(c23Canon(&s))
		trace.WriteString(";")
	}
	next, accepted, ok := c23Apply(r, cs, &s, c.Event, c, true, count)
	if count {
		r.Eval()
		r.Trace()
	}
	if !ok {
		return "diverged"
	}
	if accepted {
		fmt.Fprintf(&trace, "-> %s γ_a=%s", c23Canon(&next), c23RefTix(next.GammaA))
	} else {
		trace.WriteString("-> rejected")
	}
	return trace.String()
}

// ---------- fork-order pass: a transition is a function of (installed prior state, block) only ----------

// install `s` as the prior state with the setters (no replay, no singleton reset), fresh posterior,
// and push one block through the real code.
func c23StepInstalled(r *vlib.Run, cs *blockchain.ChainState, c *c23Case, label string, s *c23State, ev c23Event) (c23State, bool, bool) {
	c23Install(cs, s)
	cs.GetPosteriorStates().SetState(blockchain.NewPosteriorStates().GetState())
	c23KeyPrefix = "fork-order:" + label
	defer func() { c23KeyPrefix = "" }()
	return c23Apply(r, cs, s, ev, c, false, true)
}

// S --e1--> A, then S --e2--> B, then A --e3--> A2, then S --e1--> A again, in one process on installed
// prior states; every result is compared with the reference.
func c23Fork(r *vlib.Run, c *c23Case) {
	s := c23Initial()
	for _, ev := range c.History {
		n, v, _ := c23Step(&s, ev)
		if v != "" {
			return
		}
		s = n
	}
	cs := c23Reset()
	f := *c.Fork
	A, accA, ok1 := c23StepInstalled(r, cs, c, "S-e1->A", &s, f[0])
	_, _, ok2 := c23StepInstalled(r, cs, c, "S-e2->B(after A)", &s, f[1])
	ok3 := true
	if accA {
		_, _, ok3 = c23StepInstalled(r, cs, c, "A-e3->A2(after B)", &A, f[2])
	}
	_, _, ok4 := c23StepInstalled(r, cs, c, "S-e1->A(again)", &s, f[0])
	r.Eval()
	r.Trace()
	r.Class(fmt.Sprintf("fork-order e1-accepted=%v all-agree=%v", accA, ok1 && ok2 && ok3 && ok4))
}

// Block A, then block B, on the same installed parent object. When the reference rejects A the state is
// still S, so B must behave exactly as on a fresh copy of S (the statement's clauses for B, relative to
// S). When A is accepted a node moves on to the posterior, so nothing is asserted about B; whether the
// parent's accumulator array was overwritten is only counted (diagnostic).
func c23SameParent(r *vlib.Run, c *c23Case) {
	s := c23Initial()
	for _, ev := range c.History {
		n, v, _ := c23Step(&s, ev)
		if v != "" {
			return
		}
		s = n
	}
	cs := c23Reset()
	c23Spare = c.Spare
	c23Install(cs, &s)
	c23Spare = 0
	cs.GetPosteriorStates().SetState(blockchain.NewPosteriorStates().GetState())
	parentAcc := cs.GetPriorStates().GetGammaA()
	A, B := c.Same[0], c.Same[1]
	_, verdictA, _ := c23Step(&s, A)
	c23KeyPrefix = "same-parent:A"
	_, _, okA := c23Apply(r, cs, &s, A, c, false, true)
	c23KeyPrefix = ""
	if !c23BodyEq(parentAcc, s.GammaA) {
		c23DiagPriorMutated++
	}
	okB := true
	if verdictA != "" && okA {
		cs.GetPosteriorStates().SetState(blockchain.NewPosteriorStates().GetState())
		c23KeyPrefix = "same-parent:B(after rejected A)"
		_, _, okB = c23Apply(r, cs, &s, B, c, false, true)
		c23KeyPrefix = ""
	}
	r.Eval()
	r.Trace()
	r.Class(fmt.Sprintf("same-parent spare=%v A=%s agree=%v", c.Spare > 0, map[bool]string{true: "accepted", false: "rejected:" + verdictA}[verdictA == ""], okA && okB))
}

// sequences longer than fullPatLen get the all-zero attempt pattern only
func c23Events(ids, maxLen, fullPatLen int) []c23Event {
	var exts [][]c23Ticket
	for n := 0; n <= maxLen; n++ {
		vlib.Sequences(ids, n, func(s []int) {
			pats := 5 // 4 = attempts alternate 0,1,0,… (the same id can appear under two attempt numbers)
			if n == 0 {
				pats = 1
			} else if n == 1 {
				pats = 3
			}
			if n > fullPatLen {
				pats = 1
			}
			for p := 0; p < pats; p++ {
				ext := make([]c23Ticket, n)
				for i, l := range s {
					a := 0
					switch p {
					case 1:
						a = c23N - 1
					case 2:
						a = c23N
					case 3:
						if i == n-1 {
							a = c23N
						}
					case 4:
						a = i % 2
					}
					ext[i] = c23Ticket{ID: l + 1, Attempt: a}
				}
				exts = append(exts, ext)
			}
		})
	}
	var evs []c23Event
	for step := 0; step < 5; step++ {
		for _, x := range exts {
			evs = append(evs, c23Event{Step: step, Ext: x})
		}
	}
	return evs
}

func TestVerif_C23(t *testing.T) {
	r := vlib.Start(t, "C23")
	defer r.Finish()
	c23World()
	c23RingBytes = c23Ring()

	var rc c23Case
	if r.IsReplay(&rc) {
		if rc.Fork != nil {
			c23Fork(r, &rc)
		} else if rc.Same != nil {
			c23SameParent(r, &rc)
		} else {
			c23Run(r, &rc, true)
		}
		return
	}

	// self-test: a history over two epoch changes with a full accumulator, rebuilt twice
	{
		self := c23Case{History: []c23Event{
			{Step: 0, Ext: []c23Ticket{{2, 0}, {4, 2}, {6, 0}}},
			{Step: 0, Ext: []c23Ticket{{1, 1}, {3, 0}}},
			{Step: 0},
			{Step: 0, Ext: []c23Ticket{{5, 0}}},
			{Step: 2},
		}, Event: c23Event{Step: 0, Ext: []c23Ticket{{3, 0}, {2, 0}}}}
		a, b := c23Run(r, &self, false), c23Run(r, &self, false)
		if a != b {
			t.Fatalf("C23 self-test: two rebuilds of the same history differ:\n%s\n%s", a, b)
		}
		if r.NViolations() == 0 && !strings.Contains(a, "m=3 a=1234 s=keys;m=0 a=5 s=tickets;m=0 a= s=keys;-> rejected") {
			t.Fatalf("C23 self-test: unexpected trace %q", a)
		}
	}

	ids := vlib.Pick(r, 5, 6)
	evs := c23Events(ids, vlib.Pick(r, 3, 4), 3)

	// frontier by the reference model (identical in every shard)
	type node struct {
		st   c23State
		hist []c23Event
	}
	init := c23Initial()
	seen := map[string]bool{c23Canon(&init): true}
	queue := []node{{init, nil}}
	idx := uint64(0)
	maxDepth := 0
	for qi := 0; qi < len(queue); qi++ {
		n := queue[qi]
		if len(n.hist) > maxDepth {
			maxDepth = len(n.hist)
		}
		for ei := range evs {
			ev := evs[ei]
			next, verdict, useless := c23Step(&n.st, ev)
			// histories are extended only by blocks GP 6.35 accepts too (the same successor is reached
			// by the extrinsic without the useless tickets, which is in the alphabet)
			if verdict == "" && !useless && len(ev.Ext) <= c23K {
				k := c23Canon(&next)
				if !seen[k] {
					seen[k] = true
					h := append(append([]c23Event{}, n.hist...), ev)
					queue = append(queue, node{next, h})
				}
			}
			idx++
			if !r.Mine(idx) {
				continue
			}
			c := c23Case{History: n.hist, Event: ev}
			r.Space(1)
			c23Run(r, &c, true)
			if r.WantSample() && idx%40009 == 11 {
				r.Sample(c)
			}
		}
	}
	// ---- fork-order pass over every frontier state ----
	var f12, f3 []c23Event
	for step := 0; step < 5; step++ {
		for _, x := range [][]c23Ticket{nil, {{1, 0}}, {{2, 0}, {3, 2}}} {
			f12 = append(f12, c23Event{Step: step, Ext: x})
		}
	}
	f3 = []c23Event{{Step: 0}, {Step: 0, Ext: []c23Ticket{{4, 0}}}, {Step: 2}, {Step: 2, Ext: []c23Ticket{{1, 1}, {5, 0}}}}
	for _, n := range queue {
		for i1, e1 := range f12 {
			for i2, e2 := range f12 {
				if i1 == i2 {
					continue
				}
				idx++
				if !r.Mine(idx) {
					continue
				}
				for _, e3 := range f3 {
					r.Space(1)
					c23Fork(r, &c23Case{History: n.hist, Fork: &[3]c23Event{e1, e2, e3}})
				}
			}
		}
	}
	// ---- same-parent pass: A (every <=2-ticket extrinsic with attempts 0, 5 steps) then B on the same
	// parent object, parent accumulator slice exact and with spare capacity ----
	var evA, evB []c23Event
	for step := 0; step < 5; step++ {
		for n := 0; n <= 2; n++ {
			vlib.Sequences(ids, n, func(q []int) {
				ext := make([]c23Ticket, n)
				for i, l := range q {
					ext[i] = c23Ticket{ID: l + 1}
				}
				evA = append(evA, c23Event{Step: step, Ext: ext})
			})
		}
	}
	for _, step := range []int{0, 1, 2} {
		for _, x := range [][]c23Ticket{nil, {{1, 0}}, {{3, 0}}, {{2, 0}, {5, 1}}} {
			evB = append(evB, c23Event{Step: step, Ext: x})
		}
	}
	for _, n := range queue {
		for _, a := range evA {
			if _, v, _ := c23Step(&n.st, a); v == "" && len(a.Ext) > 0 && a.Step != 0 {
				continue // accepted A is only a diagnostic: keep the +1 step and the empty extrinsic
			}
			idx++
			if !r.Mine(idx) {
				continue
			}
			for _, b := range evB {
				for _, spare := range []int{0, 8} {
					r.Space(1)
					c23SameParent(r, &c23Case{History: n.hist, Same: &[2]c23Event{a, b}, Spare: spare})
				}
			}
		}
	}
	r.Extra("sum_diagnostic_same_parent_cases_where_prior_accumulator_array_was_overwritten", c23DiagPriorMutated)
	r.StateCount(uint64(len(queue)))
	r.Extra("max_history_depth", maxDepth)
}
