package blockchain

// C16 — the state root computed with the per-key leaf-hash cache equals the
// root computed from scratch, over every history of set / remove / overwrite-
// in-place / root / clear events (explicit-state BFS, rebuild-from-scratch
// successors).
//
// The harness drives only the public seam (ComputeStateRootWithCache,
// PersistStateForBlock, BuildStateRootInputKeyValsAndRoot, ClearKeyLevelCache)
// and never names a field or method of the cache: the canonical state key is
// built by generic reflection over ChainState.keyLevelCache, so a refactor of
// the cache's private representation keeps the check compiling and meaningful.

import (
	"bytes"
	"fmt"
	"os"
	"reflect"
	"sort"
	"strings"
	"testing"

	"github.com/New-JAMneration/JAM-Protocol/internal/types"
	m "github.com/New-JAMneration/JAM-Protocol/internal/utilities/merklization"
	"github.com/New-JAMneration/JAM-Protocol/internal/zzverif/reftrie"
	"github.com/New-JAMneration/JAM-Protocol/internal/zzverif/vlib"
	"github.com/New-JAMneration/JAM-Protocol/logger"
)

type c16Event struct {
	Op string `json:"op"` // set | rm | ow (overwrite the stored value's bytes in place) | root | clear
	K  int    `json:"k,omitempty"`
	Cl int    `json:"cl,omitempty"` // value class
}

func (e c16Event) String() string {
	switch e.Op {
	case "set":
		return fmt.Sprintf("set(k%d,%s)", e.K, c16ClassName(e.Cl))
	case "rm":
		return fmt.Sprintf("rm(k%d)", e.K)
	case "ow":
		return fmt.Sprintf("overwrite(k%d)", e.K)
	}
	return e.Op + "()"
}

type c16Case struct {
	Flavour string     `json:"flavour"`
	NKeys   int        `json:"nkeys"`
	Hist    []c16Event `json:"hist"`
}

// Flavours (configuration = entry point + keys + value alphabet + cache bound):
//
//	bare    ComputeStateRootWithCache, 3/4 keys (k0/k1 differ in bit 247), classes A-D, bound 2
//	wide    ComputeStateRootWithCache, 2 shallow keys, the 10-value alphabet W, bound 2
//	alias   ComputeStateRootWithCache, 2 shallow keys, classes A-D + overwrite(k), bound 2
//	pdelta  PersistStateForBlock on a state whose service storage values ARE the live value buffers
//	        (the delta encoders pass them on uncopied), classes A, D + overwrite(k), no eviction
//	persist PersistStateForBlock, harness keys as unmatched post-state key-vals, bound 16+1
//	build   BuildStateRootInputKeyValsAndRoot, bound 16+1
type c16Flavour struct {
	classes   []int
	overwrite bool
	maxCache  int
	site      string
}

var c16Flavours = map[string]c16Flavour{
	"bare":    {[]int{1, 2, 3, 4}, false, 2, "blockchain.ChainState.ComputeStateRootWithCache"},
	"wide":    {[]int{11, 12, 13, 14, 15, 16, 17, 18, 19, 20}, false, 2, "blockchain.ChainState.ComputeStateRootWithCache"},
	"alias":   {[]int{1, 2, 3, 4}, true, 2, "blockchain.ChainState.ComputeStateRootWithCache"},
	"pdelta":  {[]int{1, 4}, true, 64, "blockchain.ChainState.PersistStateForBlock"},
	"persist": {[]int{1, 2, 3, 4}, false, 17, "blockchain.ChainState.PersistStateForBlock"},
	"build":   {[]int{1, 2, 3, 4}, false, 17, "blockchain.ChainState.BuildStateRootInputKeyValsAndRoot"},
}

// Value classes. 1..4 = the standard alphabet (A: 5 bytes, B: other 5 bytes, C: 32 bytes, D: 33 bytes with
// the same first 32). 11..20 = the "wide" alphabet W of values that collide under plausible fingerprint
// shortcuts (zero padding, prefixes, length only):
//
//	11 v = 3 bytes      12 v‖00        13 v‖00 00      14 empty        15 31x00      16 32x00
//	17 w = 32 bytes     18 w‖00 (33 bytes, hashed leaf)
//	19 / 20 two 12-byte values with equal first 8 bytes
func c16ClassName(cl int) string {
	if cl >= 1 && cl <= 4 {
		return string("-ABCD"[cl])
	}
	return map[int]string{11: "v", 12: "v0", 13: "v00", 14: "empty", 15: "0x31", 16: "0x32", 17: "w", 18: "w0", 19: "p1", 20: "p2"}[cl]
}

// keys: k0/k1 differ only in the last bit (deep pair), k2 leaves at bit 9,
// k3 at bit 0. None looks like a state-component or service-info key.
func c16Keys() []types.StateKey {
	var base types.StateKey
	for i := range base {
		base[i] = byte(0x63 + 0x1F*i)
	}
	flip := func(k types.StateKey, bit int) types.StateKey {
		k[bit/8] ^= 1 << uint(7-bit%8)
		return k
	}
	return []types.StateKey{base, flip(base, 247), flip(base, 9), flip(base, 0)}
}

// c16Value returns a FRESH buffer holding the class value.
func c16Value(k, cl int) []byte {
	mk := func(n int, seed byte) []byte {
		v := make([]byte, n)
		for i := range v {
			v[i] = seed + byte(13*i) + byte(k)
		}
		return v
	}
	switch cl {
	case 1:
		return mk(5, 0x11)
	case 2:
		return mk(5, 0xA7)
	case 3:
		return mk(32, 0x21)
	case 4:
		return mk(33, 0x21) // first 32 octets equal class C's
	case 11:
		return mk(3, 0x01)
	case 12:
		return append(mk(3, 0x01), 0)
	case 13:
		return append(mk(3, 0x01), 0, 0)
	case 14:
		return []byte{}
	case 15:
		return make([]byte, 31)
	case 16:
		return make([]byte, 32)
	case 17:
		return mk(32, 0x42)
	case 18:
		return append(mk(32, 0x42), 0)
	case 19:
		return mk(12, 0x70)
	case 20:
		v := mk(12, 0x70)
		v[8], v[11] = v[8]^0x55, v[11]^0x01
		return v
	}
	return nil
}

type c16World struct {
	flavour string
	fl      c16Flavour
	nkeys   int
	keys    []types.StateKey
	cs      *ChainState
	vals    [][]byte // the LIVE value buffer per key (nil = absent); the same slice is handed to every root()
	nroot   int
	base    types.StateKeyVals // T(zero state) for the persist/build flavours
}

var c16RefMemo = map[string][32]byte{}

const c16Service = types.ServiceID(7)

func (w *c16World) present() int {
	n := 0
	for _, v := range w.vals {
		if v != nil {
			n++
		}
	}
	return n
}

// mine: the harness entries; Value shares the backing array of the live buffer.
func (w *c16World) mine() types.StateKeyVals {
	var kvs types.StateKeyVals
	for k, v := range w.vals {
		if v != nil {
			kvs = append(kvs, types.StateKeyVal{Key: w.keys[k], Value: types.ByteSequence(v)})
		}
	}
	return kvs
}

func c16Sorted(kvs types.StateKeyVals) types.StateKeyVals {
	out := make(types.StateKeyVals, len(kvs))
	copy(out, kvs)
	sort.Slice(out, func(i, j int) bool { return bytes.Compare(out[i].Key[:], out[j].Key[:]) < 0 })
	return out
}

// ---- generic canonical rendering of the cache object (no field or method names) ----

type c16Renderer struct {
	live    map[uintptr]string // data pointer of a live value buffer -> "k<i>"
	entries int                // size of the largest map met (reported as the cache size)
}

func (cr *c16Renderer) render(v reflect.Value, sb *strings.Builder, depth int) {
	if depth > 12 {
		sb.WriteString("…")
		return
	}
	switch v.Kind() {
	case reflect.Invalid:
		sb.WriteString("nil")
	case reflect.Ptr, reflect.Interface:
		if v.IsNil() {
			sb.WriteString("nil")
			return
		}
		cr.render(v.Elem(), sb, depth+1)
	case reflect.Struct:
		sb.WriteString("{")
		for i := 0; i < v.NumField(); i++ {
			cr.render(v.Field(i), sb, depth+1)
			sb.WriteString(",")
		}
		sb.WriteString("}")
	case reflect.Map:
		if v.Len() > cr.entries {
			cr.entries = v.Len()
		}
		var items []string
		it := v.MapRange()
		for it.Next() {
			var e strings.Builder
			cr.render(it.Key(), &e, depth+1)
			e.WriteString("=>")
			cr.render(it.Value(), &e, depth+1)
			items = append(items, e.String())
		}
		sort.Strings(items)
		sb.WriteString("map[" + strings.Join(items, ";") + "]")
	case reflect.Slice, reflect.Array:
		if v.Kind() == reflect.Slice && v.IsNil() {
			sb.WriteString("nil")
			return
		}
		if v.Type().Elem().Kind() == reflect.Uint8 {
			const hexd = "0123456789abcdef"
			for i := 0; i < v.Len(); i++ {
				b := byte(v.Index(i).Uint())
				sb.WriteByte(hexd[b>>4])
				sb.WriteByte(hexd[b&15])
			}
			if v.Kind() == reflect.Slice && v.Len() > 0 {
				// aliasing is part of the state: does the cache hold a live value buffer itself?
				if name, ok := cr.live[v.Pointer()]; ok {
					sb.WriteString("@" + name)
				}
			}
			sb.WriteString("/")
			return
		}
		sb.WriteString("[")
		for i := 0; i < v.Len(); i++ {
			cr.render(v.Index(i), sb, depth+1)
			sb.WriteString(",")
		}
		sb.WriteString("]")
	case reflect.Bool:
		fmt.Fprint(sb, v.Bool())
	case reflect.Int, reflect.Int8, reflect.Int16, reflect.Int32, reflect.Int64:
		fmt.Fprint(sb, v.Int())
	case reflect.Uint, reflect.Uint8, reflect.Uint16, reflect.Uint32, reflect.Uint64, reflect.Uintptr:
		fmt.Fprint(sb, v.Uint())
	case reflect.String:
		fmt.Fprintf(sb, "%q", v.String())
	case reflect.Float32, reflect.Float64:
		fmt.Fprint(sb, v.Float())
	default: // func, chan, unsafe pointer: identity is not state we can compare
		sb.WriteString(v.Kind().String())
	}
}

// c16CacheField finds the key-level cache inside the chain state without relying on more than its field
// name; if the field is renamed, any field whose type name mentions both "ache" and "ey" is taken.
func c16CacheField(cs *ChainState) (reflect.Value, bool) {
	sv := reflect.ValueOf(cs).Elem()
	if f := sv.FieldByName("keyLevelCache"); f.IsValid() {
		return f, true
	}
	for i := 0; i < sv.NumField(); i++ {
		tn := sv.Type().Field(i).Type.String()
		if strings.Contains(tn, "ache") && strings.Contains(tn, "ey") {
			return sv.Field(i), true
		}
	}
	return reflect.Value{}, false
}

// cacheCanon returns the rendered cache, its size, and whether it could be rendered at all.
func (w *c16World) cacheCanon() (string, int, bool) {
	f, ok := c16CacheField(w.cs)
	if !ok {
		return "", 0, false
	}
	cr := &c16Renderer{live: map[uintptr]string{}}
	for k, v := range w.vals {
		if len(v) > 0 {
			cr.live[reflect.ValueOf(v).Pointer()] = fmt.Sprintf("k%d", k)
		}
	}
	var sb strings.Builder
	cr.render(f, &sb, 0)
	return sb.String(), cr.entries, true
}

func (w *c16World) entriesCanon() string {
	var sb strings.Builder
	for _, v := range w.vals {
		if v == nil {
			sb.WriteString("-|")
		} else {
			fmt.Fprintf(&sb, "%x|", v)
		}
	}
	return sb.String()
}

// canon = entry map (actual bytes) + generic dump of the cache. If the cache cannot be found, the history
// itself is the state (no dedup): ok = false.
func (w *c16World) canon() (string, bool) {
	cc, _, ok := w.cacheCanon()
	return w.entriesCanon() + "#" + cc, ok
}

func c16MaxCache(flavour string) int {
	if v := os.Getenv("C16_MAXCACHE"); v != "" { // development knob
		n := 0
		fmt.Sscanf(v, "%d", &n)
		return n
	}
	return c16Flavours[flavour].maxCache
}

// c16New resets every process-global the cache path reads and builds a fresh chain state.
func c16New(flavour string, nkeys int) *c16World {
	fl, ok := c16Flavours[flavour]
	if !ok {
		panic("c16: unknown flavour " + flavour)
	}
	types.MaxKeyLevelCacheSize = c16MaxCache(flavour)
	ResetInstance()
	w := &c16World{flavour: flavour, fl: fl, nkeys: nkeys, keys: c16Keys()[:nkeys], cs: GetInstance(), vals: make([][]byte, nkeys)}
	switch flavour {
	case "wide", "alias":
		all := c16Keys()
		w.keys = []types.StateKey{all[0], all[2], all[3]}[:nkeys] // shallow: the trie shape is irrelevant to the cache
	case "persist", "build":
		b, err := m.StateEncoder(types.State{})
		if err != nil {
			panic("c16: StateEncoder(zero state): " + err.Error())
		}
		w.base = b
	}
	return w
}

type c16RootResult struct {
	cached, uncached types.StateRoot
	want             [32]byte
	full             types.StateKeyVals
	before, after    int // cache size around the call (from the generic dump)
	changed          bool
	err              error
}

func (w *c16World) headerHash() (hh types.HeaderHash) {
	hh[0], hh[1], hh[2], hh[3] = 0xC1, 0x6C, byte(w.nroot), byte(w.nroot>>8)
	return
}

// deltaState: one service whose storage values ARE the live value buffers.
func (w *c16World) deltaState() types.State {
	acct := types.ServiceAccount{
		ServiceInfo:    types.ServiceInfo{Balance: 1000, Items: 4, Bytes: 100}, // constant: keeps the service-info entry out of the state space
		StorageDict:    types.Storage{},
		PreimageLookup: types.PreimagesMapEntry{},
		LookupDict:     types.LookupMetaMapEntry{},
	}
	for k, v := range w.vals {
		if v != nil {
			acct.StorageDict[fmt.Sprintf("c16-storage-%d", k)] = types.ByteSequence(v)
		}
	}
	return types.State{Delta: types.ServiceAccountState{c16Service: acct}}
}

// root performs one root() event with the flavour's real entry point.
func (w *c16World) root(check bool) (res c16RootResult) {
	mine := c16Sorted(w.mine())
	full := mine
	var cbefore string
	if check {
		cbefore, res.before, _ = w.cacheCanon()
	}
	w.nroot++
	switch w.flavour {
	case "bare", "wide", "alias":
		res.cached = w.cs.ComputeStateRootWithCache(mine)
	case "persist", "pdelta":
		hh := w.headerHash()
		state := types.State{}
		if w.flavour == "pdelta" {
			state = w.deltaState()
			w.cs.SetPostStateUnmatchedKeyVals(nil)
		} else {
			w.cs.SetPostStateUnmatchedKeyVals(mine)
		}
		if res.err = w.cs.PersistStateForBlock(hh, state); res.err != nil {
			return
		}
		if res.cached, res.err = w.cs.GetStateRootByBlockHash(hh); res.err != nil {
			return
		}
		saved, err := w.cs.GetStateByBlockHash(hh)
		if err != nil {
			res.err = err
			return
		}
		full = c16Sorted(saved) // what was persisted under that root
	case "build":
		// input = the harness keys only (T(zero state) is not decodable: empty fixed-size components); the
		// function itself adds T(state parsed from them) = T(zero state), so the merkle input is base ∪ mine again
		in, root, err := w.cs.BuildStateRootInputKeyValsAndRoot(mine)
		if err != nil {
			res.err = err
			return
		}
		res.cached = root
		full = c16Sorted(in)
	}
	res.full = full
	if !check {
		return
	}
	res.uncached = m.MerklizationSerializedState(full)
	// R-trie, memoised per entry list
	var sb strings.Builder
	ref := make([]reftrie.Entry, len(full))
	for i, kv := range full {
		ref[i] = reftrie.Entry{Key: append([]byte(nil), kv.Key[:]...), Value: kv.Value}
		fmt.Fprintf(&sb, "%x=%x;", kv.Key[:], []byte(kv.Value))
	}
	mk := sb.String()
	want, ok := c16RefMemo[mk]
	if !ok {
		want = reftrie.Root(ref)
		c16RefMemo[mk] = want
	}
	res.want = want
	var cafter string
	cafter, res.after, _ = w.cacheCanon()
	res.changed = cafter != cbefore
	return
}

// expectedFull: the entry set the full-state flavours must merklize.
func (w *c16World) expectedFull() (types.StateKeyVals, string) {
	switch w.flavour {
	case "persist", "build":
		return c16Sorted(append(append(types.StateKeyVals{}, w.base...), w.mine()...)), "T(zero state) + harness keys"
	case "pdelta":
		kvs, err := m.StateEncoder(w.deltaState())
		if err != nil {
			return nil, ""
		}
		return c16Sorted(kvs), "T(state with the service storage)"
	}
	return nil, ""
}

// apply executes one event; check says whether the oracle is evaluated (and reported) for it.
func (w *c16World) apply(r *vlib.Run, e c16Event, check bool, c *c16Case) {
	switch e.Op {
	case "set":
		w.vals[e.K] = c16Value(e.K, e.Cl) // a fresh buffer
	case "rm":
		w.vals[e.K] = nil
	case "ow":
		// the stored value's bytes change IN PLACE: same slice header, same backing array, same length
		if v := w.vals[e.K]; len(v) > 0 {
			v[len(v)/2] ^= 0xFF
		}
	case "clear":
		w.cs.ClearKeyLevelCache()
		if check {
			r.Transition() // no oracle on clear itself: the property speaks about roots only
			_, n, _ := w.cacheCanon()
			r.Class(fmt.Sprintf("clear emptied=%v", n == 0))
		}
	case "root":
		var res c16RootResult
		panicked, msg, site := vlib.Guard(func() { res = w.root(check) })
		if !check {
			return
		}
		r.Transition()
		r.Eval()
		r.Space(1)
		key := fmt.Sprintf("flavour=%s;cache-before=%d;cache-changed=%v", w.flavour, min(res.before, 3), res.changed)
		site0 := w.fl.site
		if panicked {
			r.Violation("blockchain."+site, "go-panic", "flavour="+w.flavour, fmt.Sprintf("history %v: %s", c.Hist, msg), c)
			return
		}
		if res.err != nil {
			r.Violation(site0, "error", "flavour="+w.flavour, fmt.Sprintf("history %v: %v", c.Hist, res.err), c)
			return
		}
		nh := 0
		for _, kv := range res.full {
			if len(kv.Value) > 32 {
				nh++
			}
		}
		r.Class(fmt.Sprintf("root %s entries=%d hashed=%d cache-before=%d cache-after=%d cache-changed=%v", w.flavour, w.present(), min(nh, 3), min(res.before, 3), min(res.after, 3), res.changed))
		if res.cached != res.uncached {
			r.Violation(site0, "cached-root-mismatch", key, fmt.Sprintf("history %v: cached root %x, from scratch %x (entries %s)", c.Hist, res.cached[:], res.uncached[:], w.entriesCanon()), c)
		}
		if [32]byte(res.uncached) != res.want {
			r.Violation("merklization.MerklizationSerializedState", "root-mismatch", "flavour="+w.flavour, fmt.Sprintf("history %v: from-scratch root %x, R-trie %x", c.Hist, res.uncached[:], res.want[:]), c)
		}
		if exp, what := w.expectedFull(); exp != nil {
			same := len(exp) == len(res.full)
			for i := 0; same && i < len(exp); i++ {
				same = exp[i].Key == res.full[i].Key && bytes.Equal(exp[i].Value, res.full[i].Value)
			}
			if !same {
				r.Violation(site0, "wrong-entry-set", "flavour="+w.flavour, fmt.Sprintf("history %v: merkle input has %d entries, expected %d (%s)", c.Hist, len(res.full), len(exp), what), c)
			}
		}
	}
}

func c16Rebuild(r *vlib.Run, c *c16Case, checkFrom int) *c16World {
	w := c16New(c.Flavour, c.NKeys)
	for i, e := range c.Hist {
		w.apply(r, e, i >= checkFrom, c)
	}
	return w
}

func c16Alphabet(flavour string, nkeys int) []c16Event {
	fl := c16Flavours[flavour]
	var evs []c16Event
	for k := 0; k < nkeys; k++ {
		for _, cl := range fl.classes {
			evs = append(evs, c16Event{Op: "set", K: k, Cl: cl})
		}
		evs = append(evs, c16Event{Op: "rm", K: k})
		if fl.overwrite {
			evs = append(evs, c16Event{Op: "ow", K: k})
		}
	}
	return append(evs, c16Event{Op: "root"}, c16Event{Op: "clear"})
}

// c16NoDedupDepth bounds the search when the cache cannot be introspected (history = state).
const c16NoDedupDepth = 4

func c16BFS(r *vlib.Run, flavour string, nkeys int, idx *uint64) (states int, depth int) {
	alphabet := c16Alphabet(flavour, nkeys)
	seen := map[string]bool{}
	w0 := c16New(flavour, nkeys)
	k0, dedup := w0.canon()
	seen[k0] = true
	if !dedup {
		r.Cap(fmt.Sprintf("cache object not found by reflection: history = state, no dedup, depth <= %d", c16NoDedupDepth))
	}
	frontier := [][]c16Event{{}}
	states = 1
	for len(frontier) > 0 {
		var next [][]c16Event
		for _, h := range frontier {
			for _, e := range alphabet {
				*idx++
				hist := append(append(make([]c16Event, 0, len(h)+1), h...), e)
				c := &c16Case{Flavour: flavour, NKeys: nkeys, Hist: hist}
				mine := r.Mine(*idx)
				checkFrom := len(hist)
				if mine {
					checkFrom = len(hist) - 1
				}
				w := c16Rebuild(r, c, checkFrom)
				key, _ := w.canon()
				if !dedup {
					key = fmt.Sprint(hist)
				}
				if mine {
					r.Trace()
					// self-check: a second rebuild of the same history gives the identical canonical state
					if (*idx/uint64(r.NShards))%64 == 0 {
						if k2, _ := c16Rebuild(r, c, len(hist)).canon(); dedup && k2 != key {
							r.T.Fatalf("C16 harness nondeterminism: two rebuilds of %v differ", hist)
						}
					}
				}
				if !seen[key] {
					seen[key] = true
					states++
					if dedup || len(hist) < c16NoDedupDepth {
						next = append(next, hist)
					}
					if mine && r.WantSample() && len(hist) >= 4 && e.Op == "root" {
						_, n, _ := w.cacheCanon()
						r.Sample(map[string]interface{}{"flavour": flavour, "history": fmt.Sprint(hist), "entries": w.entriesCanon(), "cache_entries": n})
					}
				}
			}
		}
		if len(next) > 0 {
			depth++
		}
		fmt.Fprintf(os.Stderr, "C16 %s/%d keys: depth %d, %d states, %d transitions so far\n", flavour, nkeys, depth, states, *idx)
		frontier = next
	}
	return
}

func TestVerif_C16(t *testing.T) {
	r := vlib.Start(t, "C16")
	defer r.Finish()
	logger.SetLevel("ERROR") // ResetInstance logs one DEBUG line per rebuild
	saved, savedEpoch := types.MaxKeyLevelCacheSize, types.EpochLength
	// newChainState() pre-allocates 2*EpochLength empty blocks per instance, which dominates the cost of a
	// rebuild; the cache path reads no protocol parameter except MaxKeyLevelCacheSize (set per rebuild).
	types.EpochLength = 1
	defer func() { types.MaxKeyLevelCacheSize, types.EpochLength = saved, savedEpoch; ResetInstance() }()

	var rc c16Case
	if r.IsReplay(&rc) {
		c16Rebuild(r, &rc, 0)
		return
	}
	type cfg struct {
		flavour string
		nkeys   int
	}
	cfgs := []cfg{{"bare", 3}, {"wide", 2}, {"alias", 2}, {"pdelta", 2}}
	if r.Thorough() {
		cfgs = append(cfgs, cfg{"bare", 4}, cfg{"persist", 2}, cfg{"build", 2})
	}
	if only := os.Getenv("C16_ONLY"); only != "" { // development knob: one configuration, e.g. persist:3
		var c cfg
		fmt.Sscanf(strings.Replace(only, ":", " ", 1), "%s %d", &c.flavour, &c.nkeys)
		cfgs = []cfg{c}
		r.Cap("C16_ONLY=" + only)
	}
	var idx uint64
	total := 0
	for _, c := range cfgs {
		n, d := c16BFS(r, c.flavour, c.nkeys, &idx)
		total += n
		r.Extra(fmt.Sprintf("states_%s_%dkeys", c.flavour, c.nkeys), n)
		r.Extra(fmt.Sprintf("depth_%s_%dkeys", c.flavour, c.nkeys), d)
	}
	r.StateCount(uint64(total))
}
