package blockchain

// C16 — the state root computed with the per-key leaf-hash cache equals the
// root computed from scratch, over every history of set / remove / root /
// clear events (explicit-state BFS, rebuild-from-scratch successors).

import (
	"bytes"
	"fmt"
	"os"
	"sort"
	"strings"
	"testing"

	"github.com/New-JAMneration/JAM-Protocol/internal/types"
	m "github.com/New-JAMneration/JAM-Protocol/internal/utilities/merklization"
	"github.com/New-JAMneration/JAM-Protocol/internal/zzverif/reftrie"
	"github.com/New-JAMneration/JAM-Protocol/internal/zzverif/vlib"
	"github.com/New-JAMneration/JAM-Protocol/logger"
)

type c16Event struct {
	Op string `json:"op"` // set | rm | root | clear
	K  int    `json:"k,omitempty"`
	Cl int    `json:"cl,omitempty"` // value class 1..4 (A,B,C,D)
}

func (e c16Event) String() string {
	switch e.Op {
	case "set":
		return fmt.Sprintf("set(k%d,%s)", e.K, c16ClassName(e.Cl))
	case "rm":
		return fmt.Sprintf("rm(k%d)", e.K)
	}
	return e.Op + "()"
}

type c16Case struct {
	Flavour string     `json:"flavour"` // bare | persist | build | wide (= bare entry point, 2 shallow keys, value alphabet W)
	NKeys   int        `json:"nkeys"`
	Hist    []c16Event `json:"hist"`
}

// Value classes. 1..4 = the standard alphabet (A,B,C,D). 11..20 = the "wide" alphabet W of values that collide
// under plausible fingerprint shortcuts (zero padding, prefixes, length only):
//   11 v = 3 bytes      12 v‖00        13 v‖00 00      14 empty        15 31x00      16 32x00
//   17 w = 32 bytes     18 w‖00 (33 bytes, hashed leaf)
//   19 / 20 two 12-byte values with equal first 8 bytes
func c16ClassName(cl int) string {
	if cl >= 1 && cl <= 4 {
		return string("-ABCD"[cl])
	}
	return map[int]string{11: "v", 12: "v0", 13: "v00", 14: "empty", 15: "0x31", 16: "0x32", 17: "w", 18: "w0", 19: "p1", 20: "p2"}[cl]
}

func c16Classes(flavour string) []int {
	if flavour == "wide" {
		return []int{11, 12, 13, 14, 15, 16, 17, 18, 19, 20}
	}
	return []int{1, 2, 3, 4}
}

// keys: k0/k1 differ only in the last bit (deep pair), k2 leaves at bit 9,
// k3 at bit 0. None looks like a state-component or service-info key.
func c16Keys() []types.StateKey {
	var base types.StateKey
	for i := range base {
		base[i] = byte(0x63 + 0x1F*i)
	}
	flip := func(k types.StateKey, bit int) types.StateKey {
		k[bit/8] ^= 1 << uint(7-bit%8)
		return k
	}
	return []types.StateKey{base, flip(base, 247), flip(base, 9), flip(base, 0)}
}

func c16Value(k, cl int) []byte {
	mk := func(n int, seed byte) []byte {
		v := make([]byte, n)
		for i := range v {
			v[i] = seed + byte(13*i) + byte(k)
		}
		return v
	}
	switch cl {
	case 1:
		return mk(5, 0x11)
	case 2:
		return mk(5, 0xA7)
	case 3:
		return mk(32, 0x21)
	case 4:
		return mk(33, 0x21) // first 32 octets equal class C's
	case 11:
		return mk(3, 0x01)
	case 12:
		return append(mk(3, 0x01), 0)
	case 13:
		return append(mk(3, 0x01), 0, 0)
	case 14:
		return []byte{}
	case 15:
		return make([]byte, 31)
	case 16:
		return make([]byte, 32)
	case 17:
		return mk(32, 0x42)
	case 18:
		return append(mk(32, 0x42), 0)
	case 19:
		return mk(12, 0x70)
	case 20:
		v := mk(12, 0x70)
		v[8], v[11] = v[8]^0x55, v[11]^0x01
		return v
	}
	return nil
}

type c16World struct {
	flavour string
	nkeys   int
	keys    []types.StateKey
	cs      *ChainState
	entries []int // value class per key, 0 = absent
	nroot   int
	base    types.StateKeyVals // T(zero state) for the persist/build flavours
}

var c16RefMemo = map[string][32]byte{}

func (w *c16World) mine() types.StateKeyVals {
	var kvs types.StateKeyVals
	for k, cl := range w.entries {
		if cl != 0 {
			kvs = append(kvs, types.StateKeyVal{Key: w.keys[k], Value: c16Value(k, cl)})
		}
	}
	return kvs
}

func c16Sorted(kvs types.StateKeyVals) types.StateKeyVals {
	out := make(types.StateKeyVals, len(kvs))
	copy(out, kvs)
	sort.Slice(out, func(i, j int) bool { return bytes.Compare(out[i].Key[:], out[j].Key[:]) < 0 })
	return out
}

func (w *c16World) cacheCanon() string {
	type ent struct {
		k types.StateKey
		e leafCacheEntry
	}
	var es []ent
	for k, e := range w.cs.keyLevelCache.entries {
		es = append(es, ent{k, e})
	}
	sort.Slice(es, func(i, j int) bool { return bytes.Compare(es[i].k[:], es[j].k[:]) < 0 })
	var sb strings.Builder
	for _, e := range es {
		fmt.Fprintf(&sb, "%x:%x:%x;", e.k[:], e.e.valueHash[:], e.e.leafHash[:])
	}
	return sb.String()
}

func (w *c16World) canon() string {
	return fmt.Sprint(w.entries) + "|" + w.cacheCanon()
}

// c16MaxCache: bare: 2 (three harness keys never fit). Full-state flavours: the 16 state components + 1, so that
// with two harness keys the capacity clear happens in the middle of a root computation.
func c16MaxCache(flavour string) int {
	if v := os.Getenv("C16_MAXCACHE"); v != "" { // development knob
		n := 0
		fmt.Sscanf(v, "%d", &n)
		return n
	}
	if flavour == "bare" || flavour == "wide" {
		return 2
	}
	return 17
}

// c16New resets every process-global the cache path reads and builds a fresh chain state.
func c16New(flavour string, nkeys int) *c16World {
	types.MaxKeyLevelCacheSize = c16MaxCache(flavour)
	ResetInstance()
	w := &c16World{flavour: flavour, nkeys: nkeys, keys: c16Keys()[:nkeys], cs: GetInstance(), entries: make([]int, nkeys)}
	if flavour == "wide" {
		all := c16Keys()
		w.keys = []types.StateKey{all[0], all[2], all[3]}[:nkeys] // shallow: the trie shape is irrelevant to the cache
	}
	if flavour != "bare" && flavour != "wide" {
		b, err := m.StateEncoder(types.State{})
		if err != nil {
			panic("c16: StateEncoder(zero state): " + err.Error())
		}
		w.base = b
	}
	return w
}

type c16RootResult struct {
	cached, uncached types.StateRoot
	want             [32]byte
	full             types.StateKeyVals
	hits, misses     int
	evicted          bool
	err              error
}

// root performs one root() event with the flavour's real entry point.
func (w *c16World) root(check bool) (res c16RootResult) {
	mine := c16Sorted(w.mine())
	full := mine
	if w.flavour != "bare" && w.flavour != "wide" {
		full = c16Sorted(append(append(types.StateKeyVals{}, w.base...), mine...))
	}
	before := w.cs.keyLevelCache.Len()
	for _, kv := range full {
		if !check {
			break // prefix replay: only the real call matters
		}
		if _, _, ok := w.cs.keyLevelCache.GetLeafHash(kv.Key, kv.Value); ok {
			res.hits++
		} else {
			res.misses++
		}
	}
	w.nroot++
	switch w.flavour {
	case "bare", "wide":
		res.cached = w.cs.ComputeStateRootWithCache(mine)
	case "persist":
		var hh types.HeaderHash
		hh[0], hh[1], hh[2] = 0xC1, 0x6C, byte(w.nroot)
		hh[3] = byte(w.nroot >> 8)
		w.cs.SetPostStateUnmatchedKeyVals(mine)
		if res.err = w.cs.PersistStateForBlock(hh, types.State{}); res.err != nil {
			return
		}
		if res.cached, res.err = w.cs.GetStateRootByBlockHash(hh); res.err != nil {
			return
		}
		saved, err := w.cs.GetStateByBlockHash(hh)
		if err != nil {
			res.err = err
			return
		}
		full = c16Sorted(saved) // what was persisted under that root
	case "build":
		// input = the harness keys only (T(zero state) is not decodable: empty fixed-size components); the
		// function itself adds T(state parsed from them) = T(zero state), so the merkle input is base ∪ mine again
		in, root, err := w.cs.BuildStateRootInputKeyValsAndRoot(mine)
		if err != nil {
			res.err = err
			return
		}
		res.cached = root
		full = c16Sorted(in)
	}
	res.full = full
	if !check {
		return
	}
	res.uncached = m.MerklizationSerializedState(full)
	// R-trie, memoised per entry list
	var sb strings.Builder
	ref := make([]reftrie.Entry, len(full))
	for i, kv := range full {
		ref[i] = reftrie.Entry{Key: append([]byte(nil), kv.Key[:]...), Value: kv.Value}
		fmt.Fprintf(&sb, "%x=%x;", kv.Key[:], []byte(kv.Value))
	}
	mk := sb.String()
	want, ok := c16RefMemo[mk]
	if !ok {
		want = reftrie.Root(ref)
		c16RefMemo[mk] = want
	}
	res.want = want
	res.evicted = w.cs.keyLevelCache.Len() < before+res.misses && res.misses > 0
	return
}

// apply executes one event; check says whether the oracle is evaluated (and reported) for it.
func (w *c16World) apply(r *vlib.Run, e c16Event, check bool, c *c16Case) {
	switch e.Op {
	case "set":
		w.entries[e.K] = e.Cl
	case "rm":
		w.entries[e.K] = 0
	case "clear":
		w.cs.ClearKeyLevelCache()
		if check {
			r.Transition() // no oracle on clear itself: the property speaks about roots only
			r.Class(fmt.Sprintf("clear emptied=%v", w.cs.keyLevelCache.Len() == 0))
		}
	case "root":
		var res c16RootResult
		panicked, msg, site := vlib.Guard(func() { res = w.root(check) })
		if !check {
			return
		}
		r.Transition()
		r.Eval()
		r.Space(1)
		key := fmt.Sprintf("flavour=%s;hits>0=%v;misses>0=%v;evicted=%v", w.flavour, res.hits > 0, res.misses > 0, res.evicted)
		site0 := map[string]string{"bare": "blockchain.ChainState.ComputeStateRootWithCache", "wide": "blockchain.ChainState.ComputeStateRootWithCache", "persist": "blockchain.ChainState.PersistStateForBlock", "build": "blockchain.ChainState.BuildStateRootInputKeyValsAndRoot"}[w.flavour]
		if panicked {
			r.Violation("blockchain."+site, "go-panic", "flavour="+w.flavour, fmt.Sprintf("history %v: %s", c.Hist, msg), c)
			return
		}
		if res.err != nil {
			r.Violation(site0, "error", "flavour="+w.flavour, fmt.Sprintf("history %v: %v", c.Hist, res.err), c)
			return
		}
		nh := 0
		for _, kv := range res.full {
			if len(kv.Value) > 32 {
				nh++
			}
		}
		r.Class(fmt.Sprintf("root %s entries=%d hashed=%d hits=%d misses=%d evicted=%v", w.flavour, len(w.mine()), nh, min(res.hits, 3), min(res.misses, 3), res.evicted))
		if res.cached != res.uncached {
			r.Violation(site0, "cached-root-mismatch", key, fmt.Sprintf("history %v: cached root %x, from scratch %x (entries %v)", c.Hist, res.cached[:], res.uncached[:], w.entries), c)
		}
		if [32]byte(res.uncached) != res.want {
			r.Violation("merklization.MerklizationSerializedState", "root-mismatch", "flavour="+w.flavour, fmt.Sprintf("history %v: from-scratch root %x, R-trie %x", c.Hist, res.uncached[:], res.want[:]), c)
		}
		if w.flavour != "bare" && w.flavour != "wide" {
			// the merkle input must be exactly base ∪ mine
			exp := c16Sorted(append(append(types.StateKeyVals{}, w.base...), w.mine()...))
			same := len(exp) == len(res.full)
			for i := 0; same && i < len(exp); i++ {
				same = exp[i].Key == res.full[i].Key && bytes.Equal(exp[i].Value, res.full[i].Value)
			}
			if !same {
				r.Violation(site0, "wrong-entry-set", "flavour="+w.flavour, fmt.Sprintf("history %v: merkle input has %d entries, expected %d (T(zero state) + harness keys)", c.Hist, len(res.full), len(exp)), c)
			}
		}
	}
}

func c16Rebuild(r *vlib.Run, c *c16Case, checkFrom int) *c16World {
	w := c16New(c.Flavour, c.NKeys)
	for i, e := range c.Hist {
		w.apply(r, e, i >= checkFrom, c)
	}
	return w
}

func c16Alphabet(flavour string, nkeys int) []c16Event {
	var evs []c16Event
	for k := 0; k < nkeys; k++ {
		for _, cl := range c16Classes(flavour) {
			evs = append(evs, c16Event{Op: "set", K: k, Cl: cl})
		}
		evs = append(evs, c16Event{Op: "rm", K: k})
	}
	return append(evs, c16Event{Op: "root"}, c16Event{Op: "clear"})
}

func c16BFS(r *vlib.Run, flavour string, nkeys int, idx *uint64) (states int, depth int) {
	alphabet := c16Alphabet(flavour, nkeys)
	seen := map[string]bool{}
	w0 := c16New(flavour, nkeys)
	seen[w0.canon()] = true
	frontier := [][]c16Event{{}}
	states = 1
	for len(frontier) > 0 {
		var next [][]c16Event
		for _, h := range frontier {
			for _, e := range alphabet {
				*idx++
				hist := append(append(make([]c16Event, 0, len(h)+1), h...), e)
				c := &c16Case{Flavour: flavour, NKeys: nkeys, Hist: hist}
				mine := r.Mine(*idx)
				checkFrom := len(hist)
				if mine {
					checkFrom = len(hist) - 1
				}
				w := c16Rebuild(r, c, checkFrom)
				key := w.canon()
				if mine {
					r.Trace()
					// self-check: a second rebuild of the same history gives the identical canonical state
					if (*idx/uint64(r.NShards))%64 == 0 {
						if k2 := c16Rebuild(r, c, len(hist)).canon(); k2 != key {
							r.T.Fatalf("C16 harness nondeterminism: two rebuilds of %v differ", hist)
						}
					}
				}
				if !seen[key] {
					seen[key] = true
					states++
					next = append(next, hist)
					if mine && r.WantSample() && len(hist) >= 5 && e.Op == "root" {
						r.Sample(map[string]interface{}{"flavour": flavour, "history": fmt.Sprint(hist), "entries": w.entries, "cache_entries": w.cs.keyLevelCache.Len()})
					}
				}
			}
		}
		if len(next) > 0 {
			depth++
		}
		fmt.Fprintf(os.Stderr, "C16 %s/%d keys: depth %d, %d states, %d transitions so far\n", flavour, nkeys, depth, states, *idx)
		frontier = next
	}
	return
}

func TestVerif_C16(t *testing.T) {
	r := vlib.Start(t, "C16")
	defer r.Finish()
	logger.SetLevel("ERROR") // ResetInstance logs one DEBUG line per rebuild
	saved := types.MaxKeyLevelCacheSize
	defer func() { types.MaxKeyLevelCacheSize = saved; ResetInstance() }()

	var rc c16Case
	if r.IsReplay(&rc) {
		c16Rebuild(r, &rc, 0)
		return
	}
	type cfg struct {
		flavour string
		nkeys   int
	}
	cfgs := []cfg{{"bare", 3}, {"wide", 2}}
	if r.Thorough() {
		cfgs = append(cfgs, cfg{"bare", 4}, cfg{"persist", 2}, cfg{"build", 2})
	}
	if only := os.Getenv("C16_ONLY"); only != "" { // development knob: one configuration, e.g. persist:3
		var c cfg
		fmt.Sscanf(strings.Replace(only, ":", " ", 1), "%s %d", &c.flavour, &c.nkeys)
		cfgs = []cfg{c}
		r.Cap("C16_ONLY=" + only)
	}
	var idx uint64
	total := 0
	for _, c := range cfgs {
		n, d := c16BFS(r, c.flavour, c.nkeys, &idx)
		total += n
		r.Extra(fmt.Sprintf("states_%s_%dkeys", c.flavour, c.nkeys), n)
		r.Extra(fmt.Sprintf("depth_%s_%dkeys", c.flavour, c.nkeys), d)
	}
	r.StateCount(uint64(total))
}
