package accumulation

// C22 — accumulation is deterministic. Stateless exploration (vsched) of the
// REAL OuterAccumulation / ParallelizedAccumulation / SingleServiceAccumulation:
// the package sources are instrumented by vrewrite so that the errgroup workers,
// the singleflight group, the RWMutex and EVERY range over a map are owned by
// the explorer. All executions within the deviation bound (preemptions /
// non-default thread choices and non-sorted map orders), for each worker-pool
// size, must yield byte-identical results.

import (
	"encoding/binary"
	"fmt"
	"os"
	"reflect"
	"sort"
	"strings"
	"testing"

	"github.com/New-JAMneration/JAM-Protocol/internal/blockchain"
	"github.com/New-JAMneration/JAM-Protocol/internal/types"
	"github.com/New-JAMneration/JAM-Protocol/internal/utilities/hash"
	"github.com/New-JAMneration/JAM-Protocol/internal/zzverif/vlib"
	"github.com/New-JAMneration/JAM-Protocol/internal/zzverif/vsched"
)

// ---------------------------------------------------------------- tiny assembler (GP A.2 / A.37)

type c22Asm struct {
	code []byte
	mask []bool
}

func (a *c22Asm) emit(b ...byte) {
	for i, c := range b {
		a.code = append(a.code, c)
		a.mask = append(a.mask, i == 0)
	}
}
func (a *c22Asm) loadImm64(reg int, v uint64) {
	var b [10]byte
	b[0] = 20
	b[1] = byte(reg)
	binary.LittleEndian.PutUint64(b[2:], v)
	a.emit(b[:]...)
}
func (a *c22Asm) ecalli(id byte) { a.emit(10, id) }
func (a *c22Asm) fallthrough_()  { a.emit(1) }
func (a *c22Asm) halt()          { a.emit(50, 0) } // jump_ind r0, 0 with r0 = 2^32-2^16

func c22Varint(x uint64) []byte {
	switch {
	case x < 1<<7:
		return []byte{byte(x)}
	case x < 1<<14:
		return []byte{0x80 | byte(x>>8), byte(x)}
	case x < 1<<21:
		return []byte{0xC0 | byte(x>>16), byte(x), byte(x >> 8)}
	}
	panic("c22Varint")
}

func (a *c22Asm) blob() []byte {
	out := []byte{0x00, 0x01}
	out = append(out, c22Varint(uint64(len(a.code)))...)
	out = append(out, a.code...)
	k := make([]byte, (len(a.code)+7)/8)
	for i, m := range a.mask {
		if m {
			k[i/8] |= 1 << uint(i%8)
		}
	}
	return append(out, k...)
}

func c22LE(x uint64, n int) []byte {
	b := make([]byte, n)
	for i := range b {
		b[i] = byte(x >> (8 * uint(i)))
	}
	return b
}

func c22StandardProgram(ro, rw []byte, heapPages uint16, stack uint32, blob []byte) []byte {
	var p []byte
	p = append(p, c22LE(uint64(len(ro)), 3)...)
	p = append(p, c22LE(uint64(len(rw)), 3)...)
	p = append(p, c22LE(uint64(heapPages), 2)...)
	p = append(p, c22LE(uint64(stack), 3)...)
	p = append(p, ro...)
	p = append(p, rw...)
	p = append(p, c22LE(uint64(len(blob)), 4)...)
	p = append(p, blob...)
	return p
}

const (
	c22RO = 0x10000 // read-only data
	c22RW = 0x30000 // read-write data (|o| <= 65536)
)

// c22ServiceCode: the accumulate entry (pc 5) of service `self`:
//
//	fetch(all accumulation items) -> rw[0..4000); write("in", rw[0..4000))
//	transfers: nXfer transfers to each other service, memo i distinct
//	yield(ro hash); halt
func c22ServiceCode(self uint32, others []uint32, nXfer int, observe []uint32) []byte {
	// ro layout: [0..2) key "in" | [2..4) key "io" | [32..64) yield hash | [128..128+128*k) memos
	ro := make([]byte, 128+128*len(others)*nXfer)
	copy(ro[0:], []byte("in"))
	copy(ro[2:], []byte("io"))
	for i := 0; i < 32; i++ {
		ro[32+i] = byte(self*16 + uint32(i))
	}
	a := &c22Asm{}
	for i := 0; i < 5; i++ {
		a.fallthrough_()
	}
	// fetch: w7 = out ptr, w8 = offset, w9 = max len, w10 = 14 (all items)
	a.loadImm64(7, c22RW)
	a.loadImm64(8, 0)
	a.loadImm64(9, 4000)
	a.loadImm64(10, 14)
	a.ecalli(1)
	// write: w7 = key ptr, w8 = key len, w9 = value ptr, w10 = value len
	a.loadImm64(7, c22RO)
	a.loadImm64(8, 2)
	a.loadImm64(9, c22RW)
	a.loadImm64(10, 4000)
	a.ecalli(4)
	// observe the other services as this invocation sees them: info(peer) -> rw[4096+128*i ..), then
	// write("io", those records). A partial state that leaks between the services of one round
	// (credited balances, storage footprints) shows up here.
	for i, peer := range observe {
		a.loadImm64(7, uint64(peer))
		a.loadImm64(8, uint64(c22RW+4096+128*i))
		a.loadImm64(9, 0)
		a.loadImm64(10, 128)
		a.ecalli(5)
	}
	if len(observe) > 0 {
		a.loadImm64(7, c22RO+2)
		a.loadImm64(8, 2)
		a.loadImm64(9, c22RW+4096)
		a.loadImm64(10, uint64(128*len(observe)))
		a.ecalli(4)
	}
	m := 0
	for k := 0; k < nXfer; k++ {
		for _, d := range others {
			off := 128 + 128*m
			for i := 0; i < 128; i++ {
				ro[off+i] = byte(self)<<4 | byte(d)
			}
			ro[off] = byte(k) // distinct memo per transfer
			copy(ro[off+1:], c22LE(uint64(self), 4))
			copy(ro[off+5:], c22LE(uint64(d), 4))
			// transfer: w7 = dest, w8 = amount, w9 = gas, w10 = memo ptr
			a.loadImm64(7, uint64(d))
			a.loadImm64(8, uint64(1+k))
			a.loadImm64(9, 100)
			a.loadImm64(10, uint64(c22RO+off))
			a.ecalli(20)
			m++
		}
	}
	// yield the first 32 bytes of what this invocation fetched: a service accumulated in two rounds
	// of one block (work result first, transfers later) yields two different outputs
	a.loadImm64(7, c22RW)
	a.ecalli(25) // yield
	a.halt()
	prog := c22StandardProgram(ro, make([]byte, 8192), 1, 4096, a.blob())
	return append([]byte{1, 'm'}, prog...) // E(len-prefixed metadata) ++ code
}

// ---------------------------------------------------------------- world

type c22World struct {
	input OuterAccumulationInput
}

func c22Account(code []byte) types.ServiceAccount {
	h := hash.Blake2bHash(types.ByteSequence(code))
	a := types.ServiceAccount{
		ServiceInfo:    types.ServiceInfo{CodeHash: h, Balance: 1_000_000_000, MinItemGas: 0, MinMemoGas: 0},
		PreimageLookup: types.PreimagesMapEntry{h: types.ByteSequence(code)},
		LookupDict:     types.LookupMetaMapEntry{{Hash: h, Length: types.U32(len(code))}: types.TimeSlotSet{0}},
		StorageDict:    types.Storage{},
	}
	a.ServiceInfo.Items = 2
	a.ServiceInfo.Bytes = types.U64(81 + len(code))
	return a
}

// c22Build: nServices "sender" services 10,11,… (each has a work result in the block and sends
// nXfer transfers to each of the two "sink" services 20, 21, which only record what they fetch).
// The sinks are accumulated in a second round with the deferred transfers of the first round:
// what they store is the exact item sequence the implementation handed to their code.
func c22Build(nServices, nXfer int) OuterAccumulationInput {
	ids := []uint32{}
	for i := 0; i < nServices; i++ {
		// service ids that collide under plausible shortcuts: equal low 16 bits, above the Unicode
		// range (string(rune(id)) is U+FFFD for all of them), one in the surrogate range
		ids = append(ids, []uint32{0x0011000A, 0x0012000A, 0x0000D80A, 0x0014000A, 0x0015000A}[i])
	}
	sinks := []uint32{0x0013000A, 0x0000D90A}
	accounts := types.ServiceAccountState{}
	all := append(append([]uint32{}, ids...), sinks...)
	peers := func(self uint32) []uint32 {
		var o []uint32
		for _, x := range all {
			if x != self {
				o = append(o, x)
			}
		}
		return o
	}
	for _, id := range ids {
		accounts[types.ServiceID(id)] = c22Account(c22ServiceCode(id, sinks, nXfer, peers(id)))
	}
	for _, id := range sinks {
		accounts[types.ServiceID(id)] = c22Account(c22ServiceCode(id, nil, 0, peers(id)))
	}
	assign := make(types.ServiceIDList, types.CoresCount)
	for i := range assign {
		assign[i] = 999
	}
	e := types.PartialStateSet{
		ServiceAccounts: accounts,
		ValidatorKeys:   make(types.ValidatorsData, types.ValidatorsCount),
		Authorizers:     make(types.AuthQueues, types.CoresCount),
		Bless:           999, Assign: assign, Designate: 999, CreateAcct: 999,
		AlwaysAccum: types.AlwaysAccumulateMap{},
	}
	for c := range e.Authorizers {
		e.Authorizers[c] = make(types.AuthQueue, types.AuthQueueSize)
	}
	var reports []types.WorkReport
	// sink 20 also has a work result: it is accumulated in the first round (operand) and again in the
	// second (transfers), so the output set b holds two pairs for one service
	for i, id := range append(append([]uint32{}, ids...), sinks[0]) {
		var ph types.OpaqueHash
		ph[0] = byte(i + 1)
		reports = append(reports, types.WorkReport{
			PackageSpec: types.WorkPackageSpec{Hash: types.WorkPackageHash(ph)},
			CoreIndex:   types.CoreIndex(i % types.CoresCount),
			Results: []types.WorkResult{{
				ServiceID: types.ServiceID(id), CodeHash: accounts[types.ServiceID(id)].ServiceInfo.CodeHash,
				AccumulateGas: 100_000, Result: types.WorkExecResult{Type: types.WorkExecResultOk, Data: []byte{byte(id)}},
			}},
		})
	}
	return OuterAccumulationInput{GasLimit: 10_000_000, WorkReports: reports, InitPartialStateSet: e,
		ServicesWithFreeAccumulation: types.AlwaysAccumulateMap{}}
}

// ---------------------------------------------------------------- canonical observation

// c22Canon renders a value deterministically (maps sorted by rendered key).
func c22Canon(v reflect.Value, sb *strings.Builder) {
	switch v.Kind() {
	case reflect.Map:
		type kv struct{ k, v string }
		var items []kv
		it := v.MapRange()
		for it.Next() {
			var kb, vb strings.Builder
			c22Canon(it.Key(), &kb)
			c22Canon(it.Value(), &vb)
			items = append(items, kv{kb.String(), vb.String()})
		}
		sort.Slice(items, func(i, j int) bool { return items[i].k < items[j].k })
		sb.WriteString("map{")
		for _, x := range items {
			sb.WriteString(x.k + ":" + x.v + ",")
		}
		sb.WriteString("}")
	case reflect.Slice, reflect.Array:
		if v.Type().Elem().Kind() == reflect.Uint8 {
			b := make([]byte, v.Len())
			for i := range b {
				b[i] = byte(v.Index(i).Uint())
			}
			sb.WriteString("x" + vlib.Hex(b))
			return
		}
		sb.WriteString("[")
		for i := 0; i < v.Len(); i++ {
			c22Canon(v.Index(i), sb)
			sb.WriteString(",")
		}
		sb.WriteString("]")
	case reflect.Struct:
		sb.WriteString(v.Type().Name() + "{")
		for i := 0; i < v.NumField(); i++ {
			sb.WriteString(v.Type().Field(i).Name + "=")
			c22Canon(v.Field(i), sb)
			sb.WriteString(";")
		}
		sb.WriteString("}")
	case reflect.Ptr, reflect.Interface:
		if v.IsNil() {
			sb.WriteString("nil")
		} else {
			c22Canon(v.Elem(), sb)
		}
	default:
		fmt.Fprintf(sb, "%v", v.Interface())
	}
}

type c22Obs struct {
	Parts map[string]string // component -> canonical rendering
}

func c22Observe(err error) c22Obs {
	o := c22Obs{Parts: map[string]string{}}
	put := func(name string, v interface{}) {
		var sb strings.Builder
		c22Canon(reflect.ValueOf(v), &sb)
		o.Parts[name] = sb.String()
	}
	if err != nil {
		o.Parts["error"] = err.Error()
	}
	cs := blockchain.GetInstance()
	post, mid := cs.GetPosteriorStates(), cs.GetIntermediateStates()
	// sequences are compared as sequences (their order is state), maps by sorted key
	put("posterior.theta_last_acc_out", post.GetLastAccOut())
	put("intermediate.delta_double_dagger", mid.GetDeltaDoubleDagger())
	put("intermediate.accumulation_statistics", mid.GetAccumulationStatistics())
	put("posterior.chi", post.GetChi())
	put("posterior.varphi", post.GetVarphi())
	put("posterior.iota", post.GetIota())
	put("posterior.xi", post.GetXi())
	put("posterior.vartheta", post.GetVartheta())
	put("post_unmatched_keyvals", cs.GetPostStateUnmatchedKeyVals())
	return o
}

func c22Diff(a, b c22Obs) (string, string) {
	var names []string
	for k := range a.Parts {
		names = append(names, k)
	}
	sort.Strings(names)
	for _, k := range names {
		if a.Parts[k] != b.Parts[k] {
			x, y := a.Parts[k], b.Parts[k]
			i := 0
			for i < len(x) && i < len(y) && x[i] == y[i] {
				i++
			}
			lo := i - 60
			if lo < 0 {
				lo = 0
			}
			hx, hy := i+100, i+100
			if hx > len(x) {
				hx = len(x)
			}
			if hy > len(y) {
				hy = len(y)
			}
			return k, fmt.Sprintf("first difference at byte %d: reference …%s… vs this execution …%s…", i, x[lo:hx], y[lo:hy])
		}
	}
	return "", ""
}

// ---------------------------------------------------------------- driver

type c22Replay struct {
	Workers  int   `json:"max_workers"`
	Services int   `json:"services"`
	Xfers    int   `json:"transfers_per_pair"`
	Free     bool  `json:"free_switch"`
	Choices  []int `json:"choices"`
}

// c22Accumulate: one accumulation of the scenario through the state-integration entry point
// DeferredTransfers() on a fresh chain state, and what it leaves behind.
func c22Accumulate(services, xfers int) c22Obs {
	blockchain.ResetInstance()
	in := c22Build(services, xfers)
	cs := blockchain.GetInstance()
	e := in.InitPartialStateSet
	ps := cs.GetPriorStates()
	ps.SetDelta(e.ServiceAccounts)
	ps.SetIota(e.ValidatorKeys)
	ps.SetVarphi(e.Authorizers)
	ps.SetChi(types.Privileges{Bless: e.Bless, Assign: e.Assign, Designate: e.Designate, CreateAcct: e.CreateAcct, AlwaysAccum: e.AlwaysAccum})
	ps.SetXi(make(types.AccumulatedQueue, types.EpochLength))
	ps.SetVartheta(make(types.ReadyQueue, types.EpochLength))
	ps.SetTau(4)
	cs.GetPosteriorStates().SetXi(make(types.AccumulatedQueue, types.EpochLength))
	cs.GetPosteriorStates().SetVartheta(make(types.ReadyQueue, types.EpochLength))
	cs.AddBlock(types.Block{Header: types.Header{Slot: 5}})
	cs.GetPosteriorStates().SetTau(5)
	cs.GetIntermediateStates().SetAccumulatableWorkReports(in.WorkReports)
	return c22Observe(DeferredTransfers())
}

func c22RunOnce(workers, services, xfers int, free bool, prefix []int, states map[uint64]struct{}) (*vsched.Exec, c22Obs) {
	var obs c22Obs
	e := vsched.RunOnce(prefix, states, func(e *vsched.Exec) {
		e.FreeSwitch = free
		e.MaxSteps = 200000
	}, func(e *vsched.Exec) {
		types.MaxWorkers = workers
		obs = c22Accumulate(services, xfers)
	})
	return e, obs
}

func TestVerif_C22(t *testing.T) {
	r := vlib.Start(t, "C22")
	defer r.Finish()
	types.SetTinyMode()

	var rp c22Replay
	if r.IsReplay(&rp) {
		_, ref := c22RunOnce(rp.Workers, rp.Services, rp.Xfers, rp.Free, nil, nil)
		e, obs := c22RunOnce(rp.Workers, rp.Services, rp.Xfers, rp.Free, rp.Choices, nil)
		r.Eval()
		r.Class(e.Outcome)
		if part, d := c22Diff(ref, obs); part != "" {
			r.Violation("accumulation.OuterAccumulation", "nondeterministic-result", part, d, rp)
		}
		return
	}

	services, xfers := 3, 7
	type cfg struct {
		workers int
		free    bool
		bound   int
	}
	// quick: every pool size with <= 2 deviations;
	// thorough: <= 3 deviations (delay bounding) and <= 2 preemptions (CHESS bounding)
	cfgs := []cfg{{1, false, 2}, {2, false, 2}, {32, false, 2}}
	if r.Thorough() {
		cfgs = []cfg{{1, false, 3}, {2, false, 3}, {32, false, 3}, {2, true, 2}, {32, true, 2}}
	}
	if v := os.Getenv("VERIF_C22_BOUND"); v != "" {
		var b int
		fmt.Sscan(v, &b)
		for i := range cfgs {
			cfgs[i].bound = b
		}
	}
	var globalRef *c22Obs
	total := 0
	for _, cf := range cfgs {
		cf := cf
		// reference = default execution of this configuration, run twice (determinism self check)
		e0, ref := c22RunOnce(cf.workers, services, xfers, cf.free, nil, nil)
		_, ref2 := c22RunOnce(cf.workers, services, xfers, cf.free, nil, nil)
		if e0.Outcome != "ok" {
			t.Fatalf("C22: default execution outcome %s: %s %v", e0.Outcome, e0.Detail, e0.Blocked)
		}
		if part, d := c22Diff(ref, ref2); part != "" {
			t.Fatalf("C22: default execution is not reproducible (%s: %s) — harness does not own all nondeterminism", part, d)
		}
		if _, bad := ref.Parts["error"]; bad {
			t.Fatalf("C22: scenario does not accumulate: %s", ref.Parts["error"])
		}
		if os.Getenv("VERIF_C22_DEBUG") != "" {
			for sid, acc := range blockchain.GetInstance().GetPosteriorStates().GetDelta() {
				for k, v := range acc.StorageDict {
					n := len(v)
					if n > 700 {
						n = 700
					}
					fmt.Fprintf(os.Stderr, "DBGSTORE svc=%d key=%x len=%d val=%x\n", sid, k, len(v), v[:n])
				}
			}
			for k, v := range ref.Parts {
				if len(v) > 1500 {
					v = v[:1500]
				}
				t.Logf("%s = %s", k, v)
			}
		}
		if globalRef == nil {
			globalRef = &ref
			r.Sample(map[string]interface{}{"reference_accumulation_statistics": ref.Parts["intermediate.accumulation_statistics"], "points_default": len(e0.Points)})
		} else if part, d := c22Diff(*globalRef, ref); part != "" {
			r.Violation("accumulation.ParallelizedAccumulation", "depends-on-worker-pool-size", part,
				fmt.Sprintf("MaxWorkers=%d differs from MaxWorkers=%d in the default schedule: %s", cf.workers, cfgs[0].workers, d),
				c22Replay{Workers: cf.workers, Services: services, Xfers: xfers, Free: cf.free})
		}
		var obs c22Obs
		x := &vsched.Explorer{Bound: cf.bound, Shard: r.Shard, NShards: r.NShards, Stop: r.Expired,
			Setup: func(e *vsched.Exec) { e.FreeSwitch = cf.free; e.MaxSteps = 200000 },
			Body: func(e *vsched.Exec) {
				types.MaxWorkers = cf.workers
				obs = c22Accumulate(services, xfers)
			},
			OnExec: func(e *vsched.Exec) {
				r.Eval()
				r.Trace()
				kinds := map[string]int{}
				for _, p := range e.Points {
					if p.Chosen != 0 {
						kinds[p.Kind]++
					}
				}
				r.Class(fmt.Sprintf("workers=%d free=%v out=%s deviations=%v", cf.workers, cf.free, e.Outcome, kinds))
				if os.Getenv("VERIF_C22_DEBUG") != "" && kinds["map-order"] > 0 {
					pk := []string{}
					for i, p := range e.Points {
						if p.Chosen != 0 {
							pk = append(pk, fmt.Sprintf("%d:%s=%d/%d", i, p.Kind, p.Chosen, p.N))
						}
					}
					fmt.Fprintf(os.Stderr, "DBG workers=%d dev=%v delta=%x\n", cf.workers, pk, vlib.H(obs.Parts["intermediate.delta_double_dagger"]))
				}
				rp := c22Replay{Workers: cf.workers, Services: services, Xfers: xfers, Free: cf.free, Choices: e.Choices()}
				if e.Outcome != "ok" {
					r.Violation("accumulation.ParallelizedAccumulation", e.Outcome, fmt.Sprintf("workers=%d", cf.workers), e.Detail+" "+strings.Join(e.Blocked, ","), rp)
					return
				}
				if part, d := c22Diff(*globalRef, obs); part != "" {
					dev := []string{}
					for k := range kinds {
						dev = append(dev, k)
					}
					sort.Strings(dev)
					r.Violation("accumulation.OuterAccumulation", "nondeterministic-result", part+";via="+strings.Join(dev, "+"),
						fmt.Sprintf("MaxWorkers=%d, %d choice points, cost %d, deviations %v: component %s differs from the default execution: %s", cf.workers, len(e.Points), e.Cost(), kinds, part, d), rp)
				}
				if r.WantSample() && e.Cost() == cf.bound {
					r.Sample(map[string]interface{}{"workers": cf.workers, "choices": e.Choices(), "deviations": kinds})
				}
			}}
		st := x.Run()
		r.TransitionN(st.Transitions)
		total += st.States
		if st.Capped {
			r.Cap(fmt.Sprintf("deadline reached (workers=%d free=%v)", cf.workers, cf.free))
		}
		r.Extra(fmt.Sprintf("sum_executions workers=%d free=%v", cf.workers, cf.free), st.Executions)
		r.Extra(fmt.Sprintf("max_points workers=%d free=%v", cf.workers, cf.free), st.MaxPoints)
	}
	r.StateCount(uint64(total))
	r.Extra("configurations (workers, free-switch, bound)", fmt.Sprint(cfgs))
	r.Extra("map_iterations_with_partial_permutation_menu", vsched.MapOrdersPartial)
}
