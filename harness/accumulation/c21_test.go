package accumulation

// C21 — accumulation queue selection and ordering (GP 12.4–12.12, 12.31–12.33).
//
// E1: every dependency graph on n reports (dependencies ⊆ {h1..hn,hx} split into
// prerequisites / segment-root lookups, each report newly available or sitting
// in the ready queue before / after slot m, accumulated history ⊆ {h1..hn,hx})
// is installed on a reset blockchain singleton and pushed through the real
// UpdateImmediatelyAccumulateWorkReports, UpdateQueuedWorkReports,
// UpdateAccumulatableWorkReports, updateXi and updateVartheta; W!, W_Q, W*, ξ′
// and ϑ′ are compared with a functional restatement of the GP equations, and
// the clauses of the property statement are checked on the implementation's own
// output. E2: chains of blocks over a small availability alphabet with slot gaps.

import (
	"fmt"
	"strings"
	"testing"

	"github.com/New-JAMneration/JAM-Protocol/config"
	"github.com/New-JAMneration/JAM-Protocol/internal/blockchain"
	"github.com/New-JAMneration/JAM-Protocol/internal/types"
	"github.com/New-JAMneration/JAM-Protocol/internal/zzverif/vlib"
	"github.com/New-JAMneration/JAM-Protocol/logger"
)

const c21E = 12

func c21World() {
	logger.GetLogger("main").Disable()
	config.Config.Database.Type = "memory"
	types.TEST_MODE = "tiny"
	types.ValidatorsCount = 6
	types.CoresCount = 2
	types.EpochLength = c21E
	types.SlotSubmissionEnd = 10
	types.RotationPeriod = 4
	types.MaxTicketsPerBlock = 3
	types.TicketsPerValidator = 3
	types.ValidatorsSuperMajority = 5
	types.AvailBitfieldBytes = 1
	types.MaxLookupAge = 24
	types.MaxKeyLevelCacheSize = types.EpochLength * 50
}

func c21Reset() *blockchain.ChainState {
	blockchain.ResetInstance()
	blockchain.ClearVerifierCache()
	return blockchain.GetInstance()
}

// ---------- labels ----------

func c21Hash(l int) types.WorkPackageHash {
	var h types.WorkPackageHash
	for i := range h {
		h[i] = byte(0x40 + i) // all labels share their first 31 bytes
	}
	h[31] = byte(0xF0 - 0x10*l) // h1 > h2 > … so that "sorted by hash" differs from list order
	return h
}

var c21Names = map[types.WorkPackageHash]int{}

func c21Label(h types.WorkPackageHash) int {
	if l, ok := c21Names[h]; ok {
		return l
	}
	return -1
}

// ---------- reference model (labels instead of hashes; sets are bit masks) ----------

type c21Rep struct {
	ID int   `json:"id"` // unique tag (carried in AuthGasUsed)
	H  int   `json:"h"`  // package hash label
	P  []int `json:"p"`  // prerequisites
	L  []int `json:"l"`  // segment-root lookup package hashes
}

type c21Rec struct {
	R c21Rep
	D uint // dependency set
}

func (r c21Rep) deps() uint {
	var d uint
	for _, x := range r.P {
		d |= 1 << uint(x)
	}
	for _, x := range r.L {
		d |= 1 << uint(x)
	}
	return d
}

// (12.7) E
func c21Edit(r []c21Rec, x uint) []c21Rec {
	out := make([]c21Rec, 0, len(r))
	for _, it := range r {
		if x&(1<<uint(it.R.H)) != 0 {
			continue
		}
		out = append(out, c21Rec{it.R, it.D &^ x})
	}
	return out
}

// (12.8) Q ; also returns the number of rounds
func c21Q(r []c21Rec) ([]c21Rep, int) {
	var g []c21Rep
	var p uint
	for _, it := range r {
		if it.D == 0 {
			g = append(g, it.R)
			p |= 1 << uint(it.R.H)
		}
	}
	if len(g) == 0 {
		return nil, 0
	}
	rest, n := c21Q(c21Edit(r, p))
	return append(g, rest...), n + 1
}

type c21State struct {
	Xi  [c21E]uint     // E sets of labels
	Th  [c21E][]c21Rec // E ready-queue slots
	Tau int
}

func (s *c21State) xiAll() uint {
	var a uint
	for _, x := range s.Xi {
		a |= x
	}
	return a
}

type c21Out struct {
	Wbang, Wstar []c21Rep
	WQ           []c21Rec
	Rounds       int
	Post         c21State
}

func c21Step(s *c21State, slot int, avail []c21Rep) c21Out {
	var o c21Out
	var withDeps []c21Rec
	for _, w := range avail {
		if len(w.P) == 0 && len(w.L) == 0 { // (12.4)
			o.Wbang = append(o.Wbang, w)
		} else {
			withDeps = append(withDeps, c21Rec{w, w.deps()}) // (12.6)
		}
	}
	o.WQ = c21Edit(withDeps, s.xiAll()) // (12.5)
	m := slot % c21E                    // (12.10)
	var q []c21Rec
	for i := m; i < c21E; i++ {
		q = append(q, s.Th[i]...)
	}
	for i := 0; i < m; i++ {
		q = append(q, s.Th[i]...)
	}
	q = append(q, o.WQ...)
	var pb uint
	for _, w := range o.Wbang {
		pb |= 1 << uint(w.H)
	}
	rest, rounds := c21Q(c21Edit(q, pb)) // (12.12), (12.8)
	o.Rounds = rounds
	o.Wstar = append(append([]c21Rep{}, o.Wbang...), rest...) // (12.11)
	// (12.31)–(12.33) with n = |W*|
	var last uint
	for _, w := range o.Wstar {
		last |= 1 << uint(w.H)
	}
	for i := 0; i < c21E-1; i++ {
		o.Post.Xi[i] = s.Xi[i+1]
	}
	o.Post.Xi[c21E-1] = last
	gap := slot - s.Tau
	for i := 0; i < c21E; i++ {
		idx := ((m-i)%c21E + c21E) % c21E
		switch {
		case i == 0:
			o.Post.Th[idx] = c21Edit(o.WQ, last)
		case i < gap:
			o.Post.Th[idx] = nil
		default:
			o.Post.Th[idx] = c21Edit(s.Th[idx], last)
		}
	}
	o.Post.Tau = slot
	return o
}

// ---------- installing a model state on the singleton ----------

func c21Report(r c21Rep) types.WorkReport {
	w := types.WorkReport{AuthGasUsed: types.Gas(r.ID + 1)}
	w.PackageSpec.Hash = c21Hash(r.H)
	for _, p := range r.P {
		w.Context.Prerequisites = append(w.Context.Prerequisites, types.OpaqueHash(c21Hash(p)))
	}
	for _, l := range r.L {
		w.SegmentRootLookup = append(w.SegmentRootLookup, types.SegmentRootLookupItem{WorkPackageHash: c21Hash(l), SegmentTreeRoot: types.OpaqueHash{byte(l), 0xEE}})
	}
	return w
}

func c21Install(cs *blockchain.ChainState, s *c21State) {
	xi := make(types.AccumulatedQueue, c21E)
	for i, x := range s.Xi {
		for l := 0; l < 8; l++ {
			if x&(1<<uint(l)) != 0 {
				xi[i] = append(xi[i], c21Hash(l))
			}
		}
	}
	th := make(types.ReadyQueue, c21E)
	for i, slot := range s.Th {
		for _, rec := range slot {
			rr := types.ReadyRecord{Report: c21Report(rec.R), Dependencies: []types.WorkPackageHash{}}
			for l := 0; l < 8; l++ {
				if rec.D&(1<<uint(l)) != 0 {
					rr.Dependencies = append(rr.Dependencies, c21Hash(l))
				}
			}
			th[i] = append(th[i], rr)
		}
	}
	cs.GetPriorStates().SetXi(xi)
	cs.GetPriorStates().SetVartheta(th)
	cs.GetPriorStates().SetTau(types.TimeSlot(s.Tau))
}

func c21SetStr(x uint) string {
	var y []int
	for l := 0; l < 16; l++ {
		if x&(1<<uint(l)) != 0 {
			y = append(y, l)
		}
	}
	return fmt.Sprint(y)
}

func c21RecStr(rs []c21Rec) string {
	var sb strings.Builder
	for _, r := range rs {
		fmt.Fprintf(&sb, "r%d(h%d)%s ", r.R.ID, r.R.H, c21SetStr(r.D))
	}
	return "[" + strings.TrimSpace(sb.String()) + "]"
}

func c21RepStr(rs []c21Rep) string {
	var sb strings.Builder
	for _, r := range rs {
		fmt.Fprintf(&sb, "r%d(h%d) ", r.ID, r.H)
	}
	return "[" + strings.TrimSpace(sb.String()) + "]"
}

// implementation values projected onto the model
func c21ImplReps(ws []types.WorkReport) []c21Rep {
	out := make([]c21Rep, len(ws))
	for i, w := range ws {
		out[i] = c21Rep{ID: int(w.AuthGasUsed) - 1, H: c21Label(w.PackageSpec.Hash)}
	}
	return out
}

func c21ImplSet(hs []types.WorkPackageHash) uint {
	var x uint
	for _, h := range hs {
		l := c21Label(h)
		if l < 0 {
			l = 15
		}
		x |= 1 << uint(l)
	}
	return x
}

func c21ImplRecs(q types.ReadyQueueItem) []c21Rec {
	out := make([]c21Rec, len(q))
	for i, it := range q {
		out[i] = c21Rec{c21Rep{ID: int(it.Report.AuthGasUsed) - 1, H: c21Label(it.Report.PackageSpec.Hash)}, c21ImplSet(it.Dependencies)}
	}
	return out
}

func c21RepsEq(a, b []c21Rep) bool {
	if len(a) != len(b) {
		return false
	}
	for i := range a {
		if a[i].ID != b[i].ID || a[i].H != b[i].H {
			return false
		}
	}
	return true
}

func c21RecsEq(a, b []c21Rec) bool {
	if len(a) != len(b) {
		return false
	}
	for i := range a {
		if a[i].R.ID != b[i].R.ID || a[i].R.H != b[i].R.H || a[i].D != b[i].D {
			return false
		}
	}
	return true
}

type c21Block struct {
	Step  int      `json:"step"`
	Avail []c21Rep `json:"avail"`
}

type c21Case struct {
	N      int        `json:"n"`
	Hist   []int      `json:"hist"`           // accumulated history labels
	HOff   *int       `json:"hoff,omitempty"` // nil: k-th label in ξ[E-1-k] (newest first); else in ξ[(HOff+k) mod E] (0 = oldest slot)
	Before []c21Rep   `json:"before"`         // ready-queue slot m-1
	After  []c21Rep   `json:"after"`          // ready-queue slot m+1
	Blocks []c21Block `json:"blocks"`
	Key    string     `json:"key"`
}

const c21Tau0 = 40

func c21Initial(c *c21Case) *c21State {
	s := &c21State{Tau: c21Tau0}
	for k, l := range c.Hist {
		i := c21E - 1 - (k % (c21E - 1)) // newest first
		if c.HOff != nil {
			i = (*c.HOff + k) % c21E // from a chosen slot upwards; 0 = the slot that is shifted out by this block
		}
		s.Xi[i] |= 1 << uint(l)
	}
	step := 1
	if len(c.Blocks) > 0 {
		step = c.Blocks[0].Step
	}
	m := (c21Tau0 + step) % c21E
	for _, r := range c.Before {
		s.Th[(m-1+c21E)%c21E] = append(s.Th[(m-1+c21E)%c21E], c21Rec{r, r.deps()})
	}
	for _, r := range c.After {
		s.Th[(m+1)%c21E] = append(s.Th[(m+1)%c21E], c21Rec{r, r.deps()})
	}
	return s
}

var c21ClassCache = map[int]string{}

// c21Run pushes the case through the real code; returns a canonical trace (chains and self-test only).
func c21Run(r *vlib.Run, c *c21Case, count bool) string {
	cs := c21Reset()
	s := c21Initial(c)
	c21Install(cs, s)
	wantTrace := !count || len(c.Blocks) > 1
	var trace strings.Builder
	for bi := range c.Blocks {
		b := &c.Blocks[bi]
		slot := s.Tau + b.Step
		ref := c21Step(s, slot, b.Avail)

		// does the prior state satisfy the invariant the statement promises for ϑ?
		xiAll := s.xiAll()
		priorOK := true
		for _, sl := range s.Th {
			for _, rec := range sl {
				if xiAll&(1<<uint(rec.R.H)) != 0 || rec.D&xiAll != 0 {
					priorOK = false
				}
			}
		}

		avail := make([]types.WorkReport, 0, len(b.Avail))
		for _, a := range b.Avail {
			avail = append(avail, c21Report(a))
		}
		var (
			gotBang, gotStar []types.WorkReport
			gotWQ            types.ReadyQueueItem
			gotXi            types.AccumulatedQueue
			gotTh            types.ReadyQueue
		)
		panicked, msg, psite := vlib.Guard(func() {
			cs.AddBlock(types.Block{Header: types.Header{Slot: types.TimeSlot(slot)}})
			cs.GetPosteriorStates().SetTau(types.TimeSlot(slot))
			cs.GetIntermediateStates().SetAvailableWorkReports(avail)
			UpdateImmediatelyAccumulateWorkReports()
			UpdateQueuedWorkReports()
			UpdateAccumulatableWorkReports()
			is := cs.GetIntermediateStates()
			gotBang = is.GetAccumulatedWorkReports()
			gotWQ = is.GetQueuedWorkReports()
			gotStar = is.GetAccumulatableWorkReports()
			updateXi(cs, types.U64(len(gotStar)))
			updateVartheta(cs)
			gotXi = cs.GetPosteriorStates().GetXi()
			gotTh = cs.GetPosteriorStates().GetVartheta()
		})
		if count {
			r.Transition()
			r.Eval()
		}
		key := c.Key
		where := func() string {
			if len(c.Blocks) > 1 {
				return fmt.Sprintf("chain %v block %d slot %d", c.Blocks, bi, slot)
			}
			return fmt.Sprintf("block %d slot %d (m=%d, gap %d): history %v, ready queue before-m %s after-m %s, available %v", bi, slot, slot%c21E, b.Step, c.Hist, c21RepStr(c.Before), c21RepStr(c.After), b.Avail)
		}
		if panicked {
			r.Violation("accumulation."+strings.TrimPrefix(psite, "accumulation."), "go-panic", key, where()+": Go panic "+msg, c)
			return "panic"
		}
		bad := false
		iBang, iWQ, iStar := c21ImplReps(gotBang), c21ImplRecs(gotWQ), c21ImplReps(gotStar)
		if !c21RepsEq(iBang, ref.Wbang) {
			bad = true
			r.Violation("accumulation.UpdateImmediatelyAccumulateWorkReports", "wrong-Wbang", key, fmt.Sprintf("%s: W! = %s, reference %s", where(), c21RepStr(iBang), c21RepStr(ref.Wbang)), c)
		}
		if !c21RecsEq(iWQ, ref.WQ) {
			bad = true
			r.Violation("accumulation.UpdateQueuedWorkReports", "wrong-WQ", key, fmt.Sprintf("%s: W_Q = %s, reference %s", where(), c21RecStr(iWQ), c21RecStr(ref.WQ)), c)
		}
		if !c21RepsEq(iStar, ref.Wstar) {
			bad = true
			r.Violation("accumulation.UpdateAccumulatableWorkReports", "wrong-Wstar", key, fmt.Sprintf("%s: W* = %s, reference %s", where(), c21RepStr(iStar), c21RepStr(ref.Wstar)), c)
		}
		if len(gotXi) != c21E || len(gotTh) != c21E {
			r.Violation("accumulation.updateXi", "wrong-length", key, fmt.Sprintf("%s: |ξ′|=%d |ϑ′|=%d", where(), len(gotXi), len(gotTh)), c)
			return "diverged"
		}
		var iXi [c21E]uint
		var iTh [c21E][]c21Rec
		for i := 0; i < c21E; i++ {
			iXi[i] = c21ImplSet(gotXi[i])
			iTh[i] = c21ImplRecs(gotTh[i])
		}
		for i := 0; i < c21E; i++ {
			if iXi[i] != ref.Post.Xi[i] {
				bad = true
				r.Violation("accumulation.updateXi", "wrong-xi", key, fmt.Sprintf("%s: ξ′[%d] = %s, reference %s", where(), i, c21SetStr(iXi[i]), c21SetStr(ref.Post.Xi[i])), c)
				break
			}
		}
		for i := 0; i < c21E; i++ {
			if !c21RecsEq(iTh[i], ref.Post.Th[i]) {
				bad = true
				r.Violation("accumulation.updateVartheta", "wrong-vartheta", key, fmt.Sprintf("%s: ϑ′[%d] = %s, reference %s", where(), i, c21RecStr(iTh[i]), c21RecStr(ref.Post.Th[i])), c)
				break
			}
		}

		// ---- clauses of the statement, on the implementation's own output ----
		// dependency sets of every report as they entered the block, by report id
		var orig [64]uint
		var fromAvail uint64
		for _, a := range b.Avail {
			orig[a.ID&63] = a.deps()
			fromAvail |= 1 << uint(a.ID&63)
		}
		for _, sl := range s.Th {
			for _, rec := range sl {
				orig[rec.R.ID&63] = rec.D
			}
		}
		var chosenBefore uint
		nBang := len(iBang)
		for pos, w := range iStar {
			need := orig[w.ID&63] &^ chosenBefore
			if fromAvail&(1<<uint(w.ID&63)) != 0 {
				need &^= xiAll // satisfied by the accumulated history
			}
			if need != 0 {
				r.Violation("accumulation.AccumulationPriorityQueue", "chosen-before-dependency", key, fmt.Sprintf("%s: W* = %s lists r%d at position %d but its dependencies %s are neither accumulated nor chosen earlier", where(), c21RepStr(iStar), w.ID, pos, c21SetStr(need)), c)
				bad = true
			}
			// "nothing in the accumulated history is chosen again": asserted for queued reports on
			// reachable prior states; a dependency-free available report is in W! by (12.4) whatever ξ says
			if w.H >= 0 && xiAll&(1<<uint(w.H)) != 0 && pos >= nBang && priorOK {
				r.Violation("accumulation.QueueEditingFunction", "accumulated-chosen-again", key, fmt.Sprintf("%s: W* = %s contains r%d whose package h%d is in the accumulated history", where(), c21RepStr(iStar), w.ID, w.H), c)
				bad = true
			}
			if w.H >= 0 {
				chosenBefore |= 1 << uint(w.H)
			}
		}
		// ϑ′: no accumulated report, no accumulated dependency
		var postAll uint
		for i := 0; i < c21E; i++ {
			postAll |= iXi[i]
		}
		banned := iXi[c21E-1]
		if priorOK {
			banned = postAll
		}
		kept := 0
		for i := 0; i < c21E; i++ {
			for _, it := range iTh[i] {
				kept++
				if it.R.H >= 0 && banned&(1<<uint(it.R.H)) != 0 {
					bad = true
					r.Violation("accumulation.updateVartheta", "queue-keeps-accumulated-report", key, fmt.Sprintf("%s: ϑ′[%d] = %s keeps a report whose package h%d is accumulated", where(), i, c21RecStr(iTh[i]), it.R.H), c)
				}
				if it.D&banned != 0 {
					bad = true
					r.Violation("accumulation.updateVartheta", "queue-keeps-satisfied-dependency", key, fmt.Sprintf("%s: ϑ′[%d] = %s keeps dependencies %s which are accumulated", where(), i, c21RecStr(iTh[i]), c21SetStr(it.D&banned)), c)
				}
			}
		}
		if count {
			g := 0
			if b.Step > 1 {
				g = 1
			}
			p := 0
			if priorOK {
				p = 1
			}
			dropped := len(b.Avail) - len(ref.Wbang) - len(ref.WQ)
			ck := ((((((len(ref.Wbang)*8+ref.Rounds)*8+len(ref.Wstar))*8+dropped)*16+kept)*2+g)*2 + p)
			cl, ok := c21ClassCache[ck]
			if !ok {
				cl = fmt.Sprintf("W!=%d Qrounds=%d W*=%d droppedByXi=%d kept=%d gap>1=%d reachablePrior=%d", len(ref.Wbang), ref.Rounds, len(ref.Wstar), dropped, kept, g, p)
				c21ClassCache[ck] = cl
			}
			r.Class(cl)
		}
		if bad {
			return "diverged"
		}
		if wantTrace {
			fmt.Fprintf(&trace, "%s|%s|%s;", c21RepStr(iBang), c21RecStr(iWQ), c21RepStr(iStar))
			for i := 0; i < c21E; i++ {
				fmt.Fprintf(&trace, "%s%s", c21SetStr(iXi[i]), c21RecStr(iTh[i]))
			}
			trace.WriteString("\n")
		}
		if bi+1 < len(c.Blocks) {
			// commit (shallow, as ChainState.StateCommit)
			post := cs.GetPosteriorStates().GetState()
			cs.GetPriorStates().SetState(post)
			cs.GetPosteriorStates().SetState(blockchain.NewPosteriorStates().GetState())
		}
		np := ref.Post
		s = &np
	}
	if count {
		r.Trace()
		if len(c.Blocks) > 1 {
			r.State(trace.String())
		}
	}
	return trace.String()
}

// split a dependency mask into prerequisites / lookups
// mode 0: all prerequisites; 1: all lookups; 2: lowest label is a prerequisite, the rest lookups;
// 3: every dependency listed in both
func c21Split(mask, universe, mode int) (p, l []int) {
	first := true
	for d := 0; d < universe; d++ {
		if mask&(1<<d) == 0 {
			continue
		}
		switch mode {
		case 0:
			p = append(p, d)
		case 1:
			l = append(l, d)
		case 2:
			if first {
				p = append(p, d)
			} else {
				l = append(l, d)
			}
		default:
			p = append(p, d)
			l = append(l, d)
		}
		first = false
	}
	return
}

func c21Popcount(x int) int {
	n := 0
	for ; x != 0; x &= x - 1 {
		n++
	}
	return n
}

// restricted-growth strings = set partitions of the reports by package hash
func c21Partitions(n int, all bool) [][]int {
	if !all {
		p := make([]int, n)
		for i := range p {
			p[i] = i
		}
		return [][]int{p}
	}
	var out [][]int
	cur := make([]int, n)
	var rec func(i, max int)
	rec = func(i, max int) {
		if i == n {
			out = append(out, append([]int{}, cur...))
			return
		}
		for v := 0; v <= max+1 && v < n; v++ {
			cur[i] = v
			nm := max
			if v > max {
				nm = v
			}
			rec(i+1, nm)
		}
	}
	rec(0, -1)
	return out
}

type c21Plan struct {
	n        int
	modes    []int // -1 = alternate by report index (0,1,0,1)
	parts    bool  // duplicate package hashes
	steps    []int
	maxDeps  int // per report
	maxHist  int
	hoffs    []int // history placements: -1 = newest first, k = from slot k upwards
	histAll  bool
	sampleAt uint64
}

func TestVerif_C21(t *testing.T) {
	r := vlib.Start(t, "C21")
	defer r.Finish()
	c21World()
	for l := 0; l < 8; l++ {
		c21Names[c21Hash(l)] = l
	}

	var rc c21Case
	if r.IsReplay(&rc) {
		c21Run(r, &rc, true)
		return
	}

	// self-test: identical rebuilds
	{
		self := c21Case{N: 3, Hist: []int{3}, Before: []c21Rep{{ID: 0, H: 0, P: []int{1}}}, After: []c21Rep{{ID: 1, H: 1, L: []int{2}}},
			Blocks: []c21Block{{Step: 1, Avail: []c21Rep{{ID: 2, H: 2}}}, {Step: 2, Avail: []c21Rep{{ID: 3, H: 0, P: []int{0}}}}}, Key: "self-test"}
		a, b := c21Run(r, &self, false), c21Run(r, &self, false)
		if a != b {
			t.Fatalf("C21 self-test: two rebuilds of the same history differ")
		}
		if r.NViolations() == 0 && !strings.Contains(a, "r2(h2) r1(h1) r0(h0)") {
			t.Fatalf("C21 self-test: expected W* = [r2 r1 r0] in block 0, trace %q", a)
		}
	}

	var plans []c21Plan
	if r.Thorough() {
		plans = []c21Plan{
			{n: 1, modes: []int{0, 1, 2, 3}, parts: true, steps: []int{1, 2, c21E + 1}, maxDeps: 9, maxHist: 9, hoffs: []int{-1, 0, 1, 2, 3, 4, 5, 6, 7, 8, 9, 10, 11}},
			{n: 2, modes: []int{0, 1, 2, 3}, parts: true, steps: []int{1, 2, c21E + 1}, maxDeps: 9, maxHist: 9, hoffs: []int{-1, 0, 1, 2, 3, 4, 5, 6, 7, 8, 9, 10, 11}},
			{n: 3, modes: []int{0, 1, 2}, parts: false, steps: []int{1, 2}, maxDeps: 9, maxHist: 9, hoffs: []int{-1, 0}},
			{n: 3, modes: []int{-1}, parts: true, steps: []int{1}, maxDeps: 9, maxHist: 9, hoffs: []int{-1, 0}},
			{n: 4, modes: []int{-1}, parts: false, steps: []int{1}, maxDeps: 2, maxHist: 1, hoffs: []int{-1}},
		}
	} else {
		plans = []c21Plan{
			{n: 1, modes: []int{0, 1, 2, 3}, parts: true, steps: []int{1, 2, c21E + 1}, maxDeps: 9, maxHist: 9, hoffs: []int{-1, 0, 1, 2, 3, 4, 5, 6, 7, 8, 9, 10, 11}},
			{n: 2, modes: []int{0, 1, 2, 3}, parts: true, steps: []int{1, 2, c21E + 1}, maxDeps: 9, maxHist: 9, hoffs: []int{-1, 0, 1, 2, 3, 4, 5, 6, 7, 8, 9, 10, 11}},
			{n: 3, modes: []int{-1}, parts: false, steps: []int{1}, maxDeps: 9, maxHist: 9, hoffs: []int{-1, 0}},
		}
	}
	idx := uint64(0)
	for _, pl := range plans {
		n := pl.n
		U := n + 1 // labels 0..n-1 = h1..hn, n = hx
		var depMasks []int
		for mk := 0; mk < 1<<U; mk++ {
			if c21Popcount(mk) <= pl.maxDeps {
				depMasks = append(depMasks, mk)
			}
		}
		var histMasks []int
		for mk := 0; mk < 1<<U; mk++ {
			if c21Popcount(mk) <= pl.maxHist {
				histMasks = append(histMasks, mk)
			}
		}
		radix := make([]int, 0, 2*n)
		for i := 0; i < n; i++ {
			radix = append(radix, len(depMasks))
		}
		for i := 0; i < n; i++ {
			radix = append(radix, 3)
		}
		for _, part := range c21Partitions(n, pl.parts) {
			od := vlib.NewOdometer(radix...)
			for od.Next() {
				idx++
				if !r.Mine(idx) {
					continue
				}
				nNew, nQ := 0, 0
				for i := 0; i < n; i++ {
					if od.Digit[n+i] == 0 {
						nNew++
					} else {
						nQ++
					}
				}
				dup := false
				for i, v := range part {
					if v != i {
						dup = true
					}
				}
				for _, hm := range histMasks {
					var hist []int
					for d := 0; d < U; d++ {
						if hm&(1<<d) != 0 {
							hist = append(hist, d)
						}
					}
					for _, hoff := range pl.hoffs {
						if hoff >= 0 && len(hist) == 0 || hoff > 0 && len(hist) > 1 && hoff+len(hist) > c21E {
							continue // nothing to place / would wrap around (covered by the smaller offsets)
						}
						for _, mode := range pl.modes {
							for _, step := range pl.steps {
								qk := "some"
								if nQ == 0 {
									qk = "none"
								} else if nNew == 0 {
									qk = "all"
								}
								gk := "1"
								if step > 1 {
									gk = ">1"
								}
								ks := "queued=" + qk + ",dup=" + map[bool]string{false: "no", true: "yes"}[dup] + ",gap=" + gk
								c := c21Case{N: n, Hist: hist, Key: ks}
								if hoff >= 0 {
									ho := hoff
									c.HOff = &ho
								}
								var avail []c21Rep
								for i := 0; i < n; i++ {
									md := mode
									if md < 0 {
										md = i % 2
									}
									p, l := c21Split(depMasks[od.Digit[i]], U, md)
									rep := c21Rep{ID: i, H: part[i], P: p, L: l}
									switch od.Digit[n+i] {
									case 0:
										avail = append(avail, rep)
									case 1:
										c.Before = append(c.Before, rep)
									default:
										c.After = append(c.After, rep)
									}
								}
								c.Blocks = []c21Block{{Step: step, Avail: avail}}
								r.Space(1)
								c21Run(r, &c, true)
								if r.WantSample() && idx%50021 == 77 && hm == 1 {
									r.Sample(c)
								}
							}
						}
					}
				}
			}
		}
	}

	// ---- E2: chains of blocks ----
	// pool of report kinds: R0 = (h0, no deps); R1 = (h1, needs h0); R2 = (h2, lookups h1 and hx=4);
	// R3 = (h3, prerequisite h3: self-dependency)
	pool := []c21Rep{{H: 0}, {H: 1, P: []int{0}}, {H: 2, L: []int{1, 4}}, {H: 3, P: []int{3}}}
	var sets [][]int
	vlib.Subsets(len(pool), 2, func(s []int) { sets = append(sets, append([]int{}, s...)) })
	type ev struct {
		step int
		set  []int
	}
	var evs []ev
	for _, st := range []int{1, 2, c21E + 1} {
		for _, s := range sets {
			evs = append(evs, ev{st, s})
		}
	}
	depth := vlib.Pick(r, 3, 4)
	zero, one := 0, 1
	type hinit struct {
		hist []int
		off  *int
	}
	// {hx} newest, {hx} in the oldest slot (shifted out by the first block), {h0} one slot before the oldest
	for _, hi := range []hinit{{nil, nil}, {[]int{4}, nil}, {[]int{4}, &zero}, {[]int{0}, &one}} {
		hist := hi.hist
		for d := 2; d <= depth; d++ {
			vlib.Sequences(len(evs), d, func(s []int) {
				idx++
				if !r.Mine(idx) {
					return
				}
				c := c21Case{N: 4, Hist: hist, HOff: hi.off, Key: "chain"}
				id := 0
				for _, e := range s {
					b := c21Block{Step: evs[e].step}
					for _, k := range evs[e].set {
						rep := pool[k]
						rep.ID = id
						id++
						b.Avail = append(b.Avail, rep)
					}
					c.Blocks = append(c.Blocks, b)
				}
				r.Space(1)
				c21Run(r, &c, true)
			})
		}
	}
}
