package accumulation

// C31 — historical lookup (GP 9.5–9.7) and preimage admission/integration
// (GP 12.35–12.38). Bounded-exhaustive enumeration against R-stf.
//
// Lives in package accumulation (validateSortUnique & co. are here); the lookup
// half uses the exported service_account.HistoricalLookup and the exported
// host-call table PVM.HostCallFunctions.

import (
	"bytes"
	"fmt"
	"sort"
	"strings"
	"testing"

	"github.com/New-JAMneration/JAM-Protocol/PVM"
	"github.com/New-JAMneration/JAM-Protocol/internal/blockchain"
	"github.com/New-JAMneration/JAM-Protocol/internal/service_account"
	"github.com/New-JAMneration/JAM-Protocol/internal/types"
	m "github.com/New-JAMneration/JAM-Protocol/internal/utilities/merklization"
	"github.com/New-JAMneration/JAM-Protocol/internal/zzverif/vlib"
	"golang.org/x/crypto/blake2b"
)

// ======================= part 1: historical lookup =======================

// GP 9.7: I(l, t)
func c31RefI(l []uint32, t uint32) bool {
	switch len(l) {
	case 0:
		return false
	case 1:
		return l[0] <= t
	case 2:
		return l[0] <= t && t < l[1]
	case 3:
		return (l[0] <= t && t < l[1]) || l[2] <= t
	}
	panic("I is defined for |l| <= 3 only")
}

var c31Blob = []byte("c31-preimage")

const (
	c31Svc      = types.ServiceID(77)
	c31OtherSvc = types.ServiceID(78)
	c31NoSvc    = types.ServiceID(79)
)

type c31Case struct {
	Part   string   `json:"part"` // lookup | admit
	Rec    []uint32 `json:"rec,omitempty"`
	T      uint32   `json:"t,omitempty"`
	Store  int      `json:"store,omitempty"` // 0 stored, 1 absent, 2 stored under another length
	Seq    []int    `json:"seq,omitempty"`
	States []int    `json:"states,omitempty"`
}

func c31Slots(rec []uint32) types.TimeSlotSet {
	if rec == nil {
		return types.TimeSlotSet{}
	}
	out := make(types.TimeSlotSet, len(rec))
	for i, x := range rec {
		out[i] = types.TimeSlot(x)
	}
	return out
}

func c31LookupAccount(rec []uint32, store int) (types.ServiceAccount, types.OpaqueHash) {
	h := types.OpaqueHash(blake2b.Sum256(c31Blob))
	a := types.ServiceAccount{
		PreimageLookup: types.PreimagesMapEntry{},
		LookupDict:     types.LookupMetaMapEntry{},
		StorageDict:    types.Storage{},
	}
	other := []byte("another preimage")
	oh := types.OpaqueHash(blake2b.Sum256(other))
	a.PreimageLookup[oh] = other
	a.LookupDict[types.LookupMetaMapkey{Hash: oh, Length: types.U32(len(other))}] = types.TimeSlotSet{0}
	switch store {
	case 0:
		a.PreimageLookup[h] = append([]byte(nil), c31Blob...)
		a.LookupDict[types.LookupMetaMapkey{Hash: h, Length: types.U32(len(c31Blob))}] = c31Slots(rec)
	case 1:
		a.LookupDict[types.LookupMetaMapkey{Hash: h, Length: types.U32(len(c31Blob))}] = c31Slots(rec)
	case 2:
		a.PreimageLookup[h] = append([]byte(nil), c31Blob...)
		a.LookupDict[types.LookupMetaMapkey{Hash: h, Length: types.U32(len(c31Blob) + 1)}] = c31Slots(rec)
	}
	return a, h
}

const (
	c31HashAddr = uint64(0x20000 + 100)
	c31OutAddr  = uint64(0x30000 + 8)
)

func c31Memory(h types.OpaqueHash) *PVM.Memory {
	mem := &PVM.Memory{Pages: map[uint32]*PVM.Page{
		0x20: {Value: make([]byte, 4096), Access: PVM.MemoryReadOnly},
		0x30: {Value: bytes.Repeat([]byte{0xEE}, 4096), Access: PVM.MemoryReadWrite},
	}}
	copy(mem.Pages[0x20].Value[100:], h[:])
	return mem
}

// c31HostCall runs host call op with ω7 = sel on a fresh memory; returns ω7', the output window, exit reason, gas left.
func c31HostCall(op PVM.OperationType, sel uint64, self types.ServiceID, delta types.ServiceAccountState, t uint32, h types.OpaqueHash, f, l uint64) (uint64, []byte, PVM.ExitReason, PVM.Gas) {
	mem := c31Memory(h)
	regs := PVM.Registers{}
	regs[7], regs[8], regs[9], regs[10], regs[11] = sel, c31HashAddr, c31OutAddr, f, l
	gas := PVM.Gas(1000)
	sid := self
	var selfAcc types.ServiceAccount
	if a, ok := delta[self]; ok {
		selfAcc = a
	}
	in := PVM.OmegaInput{
		Operation: op,
		VM:        &PVM.VMState{Registers: &regs, Memory: mem, Gas: &gas},
		Addition: PVM.HostCallArgs{
			GeneralArgs: PVM.GeneralArgs{ServiceAccount: &selfAcc, ServiceID: &sid, ServiceAccountState: &delta},
			RefineArgs:  PVM.RefineArgs{TimeSlot: types.TimeSlot(t)},
		},
		HostCalls: PVM.HostCallFunctions,
	}
	out := PVM.HostCallFunctions[op](in)
	return regs[7], append([]byte(nil), mem.Pages[0x30].Value[8:8+len(c31Blob)+4]...), out.ExitReason, gas
}

// c31SelKey classifies a service selector ω7 that must not find the preimage.
func c31SelKey(sel uint64) string {
	switch {
	case sel == ^uint64(0):
		return "selector=self-without-preimage"
	case sel >= 1<<32 && uint32(sel) == uint32(c31Svc):
		return "selector>=2^32;low-32-bits=holder-id"
	case sel >= 1<<32:
		return "selector>=2^32"
	}
	return "selector=other-or-missing-account"
}

func c31CheckLookup(r *vlib.Run, c c31Case) {
	acc, h := c31LookupAccount(c.Rec, c.Store)
	r.Eval()
	// expectation
	must, may := false, false // must return the preimage / may return it
	if c.Store == 0 {
		if len(c.Rec) <= 3 {
			must = c31RefI(c.Rec, c.T)
			may = must
		} else {
			// |l| = 4 is outside GP's I: "nothing" is accepted, and so is the preimage when t lies in [x,y) or [z,w)
			may = (c.Rec[0] <= c.T && c.T < c.Rec[1]) || (c.Rec[2] <= c.T && c.T < c.Rec[3])
		}
	}
	branch := "none"
	if must {
		switch {
		case len(c.Rec) == 1:
			branch = "open"
		case len(c.Rec) == 2 || (c.Rec[0] <= c.T && c.T < c.Rec[1]):
			branch = "first-interval"
		default:
			branch = "reopened"
		}
	}
	mono := true
	for i := 1; i < len(c.Rec); i++ {
		mono = mono && c.Rec[i-1] <= c.Rec[i]
	}
	r.Class(fmt.Sprintf("lookup |l|=%d store=%d monotone=%v branch=%s", len(c.Rec), c.Store, mono, branch))
	key := fmt.Sprintf("|l|=%d;store=%d", len(c.Rec), c.Store)
	desc := fmt.Sprintf("record %v, t=%d, store=%d", c.Rec, c.T, c.Store)
	judge := func(site string, found bool, data []byte) {
		switch {
		case found && !bytes.Equal(data, c31Blob):
			r.Violation(site, "wrong-preimage", key, fmt.Sprintf("%s: returned %x, stored preimage is %x", desc, data, c31Blob), c)
		case found && !may:
			r.Violation(site, "unavailable-returned", key, fmt.Sprintf("%s: the preimage was returned although it is not stored / t is outside its availability", desc), c)
		case !found && must:
			r.Violation(site, "available-not-returned", key, fmt.Sprintf("%s: nothing returned although the preimage is stored and I(l, t) holds", desc), c)
		}
	}

	// (a) direct
	var got types.ByteSequence
	if p, msg, _ := vlib.Guard(func() { got = service_account.HistoricalLookup(acc, types.TimeSlot(c.T), h) }); p {
		r.Violation("service_account.HistoricalLookup", "go-panic", key, desc+": "+msg, c)
		return
	}
	r.Transition()
	judge("service_account.HistoricalLookup", got != nil, got)
	// a hash that is not stored at all
	var none types.ByteSequence
	vlib.Guard(func() { none = service_account.HistoricalLookup(acc, types.TimeSlot(c.T), types.OpaqueHash{1, 2, 3}) })
	r.Transition()
	if none != nil {
		r.Violation("service_account.HistoricalLookup", "unavailable-returned", "unknown-hash", desc+": a preimage was returned for a hash that is not stored", c)
	}

	// (b) host calls: historical_lookup (time dependent) and lookup (a_p only)
	delta := types.ServiceAccountState{c31Svc: acc, c31OtherSvc: {PreimageLookup: types.PreimagesMapEntry{}, LookupDict: types.LookupMetaMapEntry{}, StorageDict: types.Storage{}}}
	type hc struct {
		name string
		op   PVM.OperationType
		sel  uint64
		self types.ServiceID
		hit  bool // the selector designates the account holding the preimage
	}
	// ω7 lattice: self via 2^64-1, an existing id, a missing id, and values whose low 32 bits equal the id of the
	// service that holds the preimage (2^32 + id, 2^63 + id), 2^64-2, 2^32-1: only the full 64-bit value names a service
	holder := uint64(c31Svc)
	var calls []hc
	for _, op := range []struct {
		name string
		op   PVM.OperationType
	}{{"PVM.historicalLookup", PVM.HistoricalLookupOp}, {"PVM.lookup", PVM.LookupOp}} {
		calls = append(calls,
			hc{op.name, op.op, ^uint64(0), c31Svc, true},
			hc{op.name, op.op, holder, c31OtherSvc, true},
			hc{op.name, op.op, holder, c31Svc, true}, // own id given explicitly
			hc{op.name, op.op, uint64(c31NoSvc), c31Svc, false},
			hc{op.name, op.op, ^uint64(0), c31OtherSvc, false},
			hc{op.name, op.op, uint64(c31OtherSvc), c31Svc, false},
			hc{op.name, op.op, 1<<32 + holder, c31OtherSvc, false},
			hc{op.name, op.op, 1<<32 + holder, c31Svc, false},
			hc{op.name, op.op, 1<<63 + holder, c31OtherSvc, false},
			hc{op.name, op.op, ^uint64(0) - 1, c31OtherSvc, false},
			hc{op.name, op.op, ^uint64(0) - 1, c31Svc, false},
			hc{op.name, op.op, 1<<32 - 1, c31OtherSvc, false},
		)
	}
	for ci, k := range calls {
		f, l := uint64(0), uint64(len(c31Blob))
		if ci%2 == 1 {
			f, l = 2, 5
		}
		var w7 uint64
		var win []byte
		var ex PVM.ExitReason
		if p, msg, _ := vlib.Guard(func() { w7, win, ex, _ = c31HostCall(k.op, k.sel, k.self, delta, c.T, h, f, l) }); p {
			r.Violation(k.name, "go-panic", key, fmt.Sprintf("%s, selector %#x: %s", desc, k.sel, msg), c)
			continue
		}
		r.Transition()
		if ex != PVM.ExitContinue {
			r.Violation(k.name, "unexpected-exit", key, fmt.Sprintf("%s, selector %#x: exit reason %v", desc, k.sel, ex), c)
			continue
		}
		found := w7 != PVM.NONE
		untouched := bytes.Equal(win, bytes.Repeat([]byte{0xEE}, len(win)))
		if k.op == PVM.LookupOp {
			// lookup reads a_p only: found iff the preimage is stored in the designated account
			want := k.hit && c.Store != 1
			if found != want {
				vk := key
				if !k.hit {
					vk = c31SelKey(k.sel)
				}
				r.Violation(k.name, map[bool]string{true: "unavailable-returned", false: "available-not-returned"}[found], vk, fmt.Sprintf("%s, selector %#x (self %d): ω7=%#x, expected found=%v", desc, k.sel, k.self, w7, want), c)
				continue
			}
		} else {
			if !k.hit && found {
				r.Violation(k.name, "unavailable-returned", c31SelKey(k.sel), fmt.Sprintf("%s, selector %#x, self %d (the 64-bit value does not name a service holding the preimage): ω7=%#x", desc, k.sel, k.self, w7), c)
				continue
			}
			if k.hit {
				var data []byte
				if found {
					data = c31Blob // the content is checked through the window below
				}
				judge(k.name, found, data)
			}
		}
		if found {
			want := append(append([]byte(nil), c31Blob[f:f+l]...), bytes.Repeat([]byte{0xEE}, len(win)-int(l))...)
			if w7 != uint64(len(c31Blob)) || !bytes.Equal(win, want) {
				r.Violation(k.name, "wrong-preimage", key, fmt.Sprintf("%s, selector %#x, f=%d l=%d: ω7=%d window %x, expected %d / %x", desc, k.sel, f, l, w7, win, len(c31Blob), want), c)
			}
		} else if !untouched {
			r.Violation(k.name, "memory-written-on-none", key, fmt.Sprintf("%s, selector %#x: NONE returned but the output buffer was modified: %x", desc, k.sel, win), c)
		}
	}
	if r.WantSample() && len(c.Rec) == 3 && c.Store == 0 && c.T == 4 && c.Rec[0] == 1 && c.Rec[1] == 2 {
		r.Sample(map[string]interface{}{"part": "lookup", "case": c, "returned": got != nil})
	}
}

// ======================= part 2: admission =======================

type c31Entry struct {
	svc  types.ServiceID
	blob []byte
	pair int // index into the stateful pairs, -1 = service does not exist
}

const (
	c31S1   = types.ServiceID(10)
	c31S2   = types.ServiceID(20)
	c31S3   = types.ServiceID(30) // never exists
	c31Tau  = types.TimeSlot(42)
	c31Npair = 5
)

var (
	c31B1 = []byte("aa")
	c31B2 = []byte("ab")
	c31B3 = []byte("aa\x00") // b1 < b3 < b2: a proper extension of b1
)

// alphabet of extrinsic entries; entries 0..3,5 are the stateful pairs P0..P4
var c31Alphabet = []c31Entry{
	{c31S1, c31B1, 0}, {c31S1, c31B2, 1}, {c31S2, c31B1, 2}, {c31S2, c31B2, 3}, {c31S3, c31B1, -1}, {c31S1, c31B3, 4},
}

func c31PairEntry(p int) c31Entry {
	for _, e := range c31Alphabet {
		if e.pair == p {
			return e
		}
	}
	panic("pair")
}

const (
	c31Unsolicited = iota
	c31SolicitedDict
	c31SolicitedRaw
	c31Provided
	c31Forgotten
)

var c31StateNames = []string{"unsolicited", "solicited-dict", "solicited-raw", "provided", "forgotten"}

func c31Key(e c31Entry) types.LookupMetaMapkey {
	return types.LookupMetaMapkey{Hash: types.OpaqueHash(blake2b.Sum256(e.blob)), Length: types.U32(len(e.blob))}
}

// c31World builds δ and the raw (unmatched) key-values for the given pair states. Everything is freshly allocated.
func c31World(states []int) (types.ServiceAccountState, types.StateKeyVals) {
	d := types.ServiceAccountState{}
	for _, s := range []types.ServiceID{c31S1, c31S2} {
		d[s] = types.ServiceAccount{
			ServiceInfo:    types.ServiceInfo{Balance: 1000000},
			PreimageLookup: types.PreimagesMapEntry{},
			LookupDict:     types.LookupMetaMapEntry{},
			StorageDict:    types.Storage{},
		}
	}
	// decoys around the interesting raw entries
	kv := types.StateKeyVals{{Key: types.StateKey{0xFF, 1}, Value: types.ByteSequence{0}}}
	for p := 0; p < c31Npair; p++ {
		e := c31PairEntry(p)
		k := c31Key(e)
		a := d[e.svc]
		switch states[p] {
		case c31SolicitedDict:
			a.LookupDict[k] = types.TimeSlotSet{}
		case c31SolicitedRaw:
			kv = append(kv, types.StateKeyVal{Key: m.EncodeDelta4Key(e.svc, k), Value: types.ByteSequence{0}}) // E([]) = 00
		case c31Provided:
			a.LookupDict[k] = types.TimeSlotSet{7}
			a.PreimageLookup[k.Hash] = append([]byte(nil), e.blob...)
		case c31Forgotten:
			a.LookupDict[k] = types.TimeSlotSet{7, 9}
		}
	}
	kv = append(kv, types.StateKeyVal{Key: types.StateKey{0xFF, 2}, Value: types.ByteSequence{1, 7, 0, 0, 0}})
	return d, kv
}

func c31Lex(a, b []byte) int { // lexicographic order on octet strings, a proper prefix is smaller
	for i := 0; i < len(a) && i < len(b); i++ {
		if a[i] != b[i] {
			if a[i] < b[i] {
				return -1
			}
			return 1
		}
	}
	switch {
	case len(a) < len(b):
		return -1
	case len(a) > len(b):
		return 1
	}
	return 0
}

// GP 12.36/12.37: Y(d, s, h, l) ⇔ s ∈ K(d) ∧ h ∉ d[s]_p ∧ d[s]_l[(h, l)] = []
func c31RefY(e c31Entry, states []int) bool {
	if e.pair < 0 {
		return false
	}
	return states[e.pair] == c31SolicitedDict || states[e.pair] == c31SolicitedRaw
}

func c31Extrinsic(seq []int) types.PreimagesExtrinsic {
	eps := make(types.PreimagesExtrinsic, len(seq))
	for i, a := range seq {
		eps[i] = types.Preimage{Requester: c31Alphabet[a].svc, Blob: append([]byte(nil), c31Alphabet[a].blob...)}
	}
	return eps
}

// observable state of one pair after an operation
type c31Obs struct {
	hasL bool
	l    []uint32
	hasP bool
	p    []byte
}

func c31Observe(d types.ServiceAccountState, e c31Entry) (o c31Obs) {
	a, ok := d[e.svc]
	if !ok {
		return
	}
	k := c31Key(e)
	if l, ok := a.LookupDict[k]; ok {
		o.hasL = true
		for _, x := range l {
			o.l = append(o.l, uint32(x))
		}
	}
	if p, ok := a.PreimageLookup[k.Hash]; ok {
		o.hasP, o.p = true, p
	}
	return
}

func (o c31Obs) String() string {
	return fmt.Sprintf("{l:%v %v p:%v %x}", o.hasL, o.l, o.hasP, o.p)
}

func c31Initial(e c31Entry, st int) c31Obs {
	switch st {
	case c31SolicitedDict:
		return c31Obs{hasL: true}
	case c31Provided:
		return c31Obs{hasL: true, l: []uint32{7}, hasP: true, p: e.blob}
	case c31Forgotten:
		return c31Obs{hasL: true, l: []uint32{7, 9}}
	}
	return c31Obs{}
}

func c31ObsEq(a, b c31Obs) bool {
	if a.hasL != b.hasL || a.hasP != b.hasP || len(a.l) != len(b.l) || !bytes.Equal(a.p, b.p) {
		return false
	}
	for i := range a.l {
		if a.l[i] != b.l[i] {
			return false
		}
	}
	return true
}

func c31Dump(d types.ServiceAccountState, kv types.StateKeyVals) string {
	var sb strings.Builder
	ids := make([]int, 0, len(d))
	for s := range d {
		ids = append(ids, int(s))
	}
	sort.Ints(ids)
	for _, s := range ids {
		a := d[types.ServiceID(s)]
		var ls, ps []string
		for k, v := range a.LookupDict {
			ls = append(ls, fmt.Sprintf("%x/%d=%v(nil=%v)", k.Hash[:4], k.Length, v, v == nil))
		}
		for k, v := range a.PreimageLookup {
			ps = append(ps, fmt.Sprintf("%x=%x", k[:4], v))
		}
		sort.Strings(ls)
		sort.Strings(ps)
		fmt.Fprintf(&sb, "svc %d l[%s] p[%s];", s, strings.Join(ls, ","), strings.Join(ps, ","))
	}
	for _, e := range kv {
		fmt.Fprintf(&sb, "kv %x=%x;", e.Key[:6], e.Value)
	}
	return sb.String()
}

// c31Fresh resets every process-global input of the admission code.
func c31Fresh() *blockchain.ChainState {
	if types.TEST_MODE != "tiny" {
		types.SetTinyMode()
	}
	blockchain.ResetInstance()
	return blockchain.GetInstance()
}

type c31Outcome struct {
	valErr   string
	valPanic string
	valDump  string // δ and raw key-values after validation (must not matter for the verdict, kept for the self-test)
	procErr  string
	procDump string
	post     types.ServiceAccountState
	provDump string
	prov     types.ServiceAccountState
}

// c31RunOnce rebuilds the whole world from scratch and runs validation, integration and Provide.
func c31RunOnce(c c31Case) (o c31Outcome) {
	// (V) validation against the prior state
	{
		c31Fresh()
		d, kv := c31World(c.States)
		eps := c31Extrinsic(c.Seq)
		var err error
		if p, msg, site := vlib.Guard(func() { err = ValidatePreimageExtrinsics(eps, d, &kv) }); p {
			o.valPanic = site + ": " + msg
		} else if err != nil {
			o.valErr = err.Error()
			if o.valErr == "" {
				o.valErr = "error"
			}
		}
		o.valDump = c31Dump(d, kv)
	}
	// (P) integration on the singleton
	{
		cs := c31Fresh()
		d, kv := c31World(c.States)
		cs.GetIntermediateStates().SetDeltaDoubleDagger(d)
		cs.GetPosteriorStates().SetTau(c31Tau)
		cs.SetPostStateUnmatchedKeyVals(kv)
		blk := types.Block{}
		blk.Header.Slot = c31Tau
		blk.Extrinsic.Preimages = c31Extrinsic(c.Seq)
		cs.AddBlock(blk)
		var err error
		if p, msg, site := vlib.Guard(func() { err = ProcessPreimageExtrinsics() }); p {
			o.procErr = "panic in " + site + ": " + msg
		} else if err != nil {
			o.procErr = err.Error()
		}
		o.post = cs.GetPosteriorStates().GetDelta()
		o.procDump = c31Dump(o.post, cs.GetPostStateUnmatchedKeyVals())
	}
	// (A) accumulation-time integration: Provide
	{
		cs := c31Fresh()
		d, _ := c31World(c.States)
		cs.GetPosteriorStates().SetTau(c31Tau)
		var sb types.ServiceBlobs
		for _, a := range c.Seq {
			sb = append(sb, types.ServiceBlob{ServiceID: c31Alphabet[a].svc, Blob: append([]byte(nil), c31Alphabet[a].blob...)})
		}
		var res types.ServiceAccountState
		var err error
		if p, msg, site := vlib.Guard(func() { res, err = Provide(d, sb) }); p {
			o.provDump = "panic in " + site + ": " + msg
		} else if err != nil {
			o.provDump = "error " + err.Error()
		} else {
			o.prov = res
			o.provDump = c31Dump(res, nil)
		}
	}
	return
}

func c31CheckAdmit(r *vlib.Run, c c31Case) {
	r.Eval()
	// reference verdict
	sorted, dup := true, false
	for i := 1; i < len(c.Seq); i++ {
		a, b := c31Alphabet[c.Seq[i-1]], c31Alphabet[c.Seq[i]]
		cmp := 0
		switch {
		case a.svc < b.svc:
			cmp = -1
		case a.svc > b.svc:
			cmp = 1
		default:
			cmp = c31Lex(a.blob, b.blob)
		}
		if cmp == 0 {
			dup = true
		}
		if cmp >= 0 {
			sorted = false
		}
	}
	allY := true
	why := ""
	inSeq := map[int]bool{}
	for _, a := range c.Seq {
		e := c31Alphabet[a]
		inSeq[a] = true
		if !c31RefY(e, c.States) {
			allY = false
			if e.pair < 0 {
				why = "missing-service"
			} else if why == "" || why == "missing-service" {
				why = c31StateNames[c.States[e.pair]]
			}
		}
	}
	accept := sorted && allY
	reason := "ok"
	switch {
	case !sorted && dup:
		reason = "duplicate"
	case !sorted:
		reason = "unsorted"
	case !allY:
		reason = why
	}
	usesRaw := false
	for _, a := range c.Seq {
		if p := c31Alphabet[a].pair; p >= 0 && c.States[p] == c31SolicitedRaw {
			usesRaw = true
		}
	}

	o1 := c31RunOnce(c)
	o2 := c31RunOnce(c)
	r.TransitionN(6)
	desc := func() string {
		var es, ss []string
		for _, a := range c.Seq {
			es = append(es, fmt.Sprintf("(s%d,%q)", c31Alphabet[a].svc, c31Alphabet[a].blob))
		}
		for p := 0; p < c31Npair; p++ {
			e := c31PairEntry(p)
			ss = append(ss, fmt.Sprintf("(s%d,%q)=%s", e.svc, e.blob, c31StateNames[c.States[p]]))
		}
		return "extrinsic [" + strings.Join(es, " ") + "], state {" + strings.Join(ss, " ") + "}"
	}
	if o1.valErr != o2.valErr || o1.valPanic != o2.valPanic || o1.valDump != o2.valDump || o1.procErr != o2.procErr || o1.procDump != o2.procDump || o1.provDump != o2.provDump {
		r.Violation("harness", "nondeterministic", "admit", desc()+": two rebuilds from scratch gave different results", c)
		return
	}
	verdict := "accept"
	if o1.valErr != "" {
		verdict = "reject"
	}
	r.Class(fmt.Sprintf("admit n=%d reference=%s impl=%s raw=%v", len(c.Seq), reason, verdict, usesRaw))

	// (V)
	switch {
	case o1.valPanic != "":
		r.Violation("accumulation.ValidatePreimageExtrinsics", "go-panic", "reason="+reason, desc()+": "+o1.valPanic, c)
	case o1.valErr == "" && !accept:
		r.Violation("accumulation.ValidatePreimageExtrinsics", "invalid-accepted", "reason="+reason, desc()+": accepted although the extrinsic is "+reason, c)
	case o1.valErr != "" && accept:
		r.Violation("accumulation.ValidatePreimageExtrinsics", "valid-rejected", fmt.Sprintf("raw=%v", usesRaw), desc()+": strictly ordered and every entry solicited and not provided, but rejected with "+o1.valErr, c)
	}

	// (P) per pair: integrated with [τ′] iff it is in the extrinsic and Y holds; otherwise untouched
	judge := func(site string, post types.ServiceAccountState, rawCounts bool) {
		if post == nil {
			r.Violation(site, "state-lost", "reason="+reason, desc()+": the resulting service state is nil", c)
			return
		}
		if _, ok := post[c31S3]; ok || len(post) != 2 {
			r.Violation(site, "service-set-changed", "reason="+reason, desc()+fmt.Sprintf(": resulting services %d", len(post)), c)
		}
		for p := 0; p < c31Npair; p++ {
			e := c31PairEntry(p)
			idx := -1
			for ai, ae := range c31Alphabet {
				if ae.pair == p {
					idx = ai
				}
			}
			st := c.States[p]
			got := c31Observe(post, e)
			init := c31Initial(e, st)
			stored := c31Obs{hasL: true, l: []uint32{uint32(c31Tau)}, hasP: true, p: e.blob}
			y := c31RefY(e, c.States)
			if st == c31SolicitedRaw && !rawCounts {
				// Provide only sees the dictionary; a request that still sits in the raw key-values is outside its contract
				if !c31ObsEq(got, init) && !c31ObsEq(got, stored) {
					r.Violation(site, "state-corrupted", "state="+c31StateNames[st], desc()+fmt.Sprintf(": (s%d,%q) became %v", e.svc, e.blob, got), c)
				}
				continue
			}
			switch {
			case inSeq[idx] && y && !c31ObsEq(got, stored):
				r.Violation(site, "accepted-not-stored", "state="+c31StateNames[st], desc()+fmt.Sprintf(": (s%d,%q) is solicited and provided by the extrinsic but is %v afterwards, expected l=[%d] and the blob stored", e.svc, e.blob, got, c31Tau), c)
			case inSeq[idx] && !y && !c31ObsEq(got, init):
				r.Violation(site, "unneeded-integrated", "state="+c31StateNames[st], desc()+fmt.Sprintf(": (s%d,%q) was %s but became %v", e.svc, e.blob, c31StateNames[st], got), c)
			case !inSeq[idx] && !c31ObsEq(got, init):
				r.Violation(site, "bystander-changed", "state="+c31StateNames[st], desc()+fmt.Sprintf(": (s%d,%q) is not in the extrinsic but changed from %s to %v", e.svc, e.blob, c31StateNames[st], got), c)
			}
		}
	}
	if strings.HasPrefix(o1.procErr, "panic") {
		r.Violation("accumulation.ProcessPreimageExtrinsics", "go-panic", "reason="+reason, desc()+": "+o1.procErr, c)
	} else {
		judge("accumulation.ProcessPreimageExtrinsics", o1.post, true)
	}
	if strings.HasPrefix(o1.provDump, "panic") || strings.HasPrefix(o1.provDump, "error") {
		r.Violation("accumulation.Provide", "go-panic", "reason="+reason, desc()+": "+o1.provDump, c)
	} else {
		judge("accumulation.Provide", o1.prov, false)
	}
	if r.WantSample() && len(c.Seq) == 2 && accept && usesRaw {
		r.Sample(map[string]interface{}{"part": "admit", "case": c, "verdict": verdict, "posterior": o1.procDump})
	}
}

func TestVerif_C31(t *testing.T) {
	r := vlib.Start(t, "C31")
	defer r.Finish()
	defer c31Fresh()

	var rc c31Case
	if r.IsReplay(&rc) {
		if rc.Part == "lookup" {
			c31CheckLookup(r, rc)
		} else {
			if len(rc.States) != c31Npair {
				t.Fatalf("bad replay case")
			}
			c31CheckAdmit(r, rc)
		}
		return
	}

	idx := uint64(0)
	// part 1: every record of length 0..4 over {0..5} × t in 0..6 × 3 storage variants
	for n := 0; n <= 4; n++ {
		vlib.Sequences(6, n, func(s []int) {
			rec := make([]uint32, n)
			for i, x := range s {
				rec[i] = uint32(x)
			}
			for t := uint32(0); t <= 6; t++ {
				for store := 0; store < 3; store++ {
					idx++
					if !r.Mine(idx) {
						continue
					}
					r.Space(1)
					c31CheckLookup(r, c31Case{Part: "lookup", Rec: append([]uint32(nil), rec...), T: t, Store: store})
				}
			}
		})
	}
	// part 2: every extrinsic of <= 3 entries over the 6-entry alphabet × every assignment of the 5 states to the 5 pairs.
	// quick: the pairs that do not occur in the extrinsic rotate through the states together (one shared state)
	// instead of independently.
	full := vlib.Pick(r, false, true)
	for n := 0; n <= 3; n++ {
		vlib.Sequences(len(c31Alphabet), n, func(s []int) {
			seq := append([]int(nil), s...)
			used := map[int]bool{}
			for _, a := range seq {
				if p := c31Alphabet[a].pair; p >= 0 {
					used[p] = true
				}
			}
			od := vlib.NewOdometer(5, 5, 5, 5, 5)
			for od.Next() {
				if !full {
					// all unused pairs share one state
					shared, ok := -1, true
					for p := 0; p < c31Npair; p++ {
						if used[p] {
							continue
						}
						if shared < 0 {
							shared = od.Digit[p]
						} else if od.Digit[p] != shared {
							ok = false
						}
					}
					if !ok {
						continue
					}
				}
				idx++
				if !r.Mine(idx) {
					continue
				}
				r.Space(1)
				c31CheckAdmit(r, c31Case{Part: "admit", Seq: seq, States: append([]int(nil), od.Digit...)})
			}
		})
	}
}
