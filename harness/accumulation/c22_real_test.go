package accumulation

// Free-running twin of the C22 harness: the same scenario on the UN-instrumented
// package with real goroutines and Go's real (randomised) map iteration, built
// with -race. It samples; it (a) establishes the no-data-race precondition of
// the exploration and (b) shows that a nondeterminism found by the explorer is
// real (distinct outcomes across plain repeated runs).

import (
	"fmt"
	"os"
	"testing"

	"github.com/New-JAMneration/JAM-Protocol/internal/types"
)

func TestVerif_C22_Real(t *testing.T) {
	if os.Getenv("VERIF_ID") != "C22" {
		t.Skip("not selected")
	}
	types.SetTinyMode()
	distinct := map[string]int{}
	var first c22Obs
	for it := 0; it < 60; it++ {
		types.MaxWorkers = []int{1, 2, 32}[it%3]
		obs := c22Accumulate(3, 7)
		if it == 0 {
			first = obs
		}
		part, d := c22Diff(first, obs)
		distinct[part]++
		if part != "" && distinct[part] == 1 {
			fmt.Printf("VERIF-VIOLATION accumulation.OuterAccumulation|nondeterministic-result-real-run|%s|plain repeated runs of the un-instrumented code (run %d, MaxWorkers=%d) differ in %s: %s\n",
				part, it, types.MaxWorkers, part, d)
		}
	}
	fmt.Printf("C22 real runs: outcome classes by first differing component: %v\n", distinct)
}
