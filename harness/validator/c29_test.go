package validator

// C29 — validator grid neighbours and preferred initiator. Every validator count
// V in 0..Vmax with every ordered index pair (including the out-of-range indices
// -1 and V), against the exact-integer floor(sqrt(V)) grid.

import (
	"fmt"
	"sort"
	"testing"

	"github.com/New-JAMneration/JAM-Protocol/internal/types"
	"github.com/New-JAMneration/JAM-Protocol/internal/zzverif/vlib"
)

// ---------- reference ----------

// exact integer square root: the w with w*w <= v < (w+1)*(w+1)
func c29Isqrt(v int) int {
	w := 0
	for (w+1)*(w+1) <= v {
		w++
	}
	return w
}

// same row or column of the w-wide row-major grid, different, both in range
func c29RefNeighbor(v, w, a, b int) bool {
	if a < 0 || b < 0 || a >= v || b >= v || a == b {
		return false
	}
	return a/w == b/w || a%w == b%w
}

// ---------- keys ----------

func c29Key(set byte, i int) types.Ed25519Public {
	var k types.Ed25519Public
	k[0] = set
	k[1] = byte(i)
	k[2] = byte(i >> 8)
	k[3] = 0x5A
	k[31] = byte(i * 7)
	return k
}

func c29Set(set byte, n int) types.ValidatorsData {
	if n < 0 {
		n = 0
	}
	out := make(types.ValidatorsData, n)
	for i := range out {
		out[i].Ed25519 = c29Key(set, i)
		out[i].Bandersnatch[0], out[i].Bandersnatch[1], out[i].Bandersnatch[2] = set, byte(i), byte(i>>8)
	}
	return out
}

type c29Case struct {
	Part string `json:"part"` // grid | initiator
	V    int    `json:"v,omitempty"`
	A    string `json:"a,omitempty"`
	B    string `json:"b,omitempty"`
}

func c29VKey(v int) string {
	switch {
	case v == 0:
		return "V=0"
	case v < 4:
		return "V=1..3"
	}
	w := c29Isqrt(v)
	if w*w == v {
		return "V=square"
	}
	return "V=nonsquare"
}

func c29KeysOf(vs []types.Validator) []string {
	out := make([]string, len(vs))
	for i, v := range vs {
		out[i] = string(v.Ed25519[:])
	}
	sort.Strings(out)
	return out
}

func c29EqStr(a, b []string) bool {
	if len(a) != len(b) {
		return false
	}
	for i := range a {
		if a[i] != b[i] {
			return false
		}
	}
	return true
}

// ---------- grid ----------

func c29CheckGrid(r *vlib.Run, v int, fullV int) {
	c := c29Case{Part: "grid", V: v}
	vkey := c29VKey(v)
	bad := func(site, kind, key, detail string) {
		r.Violation(site, kind, key, fmt.Sprintf("V=%d: %s", v, detail), c)
	}
	w := c29Isqrt(v)
	r.Eval()
	// (0) width: float path vs exact integer square root
	var cw int
	if p, msg, _ := vlib.Guard(func() { cw = ComputeWidth(v) }); p {
		bad("validator.ComputeWidth", "go-panic", vkey, msg)
		return
	}
	r.Transition()
	if v >= 1 && cw != w {
		bad("validator.ComputeWidth", "wrong-width", vkey, fmt.Sprintf("ComputeWidth = %d, floor(sqrt(V)) = %d", cw, w))
	}
	if w < 1 {
		w = 1 // V = 0: no validators, every relation below is empty
	}
	rows := 0
	if v > 0 {
		rows = (v + w - 1) / w
	}
	r.Class(fmt.Sprintf("grid %s lastrow=%s", vkey, map[bool]string{true: "full", false: "partial"}[v%w == 0]))
	_ = rows

	cur := c29Set(1, v)
	g := &GridMapper{Previous: c29Set(2, v), Current: cur, Next: c29Set(3, v)}

	// (1) IsNeighborInEpoch on every ordered pair of [-1, V]^2
	n := v + 2
	got := make([]bool, n*n)
	var pmsg string
	panicked, pmsg, _ := vlib.Guard(func() {
		for a := -1; a <= v; a++ {
			for b := -1; b <= v; b++ {
				got[(a+1)*n+(b+1)] = g.IsNeighborInEpoch(a, b)
			}
		}
	})
	r.TransitionN(uint64(n * n))
	r.EvalN(uint64(n * n))
	r.Space(uint64(n * n))
	if panicked {
		bad("validator.GridMapper.IsNeighborInEpoch", "go-panic", vkey, pmsg)
		return
	}
	for a := -1; a <= v; a++ {
		for b := -1; b <= v; b++ {
			x := got[(a+1)*n+(b+1)]
			rg := "in-range"
			if a < 0 || b < 0 || a >= v || b >= v {
				rg = "out-of-range"
			}
			if x != got[(b+1)*n+(a+1)] {
				bad("validator.GridMapper.IsNeighborInEpoch", "asymmetric", vkey+";"+rg, fmt.Sprintf("N(%d,%d)=%v but N(%d,%d)=%v", a, b, x, b, a, !x))
			}
			if a == b && x {
				bad("validator.GridMapper.IsNeighborInEpoch", "reflexive", vkey+";"+rg, fmt.Sprintf("N(%d,%d)=true", a, a))
			}
			if want := c29RefNeighbor(v, w, a, b); x != want {
				bad("validator.GridMapper.IsNeighborInEpoch", "wrong-relation", vkey+";"+rg, fmt.Sprintf("N(%d,%d)=%v, the %d-wide grid gives %v", a, b, x, w, want))
			}
		}
	}

	// (2) NeighborIndicesInEpoch(a) = { b | ref(a,b) }
	nbr := make([][]int, v)
	for a := -1; a <= v; a++ {
		var idx []int
		if p, msg, _ := vlib.Guard(func() { idx = g.NeighborIndicesInEpoch(a) }); p {
			bad("validator.GridMapper.NeighborIndicesInEpoch", "go-panic", vkey, fmt.Sprintf("index %d: %s", a, msg))
			return
		}
		r.Transition()
		var want []int
		for b := 0; b < v; b++ {
			if c29RefNeighbor(v, w, a, b) {
				want = append(want, b)
			}
		}
		s := append([]int(nil), idx...)
		sort.Ints(s)
		ok := len(s) == len(want)
		for i := 0; ok && i < len(s); i++ {
			ok = s[i] == want[i]
		}
		if !ok {
			bad("validator.GridMapper.NeighborIndicesInEpoch", "wrong-relation", vkey, fmt.Sprintf("index %d: got %v, the %d-wide grid gives %v", a, c29HeadI(idx), w, c29HeadI(want)))
		}
		if a >= 0 && a < v {
			nbr[a] = want
		}
	}

	// (3) AllNeighborValidators with previous/next sets of sizes V-1, V, V+1
	for _, sz := range [][2]int{{v - 1, v + 1}, {v, v}, {v + 1, v - 1}} {
		prev, next := c29Set(2, sz[0]), c29Set(3, sz[1])
		g2 := &GridMapper{Previous: prev, Current: cur, Next: next}
		for a := -1; a <= v; a++ {
			var vs []types.Validator
			if p, msg, _ := vlib.Guard(func() { vs = g2.AllNeighborValidators(a) }); p {
				bad("validator.GridMapper.AllNeighborValidators", "go-panic", vkey, fmt.Sprintf("index %d: %s", a, msg))
				return
			}
			r.Transition()
			var want []string
			if a >= 0 {
				if a < v {
					for _, b := range nbr[a] {
						want = append(want, string(cur[b].Ed25519[:]))
					}
				}
				if a < len(prev) {
					want = append(want, string(prev[a].Ed25519[:]))
				}
				if a < len(next) {
					want = append(want, string(next[a].Ed25519[:]))
				}
			}
			sort.Strings(want)
			if !c29EqStr(c29KeysOf(vs), want) {
				key := vkey + ";index-in-current"
				if a < 0 || a >= v {
					key = vkey + ";index-outside-current"
				}
				bad("validator.GridMapper.AllNeighborValidators", "wrong-relation", key, fmt.Sprintf("index %d, |prev|=%d |next|=%d: got %d validators, expected %d (grid neighbours + same index in previous/next)", a, len(prev), len(next), len(vs), len(want)))
			}
		}
	}

	// (4) manager.IsNeighbor(key) for every self index (V <= fullV; boundary lattice of self indices above) and every key
	selves := c29Selves(v, w, fullV)
	// scenario D: the three sets have pairwise distinct keys
	stranger := c29Key(9, 0)
	gd := &GridMapper{Previous: c29Set(2, v+1), Current: cur, Next: c29Set(3, v)}
	for _, a := range selves {
		vm := &ValidatorManager{Grid: gd, SelfIndex: a, SelfKey: cur[a].Ed25519}
		var res []bool
		p, msg, _ := vlib.Guard(func() {
			res = make([]bool, 0, 3*v+2)
			for j := 0; j < v; j++ {
				res = append(res, vm.IsNeighbor(cur[j].Ed25519))
			}
			for j := 0; j < len(gd.Previous); j++ {
				res = append(res, vm.IsNeighbor(gd.Previous[j].Ed25519))
			}
			for j := 0; j < len(gd.Next); j++ {
				res = append(res, vm.IsNeighbor(gd.Next[j].Ed25519))
			}
			res = append(res, vm.IsNeighbor(stranger))
		})
		r.TransitionN(uint64(3*v + 2))
		if p {
			bad("validator.ValidatorManager.IsNeighbor", "go-panic", vkey, fmt.Sprintf("self %d: %s", a, msg))
			return
		}
		k := 0
		for j := 0; j < v; j++ {
			if want := c29RefNeighbor(v, w, a, j); res[k] != want {
				bad("validator.ValidatorManager.IsNeighbor", "wrong-relation", vkey+";key-in-current-only", fmt.Sprintf("self %d, key of current validator %d: got %v, grid gives %v", a, j, res[k], want))
			}
			k++
		}
		for j := 0; j < len(gd.Previous); j++ {
			if res[k] != (j == a) {
				bad("validator.ValidatorManager.IsNeighbor", "wrong-relation", vkey+";key-in-previous-only", fmt.Sprintf("self %d, key of previous validator %d: got %v", a, j, res[k]))
			}
			k++
		}
		for j := 0; j < len(gd.Next); j++ {
			if res[k] != (j == a) {
				bad("validator.ValidatorManager.IsNeighbor", "wrong-relation", vkey+";key-in-next-only", fmt.Sprintf("self %d, key of next validator %d: got %v", a, j, res[k]))
			}
			k++
		}
		if res[k] {
			bad("validator.ValidatorManager.IsNeighbor", "wrong-relation", vkey+";unknown-key", fmt.Sprintf("self %d: an unknown key is reported as neighbour", a))
		}
	}
	// scenario S: the validator set does not change (Previous = Current = Next)
	gs := &GridMapper{Previous: cur, Current: cur, Next: cur}
	// scenario O: validators keep their keys but move: Previous[i] = Current[(i+w+1) mod V], Next[i] = Current[(i+2w+2) mod V]
	var go_ *GridMapper
	if v > 0 {
		pv, nx := make(types.ValidatorsData, v), make(types.ValidatorsData, v)
		for i := 0; i < v; i++ {
			pv[i] = cur[(i+w+1)%v]
			nx[i] = cur[(i+2*w+2)%v]
		}
		go_ = &GridMapper{Previous: pv, Current: cur, Next: nx}
	}
	for _, a := range selves {
		for sc, gm := range []*GridMapper{gs, go_} {
			vm := &ValidatorManager{Grid: gm, SelfIndex: a, SelfKey: cur[a].Ed25519}
			res := make([]bool, v)
			p, msg, _ := vlib.Guard(func() {
				for j := 0; j < v; j++ {
					res[j] = vm.IsNeighbor(cur[j].Ed25519)
				}
			})
			r.TransitionN(uint64(v))
			if p {
				bad("validator.ValidatorManager.IsNeighbor", "go-panic", vkey, fmt.Sprintf("self %d: %s", a, msg))
				return
			}
			for j := 0; j < v; j++ {
				if j == a {
					if res[j] {
						bad("validator.ValidatorManager.IsNeighbor", "reflexive", vkey+";own-key", fmt.Sprintf("self %d is reported as its own neighbour (scenario %d)", a, sc))
					}
					continue
				}
				grid := c29RefNeighbor(v, w, a, j)
				cross := gm.Previous[a].Ed25519 == cur[j].Ed25519 || gm.Next[a].Ed25519 == cur[j].Ed25519
				want := grid || cross
				if res[j] != want {
					key := "key-in-current-and-same-index-cross-epoch"
					if !cross {
						key = vkey + ";key-in-current"
					}
					bad("validator.ValidatorManager.IsNeighbor", "wrong-relation", key,
						fmt.Sprintf("self index %d, key of current validator %d (grid neighbour=%v, same index in previous/next epoch=%v, scenario %d): IsNeighbor=%v", a, j, grid, cross, sc, res[j]))
				}
				if want {
					r.Class(fmt.Sprintf("isneighbor grid=%v cross=%v", grid, cross))
				}
			}
		}
	}
	if r.WantSample() && v%97 == 10 {
		r.Sample(map[string]interface{}{"part": "grid", "V": v, "width": cw, "neighbours_of_0": c29HeadI(nbr[0])})
	}
}

// c29Selves: self indices for the ValidatorManager.IsNeighbor product. Up to fullV every index; above it the
// positions where the row/column arithmetic changes: the corners and edges of the grid and of its (possibly
// partial) last row, the middle, and their neighbours.
func c29Selves(v, w, fullV int) []int {
	if v <= fullV {
		out := make([]int, v)
		for i := range out {
			out[i] = i
		}
		return out
	}
	lastRow := ((v - 1) / w) * w
	cand := []int{0, 1, w - 1, w, w + 1, 2*w - 1, v / 2, v/2 + 1, lastRow - w, lastRow - 1, lastRow, lastRow + 1, v - w - 1, v - w, v - 2, v - 1}
	seen := map[int]bool{}
	var out []int
	for _, c := range cand {
		if c >= 0 && c < v && !seen[c] {
			seen[c] = true
			out = append(out, c)
		}
	}
	sort.Ints(out)
	return out
}

func c29HeadI(s []int) []int {
	if len(s) > 40 {
		return s[:40]
	}
	return s
}


// ---------- re-entry: one long-lived GridMapper / ValidatorManager while Current changes ----------

// c29QueryReused asks the long-lived objects about their present validator set and compares with the exact relation.
func c29QueryReused(r *vlib.Run, g *GridMapper, vm *ValidatorManager, step string, c c29Case) {
	v := len(g.Current)
	w := c29Isqrt(v)
	if w < 1 {
		w = 1
	}
	key := "reused-mapper;" + step + ";" + c29VKey(v)
	r.Eval()
	bad := func(site, kind, detail string) {
		r.Violation(site, kind, key, fmt.Sprintf("long-lived mapper, step %s, now V=%d: %s", step, v, detail), c)
	}
	var msg string
	var p bool
	// every ordered pair of [-1, V]^2
	p, msg, _ = vlib.Guard(func() {
		for a := -1; a <= v; a++ {
			for b := -1; b <= v; b++ {
				if got, want := g.IsNeighborInEpoch(a, b), c29RefNeighbor(v, w, a, b); got != want {
					bad("validator.GridMapper.IsNeighborInEpoch", "wrong-relation-after-resize", fmt.Sprintf("N(%d,%d)=%v, the %d-wide grid gives %v", a, b, got, w, want))
					return
				}
			}
		}
	})
	r.TransitionN(uint64((v + 2) * (v + 2)))
	r.EvalN(uint64((v + 2) * (v + 2)))
	r.Space(uint64((v+2)*(v+2)) + 1)
	if p {
		bad("validator.GridMapper.IsNeighborInEpoch", "go-panic", msg)
		return
	}
	selves := c29Selves(v, w, 0)
	for _, a := range selves {
		var idx []int
		if p, msg, _ := vlib.Guard(func() { idx = g.NeighborIndicesInEpoch(a) }); p {
			bad("validator.GridMapper.NeighborIndicesInEpoch", "go-panic", msg)
			return
		}
		r.Transition()
		n := 0
		ok := true
		for _, b := range idx {
			ok = ok && c29RefNeighbor(v, w, a, b)
		}
		for b := 0; b < v; b++ {
			if c29RefNeighbor(v, w, a, b) {
				n++
			}
		}
		if !ok || n != len(idx) {
			bad("validator.GridMapper.NeighborIndicesInEpoch", "wrong-relation-after-resize", fmt.Sprintf("index %d: got %v", a, c29HeadI(idx)))
		}
		// the manager, same long-lived grid: keys of the boundary indices
		vm.SelfIndex, vm.SelfKey = a, g.Current[a].Ed25519
		for _, j := range selves {
			var got bool
			if p, msg, _ := vlib.Guard(func() { got = vm.IsNeighbor(g.Current[j].Ed25519) }); p {
				bad("validator.ValidatorManager.IsNeighbor", "go-panic", msg)
				return
			}
			r.Transition()
			if want := c29RefNeighbor(v, w, a, j); got != want {
				bad("validator.ValidatorManager.IsNeighbor", "wrong-relation-after-resize", fmt.Sprintf("self %d, key of current validator %d: got %v, grid gives %v", a, j, got, want))
			}
		}
	}
}

// c29CheckReentry keeps ONE GridMapper and ONE ValidatorManager alive while the current validator set changes.
// mode "chain": V grows 0 -> maxV one validator at a time and shrinks back, queried after every change.
// mode "jumps": k^2-1 -> k^2 -> k^2+1 -> k^2 -> k^2-1 for every k, and V -> 2V -> V for every V <= maxV/2.
func c29CheckReentry(r *vlib.Run, maxV int, mode string) {
	c := c29Case{Part: "reentry", V: maxV, A: mode}
	pool := c29Set(1, maxV+2)
	g := &GridMapper{Previous: c29Set(2, 3), Current: pool[:0], Next: c29Set(3, 3)}
	vm := &ValidatorManager{Grid: g}
	set := func(n int) { g.Current = pool[:n] }
	r.Class("reentry " + mode)
	if mode == "chain" {
		c29QueryReused(r, g, vm, "initial", c)
		for v := 1; v <= maxV; v++ {
			set(v)
			c29QueryReused(r, g, vm, "grow+1", c)
		}
		for v := maxV - 1; v >= 0; v-- {
			set(v)
			c29QueryReused(r, g, vm, "shrink-1", c)
		}
		return
	}
	for k := 1; k*k+1 <= maxV; k++ {
		set(k*k - 1)
		c29QueryReused(r, g, vm, "jump-to-k^2-1", c)
		set(k * k)
		c29QueryReused(r, g, vm, "k^2-1->k^2", c)
		set(k*k + 1)
		c29QueryReused(r, g, vm, "k^2->k^2+1", c)
		set(k * k)
		c29QueryReused(r, g, vm, "k^2+1->k^2", c)
		set(k*k - 1)
		c29QueryReused(r, g, vm, "k^2->k^2-1", c)
	}
	for v := 1; 2*v <= maxV; v++ {
		set(v)
		c29QueryReused(r, g, vm, "halve", c)
		set(2 * v)
		c29QueryReused(r, g, vm, "double", c)
	}
}

// ---------- preferred initiator ----------

func c29Lattice() []types.Ed25519Public {
	seen := map[types.Ed25519Public]bool{}
	var out []types.Ed25519Public
	vals := []byte{0, 1, 127, 128, 255}
	for _, fill := range []byte{0x00, 0xFF} {
		for _, pos := range []int{0, 15, 30, 31} {
			for _, pv := range vals {
				for _, last := range vals {
					var k types.Ed25519Public
					for i := range k {
						k[i] = fill
					}
					k[31] = last
					if pos != 31 {
						k[pos] = pv
					} else if pv != last {
						continue
					}
					if !seen[k] {
						seen[k] = true
						out = append(out, k)
					}
				}
			}
		}
	}
	return out
}

func c29CheckInitiator(r *vlib.Run, a, b types.Ed25519Public) {
	c := c29Case{Part: "initiator", A: vlib.Hex(a[:]), B: vlib.Hex(b[:])}
	r.Eval()
	var ab, ba types.Ed25519Public
	if p, msg, _ := vlib.Guard(func() { ab, ba = PreferredInitiator(a, b), PreferredInitiator(b, a) }); p {
		r.Violation("validator.PreferredInitiator", "go-panic", "", msg, c)
		return
	}
	r.TransitionN(2)
	first := 31
	for i := 0; i < 32; i++ {
		if a[i] != b[i] {
			first = i
			break
		}
	}
	rel := "differ-before-last-byte"
	if a == b {
		rel = "equal"
	} else if first == 31 {
		rel = "differ-only-in-last-byte"
	}
	key := fmt.Sprintf("%s;highbits=%v/%v", rel, a[31] > 127, b[31] > 127)
	who := "second"
	if ab == a {
		who = "first"
	}
	r.Class("initiator " + key + " picks=" + who)
	if ab != a && ab != b {
		r.Violation("validator.PreferredInitiator", "not-one-of-the-keys", key, fmt.Sprintf("P(%x, %x) = %x", a, b, ab), c)
	}
	if ab != ba {
		r.Violation("validator.PreferredInitiator", "peers-disagree", key, fmt.Sprintf("P(a,b) = %x but P(b,a) = %x for a=%x b=%x", ab, ba, a, b), c)
	}
}

func TestVerif_C29(t *testing.T) {
	r := vlib.Start(t, "C29")
	defer r.Finish()

	var rc c29Case
	if r.IsReplay(&rc) {
		if rc.Part == "grid" {
			c29CheckGrid(r, rc.V, vlib.Pick(r, 300, 450))
		} else if rc.Part == "reentry" {
			c29CheckReentry(r, rc.V, rc.A)
		} else {
			var a, b types.Ed25519Public
			copy(a[:], vlib.Unhex(rc.A))
			copy(b[:], vlib.Unhex(rc.B))
			c29CheckInitiator(r, a, b)
		}
		return
	}

	idx := uint64(0)
	maxV := vlib.Pick(r, 300, 1100)
	fullV := vlib.Pick(r, 300, 450) // ValidatorManager.IsNeighbor: every self index up to here (FindIndex makes it O(V^3) per V)
	// large V first so the shards finish together
	for v := maxV; v >= 0; v-- {
		idx++
		if !r.Mine(idx) {
			continue
		}
		r.Space(1)
		c29CheckGrid(r, v, fullV)
	}
	// re-entry: hidden state in long-lived objects (each chain is one case: it must run in one process, in order)
	for _, mode := range []string{"chain", "jumps"} {
		idx++
		if r.Mine(idx) {
			c29CheckReentry(r, maxV, mode)
		}
	}
	keys := c29Lattice()
	r.Extra("initiator_lattice_keys", len(keys))
	for i, a := range keys {
		for j, b := range keys {
			idx++
			if !r.Mine(idx) {
				continue
			}
			r.Space(1)
			c29CheckInitiator(r, a, b)
			if r.WantSample() && i == 3 && j%41 == 7 {
				r.Sample(map[string]string{"part": "initiator", "a": vlib.Hex(a[:]), "b": vlib.Hex(b[:]), "P": vlib.Hex(func() []byte { x := PreferredInitiator(a, b); return x[:] }())})
			}
		}
	}
}
