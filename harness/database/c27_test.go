package database_test

// C27 — the in-memory, Pebble and Redis providers implement one ordered-map
// semantics. Explicit-state search: the state is the map content over a tiny key
// universe; every state is rebuilt on a FRESH provider instance from its shortest
// put-history, one event is applied through the provider's public interface, and
// the complete observable content (get/has for every key, full iteration) plus
// the event's own results are compared with the reference R-kv (map + sorted
// keys). After every call the harness overwrites the buffers it passed in and the
// slices it got back from Get (aliasing clause).
//
// This file is an external test of package internal/database so that all three
// providers can be imported without an import cycle.

import (
	"bytes"
	"fmt"
	"os"
	"path/filepath"
	"sort"
	"strings"
	"testing"
	"time"

	"github.com/New-JAMneration/JAM-Protocol/internal/database"
	"github.com/New-JAMneration/JAM-Protocol/internal/database/provider/memory"
	pebbledb "github.com/New-JAMneration/JAM-Protocol/internal/database/provider/pebble"
	redisdb "github.com/New-JAMneration/JAM-Protocol/internal/database/provider/redis"
	"github.com/New-JAMneration/JAM-Protocol/internal/zzverif/vlib"
	"github.com/alicebob/miniredis/v2"
)

// ---------- universe ----------

var c27Keys []string // sorted key universe
var c27Probe []string // universe ∪ {"a\xff"} (prefix/start/get arguments)
var c27Vals = []string{"", "x"}

func c27SetUniverse(thorough bool) {
	c27Keys = []string{"", "a", "b", "ab", "a*"}
	if thorough {
		c27Keys = append(c27Keys, "b?", "\x00")
	}
	sort.Strings(c27Keys)
	c27Probe = append(append([]string(nil), c27Keys...), "a\xff")
	sort.Strings(c27Probe)
}

// ---------- reference R-kv ----------

type c27Ref map[string]string

func (m c27Ref) clone() c27Ref {
	o := c27Ref{}
	for k, v := range m {
		o[k] = v
	}
	return o
}

func (m c27Ref) sortedKeys() []string {
	ks := make([]string, 0, len(m))
	for k := range m {
		ks = append(ks, k)
	}
	sort.Strings(ks)
	return ks
}

func (m c27Ref) canon() string {
	var sb strings.Builder
	for _, k := range m.sortedKeys() {
		fmt.Fprintf(&sb, "%x=%x;", k, m[k])
	}
	return sb.String()
}

// iteration = exactly the keys with the prefix that are >= prefix+start, ascending.
func (m c27Ref) iterate(prefix, start string) [][2]string {
	var out [][2]string
	lo := prefix + start
	for _, k := range m.sortedKeys() {
		if strings.HasPrefix(k, prefix) && k >= lo {
			out = append(out, [2]string{k, m[k]})
		}
	}
	return out
}

// ---------- events ----------

type c27Op struct {
	Del bool   `json:"del,omitempty"`
	K   string `json:"k"` // hex
	V   string `json:"v,omitempty"`
}

type c27Event struct {
	Kind string  `json:"kind"` // put del batch get has iter
	K    string  `json:"k,omitempty"`
	V    string  `json:"v,omitempty"`
	Ops  []c27Op `json:"ops,omitempty"`
	End  string  `json:"end,omitempty"` // commit | close
	P    string  `json:"p,omitempty"`   // iter prefix (hex)
	S    string  `json:"s,omitempty"`   // iter start (hex)
}

type c27Case struct {
	Provider string     `json:"provider"`
	Thorough bool       `json:"thorough"`
	History  [][2]string `json:"history"` // puts (hex key, hex value) that rebuild the state
	Event    c27Event   `json:"event"`
	Persist  *c27Persist `json:"persist,omitempty"` // persistence pass (directory-backed Pebble)
}

// c27Persist: history, then E1, [reopen], then E2, then reopen — a Close + open of the
// same directory must never change the observable content.
type c27Persist struct {
	E1  c27Event `json:"e1"`
	E2  c27Event `json:"e2"`
	Mid bool     `json:"mid"` // also reopen between E1 and E2
}

func c27hx(s string) string { return vlib.Hex([]byte(s)) }
func c27un(s string) string { return string(vlib.Unhex(s)) }

func c27Events() []c27Event {
	var evs []c27Event
	var ops []c27Op
	for _, k := range c27Keys {
		for _, v := range c27Vals {
			evs = append(evs, c27Event{Kind: "put", K: c27hx(k), V: c27hx(v)})
			ops = append(ops, c27Op{K: c27hx(k), V: c27hx(v)})
		}
	}
	for _, k := range c27Keys {
		evs = append(evs, c27Event{Kind: "del", K: c27hx(k)})
		ops = append(ops, c27Op{Del: true, K: c27hx(k)})
	}
	for _, end := range []string{"commit", "close"} {
		evs = append(evs, c27Event{Kind: "batch", End: end})
		for _, a := range ops {
			evs = append(evs, c27Event{Kind: "batch", Ops: []c27Op{a}, End: end})
		}
		for _, a := range ops {
			for _, b := range ops {
				evs = append(evs, c27Event{Kind: "batch", Ops: []c27Op{a, b}, End: end})
			}
		}
	}
	for _, k := range c27Probe {
		evs = append(evs, c27Event{Kind: "get", K: c27hx(k)})
		evs = append(evs, c27Event{Kind: "has", K: c27hx(k)})
	}
	for _, p := range c27Probe {
		for _, s := range c27Probe {
			evs = append(evs, c27Event{Kind: "iter", P: c27hx(p), S: c27hx(s)})
		}
	}
	return evs
}

// reference effect of a mutating event
func c27RefApply(m c27Ref, e c27Event) c27Ref {
	o := m.clone()
	switch e.Kind {
	case "put":
		o[c27un(e.K)] = c27un(e.V)
	case "del":
		delete(o, c27un(e.K))
	case "batch":
		if e.End == "commit" {
			for _, op := range e.Ops {
				if op.Del {
					delete(o, c27un(op.K))
				} else {
					o[c27un(op.K)] = c27un(op.V)
				}
			}
		}
	}
	return o
}

// ---------- providers ----------

type c27Provider struct {
	name string
	open func() (database.Database, func(), error)
}

var c27TmpSeq int

func c27TmpRoot(r *vlib.Run) string {
	base := os.Getenv("VERIF_BDIR")
	if base == "" {
		base = "/verif/.build/C27"
	}
	return filepath.Join(base, "tmp", fmt.Sprintf("shard-%d-%d", r.Shard, os.Getpid()))
}

// Providers that get a fresh instance for every single transition. "pebble" is
// the provider's own NewTestDatabase (same pebbleDB code on Pebble's in-memory
// file system: opening a directory-backed Pebble costs ~50 ms, too much for
// ~10^5..10^6 transitions). The directory-backed instance is c27PebbleDir below.
func c27Providers(r *vlib.Run) []c27Provider {
	return []c27Provider{
		{"memory", func() (database.Database, func(), error) {
			return memory.NewDatabase(), func() {}, nil
		}},
		{"pebble", func() (database.Database, func(), error) {
			db, err := pebbledb.NewTestDatabase()
			return db, func() {}, err
		}},
		{"redis", func() (database.Database, func(), error) {
			mr, err := miniredis.Run()
			if err != nil {
				return nil, nil, err
			}
			return redisdb.NewDatabase(mr.Addr(), "", 0), func() { mr.Close() }, nil
		}},
		c27PebbleDir(r),
	}
}

// c27PebbleDir: pebbledb.NewDatabase on a real directory under /verif/.build.
func c27PebbleDir(r *vlib.Run) c27Provider {
	tmpRoot := c27TmpRoot(r)
	return c27Provider{"pebble-dir", func() (database.Database, func(), error) {
		c27TmpSeq++
		dir := filepath.Join(tmpRoot, fmt.Sprintf("p%d", c27TmpSeq))
		if err := os.MkdirAll(dir, 0o755); err != nil {
			return nil, nil, err
		}
		db, err := pebbledb.NewDatabase(dir, false)
		if err != nil {
			os.RemoveAll(dir)
			return nil, nil, err
		}
		return db, func() { os.RemoveAll(dir) }, nil
	}}
}

// ---------- persistence pass (directory-backed Pebble) ----------

// c27RunPersist: fresh directory, replay the put history, E1 (a further write of key k,
// so that k has been written at least twice when it was in the state), optional reopen,
// E2 (delete / overwrite of k, directly or through a committed batch), reopen. The
// reference is unchanged by a reopen; the full content is compared before and after it.
func c27RunPersist(r *vlib.Run, c c27Case) {
	r.Transition()
	r.Eval()
	dir := filepath.Join(c27TmpRoot(r), fmt.Sprintf("persist-%d", c27TmpSeq))
	c27TmpSeq++
	os.RemoveAll(dir)
	if err := os.MkdirAll(dir, 0o755); err != nil {
		r.T.Fatalf("harness: %v", err)
	}
	defer os.RemoveAll(dir)
	const prov = "pebble-dir"
	o := &c27Obs{}
	var db database.Database
	open := func() bool {
		d, err := pebbledb.NewDatabase(dir, false)
		if err != nil {
			o.add(prov+".open", "unexpected-error", "", "open %s: %v", dir, err)
			return false
		}
		db = d
		return true
	}
	reopen := func(ref c27Ref, after string) bool {
		if err := db.Close(); err != nil {
			o.add(prov+".Close", "unexpected-error", "", "Close: %v", err)
			return false
		}
		if !open() {
			return false
		}
		if d := c27Observe(db, prov, ref, o); d != "" && !c27AlreadyReported(d) {
			o.add(prov+".reopen", "content-changed-by-reopen", "after="+after,
				"history %s, then %s, then %s, then Close + open of the same directory: %s", c27HistString(c.History), c27EvString(c.Persist.E1), c27EvString(c.Persist.E2), d)
		}
		return true
	}
	panicked, msg, site := vlib.Guard(func() {
		if !open() {
			return
		}
		defer func() { db.Close() }()
		ref := c27Ref{}
		for _, kv := range c.History {
			k, v := c27un(kv[0]), c27un(kv[1])
			if err := db.Put([]byte(k), []byte(v)); err != nil {
				o.add(prov+".Put", "unexpected-error", "", "rebuild Put(%q,%q): %v", k, v, err)
				return
			}
			ref[k] = v
		}
		c27RunOn(db, prov, ref, c.Persist.E1, true, o)
		ref = c27RefApply(ref, c.Persist.E1)
		if c.Persist.Mid && !reopen(ref, "write") {
			return
		}
		cls := c27RunOn(db, prov, ref, c.Persist.E2, true, o)
		ref = c27RefApply(ref, c.Persist.E2)
		what := c.Persist.E2.Kind
		if what == "batch" && len(c.Persist.E2.Ops) > 0 && c.Persist.E2.Ops[0].Del {
			what = "batch-delete"
		}
		reopen(ref, what)
		r.Class(fmt.Sprintf("pebble-dir persist mid=%v %s", c.Persist.Mid, cls))
	})
	if panicked {
		r.Violation(site, "go-panic", "pebble-dir;persist", msg, c)
	}
	for _, f := range o.fails {
		r.Violation(f.site, f.kind, f.key, f.detail, c)
	}
}

func c27HistString(h [][2]string) string {
	var p []string
	for _, kv := range h {
		p = append(p, fmt.Sprintf("put(%q,%q)", c27un(kv[0]), c27un(kv[1])))
	}
	return "[" + strings.Join(p, ",") + "]"
}

// c27PersistCases: for one state, every key k: E1 in {put(k,""), put(k,"x"), committed
// batch put(k,"x")} x E2 in {delete(k), committed batch delete(k), put(k,"")} x reopen at
// the end / in the middle and at the end.
func c27PersistCases(hist [][2]string, thorough bool) []c27Case {
	var out []c27Case
	for _, k := range c27Keys {
		hk := c27hx(k)
		e1s := []c27Event{
			{Kind: "put", K: hk, V: c27hx("")},
			{Kind: "put", K: hk, V: c27hx("x")},
			{Kind: "batch", Ops: []c27Op{{K: hk, V: c27hx("x")}}, End: "commit"},
		}
		e2s := []c27Event{
			{Kind: "del", K: hk},
			{Kind: "batch", Ops: []c27Op{{Del: true, K: hk}}, End: "commit"},
			{Kind: "put", K: hk, V: c27hx("")},
		}
		for _, e1 := range e1s {
			for _, e2 := range e2s {
				for _, mid := range []bool{false, true} {
					out = append(out, c27Case{Provider: "pebble-dir", Thorough: thorough, History: hist, Persist: &c27Persist{E1: e1, E2: e2, Mid: mid}})
				}
			}
		}
	}
	return out
}

// ---------- running one case ----------

// which buffers are overwritten after a call: bit0 keys/prefix/start, bit1 values
var c27ScribbleMode = 3

func c27Scribble(b []byte) {
	for i := range b {
		b[i] ^= 0x5A
	}
}

type c27Fail struct {
	site, kind, key, detail string
}

type c27Obs struct {
	fails []c27Fail
}

func (o *c27Obs) add(site, kind, key, format string, a ...interface{}) {
	o.fails = append(o.fails, c27Fail{site, kind, key, fmt.Sprintf(format, a...)})
}

// c27Iterate runs one iteration through the provider and returns the pairs.
func c27Iterate(db database.Database, prov, prefix, start string, scribble bool, o *c27Obs) ([][2]string, bool) {
	pb, sb := []byte(prefix), []byte(start)
	it, err := db.NewIterator(pb, sb)
	if err != nil || it == nil {
		o.add(prov+".NewIterator", "unexpected-error", "", "NewIterator(%q,%q): %v", prefix, start, err)
		return nil, false
	}
	if scribble {
		c27Scribble(pb)
		c27Scribble(sb)
	}
	var got [][2]string
	for n := 0; it.Next(); n++ {
		if n > 64 {
			o.add(prov+".NewIterator", "iter-unbounded", "", "iterator(%q,%q) yields more than 64 items", prefix, start)
			break
		}
		// Key/Value are documented as valid until the next Next(): copy, never modify.
		got = append(got, [2]string{string(it.Key()), string(it.Value())})
	}
	if err := it.Error(); err != nil {
		o.add(prov+".NewIterator", "unexpected-error", "", "iterator(%q,%q).Error(): %v", prefix, start, err)
	}
	if err := it.Close(); err != nil {
		o.add(prov+".NewIterator", "unexpected-error", "", "iterator(%q,%q).Close(): %v", prefix, start, err)
	}
	return got, true
}

func c27IterClass(prefix, start string) string {
	if start == "" {
		return "start-empty"
	}
	return "start-nonempty"
}

// c27CheckIter compares one iteration with the reference.
func c27CheckIter(db database.Database, prov string, ref c27Ref, prefix, start string, scribble bool, o *c27Obs) string {
	got, ok := c27Iterate(db, prov, prefix, start, scribble, o)
	if !ok {
		return "error"
	}
	want := ref.iterate(prefix, start)
	site := prov + ".NewIterator"
	key := c27IterClass(prefix, start)
	gotSet := map[string]string{}
	for _, kv := range got {
		gotSet[kv[0]] = kv[1]
	}
	wantSet := map[string]string{}
	for _, kv := range want {
		wantSet[kv[0]] = kv[1]
	}
	desc := func() string {
		return fmt.Sprintf("content %s iterate(prefix=%q,start=%q): got %q want %q", ref.canon(), prefix, start, got, want)
	}
	bad := false
	for _, kv := range want {
		if _, in := gotSet[kv[0]]; !in {
			o.add(site, "iter-missing-key", key, "%s", desc())
			bad = true
			break
		}
	}
	for _, kv := range got {
		if _, in := wantSet[kv[0]]; !in {
			o.add(site, "iter-extra-key", key, "%s", desc())
			bad = true
			break
		}
	}
	if len(got) != len(gotSet) {
		o.add(site, "iter-duplicate-key", key, "%s", desc())
		bad = true
	}
	for i := 1; i < len(got); i++ {
		if got[i-1][0] >= got[i][0] {
			o.add(site, "iter-not-ascending", key, "%s", desc())
			bad = true
			break
		}
	}
	for _, kv := range got {
		if w, in := wantSet[kv[0]]; in && w != kv[1] {
			o.add(site, "iter-wrong-value", key, "%s", desc())
			bad = true
			break
		}
	}
	if bad {
		return "mismatch"
	}
	return fmt.Sprintf("n=%d", len(got))
}

// the observation itself recorded a specific failure (error / aliasing): no generic wrong-state on top
func c27AlreadyReported(d string) bool {
	return d == "get-alias" || d == "get-error" || d == "has-error" || d == "iter-error"
}

// c27Observe compares the complete observable content with the reference.
// Returns "" when equal, else a short description of the first difference.
func c27Observe(db database.Database, prov string, ref c27Ref, o *c27Obs) string {
	for _, k := range c27Probe {
		kb := []byte(k)
		v, found, err := db.Get(kb)
		if err != nil {
			o.add(prov+".Get", "unexpected-error", "", "Get(%q): %v", k, err)
			return "get-error"
		}
		w, in := ref[k]
		if found != in || (in && string(v) != w) {
			return fmt.Sprintf("Get(%q) = (%q,%v), reference (%q,%v)", k, v, found, w, in)
		}
		if string(kb) != k {
			o.add(prov+".Get", "argument-modified", "", "Get(%q) modified its key argument", k)
		}
		// caller mutation of the returned slice must not reach the store
		if len(v) == 0 {
			goto has
		}
		c27Scribble(v)
		if v2, found2, err := db.Get([]byte(k)); err != nil || found2 != in || (in && string(v2) != w) {
			o.add(prov+".Get", "returned-slice-aliases-store", "", "content %s: after overwriting the slice returned by Get(%q), Get returns (%q,%v,%v)", ref.canon(), k, v2, found2, err)
			return "get-alias"
		}
	has:
		h, err := db.Has([]byte(k))
		if err != nil {
			o.add(prov+".Has", "unexpected-error", "", "Has(%q): %v", k, err)
			return "has-error"
		}
		if h != in {
			return fmt.Sprintf("Has(%q) = %v, reference %v", k, h, in)
		}
	}
	got, ok := c27Iterate(db, prov, "", "", false, o)
	if !ok {
		return "iter-error"
	}
	want := ref.iterate("", "")
	if fmt.Sprint(got) != fmt.Sprint(want) {
		return fmt.Sprintf("full iteration = %q, reference %q", got, want)
	}
	return ""
}

// c27Apply applies one event to db (with or without buffer scribbling) and
// checks its direct results. ref is the content before the event.
func c27Apply(db database.Database, prov string, ref c27Ref, e c27Event, scribble bool, o *c27Obs) (class string) {
	scrK := func(b []byte) { // key-like argument buffers
		if scribble && c27ScribbleMode&1 != 0 {
			c27Scribble(b)
		}
	}
	scrV := func(b []byte) { // value argument buffers and returned slices
		if scribble && c27ScribbleMode&2 != 0 {
			c27Scribble(b)
		}
	}
	switch e.Kind {
	case "put":
		k, v := c27un(e.K), c27un(e.V)
		// a slice obtained before the write must be unaffected by the write
		old, had, _ := db.Get([]byte(k))
		oldCopy := string(old)
		kb, vb := []byte(k), []byte(v)
		if err := db.Put(kb, vb); err != nil {
			o.add(prov+".Put", "unexpected-error", "", "Put(%q,%q): %v", k, v, err)
			return "error"
		}
		scrK(kb)
		scrV(vb)
		if had && string(old) != oldCopy {
			o.add(prov+".Get", "returned-slice-changed-by-later-write", "", "slice returned by Get(%q) changed from %q to %q after Put(%q,%q)", k, oldCopy, old, k, v)
		}
		_, in := ref[k]
		return fmt.Sprintf("put existing=%v", in)
	case "del":
		k := c27un(e.K)
		old, had, _ := db.Get([]byte(k))
		oldCopy := string(old)
		kb := []byte(k)
		if err := db.Delete(kb); err != nil {
			o.add(prov+".Delete", "unexpected-error", "", "Delete(%q): %v", k, err)
			return "error"
		}
		scrK(kb)
		if had && string(old) != oldCopy {
			o.add(prov+".Get", "returned-slice-changed-by-later-write", "", "slice returned by Get(%q) changed after Delete", k)
		}
		_, in := ref[k]
		return fmt.Sprintf("del existing=%v", in)
	case "batch":
		b := db.NewBatch()
		if b == nil {
			o.add(prov+".NewBatch", "unexpected-error", "", "NewBatch returned nil")
			return "error"
		}
		for _, op := range e.Ops {
			k, v := c27un(op.K), c27un(op.V)
			kb, vb := []byte(k), []byte(v)
			var err error
			if op.Del {
				err = b.Delete(kb)
			} else {
				err = b.Put(kb, vb)
			}
			if err != nil {
				o.add(prov+".batch", "unexpected-error", "", "batch op %+v: %v", op, err)
				return "error"
			}
			scrK(kb)
		scrV(vb)
		}
		// nothing may be visible before Commit
		if d := c27Observe(db, prov, ref, o); d != "" && !c27AlreadyReported(d) {
			o.add(prov+".batch", "visible-before-commit", fmt.Sprintf("ops=%d", len(e.Ops)), "content %s, batch %s buffered but not committed: %s", ref.canon(), c27EvString(e), d)
		}
		if e.End == "commit" {
			if err := b.Commit(); err != nil {
				o.add(prov+".batch.Commit", "unexpected-error", "", "Commit of %s: %v", c27EvString(e), err)
				return "error"
			}
		}
		if err := b.Close(); err != nil {
			o.add(prov+".batch.Close", "unexpected-error", "end="+e.End, "Close after %s of %s: %v", e.End, c27EvString(e), err)
		}
		return fmt.Sprintf("batch ops=%d end=%s changes=%v", len(e.Ops), e.End, c27RefApply(ref, e).canon() != ref.canon())
	case "get":
		k := c27un(e.K)
		kb := []byte(k)
		v, found, err := db.Get(kb)
		if err != nil {
			o.add(prov+".Get", "unexpected-error", "", "Get(%q): %v", k, err)
			return "error"
		}
		scrK(kb)
		w, in := ref[k]
		if found != in || (in && string(v) != w) {
			o.add(prov+".Get", "wrong-value", "", "content %s: Get(%q) = (%q,%v), reference (%q,%v)", ref.canon(), k, v, found, w, in)
		}
		scrV(v)
		return fmt.Sprintf("get found=%v empty=%v", in, in && w == "")
	case "has":
		k := c27un(e.K)
		kb := []byte(k)
		h, err := db.Has(kb)
		if err != nil {
			o.add(prov+".Has", "unexpected-error", "", "Has(%q): %v", k, err)
			return "error"
		}
		scrK(kb)
		_, in := ref[k]
		if h != in {
			o.add(prov+".Has", "wrong-value", "", "content %s: Has(%q) = %v, reference %v", ref.canon(), k, h, in)
		}
		return fmt.Sprintf("has %v", in)
	case "iter":
		p, s := c27un(e.P), c27un(e.S)
		res := c27CheckIter(db, prov, ref, p, s, scribble, o)
		want := ref.iterate(p, s)
		// behaviour class: does the reference result differ from the
		// "has prefix+start as a prefix" reading / from the plain prefix scan?
		narrow := 0
		for _, kv := range want {
			if strings.HasPrefix(kv[0], p+s) {
				narrow++
			}
		}
		return fmt.Sprintf("iter %s res=%s beyond-start-prefix=%v", c27IterClass(p, s), res, narrow != len(want))
	}
	return "?"
}

func c27EvString(e c27Event) string {
	switch e.Kind {
	case "put":
		return fmt.Sprintf("put(%q,%q)", c27un(e.K), c27un(e.V))
	case "del":
		return fmt.Sprintf("delete(%q)", c27un(e.K))
	case "get", "has":
		return fmt.Sprintf("%s(%q)", e.Kind, c27un(e.K))
	case "iter":
		return fmt.Sprintf("iterate(%q,%q)", c27un(e.P), c27un(e.S))
	case "batch":
		var parts []string
		for _, op := range e.Ops {
			if op.Del {
				parts = append(parts, fmt.Sprintf("delete(%q)", c27un(op.K)))
			} else {
				parts = append(parts, fmt.Sprintf("put(%q,%q)", c27un(op.K), c27un(op.V)))
			}
		}
		return "batch[" + strings.Join(parts, ",") + "]+" + e.End
	}
	return e.Kind
}

// c27Rebuild opens a fresh provider instance and replays the put-history.
func c27Rebuild(p c27Provider, hist [][2]string, o *c27Obs) (database.Database, func(), c27Ref, bool) {
	db, cleanup, err := p.open()
	if err != nil {
		o.add(p.name+".open", "harness-open-failed", "", "%v", err)
		return nil, nil, nil, false
	}
	ref := c27Ref{}
	for _, kv := range hist {
		k, v := c27un(kv[0]), c27un(kv[1])
		if err := db.Put([]byte(k), []byte(v)); err != nil {
			o.add(p.name+".Put", "unexpected-error", "", "rebuild Put(%q,%q): %v", k, v, err)
			db.Close()
			cleanup()
			return nil, nil, nil, false
		}
		ref[k] = v
	}
	return db, func() { db.Close(); cleanup() }, ref, true
}

// c27RunOnce: rebuild + event + full observation. Returns the failures and the class.
func c27RunOnce(p c27Provider, hist [][2]string, e c27Event, scribble bool) (*c27Obs, string) {
	o := &c27Obs{}
	db, done, ref, ok := c27Rebuild(p, hist, o)
	if !ok {
		return o, "error"
	}
	defer done()
	return o, c27RunOn(db, p.name, ref, e, scribble, o)
}

// c27RunOn: event + full observation on an instance whose content is ref.
func c27RunOn(db database.Database, prov string, ref c27Ref, e c27Event, scribble bool, o *c27Obs) string {
	class := c27Apply(db, prov, ref, e, scribble, o)
	after := c27RefApply(ref, e)
	if d := c27Observe(db, prov, after, o); d != "" && !c27AlreadyReported(d) {
		o.add(prov+"."+e.Kind, "wrong-state", "", "content %s, event %s: %s", ref.canon(), c27EvString(e), d)
	}
	return class
}

// c27Restore brings a live instance back to the content ref through the
// provider's own interface (used only by the per-state directory-backed Pebble
// run); the result is verified with a full observation by the caller.
func c27Restore(db database.Database, prov string, ref c27Ref, o *c27Obs) bool {
	got, ok := c27Iterate(db, prov, "", "", false, o)
	if !ok {
		return false
	}
	for _, kv := range got {
		if w, in := ref[kv[0]]; !in || w != kv[1] {
			if err := db.Delete([]byte(kv[0])); err != nil {
				return false
			}
		}
	}
	for k, v := range ref {
		if err := db.Put([]byte(k), []byte(v)); err != nil {
			return false
		}
	}
	return c27Observe(db, prov, ref, o) == ""
}

// c27RunStateSequential: ONE fresh directory-backed Pebble per state; every event
// is applied to it in turn, the content being restored in between. A failure is
// re-run on a fresh instance (rebuild + that one event) so that the reported case
// replays on its own.
func c27RunStateSequential(r *vlib.Run, p c27Provider, hist [][2]string, events []c27Event, thorough bool) {
	o := &c27Obs{}
	db, done, ref, ok := c27Rebuild(p, hist, o)
	if !ok {
		r.Violation(p.name+".open", "harness-open-failed", "", fmt.Sprint(o.fails), c27Case{Provider: p.name, Thorough: thorough, History: hist})
		return
	}
	defer func() { done() }()
	for _, e := range events {
		r.Transition()
		r.Eval()
		r.Space(1)
		eo := &c27Obs{}
		var class string
		panicked, msg, site := vlib.Guard(func() { class = c27RunOn(db, p.name, ref, e, true, eo) })
		c := c27Case{Provider: p.name, Thorough: thorough, History: hist, Event: e}
		if panicked {
			r.Violation(site, "go-panic", p.name+";"+e.Kind, fmt.Sprintf("event %s: %s", c27EvString(e), msg), c)
		}
		r.Class(p.name + " " + class)
		if len(eo.fails) > 0 {
			before := r.NViolations()
			c27RunCase(r, p, c) // fresh instance; reports with attribution
			if r.NViolations() == before {
				for _, f := range eo.fails {
					r.Violation(f.site, f.kind+";only-on-reused-instance", f.key, f.detail, c)
				}
			}
		}
		ro := &c27Obs{}
		if panicked || !c27Restore(db, p.name, ref, ro) {
			// could not restore: continue on a fresh instance
			done()
			db, done, ref, ok = c27Rebuild(p, hist, ro)
			if !ok {
				r.Violation(p.name+".open", "harness-open-failed", "", fmt.Sprint(ro.fails), c)
				done = func() {}
				return
			}
		}
	}
}

// miniredis (the stand-in server) compiles SCAN patterns with Go's regexp and
// panics in its server goroutine on a pattern that is not valid UTF-8. That is a
// limitation of the stand-in, not of the provider, so for the Redis provider the
// probe "a\xff" is replaced by "a\x7f", which has the same order relations to
// every key of the universe (above a, a*, ab; below b).
func c27ForRedis(e c27Event) c27Event {
	sub := func(h string) string {
		if c27un(h) == "a\xff" {
			return c27hx("a\x7f")
		}
		return h
	}
	e.K, e.P, e.S = sub(e.K), sub(e.P), sub(e.S)
	return e
}

var c27Millis = map[string]float64{}

func c27TimedOut(o *c27Obs) bool {
	if o == nil {
		return false
	}
	for _, f := range o.fails {
		if strings.Contains(f.detail, "i/o timeout") {
			return true
		}
	}
	return false
}

func c27RunCase(r *vlib.Run, p c27Provider, c c27Case) {
	t0 := time.Now()
	defer func() { c27Millis[p.name] += float64(time.Since(t0).Microseconds()) / 1000 }()
	if p.name == "redis" {
		c.Event = c27ForRedis(c.Event)
	}
	r.Transition()
	r.Eval()
	var o *c27Obs
	var class string
	var panicked bool
	var msg, site string
	// The go-redis client has a 3 s socket timeout that cannot be configured through
	// redis.NewDatabase; on an overloaded machine a miniredis round trip can exceed it.
	// A timeout is a wall-clock artefact, never a verdict: the case is rebuilt and re-run.
	for attempt := 0; ; attempt++ {
		panicked, msg, site = vlib.Guard(func() { o, class = c27RunOnce(p, c.History, c.Event, true) })
		if panicked || !c27TimedOut(o) {
			break
		}
		if attempt == 5 {
			r.Cap("redis socket timeout persisted over 6 attempts of one case (overloaded machine); case not decided")
			return
		}
		time.Sleep(200 * time.Millisecond)
	}
	if panicked {
		r.Violation(site, "go-panic", p.name+";"+c.Event.Kind, fmt.Sprintf("event %s: %s", c27EvString(c.Event), msg), c)
		return
	}
	r.Class(p.name + " " + class)
	if len(o.fails) == 0 {
		return
	}
	// attribute: does the failure need the buffer overwriting, and of which buffer?
	rerun := func(scribble bool, mode int) *c27Obs {
		var po *c27Obs
		c27ScribbleMode = mode
		for attempt := 0; attempt < 6; attempt++ {
			vlib.Guard(func() { po, _ = c27RunOnce(p, c.History, c.Event, scribble) })
			if !c27TimedOut(po) {
				break
			}
		}
		c27ScribbleMode = 3
		return po
	}
	has := func(po *c27Obs, kind string) bool {
		if po == nil {
			return false
		}
		for _, g := range po.fails {
			if g.kind == kind {
				return true
			}
		}
		return false
	}
	plain := rerun(false, 3)
	var keyOnly, valOnly *c27Obs
	for _, f := range o.fails {
		kind, key := f.kind, f.key
		if f.kind == "wrong-state" || f.kind == "visible-before-commit" {
			if !has(plain, f.kind) {
				if keyOnly == nil {
					keyOnly, valOnly = rerun(true, 1), rerun(true, 2)
				}
				kind = "argument-buffer-aliased"
				switch {
				case has(keyOnly, f.kind) && has(valOnly, f.kind):
					key = "key-and-value-buffer"
				case has(keyOnly, f.kind):
					key = "key-buffer"
				case has(valOnly, f.kind):
					key = "value-buffer"
				default:
					key = "key-and-value-buffer-together"
				}
			} else if f.kind == "wrong-state" {
				key = "end=" + c.Event.End
			}
		}
		r.Violation(f.site, kind, key, f.detail, c)
	}
}

func TestVerif_C27(t *testing.T) {
	r := vlib.Start(t, "C27")
	defer r.Finish()

	var rc c27Case
	if r.IsReplay(&rc) {
		c27SetUniverse(rc.Thorough)
		if rc.Persist != nil {
			c27RunPersist(r, rc)
			os.RemoveAll(c27TmpRoot(r))
			return
		}
		for _, p := range c27Providers(r) {
			if p.name == rc.Provider {
				c27RunCase(r, p, rc)
			}
		}
		os.RemoveAll(c27TmpRoot(r))
		return
	}

	c27SetUniverse(r.Thorough())
	provs := c27Providers(r)
	events := c27Events()

	// Frontier: breadth-first over the mutating events in the reference model (a
	// pure map, no real code), identically in every shard; the real code is then
	// checked on every (state, event, provider) triple, which by induction over
	// the BFS depth shows that the real reachable states are exactly these.
	type st struct {
		ref  c27Ref
		hist [][2]string
	}
	start := st{ref: c27Ref{}}
	seen := map[string]bool{start.ref.canon(): true}
	states := []st{start}
	depthOf := map[string]int{start.ref.canon(): 0}
	maxDepth := 0
	for i := 0; i < len(states); i++ {
		s := states[i]
		for _, e := range events {
			if e.Kind != "put" { // puts alone reach every map; del/batch successors are checked below
				continue
			}
			n := c27RefApply(s.ref, e)
			if c := n.canon(); !seen[c] {
				seen[c] = true
				h := append(append([][2]string(nil), s.hist...), [2]string{e.K, e.V})
				states = append(states, st{n, h})
				depthOf[c] = depthOf[s.ref.canon()] + 1
				if depthOf[c] > maxDepth {
					maxDepth = depthOf[c]
				}
			}
		}
	}
	// closure check: no mutating event leaves the state set
	for _, s := range states {
		for _, e := range events {
			if !seen[c27RefApply(s.ref, e).canon()] {
				t.Fatalf("harness: state set not closed under %s", c27EvString(e))
			}
		}
	}
	r.StateCount(uint64(len(states)))
	r.Extra("bfs_depth", maxDepth)
	r.Extra("events_per_state", len(events))
	r.Extra("providers", len(provs))

	perTransition := provs[:3]
	pdir := provs[3]
	idx := uint64(0)
	for si, s := range states {
		for ei, e := range events {
			for _, p := range perTransition {
				idx++
				if !r.Mine(idx) {
					continue
				}
				if r.Expired() {
					return
				}
				r.Space(1)
				c := c27Case{Provider: p.name, Thorough: r.Thorough(), History: s.hist, Event: e}
				c27RunCase(r, p, c)
				if e.Kind != "get" && e.Kind != "has" && e.Kind != "iter" {
					r.Trace()
				}
				if r.WantSample() && si == len(states)/2 && ei%97 == 5 {
					r.Sample(map[string]string{"provider": p.name, "content": s.ref.canon(), "event": c27EvString(e)})
				}
			}
		}
		if r.Mine(uint64(si)) {
			t0 := time.Now()
			c27RunStateSequential(r, pdir, s.hist, events, r.Thorough())
			c27Millis["pebble-dir-sequential"] += float64(time.Since(t0).Microseconds()) / 1000
		}
	}
	// persistence pass: every state with at most 1 (quick) / 3 (thorough) keys present
	// (a reopen costs ~50 ms; the keys not touched by E1/E2 only have to survive)
	t0 := time.Now()
	maxPresent := vlib.Pick(r, 1, 3)
	for si, s := range states {
		if len(s.ref) > maxPresent {
			continue
		}
		if !r.Mine(uint64(si)) || r.Expired() {
			continue
		}
		for _, c := range c27PersistCases(s.hist, r.Thorough()) {
			r.Space(1)
			c27RunPersist(r, c)
			r.Trace()
		}
	}
	c27Millis["pebble-dir-persist"] += float64(time.Since(t0).Microseconds()) / 1000
	os.RemoveAll(c27TmpRoot(r))
	_ = bytes.Equal
	for k, v := range c27Millis {
		r.Extra("sum_cpu_ms_"+k, int64(v))
	}
}
