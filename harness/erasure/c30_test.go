package erasurecoding

// C30 — erasure-coding recovery. Bounded-exhaustive enumeration of (blob,
// ordered shard selection) through the repository's real Go wrapper and real
// Rust FFI layer (lib.rs), linked against the std-only stand-in for the absent
// reed-solomon-simd crate (DESIGN §2.3).

import (
	"bytes"
	"fmt"
	"testing"

	"github.com/New-JAMneration/JAM-Protocol/internal/zzverif/vlib"
)

type c30Case struct {
	K       int    `json:"data_shards"`
	M       int    `json:"parity_shards"`
	Len     int    `json:"len"`
	Pattern int    `json:"pattern"`
	Indices []int  `json:"indices"`
	Note    string `json:"note,omitempty"`
}

func c30Data(n, pattern int) []byte {
	d := make([]byte, n)
	for i := range d {
		switch pattern {
		case 0:
			d[i] = byte(i*7 + 1)
		case 1:
			d[i] = byte(0xFF - i*13)
		default:
			d[i] = 0
		}
	}
	if pattern == 2 && n > 0 {
		d[n-1] = 1
	}
	return d
}

func c30Run(r *vlib.Run, c c30Case, enc map[string][][]byte) {
	r.Eval()
	data := c30Data(c.Len, c.Pattern)
	key := fmt.Sprintf("%d/%d/%d/%d", c.K, c.M, c.Len, c.Pattern)
	klass := fmt.Sprintf("k=%d,m=%d", c.K, c.M)
	shards, ok := enc[key]
	if !ok {
		var err error
		p, msg, _ := vlib.Guard(func() { shards, err = EncodeDataShards(append([]byte(nil), data...), c.K, c.M) })
		r.Transition()
		if p {
			r.Violation("erasurecoding.EncodeDataShards", "go-panic", klass, fmt.Sprintf("len=%d: %s", c.Len, msg), c)
			return
		}
		if err != nil {
			r.Violation("erasurecoding.EncodeDataShards", "encode-error", klass, fmt.Sprintf("len=%d: %v", c.Len, err), c)
			return
		}
		if enc != nil {
			enc[key] = shards
		}
	}
	if len(shards) != c.K+c.M {
		r.Violation("erasurecoding.EncodeDataShards", "shard-count", klass, fmt.Sprintf("len=%d: %d shards, want %d", c.Len, len(shards), c.K+c.M), c)
		return
	}
	we := 2 * c.K
	padded := append([]byte(nil), data...)
	if len(padded)%we != 0 {
		padded = append(padded, make([]byte, we-len(padded)%we)...)
	}
	shardSize := len(padded) / c.K
	for i, s := range shards {
		if len(s) != shardSize {
			r.Violation("erasurecoding.EncodeDataShards", "shard-size", klass, fmt.Sprintf("len=%d: shard %d has %d bytes, want %d", c.Len, i, len(s), shardSize), c)
			return
		}
	}
	// systematic part: the first K shards are the padded data split into K pieces
	for i := 0; i < c.K; i++ {
		if !bytes.Equal(shards[i], padded[i*shardSize:(i+1)*shardSize]) {
			r.Class("non-systematic")
		}
	}
	flat := make([]byte, 0, len(c.Indices)*shardSize)
	for _, ix := range c.Indices {
		flat = append(flat, shards[ix]...)
	}
	var out []byte
	var err error
	p, msg, _ := vlib.Guard(func() { out, err = DecodeShards(flat, append([]int(nil), c.Indices...), c.K, c.M, shardSize) })
	r.Transition()
	nOrig := 0
	for _, ix := range c.Indices {
		if ix < c.K {
			nOrig++
		}
	}
	r.Class(fmt.Sprintf("k=%d m=%d originals=%d/%d shardSize=%d", c.K, c.M, nOrig, c.K, shardSize))
	sel := fmt.Sprintf("%s,originals=%d", klass, nOrig)
	switch {
	case p:
		r.Violation("erasurecoding.DecodeShards", "go-panic", sel, fmt.Sprintf("len=%d indices=%v: %s", c.Len, c31trim(c.Indices), msg), c)
	case err != nil:
		r.Violation("erasurecoding.DecodeShards", "decode-error", sel, fmt.Sprintf("len=%d indices=%v: %v", c.Len, c31trim(c.Indices), err), c)
	case !bytes.Equal(out, padded):
		r.Violation("erasurecoding.DecodeShards", "wrong-data", sel, fmt.Sprintf("len=%d indices=%v: decoded %d bytes differ from the zero-padded original (%d bytes)", c.Len, c31trim(c.Indices), len(out), len(padded)), c)
	}
}

// c30Reuse: encode blob A from a buffer, refill the SAME buffer in place with blob B (same
// length, other contents), encode again, and decode both results from shard buffers that are
// reused as well; every result is compared with what fresh buffers give.
func c30Reuse(r *vlib.Run, k, m, ln int) {
	c := c30Case{K: k, M: m, Len: ln, Pattern: 0, Note: "buffer-reuse"}
	klass := fmt.Sprintf("k=%d,m=%d", k, m)
	buf := make([]byte, ln)
	we := 2 * k
	var prevFlat []byte
	sel := make([]int, 0, k)
	for i := 0; i < k; i++ { // last original replaced by the first recovery shard
		sel = append(sel, i)
	}
	sel[k-1] = k
	for round := 0; round < 3; round++ {
		pat := round % 2 // A, B, A again
		copy(buf, c30Data(ln, pat))
		r.Eval()
		var shards [][]byte
		var err error
		p, msg, _ := vlib.Guard(func() { shards, err = EncodeDataShards(buf, k, m) })
		r.Transition()
		if p || err != nil {
			r.Violation("erasurecoding.EncodeDataShards", "encode-error", klass+";buffer-reuse", fmt.Sprintf("len=%d round=%d: %v %s", ln, round, err, msg), c)
			return
		}
		fresh, _ := EncodeDataShards(append([]byte(nil), c30Data(ln, pat)...), k, m)
		for i := range fresh {
			if !bytes.Equal(fresh[i], shards[i]) {
				r.Violation("erasurecoding.EncodeDataShards", "result-depends-on-earlier-call", klass+";buffer-reuse",
					fmt.Sprintf("len=%d: encoding blob #%d from a buffer that previously held another blob of the same length gives shard %d = %x…, a fresh buffer gives %x…", ln, round, i, shards[i][:min(8, len(shards[i]))], fresh[i][:min(8, len(fresh[i]))]), c)
				return
			}
		}
		padded := append([]byte(nil), c30Data(ln, pat)...)
		if len(padded)%we != 0 {
			padded = append(padded, make([]byte, we-len(padded)%we)...)
		}
		shardSize := len(padded) / k
		if prevFlat == nil || len(prevFlat) != k*shardSize {
			prevFlat = make([]byte, k*shardSize)
		}
		for i, ix := range sel { // refill the same flat buffer in place
			copy(prevFlat[i*shardSize:], shards[ix])
		}
		var out []byte
		p, msg, _ = vlib.Guard(func() { out, err = DecodeShards(prevFlat, sel, k, m, shardSize) })
		r.Transition()
		r.Class(fmt.Sprintf("reuse k=%d round=%d", k, round))
		if p || err != nil || !bytes.Equal(out, padded) {
			r.Violation("erasurecoding.DecodeShards", "result-depends-on-earlier-call", klass+";buffer-reuse",
				fmt.Sprintf("len=%d round=%d: decode from a reused shard buffer differs from the zero-padded blob (err=%v %s)", ln, round, err, msg), c)
			return
		}
	}
}

func c31trim(ix []int) []int {
	if len(ix) > 12 {
		return append(append([]int(nil), ix[:12]...), -1)
	}
	return ix
}

// every ordered selection of k distinct indices out of n
func c30Ordered(n, k int, f func(sel []int)) {
	sel := make([]int, 0, k)
	used := make([]bool, n)
	var rec func()
	rec = func() {
		if len(sel) == k {
			f(sel)
			return
		}
		for i := 0; i < n; i++ {
			if used[i] {
				continue
			}
			used[i] = true
			sel = append(sel, i)
			rec()
			sel = sel[:len(sel)-1]
			used[i] = false
		}
	}
	rec()
}

func c30FullSets(k, n int) map[string][]int {
	sets := map[string][]int{}
	seq := func(from, step, count int) []int {
		o := make([]int, 0, count)
		seen := map[int]bool{}
		for i := 0; len(o) < count; i++ {
			v := (from + i*step) % n
			for seen[v] { // keep the selection duplicate-free when the stride wraps
				v = (v + 1) % n
			}
			seen[v] = true
			o = append(o, v)
		}
		return o
	}
	sets["all-original"] = seq(0, 1, k)
	sets["all-recovery-first"] = seq(k, 1, k)
	sets["all-recovery-last"] = seq(n-k, 1, k)
	for w := 0; w < 16; w++ {
		sets[fmt.Sprintf("window-%02d", w)] = seq(w*(n-k)/15, 1, k)
	}
	sets["every-third"] = seq(0, 3, k) // 0,3,6,... wraps never (3*341 < 1023)
	sets["every-third+1"] = seq(1, 3, k)
	sets["every-third+2"] = seq(2, 3, k)
	// interleaved: even originals + recovery
	il := []int{}
	for i := 0; i < k; i += 2 {
		il = append(il, i)
	}
	for i := k; len(il) < k; i++ {
		il = append(il, i)
	}
	sets["interleaved"] = il
	rev := append([]int(nil), sets["window-07"]...)
	for i, j := 0, len(rev)-1; i < j; i, j = i+1, j-1 {
		rev[i], rev[j] = rev[j], rev[i]
	}
	sets["reversed-window-07"] = rev
	one := seq(k, 1, k) // one original among recovery shards, at each end
	one[0] = 0
	sets["one-original-first"] = one
	one2 := seq(k, 1, k)
	one2[k-1] = k - 1
	sets["one-original-last"] = one2
	miss := seq(0, 1, k) // all originals but one, replaced by the last recovery shard
	miss[k/2] = n - 1
	sets["one-missing-mid"] = miss
	miss0 := seq(0, 1, k)
	miss0[0] = k
	sets["one-missing-first"] = miss0
	return sets
}

func TestVerif_C30(t *testing.T) {
	r := vlib.Start(t, "C30")
	defer r.Finish()
	var rc c30Case
	if r.IsReplay(&rc) {
		if rc.Note == "buffer-reuse" {
			c30Reuse(r, rc.K, rc.M, rc.Len)
			return
		}
		c30Run(r, rc, nil)
		return
	}
	idx := uint64(0)
	enc := map[string][][]byte{}
	// small codes: complete over lengths, patterns and ordered selections
	small := [][2]int{{2, 4}, {3, 3}, {3, 6}}
	if r.Thorough() {
		small = append(small, [2]int{4, 8}, [2]int{5, 3})
	}
	for _, km := range small {
		k, m := km[0], km[1]
		maxLen := 3*2*k + 1
		for n := 1; n <= maxLen; n++ {
			for pat := 0; pat < 3; pat++ {
				c30Ordered(k+m, k, func(sel []int) {
					idx++
					if !r.Mine(idx) {
						return
					}
					r.Space(1)
					c := c30Case{K: k, M: m, Len: n, Pattern: pat, Indices: append([]int(nil), sel...)}
					c30Run(r, c, enc)
					if r.WantSample() && idx%977 == 5 {
						r.Sample(c)
					}
				})
			}
		}
	}
	// protocol codes: tiny is (2,4) above; full = 342 of 1023 with structured selections (NOT exhaustive over subsets)
	k, n := 342, 1023
	lens := vlib.Pick(r, []int{1, 684, 685}, []int{1, 683, 684, 685, 1368, 4104})
	sets := c30FullSets(k, n)
	names := make([]string, 0, len(sets))
	for nm := range sets {
		names = append(names, nm)
	}
	sortStrings(names)
	for _, ln := range lens {
		for _, nm := range names {
			idx++
			if !r.Mine(idx) {
				continue
			}
			r.Space(1)
			c := c30Case{K: k, M: n - k, Len: ln, Pattern: 0, Indices: sets[nm], Note: nm}
			c30Run(r, c, enc)
		}
	}
	// re-entry part: results must be a function of the arguments' CONTENTS only. The same
	// caller buffers are refilled in place and reused across consecutive calls (a memo keyed
	// on, or retaining, a caller slice shows up here), for encode and for decode.
	for _, km := range [][2]int{{2, 4}, {3, 6}, {342, 681}} {
		k, m := km[0], km[1]
		for _, ln := range []int{1, 2 * k, 2*k + 1, 4 * k} {
			idx++
			if !r.Mine(idx) {
				continue
			}
			r.Space(1)
			c30Reuse(r, k, m, ln)
		}
	}
	// row-count ladder: blob sizes around every power of two of the row count (a row is one 16-bit
	// word per original shard, 2k bytes), where an implementation may switch strategy (chunking,
	// worker split, buffer growth): rows 2^j-2 .. 2^j+9, full and with a partial last row, decoded
	// from the originals, from recovery shards only and from a reversed mixed selection
	type ladder struct{ k, m, jmin, jmax int }
	ladders := vlib.Pick(r, []ladder{{2, 4, 3, 13}, {342, 681, 3, 6}}, []ladder{{2, 4, 3, 16}, {3, 6, 3, 14}, {342, 681, 3, 12}})
	for _, ld := range ladders {
		k, m := ld.k, ld.m
		orig, rec, mixed := make([]int, k), make([]int, k), make([]int, k)
		for i := 0; i < k; i++ {
			orig[i], rec[i] = i, k+i
			if i%2 == 0 {
				mixed[k-1-i] = i
			} else {
				mixed[k-1-i] = k + m - 1 - i
			}
		}
		for j := ld.jmin; j <= ld.jmax; j++ {
			for rows := 1<<uint(j) - 2; rows <= 1<<uint(j)+9; rows++ {
				for _, ln := range []int{rows * 2 * k, rows*2*k - 1} {
					for si, sel := range [][]int{orig, rec, mixed} {
						idx++
						if !r.Mine(idx) {
							continue
						}
						r.Space(1)
						c30Run(r, c30Case{K: k, M: m, Len: ln, Pattern: 0, Indices: sel, Note: fmt.Sprintf("row-ladder rows=%d sel=%d", rows, si)}, nil)
					}
				}
			}
		}
	}
	r.Extra("full_code_selection_sets", len(sets))
	r.Extra("full_code_exhaustive_over_subsets", false)
}

func sortStrings(s []string) {
	for i := 1; i < len(s); i++ {
		for j := i; j > 0 && s[j] < s[j-1]; j-- {
			s[j], s[j-1] = s[j-1], s[j]
		}
	}
}
