package fuzz

// C26 — block import is atomic and repeatable. Differential explicit-state
// search over import sequences against FuzzServiceStub (SetState / ImportBlock /
// GetState) from a synthetic tiny genesis: 6 validators derived by the repo's own
// JIP-5 helpers (bandersnatch keys through the VRF stand-in), fallback sealing,
// one service with solicited preimages. Blocks are built with the repo's own
// helpers (extrinsic hash, unsealed-header encoding, header hash, fallback key
// sequence) and sealed with the stand-in IETFSign.

import (
	"bytes"
	"fmt"
	"os"
	"sort"
	"strings"
	"testing"

	"github.com/New-JAMneration/JAM-Protocol/internal/blockchain"
	"github.com/New-JAMneration/JAM-Protocol/internal/safrole"
	"github.com/New-JAMneration/JAM-Protocol/internal/types"
	"github.com/New-JAMneration/JAM-Protocol/internal/utilities"
	"github.com/New-JAMneration/JAM-Protocol/internal/utilities/hash"
	m "github.com/New-JAMneration/JAM-Protocol/internal/utilities/merklization"
	"github.com/New-JAMneration/JAM-Protocol/internal/zzverif/vlib"
	"github.com/New-JAMneration/JAM-Protocol/logger"
	vrf "github.com/New-JAMneration/JAM-Protocol/pkg/Rust-VRF/vrf-func-ffi/src"
)

func init() {
	os.Setenv("JAM_FUZZ", "1") // memory repositories only
}

const c26Service = types.ServiceID(1)
const c26NBlobs = 8

// ---------- genesis ----------

type c26Genesis struct {
	header   types.Header
	keyvals  types.StateKeyVals
	vals     types.ValidatorsData
	eta      types.EntropyBuffer
	gammaS   []types.BandersnatchPublic
	blobs    [][]byte
	hash     types.HeaderHash
}

func c26Blob(i int) []byte { return []byte{0xC2, 0x60, byte(i)} }

func c26BuildGenesis() (*c26Genesis, error) {
	g := &c26Genesis{}
	vals, err := safrole.LoadTinyValidatorsData()
	if err != nil {
		return nil, err
	}
	g.vals = vals
	for i := range g.eta {
		for j := range g.eta[i] {
			g.eta[i][j] = byte(0x11*(i+1) + j)
		}
	}
	g.gammaS = safrole.FallbackKeySequence(g.eta[2], vals)
	gz, err := safrole.UpdateBandersnatchKeyRoot(vals)
	if err != nil {
		return nil, err
	}
	cp := func() types.ValidatorsData { return append(types.ValidatorsData(nil), vals...) }

	st := blockchain.NewPriorStates().GetState() // correctly sized empty containers
	st.Kappa, st.Lambda, st.Iota = cp(), cp(), cp()
	st.Gamma = types.SafroleState{GammaK: cp(), GammaZ: gz, GammaS: types.TicketsOrKeys{Keys: append([]types.BandersnatchPublic(nil), g.gammaS...)}}
	st.Eta = g.eta
	st.Tau = 0
	for c := range st.Varphi {
		st.Varphi[c] = make(types.AuthQueue, types.AuthQueueSize)
	}
	st.Pi = types.Statistics{
		ValsCurr: make(types.ValidatorsStatistics, types.ValidatorsCount),
		ValsLast: make(types.ValidatorsStatistics, types.ValidatorsCount),
		Cores:    make(types.CoresStatistics, types.CoresCount),
	}
	code := []byte{0x00, 0x01, 0x02}
	codeHash := hash.Blake2bHash(code)
	st.Delta = types.ServiceAccountState{
		c26Service: types.ServiceAccount{
			ServiceInfo: types.ServiceInfo{CodeHash: codeHash, Balance: 1 << 40, MinItemGas: 10, MinMemoGas: 10},
			PreimageLookup: types.PreimagesMapEntry{},
			LookupDict:     types.LookupMetaMapEntry{},
			StorageDict:    types.Storage{},
		},
	}
	kvs, err := m.StateEncoder(st)
	if err != nil {
		return nil, err
	}
	// solicited (requested, not yet provided) preimages of the service: a_l[(H(blob), |blob|)] = []
	for i := 0; i < c26NBlobs; i++ {
		b := c26Blob(i)
		g.blobs = append(g.blobs, b)
		k := m.EncodeDelta4Key(c26Service, types.LookupMetaMapkey{Hash: hash.Blake2bHash(b), Length: types.U32(len(b))})
		kvs = append(kvs, types.StateKeyVal{Key: k, Value: []byte{0}})
	}
	sort.Slice(kvs, func(i, j int) bool { return bytes.Compare(kvs[i].Key[:], kvs[j].Key[:]) < 0 })
	g.keyvals = kvs
	g.header = types.Header{Slot: 0}
	g.hash, err = hash.ComputeBlockHeaderHash(g.header)
	return g, err
}

func c26CopyKVs(kvs types.StateKeyVals) types.StateKeyVals {
	out := make(types.StateKeyVals, len(kvs))
	for i, kv := range kvs {
		out[i] = types.StateKeyVal{Key: kv.Key, Value: append(types.ByteSequence(nil), kv.Value...)}
	}
	return out
}

// ---------- block builder ----------

type c26Mut int

const (
	c26Valid c26Mut = iota
	c26BadStateRoot
	c26BadExtrinsicHash
	c26BadSeal
	c26WrongAuthor
)

func (g *c26Genesis) authorFor(slot types.TimeSlot) (int, error) {
	key := g.gammaS[int(slot)%len(g.gammaS)]
	for i, v := range g.vals {
		if v.Bandersnatch == key {
			return i, nil
		}
	}
	return 0, fmt.Errorf("sealing key not in kappa")
}

// build makes a block on (parentHash, parentRoot). All blocks of a run stay in
// epoch 0, where eta'_3 = eta_3, gamma'_s = gamma_s and kappa' = kappa of genesis.
func (g *c26Genesis) build(parentHash types.HeaderHash, parentRoot types.StateRoot, slot types.TimeSlot, blob []byte, mut c26Mut) (types.Block, types.HeaderHash, error) {
	var pre types.PreimagesExtrinsic
	if blob != nil {
		pre = types.PreimagesExtrinsic{{Requester: c26Service, Blob: append(types.ByteSequence(nil), blob...)}}
	}
	return g.buildExt(parentHash, parentRoot, slot, types.Extrinsic{Preimages: pre}, mut)
}

func (g *c26Genesis) buildExt(parentHash types.HeaderHash, parentRoot types.StateRoot, slot types.TimeSlot, ext types.Extrinsic, mut c26Mut) (types.Block, types.HeaderHash, error) {
	var b types.Block
	b.Extrinsic = ext
	xh, err := utilities.CreateExtrinsicHash(b.Extrinsic)
	if err != nil {
		return b, types.HeaderHash{}, err
	}
	h := &b.Header
	h.Parent = parentHash
	h.ParentStateRoot = parentRoot
	h.ExtrinsicHash = xh
	h.Slot = slot
	author, err := g.authorFor(slot)
	if err != nil {
		return b, types.HeaderHash{}, err
	}
	switch mut {
	case c26BadStateRoot:
		h.ParentStateRoot[5] ^= 0x80
	case c26BadExtrinsicHash:
		h.ExtrinsicHash[9] ^= 0x01
	case c26WrongAuthor:
		author = (author + 1) % len(g.vals)
	}
	h.AuthorIndex = types.ValidatorIndex(author)
	sk, err := safrole.LookupBandersnatchSecretSeed(g.vals[author].Bandersnatch)
	if err != nil {
		return b, types.HeaderHash{}, err
	}
	ctx := append([]byte(types.JamFallbackSeal), g.eta[3][:]...)
	// Y(H_s) depends on (key, context) only: a preliminary signature gives it,
	// then H_v is fixed, then the real seal covers the header including H_v.
	preSig, err := vrf.IETFSign(sk, ctx, nil)
	if err != nil {
		return b, types.HeaderHash{}, err
	}
	var preSeal types.BandersnatchVrfSignature
	copy(preSeal[:], preSig)
	hv, err := safrole.SignHeaderEntropy(sk, preSeal)
	if err != nil {
		return b, types.HeaderHash{}, err
	}
	h.EntropySource = hv
	msg, err := utilities.HeaderUSerialization(*h)
	if err != nil {
		return b, types.HeaderHash{}, err
	}
	seal, err := vrf.IETFSign(sk, ctx, msg)
	if err != nil {
		return b, types.HeaderHash{}, err
	}
	copy(h.Seal[:], seal)
	if mut == c26BadSeal {
		h.Seal[40] ^= 0x04 // proof part: the VRF output (and with it H_v's context) stays intact
	}
	hh, err := hash.ComputeBlockHeaderHash(*h)
	return b, hh, err
}

func c26Silence() {
	if os.Getenv("C26_DEBUG") == "" {
		logger.ConfigureLogger("main", logger.LoggerConfig{Level: "FATAL", Enabled: false})
	}
}

func c26ResetGlobals() {
	types.SetTinyMode()
	blockchain.ClearVerifierCache()
	blockchain.ResetInstance()
}


// ---------- events ----------

var c26EventNames = []string{
	"child-empty", "child-preimage", "sibling", "bad-slot", "bad-parent-state-root", "bad-extrinsic-hash",
	"bad-seal", "wrong-author", "bad-preimage-order", "resend-last-rejected", "resend-last-accepted",
	"sibling-bad-seal", "bad-ticket", "preimage-unneeded",
}

const (
	c26EvChildEmpty = iota
	c26EvChildPre
	c26EvSibling
	c26EvBadSlot
	c26EvBadRoot
	c26EvBadXHash
	c26EvBadSeal
	c26EvWrongAuthor
	c26EvBadPreOrder
	c26EvResendRejected
	c26EvResendAccepted
	c26EvSiblingBadSeal // invalid fork block: restore to the parent, then a late failure
	c26EvBadTicket      // ticket extrinsic with a garbage ring proof: fails inside Safrole, after the header checks
	c26EvPreUnneeded    // well-formed preimage nobody solicited: fails in ValidateExtrinsic, after Safrole and the seal checks
)

type c26Case struct {
	Base int      `json:"base"` // 0: head = genesis (empty recent history); 1: head = one valid block on genesis
	Seq  []int    `json:"seq"`
	Long *c26Long `json:"long,omitempty"` // long-history pass
}

// c26Long: a history that fills the fuzz-mode retention window (24 accepted imports),
// then NRej rejected blocks of one kind on the head, then a look at / a fork from one
// of the oldest retained blocks.
type c26Long struct {
	Kind int `json:"kind"` // event code of the rejected block(s)
	NRej int `json:"nrej"` // 0..2
	Fork int `json:"fork"` // 0,1,2: position (oldest first) of the retained block that is queried and forked from
}

// what the harness knows about a block of the chain (only from the node's answers)
type c26Node struct {
	hash   types.HeaderHash
	parent types.HeaderHash
	slot   types.TimeSlot
	root   types.StateRoot
	nPre   int
}

type c26Step struct {
	ev       int
	block    types.Block
	hash     types.HeaderHash
	accepted bool
	root     types.StateRoot
	err      string
	// after the step
	head       types.HeaderHash
	headDigest string
	headRoot   types.StateRoot
	getErr     string
}

func c26CopyBlock(b types.Block) types.Block {
	c := b
	c.Extrinsic.Tickets = append(types.TicketsExtrinsic(nil), b.Extrinsic.Tickets...)
	c.Extrinsic.Preimages = nil
	for _, p := range b.Extrinsic.Preimages {
		c.Extrinsic.Preimages = append(c.Extrinsic.Preimages, types.Preimage{Requester: p.Requester, Blob: append(types.ByteSequence(nil), p.Blob...)})
	}
	return c
}

func c26Digest(kvs types.StateKeyVals) (string, types.StateRoot) {
	cp := c26CopyKVs(kvs)
	sort.Slice(cp, func(i, j int) bool { return bytes.Compare(cp[i].Key[:], cp[j].Key[:]) < 0 })
	var buf bytes.Buffer
	for _, kv := range cp {
		buf.Write(kv.Key[:])
		fmt.Fprintf(&buf, "%d:", len(kv.Value))
		buf.Write(kv.Value)
	}
	d := hash.Blake2bHash(buf.Bytes())
	return fmt.Sprintf("%d/%x", len(cp), d[:12]), m.MerklizationSerializedState(cp)
}

type c26Runner struct {
	baseStep   *c26Step // the start head's own block when it is not the genesis (it can be re-sent)
	initDigest string
	g        *c26Genesis
	svc      *FuzzServiceStub
	nodes    map[types.HeaderHash]*c26Node
	head     *c26Node
	imports  uint64
}

func c26NewNode(g *c26Genesis, base int) (*c26Runner, types.StateRoot, error) {
	c26ResetGlobals()
	rn := &c26Runner{g: g, svc: &FuzzServiceStub{}, nodes: map[types.HeaderHash]*c26Node{}}
	root, err := rn.svc.SetState(g.header, c26CopyKVs(g.keyvals), nil)
	if err != nil {
		return nil, root, err
	}
	gen := &c26Node{hash: g.hash, slot: 0, root: root}
	rn.nodes[g.hash] = gen
	rn.head = gen
	if base == 1 {
		// one valid block on genesis, so that the head has a non-empty recent history
		// (beta.history[last].state_root is what the STF writes first, in place)
		b, hh, err := g.build(g.hash, root, 1, nil, c26Valid)
		if err != nil {
			return nil, root, err
		}
		st := rn.importBlock(c26EvChildEmpty, b, hh, 0)
		if !st.accepted {
			return nil, root, fmt.Errorf("base block rejected on a fresh node: %s", st.err)
		}
		rn.imports = 0
		rn.baseStep = &st
	}
	kvs, err := rn.svc.GetState(rn.head.hash)
	if err != nil {
		return nil, root, err
	}
	rn.initDigest, _ = c26Digest(kvs)
	return rn, rn.head.root, nil
}

// importBlock sends one block and records what the node answers.
func (rn *c26Runner) importBlock(ev int, b types.Block, hh types.HeaderHash, nPre int) c26Step {
	st := c26Step{ev: ev, block: b, hash: hh}
	root, err := rn.svc.ImportBlock(c26CopyBlock(b))
	rn.imports++
	if err == nil {
		st.accepted, st.root = true, root
		n := &c26Node{hash: hh, parent: b.Header.Parent, slot: b.Header.Slot, root: root, nPre: nPre}
		rn.nodes[hh] = n
		rn.head = n
	} else {
		st.err = err.Error()
	}
	st.head = rn.head.hash
	kvs, gerr := rn.svc.GetState(rn.head.hash)
	if gerr != nil {
		st.getErr = gerr.Error()
	} else {
		st.headDigest, st.headRoot = c26Digest(kvs)
	}
	return st
}

func c26NPre(b types.Block, parentNPre int) int {
	if len(b.Extrinsic.Preimages) > 0 {
		return parentNPre + len(b.Extrinsic.Preimages)
	}
	return parentNPre
}

type c26InitInfo struct {
	hash   types.HeaderHash
	root   types.StateRoot
	digest string
}

// head of the node before the first event of the last c26RunA
var c26Init c26InitInfo

// c26RunA runs the whole event sequence on a fresh node, building each block from
// the node's earlier answers. ok=false: an event was not applicable.
func c26RunA(g *c26Genesis, base int, seq []int) (steps []c26Step, applicable bool, imports uint64, err error) {
	rn, _, err := c26NewNode(g, base)
	if err != nil {
		return nil, false, 0, err
	}
	c26Init = c26InitInfo{hash: rn.head.hash, root: rn.head.root, digest: rn.initDigest}
	var lastRejected, lastAccepted *c26Step
	// the start head counts as the last accepted block: re-sending the current head must
	// be possible as the very first event
	lastAccepted = rn.baseStep
	for _, ev := range seq {
		head := rn.head
		var b types.Block
		var hh types.HeaderHash
		var nPre int
		var berr error
		switch ev {
		case c26EvChildEmpty:
			b, hh, berr = g.build(head.hash, head.root, head.slot+1, nil, c26Valid)
			nPre = head.nPre
		case c26EvChildPre:
			b, hh, berr = g.build(head.hash, head.root, head.slot+1, g.blobs[head.nPre], c26Valid)
			nPre = head.nPre + 1
		case c26EvSibling:
			if head.hash == g.hash {
				return nil, false, rn.imports, nil
			}
			par := rn.nodes[head.parent]
			b, hh, berr = g.build(par.hash, par.root, head.slot+1, nil, c26Valid)
			nPre = par.nPre
		case c26EvBadSlot:
			b, hh, berr = g.build(head.hash, head.root, head.slot, nil, c26Valid)
		case c26EvBadRoot:
			b, hh, berr = g.build(head.hash, head.root, head.slot+1, nil, c26BadStateRoot)
		case c26EvBadXHash:
			b, hh, berr = g.build(head.hash, head.root, head.slot+1, g.blobs[head.nPre], c26BadExtrinsicHash)
		case c26EvBadSeal:
			b, hh, berr = g.build(head.hash, head.root, head.slot+1, nil, c26BadSeal)
		case c26EvWrongAuthor:
			b, hh, berr = g.build(head.hash, head.root, head.slot+1, nil, c26WrongAuthor)
		case c26EvBadPreOrder:
			b, hh, berr = g.buildTwoPreimages(head.hash, head.root, head.slot+1, head.nPre)
		case c26EvSiblingBadSeal:
			if head.hash == g.hash {
				return nil, false, rn.imports, nil
			}
			par := rn.nodes[head.parent]
			b, hh, berr = g.build(par.hash, par.root, head.slot+1, nil, c26BadSeal)
		case c26EvBadTicket:
			var t types.TicketEnvelope
			for i := range t.Signature {
				t.Signature[i] = byte(0xA0 + i%7)
			}
			b, hh, berr = g.buildExt(head.hash, head.root, head.slot+1, types.Extrinsic{Tickets: types.TicketsExtrinsic{t}}, c26Valid)
		case c26EvPreUnneeded:
			b, hh, berr = g.build(head.hash, head.root, head.slot+1, []byte{0xEE, 0x01, 0x02, byte(head.slot)}, c26Valid)
		case c26EvResendRejected:
			if lastRejected == nil {
				return nil, false, rn.imports, nil
			}
			b, hh, nPre = c26CopyBlock(lastRejected.block), lastRejected.hash, 0
		case c26EvResendAccepted:
			if lastAccepted == nil {
				return nil, false, rn.imports, nil
			}
			b, hh, nPre = c26CopyBlock(lastAccepted.block), lastAccepted.hash, rn.nodes[lastAccepted.hash].nPre
		}
		if berr != nil {
			return nil, false, rn.imports, berr
		}
		st := rn.importBlock(ev, b, hh, nPre)
		steps = append(steps, st)
		sp := &steps[len(steps)-1]
		if st.accepted {
			lastAccepted = sp
		} else {
			lastRejected = sp
		}
		// the pointers must survive the append: re-take them after the loop body
		if lastAccepted != nil {
			for i := range steps {
				if steps[i].hash == lastAccepted.hash && steps[i].accepted {
					lastAccepted = &steps[i]
				}
			}
		}
		if lastRejected != nil {
			for i := len(steps) - 1; i >= 0; i-- {
				if !steps[i].accepted {
					lastRejected = &steps[i]
					break
				}
			}
		}
	}
	return steps, true, rn.imports, nil
}

// two solicited preimages in descending order (the extrinsic must be ordered)
func (g *c26Genesis) buildTwoPreimages(parentHash types.HeaderHash, parentRoot types.StateRoot, slot types.TimeSlot, nPre int) (types.Block, types.HeaderHash, error) {
	b1, b2 := g.blobs[nPre], g.blobs[nPre+1]
	if bytes.Compare(b1, b2) < 0 {
		b1, b2 = b2, b1
	}
	return g.buildExt(parentHash, parentRoot, slot, types.Extrinsic{Preimages: types.PreimagesExtrinsic{{Requester: c26Service, Blob: b1}, {Requester: c26Service, Blob: b2}}}, c26Valid)
}

// c26Replay sends the given blocks to a fresh node.
func c26Replay(g *c26Genesis, base int, blocks []c26Step) ([]c26Step, uint64, error) {
	rn, _, err := c26NewNode(g, base)
	if err != nil {
		return nil, 0, err
	}
	var out []c26Step
	for _, s := range blocks {
		out = append(out, rn.importBlock(s.ev, s.block, s.hash, 0))
	}
	return out, rn.imports, nil
}

func c26SeqString(seq []int) string {
	var p []string
	for _, e := range seq {
		p = append(p, c26EventNames[e])
	}
	return strings.Join(p, " -> ")
}

func c26Outcome(s c26Step) string {
	if s.accepted {
		return fmt.Sprintf("accepted root=%x", s.root[:8])
	}
	return fmt.Sprintf("rejected (%s)", s.err)
}

func c26ErrClass(s string) string {
	if i := strings.Index(s, "0x"); i >= 0 {
		s = s[:i]
	}
	if len(s) > 48 {
		s = s[:48]
	}
	return s
}

// c26Check runs one sequence with the differential oracle.
func c26Check(r *vlib.Run, g *c26Genesis, c c26Case) bool {
	var steps []c26Step
	var ok bool
	var imports uint64
	var err error
	panicked, msg, site := vlib.Guard(func() { steps, ok, imports, err = c26RunA(g, c.Base, c.Seq) })
	if panicked {
		r.Violation(site, "go-panic", "last="+c26EventNames[c.Seq[len(c.Seq)-1]], fmt.Sprintf("sequence %s: %s", c26SeqString(c.Seq), msg), c)
		return true
	}
	if err != nil {
		r.T.Fatalf("harness: %v", err)
	}
	if !ok {
		return false
	}
	r.TransitionN(imports)
	r.Eval()
	seqs := fmt.Sprintf("[base %d] %s", c.Base, c26SeqString(c.Seq))
	init := c26Init

	// (1) after every step: GetState(head) is retrievable, merklizes to the root the node
	// reported for the head, and after a rejection equals what it was before the step
	prevDigest, prevHead := init.digest, init.hash
	roots := map[types.HeaderHash]types.StateRoot{init.hash: init.root}
	var lastRejectedKind string
	for i, s := range steps {
		if s.accepted {
			roots[s.hash] = s.root
		}
		name := c26EventNames[s.ev]
		if s.getErr != "" {
			r.Violation("fuzz.GetState", "head-state-unavailable", "after="+name, fmt.Sprintf("%s: step %d %s, then GetState(head) fails: %s", seqs, i+1, c26Outcome(s), s.getErr), c)
		} else {
			if want, known := roots[s.head]; known && s.headRoot != want {
				r.Violation("fuzz.GetState", "head-state-does-not-match-reported-root", fmt.Sprintf("step-accepted=%v", s.accepted), fmt.Sprintf("%s: step %d %s; GetState(head) merklizes to %x, ImportBlock reported %x", seqs, i+1, c26Outcome(s), s.headRoot[:8], want[:8]), c)
			}
			if !s.accepted && (s.head != prevHead || s.headDigest != prevDigest) {
				r.Violation("fuzz.ImportBlock", "head-state-changed-by-rejected-block", "rejected="+name, fmt.Sprintf("%s: step %d %s; GetState(head) was %s, now %s", seqs, i+1, c26Outcome(s), prevDigest, s.headDigest), c)
			}
		}
		prevDigest, prevHead = s.headDigest, s.head
		r.State(fmt.Sprintf("%d|%x|%s|%s", c.Base, s.head[:8], s.headDigest, lastRejectedKind))
		if !s.accepted {
			lastRejectedKind = name
		}
		r.Class(fmt.Sprintf("%s accepted=%v err=%s", name, s.accepted, c26ErrClass(s.err)))
	}

	// (2) every block sent after a rejection gives the same result on a node that never
	// saw the rejected blocks (fresh SetState + the blocks accepted so far + this block)
	seenRejection := false
	diverged := false
	rejectedKinds := ""
	for i, s := range steps {
		if seenRejection {
			var pre []c26Step
			for _, q := range steps[:i] {
				if q.accepted {
					pre = append(pre, q)
				}
			}
			pre = append(pre, s)
			var rep []c26Step
			var n uint64
			panicked, msg, site := vlib.Guard(func() { rep, n, err = c26Replay(g, c.Base, pre) })
			if panicked {
				r.Violation(site, "go-panic", "clean-node;last="+c26EventNames[s.ev], fmt.Sprintf("%s: clean node, step %d: %s", seqs, i+1, msg), c)
				return true
			}
			if err != nil {
				r.T.Fatalf("harness: %v", err)
			}
			r.TransitionN(n)
			clean := rep[len(rep)-1]
			key := "then=" + c26EventNames[s.ev]
			_ = rejectedKinds
			prefixOK := true
			for j, q := range rep[:len(rep)-1] {
				if !q.accepted {
					prefixOK = false
					r.Violation("fuzz.ImportBlock", "accepted-block-rejected-on-replay", "", fmt.Sprintf("%s: clean node rejects previously accepted block %d: %s", seqs, j+1, q.err), c)
				}
			}
			if !prefixOK {
				break
			}
			if clean.accepted != s.accepted {
				diverged = true
				r.Violation("fuzz.ImportBlock", "accept-reject-differs-from-clean-node", key,
					fmt.Sprintf("%s: step %d (%s) %s on the node that saw the rejected block(s) [%s], but %s on a fresh node given only the accepted blocks", seqs, i+1, c26EventNames[s.ev], c26Outcome(s), rejectedKinds, c26Outcome(clean)), c)
			} else if s.accepted && (clean.root != s.root || clean.headDigest != s.headDigest) {
				r.Violation("fuzz.ImportBlock", "state-differs-from-clean-node", key,
					fmt.Sprintf("%s: step %d (%s) %s / head state %s on the node that saw the rejected block(s); %s / %s on a fresh node given only the accepted blocks", seqs, i+1, c26EventNames[s.ev], c26Outcome(s), s.headDigest, c26Outcome(clean), clean.headDigest), c)
			}
			if diverged {
				// the node's accepted history can no longer be reproduced on a clean node:
				// later steps of this sequence are downstream of the divergence just reported
				break
			}
		}
		if !s.accepted {
			seenRejection = true
			if !strings.Contains(rejectedKinds, c26EventNames[s.ev]) {
				if rejectedKinds != "" {
					rejectedKinds += "+"
				}
				rejectedKinds += c26EventNames[s.ev]
			}
		}
	}

	// (3) the same block sequence on a second fresh node gives identical answers
	var again []c26Step
	var n uint64
	panicked, msg, site = vlib.Guard(func() { again, n, err = c26Replay(g, c.Base, steps) })
	if panicked {
		r.Violation(site, "go-panic", "second-run", fmt.Sprintf("%s: second run: %s", seqs, msg), c)
		return true
	}
	if err != nil {
		r.T.Fatalf("harness: %v", err)
	}
	r.TransitionN(n)
	for i := range steps {
		a, b := steps[i], again[i]
		if a.accepted != b.accepted || a.root != b.root || a.headDigest != b.headDigest {
			r.Violation("fuzz.ImportBlock", "two-fresh-runs-differ", "step="+c26EventNames[a.ev],
				fmt.Sprintf("%s: step %d first run %s / %s, second run %s / %s", seqs, i+1, c26Outcome(a), a.headDigest, c26Outcome(b), b.headDigest), c)
			break
		}
	}
	return true
}

// ---------- long-history pass ----------

type c26LongOut struct {
	built      bool
	rejected   []string // outcome of each rejected block
	getState   string   // GetState(fork block): digest/root or error
	fork       c26Step  // import of a new valid child of the fork block
	headAfter  string
	imports    uint64
}

var c26InvalidKinds = []int{c26EvBadSlot, c26EvBadRoot, c26EvBadXHash, c26EvBadSeal, c26EvWrongAuthor, c26EvBadPreOrder, c26EvBadTicket, c26EvPreUnneeded}

// c26BuildInvalid builds one invalid child of the head (same constructions as c26RunA).
func c26BuildInvalid(g *c26Genesis, head *c26Node, ev int) (types.Block, types.HeaderHash, error) {
	switch ev {
	case c26EvBadSlot:
		return g.build(head.hash, head.root, head.slot, nil, c26Valid)
	case c26EvBadRoot:
		return g.build(head.hash, head.root, head.slot+1, nil, c26BadStateRoot)
	case c26EvBadXHash:
		return g.build(head.hash, head.root, head.slot+1, g.blobs[head.nPre], c26BadExtrinsicHash)
	case c26EvBadSeal:
		return g.build(head.hash, head.root, head.slot+1, nil, c26BadSeal)
	case c26EvWrongAuthor:
		return g.build(head.hash, head.root, head.slot+1, nil, c26WrongAuthor)
	case c26EvBadPreOrder:
		return g.buildTwoPreimages(head.hash, head.root, head.slot+1, head.nPre)
	case c26EvBadTicket:
		var t types.TicketEnvelope
		for i := range t.Signature {
			t.Signature[i] = byte(0xA0 + i%7)
		}
		return g.buildExt(head.hash, head.root, head.slot+1, types.Extrinsic{Tickets: types.TicketsExtrinsic{t}}, c26Valid)
	case c26EvPreUnneeded:
		return g.build(head.hash, head.root, head.slot+1, []byte{0xEE, 0x01, 0x02, byte(head.slot)}, c26Valid)
	}
	return types.Block{}, types.HeaderHash{}, fmt.Errorf("not an invalid kind: %d", ev)
}

// c26RunLong: fresh node; 24 accepted imports, all in epoch 0 (A = child of genesis at
// slot 1, the oldest retained block; chain C2..C11 at slots 2..11; 8 more children of C2;
// 5 more children of C3); then the rejected blocks; then GetState of the fork block and
// the import of a new valid child of it.
func c26RunLong(g *c26Genesis, l c26Long) (out c26LongOut, err error) {
	rn, _, err := c26NewNode(g, 0)
	if err != nil {
		return out, err
	}
	must := func(parent *c26Node, slot types.TimeSlot, blob []byte) (*c26Node, error) {
		b, hh, err := g.build(parent.hash, parent.root, slot, blob, c26Valid)
		if err != nil {
			return nil, err
		}
		nPre := parent.nPre
		if blob != nil {
			nPre++
		}
		st := rn.importBlock(c26EvChildEmpty, b, hh, nPre)
		if !st.accepted {
			return nil, fmt.Errorf("history block (parent slot %d, slot %d) rejected: %s", parent.slot, slot, st.err)
		}
		return rn.nodes[hh], nil
	}
	chain := []*c26Node{rn.head}
	for slot := types.TimeSlot(1); slot <= 11; slot++ {
		n, err := must(chain[len(chain)-1], slot, nil)
		if err != nil {
			return out, err
		}
		chain = append(chain, n)
	}
	a, c2, c3 := chain[1], chain[2], chain[3]
	for slot := types.TimeSlot(4); slot <= 11; slot++ { // 8 more children of C2 (C3 is its child at slot 3)
		if _, err := must(c2, slot, nil); err != nil {
			return out, err
		}
	}
	for slot := types.TimeSlot(5); slot <= 9; slot++ { // 5 more children of C3 (C4 is its child at slot 4)
		if _, err := must(c3, slot, nil); err != nil {
			return out, err
		}
	}
	out.built = true
	for i := 0; i < l.NRej; i++ {
		b, hh, err := c26BuildInvalid(g, rn.head, l.Kind)
		if err != nil {
			return out, err
		}
		st := rn.importBlock(l.Kind, b, hh, 0)
		out.rejected = append(out.rejected, c26Outcome(st))
		if st.accepted {
			return out, fmt.Errorf("invalid block of kind %s accepted in the long-history pass", c26EventNames[l.Kind])
		}
	}
	forkFrom := []*c26Node{a, c2, c3}[l.Fork]
	if kvs, gerr := rn.svc.GetState(forkFrom.hash); gerr != nil {
		out.getState = "error: " + c26ErrClass(gerr.Error())
	} else {
		d, root := c26Digest(kvs)
		out.getState = fmt.Sprintf("%s root=%x matches-import-root=%v", d, root[:8], root == forkFrom.root)
	}
	// a new valid child of the fork block: for A at slot 3 (C2 is its child at slot 2),
	// for C2 / C3 a child carrying a preimage at slot 3 / 4 (differs from C3 / C4)
	var b types.Block
	var hh types.HeaderHash
	if l.Fork == 0 {
		b, hh, err = g.build(forkFrom.hash, forkFrom.root, 3, nil, c26Valid)
	} else {
		b, hh, err = g.build(forkFrom.hash, forkFrom.root, forkFrom.slot+1, g.blobs[0], c26Valid)
	}
	if err != nil {
		return out, err
	}
	out.fork = rn.importBlock(c26EvSibling, b, hh, 0)
	out.headAfter = out.fork.headDigest
	out.imports = rn.imports
	return out, nil
}

// c26CheckLong: the node that saw NRej rejected blocks must answer the GetState and the
// fork import exactly like a node that never saw them (the same history, NRej = 0).
func c26CheckLong(r *vlib.Run, g *c26Genesis, c c26Case) {
	l := *c.Long
	var got, clean c26LongOut
	var err1, err2 error
	panicked, msg, site := vlib.Guard(func() {
		got, err1 = c26RunLong(g, l)
		clean, err2 = c26RunLong(g, c26Long{Kind: l.Kind, NRej: 0, Fork: l.Fork})
	})
	name := fmt.Sprintf("[long history: 24 accepted imports, then %d x %s on the head, then fork from retained position %d]", l.NRej, c26EventNames[l.Kind], l.Fork)
	if panicked {
		r.Violation(site, "go-panic", "long-history", name+": "+msg, c)
		return
	}
	if err1 != nil || err2 != nil {
		r.T.Fatalf("harness: long-history pass: %v / %v", err1, err2)
	}
	r.TransitionN(got.imports + clean.imports)
	r.Eval()
	r.Class(fmt.Sprintf("long-history nrej=%d fork-accepted=%v", l.NRej, got.fork.accepted))
	key := "long-history" // one signature per kind of divergence; the case carries kind / count / fork position
	if got.getState != clean.getState {
		r.Violation("fuzz.GetState", "retained-state-differs-from-clean-node", key,
			fmt.Sprintf("%s: GetState(fork block) = %s; on a node that never saw the rejected blocks: %s", name, got.getState, clean.getState), c)
	}
	if got.fork.accepted != clean.fork.accepted {
		r.Violation("fuzz.ImportBlock", "accept-reject-differs-from-clean-node", key,
			fmt.Sprintf("%s: new valid child of the fork block %s; on a node that never saw the rejected blocks: %s", name, c26Outcome(got.fork), c26Outcome(clean.fork)), c)
	} else if got.fork.root != clean.fork.root || got.headAfter != clean.headAfter {
		r.Violation("fuzz.ImportBlock", "state-differs-from-clean-node", key,
			fmt.Sprintf("%s: fork child %s / %s; clean node %s / %s", name, c26Outcome(got.fork), got.headAfter, c26Outcome(clean.fork), clean.headAfter), c)
	}
}

func TestVerif_C26(t *testing.T) {
	r := vlib.Start(t, "C26")
	defer r.Finish()
	c26Silence()
	c26ResetGlobals()
	g, err := c26BuildGenesis()
	if err != nil {
		t.Fatalf("harness: genesis: %v", err)
	}

	// self-test: genesis is retrievable and two rebuilds give the same canonical state;
	// valid children (empty, with a preimage) are accepted on a clean node
	rn, root0, err := c26NewNode(g, 0)
	if err != nil {
		t.Fatalf("harness: SetState: %v", err)
	}
	kv0, err := rn.svc.GetState(g.hash)
	if err != nil {
		t.Fatalf("harness: GetState(genesis): %v", err)
	}
	genesisDigest, genesisRoot := c26Digest(kv0)
	if genesisRoot != root0 {
		t.Fatalf("harness: genesis GetState merklizes to %x, SetState reported %x", genesisRoot[:8], root0[:8])
	}
	for base := 0; base < 2; base++ {
		a, ra, err1 := c26NewNode(g, base)
		b, rb, err2 := c26NewNode(g, base)
		if err1 != nil || err2 != nil || a.initDigest != b.initDigest || ra != rb || (base == 0 && a.initDigest != genesisDigest) {
			t.Fatalf("harness self-test: two rebuilds of base %d differ (%v %v)", base, err1, err2)
		}
	}
	// (the block builder must be able to extend the chain; whether a fork block is
	// accepted is the node's business and only compared differentially)
	if st, ok, _, err := c26RunA(g, 0, []int{c26EvChildEmpty, c26EvChildPre, c26EvChildEmpty}); err != nil || !ok || !st[0].accepted || !st[1].accepted || !st[2].accepted {
		t.Fatalf("harness self-test: valid children are not accepted on a clean node: %+v %v", st, err)
	}

	var rc c26Case
	if r.IsReplay(&rc) {
		if rc.Long != nil {
			c26CheckLong(r, g, rc)
		} else {
			c26Check(r, g, rc)
		}
		return
	}

	// Every sequence is run to the end and compared step by step; nothing is merged or
	// deduplicated across different rejection histories (r.State only counts).
	// base 1 (head with a non-empty recent history): depth 3 quick / 4 thorough;
	// base 0 (head = genesis, empty history): depth 3 in both tiers.
	depth := vlib.Pick(r, 3, 4)
	nEv := len(c26EventNames)
	idx := uint64(0)
	for base := 0; base < 2; base++ {
		d := 3
		if base == 1 {
			d = depth
		}
		vlib.Sequences(nEv, d, func(s []int) {
			idx++
			if !r.Mine(idx) || r.Expired() {
				return
			}
			c := c26Case{Base: base, Seq: append([]int(nil), s...)}
			if c26Check(r, g, c) {
				r.Space(1)
				r.Trace()
				if r.WantSample() && idx%211 == 3 {
					r.Sample(map[string]string{"sequence": fmt.Sprintf("[base %d] %s", base, c26SeqString(c.Seq))})
				}
			}
		})
	}
	// long-history pass (retention window of the fuzz target, JAM_FUZZ set)
	nRejMax := 2
	for _, kind := range c26InvalidKinds {
		for nrej := 0; nrej <= nRejMax; nrej++ {
			if nrej == 0 && kind != c26InvalidKinds[0] {
				continue // without rejected blocks the kind does not matter
			}
			for fork := 0; fork < 3; fork++ {
				idx++
				if !r.Mine(idx) || r.Expired() {
					continue
				}
				r.Space(1)
				c26CheckLong(r, g, c26Case{Long: &c26Long{Kind: kind, NRej: nrej, Fork: fork}})
				r.Trace()
			}
		}
	}
	r.Extra("depth", depth)
	r.Extra("events", nEv)
}
