package fuzz

// C11 — codec round trip and determinism for every Encodable+Decodable type of
// internal/types and the fuzz-protocol messages. Bounded-exhaustive: every value
// within <= 1 (quick) / <= 2 (thorough) deviations of the minimal value of each
// type (see cgen_common_test.go), every insertion order of maps with 2..3 keys,
// every ordered pair of 12 representative values through the encoder pool.

import (
	"bytes"
	"fmt"
	"reflect"
	"sort"
	"strings"
	"testing"

	"github.com/New-JAMneration/JAM-Protocol/internal/types"
	"github.com/New-JAMneration/JAM-Protocol/internal/zzverif/vlib"
)

type c11Case struct {
	Mode  string    `json:"mode"` // "rt" | "order" | "pool"
	Type  string    `json:"type,omitempty"`
	Devs  []cgenDev `json:"devs,omitempty"`
	HSM   bool      `json:"hsm,omitempty"`
	Keys  []int     `json:"keys,omitempty"`  // order mode: key indices in insertion order
	A     int       `json:"a,omitempty"`     // pool mode
	B     int       `json:"b,omitempty"`     // pool mode
}

type c11Fail struct {
	kind, key, detail string
}

var c11Trail = []byte{0xA5, 0x01, 0x00, 0xFF, 0x80, 0x00, 0x00, 0x00, 0x00}

// c11Check: one round trip of *ptr through ct. nil = held.
func c11Check(ct *cgenType, ptr reflect.Value) (*c11Fail, []byte) {
	var enc []byte
	var err error
	if p, msg, site := vlib.Guard(func() { enc, err = ct.Enc(ptr) }); p {
		return &c11Fail{"go-panic", "encode: " + cgenPanicClass(msg), fmt.Sprintf("Encode panicked in %s: %s", site, msg)}, nil
	}
	if err != nil {
		return &c11Fail{"encode-error", cgenErrClass(err), "a well-formed value cannot be encoded: " + err.Error()}, nil
	}
	for pass, in := range [][]byte{enc, append(append([]byte(nil), enc...), c11Trail...)} {
		sfx := ""
		if pass == 1 {
			if ct.RestOfInput {
				break
			}
			sfx = " (followed by other data)"
		}
		var out reflect.Value
		var n int
		if p, msg, site := vlib.Guard(func() { out, n, err = ct.Dec(in) }); p {
			return &c11Fail{"go-panic", "decode: " + cgenPanicClass(msg), fmt.Sprintf("Decode of the encoding %s%s panicked in %s: %s", c11Hex(enc), sfx, site, msg)}, enc
		}
		if err != nil {
			if pass == 1 && n < 0 {
				// exact-slice API (UnmarshalBinary): trailing data is a different input, not this property
				continue
			}
			return &c11Fail{"decode-error", "valid encoding rejected" + sfx, fmt.Sprintf("the encoding %s%s is rejected: %v", c11Hex(enc), sfx, err)}, enc
		}
		if n >= 0 && n != len(enc) {
			rel := "consumed<len"
			if n > len(enc) {
				rel = "consumed>len"
			}
			return &c11Fail{"consumed-mismatch", rel + sfx, fmt.Sprintf("decoding the %d-byte encoding %s%s consumed %d bytes", len(enc), c11Hex(enc), sfx, n)}, enc
		}
		if d := cgenDiff(ptr.Elem(), out.Elem(), ""); d != "" {
			return &c11Fail{"value-mismatch", "field " + d + sfx, fmt.Sprintf("decode(encode(x)) differs from x at %s (encoding %s%s)", d, c11Hex(enc), sfx)}, enc
		}
	}
	return nil, enc
}

func c11Hex(b []byte) string { return cgenHex(b) }

func c11FatalKey(why string) string {
	if i := strings.Index(why, " in "); i > 0 {
		return why[:i]
	}
	return why
}

// c11Culprit: the innermost sub-value that fails its own round trip.
func c11Culprit(ct *cgenType, ptr reflect.Value, f *c11Fail) (*cgenType, *c11Fail) {
	for depth := 0; depth < 12; depth++ {
		var subs []cgenSubVal
		cgenSubs(ptr.Elem(), "", true, &subs)
		found := false
		for _, sv := range subs {
			if sf, _ := c11Check(sv.ct, sv.ptr); sf != nil {
				ct, ptr, f, found = sv.ct, sv.ptr, sf, true
				break
			}
		}
		if !found {
			break
		}
	}
	return ct, f
}

func c11RunRT(r *vlib.Run, ct *cgenType, devs []cgenDev, v reflect.Value, hsm bool) {
	use := ct
	if hsm {
		use = cgenCodecTypeHSM(ct.Name, ct.T, cgenHSMHit)
	}
	r.Eval()
	r.Transition()
	r.Space(1)
	f, enc := c11Check(use, v.Addr())
	if f == nil {
		// second encode must give the same bytes (same encoder instance reused is the pool section)
		enc2, _ := use.Enc(v.Addr())
		if !bytes.Equal(enc, enc2) {
			f = &c11Fail{"nondeterministic-encoding", "repeat", fmt.Sprintf("two encodings of the same value differ: %s vs %s", c11Hex(enc), c11Hex(enc2))}
		}
	}
	if f == nil {
		r.Class(ct.Name + "|ok")
		if r.WantSample() {
			r.Sample(map[string]interface{}{"type": ct.Name, "devs": devs, "encoding": c11Hex(enc)})
		}
		return
	}
	site, sf := ct, f
	if !hsm {
		site, sf = c11Culprit(ct, v.Addr(), f)
	} else if pf, _ := c11Check(ct, v.Addr()); pf != nil {
		// the same value already fails without the lookup hit: reported by the plain pass
		r.Class(ct.Name + "|" + pf.kind)
		return
	}
	r.Class(ct.Name + "|" + sf.kind)
	name := site.Name
	if hsm {
		name += "[segment-root lookup hit]"
	}
	r.Violation(name, sf.kind, sf.key, fmt.Sprintf("%s (found in a value of %s, deviations %v)", sf.detail, ct.Name, devs),
		c11Case{Mode: "rt", Type: ct.Name, Devs: devs, HSM: hsm})
}

// types whose values contain an ImportSpec: second pass with a HashSegmentMap hit.
var c11HSMFamily = map[string]bool{"types.ImportSpec": true, "types.WorkItem": true, "types.WorkPackage": true, "types.WorkPackageBundle": true}

// ---- map insertion order ----

const c11OrderReps = 256

func c11MapTypes() []*cgenType {
	var out []*cgenType
	for _, ct := range cgenAll {
		if ct.T.Kind() == reflect.Map {
			out = append(out, ct)
		}
	}
	return out
}

func c11BuildMap(ct *cgenType, keys []int) reflect.Value {
	dom := cgenKeyDomain(ct.T)
	m := reflect.New(ct.T)
	m.Elem().Set(reflect.MakeMap(ct.T))
	for _, ki := range keys {
		b := &cgenBuilder{dev: map[string]int{}}
		ev := reflect.New(ct.T.Elem()).Elem()
		b.fill(ev, "", cgenCtx{owner: ct.T})
		m.Elem().SetMapIndex(dom[ki], ev)
	}
	return m
}

func c11RunOrder(r *vlib.Run, ct *cgenType, subset []int) {
	// reference: the subset in ascending key-index order
	var ref []byte
	vlib.Permutations(len(subset), func(p []int) {
		keys := make([]int, len(subset))
		for i, x := range p {
			keys[i] = subset[x]
		}
		r.Eval()
		r.Space(1)
		bad := ""
		for rep := 0; rep < c11OrderReps && bad == ""; rep++ {
			m := c11BuildMap(ct, keys)
			var enc []byte
			var err error
			pn, msg, _ := vlib.Guard(func() { enc, err = ct.Enc(m) })
			r.Transition()
			switch {
			case pn:
				bad = "panic " + msg
			case err != nil:
				bad = "error " + err.Error()
			case ref == nil:
				ref = enc
			case !bytes.Equal(ref, enc):
				bad = fmt.Sprintf("insertion order %v gives %s, another order/iteration gave %s", keys, c11Hex(enc), c11Hex(ref))
			}
		}
		if bad == "" {
			r.Class("order|" + ct.Name + "|stable")
			return
		}
		r.Class("order|" + ct.Name + "|unstable")
		r.Violation(ct.Name, "order-dependent-encoding", "keys>=2",
			"the encoding of a map depends on insertion/iteration order: "+bad, c11Case{Mode: "order", Type: ct.Name, Keys: append([]int(nil), keys...)})
	})
}

// ---- pooled encoders ----

type c11Rep struct {
	typ  string
	devs []cgenDev
	hsm  bool // encoder gets the HashSegmentMap (needed by ImportSpec)
}

var c11Reps = []c11Rep{
	{"types.U32", []cgenDev{{"", 2}}, false},
	{"types.ByteSequence", []cgenDev{{"~", 3}}, false},
	{"types.Header", nil, false},
	{"types.Header", []cgenDev{{".EpochMark#some", 1}}, false},
	{"types.WorkReport", []cgenDev{{".Results#len", 1}}, false},
	{"types.Block", nil, false},
	{"types.WorkItem", []cgenDev{{".ImportSegments#len", 1}, {".ImportSegments[0].TreeRoot", 1}}, true},
	{"types.WorkItem", []cgenDev{{".ImportSegments#len", 1}, {".ImportSegments[0].TreeRoot", 1}}, false},
	{"types.ServicesStatistics", []cgenDev{{"#keys", 4}}, false},
	{"types.StateKeyVals", []cgenDev{{"#len", 2}, {"[1].Value~", 3}}, false},
	{"types.TicketsOrKeys", []cgenDev{{"#tag", 1}}, false},
	{"types.Extrinsic", []cgenDev{{".Preimages#len", 1}, {".Preimages[0].Blob~", 2}}, false},
}

func c11RepValue(i int) (reflect.Value, c11Rep) {
	rp := c11Reps[i]
	ct := cgenByName[rp.typ]
	v, _ := cgenBuild(ct.T, rp.devs, ct.Ctx)
	return v.Addr(), rp
}

func c11Fresh(p reflect.Value, hsm bool) ([]byte, string) {
	e := types.NewEncoder()
	if hsm {
		e.SetHashSegmentMap(cgenHSMHit)
	}
	b, err := e.Encode(p.Interface())
	return b, cgenErrClass(err)
}

func c11RunPool(r *vlib.Run, a, b int) {
	r.Eval()
	r.Space(1)
	pa, ra := c11RepValue(a)
	pb, rb := c11RepValue(b)
	fa, fae := c11Fresh(pa, ra.hsm)
	fb, fbe := c11Fresh(pb, rb.hsm)
	var ea, eb []byte
	var eae, ebe string
	var eaCopy []byte
	pn, msg, site := vlib.Guard(func() {
		e1 := types.GetEncoder()
		if ra.hsm {
			e1.SetHashSegmentMap(cgenHSMHit)
		}
		x, err := e1.Encode(pa.Interface())
		ea, eae = x, cgenErrClass(err)
		eaCopy = append([]byte(nil), ea...)
		types.PutEncoder(e1)
		e2 := types.GetEncoder()
		if rb.hsm {
			e2.SetHashSegmentMap(cgenHSMHit)
		}
		y, err := e2.Encode(pb.Interface())
		eb, ebe = y, cgenErrClass(err)
		types.PutEncoder(e2)
	})
	r.TransitionN(4)
	c := c11Case{Mode: "pool", A: a, B: b}
	key := fmt.Sprintf("A=%s,B=%s", ra.typ, rb.typ)
	switch {
	case pn:
		r.Class("pool|panic")
		r.Violation("types.GetEncoder/PutEncoder", "go-panic", cgenPanicClass(msg), fmt.Sprintf("pooled encode panicked in %s: %s (%s)", site, msg, key), c)
	case ebe != fbe || !bytes.Equal(eb, fb):
		r.Class("pool|second-differs")
		r.Violation("types.GetEncoder/PutEncoder", "pooled-encoding-differs", "second-use",
			fmt.Sprintf("%s: a pooled encoder used for A then B gives (%s, %s) for B, a fresh encoder gives (%s, %s)", key, c11Hex(eb), ebe, c11Hex(fb), fbe), c)
	case eae != fae || !bytes.Equal(ea, fa):
		r.Class("pool|first-differs")
		r.Violation("types.GetEncoder/PutEncoder", "pooled-encoding-differs", "first-use-or-aliased",
			fmt.Sprintf("%s: the slice returned for A is %s after the encoder was reused for B; a fresh encoder gives %s (copy taken before reuse: %s)", key, c11Hex(ea), c11Hex(fa), c11Hex(eaCopy)), c)
	default:
		if fbe == "ok" {
			r.Class("pool|ok")
		} else {
			r.Class("pool|ok-error-preserved")
		}
	}
}

func TestVerif_C11(t *testing.T) {
	r := vlib.Start(t, "C11")
	defer r.Finish()
	if err := cgenInit(); err != nil {
		t.Fatal(err)
	}
	k := vlib.Pick(r, 1, 2)

	var rc c11Case
	if r.IsReplay(&rc) {
		switch rc.Mode {
		case "rt":
			ct := cgenByName[rc.Type]
			if crashed, _ := cgenProbe(); crashed[ct.Name] != "" {
				r.Violation(ct.Name, "fatal-crash", c11FatalKey(crashed[ct.Name]), "probe child died: "+crashed[ct.Name], rc)
				return
			}
			v, _ := cgenBuild(ct.T, rc.Devs, ct.Ctx)
			c11RunRT(r, ct, rc.Devs, v, rc.HSM)
		case "order":
			ct := cgenByName[rc.Type]
			s := append([]int(nil), rc.Keys...)
			sort.Ints(s)
			c11RunOrder(r, ct, s)
		case "pool":
			c11RunPool(r, rc.A, rc.B)
		}
		return
	}

	crashed, err := cgenProbe()
	if err != nil {
		t.Fatal(err)
	}
	idx := uint64(0)
	// (i) round trips
	for _, ct := range cgenAll {
		kk := k
		if why, bad := crashed[ct.Name]; bad {
			// the minimal round trip kills the process (probe child): report, do not run in-process
			idx++
			if r.Mine(idx) {
				r.Eval()
				r.Space(1)
				r.Class(ct.Name + "|fatal")
				r.Violation(ct.Name, "fatal-crash", c11FatalKey(why),
					"decode(encode(minimal value)) of "+ct.Name+" terminates the process with an unrecoverable runtime error: "+why,
					c11Case{Mode: "rt", Type: ct.Name})
			}
			continue
		}
		groups := cgenGroups(ct.T, ct.Ctx)
		var nvals, npts uint64
		for _, g := range groups {
			idx++
			if !r.Mine(idx) {
				continue
			}
			cgenEnumerateGroup(ct.T, g, kk, ct.Ctx, func(devs []cgenDev, v reflect.Value, np int) bool {
				if len(devs) == 0 {
					npts = uint64(np)
				}
				nvals++
				c11RunRT(r, ct, append([]cgenDev(nil), devs...), v, false)
				if c11HSMFamily[ct.Name] {
					c11RunRT(r, ct, append([]cgenDev(nil), devs...), v, true)
				}
				return true
			})
		}
		_ = npts
		r.Extra("sum_values."+ct.Name, nvals)
		if r.Shard == 0 {
			r.Extra("choice_points_minimal."+ct.Name, len(groups))
		}
		if len(groups) == 0 {
			t.Fatalf("C11: type %s has no values", ct.Name)
		}
	}
	// (i-b) heterogeneous collections (quick; the thorough tier's two deviations contain them): every
	// variable-length list with 2 elements / every map with 2 keys, and inside it every single deviation
	// of one element — so that one element differs from its neighbour in every way one choice point can
	// make it differ (an empty value after a non-empty one, a set optional after a nil one, …)
	if k == 1 {
		for _, ct := range cgenAll {
			if crashed[ct.Name] != "" {
				continue
			}
			_, pts0 := cgenBuild(ct.T, nil, ct.Ctx)
			for _, p := range pts0 {
				var opts []int
				var base string
				switch {
				case strings.HasSuffix(p.Path, "#len"):
					opts, base = []int{2}, strings.TrimSuffix(p.Path, "#len")
				case strings.HasSuffix(p.Path, "#keys"):
					opts, base = []int{4, 5, 6}, strings.TrimSuffix(p.Path, "#keys")
				default:
					continue
				}
				idx++
				if !r.Mine(idx) {
					continue
				}
				for _, o := range opts {
					d1 := cgenDev{p.Path, o}
					_, pts1 := cgenBuild(ct.T, []cgenDev{d1}, ct.Ctx)
					for _, q := range pts1 {
						if !(strings.HasPrefix(q.Path, base+"[") || strings.HasPrefix(q.Path, base+"{")) {
							continue
						}
						for qo := 1; qo < q.N; qo++ {
							devs := []cgenDev{d1, {q.Path, qo}}
							v, _ := cgenBuild(ct.T, devs, ct.Ctx)
							c11RunRT(r, ct, devs, v, false)
						}
					}
				}
			}
		}
	}
	// (ii) insertion orders
	for _, ct := range c11MapTypes() {
		if _, bad := crashed[ct.Name]; bad {
			continue
		}
		for _, subset := range [][]int{{0, 1}, {0, 2}, {1, 2}, {0, 1, 2}} {
			idx++
			if !r.Mine(idx) {
				continue
			}
			c11RunOrder(r, ct, subset)
		}
	}
	// (iii) encoder pool
	for a := range c11Reps {
		for b := range c11Reps {
			idx++
			if !r.Mine(idx) {
				continue
			}
			c11RunPool(r, a, b)
		}
	}
}
