package fuzz

// C14 — decoding untrusted bytes is safe: no Go panic, and the bytes allocated by
// one decode call are bounded by 1024*len(input) + 1 MiB. Inputs: the C13 mutation
// set of every valid encoding (<= 4 KiB) of the top-level decoders, plus the frame
// lattice of the fuzz-protocol reader. Cases run in a child process (see
// cgen_common_test.go) so that an input that makes the runtime abort ("out of
// memory") is attributed exactly.

import (
	"bytes"
	"encoding/binary"
	"fmt"
	"os"
	"strings"
	"testing"

	"github.com/New-JAMneration/JAM-Protocol/internal/zzverif/vlib"
)

var c14TopLevel = []string{
	"types.Block", "types.Header", "types.WorkPackage", "types.WorkReport", "types.StateKeyVals",
	"fuzz.SetState", "fuzz.PeerInfo", "fuzz.ErrorMessage", "fuzz.ImportBlock", "fuzz.GetState",
	"fuzz.StateRoot", "fuzz.State", "fuzz.Message",
}

var c14ViaMessage = map[string]bool{"fuzz.SetState": true, "fuzz.ImportBlock": true, "fuzz.GetState": true, "fuzz.StateRoot": true, "fuzz.State": true}

type c14Case struct {
	Type  string    `json:"type"`            // top-level decoder, or "frame"
	Devs  []cgenDev `json:"devs,omitempty"`  // seed
	Mut   *cgenMut  `json:"mut,omitempty"`   // mutation of the seed encoding
	Frame string    `json:"frame,omitempty"` // hex, for Type == "frame"
}

const c14Slack = 1 << 20
// c14Factor: the constant of "a constant multiple of the input length". A decoder that bounds a declared element
// count by the number of remaining input bytes (what the repaired DecodeLength does) may allocate up to
// sizeof(element) per input byte; the largest element a top-level decoder allocates is the 792-byte
// TicketEnvelope, so the constant has to be at least that. 64 (DESIGN) would flag the linear case.
const c14Factor = 1024

type c14Out struct {
	panicked bool
	msg      string
	site     string
	alloc    uint64
	err      error
}

func c14Run(ct *cgenType, w []byte) c14Out {
	var o c14Out
	in := append([]byte(nil), w...)
	o.alloc = vlib.AllocDelta(func() {
		o.panicked, o.msg, o.site = vlib.Guard(func() { _, _, o.err = ct.Dec(in) })
	})
	return o
}

func c14Over(alloc uint64, n int) bool { return alloc > c14Factor*uint64(n)+c14Slack }

type c14Runner struct {
	sink   cgenSink
	killed map[string]bool // make() sites already shown to kill the process (this shard)
	// memo for the current (unit, position)
	hUnit uint64
	hPos  int
	hSet  bool
	hHot  bool
	hSite string
}

// hotSite: is the position a declared length that reaches the allocator, and in which decoder?
func (c *c14Runner) hotSite(unit uint64, seed cgenSeed, pos int) (bool, string) {
	if c.hSet && c.hUnit == unit && c.hPos == pos {
		return c.hHot, c.hSite
	}
	c.hUnit, c.hPos, c.hSet, c.hHot, c.hSite = unit, pos, true, false, ""
	ct := seed.ct
	m56 := cgenMut{Kind: "ins", Pos: pos, Val: cgenNat56}
	if o := c14Run(ct, cgenApply(seed.enc, m56)); o.panicked && strings.Contains(o.msg, "out of range") {
		c.hHot, c.hSite = true, c14Site(o.site)
		return true, c.hSite
	}
	m16 := cgenMut{Kind: "ins", Pos: pos, Val: cgenNat16}
	if o := c14Run(ct, cgenApply(seed.enc, m16)); o.alloc >= cgenHotAlloc {
		c.hHot = true
		c.hSite = c14Site(cgenLocalise(seed, m16, func(sct *cgenType, in []byte, _ []byte) bool {
			return c14Run(sct, in).alloc >= cgenHotAlloc
		}) + ".Decode")
	}
	return c.hHot, c.hSite
}

const c14FrameSite = "fuzz.Message.ReadFrom"

func (c *c14Runner) runCase(unit uint64, seed cgenSeed, m cgenMut) {
	ct := seed.ct
	hugeFrame := false
	if ct.T == cgenTMessage {
		// the frame header is a plain little-endian u32: a mutated header that declares >= 2^27
		// payload bytes goes to make() in Message.ReadFrom before anything is read
		if w := cgenApply(seed.enc, m); len(w) >= 5 && binary.LittleEndian.Uint32(w)-1 >= 1<<27 {
			hugeFrame = true
			if c.killed[c14FrameSite] {
				c.sink.Skip(1)
				c.sink.Class(ct.Name + "|" + m.Kind + "|not executed: " + c14FrameSite + " already shown to exhaust memory")
				return
			}
			c.sink.Hint(c14FrameSite)
		}
	}
	if hugeFrame {
		// fall through to execution with the hint set
	} else if cgenHugeLength(m) {
		hot, site := c.hotSite(unit, seed, m.Pos)
		if os.Getenv("C14_DEBUG") != "" {
			fmt.Fprintf(os.Stderr, "C14DBG unit=%d pos=%d mut=%s/%s hot=%v site=%q killed=%v\n", unit, m.Pos, m.Kind, m.Val, hot, site, c.killed[site])
		}
		if hot {
			if c.killed[site] {
				// same make() call, same unbounded length: the process death has been demonstrated
				// for this decoder in this shard; not executed again (stated in the rule)
				c.sink.Skip(1)
				c.sink.Class(ct.Name + "|" + m.Kind + "|not executed: " + site + " already shown to exhaust memory")
				return
			}
			c.sink.Hint(site)
		} else {
			c.sink.Hint("")
		}
	} else {
		c.sink.Hint("")
	}
	w := cgenApply(seed.enc, m)
	o := c14Run(ct, w)
	c.sink.Count(1, 1)
	if hugeFrame && o.alloc >= 1<<27 {
		c.killed[c14FrameSite] = true
	}
	if cgenHugeLength(m) && o.alloc >= 1<<28 {
		// the allocator satisfied (lazily) a declared length of >= 2^28 bytes at this make() site:
		// unbounded allocation demonstrated there; the other huge lengths for the same site are
		// not executed again in this child
		if hot, site := c.hotSite(unit, seed, m.Pos); hot {
			c.killed[site] = true
		}
	}
	cs := c14Case{Type: ct.Name, Devs: seed.devs, Mut: &m}
	c.judge(ct.Name, m.Kind, w, o, cs, func() string {
		return cgenLocalise(seed, m, func(sct *cgenType, in []byte, _ []byte) bool {
			return c14Over(c14Run(sct, in).alloc, len(in))
		}) + ".Decode"
	})
}

// c14Site normalises "types.(*X).Decode" (a stack frame) to "types.X.Decode".
func c14Site(s string) string {
	s = strings.NewReplacer("(*", "", ")", "").Replace(s)
	// the localiser names a decoder "<type>.Decode"; the fuzz message types' entry points are called otherwise
	if strings.HasPrefix(s, "fuzz.") && strings.HasSuffix(s, ".Decode") {
		switch n := strings.TrimSuffix(strings.TrimPrefix(s, "fuzz."), ".Decode"); n {
		case "Message":
			return c14FrameSite
		case "SetState":
		default:
			return "fuzz." + n + ".UnmarshalBinary"
		}
	}
	return s
}

const c14KeyLen = "declared length reaches the allocator"

func (c *c14Runner) judge(name, mk string, w []byte, o c14Out, cs c14Case, allocSite func() string) {
	switch {
	case o.panicked && (strings.Contains(o.msg, "makeslice: len out of range") || strings.Contains(o.msg, "makeslice: cap out of range")):
		// the allocator refused the declared length: same defect as the two cases below,
		// seen with a length no allocator can satisfy
		c.sink.Class(name + "|" + mk + "|makeslice-panic")
		c.sink.Violation(c14Site(o.site), "unbounded-allocation", c14KeyLen,
			fmt.Sprintf("%s: decoding %s (%d bytes) panics in %s: %s", name, cgenHex(w), len(w), o.site, o.msg), cs)
	case o.panicked:
		c.sink.Class(name + "|" + mk + "|go-panic")
		c.sink.Violation(c14Site(o.site), "go-panic", cgenPanicClass(o.msg),
			fmt.Sprintf("%s: decoding %s (%d bytes) panics in %s: %s", name, cgenHex(w), len(w), o.site, o.msg), cs)
	case c14Over(o.alloc, len(w)):
		c.sink.Class(name + "|" + mk + "|alloc-over-bound")
		c.sink.Violation(c14Site(allocSite()), "unbounded-allocation", c14KeyLen,
			fmt.Sprintf("%s: decoding %s (%d bytes) allocates %d bytes (bound %d)", name, cgenHex(w), len(w), o.alloc, c14Factor*len(w)+c14Slack), cs)
	case o.err != nil:
		c.sink.Class(name + "|" + mk + "|error")
	default:
		c.sink.Class(name + "|" + mk + "|value")
	}
}

// ---- frame lattice ----

var c14FrameLens = []uint32{0, 1, 2, 5, 1 << 16, 1 << 31, 1<<32 - 1}
var c14FrameTypes = []byte{0, 1, 2, 3, 4, 5, 6, 254, 255}

// c14FrameBody: a valid payload for the message type (the minimal value), some bytes for unknown types.
func c14FrameBody(typ byte) []byte {
	for i, mt := range cgenMsgTags {
		if byte(mt.typ) != typ {
			continue
		}
		var devs []cgenDev
		if i > 0 {
			devs = []cgenDev{{"#tag", i}}
		}
		mv, _ := cgenBuild(cgenTMessage, devs, cgenCtx{})
		b, err := mv.Addr().Interface().(*Message).MarshalBinary()
		if err == nil && len(b) >= 5 {
			return b[5:]
		}
	}
	return cgenPattern(24, 9)
}

func c14Frames(u int) [][]byte {
	var out [][]byte
	li := u / len(c14FrameTypes)
	for _, typ := range c14FrameTypes[u%len(c14FrameTypes) : u%len(c14FrameTypes)+1] {
		body := c14FrameBody(typ)
		for _, b := range [][]byte{nil, body[:len(body)/2], body} {
			f := binary.LittleEndian.AppendUint32(nil, c14FrameLens[li])
			f = append(f, typ)
			f = append(f, b...)
			out = append(out, f)
		}
	}
	return out
}

func c14RunFrame(c *c14Runner, frame []byte) {
	var o c14Out
	in := append([]byte(nil), frame...)
	o.alloc = vlib.AllocDelta(func() {
		o.panicked, o.msg, o.site = vlib.Guard(func() {
			m := new(Message)
			_, o.err = m.ReadFrom(bytes.NewReader(in))
		})
	})
	c.sink.Count(1, 1)
	c.judge("fuzz.Message.ReadFrom", fmt.Sprintf("frame len=%d", binary.LittleEndian.Uint32(frame)), frame, o,
		c14Case{Type: "frame", Frame: vlib.Hex(frame)}, func() string { return c14FrameSite })
}

// c14CompleteSeeds: one structurally complete value per top-level decoder (per message type for
// fuzz.Message): every list has an element (so a block carries a ticket, a preimage, a guarantee with
// a work result, an assurance, a verdict, a culprit and a fault, both header marks and an offender),
// mutated with EVERY byte value 0..255 at EVERY position (plus the prefixes and insertions), so that
// every discriminator / enum / bool / length byte, however deep, takes all its values. Split into
// 192-position chunks for sharding.
func c14CompleteSeeds() []cgenSeed {
	var out []cgenSeed
	for _, n := range c14TopLevel {
		if c14ViaMessage[n] {
			continue // reached through fuzz.Message below (same bytes behind a 5-byte header)
		}
		ct := cgenByName[n]
		bases := [][]cgenDev{nil}
		if ct.T == cgenTMessage {
			bases = nil
			for i := range cgenMsgTags {
				if i == 0 {
					bases = append(bases, nil)
				} else {
					bases = append(bases, []cgenDev{{"#tag", i}})
				}
			}
		}
		for _, base := range bases {
			devs := cgenComplete(ct.T, base, ct.Ctx)
			v, _ := cgenBuild(ct.T, devs, ct.Ctx)
			var enc []byte
			var err error
			if p, _, _ := vlib.Guard(func() { enc, err = ct.Enc(v.Addr()) }); p || err != nil || len(enc) > 16384 {
				continue
			}
			const chunk = 192
			for from := 0; from <= len(enc); from += chunk {
				out = append(out, cgenSeed{ct: ct, devs: devs, enc: enc, structural: true, fullLattice: true, posFrom: from, posTo: from + chunk})
			}
		}
	}
	return out
}

const c14FrameUnitBase = uint64(1) << 40

func TestVerif_C14(t *testing.T) {
	r := vlib.Start(t, "C14")
	if !cgenIsChild() {
		defer r.Finish()
	}
	if err := cgenInit(); err != nil {
		t.Fatal(err)
	}
	full := r.Thorough()
	// besides 2^16, 2^31, 2^32, 2^56, 2^64-1: declared lengths whose product with an element size
	// wraps around 2^64 (a bound written as length*elemSize <= remaining passes them)
	cgenExtraIns = cgenWrapLengths()

	var rc c14Case
	if r.IsReplay(&rc) {
		run := &c14Runner{sink: cgenDirectSink{r}, killed: map[string]bool{}}
		if rc.Type == "frame" {
			r.Cur(fmt.Sprintf(`{"site":"fuzz.(*Message).ReadFrom","case":{"type":"frame","frame":"%s"}}`, rc.Frame))
			c14RunFrame(run, vlib.Unhex(rc.Frame))
			return
		}
		ct := cgenByName[rc.Type]
		v, _ := cgenBuild(ct.T, rc.Devs, ct.Ctx)
		enc, err := ct.Enc(v.Addr())
		if err != nil {
			t.Fatalf("replay: seed cannot be encoded: %v", err)
		}
		run.runCase(0, cgenSeed{ct: ct, devs: rc.Devs, enc: enc, structural: true}, *rc.Mut)
		return
	}

	if cgenIsChild() {
		sink, err := cgenNewChildSink()
		if err != nil {
			t.Fatal(err)
		}
		units, err := cgenLoadSeeds(os.Getenv("CGEN_SEEDS"))
		if err != nil {
			t.Fatal(err)
		}
		run := &c14Runner{sink: sink, killed: map[string]bool{}}
		for _, s := range strings.Split(os.Getenv("C14_KILLED"), ";;") {
			if s != "" {
				run.killed[s] = true
			}
		}
		for _, seed := range units {
			if seed.unit < sink.fromUnit {
				continue
			}
			ord := uint64(0)
			seed.Mutations(full, func(m cgenMut) {
				if sink.Begin(seed.unit, ord) {
					run.runCase(seed.unit, seed, m)
				}
				ord++
			})
		}
		// frame lattice: one unit per (declared length, type)
		for li := 0; li < len(c14FrameLens)*len(c14FrameTypes); li++ {
			u := c14FrameUnitBase + uint64(li)
			if !r.Mine(uint64(li)*5+3) || u < sink.fromUnit {
				continue
			}
			for fi, f := range c14Frames(li) {
				if sink.Begin(u, uint64(fi)) {
					sink.Hint(c14FrameSite)
					c14RunFrame(run, f)
				}
			}
		}
		sink.Done()
		return
	}

	// ---- parent ----
	var all []cgenSeed
	for _, n := range c14TopLevel {
		if !r.Thorough() && c14ViaMessage[n] {
			// quick: these UnmarshalBinary entry points are exercised through fuzz.Message.ReadFrom,
			// which calls exactly them on the frame payload
			continue
		}
		all = append(all, cgenSeedsSel(cgenByName[n], 1, 4096, !r.Thorough())...)
	}
	all = append(all, c14CompleteSeeds()...)
	var units []cgenSeed
	byUnit := map[uint64]cgenSeed{}
	var planned uint64
	for u, seed := range all {
		if r.Mine(uint64(u)) {
			seed.unit = uint64(u)
			units = append(units, seed)
			byUnit[seed.unit] = seed
			planned += seed.MutCount(full)
		}
	}
	for li := 0; li < len(c14FrameLens)*len(c14FrameTypes); li++ {
		if r.Mine(uint64(li)*5 + 3) {
			planned += uint64(len(c14Frames(li)))
		}
	}
	r.Extra("sum_planned_cases", planned)
	r.Extra("seeds_total", len(all))
	r.Cur(`{"site":"C14 shard worker (decoders run in child processes)","case":{}}`)
	for _, seed := range units {
		if !r.WantSample() {
			break
		}
		r.Sample(map[string]interface{}{"decoder": seed.ct.Name, "seed_deviations": seed.devs, "seed_encoding": cgenHex(seed.enc),
			"mutations": seed.MutCount(full)})
	}
	killed := map[string]bool{}
	deaths := uint64(0)
	skipped := cgenParentRun(r, t, "TestVerif_C14", units,
		func() []string {
			var ks []string
			for k := range killed {
				ks = append(ks, k)
			}
			return []string{"C14_KILLED=" + strings.Join(ks, ";;")}
		},
		func(d cgenDeath) {
			deaths++
			r.EvalN(1)
			r.TransitionN(1)
			r.Space(1)
			var cs c14Case
			name := "fuzz.Message.ReadFrom"
			var in []byte
			if d.Unit >= c14FrameUnitBase {
				f := c14Frames(int(d.Unit - c14FrameUnitBase))[d.Ord]
				cs = c14Case{Type: "frame", Frame: vlib.Hex(f)}
				in = f
			} else {
				seed := byUnit[d.Unit]
				name = seed.ct.Name
				ord := uint64(0)
				seed.Mutations(full, func(m cgenMut) {
					if ord == d.Ord {
						mm := m
						cs = c14Case{Type: name, Devs: seed.devs, Mut: &mm}
						in = cgenApply(seed.enc, m)
					}
					ord++
				})
			}
			site := d.Hint
			if site == "" {
				site = name + ".Decode"
			}
			killed[site] = true
			kind, key := "fatal", d.Why
			if strings.Contains(d.Why, "out of memory") || strings.Contains(d.Why, "cannot allocate") {
				kind, key = "unbounded-allocation", c14KeyLen
			}
			r.Class(name + "|killed the process: " + d.Why)
			r.Violation(c14Site(site), kind, key,
				fmt.Sprintf("%s: decoding %s (%d bytes) terminates the process: %s", name, cgenHex(in), len(in), d.Tail[:min(len(d.Tail), 700)]), cs)
		})
	r.Extra("sum_process_deaths", deaths)
	r.Extra("sum_huge_length_inputs_not_executed", skipped)
	if r.Evaluations()+skipped != planned {
		r.Cap(fmt.Sprintf("shard %d: %d evaluated + %d not executed of %d enumerated cases", r.Shard, r.Evaluations(), skipped, planned))
	}
}
