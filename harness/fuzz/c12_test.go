package fuzz

// C12 — natural-number encoding is one canonical bijection in all five
// implementations. Bounded-exhaustive enumeration of byte strings and values
// against a reference written from the GP definition with math/big.

import (
	"bytes"
	"fmt"
	"math/big"
	"testing"

	"github.com/New-JAMneration/JAM-Protocol/PVM"
	"github.com/New-JAMneration/JAM-Protocol/internal/telemetry"
	"github.com/New-JAMneration/JAM-Protocol/internal/types"
	"github.com/New-JAMneration/JAM-Protocol/internal/utilities"
	"github.com/New-JAMneration/JAM-Protocol/internal/zzverif/vlib"
)

// ---- reference (GP C.6): E(x) ----

func c12RefEncode(v uint64) []byte {
	x := new(big.Int).SetUint64(v)
	two := big.NewInt(2)
	for l := 0; l <= 7; l++ {
		lo := new(big.Int).Exp(two, big.NewInt(int64(7*l)), nil)
		hi := new(big.Int).Exp(two, big.NewInt(int64(7*(l+1))), nil)
		if (l == 0 || x.Cmp(lo) >= 0) && x.Cmp(hi) < 0 {
			p8 := new(big.Int).Exp(two, big.NewInt(int64(8*l)), nil)
			q, rem := new(big.Int).QuoRem(x, p8, new(big.Int))
			prefix := 256 - (1 << (8 - l)) + int(q.Int64())
			out := []byte{byte(prefix)}
			for i := 0; i < l; i++ {
				b := new(big.Int).And(new(big.Int).Rsh(rem, uint(8*i)), big.NewInt(255))
				out = append(out, byte(b.Int64()))
			}
			return out
		}
	}
	out := []byte{0xFF}
	for i := 0; i < 8; i++ {
		out = append(out, byte(v>>(8*i)))
	}
	return out
}

// c12RefDecode: accept iff data starts with the canonical encoding of some v.
// why ∈ {"", "truncated", "nonminimal"}.
func c12RefDecode(data []byte) (v uint64, n int, ok bool, why string) {
	if len(data) == 0 {
		return 0, 0, false, "truncated"
	}
	p := data[0]
	l := 0
	for l < 8 && p&(0x80>>uint(l)) != 0 {
		l++
	}
	if len(data) < 1+l {
		return 0, 0, false, "truncated"
	}
	x := new(big.Int)
	if l < 8 {
		base := 256 - (1 << (8 - l))
		x.SetInt64(int64(int(p) - base))
		x.Lsh(x, uint(8*l))
	}
	for i := 0; i < l; i++ {
		t := new(big.Int).SetInt64(int64(data[1+i]))
		t.Lsh(t, uint(8*i))
		x.Add(x, t)
	}
	v = x.Uint64()
	if !bytes.Equal(c12RefEncode(v), data[:1+l]) {
		return 0, 0, false, "nonminimal"
	}
	return v, 1 + l, true, ""
}

func c12Class(p byte) int {
	l := 0
	for l < 8 && p&(0x80>>uint(l)) != 0 {
		l++
	}
	return l
}

// ---- adapters ----

type c12Dec struct {
	name string
	ctx  string // "" or how the decoder object was used before this read (part of the violation key)
	// returns value, consumed (-1 when the API does not report it), accepted
	f func(data []byte) (uint64, int, bool)
}

type c12Probe struct{ v uint64 }

func (p *c12Probe) Decode(d *types.Decoder) error {
	v, err := d.DecodeInteger()
	p.v = v
	return err
}

// c12Probe2 reads a lead-in integer and then the integer under test from the same decoder.
type c12Probe2 struct{ lead, v uint64 }

func (p *c12Probe2) Decode(d *types.Decoder) error {
	l, err := d.DecodeInteger()
	if err != nil {
		return err
	}
	p.lead = l
	v, err := d.DecodeInteger()
	p.v = v
	return err
}

// c12CursorDecoders: the decoders that keep a cursor, used as their callers use them — the natural
// under test is NOT the first thing read from the decoder object. The lead-in is the canonical
// encoding of a value of each length class (1, 2 and 9 bytes); a failure to read the lead-in itself
// is reported by the plain decoders, here it counts as "rejected".
func c12CursorDecoders() []c12Dec {
	var out []c12Dec
	for _, lv := range []uint64{0, 300, 1 << 60} {
		lead := c12RefEncode(lv)
		lv := lv
		ctx := fmt.Sprintf("after-lead-of-%d-bytes", len(lead))
		out = append(out,
			c12Dec{"telemetry.Decoder.ReadNatural", ctx, func(d []byte) (uint64, int, bool) {
				dec := telemetry.NewDecoder(append(append([]byte(nil), lead...), d...))
				if l, err := dec.ReadNatural(); err != nil || l != lv {
					return 0, -1, false
				}
				v, err := dec.ReadNatural()
				return v, dec.Pos() - len(lead), err == nil
			}},
			c12Dec{"types.Decoder.DecodeInteger", ctx, func(d []byte) (uint64, int, bool) {
				var p c12Probe2
				n, err := types.NewDecoder().DecodeWithConsumed(append(append([]byte(nil), lead...), d...), &p)
				return p.v, n - len(lead), err == nil && p.lead == lv
			}})
	}
	return out
}

func c12Decoders() []c12Dec {
	return append(c12PlainDecoders(), c12CursorDecoders()...)
}

func c12PlainDecoders() []c12Dec {
	return []c12Dec{
		{"types.Decoder.DecodeUint", "", func(d []byte) (uint64, int, bool) {
			v, err := types.NewDecoder().DecodeUint(d)
			return v, -1, err == nil
		}},
		{"types.Decoder.DecodeInteger", "", func(d []byte) (uint64, int, bool) {
			var p c12Probe
			n, err := types.NewDecoder().DecodeWithConsumed(d, &p)
			return p.v, n, err == nil
		}},
		{"utilities.DeserializeU64", "", func(d []byte) (uint64, int, bool) {
			v, err := utilities.DeserializeU64(types.ByteSequence(d))
			return uint64(v), -1, err == nil
		}},
		{"PVM.ReadUintVariable", "", func(d []byte) (uint64, int, bool) {
			v, n, ex := PVM.ReadUintVariable(d)
			return v, n, ex == PVM.ExitContinue
		}},
		{"telemetry.Decoder.ReadNatural", "", func(d []byte) (uint64, int, bool) {
			dec := telemetry.NewDecoder(d)
			v, err := dec.ReadNatural()
			return v, dec.Pos(), err == nil
		}},
		{"fuzz.compactDecode", "", func(d []byte) (uint64, int, bool) {
			v, n := compactDecode(d)
			return v, n, n != 0
		}},
	}
}

type c12Enc struct {
	name string
	f    func(v uint64) []byte
}

func c12Encoders() []c12Enc {
	return []c12Enc{
		{"types.Encoder.EncodeUint", func(v uint64) []byte {
			b, err := types.NewEncoder().EncodeUint(v)
			if err != nil {
				return nil
			}
			return b
		}},
		{"utilities.SerializeU64", func(v uint64) []byte { return utilities.SerializeU64(types.U64(v)) }},
		{"telemetry.EncodeNatural", func(v uint64) []byte { return telemetry.EncodeNatural(v) }},
		{"fuzz.compactEncode", func(v uint64) []byte { return compactEncode(v) }},
	}
}

// c12HeldEncoders: the encoders as a caller that keeps using ONE encoder object sees them (the
// protocol codec's Encoder is a long-lived, pooled object; the others are plain functions).
func c12HeldEncoders() []c12Enc {
	held := types.NewEncoder()
	out := []c12Enc{{"types.Encoder.EncodeUint", func(v uint64) []byte {
		b, err := held.EncodeUint(v)
		if err != nil {
			return nil
		}
		return b
	}}}
	return append(out, c12Encoders()[1:]...)
}

type c12Case struct {
	Mode  string `json:"mode"` // "dec" | "enc" | "held"
	Input string `json:"input,omitempty"`
	Value uint64 `json:"value,omitempty"`
	Next  uint64 `json:"next,omitempty"`
}

// c12CheckHeld: E(a) is still E(a) after the same encoder has encoded b (the caller holds the first
// result while it encodes the next number, as every "count prefix, then items" site does).
func c12CheckHeld(r *vlib.Run, encs []c12Enc, a, b uint64) {
	ra, rb := c12RefEncode(a), c12RefEncode(b)
	r.Eval()
	r.Class(fmt.Sprintf("held len=%d then len=%d", len(ra), len(rb)))
	c := c12Case{Mode: "held", Value: a, Next: b}
	key := fmt.Sprintf("l=%d,next-l=%d", len(ra)-1, len(rb)-1)
	for _, e := range encs {
		e := e
		var x, y []byte
		p, msg, _ := vlib.Guard(func() { x = e.f(a); y = e.f(b) })
		r.Transition()
		switch {
		case p:
			r.Violation(e.name, "go-panic", key, fmt.Sprintf("values %d then %d: Go panic %s", a, b, msg), c)
		case !bytes.Equal(y, rb):
			r.Violation(e.name, "encoder-mismatch-after-earlier-call", key, fmt.Sprintf("value %d encoded after %d as %x, reference %x", b, a, y, rb), c)
		case !bytes.Equal(x, ra):
			r.Violation(e.name, "earlier-result-overwritten", key, fmt.Sprintf("the encoding of %d read %x (reference %x) once the same encoder had encoded %d", a, x, ra, b), c)
		}
	}
}

func c12CheckDec(r *vlib.Run, decs []c12Dec, in []byte) {
	rv, rn, rok, why := c12RefDecode(in)
	l := 0
	if len(in) > 0 {
		l = c12Class(in[0])
	}
	r.Eval()
	r.Class(fmt.Sprintf("dec l=%d ok=%v why=%s", l, rok, why))
	for _, d := range decs {
		d := d
		var v uint64
		var n int
		var ok bool
		p, msg, _ := vlib.Guard(func() { v, n, ok = d.f(append([]byte(nil), in...)) })
		r.Transition()
		c := c12Case{Mode: "dec", Input: vlib.Hex(in)}
		key := fmt.Sprintf("l=%d", l)
		if d.ctx != "" {
			key += "," + d.ctx
		}
		switch {
		case p:
			r.Violation(d.name, "go-panic", key, fmt.Sprintf("input %x: Go panic %s", in, msg), c)
		case ok && !rok:
			r.Violation(d.name, why+"-accepted", key, fmt.Sprintf("input %x accepted as %d (consumed %d) but it is %s", in, v, n, why), c)
		case !ok && rok:
			r.Violation(d.name, "canonical-rejected", key, fmt.Sprintf("input %x is the canonical encoding of %d (+%d trailing bytes) but was rejected", in, rv, len(in)-rn), c)
		case ok && rok && v != rv:
			r.Violation(d.name, "wrong-value", key, fmt.Sprintf("input %x decoded to %d, reference %d", in, v, rv), c)
		case ok && rok && n >= 0 && n != rn:
			r.Violation(d.name, "wrong-length", key, fmt.Sprintf("input %x consumed %d, reference %d", in, n, rn), c)
		}
	}
}

func c12CheckEnc(r *vlib.Run, encs []c12Enc, decs []c12Dec, v uint64) {
	ref := c12RefEncode(v)
	r.Eval()
	r.Class(fmt.Sprintf("enc len=%d", len(ref)))
	c := c12Case{Mode: "enc", Value: v}
	key := fmt.Sprintf("l=%d", len(ref)-1)
	for _, e := range encs {
		e := e
		var b []byte
		p, msg, _ := vlib.Guard(func() { b = e.f(v) })
		r.Transition()
		if p {
			r.Violation(e.name, "go-panic", key, fmt.Sprintf("value %d: Go panic %s", v, msg), c)
		} else if !bytes.Equal(b, ref) {
			r.Violation(e.name, "encoder-mismatch", key, fmt.Sprintf("value %d encoded as %x, reference %x", v, b, ref), c)
		}
	}
	// the canonical string must decode back (with and without trailing bytes)
	c12CheckDec(r, decs, ref)
	c12CheckDec(r, decs, append(append([]byte(nil), ref...), 0xA5))
	// every proper prefix must be rejected
	for k := 0; k < len(ref); k++ {
		c12CheckDec(r, decs, ref[:k])
	}
}

func TestVerif_C12(t *testing.T) {
	r := vlib.Start(t, "C12")
	defer r.Finish()
	decs, encs := c12Decoders(), c12Encoders()

	var rc c12Case
	if r.IsReplay(&rc) {
		if rc.Mode == "dec" {
			c12CheckDec(r, decs, vlib.Unhex(rc.Input))
		} else if rc.Mode == "held" {
			c12CheckHeld(r, c12HeldEncoders(), rc.Value, rc.Next)
		} else {
			c12CheckEnc(r, encs, decs, rc.Value)
		}
		return
	}

	fillers := [][]byte{nil, {0x00}, {0xFF}, {1, 2, 3, 4, 5, 6, 7, 8}}
	maxLen := vlib.Pick(r, 2, 3)
	idx := uint64(0)
	// (i) every byte string of length 0..maxLen, each followed by each filler
	for n := 0; n <= maxLen; n++ {
		total := 1
		for i := 0; i < n; i++ {
			total *= 256
		}
		for x := 0; x < total; x++ {
			idx++
			if !r.Mine(idx) {
				continue
			}
			s := make([]byte, n)
			for i := 0; i < n; i++ {
				s[i] = byte(x >> (8 * (n - 1 - i)))
			}
			for _, f := range fillers {
				in := append(append([]byte(nil), s...), f...)
				r.Space(1)
				c12CheckDec(r, decs, in)
				if r.WantSample() && n == maxLen && x%9973 == 77 {
					r.Sample(map[string]string{"decode_input": vlib.Hex(in)})
				}
			}
		}
	}
	// (ii) per prefix class: every prefix byte × structured tails × truncations
	tails := func(l int) [][]byte {
		var out [][]byte
		z := make([]byte, l)
		f := bytes.Repeat([]byte{0xFF}, l)
		out = append(out, z, f)
		for k := 0; k < l; k++ { // a single 1 bit / 0x80 bit in each tail byte
			a := make([]byte, l)
			a[k] = 1
			b := make([]byte, l)
			b[k] = 0x80
			c := bytes.Repeat([]byte{0xFF}, l)
			c[k] = 0x7F
			out = append(out, a, b, c)
		}
		return out
	}
	for p := 0; p < 256; p++ {
		l := c12Class(byte(p))
		for _, tl := range tails(l) {
			full := append([]byte{byte(p)}, tl...)
			for cut := 0; cut <= len(full); cut++ {
				idx++
				if !r.Mine(idx) {
					continue
				}
				r.Space(1)
				c12CheckDec(r, decs, full[:cut])
				if cut == len(full) {
					r.Space(1)
					c12CheckDec(r, decs, append(append([]byte(nil), full...), 0x00, 0xFF))
				}
			}
		}
	}
	// (iii) encoders: all small values and all 2^k-1, 2^k, 2^k+1
	maxV := uint64(vlib.Pick(r, 1<<14, 1<<21))
	for v := uint64(0); v < maxV; v++ {
		idx++
		if !r.Mine(idx) {
			continue
		}
		r.Space(1)
		c12CheckEnc(r, encs, decs, v)
	}
	for k := 0; k <= 64; k++ {
		var base uint64
		if k < 64 {
			base = uint64(1) << uint(k)
		}
		for _, v := range []uint64{base - 1, base, base + 1} {
			idx++
			if !r.Mine(idx) {
				continue
			}
			r.Space(1)
			c12CheckEnc(r, encs, decs, v)
			if r.WantSample() {
				r.Sample(map[string]interface{}{"encode_value": v, "reference": vlib.Hex(c12RefEncode(v))})
			}
		}
	}
	// (iv) every ordered pair of boundary values (2^k-1, 2^k for every k, i.e. both ends of every
	// length class) through one held encoder object: the first result must survive the second call
	var bv []uint64
	for k := 0; k <= 64; k += 1 {
		if k < 64 {
			bv = append(bv, uint64(1)<<uint(k))
		}
		if k > 0 {
			bv = append(bv, uint64(1)<<uint(k-1)*2-1)
		}
	}
	held := c12HeldEncoders()
	for _, a := range bv {
		for _, b := range bv {
			idx++
			if !r.Mine(idx) {
				continue
			}
			r.Space(1)
			c12CheckHeld(r, held, a, b)
		}
	}
}
