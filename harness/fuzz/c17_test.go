package fuzz

// C17 — state export/import round trip: T(sigma) (StateEncoder) -> permute ->
// StateKeyValsToState -> T(sigma') + raw entries must be the original key->value
// set (and root), for every order of the service-related key-values.

import (
	"bytes"
	"fmt"
	"reflect"
	"strings"
	"testing"

	"github.com/New-JAMneration/JAM-Protocol/internal/types"
	"github.com/New-JAMneration/JAM-Protocol/internal/utilities/hash"
	m "github.com/New-JAMneration/JAM-Protocol/internal/utilities/merklization"
	"github.com/New-JAMneration/JAM-Protocol/internal/zzverif/vlib"
	"github.com/New-JAMneration/JAM-Protocol/internal/zzverif/vsched"
)

// ---- service entry pool ----

type c17Entry struct {
	Kind string `json:"k"` // "st" storage | "pre" preimage | "lk" lookup
	I    int    `json:"i"` // pool index
	TS   int    `json:"ts"` // lookup: number of timeslots 0..3
}

var c17StorageKeys = [][]byte{{}, []byte("k"), cgenPattern(40, 3)}
var c17StorageVals = [][]byte{{}, {0xA5, 0x5A}, cgenPattern(40, 5)}
var c17Blobs = [][]byte{{}, {0xA5, 0x5A}, cgenPattern(40, 9)}

// lookup pool: 0..2 = (H(blob_i), len(blob_i)) — attributable iff preimage i is stored;
// 3 = unrelated hash; 4 = (H(blob_1), len+1) wrong length
func c17LookupKey(i int) types.LookupMetaMapkey {
	switch {
	case i <= 2:
		return types.LookupMetaMapkey{Hash: hash.Blake2bHash(c17Blobs[i]), Length: types.U32(len(c17Blobs[i]))}
	case i == 3:
		var h types.OpaqueHash
		copy(h[:], cgenPattern(32, 77))
		return types.LookupMetaMapkey{Hash: h, Length: 5}
	default:
		return types.LookupMetaMapkey{Hash: hash.Blake2bHash(c17Blobs[1]), Length: types.U32(len(c17Blobs[1]) + 1)}
	}
}

type c17Svc struct {
	ID      uint32     `json:"id"`
	Entries []c17Entry `json:"e"`
}

type c17Case struct {
	Mode      string    `json:"mode"` // "delta" | "comp"
	Devs      []cgenDev `json:"devs,omitempty"`
	Svcs      []c17Svc  `json:"svcs"`
	Perm      []int     `json:"perm,omitempty"`
	Placement string    `json:"placement,omitempty"` // before | after | mixed
	// map-order mode: the iteration order of every range-over-map inside StateKeyValsToState is a
	// scheduler choice (merklization is instrumented by vrewrite); Choices replays one execution
	// History: what the importer was called with immediately before this import ("" = nothing,
	// "failed-import" = a dump of another state whose last value (a service info) is truncated, so the
	// call returns an error part-way, "other-import" = a well-formed dump of another state)
	History   string `json:"history,omitempty"`
	MapOrders bool  `json:"map_orders,omitempty"`
	Choices   []int `json:"choices,omitempty"`
}

func c17Account(s c17Svc) types.ServiceAccount {
	a := types.ServiceAccount{
		PreimageLookup: types.PreimagesMapEntry{}, LookupDict: types.LookupMetaMapEntry{}, StorageDict: types.Storage{},
	}
	copy(a.ServiceInfo.CodeHash[:], cgenPattern(32, byte(s.ID)))
	a.ServiceInfo.Balance = types.U64(s.ID) + 1000
	a.ServiceInfo.Items = types.U32(len(s.Entries))
	for _, e := range s.Entries {
		switch e.Kind {
		case "st":
			a.StorageDict[string(c17StorageKeys[e.I])] = append(types.ByteSequence(nil), c17StorageVals[e.I]...)
		case "pre":
			a.PreimageLookup[hash.Blake2bHash(c17Blobs[e.I])] = append(types.ByteSequence(nil), c17Blobs[e.I]...)
		case "lk":
			ts := types.TimeSlotSet{}
			for j := 0; j < e.TS; j++ {
				ts = append(ts, types.TimeSlot(j+1))
			}
			a.LookupDict[c17LookupKey(e.I)] = ts
		}
	}
	return a
}

// c17Pool: all entries one service can have. full: every timeslot-set length 0..3 per
// lookup key; reduced: one length per lookup key (2 for the preimage-matching keys, 1 otherwise).
func c17Pool(full bool) []c17Entry {
	var p []c17Entry
	for i := 0; i < 3; i++ {
		p = append(p, c17Entry{"st", i, 0})
	}
	for i := 0; i < 3; i++ {
		p = append(p, c17Entry{"pre", i, 0})
	}
	for i := 0; i < 5; i++ {
		if !full {
			ts := 1
			if i <= 2 {
				ts = 2
			}
			p = append(p, c17Entry{"lk", i, ts})
			continue
		}
		for ts := 0; ts <= 3; ts++ {
			p = append(p, c17Entry{"lk", i, ts})
		}
	}
	return p
}

// c17EntrySets: every set of <= n pool entries with at most one variant per lookup key.
func c17EntrySets(n int, full bool) [][]c17Entry {
	pool := c17Pool(full)
	var out [][]c17Entry
	var cur []c17Entry
	var rec func(start int)
	rec = func(start int) {
		out = append(out, append([]c17Entry(nil), cur...))
		if len(cur) == n {
			return
		}
		for i := start; i < len(pool); i++ {
			dup := false
			for _, c := range cur {
				if c.Kind == "lk" && pool[i].Kind == "lk" && c.I == pool[i].I {
					dup = true
				}
			}
			if dup {
				continue
			}
			cur = append(cur, pool[i])
			rec(i + 1)
			cur = cur[:len(cur)-1]
		}
	}
	rec(0)
	return out
}

// ---- oracle ----

func c17Classify(k types.StateKey, orig map[types.StateKey]string) string {
	if c, ok := orig[k]; ok {
		return c
	}
	return "unknown key"
}

// c17Check runs one import/export round trip on the given input order. With cs.MapOrders the
// import is run under the vsched explorer: one execution per combination of map iteration orders
// with at most 2 non-sorted orders (all n! orders of a map with n <= 4 keys), each judged.
func c17Check(r *vlib.Run, kvs0 types.StateKeyVals, root0 types.StateRoot, in types.StateKeyVals, labels map[types.StateKey]string, cs c17Case, shape string) {
	var st types.State
	var raw types.StateKeyVals
	var err error
	if cs.MapOrders {
		body := func(e *vsched.Exec) { st, raw, err = m.StateKeyValsToState(in.DeepCopy()) }
		judge := func(e *vsched.Exec) {
			c := cs
			c.Choices = e.Choices()
			r.Trace()
			if e.Outcome != "ok" {
				r.Eval()
				r.Space(1)
				r.Class("exec " + e.Outcome)
				r.Violation("merklization.StateKeyValsToState", e.Outcome, "under an explorer-chosen map order", e.Detail, c)
				return
			}
			nondefault := 0
			for _, p := range e.Points {
				if p.Chosen != 0 {
					nondefault++
				}
			}
			c17Judge(r, kvs0, root0, st, raw, err, labels, c, fmt.Sprintf("%s map-orders=%d/%d", shape, nondefault, len(e.Points)))
		}
		if cs.Choices != nil { // replay of one execution
			judge(vsched.RunOnce(cs.Choices, map[uint64]struct{}{}, nil, body))
			return
		}
		x := &vsched.Explorer{Bound: 2, NShards: 1, Stop: r.Expired, Body: body, OnExec: judge}
		x.Run()
		return
	}
	inCopy := in.DeepCopy()
	if cs.History != "" {
		c17History(cs.History)
	}
	if p, msg, site := vlib.Guard(func() { st, raw, err = m.StateKeyValsToState(inCopy) }); p {
		r.Eval()
		r.Space(1)
		r.Class("panic")
		r.Violation(site, "go-panic", cgenPanicClass(msg), "StateKeyValsToState panicked: "+msg, cs)
		return
	}
	c17Judge(r, kvs0, root0, st, raw, err, labels, cs, shape)
}

var c17OtherDump types.StateKeyVals

// c17History calls the importer once with the dump of ANOTHER state (two services with ids not used
// elsewhere, each with storage entries, a preimage, its lookup and an unrelated lookup), intact or with
// its last value — the service info of the second service, keys are sorted — cut in half so that the
// import fails after it has seen every other entry. Whatever that call does, the next import of a
// well-formed state has to round-trip: the statement quantifies over states, not over call histories.
func c17History(kind string) {
	if c17OtherDump == nil {
		other := []c17Svc{{0x0BADF00D, []c17Entry{{"st", 0, 0}, {"st", 2, 0}, {"pre", 2, 0}, {"lk", 2, 3}, {"lk", 4, 1}}},
			{0xFEEDFACE, []c17Entry{{"st", 1, 0}, {"pre", 0, 0}, {"lk", 0, 1}, {"lk", 3, 2}}}}
		kv, err := m.StateEncoder(c17State(nil, other))
		if err != nil {
			return
		}
		c17OtherDump = kv
	}
	// kind = steps joined by "+": "other-import" (intact dump), "failed-import" (= fail:info), "fail:C<i>"
	// (value of component i cut in half), "fail:info" (last service info cut in half), "fail:lookup"
	// (an attributable lookup value that declares 5 timeslots and has none). The damaged key-value is
	// moved to the end of the dump so that the importer has seen every other entry before it fails.
	for _, step := range strings.Split(kind, "+") {
		in := c17OtherDump.DeepCopy()
		bad := -1
		switch {
		case step == "failed-import" || step == "fail:info":
			for i := range in {
				if c17IsInfoKey(in[i].Key) {
					bad = i
				}
			}
		case strings.HasPrefix(step, "fail:C"):
			var ci int
			fmt.Sscanf(step, "fail:C%d", &ci)
			for i := range in {
				if in[i].Key == m.C(types.U8(ci)) {
					bad = i
				}
			}
		case step == "fail:lookup":
			want := m.EncodeDelta4Key(types.ServiceID(0x0BADF00D), c17LookupKey(2))
			for i := range in {
				if in[i].Key == want {
					bad = i
					in[i].Value = types.ByteSequence{5}
				}
			}
		}
		if bad >= 0 {
			if step != "fail:lookup" {
				in[bad].Value = in[bad].Value[:len(in[bad].Value)/2]
			}
			kv := in[bad]
			in = append(append(in[:bad:bad], in[bad+1:]...), kv)
		}
		vlib.Guard(func() { m.StateKeyValsToState(in) })
	}
}

// c17Judge: the oracle for one completed import.
func c17Judge(r *vlib.Run, kvs0 types.StateKeyVals, root0 types.StateRoot, st types.State, raw types.StateKeyVals, err error, labels map[types.StateKey]string, cs c17Case, shape string) {
	r.Eval()
	r.Space(1)
	r.Transition()
	if err != nil {
		r.Class("import-error")
		r.Violation("merklization.StateKeyValsToState", "import-error", cgenErrClass(err), "a serialised well-formed state is rejected: "+err.Error(), cs)
		return
	}
	var kvs1 types.StateKeyVals
	if p, msg, site := vlib.Guard(func() { kvs1, err = m.StateEncoder(st) }); p {
		r.Class("panic")
		r.Violation(site, "go-panic", cgenPanicClass(msg), "StateEncoder panicked on the imported state: "+msg, cs)
		return
	}
	r.Transition()
	if err != nil {
		r.Violation("merklization.StateEncoder", "export-error", cgenErrClass(err), err.Error(), cs)
		return
	}
	all := append(append(types.StateKeyVals{}, kvs1...), raw...)
	got := map[types.StateKey][]byte{}
	for _, kv := range all {
		if _, dup := got[kv.Key]; dup {
			r.Class("duplicate")
			r.Violation("merklization.StateKeyValsToState", "duplicate-key", c17Classify(kv.Key, labels),
				fmt.Sprintf("key %x appears both in the re-serialised state and in the raw entries (or twice)", kv.Key[:]), cs)
			return
		}
		got[kv.Key] = kv.Value
	}
	for _, kv := range kvs0 {
		v, ok := got[kv.Key]
		switch {
		case !ok:
			r.Class("lost")
			r.Violation("merklization.StateKeyValsToState", "entry-lost", c17Classify(kv.Key, labels),
				fmt.Sprintf("key %x (%s) of the original serialisation is neither in T(imported state) nor in the raw entries", kv.Key[:], labels[kv.Key]), cs)
			return
		case !bytes.Equal(v, kv.Value):
			r.Class("changed")
			r.Violation("merklization.StateKeyValsToState", "value-changed", c17Classify(kv.Key, labels),
				fmt.Sprintf("key %x (%s): value %s became %s", kv.Key[:], labels[kv.Key], cgenHex(kv.Value), cgenHex(v)), cs)
			return
		}
	}
	if len(got) != len(kvs0) {
		for k := range got {
			if _, ok := labels[k]; !ok {
				r.Class("added")
				r.Violation("merklization.StateKeyValsToState", "entry-added", "key not in the original",
					fmt.Sprintf("key %x is not in the original serialisation", k[:]), cs)
				return
			}
		}
	}
	root1 := m.MerklizationSerializedState(all)
	r.Transition()
	if root1 != root0 {
		r.Class("root")
		r.Violation("merklization.MerklizationSerializedState", "root-differs", "same key-value set",
			fmt.Sprintf("same key->value set but root %x vs %x", root1[:], root0[:]), cs)
		return
	}
	r.Class(fmt.Sprintf("%s raw=%d", shape, len(raw)))
}

// c17State: minimal components (or the given deviations) + the services.
func c17State(devs []cgenDev, svcs []c17Svc) types.State {
	v, _ := cgenBuild(cgenTState, devs, cgenCtx{noDelta: true})
	st := v.Interface().(types.State)
	st.Delta = types.ServiceAccountState{}
	for _, s := range svcs {
		st.Delta[types.ServiceID(s.ID)] = c17Account(s)
	}
	return st
}

// c17Labels: what each key of the serialisation is, by construction.
func c17Labels(kvs types.StateKeyVals, svcs []c17Svc) map[types.StateKey]string {
	out := map[types.StateKey]string{}
	for _, kv := range kvs {
		if kv.Key[0] >= 1 && kv.Key[0] <= 16 && kv.Key == m.C(types.U8(kv.Key[0])) {
			out[kv.Key] = "component"
		} else if c17IsInfoKey(kv.Key) {
			out[kv.Key] = "service info"
		} else {
			out[kv.Key] = "service entry"
		}
	}
	for _, s := range svcs {
		has := map[int]bool{}
		for _, e := range s.Entries {
			if e.Kind == "pre" {
				has[e.I] = true
			}
		}
		for _, e := range s.Entries {
			switch e.Kind {
			case "st":
				out[m.WrapEncodeDelta2KeyVal(types.ServiceID(s.ID), c17StorageKeys[e.I], nil).Key] = "storage"
			case "lk":
				k := m.EncodeDelta4Key(types.ServiceID(s.ID), c17LookupKey(e.I))
				if e.I <= 2 && has[e.I] {
					out[k] = "lookup with stored preimage"
				} else {
					out[k] = "lookup without stored preimage"
				}
			}
		}
	}
	for k, v := range out {
		if v == "service entry" {
			out[k] = "preimage"
		}
	}
	return out
}

// c17IsInfoKey: C(255, s) = [255, n0, 0, n1, 0, n2, 0, n3, 0, 0, ...] — the harness' own test, independent of
// the repository's IsServiceInfoKey.
func c17IsInfoKey(k types.StateKey) bool {
	if k[0] != 0xFF {
		return false
	}
	for i := 2; i < len(k); i++ {
		if (i > 7 || i%2 == 0) && k[i] != 0 {
			return false
		}
	}
	return true
}

// c17CollisionIDs: service ids whose little-endian bytes, interleaved into the keys of the service's
// storage / preimage / lookup entries [n0,h0,n1,h1,n2,h2,n3,h3,…], put 0xFF (the service-info chapter),
// 1..16 (the component chapters) or zeros where the special key classes have them.
var c17CollisionIDs = []uint32{255, 0xFF00, 0xFF0000, 0xFF000000, 0xFFFFFFFF, 0xFF00FF, 0xFFFF, 0x100, 0,
	1, 2, 3, 4, 5, 6, 7, 8, 9, 10, 11, 12, 13, 14, 15, 16}

func c17Shape(svcs []c17Svc) string {
	n := map[string]int{}
	for _, s := range svcs {
		for _, e := range s.Entries {
			n[e.Kind]++
		}
	}
	return fmt.Sprintf("svc=%d st=%d pre=%d lk=%d", len(svcs), n["st"], n["pre"], n["lk"])
}

// c17RunConfig: all orders of the service-related key-values, before / after the components.
func c17RunConfig(r *vlib.Run, devs []cgenDev, svcs []c17Svc, mode string, allPerms bool, only *c17Case) {
	mapOrders := mode == "lookups"
	history := ""
	if strings.HasPrefix(mode, "history:") {
		history = strings.TrimPrefix(mode, "history:")
	}
	st := c17State(devs, svcs)
	kvs0, err := m.StateEncoder(st)
	if err != nil {
		r.Violation("merklization.StateEncoder", "export-error", cgenErrClass(err), err.Error(), c17Case{Mode: mode, Devs: devs, Svcs: svcs})
		return
	}
	for _, kv := range kvs0 {
		if kv.Value == nil && kv.Key[0] >= 1 && kv.Key[0] <= 16 && kv.Key == m.C(types.U8(kv.Key[0])) {
			r.Violation("merklization.StateEncoder", "export-error", "component not encodable",
				fmt.Sprintf("component C(%d) of a well-formed state could not be encoded (nil value)", kv.Key[0]), c17Case{Mode: mode, Devs: devs, Svcs: svcs})
			return
		}
	}
	root0 := m.MerklizationSerializedState(kvs0)
	labels := c17Labels(kvs0, svcs)
	var comp, svc types.StateKeyVals
	for _, kv := range kvs0 {
		if labels[kv.Key] == "component" {
			comp = append(comp, kv)
		} else {
			svc = append(svc, kv)
		}
	}
	shape := c17Shape(svcs)
	build := func(p []int, placement string) types.StateKeyVals {
		ps := make(types.StateKeyVals, len(svc))
		for i, x := range p {
			ps[i] = svc[x]
		}
		switch placement {
		case "before":
			return append(append(types.StateKeyVals{}, ps...), comp...)
		case "after":
			return append(append(types.StateKeyVals{}, comp...), ps...)
		default: // mixed: alternate
			var out types.StateKeyVals
			i, j := 0, 0
			for i < len(comp) || j < len(ps) {
				if j < len(ps) {
					out = append(out, ps[j])
					j++
				}
				if i < len(comp) {
					out = append(out, comp[i])
					i++
				}
			}
			return out
		}
	}
	if only != nil {
		c17Check(r, kvs0, root0, build(only.Perm, only.Placement), labels, *only, shape)
		return
	}
	_ = mapOrders
	run := func(p []int, placement string) {
		cs := c17Case{Mode: mode, Devs: devs, Svcs: svcs, Perm: append([]int(nil), p...), Placement: placement, MapOrders: mapOrders, History: history}
		c17Check(r, kvs0, root0, build(p, placement), labels, cs, shape+" "+placement)
	}
	if allPerms {
		vlib.Permutations(len(svc), func(p []int) {
			run(p, "before")
			run(p, "after")
		})
		id := make([]int, len(svc))
		for i := range id {
			id[i] = i
		}
		run(id, "mixed")
	} else {
		id := make([]int, len(svc))
		rev := make([]int, len(svc))
		for i := range id {
			id[i], rev[i] = i, len(svc)-1-i
		}
		for _, pl := range []string{"before", "after", "mixed"} {
			run(id, pl)
			run(rev, pl)
		}
	}
	if r.WantSample() {
		r.Sample(map[string]interface{}{"mode": mode, "services": svcs, "deviations": devs, "key_values": len(kvs0), "root": vlib.Hex(root0[:])})
	}
}

// c17LookupConfigs: 2 or 3 stored preimages with their lookup entries in one service, and one
// preimage + lookup in each of two services; timeslot-set lengths in all combinations of 0..3.
func c17LookupConfigs() [][]c17Svc {
	var out [][]c17Svc
	lk := func(i, ts int) []c17Entry { return []c17Entry{{"pre", i, 0}, {"lk", i, ts}} }
	for _, pair := range [][2]int{{0, 1}, {0, 2}, {1, 2}} {
		for a := 0; a <= 3; a++ {
			for b := 0; b <= 3; b++ {
				for _, id := range []uint32{0, 0x12345678} {
					out = append(out, []c17Svc{{id, append(lk(pair[0], a), lk(pair[1], b)...)}})
				}
				for _, ids := range [][2]uint32{{0, 0xFFFFFFFF}, {1, 0x12345678}} {
					out = append(out, []c17Svc{{ids[0], lk(pair[0], a)}, {ids[1], lk(pair[1], b)}})
					out = append(out, []c17Svc{{ids[0], lk(pair[0], a)}, {ids[1], lk(pair[0], b)}}) // same preimage in both services
				}
			}
		}
	}
	for a := 0; a <= 3; a++ {
		for b := 0; b <= 3; b++ {
			for c := 0; c <= 3; c++ {
				out = append(out, []c17Svc{{0x12345678, append(append(lk(0, a), lk(1, b)...), lk(2, c)...)}})
			}
		}
	}
	return out
}

var c17FixedSvc = []c17Svc{{ID: 0x12345678, Entries: []c17Entry{{"st", 1, 0}, {"pre", 1, 0}, {"lk", 1, 2}, {"lk", 3, 1}}}}

func TestVerif_C17(t *testing.T) {
	r := vlib.Start(t, "C17")
	defer r.Finish()
	if err := cgenInit(); err != nil {
		t.Fatal(err)
	}
	var rc c17Case
	if r.IsReplay(&rc) {
		c17RunConfig(r, rc.Devs, rc.Svcs, rc.Mode, true, &rc)
		return
	}
	k := vlib.Pick(r, 1, 2) // deviations of the 16 components
	idx := uint64(0)

	// (ii) component deviations x fixed delta, a few orders
	groups := cgenGroups(cgenTState, cgenCtx{noDelta: true})
	for _, g := range groups {
		idx++
		if !r.Mine(idx) {
			continue
		}
		cgenEnumerateGroup(cgenTState, g, k, cgenCtx{noDelta: true}, func(devs []cgenDev, _ reflect.Value, _ int) bool {
			c17RunConfig(r, append([]cgenDev(nil), devs...), c17FixedSvc, "comp", false, nil)
			return true
		})
	}

	// (v) call history: the import is preceded by a failed / a successful import of another state's
	// dump (state that outlives a call — pools, caches — must not leak into the next import)
	for _, h := range []string{"history:failed-import", "history:other-import"} {
		var cfgs [][]c17Svc
		cfgs = append(cfgs, nil, c17FixedSvc)
		for _, id := range []uint32{0, 255, 0x12345678, 0xFFFFFFFF} {
			cfgs = append(cfgs, []c17Svc{{id, []c17Entry{{"st", 1, 0}, {"pre", 1, 0}, {"lk", 1, 2}, {"lk", 3, 1}}}},
				[]c17Svc{{id, []c17Entry{{"st", 0, 0}}}}, []c17Svc{{id, nil}})
		}
		cfgs = append(cfgs, c17LookupConfigs()[:24]...)
		for _, cfg := range cfgs {
			idx++
			if r.Mine(idx) {
				c17RunConfig(r, nil, cfg, h, false, nil)
			}
		}
	}
	// one malformed dump per reachable error return (each of the 16 components, a service info, an
	// attributable lookup value), and good-bad-good sequences
	var kinds []string
	for ci := 1; ci <= 16; ci++ {
		kinds = append(kinds, fmt.Sprintf("history:fail:C%d", ci))
	}
	kinds = append(kinds, "history:fail:lookup", "history:other-import+fail:info", "history:fail:C13+other-import+fail:lookup")
	for _, h := range kinds {
		for _, cfg := range [][]c17Svc{nil, c17FixedSvc, {{255, []c17Entry{{"st", 1, 0}, {"pre", 1, 0}, {"lk", 1, 2}, {"lk", 3, 1}}}},
			{{0, []c17Entry{{"st", 0, 0}}}, {0xFFFFFFFF, []c17Entry{{"pre", 2, 0}, {"lk", 2, 0}}}}} {
			idx++
			if r.Mine(idx) {
				c17RunConfig(r, nil, cfg, h, false, nil)
			}
		}
	}

	// (iv) service ids that collide with the special key classes, each owning a storage entry, a
	// preimage, its lookup and an unrelated lookup: alone (all 120 orders, before/after) and all
	// together in one state (a few orders)
	full := []c17Entry{{"st", 1, 0}, {"pre", 1, 0}, {"lk", 1, 2}, {"lk", 3, 1}}
	for _, id := range c17CollisionIDs {
		idx++
		if r.Mine(idx) {
			c17RunConfig(r, nil, []c17Svc{{id, full}}, "delta", true, nil)
		}
		for _, e := range [][]c17Entry{{{"st", 0, 0}}, {{"pre", 2, 0}}, {{"lk", 3, 0}}, {{"st", 2, 0}, {"pre", 0, 0}, {"lk", 0, 3}}} {
			idx++
			if r.Mine(idx) {
				c17RunConfig(r, nil, []c17Svc{{id, e}}, "delta", true, nil)
			}
		}
	}
	idx++
	if r.Mine(idx) {
		var allSvcs []c17Svc
		for _, id := range c17CollisionIDs {
			allSvcs = append(allSvcs, c17Svc{id, full})
		}
		c17RunConfig(r, nil, allSvcs, "delta", false, nil)
	}

	// (iii) several attributed lookups per import, every combination of timeslot-set lengths 0..3
	// (in particular an empty set next to a non-empty one), in one service and across two; the map
	// iteration orders inside the importer are explorer-owned (all orders, <= 2 non-sorted at a time);
	// input orders: identity and reverse, before and after the components.
	for _, cfg := range c17LookupConfigs() {
		idx++
		if !r.Mine(idx) {
			continue
		}
		c17RunConfig(r, nil, cfg, "lookups", false, nil)
	}

	// (i) delta shapes x all orders, minimal components. budget = total number of
	// service-related key-values (service infos + entries).
	type pass struct {
		budget int
		full   bool
		exact  bool // only configurations with exactly `budget` key-values (the smaller ones are in another pass)
		one    bool // one-service configurations only
	}
	passes := []pass{{4, true, false, false}}
	if r.Thorough() {
		// ~4.7 M round trips at ~1 ms each: <=4 key-values with the full pool; exactly 5 with one
		// timeslot-set length per lookup key (1 and 2 services); exactly 6 (720 orders) with one
		// service and one timeslot-set length per lookup key
		passes = []pass{{4, true, false, false}, {5, false, true, false}, {6, false, true, true}}
	}
	one := [][]uint32{{0}, {0x12345678}, {0xFFFFFFFF}}
	two := [][]uint32{{0, 0xFFFFFFFF}, {1, 0x12345678}}
	idx++
	if r.Mine(idx) {
		c17RunConfig(r, nil, nil, "delta", true, nil)
	}
	for _, ps := range passes {
		s1 := c17EntrySets(ps.budget-1, ps.full)
		s2 := c17EntrySets(ps.budget-2, ps.full)
		for _, ids := range one {
			for _, es := range s1 {
				if ps.exact && len(es) != ps.budget-1 {
					continue
				}
				idx++
				if !r.Mine(idx) {
					continue
				}
				if r.Expired() {
					return
				}
				c17RunConfig(r, nil, []c17Svc{{ids[0], es}}, "delta", true, nil)
			}
		}
		for _, ids := range two {
			if ps.one {
				break
			}
			for _, e0 := range s2 {
				for _, e1 := range s2 {
					if len(e0)+len(e1) > ps.budget-2 || (ps.exact && len(e0)+len(e1) != ps.budget-2) {
						continue
					}
					idx++
					if !r.Mine(idx) {
						continue
					}
					if r.Expired() {
						return
					}
					c17RunConfig(r, nil, []c17Svc{{ids[0], e0}, {ids[1], e1}}, "delta", true, nil)
				}
			}
		}
		if r.Expired() {
			return
		}
	}

}
