package fuzz

// C13 — decoding is strict and canonical. Seeds: every distinct encoding (<= 4 KiB)
// of the C11 value space; mutations: every proper prefix, every position x
// replacement lattice, natural-number insertions at every position. Oracle: an
// accepted input re-encodes to exactly the consumed bytes; proper prefixes of
// valid encodings are rejected.

import (
	"bytes"
	"fmt"
	"os"
	"reflect"
	"strings"
	"testing"

	"github.com/New-JAMneration/JAM-Protocol/internal/zzverif/vlib"
)

type c13Case struct {
	Type string    `json:"type"`
	Devs []cgenDev `json:"devs,omitempty"`
	Ext  bool      `json:"ext,omitempty"` // seed built with the extended integer domain
	Mut  cgenMut   `json:"mut"`
	Seed string    `json:"seed_hex,omitempty"` // informational
}

type c13Res struct {
	panicked bool
	pmsg     string
	err      error
	out      reflect.Value
	n        int    // consumed (normalised)
	re       []byte // re-encoding (nil if it failed)
	reErr    string
}

// c13Decode runs ct's decoder on w and, if it accepts, re-encodes the result.
func c13Decode(ct *cgenType, w []byte) c13Res {
	var res c13Res
	in := append([]byte(nil), w...)
	p, pmsg, _ := vlib.Guard(func() { res.out, res.n, res.err = ct.Dec(in) })
	if p {
		res.panicked = true
		res.pmsg = pmsg
		return res
	}
	if res.err != nil {
		return res
	}
	var re []byte
	var err error
	if p, msg, _ := vlib.Guard(func() { re, err = ct.Enc(res.out) }); p {
		res.reErr = "panic: " + msg
	} else if err != nil {
		res.reErr = err.Error()
	} else {
		res.re = re
		if res.re == nil {
			res.re = []byte{}
		}
	}
	if res.n < 0 {
		// exact-slice API (UnmarshalBinary): it does not say how much it used. Give it the
		// benefit of the doubt: it consumed its own re-encoding if that is a prefix of the input.
		if res.re != nil && bytes.HasPrefix(w, res.re) {
			res.n = len(res.re)
		} else {
			res.n = len(w)
		}
	}
	return res
}

// c13Verdict: "" = fine (rejected, or accepted canonically), else (kind, key).
func c13Verdict(ct *cgenType, seedEnc []byte, m cgenMut, w []byte, res c13Res) (kind, key string) {
	if res.panicked || res.err != nil {
		return "", ""
	}
	canonical := res.re != nil && res.n <= len(w) && bytes.Equal(res.re, w[:res.n])
	if m.Kind == "prefix" {
		if ct.RestOfInput && canonical {
			return "", "" // the format runs to the end of the input: a shorter input is another valid value
		}
		return "truncated-accepted", c13DiffClass(w, res)
	}
	if canonical {
		return "", ""
	}
	return "noncanonical-accepted", c13DiffClass(w, res)
}

func c13DiffClass(w []byte, res c13Res) string {
	if res.re == nil {
		return "decoded value cannot be re-encoded"
	}
	if res.n > len(w) {
		return "consumed more than the input"
	}
	in := w[:res.n]
	switch {
	case bytes.Equal(res.re, in):
		return "canonical for the shorter input"
	case len(res.re) > len(in):
		return "re-encoding longer than consumed"
	case len(res.re) < len(in):
		return "re-encoding shorter than consumed"
	}
	return "re-encoding has other bytes"
}

type c13Runner struct {
	sink cgenSink
	full bool
	// position (of the current seed) at which inserting 2^56 made the decoder panic in
	// make(): the bytes at that position are a length that goes straight to the allocator
	twinUnit uint64
	twinPos  int
	twinSet  bool
	twinHot  bool
	skipped  uint64
}

// hot: memoised cgenHot for the current (seed, position).
func (c *c13Runner) hot(unit uint64, seed cgenSeed, pos int) bool {
	if c.twinUnit != unit || c.twinPos != pos || !c.twinSet {
		c.twinUnit, c.twinPos, c.twinSet = unit, pos, true
		c.twinHot = cgenHot(seed.ct, seed.enc, pos)
	}
	return c.twinHot
}

func (c *c13Runner) runCase(unit uint64, seed cgenSeed, m cgenMut) {
	ct := seed.ct
	if cgenHugeLength(m) && c.hot(unit, seed, m.Pos) {
		// Not part of C13's space (see the rule): this input asks the allocator for >= 2^21
		// elements at a position where the declared length reaches make() unchecked. Whether the
		// process survives that is C14's question; executed there.
		c.skipped++
		c.sink.Skip(1)
		c.sink.Class(ct.Name + "|" + m.Kind + "|left to C14: huge declared length reaches make()")
		return
	}
	w := cgenApply(seed.enc, m)
	res := c13Decode(ct, w)
	c.sink.Count(1, 1)
	outcome := "rejected"
	switch {
	case res.panicked:
		outcome = "panicked"
	case res.err == nil:
		outcome = "accepted"
	}
	kind, key := c13Verdict(ct, seed.enc, m, w, res)
	if kind == "" {
		c.sink.Class(ct.Name + "|" + m.Kind + "|" + outcome)
		return
	}
	c.sink.Class(ct.Name + "|" + m.Kind + "|" + kind)
	site, key := cgenLocaliseKey(seed, m, key, func(sct *cgenType, in []byte, part []byte) (bool, string) {
		sres := c13Decode(sct, in)
		k, kk := c13Verdict(sct, part, m, in, sres)
		return k == kind, kk
	})
	detail := fmt.Sprintf("%s: input %s (seed %s, mutation %s@%d %s) is accepted (consumed %d)", ct.Name, cgenHex(w), cgenHex(seed.enc), m.Kind, m.Pos, m.Val, res.n)
	if res.re != nil {
		detail += ", but the decoded value encodes as " + cgenHex(res.re)
	} else {
		detail += ", but the decoded value cannot be encoded: " + res.reErr
	}
	c.sink.Violation(site+".Decode", kind, key, detail, c13Case{Type: ct.Name, Devs: seed.devs, Ext: seed.ext, Mut: m, Seed: cgenHex(seed.enc)})
}


// c13Units: the deterministic list of seeds (all shards and all children compute the same list).
func c13Units(r *vlib.Run, crashed map[string]string) []cgenSeed {
	var out []cgenSeed
	for _, ct := range cgenAll {
		if crashed[ct.Name] != "" {
			continue
		}
		k := 1
		if r.Thorough() {
			// small types: two deviations, so that e.g. a *set* optional inside a one-element list is a seed
			v, _ := cgenBuild(ct.T, nil, ct.Ctx)
			if enc, err := ct.Enc(v.Addr()); err == nil && len(enc) <= 96 {
				k = 2
			}
		}
		out = append(out, cgenSeedsSel(ct, k, 4096, !r.Thorough())...)
		out = append(out, c13CompactTails(ct)...)
	}
	// decoder-side context: the ImportSpec family under a HashSegmentMap that contains the tree roots
	// of the inputs, and under one that contains other roots (the plain entries above use an empty
	// map); seeds are encoded and re-encoded with the same map. All one-deviation seeds, and one
	// structurally complete value each with every byte value at every position.
	for _, variant := range []string{"hsm=roots", "hsm=other"} {
		for _, n := range []string{"ImportSpec", "WorkItem", "WorkPackage", "WorkPackageBundle"} {
			vt := cgenVariants[variant][cgenByName["types."+n].T]
			out = append(out, cgenSeedsSel(vt, 1, 4096, false)...)
			out = append(out, c13Complete(vt)...)
		}
	}
	for _, n := range []string{"ImportSpec", "WorkItem", "WorkPackage"} {
		out = append(out, c13Complete(cgenByName["types."+n])...)
	}
	return out
}

// c13Complete: the structurally complete value of ct (every list one element, …) with every byte
// value 0..255 at every position, in 192-position units.
func c13Complete(ct *cgenType) []cgenSeed {
	devs := cgenComplete(ct.T, nil, ct.Ctx)
	v, _ := cgenBuild(ct.T, devs, ct.Ctx)
	var enc []byte
	var err error
	if p, _, _ := vlib.Guard(func() { enc, err = ct.Enc(v.Addr()) }); p || err != nil || len(enc) > 4096 {
		return nil
	}
	var out []cgenSeed
	for from := 0; from <= len(enc); from += 192 {
		out = append(out, cgenSeed{ct: ct, devs: devs, enc: enc, structural: true, fullLattice: true, posFrom: from, posTo: from + 192})
	}
	return out
}

// c13CompactTails: seeds whose LAST field on the wire is a compact (C.6) integer taking 2, 3, 4, 5, 7 or
// 9 bytes, alone and preceded by another multi-byte compact integer (the maximum of its field), for
// every type and every one-step shape variant of it (one more list element, a set optional, another
// tag) that ends in a compact integer. Their mutation set is every proper prefix: a cut inside the
// trailing integer must be rejected whatever the bytes read before it were.
func c13CompactTails(ct *cgenType) []cgenSeed {
	enc := func(v reflect.Value) []byte {
		var e []byte
		var err error
		if p, _, _ := vlib.Guard(func() { e, err = ct.Enc(v.Addr()) }); p || err != nil {
			return nil
		}
		return e
	}
	_, pts0 := cgenBuildX(ct.T, nil, ct.Ctx, true)
	bases := [][]cgenDev{nil}
	for _, p := range pts0 {
		d := cgenDev{p.Path, 1}
		if !cgenDevStructural(d) || strings.HasSuffix(p.Path, "~") {
			continue
		}
		n := 2
		if strings.HasSuffix(p.Path, "#tag") {
			n = p.N
		}
		for o := 1; o < n; o++ {
			bases = append(bases, []cgenDev{{p.Path, o}})
		}
	}
	var out []cgenSeed
	seen := map[string]bool{}
	for _, base := range bases {
		v0, pts := cgenBuildX(ct.T, base, ct.Ctx, true)
		e0 := enc(v0)
		if e0 == nil || len(e0) == 0 || len(e0) > 4096 {
			continue
		}
		with := func(extra ...cgenDev) []cgenDev {
			d := append([]cgenDev(nil), base...)
			d = append(d, extra...)
			// deviations are applied by path, the order in the list is irrelevant
			return d
		}
		var compact []int
		for j, p := range pts {
			if !p.Int || p.N < 3 {
				continue
			}
			v1, _ := cgenBuildX(ct.T, with(cgenDev{p.Path, 2}), ct.Ctx, true)
			if e1 := enc(v1); e1 != nil && len(e1) != len(e0) {
				compact = append(compact, j)
			}
		}
		if len(compact) == 0 {
			continue
		}
		q := compact[len(compact)-1]
		vq, _ := cgenBuildX(ct.T, with(cgenDev{pts[q].Path, 2}), ct.Ctx, true)
		if eq := enc(vq); eq == nil || !bytes.HasPrefix(eq, e0[:len(e0)-1]) {
			continue // the last compact integer is not the last thing on the wire
		}
		prev := -1
		if len(compact) > 1 {
			prev = compact[len(compact)-2]
		}
		for oq := 1; oq < pts[q].N; oq++ {
			for _, withPrev := range []bool{false, true} {
				if withPrev && prev < 0 {
					continue
				}
				devs := with(cgenDev{pts[q].Path, oq})
				if withPrev {
					devs = with(cgenDev{pts[prev].Path, 2}, cgenDev{pts[q].Path, oq})
				}
				v, _ := cgenBuildX(ct.T, devs, ct.Ctx, true)
				e := enc(v)
				if e == nil || len(e) > 4096 || seen[string(e)] {
					continue
				}
				seen[string(e)] = true
				out = append(out, cgenSeed{ct: ct, devs: devs, enc: e, structural: true, ext: true, prefixOnly: true})
			}
		}
	}
	return out
}

func TestVerif_C13(t *testing.T) {
	r := vlib.Start(t, "C13")
	if !cgenIsChild() {
		defer r.Finish()
	}
	if err := cgenInit(); err != nil {
		t.Fatal(err)
	}
	full := r.Thorough()

	var rc c13Case
	if r.IsReplay(&rc) {
		ct := cgenByName[rc.Type]
		v, _ := cgenBuildX(ct.T, rc.Devs, ct.Ctx, rc.Ext)
		enc, err := ct.Enc(v.Addr())
		if err != nil {
			t.Fatalf("replay: seed cannot be encoded: %v", err)
		}
		run := &c13Runner{sink: cgenDirectSink{r}, full: full}
		run.runCase(0, cgenSeed{ct: ct, devs: rc.Devs, enc: enc, structural: true, ext: rc.Ext}, rc.Mut)
		return
	}

	if cgenIsChild() {
		sink, err := cgenNewChildSink()
		if err != nil {
			t.Fatal(err)
		}
		units, err := cgenLoadSeeds(os.Getenv("CGEN_SEEDS"))
		if err != nil {
			t.Fatal(err)
		}
		run := &c13Runner{sink: sink, full: full}
		for _, seed := range units {
			if seed.unit < sink.fromUnit {
				continue
			}
			ord := uint64(0)
			seed.Mutations(full, func(m cgenMut) {
				if sink.Begin(seed.unit, ord) {
					run.runCase(seed.unit, seed, m)
				}
				ord++
			})
		}
		sink.Done()
		return
	}

	crashed, err := cgenProbe()
	if err != nil {
		t.Fatal(err)
	}
	all := c13Units(r, crashed)
	var units []cgenSeed
	byUnit := map[uint64]cgenSeed{}
	// parent: a child killed by a case = that input was not accepted (C14 owns crash safety)
	var planned uint64
	for u, seed := range all {
		if r.Mine(uint64(u)) {
			seed.unit = uint64(u)
			units = append(units, seed)
			byUnit[seed.unit] = seed
			planned += seed.MutCount(full)
		}
	}
	if os.Getenv("C13_INPROC") != "" { // profiling aid: no isolation
		run := &c13Runner{sink: cgenDirectSink{r}, full: full}
		for _, seed := range units {
			seed.Mutations(full, func(m cgenMut) { run.runCase(seed.unit, seed, m) })
		}
		return
	}
	r.Extra("sum_planned_cases", planned)
	r.Extra("seeds_total", len(all))
	for _, seed := range units {
		if !r.WantSample() {
			break
		}
		r.Sample(map[string]interface{}{"type": seed.ct.Name, "seed_deviations": seed.devs, "seed_encoding": cgenHex(seed.enc),
			"mutations": seed.MutCount(full)})
	}
	deaths := uint64(0)
	skipped := cgenParentRun(r, t, "TestVerif_C13", units, nil, func(d cgenDeath) {
		deaths++
		r.EvalN(1)
		r.Space(1)
		r.Class(byUnit[d.Unit].ct.Name + "|killed the process (" + d.Why + ")")
	})
	r.Extra("sum_cases_that_killed_the_decoder_process", deaths)
	r.Extra("sum_huge_length_inputs_left_to_C14", skipped)
	if r.Evaluations()+skipped != planned {
		r.Cap(fmt.Sprintf("shard %d: %d evaluated + %d left to C14 of %d enumerated cases", r.Shard, r.Evaluations(), skipped, planned))
	}
}
