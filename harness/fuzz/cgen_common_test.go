package fuzz

// cgen — shared machinery of the codec checks C11, C13, C14, C17.
//
//   * a reflection-driven bounded-exhaustive value generator ("all values within
//     <= k deviations from the minimal value") with a registry for the fixed-size
//     invariants of the tiny parameter set,
//   * the table of every Encodable+Decodable type of internal/types and the fuzz
//     message types with uniform encode/decode adapters,
//   * structural equality (nil and empty collections identified: the wire format
//     has only a length prefix), and
//   * the byte-string mutation operators and the localiser that attributes a
//     failure to the innermost decoder reproducing it.
//
// It lives in package fuzz because that is the one package that sees the fuzz
// message types, internal/types and internal/utilities/merklization together.

import (
	"bufio"
	"bytes"
	"encoding"
	"encoding/binary"
	"encoding/json"
	"fmt"
	"os"
	"os/exec"
	"reflect"
	"regexp"
	"runtime/debug"
	"sort"
	"strconv"
	"strings"
	"syscall"
	"testing"
	"time"

	"github.com/New-JAMneration/JAM-Protocol/internal/types"
	"github.com/New-JAMneration/JAM-Protocol/internal/zzverif/vlib"
)

// ---------------------------------------------------------------------------
// parameters
// ---------------------------------------------------------------------------

// cgenSetTiny pins the chain parameters the fixed-size registry depends on.
// Done through direct assignment (SetTinyMode logs).
func cgenSetTiny() {
	types.TEST_MODE = "tiny"
	types.ValidatorsCount = 6
	types.CoresCount = 2
	types.EpochLength = 12
	types.ValidatorsSuperMajority = 5
	types.AvailBitfieldBytes = 1
	types.MaxLookupAge = 24
}

// ---------------------------------------------------------------------------
// generator
// ---------------------------------------------------------------------------

// cgenDev is one deviation: choice point Path takes option Opt (>0).
type cgenDev struct {
	P string `json:"p"`
	O int    `json:"o"`
}

type cgenPoint struct {
	Path string
	N    int
	Int  bool // an integer choice point
}

type cgenBuilder struct {
	dev    map[string]int
	points []cgenPoint
	used   int
	ext    bool // extended integer domain (values whose compact encodings take 2, 3, 4, 5 and 9 bytes)
}

func (b *cgenBuilder) choose(path string, n int) int {
	b.points = append(b.points, cgenPoint{Path: path, N: n})
	if o, ok := b.dev[path]; ok {
		b.used++
		if o >= n {
			panic(fmt.Sprintf("cgen: option %d out of range at %s (n=%d)", o, path, n))
		}
		return o
	}
	return 0
}

func cgenPattern(n int, salt byte) []byte {
	o := make([]byte, n)
	for i := range o {
		o[i] = byte((i+int(salt))%251) + 1
	}
	return o
}

var cgenBlobs = [][]byte{nil, {0x00}, {0xA5, 0x5A}, cgenPattern(130, 7)}
var cgenStrings = []string{"", "a", string(cgenPattern(130, 40))}
var cgenStorageKeys = []string{"k", "", string(cgenPattern(40, 3))}

var (
	cgenTWorkExecResult = reflect.TypeOf(types.WorkExecResult{})
	cgenTTicketsOrKeys  = reflect.TypeOf(types.TicketsOrKeys{})
	cgenTOperandOrDT    = reflect.TypeOf(types.OperandOrDeferredTransfer{})
	cgenTBitfield       = reflect.TypeOf(types.Bitfield{})
	cgenTMessage        = reflect.TypeOf(Message{})
	cgenTASO            = reflect.TypeOf(types.AccumulatedServiceOutput{})
	cgenTStorage        = reflect.TypeOf(types.Storage{})
	cgenTState          = reflect.TypeOf(types.State{})
)

var cgenWorkExecTags = []types.WorkExecResultType{
	types.WorkExecResultOk, types.WorkExecResultOutOfGas, types.WorkExecResultPanic,
	types.WorkExecResultBadExports, types.WorkExecResultReportOversize,
	types.WorkExecResultBadCode, types.WorkExecResultCodeOversize,
}

// cgenFixedLen: sequence types whose length is a protocol constant.
func cgenFixedLen(t reflect.Type) (int, bool) {
	switch t {
	case reflect.TypeOf(types.ValidatorsData{}), reflect.TypeOf(types.ValidatorsStatistics{}):
		return types.ValidatorsCount, true
	case reflect.TypeOf(types.TicketsMark{}), reflect.TypeOf(types.ReadyQueue{}), reflect.TypeOf(types.AccumulatedQueue{}):
		return types.EpochLength, true
	case reflect.TypeOf(types.CoresStatistics{}), reflect.TypeOf(types.AuthPools{}), reflect.TypeOf(types.AuthQueues{}),
		reflect.TypeOf(types.AvailabilityAssignments{}), reflect.TypeOf(types.ServiceIDList{}):
		return types.CoresCount, true
	case reflect.TypeOf(types.AuthQueue{}):
		return types.AuthQueueSize, true
	}
	return 0, false
}

// cgenFixedField: struct fields (plain slice types) with a constant length.
func cgenFixedField(owner reflect.Type, field string) (int, bool) {
	switch owner.Name() + "." + field {
	case "EpochMark.Validators":
		return types.ValidatorsCount, true
	case "Verdict.Votes":
		return types.ValidatorsSuperMajority, true
	}
	return 0, false
}

// cgenIntDomain: {0,1,max}, narrowed where the wire reserves bits.
func cgenIntDomain(owner reflect.Type, field string, bits int) []uint64 {
	if owner != nil && owner.Name() == "ImportSpec" && field == "Index" {
		return []uint64{0, 1, 0x7FFF} // bit 15 is the "hash is a work-package hash" flag on the wire
	}
	max := ^uint64(0)
	if bits < 64 {
		max = (uint64(1) << uint(bits)) - 1
	}
	return []uint64{0, 1, max}
}

// cgenIntDomainExt appends, to the basic {0,1,max}, values chosen for their compact (C.6) encodings: 2^7 (2 bytes),
// 2^14 (3), 2^21 (4), 2^28-1 (4 bytes, high bits carried by the prefix byte), 2^28 (5), 2^49-1 (7 bytes, prefix
// carries a bit), 2^56 (9) — as far as they fit the field and lie below its maximum.
func cgenIntDomainExt(dom []uint64, bits int) []uint64 {
	max := dom[len(dom)-1]
	out := append([]uint64(nil), dom...)
	for _, x := range []uint64{1 << 7, 1 << 14, 1 << 21, 1<<28 - 1, 1 << 28, 1<<49 - 1, 1 << 56} {
		if x < max {
			out = append(out, x)
		}
	}
	return out
}

type cgenCtx struct {
	owner    reflect.Type // enclosing struct type (for field-level registry)
	field    string
	fixedLen int // >0: forced sequence length
	key      bool
	noDelta  bool
}

func (b *cgenBuilder) build(t reflect.Type, path string, cx cgenCtx) reflect.Value {
	v := reflect.New(t).Elem()
	b.fill(v, path, cx)
	return v
}

func (b *cgenBuilder) fill(v reflect.Value, path string, cx cgenCtx) {
	t := v.Type()
	// ---- variants / special types ----
	switch t {
	case cgenTWorkExecResult:
		tag := b.choose(path+"#tag", len(cgenWorkExecTags))
		v.Field(0).SetString(string(cgenWorkExecTags[tag]))
		if tag == 0 {
			o := b.choose(path+".Data~", len(cgenBlobs))
			v.Field(1).SetBytes(append([]byte(nil), cgenBlobs[o]...))
		}
		return
	case cgenTTicketsOrKeys:
		tag := b.choose(path+"#tag", 2)
		f := v.Field(tag)
		f.Set(reflect.MakeSlice(f.Type(), types.EpochLength, types.EpochLength))
		for i := 0; i < types.EpochLength; i++ {
			b.fill(f.Index(i), fmt.Sprintf("%s.%s[%d]", path, t.Field(tag).Name, i), cgenCtx{})
		}
		return
	case cgenTOperandOrDT:
		tag := b.choose(path+"#tag", 2)
		f := v.Field(tag)
		f.Set(reflect.New(f.Type().Elem()))
		b.fill(f.Elem(), path+"."+t.Field(tag).Name+"*", cgenCtx{})
		return
	case cgenTBitfield:
		n := types.CoresCount
		v.Set(reflect.MakeSlice(t, n, n))
		for i := 0; i < n; i++ {
			v.Index(i).SetUint(uint64(b.choose(fmt.Sprintf("%s[%d]", path, i), 2)))
		}
		return
	case cgenTMessage:
		tag := b.choose(path+"#tag", len(cgenMsgTags))
		mt := cgenMsgTags[tag]
		v.FieldByName("Type").SetUint(uint64(mt.typ))
		f := v.FieldByName(mt.field)
		f.Set(reflect.New(f.Type().Elem()))
		b.fill(f.Elem(), path+"."+mt.field+"*", cgenCtx{})
		return
	}
	switch t.Kind() {
	case reflect.Bool:
		if cx.owner == cgenTASO {
			v.SetBool(true) // set-like map: the value is always true
			return
		}
		v.SetBool(b.choose(path, 2) == 1)
	case reflect.Uint8, reflect.Uint16, reflect.Uint32, reflect.Uint64:
		dom := cgenIntDomain(cx.owner, cx.field, t.Bits())
		if b.ext {
			dom = cgenIntDomainExt(dom, t.Bits())
		}
		o := b.choose(path, len(dom))
		b.points[len(b.points)-1].Int = true
		v.SetUint(dom[o])
	case reflect.String:
		v.SetString(cgenStrings[b.choose(path+"~", len(cgenStrings))])
	case reflect.Array:
		if t.Elem().Kind() == reflect.Uint8 {
			n := 2
			if cx.key {
				n = 3
			}
			o := b.choose(path, n)
			if o > 0 {
				reflect.Copy(v, reflect.ValueOf(cgenPattern(t.Len(), byte(17*o))))
			}
			return
		}
		for i := 0; i < t.Len(); i++ {
			b.fill(v.Index(i), fmt.Sprintf("%s[%d]", path, i), cgenCtx{key: cx.key})
		}
	case reflect.Slice:
		if t.Elem().Kind() == reflect.Uint8 {
			o := b.choose(path+"~", len(cgenBlobs))
			if cgenBlobs[o] != nil {
				v.SetBytes(append([]byte(nil), cgenBlobs[o]...))
			}
			return
		}
		n, fixed := cx.fixedLen, cx.fixedLen > 0
		if !fixed {
			n, fixed = cgenFixedLen(t)
		}
		if !fixed {
			n = b.choose(path+"#len", 3)
		}
		if n == 0 && !fixed {
			return
		}
		v.Set(reflect.MakeSlice(t, n, n))
		for i := 0; i < n; i++ {
			b.fill(v.Index(i), fmt.Sprintf("%s[%d]", path, i), cgenCtx{})
		}
	case reflect.Map:
		if cx.noDelta && t == reflect.TypeOf(types.ServiceAccountState{}) {
			return
		}
		keys := cgenKeyDomain(t)
		// options: {}, {k0}, {k1}, {k2}, {k0,k1}, {k0,k2}, {k1,k2}
		sel := cgenKeySubsets[b.choose(path+"#keys", len(cgenKeySubsets))]
		if len(sel) == 0 {
			return
		}
		v.Set(reflect.MakeMap(t))
		for _, ki := range sel {
			ev := reflect.New(t.Elem()).Elem()
			b.fill(ev, fmt.Sprintf("%s{%d}", path, ki), cgenCtx{owner: t})
			v.SetMapIndex(keys[ki], ev)
		}
	case reflect.Ptr:
		if b.choose(path+"#some", 2) == 1 {
			v.Set(reflect.New(t.Elem()))
			b.fill(v.Elem(), path+"*", cgenCtx{})
		}
	case reflect.Struct:
		for i := 0; i < t.NumField(); i++ {
			f := t.Field(i)
			c := cgenCtx{owner: t, field: f.Name, noDelta: cx.noDelta}
			if n, ok := cgenFixedField(t, f.Name); ok {
				c.fixedLen = n
			}
			b.fill(v.Field(i), path+"."+f.Name, c)
		}
	default:
		panic("cgen: unsupported kind " + t.Kind().String() + " at " + path)
	}
}

var cgenKeySubsets = [][]int{{}, {0}, {1}, {2}, {0, 1}, {0, 2}, {1, 2}}

var cgenKeyCache = map[reflect.Type][]reflect.Value{}

// cgenKeyDomain: three distinct keys per map type.
func cgenKeyDomain(mt reflect.Type) []reflect.Value {
	if k, ok := cgenKeyCache[mt]; ok {
		return k
	}
	kt := mt.Key()
	var out []reflect.Value
	if kt.Kind() == reflect.String {
		for _, s := range cgenStorageKeys {
			out = append(out, reflect.ValueOf(s).Convert(kt))
		}
	} else {
		seen := map[string]bool{}
		cgenEnumerate(kt, 1, cgenCtx{key: true}, func(_ []cgenDev, v reflect.Value, _ int) bool {
			s := fmt.Sprintf("%v", v.Interface())
			if !seen[s] && len(out) < 3 {
				seen[s] = true
				out = append(out, v)
			}
			return len(out) < 3
		})
	}
	if len(out) < 3 {
		panic("cgen: key domain too small for " + mt.String())
	}
	cgenKeyCache[mt] = out
	return out
}

// cgenBuild builds the value of type t with the given deviations.
func cgenBuild(t reflect.Type, devs []cgenDev, cx cgenCtx) (reflect.Value, []cgenPoint) {
	return cgenBuildX(t, devs, cx, false)
}

// cgenBuildX: ext selects the extended integer domain (option indices 0..2 mean the same in both).
func cgenBuildX(t reflect.Type, devs []cgenDev, cx cgenCtx, ext bool) (reflect.Value, []cgenPoint) {
	b := &cgenBuilder{dev: map[string]int{}, ext: ext}
	for _, d := range devs {
		b.dev[d.P] = d.O
	}
	v := b.build(t, "", cx)
	if b.used != len(devs) {
		panic(fmt.Sprintf("cgen: %d of %d deviations not applicable for %s: %v", len(devs)-b.used, len(devs), t, devs))
	}
	return v, b.points
}

// cgenEnumerate calls f with every value of t within <= k deviations of the
// minimal value (each exactly once), in a deterministic order. f returns false
// to stop. npoints = number of choice points of that value.
func cgenEnumerate(t reflect.Type, k int, cx cgenCtx, f func(devs []cgenDev, v reflect.Value, npoints int) bool) {
	var rec func(devs []cgenDev, start int) bool
	rec = func(devs []cgenDev, start int) bool {
		v, pts := cgenBuild(t, devs, cx)
		if !f(devs, v, len(pts)) {
			return false
		}
		if len(devs) >= k {
			return true
		}
		for j := start; j < len(pts); j++ {
			for o := 1; o < pts[j].N; o++ {
				nd := append(append([]cgenDev(nil), devs...), cgenDev{pts[j].Path, o})
				if !rec(nd, j+1) {
					return false
				}
			}
		}
		return true
	}
	rec(nil, 0)
}

// cgenComplete: the deviations of a "structurally complete" value of t on top of base: every list
// has one element, every optional is set, every map has one key, every blob/string is non-empty,
// repeated until no new choice point appears (variant tags keep their base/default option).
func cgenComplete(t reflect.Type, base []cgenDev, cx cgenCtx) []cgenDev {
	devs := append([]cgenDev(nil), base...)
	have := map[string]bool{}
	for _, d := range devs {
		have[d.P] = true
	}
	for round := 0; round < 12; round++ {
		_, pts := cgenBuild(t, devs, cx)
		added := false
		for _, p := range pts {
			if have[p.Path] || strings.HasSuffix(p.Path, "#tag") || !cgenDevStructural(cgenDev{p.Path, 1}) {
				continue
			}
			o := 1
			if strings.HasSuffix(p.Path, "~") {
				o = 2 // the 2-byte blob / 130-char string would do too; 2 bytes keeps the seed small
				if p.N <= 2 {
					o = 1
				}
			}
			have[p.Path] = true
			devs = append(devs, cgenDev{p.Path, o})
			added = true
		}
		if !added {
			break
		}
	}
	return devs
}

// cgenGroups lists the first-level deviations of t (the sharding unit): group 0
// is the minimal value alone; group g>0 is "first deviation = g-th (point,option)"
// with everything that extends it.
func cgenGroups(t reflect.Type, cx cgenCtx) [][]cgenDev {
	_, pts := cgenBuild(t, nil, cx)
	out := [][]cgenDev{nil}
	for j := range pts {
		for o := 1; o < pts[j].N; o++ {
			out = append(out, []cgenDev{{pts[j].Path, o}})
		}
	}
	return out
}

// cgenEnumerateGroup enumerates group g (see cgenGroups) up to k deviations.
func cgenEnumerateGroup(t reflect.Type, first []cgenDev, k int, cx cgenCtx, f func(devs []cgenDev, v reflect.Value, npoints int) bool) {
	if len(first) == 0 {
		v, pts := cgenBuild(t, nil, cx)
		f(nil, v, len(pts))
		return
	}
	if k < 1 {
		return
	}
	var rec func(devs []cgenDev, start int) bool
	rec = func(devs []cgenDev, start int) bool {
		v, pts := cgenBuild(t, devs, cx)
		if !f(devs, v, len(pts)) {
			return false
		}
		if len(devs) >= k {
			return true
		}
		for j := start; j < len(pts); j++ {
			for o := 1; o < pts[j].N; o++ {
				nd := append(append([]cgenDev(nil), devs...), cgenDev{pts[j].Path, o})
				if !rec(nd, j+1) {
					return false
				}
			}
		}
		return true
	}
	_, pts := cgenBuild(t, first, cx)
	idx := -1
	for j := range pts {
		if pts[j].Path == first[0].P {
			idx = j
			break
		}
	}
	rec(first, idx+1)
}

// ---------------------------------------------------------------------------
// structural equality
// ---------------------------------------------------------------------------

// cgenDiff returns "" when a and b are equal, else the path of the first
// difference. nil and empty slices/maps are identified (a length prefix of 0 is
// all the wire carries); nil and non-nil pointers are different (the wire has a
// discriminator for them).
func cgenDiff(a, b reflect.Value, path string) string {
	if a.Type() != b.Type() {
		return path + "(type)"
	}
	switch a.Kind() {
	case reflect.Slice:
		if a.Len() != b.Len() {
			return path + "#len"
		}
		if a.Type().Elem().Kind() == reflect.Uint8 {
			if !bytes.Equal(a.Bytes(), b.Bytes()) {
				return path
			}
			return ""
		}
		for i := 0; i < a.Len(); i++ {
			if d := cgenDiff(a.Index(i), b.Index(i), path+"[]"); d != "" {
				return d
			}
		}
	case reflect.Array:
		for i := 0; i < a.Len(); i++ {
			if d := cgenDiff(a.Index(i), b.Index(i), path); d != "" {
				return d
			}
		}
	case reflect.Map:
		if a.Len() != b.Len() {
			return path + "#keys"
		}
		ks := a.MapKeys()
		sort.Slice(ks, func(i, j int) bool { return fmt.Sprint(ks[i].Interface()) < fmt.Sprint(ks[j].Interface()) })
		for _, k := range ks {
			bv := b.MapIndex(k)
			if !bv.IsValid() {
				return path + "#keys"
			}
			if d := cgenDiff(a.MapIndex(k), bv, path+"{}"); d != "" {
				return d
			}
		}
	case reflect.Ptr:
		if a.IsNil() != b.IsNil() {
			return path + "#some"
		}
		if !a.IsNil() {
			return cgenDiff(a.Elem(), b.Elem(), path+"*")
		}
	case reflect.Struct:
		for i := 0; i < a.NumField(); i++ {
			if d := cgenDiff(a.Field(i), b.Field(i), path+"."+a.Type().Field(i).Name); d != "" {
				return d
			}
		}
	default:
		if !reflect.DeepEqual(a.Interface(), b.Interface()) {
			return path
		}
	}
	return ""
}

// ---------------------------------------------------------------------------
// type table
// ---------------------------------------------------------------------------

type cgenType struct {
	Name string // e.g. "types.Header", "fuzz.PeerInfo"
	T    reflect.Type
	// Enc encodes *T (ptr) with a fresh encoder.
	Enc func(ptr reflect.Value) ([]byte, error)
	// Dec decodes into a fresh *T; consumed < 0 when the API does not report it.
	Dec func(data []byte) (ptr reflect.Value, consumed int, err error)
	// RestOfInput: the wire format of T runs to the end of the input (it is not
	// self-delimiting), so T is only ever decoded from an exact slice.
	RestOfInput bool
	Fuzz        bool // fuzz-protocol message type
	Ctx         cgenCtx
	// Variant: "" for the plain table entry; otherwise the decoder-side context this entry runs with
	// (a HashSegmentMap); variant entries are in cgenByName and cgenVariants, not in cgenAll.
	Variant string
}

// cgenHSMRoots contains the tree roots the generated ImportSpecs use (zero and the pattern hash);
// cgenHSMOther contains an unrelated root only.
var cgenHSMRoots = func() types.HashSegmentMap {
	var z, h, v types.OpaqueHash
	copy(h[:], cgenPattern(32, 17))
	copy(v[:], cgenPattern(32, 99))
	return types.HashSegmentMap{z: v, h: v}
}()
var cgenHSMOther = func() types.HashSegmentMap {
	var o types.OpaqueHash
	copy(o[:], cgenPattern(32, 201))
	return types.HashSegmentMap{o: o}
}()

// cgenVariants[variant][T]: the entry of T under that decoder-side context.
var cgenVariants = map[string]map[reflect.Type]*cgenType{}

// cgenLocVariant: the variant of the seed being localised (child decoders run in the same context).
var cgenLocVariant string

func cgenInVariant(ct *cgenType) *cgenType {
	if cgenLocVariant != "" {
		if v := cgenVariants[cgenLocVariant][ct.T]; v != nil {
			return v
		}
	}
	return ct
}

// cgenHSM is installed on every encoder/decoder: ImportSpec refuses to work with
// a nil map. cgenHSMHit additionally contains the pattern hash (used by the
// ImportSpec family in a second pass).
var cgenHSM = types.HashSegmentMap{}
var cgenHSMHit = func() types.HashSegmentMap {
	var h types.OpaqueHash
	copy(h[:], cgenPattern(32, 17))
	return types.HashSegmentMap{h: h}
}()

func cgenCodecType(name string, t reflect.Type) *cgenType {
	return cgenCodecTypeHSM(name, t, cgenHSM)
}

func cgenCodecTypeHSM(name string, t reflect.Type, hsm types.HashSegmentMap) *cgenType {
	return &cgenType{Name: name, T: t,
		Enc: func(ptr reflect.Value) ([]byte, error) {
			e := types.NewEncoder()
			e.SetHashSegmentMap(hsm)
			return e.Encode(ptr.Interface())
		},
		Dec: func(data []byte) (reflect.Value, int, error) {
			p := reflect.New(t)
			d := types.NewDecoder()
			d.SetHashSegmentMap(hsm)
			n, err := d.DecodeWithConsumed(data, p.Interface())
			return p, n, err
		},
	}
}

func cgenBinaryType(name string, t reflect.Type) *cgenType {
	return &cgenType{Name: name, T: t, Fuzz: true,
		Enc: func(ptr reflect.Value) ([]byte, error) {
			return ptr.Interface().(encoding.BinaryMarshaler).MarshalBinary()
		},
		Dec: func(data []byte) (reflect.Value, int, error) {
			p := reflect.New(t)
			err := p.Interface().(encoding.BinaryUnmarshaler).UnmarshalBinary(data)
			return p, -1, err
		},
	}
}

type cgenMsgTag struct {
	typ   MessageType
	field string
}

var cgenMsgTags = []cgenMsgTag{
	{MessageType_PeerInfo, "PeerInfo"}, {MessageType_SetState, "SetState"}, {MessageType_StateRoot, "StateRoot"},
	{MessageType_ImportBlock, "ImportBlock"}, {MessageType_GetState, "GetState"}, {MessageType_State, "State"},
	{MessageType_ErrorMessage, "Error"},
}

var cgenTypeNames = []string{
	"AccumulatedQueue", "AccumulatedQueueItem", "AccumulatedServiceHash", "AccumulatedServiceOutput", "AlwaysAccumulateMap",
	"Ancestry", "AncestryItem", "AssurancesExtrinsic", "AuthPool", "AuthPools", "AuthQueue", "AuthQueues", "Authorizer",
	"AuthorizerHash", "AvailAssurance", "AvailabilityAssignment", "AvailabilityAssignments", "BandersnatchPublic",
	"BandersnatchRingCommitment", "BandersnatchRingVrfSignature", "BandersnatchVrfSignature", "BeefyRoot", "Bitfield", "Block",
	"BlockInfo", "BlocksHistory", "BlsPublic", "BoundaryNode", "ByteSequence", "CoreActivityRecord", "CoreIndex",
	"CoresStatistics", "Culprit", "DeferredTransfer", "DisputesExtrinsic", "DisputesRecords", "Ed25519Public",
	"Ed25519Signature", "Entropy", "EntropyBuffer", "EpochMark", "EpochMarkValidatorKeys", "ErasureRoot", "ExportSegment",
	"ExportSegmentMatrix", "ExportsRoot", "Extrinsic", "ExtrinsicData", "ExtrinsicDataList", "ExtrinsicSpec", "Fault", "Gas",
	"GuaranteesExtrinsic", "Header", "HeaderHash", "ImportSpec", "Judgement", "LastAccOut", "LookupMetaMapEntry",
	"LookupMetaMapkey", "MetaCode", "Mmr", "OffendersMark", "OpaqueHash", "OpaqueHashMatrix", "Operand",
	"OperandOrDeferredTransfer", "Preimage", "PreimagesExtrinsic", "PreimagesMapEntry", "Privileges", "ReadyQueue",
	"ReadyQueueItem", "ReadyRecord", "RecentBlocks", "RefineContext", "RefineLoad", "ReportGuarantee", "ReportedWorkPackage",
	"SafroleState", "SegmentRootLookup", "SegmentRootLookupItem", "ServiceAccount", "ServiceAccountState",
	"ServiceActivityRecord", "ServiceID", "ServiceIDList", "ServiceInfo", "ServicesStatistics", "State", "StateKey",
	"StateKeyVal", "StateKeyVals", "StateRoot", "Statistics", "Storage", "TicketAttempt", "TicketBody", "TicketEnvelope",
	"TicketID", "TicketsAccumulator", "TicketsExtrinsic", "TicketsMark", "TicketsOrKeys", "TimeSlot", "TimeSlotSet", "U16",
	"U32", "U64", "U8", "Validator", "ValidatorActivityRecord", "ValidatorIndex", "ValidatorMetadata", "ValidatorSignature",
	"ValidatorsData", "ValidatorsStatistics", "Verdict", "WorkExecResult", "WorkItem", "WorkPackage", "WorkPackageBundle",
	"WorkPackageHash", "WorkPackageSpec", "WorkReport", "WorkReportHash", "WorkResult",
}

var cgenTypeVals = []interface{}{
	types.AccumulatedQueue{}, types.AccumulatedQueueItem{}, types.AccumulatedServiceHash{}, types.AccumulatedServiceOutput{}, types.AlwaysAccumulateMap{},
	types.Ancestry{}, types.AncestryItem{}, types.AssurancesExtrinsic{}, types.AuthPool{}, types.AuthPools{}, types.AuthQueue{}, types.AuthQueues{}, types.Authorizer{},
	types.AuthorizerHash{}, types.AvailAssurance{}, types.AvailabilityAssignment{}, types.AvailabilityAssignments{}, types.BandersnatchPublic{},
	types.BandersnatchRingCommitment{}, types.BandersnatchRingVrfSignature{}, types.BandersnatchVrfSignature{}, types.BeefyRoot{}, types.Bitfield{}, types.Block{},
	types.BlockInfo{}, types.BlocksHistory{}, types.BlsPublic{}, types.BoundaryNode{}, types.ByteSequence{}, types.CoreActivityRecord{}, types.CoreIndex(0),
	types.CoresStatistics{}, types.Culprit{}, types.DeferredTransfer{}, types.DisputesExtrinsic{}, types.DisputesRecords{}, types.Ed25519Public{},
	types.Ed25519Signature{}, types.Entropy{}, types.EntropyBuffer{}, types.EpochMark{}, types.EpochMarkValidatorKeys{}, types.ErasureRoot{}, types.ExportSegment{},
	types.ExportSegmentMatrix{}, types.ExportsRoot{}, types.Extrinsic{}, types.ExtrinsicData{}, types.ExtrinsicDataList{}, types.ExtrinsicSpec{}, types.Fault{}, types.Gas(0),
	types.GuaranteesExtrinsic{}, types.Header{}, types.HeaderHash{}, types.ImportSpec{}, types.Judgement{}, types.LastAccOut{}, types.LookupMetaMapEntry{},
	types.LookupMetaMapkey{}, types.MetaCode{}, types.Mmr{}, types.OffendersMark{}, types.OpaqueHash{}, types.OpaqueHashMatrix{}, types.Operand{},
	types.OperandOrDeferredTransfer{}, types.Preimage{}, types.PreimagesExtrinsic{}, types.PreimagesMapEntry{}, types.Privileges{}, types.ReadyQueue{},
	types.ReadyQueueItem{}, types.ReadyRecord{}, types.RecentBlocks{}, types.RefineContext{}, types.RefineLoad{}, types.ReportGuarantee{}, types.ReportedWorkPackage{},
	types.SafroleState{}, types.SegmentRootLookup{}, types.SegmentRootLookupItem{}, types.ServiceAccount{}, types.ServiceAccountState{},
	types.ServiceActivityRecord{}, types.ServiceID(0), types.ServiceIDList{}, types.ServiceInfo{}, types.ServicesStatistics{}, types.State{}, types.StateKey{},
	types.StateKeyVal{}, types.StateKeyVals{}, types.StateRoot{}, types.Statistics{}, types.Storage{}, types.TicketAttempt(0), types.TicketBody{}, types.TicketEnvelope{},
	types.TicketID{}, types.TicketsAccumulator{}, types.TicketsExtrinsic{}, types.TicketsMark{}, types.TicketsOrKeys{}, types.TimeSlot(0), types.TimeSlotSet{}, types.U16(0),
	types.U32(0), types.U64(0), types.U8(0), types.Validator{}, types.ValidatorActivityRecord{}, types.ValidatorIndex(0), types.ValidatorMetadata{}, types.ValidatorSignature{},
	types.ValidatorsData{}, types.ValidatorsStatistics{}, types.Verdict{}, types.WorkExecResult{}, types.WorkItem{}, types.WorkPackage{}, types.WorkPackageBundle{},
	types.WorkPackageHash{}, types.WorkPackageSpec{}, types.WorkReport{}, types.WorkReportHash{}, types.WorkResult{},
}

var cgenAll []*cgenType
var cgenByT = map[reflect.Type]*cgenType{}
var cgenByName = map[string]*cgenType{}

// cgenInit builds the type table (idempotent) and cross-checks it against the
// receivers found in the sources of internal/types, so that a type added to the
// codec later cannot silently stay outside the checks.
func cgenInit() error {
	if cgenAll != nil {
		return nil
	}
	cgenSetTiny()
	if len(cgenTypeNames) != len(cgenTypeVals) {
		return fmt.Errorf("cgen: name/value table mismatch")
	}
	for i, n := range cgenTypeNames {
		t := reflect.TypeOf(cgenTypeVals[i])
		if t.Name() != n {
			return fmt.Errorf("cgen: table entry %d: %s vs %s", i, n, t.Name())
		}
		p := reflect.New(t).Interface()
		if _, ok := p.(types.Encodable); !ok {
			return fmt.Errorf("cgen: %s is not Encodable", n)
		}
		if _, ok := p.(types.Decodable); !ok {
			return fmt.Errorf("cgen: %s is not Decodable", n)
		}
		ct := cgenCodecType("types."+n, t)
		if n == "MetaCode" {
			ct.RestOfInput = true
		}
		cgenAll = append(cgenAll, ct)
	}
	// fuzz message types
	ss := cgenCodecType("fuzz.SetState", reflect.TypeOf(SetState{}))
	ss.Fuzz = true
	cgenAll = append(cgenAll, ss,
		cgenBinaryType("fuzz.PeerInfo", reflect.TypeOf(PeerInfo{})),
		cgenBinaryType("fuzz.ErrorMessage", reflect.TypeOf(ErrorMessage{})),
		cgenBinaryType("fuzz.ImportBlock", reflect.TypeOf(ImportBlock{})),
		cgenBinaryType("fuzz.GetState", reflect.TypeOf(GetState{})),
		cgenBinaryType("fuzz.StateRoot", reflect.TypeOf(StateRoot{})),
		cgenBinaryType("fuzz.State", reflect.TypeOf(State{})),
		&cgenType{Name: "fuzz.Message", T: cgenTMessage, Fuzz: true,
			Enc: func(ptr reflect.Value) ([]byte, error) { return ptr.Interface().(*Message).MarshalBinary() },
			Dec: func(data []byte) (reflect.Value, int, error) {
				m := new(Message)
				n, err := m.ReadFrom(bytes.NewReader(data))
				return reflect.ValueOf(m), int(n), err
			}},
	)
	for _, ct := range cgenAll {
		cgenByT[ct.T] = ct
		cgenByName[ct.Name] = ct
	}
	// the ImportSpec family decodes differently depending on the decoder's HashSegmentMap
	for variant, hsm := range map[string]types.HashSegmentMap{"hsm=roots": cgenHSMRoots, "hsm=other": cgenHSMOther} {
		cgenVariants[variant] = map[reflect.Type]*cgenType{}
		for _, n := range []string{"ImportSpec", "WorkItem", "WorkPackage", "WorkPackageBundle"} {
			base := cgenByName["types."+n]
			vt := cgenCodecTypeHSM("types."+n+"["+variant+"]", base.T, hsm)
			vt.Variant = variant
			cgenVariants[variant][base.T] = vt
			cgenByName[vt.Name] = vt
		}
	}
	// cross-check with the sources (cwd of the test is the package directory)
	for _, dir := range []string{"../types", "."} {
		enc, dec := map[string]bool{}, map[string]bool{}
		ents, err := os.ReadDir(dir)
		if err != nil {
			return fmt.Errorf("cgen: cannot list %s: %v", dir, err)
		}
		re := regexp.MustCompile(`(?m)^func \(\w+ \*(\w+)\) (Encode|Decode)\(\w+ \*(?:types\.)?(Encoder|Decoder)\)`)
		for _, e := range ents {
			if !strings.HasSuffix(e.Name(), ".go") || strings.HasSuffix(e.Name(), "_test.go") {
				continue
			}
			src, err := os.ReadFile(dir + "/" + e.Name())
			if err != nil {
				return err
			}
			for _, m := range re.FindAllStringSubmatch(string(src), -1) {
				if m[2] == "Encode" {
					enc[m[1]] = true
				} else {
					dec[m[1]] = true
				}
			}
		}
		pfx := "types."
		if dir == "." {
			pfx = "fuzz."
		}
		for n := range enc {
			if dec[n] && cgenByName[pfx+n] == nil {
				return fmt.Errorf("cgen: %s%s has Encode and Decode in the sources but is not in the type table", pfx, n)
			}
		}
	}
	return nil
}

// ---------------------------------------------------------------------------
// codec helpers
// ---------------------------------------------------------------------------

func cgenErrClass(err error) string {
	if err == nil {
		return "ok"
	}
	s := err.Error()
	s = regexp.MustCompile(`[0-9]+`).ReplaceAllString(s, "N")
	if len(s) > 60 {
		s = s[:60]
	}
	return s
}

func cgenPanicClass(msg string) string {
	msg = regexp.MustCompile(`0x[0-9a-f]+|[0-9]+`).ReplaceAllString(msg, "N")
	if len(msg) > 70 {
		msg = msg[:70]
	}
	return msg
}

// cgenSub lists the codec-typed sub-values of v nearest to it (not v itself):
// the walk stops at every value whose type is in the table.
type cgenSubVal struct {
	ct   *cgenType
	ptr  reflect.Value
	path string
}

func cgenSubs(v reflect.Value, path string, top bool, out *[]cgenSubVal) {
	if !top {
		if ct := cgenByT[v.Type()]; ct != nil && v.CanAddr() {
			*out = append(*out, cgenSubVal{ct, v.Addr(), path})
			return
		}
	}
	switch v.Kind() {
	case reflect.Struct:
		for i := 0; i < v.NumField(); i++ {
			cgenSubs(v.Field(i), path+"."+v.Type().Field(i).Name, false, out)
		}
	case reflect.Slice, reflect.Array:
		if v.Type().Elem().Kind() == reflect.Uint8 {
			return
		}
		for i := 0; i < v.Len(); i++ {
			cgenSubs(v.Index(i), path+"[]", false, out)
		}
	case reflect.Ptr:
		if !v.IsNil() {
			cgenSubs(v.Elem(), path+"*", false, out)
		}
	case reflect.Map:
		ks := v.MapKeys()
		sort.Slice(ks, func(i, j int) bool { return fmt.Sprint(ks[i].Interface()) < fmt.Sprint(ks[j].Interface()) })
		for _, k := range ks {
			// map values are not addressable: copy
			c := reflect.New(v.Type().Elem()).Elem()
			c.Set(v.MapIndex(k))
			cgenSubs(c, path+"{}", false, out)
			kc := reflect.New(v.Type().Key()).Elem()
			kc.Set(k)
			cgenSubs(kc, path+"{key}", false, out)
		}
	}
}

// ---------------------------------------------------------------------------
// seeds and mutations (C13, C14)
// ---------------------------------------------------------------------------

type cgenSeed struct {
	ct   *cgenType
	devs []cgenDev
	enc  []byte
	unit uint64 // global unit index (set by the checks)
	structural bool // every deviation changes the shape of the encoding (see cgenDevStructural)
	ext        bool // built with the extended integer domain
	prefixOnly bool // mutation set = the proper prefixes only (compact-tail seeds)
	// complete seeds: every replacement byte 0..255 at every position, the work split into
	// position ranges [posFrom, posTo) so that one large seed spreads over the shards
	fullLattice     bool
	posFrom, posTo int
}

// Val rebuilds the seed value (*T) from its deviations.
func (s cgenSeed) Val() reflect.Value {
	v, _ := cgenBuildX(s.ct.T, s.devs, s.ct.Ctx, s.ext)
	return v.Addr()
}

// Mutations enumerates the seed's mutation set (see cgenMutations); thorough widens the
// replacement lattice on shape-changing seeds.
func (s cgenSeed) Mutations(thorough bool, f func(m cgenMut)) {
	if s.prefixOnly {
		for p := 0; p < len(s.enc); p++ {
			f(cgenMut{Kind: "prefix", Pos: p})
		}
		return
	}
	if s.fullLattice {
		cgenMutationsRange(s.enc, true, s.posFrom, s.posTo, f)
		return
	}
	cgenMutations(s.enc, thorough && s.structural, f)
}

func (s cgenSeed) MutCount(thorough bool) uint64 {
	n := uint64(0)
	s.Mutations(thorough, func(cgenMut) { n++ })
	return n
}

type cgenSeedRec struct {
	T string    `json:"t"`
	D []cgenDev `json:"d,omitempty"`
	E string    `json:"e"`
	U uint64    `json:"u"`
	S bool      `json:"s,omitempty"`
	X bool      `json:"x,omitempty"`
	P bool      `json:"po,omitempty"`
	F bool      `json:"fl,omitempty"`
	A int       `json:"pa,omitempty"`
	B int       `json:"pb,omitempty"`
}

// cgenSaveSeeds / cgenLoadSeeds: the parent hands its (sharded) seed list to the
// children through a file so that a restarted child does not re-enumerate.
func cgenSaveSeeds(path string, seeds []cgenSeed) error {
	var buf bytes.Buffer
	w := json.NewEncoder(&buf)
	for _, s := range seeds {
		if err := w.Encode(cgenSeedRec{s.ct.Name, s.devs, vlib.Hex(s.enc), s.unit, s.structural, s.ext, s.prefixOnly, s.fullLattice, s.posFrom, s.posTo}); err != nil {
			return err
		}
	}
	return os.WriteFile(path, buf.Bytes(), 0o644)
}

func cgenLoadSeeds(path string) ([]cgenSeed, error) {
	b, err := os.ReadFile(path)
	if err != nil {
		return nil, err
	}
	var out []cgenSeed
	d := json.NewDecoder(bytes.NewReader(b))
	for d.More() {
		var rec cgenSeedRec
		if err := d.Decode(&rec); err != nil {
			return nil, err
		}
		ct := cgenByName[rec.T]
		if ct == nil {
			return nil, fmt.Errorf("cgen: unknown type %s in seed file", rec.T)
		}
		out = append(out, cgenSeed{ct: ct, devs: rec.D, enc: vlib.Unhex(rec.E), unit: rec.U, structural: rec.S, ext: rec.X, prefixOnly: rec.P, fullLattice: rec.F, posFrom: rec.A, posTo: rec.B})
	}
	return out, nil
}

// cgenSeeds: the distinct encodings (<= maxLen bytes) of all values of ct
// within <= k deviations, in enumeration order.
func cgenSeeds(ct *cgenType, k, maxLen int) []cgenSeed { return cgenSeedsSel(ct, k, maxLen, false) }

// cgenDevStructural: a deviation that changes the shape of the encoding (a length,
// an optional, a variant tag, a map's key set, a variable-length blob or string)
// rather than the value of a fixed-width field. Blob/string choice points are
// marked by the builder with a "~" suffix on the path.
func cgenDevStructural(d cgenDev) bool {
	return strings.HasSuffix(d.P, "#len") || strings.HasSuffix(d.P, "#keys") || strings.HasSuffix(d.P, "#some") ||
		strings.HasSuffix(d.P, "#tag") || strings.HasSuffix(d.P, "~")
}

func cgenSeedsSel(ct *cgenType, k, maxLen int, structuralOnly bool) []cgenSeed {
	var out []cgenSeed
	seen := map[string]bool{}
	len0 := -1
	if v0, _ := cgenBuild(ct.T, nil, ct.Ctx); true {
		var e0 []byte
		var err0 error
		if p, _, _ := vlib.Guard(func() { e0, err0 = ct.Enc(v0.Addr()) }); !p && err0 == nil {
			len0 = len(e0)
		}
	}
	cgenEnumerate(ct.T, k, ct.Ctx, func(devs []cgenDev, v reflect.Value, _ int) bool {
		structural := true
		for _, d := range devs {
			if !cgenDevStructural(d) {
				structural = false
			}
		}
		if !structural && len(devs) == 1 && len0 >= 0 {
			// a value of a fixed-width field does not change the shape; a value of a compact
			// (variable-length) integer does: decide by the length of the encoding
			var e1 []byte
			var err1 error
			if p, _, _ := vlib.Guard(func() { e1, err1 = ct.Enc(v.Addr()) }); !p && err1 == nil && len(e1) != len0 {
				structural = true
			}
		}
		if structuralOnly && !structural {
			return true
		}
		var enc []byte
		var err error
		if p, _, _ := vlib.Guard(func() { enc, err = ct.Enc(v.Addr()) }); p || err != nil {
			return true
		}
		if len(enc) > maxLen || seen[string(enc)] {
			return true
		}
		seen[string(enc)] = true
		out = append(out, cgenSeed{ct: ct, devs: append([]cgenDev(nil), devs...), enc: enc, structural: structural})
		return true
	})
	return out
}

// cgenMut is one mutation of a seed encoding.
type cgenMut struct {
	Kind string `json:"k"` // "prefix" | "repl" | "ins"
	Pos  int    `json:"p"`
	Val  string `json:"v,omitempty"` // hex: replacement byte / inserted bytes
}

var cgenInsertVals = []uint64{1 << 56, ^uint64(0), 1 << 16, 1 << 31, 1 << 32}

// cgenExtraIns: further inserted naturals (all >= 2^56, so no allocator satisfies them), set by C14:
// lengths whose product with a plausible element size wraps around 2^64.
var cgenExtraIns []uint64

// cgenWrapLengths: 2^64/e + k for element sizes e and k in {0,1}, and 2^59..2^63.
func cgenWrapLengths() []uint64 {
	var out []uint64
	seen := map[uint64]bool{}
	add := func(v uint64) {
		if !seen[v] {
			seen[v] = true
			out = append(out, v)
		}
	}
	for _, e := range []uint64{2, 4, 8, 16, 32, 64, 96, 128, 144, 336, 784} {
		q := ^uint64(0)/e + 1 // ceil(2^64/e) for e not dividing 2^64, 2^64/e otherwise
		if (^uint64(0))%e != e-1 {
			q = ^uint64(0) / e // floor; q+1 is the first whose product wraps
		}
		add(q)
		add(q + 1)
	}
	for sh := uint(59); sh <= 63; sh++ {
		add(uint64(1) << sh)
	}
	return out
}

func cgenNat(v uint64) []byte {
	b, _ := types.NewEncoder().EncodeUint(v)
	return b
}

func cgenReplLattice(b byte, full bool) []byte {
	if full {
		o := make([]byte, 0, 255)
		for x := 0; x < 256; x++ {
			if byte(x) != b {
				o = append(o, byte(x))
			}
		}
		return o
	}
	var o []byte
	for _, x := range []byte{0, 1, 2, 0x7F, 0x80, 0xFE, 0xFF, b ^ 1, b + 1} {
		dup := x == b
		for _, y := range o {
			if y == x {
				dup = true
			}
		}
		if !dup {
			o = append(o, x)
		}
	}
	return o
}

func cgenApply(s []byte, m cgenMut) []byte {
	switch m.Kind {
	case "prefix":
		return append([]byte(nil), s[:m.Pos]...)
	case "repl":
		o := append([]byte(nil), s...)
		o[m.Pos] = vlib.Unhex(m.Val)[0]
		return o
	case "ins":
		w := vlib.Unhex(m.Val)
		o := make([]byte, 0, len(s)+len(w))
		o = append(o, s[:m.Pos]...)
		o = append(o, w...)
		return append(o, s[m.Pos:]...)
	}
	panic("cgen: bad mutation kind " + m.Kind)
}

// cgenHot: does a declared length at position p of the valid encoding s reach the
// allocator of ct's decoder unchecked? Probed with the harmless length 2^16
// (allocation measured) and with 2^56 (a recoverable "len out of range" panic).
func cgenHot(ct *cgenType, s []byte, p int) bool {
	w := cgenApply(s, cgenMut{Kind: "ins", Pos: p, Val: cgenNat16})
	if vlib.AllocDelta(func() { vlib.Guard(func() { ct.Dec(w) }) }) >= cgenHotAlloc {
		return true
	}
	w = cgenApply(s, cgenMut{Kind: "ins", Pos: p, Val: cgenNat56})
	pn, msg, _ := vlib.Guard(func() { ct.Dec(w) })
	return pn && strings.Contains(msg, "out of range")
}

// cgenMutations enumerates the mutation set of one seed in a fixed order: for
// each position first the insertion of 2^16 (harmless in size; the harness
// measures what it allocates), then the insertions that can only end in an
// error or a recoverable panic (2^56, 2^64-1: no allocator satisfies them), the
// prefix, the replacements, and last the insertions 2^31 and 2^32.
func cgenMutations(s []byte, full bool, f func(m cgenMut)) {
	cgenMutationsRange(s, full, 0, len(s)+1, f)
}

// cgenMutationsRange: the mutations at positions from <= p < to only.
func cgenMutationsRange(s []byte, full bool, from, to int, f func(m cgenMut)) {
	ins := func(p int, v uint64) { f(cgenMut{Kind: "ins", Pos: p, Val: vlib.Hex(cgenNat(v))}) }
	for p := from; p <= len(s) && p < to; p++ {
		ins(p, 1<<16)
		ins(p, 1<<56)
		ins(p, ^uint64(0))
		for _, v := range cgenExtraIns {
			ins(p, v)
		}
		if p < len(s) {
			f(cgenMut{Kind: "prefix", Pos: p})
			for _, x := range cgenReplLattice(s[p], full) {
				f(cgenMut{Kind: "repl", Pos: p, Val: vlib.Hex([]byte{x})})
			}
		}
		ins(p, 1<<31)
		ins(p, 1<<32)
	}
}

var cgenNat16, cgenNat31, cgenNat32, cgenNat56 = vlib.Hex(cgenNat(1 << 16)), vlib.Hex(cgenNat(1 << 31)), vlib.Hex(cgenNat(1 << 32)), vlib.Hex(cgenNat(1 << 56))

// cgenHotAlloc: inserting the length 2^16 made the decoder allocate at least this
// many bytes => the bytes at that position are a length that reaches make().
const cgenHotAlloc = 60000

// cgenHugeLength: mutations that turn the byte(s) at Pos into a natural number
// of 2^21 or more elements which, unlike 2^56 and above, the allocator will try
// to satisfy: insertions of 2^31 / 2^32, and replacement bytes 0xE0..0xFD (the
// 4..7-byte forms).
func cgenHugeLength(m cgenMut) bool {
	switch m.Kind {
	case "ins":
		return m.Val == cgenNat31 || m.Val == cgenNat32
	case "repl":
		b := vlib.Unhex(m.Val)[0]
		return b >= 0xE0 && b <= 0xFD
	}
	return false
}

func cgenMutCount(s []byte, full bool) uint64 {
	n := uint64(0)
	cgenMutations(s, full, func(cgenMut) { n++ })
	return n
}

func cgenHex(b []byte) string {
	if len(b) > 96 {
		return vlib.Hex(b[:96]) + fmt.Sprintf("…(%d bytes)", len(b))
	}
	return vlib.Hex(b)
}

// cgenChildSpans: for the seed value *ptr with encoding s (occupying s[a:b] of
// the top-level string), the candidate (child, span) pairs: every occurrence of
// a child's own encoding inside the parent's span.
type cgenSpan struct {
	sub  cgenSubVal
	a, b int
}

func cgenChildSpans(ptr reflect.Value, s []byte, a, b int) []cgenSpan {
	var subs []cgenSubVal
	cgenSubs(ptr.Elem(), "", true, &subs)
	for i := range subs {
		subs[i].ct = cgenInVariant(subs[i].ct)
	}
	var out []cgenSpan
	cursor := a
	for _, sv := range subs {
		var e []byte
		var err error
		if p, _, _ := vlib.Guard(func() { e, err = sv.ct.Enc(sv.ptr) }); p || err != nil || len(e) == 0 {
			continue
		}
		// children are visited in encoding order (fields, elements): leftmost match after the
		// previous child. Map entries are encoded in key order, which the walk only approximates,
		// so for them the search restarts at the parent's start.
		from := cursor
		if strings.Contains(sv.path, "{") {
			from = a
		}
		if from > b {
			break
		}
		i := bytes.Index(s[from:b], e)
		if i < 0 {
			continue
		}
		out = append(out, cgenSpan{sv, from + i, from + i + len(e)})
		if from == cursor {
			cursor = from + i + len(e)
		}
	}
	return out
}

// cgenDescendPlain: given that ct's decoder reproduces the failure on input in (whose
// bytes are not an edit of ct's own seed encoding), find the innermost child decoder that
// reproduces it when started at the offset its predecessor fields end in the seed layout.
func cgenDescendPlain(ct *cgenType, ptr reflect.Value, in []byte, pred func(ct *cgenType, input []byte, seedPart []byte) (bool, string)) (string, string) {
	name, key := "", ""
	for depth := 0; depth < 8; depth++ {
		var enc []byte
		var err error
		if p, _, _ := vlib.Guard(func() { enc, err = ct.Enc(ptr) }); p || err != nil {
			return name, key
		}
		found := false
		for _, sp := range cgenChildSpans(ptr, enc, 0, len(enc)) {
			if sp.a > len(in) {
				continue
			}
			if ok, k := pred(sp.sub.ct, in[sp.a:], enc[sp.a:sp.b]); ok {
				ct, ptr, in = sp.sub.ct, sp.sub.ptr, in[sp.a:]
				name, key, found = ct.Name, k, true
				break
			}
		}
		if !found {
			break
		}
	}
	return name, key
}

// cgenLocalise descends from the seed's top-level type into the innermost
// sub-value whose decoder, fed the corresponding slice of the mutated string on
// its own, still satisfies pred. Returns the codec type name of that decoder.
// It only labels a violation that has already been established on the
// top-level decoder; it never creates or suppresses one.
func cgenLocalise(seed cgenSeed, m cgenMut, pred func(ct *cgenType, input []byte, seedPart []byte) bool) string {
	name, _ := cgenLocaliseKey(seed, m, "", func(ct *cgenType, input []byte, seedPart []byte) (bool, string) {
		return pred(ct, input, seedPart), ""
	})
	return name
}

// cgenLocaliseKey is cgenLocalise with a facet: pred also returns the facet (key)
// observed at that level; the facet of the innermost reproducing level wins.
func cgenLocaliseKey(seed cgenSeed, m cgenMut, topKey string, pred func(ct *cgenType, input []byte, seedPart []byte) (bool, string)) (string, string) {
	key := topKey
	cgenLocVariant = seed.ct.Variant
	defer func() { cgenLocVariant = "" }()
	w := cgenApply(seed.enc, m)
	cur, a, b := seed.ct, 0, len(seed.enc)
	ptr := seed.Val()
	for depth := 0; depth < 12; depth++ {
		found := false
		spans := cgenChildSpans(ptr, seed.enc, a, b)
		// first the child whose encoding contains the mutated position, then (a mutation can
		// derail the decoding of what follows) the children after it, at their shifted offsets
		delta := 0
		if m.Kind == "ins" {
			delta = len(vlib.Unhex(m.Val))
		}
		for pass := 0; pass < 3 && !found; pass++ {
			for _, sp := range spans {
				part := seed.enc[sp.a:sp.b]
				var in []byte
				switch pass {
				case 0:
					if !(sp.a <= m.Pos && m.Pos < sp.b) {
						continue
					}
					// the sub-decoder sees what it would see in context: the mutated string from
					// the start of its own encoding to the end
					in = w[sp.a:]
				case 1: // a later sibling, read from its original offset (fixed-size predecessors)
					if sp.a <= m.Pos || m.Kind == "prefix" || sp.a > len(w) {
						continue
					}
					in = w[sp.a:]
				case 2: // a later sibling, read from its shifted offset
					if sp.a <= m.Pos || m.Kind != "ins" || sp.a+delta > len(w) {
						continue
					}
					in = w[sp.a+delta:]
				}
				if cgenHugeLength(m) && pass == 0 && cgenHot(sp.sub.ct, part, m.Pos-sp.a) {
					// would make the sub-decoder allocate without bound: do not run it in-process
					continue
				}
				if ok, k := pred(sp.sub.ct, in, part); ok {
					cur, a, b, ptr = sp.sub.ct, sp.a, sp.b, sp.sub.ptr
					key = k
					found = true
					if pass > 0 {
						// the culprit decodes bytes that are not at the mutated position: descend no further
						if sub, k2 := cgenDescendPlain(cur, ptr, in, pred); sub != "" {
							return sub, k2
						}
						return cur.Name, key
					}
					break
				}
			}
		}
		if !found {
			break
		}
	}
	return cur.Name, key
}

// ---------------------------------------------------------------------------
// crash probe
// ---------------------------------------------------------------------------
//
// A decoder that dies with a fatal runtime error (stack overflow, out of
// memory) cannot be contained by recover(). Before any in-process enumeration
// every type's minimal round trip is therefore run once in a child process (the
// test binary re-executed with CGEN_PROBE_FROM=<index>); a type whose probe dies
// is reported by the caller and excluded from the in-process work.

// TestVerif_CgenProbe is the child side; it is a no-op unless CGEN_PROBE_FROM is set.
func TestVerif_CgenProbe(t *testing.T) {
	from := os.Getenv("CGEN_PROBE_FROM")
	if from == "" {
		t.Skip("probe child only")
	}
	debug.SetMaxStack(4 << 20)
	if err := cgenInit(); err != nil {
		t.Fatal(err)
	}
	start, _ := strconv.Atoi(from)
	for i := start; i < len(cgenAll); i++ {
		ct := cgenAll[i]
		fmt.Printf("CGENPROBE BEGIN %d %s\n", i, ct.Name)
		os.Stdout.Sync()
		v, _ := cgenBuild(ct.T, nil, ct.Ctx)
		vlib.Guard(func() {
			enc, err := ct.Enc(v.Addr())
			if err == nil {
				ct.Dec(enc)
			}
		})
		fmt.Printf("CGENPROBE END %d\n", i)
	}
	fmt.Println("CGENPROBE DONE")
}

var cgenCrashed map[string]string

// cgenProbe returns type name -> description of the fatal error, for every type
// whose minimal round trip kills the process.
func cgenProbe() (map[string]string, error) {
	if cgenCrashed != nil {
		return cgenCrashed, nil
	}
	out := map[string]string{}
	if e, ok := os.LookupEnv("CGEN_CRASHED"); ok {
		for _, kv := range strings.Split(e, ";;") {
			if i := strings.Index(kv, "=="); i > 0 {
				out[kv[:i]] = kv[i+2:]
			}
		}
		cgenCrashed = out
		return out, nil
	}
	from := 0
	for from < len(cgenAll) {
		cmd := exec.Command(os.Args[0], "-test.run", "^TestVerif_CgenProbe$", "-test.count", "1", "-test.timeout", "300s")
		cmd.Env = append(os.Environ(), "CGEN_PROBE_FROM="+strconv.Itoa(from), "VERIF_ID=")
		b, _ := cmd.CombinedOutput()
		s := string(b)
		if strings.Contains(s, "CGENPROBE DONE") {
			break
		}
		// find the last BEGIN without END
		last, name := -1, ""
		for _, ln := range strings.Split(s, "\n") {
			var i int
			var n string
			if k, _ := fmt.Sscanf(ln, "CGENPROBE BEGIN %d %s", &i, &n); k == 2 {
				last, name = i, n
			}
		}
		if last < 0 {
			return nil, fmt.Errorf("cgen probe child failed before the first type: %s", s[:min(len(s), 600)])
		}
		why := "fatal error"
		if m := regexp.MustCompile(`fatal error: ([^\n]*)`).FindStringSubmatch(s); m != nil {
			why = m[1]
		}
		if m := regexp.MustCompile(`(?s)goroutine \d+[^\n]*\[running\]:\n([^\n(]*)\(`).FindStringSubmatch(s); m != nil {
			f := m[1]
			if k := strings.LastIndex(f, "/"); k >= 0 {
				f = f[k+1:]
			}
			why += " in " + f
		}
		out[name] = why
		from = last + 1
	}
	cgenCrashed = out
	return out, nil
}

// ---------------------------------------------------------------------------
// process isolation for decoders fed hostile bytes (C13, C14)
// ---------------------------------------------------------------------------
//
// Hostile length prefixes make the real decoders allocate until the runtime
// aborts the process ("fatal error: runtime: out of memory"), which recover()
// cannot contain. The shard worker (parent) therefore runs the cases in a child
// process (the same test binary with CGEN_CHILD=1). Before every case the child
// pwrite()s a fixed-size record (unit, ordinal, counters, hint) to a scratch
// file; classes and violations are streamed to the parent over stdout as they
// occur. When the child dies the parent reads the record, learns exactly which
// case killed it, reports/classifies that case, and starts a new child right
// after it. Nothing is re-executed and nothing is lost.

type cgenSink interface {
	// Begin announces case (unit, ord); false = skip it (already done by an earlier child).
	Begin(unit, ord uint64) bool
	Count(evals, trans uint64)
	Skip(n uint64) // cases of the enumeration deliberately not executed (stated in the rule)
	Class(name string)
	Violation(site, kind, key, detail string, c interface{})
	Hint(s string) // remembered in the record of the following cases (e.g. the decoder that panicked on the twin input)
}

// in-process sink (replay mode)
type cgenDirectSink struct{ r *vlib.Run }

func (d cgenDirectSink) Begin(unit, ord uint64) bool { return true }
func (d cgenDirectSink) Count(e, t uint64)           { d.r.EvalN(e); d.r.TransitionN(t); d.r.Space(e) }
func (d cgenDirectSink) Skip(uint64)                 {}
func (d cgenDirectSink) Class(n string)              { d.r.Class(n) }
func (d cgenDirectSink) Violation(site, kind, key, detail string, c interface{}) {
	d.r.Violation(site, kind, key, detail, c)
}
func (d cgenDirectSink) Hint(string) {}

const cgenRecSize = 160

type cgenChildSink struct {
	fromUnit, fromOrd uint64
	cur               *os.File
	out               *bufio.Writer
	evals, trans      uint64
	skipped           uint64
	hint              string
	deadline          int64
	capped            bool
	classes           map[string]bool
	sigs              map[string]*cgenPending
	sinceFlush        int
	mm                []byte
}

type cgenPending struct {
	Site, Kind, Key string
	n               uint64
}

type cgenEvent struct {
	T      string      `json:"t"`
	N      string      `json:"n,omitempty"`
	Site   string      `json:"site,omitempty"`
	Kind   string      `json:"kind,omitempty"`
	Key    string      `json:"key,omitempty"`
	Detail string      `json:"detail,omitempty"`
	Case   interface{} `json:"case,omitempty"`
	Count  uint64      `json:"count,omitempty"`
}

func cgenIsChild() bool { return os.Getenv("CGEN_CHILD") == "1" }

func cgenNewChildSink() (*cgenChildSink, error) {
	s := &cgenChildSink{classes: map[string]bool{}, sigs: map[string]*cgenPending{}}
	fmt.Sscanf(os.Getenv("CGEN_FROM"), "%d:%d", &s.fromUnit, &s.fromOrd)
	s.deadline, _ = strconv.ParseInt(os.Getenv("CGEN_DEADLINE"), 10, 64)
	f, err := os.OpenFile(os.Getenv("CGEN_CUR"), os.O_RDWR|os.O_CREATE, 0o644)
	if err != nil {
		return nil, err
	}
	if err := f.Truncate(4096); err != nil {
		return nil, err
	}
	// shared file mapping: a store per case instead of a syscall per case; the page
	// cache keeps the last record when the process is killed
	mm, err := syscall.Mmap(int(f.Fd()), 0, 4096, syscall.PROT_READ|syscall.PROT_WRITE, syscall.MAP_SHARED)
	if err != nil {
		return nil, err
	}
	s.mm = mm
	s.cur = f
	s.out = bufio.NewWriterSize(os.Stdout, 1<<16)
	return s, nil
}

func (s *cgenChildSink) writeRec(unit, ord uint64, done byte) {
	rec := s.mm
	binary.LittleEndian.PutUint64(rec[0:], unit)
	binary.LittleEndian.PutUint64(rec[8:], ord)
	binary.LittleEndian.PutUint64(rec[16:], s.evals)
	binary.LittleEndian.PutUint64(rec[24:], s.trans)
	rec[32] = done
	binary.LittleEndian.PutUint64(rec[152:], s.skipped)
}

func (s *cgenChildSink) Begin(unit, ord uint64) bool {
	if unit < s.fromUnit || (unit == s.fromUnit && ord < s.fromOrd) {
		return false
	}
	if s.capped {
		return false
	}
	if s.deadline != 0 && s.sinceFlush&1023 == 0 && time.Now().Unix() >= s.deadline {
		s.capped = true
		return false
	}
	s.writeRec(unit, ord, 0)
	s.sinceFlush++
	if s.sinceFlush >= 8192 {
		s.flushCounts()
	}
	return true
}

func (s *cgenChildSink) Count(e, t uint64) { s.evals += e; s.trans += t }
func (s *cgenChildSink) Skip(n uint64)     { s.skipped += n }
func (s *cgenChildSink) Hint(h string) {
	if len(h) > 110 {
		h = h[:110]
	}
	if h != s.hint {
		s.hint = h
		n := copy(s.mm[34:144], h)
		s.mm[33] = byte(n)
	}
}

func (s *cgenChildSink) emit(ev cgenEvent) {
	b, _ := json.Marshal(ev)
	s.out.WriteString("CGENEV ")
	s.out.Write(b)
	s.out.WriteByte('\n')
	s.out.Flush()
}

func (s *cgenChildSink) Class(n string) {
	if !s.classes[n] {
		s.classes[n] = true
		s.emit(cgenEvent{T: "c", N: n})
	}
}

func (s *cgenChildSink) Violation(site, kind, key, detail string, c interface{}) {
	sig := site + "|" + kind + "|" + key
	if p, ok := s.sigs[sig]; ok {
		p.n++
		return
	}
	s.sigs[sig] = &cgenPending{Site: site, Kind: kind, Key: key}
	if len(detail) > 2000 {
		detail = detail[:2000]
	}
	s.emit(cgenEvent{T: "v", Site: site, Kind: kind, Key: key, Detail: detail, Case: c})
}

func (s *cgenChildSink) flushCounts() {
	s.sinceFlush = 0
	for _, p := range s.sigs {
		if p.n > 0 {
			s.emit(cgenEvent{T: "n", Site: p.Site, Kind: p.Kind, Key: p.Key, Count: p.n})
			p.n = 0
		}
	}
}

func (s *cgenChildSink) Done() {
	s.flushCounts()
	if s.capped {
		s.writeRec(^uint64(0), 0, 2)
		s.emit(cgenEvent{T: "capped"})
		return
	}
	s.writeRec(^uint64(0), 0, 1)
	s.emit(cgenEvent{T: "done"})
}

type cgenDeath struct {
	Unit, Ord uint64
	Hint      string
	Why       string // "out of memory", "stack overflow", ...
	Tail      string
}

// cgenParentRun drives child processes until the whole shard is done. onDeath is
// called for every case that killed a child.
func cgenParentRun(r *vlib.Run, t *testing.T, testName string, seeds []cgenSeed, extraEnv func() []string, onDeath func(d cgenDeath)) (skipped uint64) {
	dir := os.Getenv("VERIF_BDIR")
	if dir == "" {
		dir = os.TempDir()
	}
	seedsPath := fmt.Sprintf("%s/cgen-seeds-%s-%d-%d", dir, r.ID, r.Shard, os.Getpid())
	if err := cgenSaveSeeds(seedsPath, seeds); err != nil {
		t.Fatal(err)
	}
	defer os.Remove(seedsPath)
	curPath := fmt.Sprintf("%s/cgen-cur-%s-%d-%d", dir, r.ID, r.Shard, os.Getpid())
	defer os.Remove(curPath)
	fromUnit, fromOrd := uint64(0), uint64(0)
	deaths := 0
	t0 := time.Now()
	deadline := int64(0)
	if ds, _ := strconv.Atoi(os.Getenv("VERIF_DEADLINE_S")); ds > 0 {
		deadline = t0.Unix() + int64(ds) - 20
	}
	for {
		tc := time.Now()
		os.Remove(curPath)
		cmd := exec.Command(os.Args[0], "-test.run", "^"+testName+"$", "-test.count", "1", "-test.timeout", "0")
		env := []string{}
		for _, e := range os.Environ() {
			if !strings.HasPrefix(e, "VERIF_OUT=") && !strings.HasPrefix(e, "VERIF_REPLAY=") {
				env = append(env, e)
			}
		}
		var cr []string
		for k, v := range cgenCrashed {
			cr = append(cr, k+"=="+v)
		}
		sort.Strings(cr)
		cmd.Env = append(env, "VERIF_OUT=", "CGEN_CHILD=1", fmt.Sprintf("CGEN_FROM=%d:%d", fromUnit, fromOrd), "CGEN_CUR="+curPath,
			"CGEN_CRASHED="+strings.Join(cr, ";;"), "CGEN_SEEDS="+seedsPath, fmt.Sprintf("CGEN_DEADLINE=%d", deadline))
		if extraEnv != nil {
			cmd.Env = append(cmd.Env, extraEnv()...)
		}
		stdout, err := cmd.StdoutPipe()
		if err != nil {
			t.Fatal(err)
		}
		var stderr cgenTailBuf
		cmd.Stderr = &stderr
		if err := cmd.Start(); err != nil {
			t.Fatal(err)
		}
		done := false
		sc := bufio.NewScanner(stdout)
		sc.Buffer(make([]byte, 1<<20), 1<<24)
		var otherOut cgenTailBuf
		for sc.Scan() {
			ln := sc.Text()
			if !strings.HasPrefix(ln, "CGENEV ") {
				otherOut.Write([]byte(ln + "\n"))
				continue
			}
			var ev cgenEvent
			if err := json.Unmarshal([]byte(ln[7:]), &ev); err != nil {
				continue
			}
			switch ev.T {
			case "c":
				r.Class(ev.N)
			case "v":
				r.Violation(ev.Site, ev.Kind, ev.Key, ev.Detail, ev.Case)
			case "n":
				for i := uint64(0); i < ev.Count; i++ {
					r.Violation(ev.Site, ev.Kind, ev.Key, "", nil)
				}
			case "done":
				done = true
			case "capped":
				done = true
				r.Cap("deadline")
			}
		}
		cmd.Wait()
		var rec [cgenRecSize]byte
		if f, err := os.Open(curPath); err == nil {
			f.ReadAt(rec[:], 0)
			f.Close()
		} else {
			t.Fatalf("cgen: child left no record (%v); stderr: %s | stdout: %s", err, stderr.String(), otherOut.String())
		}
		unit := binary.LittleEndian.Uint64(rec[0:])
		ord := binary.LittleEndian.Uint64(rec[8:])
		r.EvalN(binary.LittleEndian.Uint64(rec[16:]))
		r.TransitionN(binary.LittleEndian.Uint64(rec[24:]))
		r.Space(binary.LittleEndian.Uint64(rec[16:]))
		skipped += binary.LittleEndian.Uint64(rec[152:])
		if done && (rec[32] == 1 || rec[32] == 2) {
			return skipped
		}
		tail := stderr.String() + otherOut.String()
		if !strings.Contains(tail, "fatal error") && !strings.Contains(tail, "signal:") && !strings.Contains(tail, "panic:") {
			t.Fatalf("cgen: child ended without DONE and without a fatal error at unit %d case %d: %s", unit, ord, tail)
		}
		if strings.Contains(tail, "panic: test timed out") || strings.Contains(tail, "[recovered]") && !strings.Contains(tail, "fatal error") {
			t.Fatalf("cgen: child harness failure at unit %d case %d: %s", unit, ord, tail)
		}
		why := "fatal error"
		if m := regexp.MustCompile(`fatal error: ([^\n]*)`).FindStringSubmatch(tail); m != nil {
			why = strings.TrimPrefix(m[1], "runtime: ")
		}
		deaths++
		if deaths <= 50 || deaths%100 == 0 {
			fmt.Printf("cgen: shard %d death #%d at unit %d case %d after %.1fs (child ran %.2fs): %s hint=%q\n", r.Shard, deaths, unit, ord, time.Since(t0).Seconds(), time.Since(tc).Seconds(), why, string(rec[34:34+int(rec[33])]))
		}
		onDeath(cgenDeath{Unit: unit, Ord: ord, Hint: string(rec[34 : 34+int(rec[33])]), Why: why, Tail: tail})
		fromUnit, fromOrd = unit, ord+1
		if deaths > 2000000 {
			t.Fatal("cgen: too many child deaths")
		}
	}
}

// cgenTailBuf keeps the first 1.5 KiB and the last 1.5 KiB written to it.
type cgenTailBuf struct {
	head, tail []byte
}

func (b *cgenTailBuf) Write(p []byte) (int, error) {
	n := len(p)
	if len(b.head) < 1536 {
		k := 1536 - len(b.head)
		if k > len(p) {
			k = len(p)
		}
		b.head = append(b.head, p[:k]...)
		p = p[k:]
	}
	b.tail = append(b.tail, p...)
	if len(b.tail) > 1536 {
		b.tail = b.tail[len(b.tail)-1536:]
	}
	return n, nil
}

func (b *cgenTailBuf) String() string { return string(b.head) + " … " + string(b.tail) }
