package work_package

// C32 — work digest C(item, result, gas) (GP 14.8) and package specification
// A(hash, bundle, exports) (GP 14.16). Lattice enumeration against a direct
// restatement of the two equations; the erasure root is not compared.

import (
	"bytes"
	"fmt"
	"strings"
	"testing"

	"github.com/New-JAMneration/JAM-Protocol/PVM"
	"github.com/New-JAMneration/JAM-Protocol/internal/types"
	"github.com/New-JAMneration/JAM-Protocol/internal/zzverif/vlib"
	"golang.org/x/crypto/blake2b"
)

// ---------- reference ----------

type c32RefDigest struct {
	Service      uint32
	CodeHash     [32]byte
	PayloadHash  [32]byte
	AccGas       uint64
	ResultType   string
	ResultData   []byte
	GasUsed      uint64
	Imports      uint64
	ExtrCount    uint64
	ExtrSize     uint64 // exact sum (may exceed 2^32-1)
	ExportsCount uint64
}

// GP 14.8: C(w, l, u) = (s: w_s, c: w_c, y: H(w_y), g: w_a, l, u, i: |w_i|, x: |w_x|, z: Σ_{(h,z) ∈ w_x} z, e: w_e)
func c32RefC(item types.WorkItem, res types.WorkExecResult, gas uint64) c32RefDigest {
	d := c32RefDigest{
		Service:      uint32(item.Service),
		CodeHash:     [32]byte(item.CodeHash),
		PayloadHash:  blake2b.Sum256(item.Payload),
		AccGas:       uint64(item.AccumulateGasLimit),
		ResultType:   string(res.Type),
		ResultData:   res.Data,
		GasUsed:      gas,
		Imports:      uint64(len(item.ImportSegments)),
		ExtrCount:    uint64(len(item.Extrinsic)),
		ExportsCount: uint64(item.ExportCount),
	}
	for _, x := range item.Extrinsic {
		d.ExtrSize += uint64(x.Len)
	}
	return d
}

// GP E.1.2: constant-depth binary Merkle root M(v) = N(C(v)) with
// C(v) = [H("leaf" ‖ v_i) | i < |v|] padded with zero hashes to 2^ceil(log2(max(1,|v|))),
// N([]) = H^0, N([x]) = x, N(v) = H("node" ‖ N(v[..ceil(n/2)]) ‖ N(v[ceil(n/2)..])).
func c32RefM(leaves [][]byte) [32]byte {
	sz := 1
	for sz < len(leaves) {
		sz *= 2
	}
	hs := make([][32]byte, sz)
	for i := range leaves {
		hs[i] = blake2b.Sum256(append([]byte("leaf"), leaves[i]...))
	}
	var n func(v [][32]byte) [32]byte
	n = func(v [][32]byte) [32]byte {
		switch len(v) {
		case 0:
			return [32]byte{}
		case 1:
			return v[0]
		}
		mid := (len(v) + 1) / 2
		a, b := n(v[:mid]), n(v[mid:])
		buf := append([]byte("node"), a[:]...)
		buf = append(buf, b[:]...)
		return blake2b.Sum256(buf)
	}
	return n(hs)
}

// ---------- lattice for C ----------

var c32Lens = []uint32{0, 1, 255, 256, 65535, 65536, 0xFFFFFFFF}

// extrinsic length lists: [], [a], [a,b], and 16-element lists (7 uniform + 7 rotations of the cycle)
func c32ExtrinsicLists() [][]uint32 {
	out := [][]uint32{{}}
	for _, a := range c32Lens {
		out = append(out, []uint32{a})
	}
	for _, a := range c32Lens {
		for _, b := range c32Lens {
			out = append(out, []uint32{a, b})
		}
	}
	for _, a := range c32Lens {
		l := make([]uint32, 16)
		for i := range l {
			l[i] = a
		}
		out = append(out, l)
	}
	for rot := range c32Lens {
		l := make([]uint32, 16)
		for i := range l {
			l[i] = c32Lens[(i+rot)%len(c32Lens)]
		}
		out = append(out, l)
	}
	return out
}

var c32ImportCounts = []int{0, 1, 2, 16}
var c32ExportCounts = []uint16{0, 1, 2, 65535}
var c32Gas = []uint64{0, 1, 1 << 63}
var c32ResultTypes = []types.WorkExecResultType{
	types.WorkExecResultOk, types.WorkExecResultOutOfGas, types.WorkExecResultPanic, types.WorkExecResultBadExports,
	types.WorkExecResultReportOversize, types.WorkExecResultBadCode, types.WorkExecResultCodeOversize,
}

type c32Case struct {
	Part    string   `json:"part"` // C | A
	Imports int      `json:"imports,omitempty"`
	Extr    []uint32 `json:"extr,omitempty"`
	Exports uint16   `json:"exports,omitempty"`
	Result  int      `json:"result,omitempty"`
	Gas     uint64   `json:"gas,omitempty"`
	Variant int      `json:"variant,omitempty"`
	HashPat int      `json:"hashpat,omitempty"` // extrinsic hashes: 0 all distinct, 1 all equal, 2 first == last, 3 adjacent equal (0,0,1,1,…)
	ImpPat  int      `json:"imppat,omitempty"`  // import specs: 0 all distinct, 1 all equal (same tree root and index)
	Mode    string   `json:"mode,omitempty"`
	Bundle  int      `json:"bundle,omitempty"`
	NExp    int      `json:"nexp,omitempty"`
	Items   []int    `json:"items,omitempty"` // part W: per item 4*exportCount + outcome
}

func c32Item(c c32Case) (types.WorkItem, types.WorkExecResult) {
	var it types.WorkItem
	switch c.Variant {
	case 0:
		it.Service = 0
		it.Payload = nil
		it.AccumulateGasLimit = 0
		it.RefineGasLimit = 7
	case 1:
		it.Service = 0xFFFFFFFF
		it.Payload = types.ByteSequence{0x00}
		it.AccumulateGasLimit = 1
		it.RefineGasLimit = 0
		for i := range it.CodeHash {
			it.CodeHash[i] = 0xFF
		}
	case 2:
		it.Service = 0x01020304
		it.Payload = bytes.Repeat([]byte{0xAB, 0x01}, 64)
		it.AccumulateGasLimit = 1 << 63
		it.RefineGasLimit = 1<<64 - 1
		for i := range it.CodeHash {
			it.CodeHash[i] = byte(i)
		}
	default:
		it.Service = 65536
		it.Payload = types.ByteSequence{}
		it.AccumulateGasLimit = 1<<64 - 1
		it.RefineGasLimit = 1 << 32
		it.CodeHash[31] = 1
	}
	it.ExportCount = types.U16(c.Exports)
	it.ImportSegments = make([]types.ImportSpec, c.Imports)
	for i := range it.ImportSegments {
		k := i
		if c.ImpPat == 1 {
			k = 0
		}
		it.ImportSegments[i].TreeRoot[0] = byte(k + 1)
		it.ImportSegments[i].Index = types.U16(k * 4097)
	}
	it.Extrinsic = make([]types.ExtrinsicSpec, len(c.Extr))
	for i, l := range c.Extr {
		k := i
		switch c.HashPat {
		case 1:
			k = 0
		case 2:
			if i == len(c.Extr)-1 {
				k = 0
			}
		case 3:
			k = i / 2
		}
		it.Extrinsic[i].Hash[0] = byte(0x80 + k)
		it.Extrinsic[i].Hash[31] = byte(k)
		it.Extrinsic[i].Len = types.U32(l)
	}
	res := types.WorkExecResult{Type: c32ResultTypes[c.Result]}
	if res.Type == types.WorkExecResultOk {
		res.Data = []byte{byte(c.Variant), 2, 3}
		if c.Variant == 0 {
			res.Data = []byte{}
		}
	}
	return it, res
}

// which other quantity of the item the observed value coincides with (diagnosis for the violation key);
// only an unambiguous coincidence is named (several quantities are often equal, e.g. all zero)
func c32Diag(got uint64, ref c32RefDigest, self string) string {
	var m []string
	add := func(name string, hit bool) {
		if hit && name != self {
			m = append(m, name)
		}
	}
	add("imports", got == ref.Imports)
	add("extrinsic-count", got == ref.ExtrCount)
	// the sum of the extrinsic lengths, possibly truncated to the width of a narrower field
	add("extrinsic-size-sum", got == ref.ExtrSize || got == ref.ExtrSize&0xFFFFFFFF || got == ref.ExtrSize&0xFFFF)
	add("export-count", got == ref.ExportsCount)
	add("gas-used", got == ref.GasUsed)
	switch len(m) {
	case 0:
		return "got=other"
	case 1:
		return "got=" + m[0]
	}
	return "got=ambiguous"
}

// c32Dup marks cases whose extrinsic specs / import specs contain repeated entries (part of the violation key:
// a defect that needs duplicates gets its own signature).
func c32Dup(c c32Case, field string) string {
	if field == "imports" {
		if c.ImpPat != 0 && c.Imports >= 2 {
			return ";duplicate-import-specs"
		}
		return ""
	}
	if c.HashPat != 0 && len(c.Extr) >= 2 {
		return ";duplicate-extrinsic-hashes"
	}
	return ""
}

func c32CheckC(r *vlib.Run, c c32Case) {
	item, res := c32Item(c)
	ref := c32RefC(item, res, c.Gas)
	r.Eval()
	var got types.WorkResult
	itemCopy := item
	itemCopy.Payload = append(types.ByteSequence(nil), item.Payload...)
	p, msg, _ := vlib.Guard(func() { got = C(itemCopy, res, types.Gas(c.Gas)) })
	r.Transition()
	sizeClass := "fits-u32"
	if ref.ExtrSize > 0xFFFFFFFF {
		sizeClass = "exceeds-u32"
	} else if ref.ExtrSize > 0xFFFF {
		sizeClass = "exceeds-u16"
	}
	r.Class(fmt.Sprintf("C result=%s |x|=%d size=%s imports=%d hashes=%d importspecs=%d", res.Type, len(c.Extr), sizeClass, c.Imports, c.HashPat, c.ImpPat))
	if p {
		r.Violation("work_package.C", "go-panic", "", fmt.Sprintf("case %+v: %s", c, msg), c)
		return
	}
	desc := fmt.Sprintf("item: %d imports (spec pattern %d), extrinsic lengths %v (sum %d, hash pattern %d: 0 distinct/1 all equal/2 first=last/3 adjacent equal), export count %d; result %s; gas %d", c.Imports, c.ImpPat, c.Extr, ref.ExtrSize, c.HashPat, c.Exports, res.Type, c.Gas)
	if uint32(got.ServiceID) != ref.Service {
		r.Violation("work_package.C", "wrong-service", "", fmt.Sprintf("%s: service %d, expected %d", desc, got.ServiceID, ref.Service), c)
	}
	if [32]byte(got.CodeHash) != ref.CodeHash {
		r.Violation("work_package.C", "wrong-code-hash", "", fmt.Sprintf("%s: code hash %x, expected %x", desc, got.CodeHash, ref.CodeHash), c)
	}
	if [32]byte(got.PayloadHash) != ref.PayloadHash {
		r.Violation("work_package.C", "wrong-payload-hash", fmt.Sprintf("payload-len=%d", len(item.Payload)), fmt.Sprintf("%s: payload hash %x, expected H(payload) = %x", desc, got.PayloadHash, ref.PayloadHash), c)
	}
	if uint64(got.AccumulateGas) != ref.AccGas {
		r.Violation("work_package.C", "wrong-accumulate-gas", "", fmt.Sprintf("%s: accumulate gas %d, expected %d", desc, got.AccumulateGas, ref.AccGas), c)
	}
	if string(got.Result.Type) != ref.ResultType || !bytes.Equal(got.Result.Data, ref.ResultData) {
		r.Violation("work_package.C", "wrong-result", "result="+ref.ResultType, fmt.Sprintf("%s: result (%s, %x), expected (%s, %x)", desc, got.Result.Type, got.Result.Data, ref.ResultType, ref.ResultData), c)
	}
	l := got.RefineLoad
	if uint64(l.GasUsed) != ref.GasUsed {
		r.Violation("work_package.C", "wrong-gas-used", c32Diag(uint64(l.GasUsed), ref, "gas-used"), fmt.Sprintf("%s: refine load gas used %d, expected %d", desc, l.GasUsed, ref.GasUsed), c)
	}
	if uint64(l.Imports) != ref.Imports {
		r.Violation("work_package.C", "wrong-imports", c32Diag(uint64(l.Imports), ref, "imports")+c32Dup(c, "imports"), fmt.Sprintf("%s: refine load imports %d, expected |w_i| = %d", desc, l.Imports, ref.Imports), c)
	}
	if uint64(l.ExtrinsicCount) != ref.ExtrCount {
		r.Violation("work_package.C", "wrong-extrinsic-count", c32Diag(uint64(l.ExtrinsicCount), ref, "extrinsic-count")+c32Dup(c, "extrinsics"), fmt.Sprintf("%s: refine load extrinsic count %d, expected |w_x| = %d", desc, l.ExtrinsicCount, ref.ExtrCount), c)
	}
	// the field is a U32: a sum above 2^32-1 cannot be represented (and cannot occur in a package that respects
	// the bundle size limit), so nothing is demanded there
	if ref.ExtrSize <= 0xFFFFFFFF && uint64(l.ExtrinsicSize) != ref.ExtrSize {
		r.Violation("work_package.C", "wrong-extrinsic-size", c32Diag(uint64(l.ExtrinsicSize), ref, "extrinsic-size-sum")+c32Dup(c, "extrinsics"), fmt.Sprintf("%s: refine load extrinsic size %d, expected sum of lengths = %d", desc, l.ExtrinsicSize, ref.ExtrSize), c)
	}
	if uint64(l.Exports) != ref.ExportsCount {
		r.Violation("work_package.C", "wrong-exports", c32Diag(uint64(l.Exports), ref, "export-count"), fmt.Sprintf("%s: refine load exports %d, expected w_e = %d", desc, l.Exports, ref.ExportsCount), c)
	}
	if r.WantSample() && c.Imports == 2 && len(c.Extr) == 2 && c.Extr[0] == 255 && c.Result == 0 {
		r.Sample(map[string]interface{}{"part": "C", "case": c, "refine_load": l})
	}
}

// ---------- A ----------

var c32BundleLens = []int{0, 1, 683, 684, 685, 4104}

func c32CheckA(r *vlib.Run, c c32Case) {
	if c.Mode == "full" {
		types.SetFullMode()
	} else {
		types.SetTinyMode()
	}
	defer types.SetTinyMode()
	bundle := make([]byte, c.Bundle)
	for i := range bundle {
		bundle[i] = byte(i*31 + 7)
	}
	exports := make([]types.ExportSegment, c.NExp)
	leaves := make([][]byte, c.NExp)
	for i := range exports {
		for k := 0; k < len(exports[i]); k += 97 {
			exports[i][k] = byte(i + 1 + k)
		}
		exports[i][types.SegmentSize-1] = byte(0xE0 + i)
		leaves[i] = append([]byte(nil), exports[i][:]...)
	}
	var h types.OpaqueHash
	for i := range h {
		h[i] = byte(0xC0 ^ i)
	}
	wantRoot := c32RefM(leaves)
	r.Eval()
	var spec types.WorkPackageSpec
	var err error
	p, msg, site := vlib.Guard(func() { spec, err = A(h, append([]byte(nil), bundle...), append([]types.ExportSegment(nil), exports...)) })
	r.Transition()
	key := fmt.Sprintf("bundle=%s;exports=%s", map[bool]string{true: "empty", false: "nonempty"}[c.Bundle == 0], map[bool]string{true: "0", false: ">0"}[c.NExp == 0])
	outcome := "ok"
	if p {
		outcome = "panic"
	} else if err != nil {
		outcome = "error"
	}
	r.Class(fmt.Sprintf("A mode=%s %s outcome=%s", c.Mode, key, outcome))
	desc := fmt.Sprintf("mode=%s bundle length %d, %d exports", c.Mode, c.Bundle, c.NExp)
	if p {
		r.Violation("work_package.A", "go-panic", key, fmt.Sprintf("%s: Go panic in %s: %s", desc, site, msg), c)
		return
	}
	if err != nil {
		// an empty bundle cannot be erasure coded (the real FFI wrapper rejects empty input as well) and is
		// not the encoding of any work package: an error is accepted there, and only there
		if c.Bundle != 0 {
			r.Violation("work_package.A", "unexpected-error", key, fmt.Sprintf("%s: %v", desc, err), c)
		}
		return
	}
	if spec.Hash != types.WorkPackageHash(h) {
		r.Violation("work_package.A", "wrong-hash", key, fmt.Sprintf("%s: hash %x, expected %x", desc, spec.Hash, h), c)
	}
	if uint64(spec.Length) != uint64(c.Bundle) {
		r.Violation("work_package.A", "wrong-length", key, fmt.Sprintf("%s: length %d", desc, spec.Length), c)
	}
	if int(spec.ExportsCount) != c.NExp {
		r.Violation("work_package.A", "wrong-exports-count", key, fmt.Sprintf("%s: exports count %d", desc, spec.ExportsCount), c)
	}
	if [32]byte(spec.ExportsRoot) != wantRoot {
		r.Violation("work_package.A", "wrong-exports-root", key, fmt.Sprintf("%s: exports root %x, M(exports) = %x", desc, spec.ExportsRoot, wantRoot), c)
	}
	if r.WantSample() && c.Bundle == 685 {
		r.Sample(map[string]interface{}{"part": "A", "case": c, "exports_root": vlib.Hex(spec.ExportsRoot[:]), "length": spec.Length, "exports_count": spec.ExportsCount})
	}
}


// ---------- W / P: WorkReportCompute with a stubbed refine (multi-item assembly, GP 14.11 / 14.16) ----------

const (
	c32OutOk       = iota // refine ok, returns exactly ExportCount segments
	c32OutError           // refine panics (and still hands back ExportCount non-zero segments, which must be dropped)
	c32OutBadCount        // refine ok but returns ExportCount+1 segments -> bad-exports
	c32OutOversize        // refine ok but its output blows the report output limit -> output-oversize
)

var c32OutcomeNames = []string{"ok", "error", "bad-export-count", "oversize"}

// what the stubbed refine hands back for one item
type c32Plan struct {
	ne      int                      // the item's declared export count w_e
	nSegs   int                      // segments returned by refine
	rLen    int                      // length of the refine output blob (0 for an error result)
	result  types.WorkExecResultType // refine's own result
	name    string
	verdict string // reference: result kind the digest must record (GP 14.11 precedence)
}

var c32AuthOutput = []byte{0xA0, 0xA1}

// c32Judge applies GP 14.11 to the plans in order: with z = |o| + Σ |r_k| over the earlier items whose result is a blob,
//   |r| + z > W_R  -> output-oversize;  otherwise |e| != w_e -> bad-exports;  otherwise an error r -> that error;  else ok.
func c32Judge(plans []c32Plan) {
	z := len(c32AuthOutput)
	for i := range plans {
		pl := &plans[i]
		switch {
		case pl.rLen+z > types.WorkReportOutputBlobsMaximumSize:
			pl.verdict = string(types.WorkExecResultReportOversize)
		case pl.nSegs != pl.ne:
			pl.verdict = string(types.WorkExecResultBadExports)
		case pl.result != types.WorkExecResultOk:
			pl.verdict = string(pl.result)
		default:
			pl.verdict = "ok"
			z += pl.rLen
		}
	}
}

type c32Refine struct{ plans []c32Plan }

func c32Segment(item, k int) types.ExportSegment {
	var s types.ExportSegment
	for i := 0; i < len(s); i += 53 {
		s[i] = byte(0x11*(item+1) + k + i)
	}
	s[0], s[1], s[types.SegmentSize-1] = byte(item+1), byte(k+1), 0xC3
	return s
}

func (c32Refine) Psi_I(p types.WorkPackage, c types.CoreIndex, code types.ByteSequence) PVM.Psi_I_ReturnType {
	return PVM.Psi_I_ReturnType{WorkExecResult: types.WorkExecResultOk, WorkOutput: append([]byte(nil), c32AuthOutput...), Gas: 5}
}

func (x c32Refine) RefineInvoke(in PVM.RefineInput) PVM.RefineOutput {
	j := int(in.WorkItemIndex)
	pl := x.plans[j]
	out := PVM.RefineOutput{WorkResult: pl.result, Gas: types.Gas(100 + j)}
	if pl.result == types.WorkExecResultOk {
		out.RefineOutput = make([]byte, pl.rLen)
		for i := range out.RefineOutput {
			out.RefineOutput[i] = byte(j + 7)
		}
	}
	for k := 0; k < pl.nSegs; k++ {
		out.ExportSegment = append(out.ExportSegment, c32Segment(j, k))
	}
	return out
}

// part W item code: 4*exportCount + outcome
func c32PlansW(items []int) []c32Plan {
	var plans []c32Plan
	for _, it := range items {
		ne, oc := it/4, it%4
		pl := c32Plan{ne: ne, nSegs: ne, rLen: 3, result: types.WorkExecResultOk, name: fmt.Sprintf("%s/e=%d", c32OutcomeNames[oc], ne)}
		switch oc {
		case c32OutError:
			pl.result, pl.rLen = types.WorkExecResultPanic, 0
		case c32OutBadCount:
			pl.nSegs = ne + 1
		case c32OutOversize:
			pl.rLen = types.WorkReportOutputBlobsMaximumSize + 1
		}
		plans = append(plans, pl)
	}
	c32Judge(plans)
	return plans
}

// part P item code: 10*exportCount + option; options 0..5 = refine ok with (segment count right, wrong) x (output
// small, filling the cumulative output exactly to W_R, one byte over W_R); 6,7 = panic with count right/wrong;
// 8,9 = out-of-gas with count right/wrong. The sizes depend on the outputs accepted from the earlier items.
func c32PlansP(items []int) []c32Plan {
	var plans []c32Plan
	z := len(c32AuthOutput)
	for _, it := range items {
		ne, opt := it/10, it%10
		pl := c32Plan{ne: ne, nSegs: ne, result: types.WorkExecResultOk}
		wrong := false
		size := "-"
		switch {
		case opt < 6:
			wrong = opt/3 == 1
			switch opt % 3 {
			case 0:
				pl.rLen, size = min(3, types.WorkReportOutputBlobsMaximumSize-z), "small"
			case 1:
				pl.rLen, size = types.WorkReportOutputBlobsMaximumSize-z, "at-limit"
			case 2:
				pl.rLen, size = types.WorkReportOutputBlobsMaximumSize-z+1, "over-limit"
			}
		case opt < 8:
			pl.result, wrong = types.WorkExecResultPanic, opt == 7
		default:
			pl.result, wrong = types.WorkExecResultOutOfGas, opt == 9
		}
		if wrong {
			pl.nSegs = ne + 1
		}
		pl.name = fmt.Sprintf("%s/e=%d/segments=%s/output=%s", pl.result, ne, map[bool]string{false: "right", true: "wrong"}[wrong], size)
		plans = append(plans, pl)
		c32Judge(plans)
		if plans[len(plans)-1].verdict == "ok" {
			z += pl.rLen
		}
	}
	c32Judge(plans)
	return plans
}

func c32CheckW(r *vlib.Run, c c32Case) {
	types.SetTinyMode()
	var plans []c32Plan
	if c.Part == "P" {
		plans = c32PlansP(c.Items)
	} else {
		plans = c32PlansW(c.Items)
	}
	wp := &types.WorkPackage{AuthCodeHost: 3}
	var want []types.ExportSegment // GP 14.11: the item's exports if it succeeded, else ExportCount zero segments
	total := 0
	anyFailWithSlot, laterOkExports := false, false
	var names []string
	multi := 0 // items on which more than one failure condition holds at once
	zz := len(c32AuthOutput)
	for j, pl := range plans {
		item := types.WorkItem{Service: types.ServiceID(40 + j), ExportCount: types.U16(pl.ne), Payload: types.ByteSequence{byte(j)}, AccumulateGasLimit: types.Gas(9 + j)}
		item.CodeHash[0] = byte(j + 1)
		wp.Items = append(wp.Items, item)
		total += pl.ne
		for k := 0; k < pl.ne; k++ {
			if pl.verdict == "ok" {
				want = append(want, c32Segment(j, k))
				if anyFailWithSlot {
					laterOkExports = true
				}
			} else {
				want = append(want, types.ExportSegment{})
			}
		}
		if pl.verdict != "ok" && pl.ne > 0 {
			anyFailWithSlot = true
		}
		conds := 0
		if pl.rLen+zz > types.WorkReportOutputBlobsMaximumSize {
			conds++
		}
		if pl.nSegs != pl.ne {
			conds++
		}
		if pl.result != types.WorkExecResultOk {
			conds++
		}
		if conds > 1 {
			multi++
		}
		if pl.verdict == "ok" {
			zz += pl.rLen
		}
		names = append(names, pl.name)
	}
	desc := fmt.Sprintf("items %v", names)
	key := fmt.Sprintf("items=%d;failed-slot-before-ok-exports=%v", len(c.Items), laterOkExports)
	bundle := bytes.Repeat([]byte{0x5B, 1, 2}, 100)
	var h, pa types.OpaqueHash
	h[0], pa[0] = 0xAA, 0xBB
	r.Eval()
	var rep types.WorkReport
	var err error
	p, msg, site := vlib.Guard(func() {
		rep, err = WorkReportCompute(wp, 1, pa, types.ByteSequence{1}, PVM.ExtrinsicDataMap{}, nil, types.ServiceAccountState{}, append([]byte(nil), bundle...), h, c32Refine{plans: plans})
	})
	r.Transition()
	if c.Part == "P" {
		last := plans[len(plans)-1]
		r.Class(fmt.Sprintf("P items=%d last=%s->%s earlier-accepted-output=%v", len(plans), last.name[:strings.Index(last.name, "/")]+last.name[strings.Index(last.name, "/segments"):], last.verdict, zz > len(c32AuthOutput) && len(plans) > 1))
	} else {
		r.Class(fmt.Sprintf("W items=%d exports=%d failed-slot-before-ok-exports=%v outcome=%v", len(c.Items), min(total, 3), laterOkExports, map[bool]string{true: "panic", false: "returned"}[p]))
	}
	if p {
		r.Violation("work_package.WorkReportCompute", "go-panic", key, fmt.Sprintf("%s: Go panic in %s: %s", desc, site, msg), c)
		return
	}
	if err != nil {
		r.Violation("work_package.WorkReportCompute", "unexpected-error", key, fmt.Sprintf("%s: %v", desc, err), c)
		return
	}
	leaves := make([][]byte, len(want))
	for i := range want {
		leaves[i] = append([]byte(nil), want[i][:]...)
	}
	spec := rep.PackageSpec
	if int(spec.ExportsCount) != total || uint64(spec.Length) != uint64(len(bundle)) || spec.Hash != types.WorkPackageHash(h) {
		r.Violation("work_package.WorkReportCompute", "wrong-spec-fields", key, fmt.Sprintf("%s: spec hash %x length %d exports count %d, expected %x / %d / %d", desc, spec.Hash[:4], spec.Length, spec.ExportsCount, h[:4], len(bundle), total), c)
	}
	if root := c32RefM(leaves); [32]byte(spec.ExportsRoot) != root {
		r.Violation("work_package.WorkReportCompute", "wrong-exports-root", key, fmt.Sprintf("%s: exports root %x, but M(concatenation over the items of (exports if ok else w_e zero segments)) = %x", desc, spec.ExportsRoot[:8], root[:8]), c)
	}
	// the erasure root must commit to the same sequence: differential against the repository's own A on the expected sequence
	var ref types.WorkPackageSpec
	if c.Part != "W" {
		// (part P re-uses the export sequences of part W; the differential is not repeated there)
	} else if p2, _, _ := vlib.Guard(func() { ref, err = A(h, append([]byte(nil), bundle...), want) }); !p2 && err == nil {
		r.Transition()
		if ref.ErasureRoot != spec.ErasureRoot {
			r.Violation("work_package.WorkReportCompute", "erasure-root-of-other-sequence", key, fmt.Sprintf("%s: erasure root %x differs from A(expected export sequence) = %x", desc, spec.ErasureRoot[:8], ref.ErasureRoot[:8]), c)
		}
	}
	if len(rep.Results) != len(plans) {
		r.Violation("work_package.WorkReportCompute", "wrong-result-count", key, fmt.Sprintf("%s: %d results", desc, len(rep.Results)), c)
		return
	}
	zz = len(c32AuthOutput)
	for j, res := range rep.Results {
		pl := plans[j]
		// which failure conditions hold on this item (the key of a wrong result kind)
		var conds []string
		if pl.rLen+zz > types.WorkReportOutputBlobsMaximumSize {
			conds = append(conds, "output-over-limit")
		}
		if pl.nSegs != pl.ne {
			conds = append(conds, "wrong-segment-count")
		}
		if pl.result != types.WorkExecResultOk {
			conds = append(conds, "refine-error")
		}
		if len(conds) == 0 {
			conds = []string{"none"}
		}
		ck := "conditions=" + strings.Join(conds, "+")
		if string(res.Result.Type) != pl.verdict {
			r.Violation("work_package.WorkReportCompute", "wrong-result", ck, fmt.Sprintf("%s: item %d records result %s, GP 14.11 gives %s (cumulative accepted output before it: %d of W_R = %d)", desc, j, res.Result.Type, pl.verdict, zz, types.WorkReportOutputBlobsMaximumSize), c)
		} else if pl.verdict == "ok" && len(res.Result.Data) != pl.rLen {
			r.Violation("work_package.WorkReportCompute", "wrong-result", ck, fmt.Sprintf("%s: item %d ok result carries %d bytes, refine returned %d", desc, j, len(res.Result.Data), pl.rLen), c)
		}
		if res.ServiceID != wp.Items[j].Service || uint64(res.RefineLoad.GasUsed) != uint64(100+j) || uint64(res.RefineLoad.Exports) != uint64(pl.ne) {
			r.Violation("work_package.WorkReportCompute", "wrong-digest", ck, fmt.Sprintf("%s: item %d digest service %d gas %d exports %d", desc, j, res.ServiceID, res.RefineLoad.GasUsed, res.RefineLoad.Exports), c)
		}
		if pl.verdict == "ok" {
			zz += pl.rLen
		}
	}
	_ = multi
	if r.WantSample() && len(c.Items) == 2 && laterOkExports {
		r.Sample(map[string]interface{}{"part": c.Part, "items": names, "exports_root": vlib.Hex(spec.ExportsRoot[:]), "exports_count": spec.ExportsCount})
	}
}

func TestVerif_C32(t *testing.T) {
	r := vlib.Start(t, "C32")
	defer r.Finish()

	var rc c32Case
	if r.IsReplay(&rc) {
		if rc.Part == "A" {
			c32CheckA(r, rc)
		} else if rc.Part == "W" || rc.Part == "P" {
			c32CheckW(r, rc)
		} else {
			c32CheckC(r, rc)
		}
		return
	}

	idx := uint64(0)
	lists := c32ExtrinsicLists()
	for _, imp := range c32ImportCounts {
		for _, ex := range lists {
			for _, e := range c32ExportCounts {
				for res := range c32ResultTypes {
					for _, g := range c32Gas {
						for variant := 0; variant < 4; variant++ {
							// repeated extrinsic hashes (the same blob carried twice is legal) and repeated import specs
							for hp := 0; hp < 4; hp++ {
								if hp > 0 && (len(ex) < 2 || (hp == 2 && len(ex) == 2)) {
									continue // pattern needs >= 2 entries; for 2 entries first==last is all-equal
								}
								for ip := 0; ip < 2; ip++ {
									if ip > 0 && imp < 2 {
										continue
									}
									idx++
									if !r.Mine(idx) {
										continue
									}
									r.Space(1)
									c32CheckC(r, c32Case{Part: "C", Imports: imp, Extr: ex, Exports: e, Result: res, Gas: g, Variant: variant, HashPat: hp, ImpPat: ip})
								}
							}
						}
					}
				}
			}
		}
	}
	maxExp := vlib.Pick(r, 3, 9)
	for _, mode := range []string{"tiny", "full"} {
		for _, bl := range c32BundleLens {
			for ne := 0; ne <= maxExp; ne++ {
				idx++
				if !r.Mine(idx) {
					continue
				}
				r.Space(1)
				c32CheckA(r, c32Case{Part: "A", Mode: mode, Bundle: bl, NExp: ne})
			}
		}
	}
	// W: every sequence of <= 3 items over (export count 0..2) x (4 refine outcomes)
	for n := 1; n <= 3; n++ {
		vlib.Sequences(12, n, func(sq []int) {
			idx++
			if !r.Mine(idx) {
				return
			}
			r.Space(1)
			c32CheckW(r, c32Case{Part: "W", Items: append([]int(nil), sq...)})
		})
	}
	// P: precedence when several failure conditions hold at once (GP 14.11): every sequence of <= 3 items over
	// export count {0,1,2} x 10 options (ok x segment count right/wrong x output small / exactly at W_R / over W_R given
	// the outputs accepted so far; panic and out-of-gas x count right/wrong)
	for n := 1; n <= 3; n++ {
		vlib.Sequences(30, n, func(sq []int) {
			idx++
			if !r.Mine(idx) {
				return
			}
			items := make([]int, len(sq))
			for i, x := range sq {
				items[i] = 10*(x/10) + x%10
			}
			r.Space(1)
			c32CheckW(r, c32Case{Part: "P", Items: items})
		})
	}
	if vlib.Pick(r, false, true) {
		// thorough: 64, 65 exports (second page of the paged proofs)
		for _, ne := range []int{64, 65} {
			idx++
			if r.Mine(idx) {
				r.Space(1)
				c32CheckA(r, c32Case{Part: "A", Mode: "tiny", Bundle: 685, NExp: ne})
			}
		}
	}
}
