package PVM

// C09 — storage footprint and threshold accounting.
//
// Part "arith" (input enumeration): CalcThresholdBalance and the threshold reported by `info`
//   against max(0, B_S + B_I*i + B_L*o - f) computed with math/big on the lattice of DESIGN §5 C09.
// Part "bfs" (explicit-state search): histories over {write, solicit, forget, new} driven through
//   the real accumulate Omegas on a context built as Psi_A builds it; invariant after every
//   transition: recorded (items, octets) of every account = footprint derived from its actual
//   dictionaries (+ raw key-values attributed to it) by the statement's formula; FULL => logical
//   account state unchanged; a successful mutation never leaves threshold > balance when it raised
//   the threshold.

import (
	"encoding/binary"
	"fmt"
	"math/big"
	"sort"
	"testing"

	"github.com/New-JAMneration/JAM-Protocol/internal/service_account"
	"github.com/New-JAMneration/JAM-Protocol/internal/types"
	"github.com/New-JAMneration/JAM-Protocol/internal/utilities/merklization"
	"github.com/New-JAMneration/JAM-Protocol/internal/zzverif/vlib"
)

type c09Case struct {
	Part   string `json:"part"` // "arith" | "bfs"
	Fn     string `json:"fn,omitempty"`
	Items  uint32 `json:"items,omitempty"`
	Octets uint64 `json:"octets,omitempty"`
	Offset uint64 `json:"offset,omitempty"`
	World  int    `json:"world,omitempty"`
	Hist   []int  `json:"hist,omitempty"`
}

// ------------------------------------------------------------------ arithmetic part

func c09ArithKey(items uint32, octets uint64) string {
	two32 := (&big.Int{}).Lsh(big.NewInt(1), 32)
	two64 := (&big.Int{}).Lsh(big.NewInt(1), 64)
	prod := (&big.Int{}).Mul(big.NewInt(int64(types.AdditionalMinBalancePerItem)), hcBig(uint64(items)))
	raw := hcThreshold(hcBig(uint64(items)), hcBig(octets), big.NewInt(0))
	switch {
	case prod.Cmp(two32) >= 0:
		return "B_I*items>=2^32"
	case raw.Cmp(two64) >= 0:
		return "B_S+B_I*items+B_L*octets>=2^64"
	}
	return "no-intermediate-overflow"
}

func c09InfoThreshold(items uint32, octets, offset uint64) (uint64, string) {
	sid := types.ServiceID(100)
	acct := types.ServiceAccount{
		ServiceInfo:    types.ServiceInfo{Balance: 0x1122334455667788, Items: types.U32(items), Bytes: types.U64(octets), DepositOffset: types.U64(offset)},
		PreimageLookup: types.PreimagesMapEntry{}, LookupDict: types.LookupMetaMapEntry{}, StorageDict: types.Storage{},
	}
	ps := types.PartialStateSet{ServiceAccounts: types.ServiceAccountState{sid: acct}}
	args := hcAccCtx(ps, sid, 100, types.Entropy{}, types.StateKeyVals{}, nil)
	mem := hcNewMem([]hcPageSpec{{No: 0x20, Acc: MemoryReadWrite}})
	var regs Registers
	regs[7] = ^uint64(0)
	regs[8] = 0x20000
	regs[9] = 0
	regs[10] = 200
	gas := Gas(1000)
	out, p, msg, _ := hcCall(AccumulateOmegas[InfoOp], InfoOp, &regs, mem, &gas, &args, AccumulateOmegas)
	if p {
		return 0, "go panic: " + msg
	}
	if out.ExitReason != ExitContinue || hcErrName(regs[7]) != "" {
		return 0, fmt.Sprintf("info did not succeed: exit=%s w7=%#x", hcExitName(out.ExitReason), regs[7])
	}
	b := hcPeekRaw(mem, 0x20000, 48)
	if binary.LittleEndian.Uint64(b[32:40]) != 0x1122334455667788 {
		return 0, "harness: info layout is not (hash32, balance8, threshold8, …)"
	}
	return binary.LittleEndian.Uint64(b[40:48]), ""
}

func c09Arith(r *vlib.Run, c c09Case) {
	exact := hcThreshold(hcBig(uint64(c.Items)), hcBig(c.Octets), hcBig(c.Offset))
	r.Eval()
	if exact.BitLen() > 64 {
		// The exact value does not fit 64 bits; the statement does not say which 64-bit value stands
		// for it, but the formula is monotone in the offset: an offset larger by (exact - (2^64-1))
		// gives the representable threshold 2^64-1, so "computed without overflow" rules out any
		// result below 2^64-1 (a wrapped result would make an unaffordable account look cheap).
		var got uint64
		problem := ""
		if c.Fn == "calc" {
			p, msg, _ := vlib.Guard(func() {
				got = uint64(service_account.CalcThresholdBalance(types.U32(c.Items), types.U64(c.Octets), types.U64(c.Offset)))
			})
			if p {
				problem = "go panic: " + msg
			}
		} else {
			got, problem = c09InfoThreshold(c.Items, c.Octets, c.Offset)
		}
		r.Transition()
		site := "service_account.CalcThresholdBalance"
		if c.Fn == "info" {
			site = "PVM.info"
		}
		okv := problem == "" && got == ^uint64(0)
		r.Class(fmt.Sprintf("arith fn=%s unrepresentable ok=%v", c.Fn, okv))
		if problem != "" {
			r.Violation(site, "failed", "exact>=2^64", fmt.Sprintf("items=%d octets=%d offset=%d: %s", c.Items, c.Octets, c.Offset, problem), c)
		} else if !okv {
			r.Violation(site, "wrapped-value", "exact>=2^64", fmt.Sprintf("items=%d octets=%d offset=%d: threshold %d although the exact value %s exceeds 2^64-1 (the offset %s larger already gives 2^64-1)",
				c.Items, c.Octets, c.Offset, got, exact.String(), (&big.Int{}).Sub(exact, hcBig(^uint64(0))).String()), c)
		}
		return
	}
	var got uint64
	var problem string
	switch c.Fn {
	case "calc":
		p, msg, _ := vlib.Guard(func() {
			got = uint64(service_account.CalcThresholdBalance(types.U32(c.Items), types.U64(c.Octets), types.U64(c.Offset)))
		})
		if p {
			problem = "go panic: " + msg
		}
	case "info":
		got, problem = c09InfoThreshold(c.Items, c.Octets, c.Offset)
	}
	r.Transition()
	key := c09ArithKey(c.Items, c.Octets)
	site := "service_account.CalcThresholdBalance"
	if c.Fn == "info" {
		site = "PVM.info"
	}
	floor := "pos"
	if exact.Sign() == 0 {
		floor = "floored"
	}
	ok := problem == "" && hcBig(got).Cmp(exact) == 0
	r.Class(fmt.Sprintf("arith fn=%s %s %s ok=%v", c.Fn, key, floor, ok))
	if problem != "" {
		r.Violation(site, "failed", key, fmt.Sprintf("items=%d octets=%d offset=%d: %s", c.Items, c.Octets, c.Offset, problem), c)
		return
	}
	if !ok {
		r.Violation(site, "wrong-value", key, fmt.Sprintf("items=%d octets=%d offset=%d: threshold %d, exact max(0, B_S+B_I*i+B_L*o-f) = %s",
			c.Items, c.Octets, c.Offset, got, exact.String()), c)
	}
}

func c09ArithCases(r *vlib.Run) []c09Case {
	var items []uint32
	items = append(items, 0, 1, 2)
	base := uint32((uint64(1) << 32) / 10)
	for d := -3; d <= 3; d++ {
		items = append(items, uint32(int64(base)+int64(d)))
	}
	items = append(items, 1<<32-3, 1<<32-2, 1<<32-1)
	var octs []uint64
	octs = append(octs, 0, 1, 1<<32, 1<<63-1, 1<<63, 1<<63+1)
	n := vlib.Pick(r, 40, 200)
	for d := n; d >= 1; d-- {
		octs = append(octs, ^uint64(0)-uint64(d)+1)
	}
	if !r.Thorough() { // keep the exact region where 100+10*i+o crosses 2^64 for small i
		for d := 130; d >= 95; d-- {
			octs = append(octs, ^uint64(0)-uint64(d)+1)
		}
	}
	two64 := (&big.Int{}).Lsh(big.NewInt(1), 64)
	var out []c09Case
	for _, fn := range []string{"calc", "info"} {
		for _, i := range items {
			// wrap points of this item count: octets with B_S + B_I*i + o = 2^64 - 2 … 2^64 + 2
			own := append([]uint64(nil), octs...)
			base := (&big.Int{}).Sub(two64, hcThreshold(hcBig(uint64(i)), big.NewInt(0), big.NewInt(0)))
			for d := int64(-2); d <= 2; d++ {
				y := (&big.Int{}).Add(base, big.NewInt(d))
				if y.Sign() >= 0 && y.Cmp(two64) < 0 {
					own = append(own, y.Uint64())
				}
			}
			for _, o := range own {
				raw := hcThreshold(hcBig(uint64(i)), hcBig(o), big.NewInt(0))
				offs := []uint64{0, ^uint64(0)}
				for d := int64(-1); d <= 1; d++ {
					x := (&big.Int{}).Add(raw, big.NewInt(d))
					if x.Sign() >= 0 && x.Cmp(two64) < 0 {
						offs = append(offs, x.Uint64())
					}
				}
				// offsets that bring an over-2^64 raw value back into range
				if raw.Cmp(two64) >= 0 {
					x := (&big.Int{}).Sub(raw, two64)
					for d := int64(-2); d <= 2; d++ { // gratis offset = wrapped sum -2 … +2
						y := (&big.Int{}).Add(x, big.NewInt(d))
						if y.Sign() >= 0 && y.Cmp(two64) < 0 {
							offs = append(offs, y.Uint64())
						}
					}
				}
				seen := map[uint64]bool{}
				for _, f := range offs {
					if seen[f] {
						continue
					}
					seen[f] = true
					out = append(out, c09Case{Part: "arith", Fn: fn, Items: i, Octets: o, Offset: f})
				}
			}
		}
	}
	return out
}

// ------------------------------------------------------------------ footprint helpers (input enumeration)

// c09Helper: CalcLookupItemfootprint / CalcStorageItemfootprint against the statement's formula
// (2 items and 81+z octets; 1 item and 34+|k|+|v| octets) as exact integers, with z at 0, 1, small
// and at the 32-bit edge.
func c09Helper(r *vlib.Run, c c09Case) {
	r.Eval()
	r.Transition()
	switch c.Fn {
	case "lookup-footprint":
		z := c.Items
		var it types.U32
		var oc types.U64
		p, msg, _ := vlib.Guard(func() {
			it, oc = service_account.CalcLookupItemfootprint(types.LookupMetaMapkey{Length: types.U32(z)})
		})
		want := big.NewInt(81 + int64(z))
		edge := "small"
		if uint64(z)+81 >= 1<<32 {
			edge = "81+z>=2^32"
		}
		okv := !p && it == 2 && hcBig(uint64(oc)).Cmp(want) == 0
		r.Class(fmt.Sprintf("helper lookup %s ok=%v", edge, okv))
		if p {
			r.Violation("service_account.CalcLookupItemfootprint", "go-panic", edge, msg, c)
		} else if !okv {
			r.Violation("service_account.CalcLookupItemfootprint", "wrong-value", edge, fmt.Sprintf("z=%d: (items, octets) = (%d, %d), statement: (2, %s)", z, it, oc, want), c)
		}
	case "storage-footprint":
		k := string(make([]byte, c.Items))
		v := make([]byte, c.Octets)
		it, oc := service_account.CalcStorageItemfootprint(k, v)
		want := big.NewInt(34 + int64(c.Items) + int64(c.Octets))
		okv := it == 1 && hcBig(uint64(oc)).Cmp(want) == 0
		r.Class(fmt.Sprintf("helper storage ok=%v", okv))
		if !okv {
			r.Violation("service_account.CalcStorageItemfootprint", "wrong-value", "small", fmt.Sprintf("|k|=%d |v|=%d: (items, octets) = (%d, %d), statement: (1, %s)", c.Items, c.Octets, it, oc, want), c)
		}
	}
}

func c09HelperCases() []c09Case {
	var out []c09Case
	for _, z := range []uint32{0, 1, 5, 80, 81, 1<<31 - 1, 1 << 31, 1<<32 - 83, 1<<32 - 82, 1<<32 - 81, 1<<32 - 80, 1<<32 - 2, 1<<32 - 1} {
		out = append(out, c09Case{Part: "helper", Fn: "lookup-footprint", Items: z})
	}
	for _, kl := range []uint32{0, 1, 32, 4096} {
		for _, vl := range []uint64{0, 1, 40, 65536} {
			out = append(out, c09Case{Part: "helper", Fn: "storage-footprint", Items: kl, Octets: vl})
		}
	}
	return out
}

// ------------------------------------------------------------------ bfs part

const (
	c09Caller = types.ServiceID(100)
	c09Other  = types.ServiceID(200)
	c09Slot   = types.TimeSlot(100)
	c09Page   = 0x20
	c09Base   = uint64(c09Page) * ZP
)

var (
	c09K      = [][]byte{[]byte("a"), []byte("kkkk")}
	c09V      = [][]byte{nil, {0x55}, make([]byte, 40)}
	c09H      = []types.OpaqueHash{hcHash([]byte("c09-h1")), hcHash([]byte("c09-h2"))}
	c09Z      = []uint32{0, 5, 1<<32 - 81, 1<<32 - 1} // the last two: 32-bit edge of 81+z (hash h1 only)
	c09NewLen = []uint64{0, 5, 1<<32 - 81, 1<<32 - 1}
)

// memory layout inside the RW page
const (
	c09OffK0 = 0x000
	c09OffK1 = 0x010
	c09OffV1 = 0x040
	c09OffV2 = 0x080
	c09OffH0 = 0x100
	c09OffH1 = 0x140
	c09OffC  = 0x180
)

type c09Event struct {
	Op   OperationType
	Name string
	A, B int // indices into the tables above
}

func c09Events() []c09Event {
	var ev []c09Event
	for k := range c09K {
		for v := range c09V {
			ev = append(ev, c09Event{WriteOp, fmt.Sprintf("write(k%d,v%d)", k, v), k, v})
		}
	}
	for h := range c09H {
		for z := range c09Z {
			if z >= 2 && h == 0 {
				continue
			}
			ev = append(ev, c09Event{SolicitOp, fmt.Sprintf("solicit(h%d,z=%d)", h, c09Z[z]), h, z})
		}
	}
	for h := range c09H {
		for z := range c09Z {
			if z >= 2 && h == 0 {
				continue
			}
			ev = append(ev, c09Event{ForgetOp, fmt.Sprintf("forget(h%d,z=%d)", h, c09Z[z]), h, z})
		}
	}
	for l := range c09NewLen {
		ev = append(ev, c09Event{NewOp, fmt.Sprintf("new(l=%d)", c09NewLen[l]), l, 0})
	}
	// requested reserved index ω12 (only matters where the caller is the registrar): 0 above, 50 free, 200 taken
	ev = append(ev, c09Event{NewOp, "new(l=0,i=50)", 0, 1})
	ev = append(ev, c09Event{NewOp, "new(l=0,i=200)", 0, 2})
	return ev
}

// worlds: margin above the caller's threshold × whether some entries live in the raw key-value list
var c09Margins = []uint64{0, 46, 101, 147, 100000}

// registrar worlds (caller = CreateAcct, entries parsed): the margins are chosen so that after one
// new(l=0) (cost 201) the balance is exactly at / just above the threshold, i.e. the threshold a
// following write or solicit would need lies between the balance after and before the creation
var c09RegMargins = []uint64{201, 250, 302, 100000}

var c09NewIndex = []uint64{0, 50, 200}

// one more world, parsed entries, margin 2^34: rich enough to pay for lookup / code lengths at the
// 32-bit edge (81+z = 2^32 octets)
const c09EdgeMargin = uint64(1) << 34

func c09NWorlds() int { return len(c09Margins)*2 + len(c09RegMargins) + 1 }

func c09WorldName(world int) string {
	if world == 2*len(c09Margins)+len(c09RegMargins) {
		return "edge-rich,margin=2^34"
	}
	if world >= 2*len(c09Margins) {
		return fmt.Sprintf("registrar,margin=%d", c09RegMargins[world-2*len(c09Margins)])
	}
	return fmt.Sprintf("margin=%d,raw=%v", c09Margins[world%len(c09Margins)], world/len(c09Margins) == 1)
}

type c09World struct {
	Regs Registers
	Mem  *Memory
	Args HostCallArgs
	Reg  []hcRawEntry
}

func c09Build(world int) *c09World {
	registrar := world >= 2*len(c09Margins)
	var margin uint64
	rawVariant := false
	if world == 2*len(c09Margins)+len(c09RegMargins) {
		registrar = false
		margin = c09EdgeMargin
	} else if registrar {
		margin = c09RegMargins[world-2*len(c09Margins)]
	} else {
		margin = c09Margins[world%len(c09Margins)]
		rawVariant = world/len(c09Margins) == 1
	}
	storage := map[string][]byte{string(c09K[0]): {1, 2, 3}}
	lookups := map[types.LookupMetaMapkey]types.TimeSlotSet{
		{Hash: c09H[0], Length: 0}: {5},
		{Hash: c09H[0], Length: 5}: {5, 10},
		{Hash: c09H[1], Length: 0}: {5, 10, 20},
	}
	full := hcAccount(0, types.OpaqueHash{1}, storage, lookups, nil)
	items, octets := full.ServiceInfo.Items, full.ServiceInfo.Bytes
	var kv types.StateKeyVals
	var reg []hcRawEntry
	if rawVariant {
		// storage k0 and lookup (h0,5) live only in the raw list; recorded counts still include them
		e := merklization.WrapEncodeDelta2KeyVal(c09Caller, types.ByteSequence(c09K[0]), types.ByteSequence{1, 2, 3})
		kv = append(kv, e)
		reg = append(reg, hcRawEntry{Key: e.Key, Service: c09Caller, Storage: true, KLen: len(c09K[0])})
		lk := types.LookupMetaMapkey{Hash: c09H[0], Length: 5}
		e2 := merklization.EncodeDelta4KeyVal(c09Caller, lk, types.TimeSlotSet{5, 10})
		kv = append(kv, e2)
		reg = append(reg, hcRawEntry{Key: e2.Key, Service: c09Caller, Z: 5})
		delete(full.StorageDict, string(c09K[0]))
		delete(full.LookupDict, lk)
	}
	full.ServiceInfo.Items, full.ServiceInfo.Bytes = items, octets
	thr := hcThreshold(hcBig(uint64(items)), hcBig(uint64(octets)), big.NewInt(0))
	full.ServiceInfo.Balance = types.U64(thr.Uint64() + margin)
	other := hcAccount(5000, types.OpaqueHash{2}, map[string][]byte{"x": {9}}, nil, nil)
	ps := types.PartialStateSet{
		ServiceAccounts: types.ServiceAccountState{c09Caller: full, c09Other: other},
		Assign:          types.ServiceIDList{0, 0},
		Authorizers:     types.AuthQueues{{}, {}},
		AlwaysAccum:     types.AlwaysAccumulateMap{},
		CreateAcct:      77777,
	}
	if registrar {
		ps.CreateAcct = c09Caller
	}
	w := &c09World{Reg: reg}
	w.Args = hcAccCtx(ps, c09Caller, c09Slot, types.Entropy{7}, kv, nil)
	w.Mem = hcNewMem([]hcPageSpec{{No: c09Page, Acc: MemoryReadWrite}})
	hcPoke(w.Mem, c09Base+c09OffK0, c09K[0])
	hcPoke(w.Mem, c09Base+c09OffK1, c09K[1])
	hcPoke(w.Mem, c09Base+c09OffV1, c09V[1])
	hcPoke(w.Mem, c09Base+c09OffV2, c09V[2])
	hcPoke(w.Mem, c09Base+c09OffH0, c09H[0][:])
	hcPoke(w.Mem, c09Base+c09OffH1, c09H[1][:])
	code := hcHash([]byte("c09-newcode"))
	hcPoke(w.Mem, c09Base+c09OffC, code[:])
	return w
}

func (w *c09World) apply(e c09Event) (OmegaOutput, bool, string, string) {
	for i := range w.Regs {
		w.Regs[i] = 0xA5A5A5A500000000 + uint64(i)
	}
	switch e.Op {
	case WriteOp:
		w.Regs[7] = c09Base + []uint64{c09OffK0, c09OffK1}[e.A]
		w.Regs[8] = uint64(len(c09K[e.A]))
		w.Regs[9] = c09Base + []uint64{0, c09OffV1, c09OffV2}[e.B]
		w.Regs[10] = uint64(len(c09V[e.B]))
	case SolicitOp, ForgetOp:
		w.Regs[7] = c09Base + []uint64{c09OffH0, c09OffH1}[e.A]
		w.Regs[8] = uint64(c09Z[e.B])
	case NewOp:
		w.Regs[7] = c09Base + c09OffC
		w.Regs[8] = c09NewLen[e.A]
		w.Regs[9], w.Regs[10], w.Regs[11], w.Regs[12] = 0, 0, 0, c09NewIndex[e.B]
	}
	gas := Gas(1_000_000)
	return hcCall(AccumulateOmegas[e.Op], e.Op, &w.Regs, w.Mem, &gas, &w.Args, AccumulateOmegas)
}

// logical snapshot of the property-relevant state of a world
func (w *c09World) logical() hcFlat {
	x := w.Args.AccumulateArgs.ResultContextX
	f := hcLogical("X", x.PartialState.ServiceAccounts, x.StorageKeyVal, nil, false)
	hcRawNormalise(f, "X", w.Reg)
	return f
}

// full state key for dedup: everything an event can read
func (w *c09World) key() string {
	f := hcSnap("args", w.Args, nil)
	return hcCanon(f)
}

func c09LookupLen(w *c09World, e c09Event) string {
	if e.Op != SolicitOp && e.Op != ForgetOp {
		return ""
	}
	a := w.Args.AccumulateArgs.ResultContextX.PartialState.ServiceAccounts[c09Caller]
	lk := types.LookupMetaMapkey{Hash: c09H[e.A], Length: types.U32(c09Z[e.B])}
	if v, ok := a.LookupDict[lk]; ok {
		return fmt.Sprintf(" had=%d", len(v))
	}
	for _, re := range w.Reg {
		if !re.Storage && re.Key == merklization.EncodeDelta4Key(c09Caller, lk) {
			for _, x := range *w.Args.AccumulateArgs.ResultContextX.StorageKeyVal {
				if x.Key == re.Key {
					return " had=raw"
				}
			}
		}
	}
	return " had=none"
}

// c09Step replays hist on a fresh world; the last event is checked. Returns the state key.
func c09Step(r *vlib.Run, evs []c09Event, world int, hist []int, check bool) string {
	w := c09Build(world)
	for i, ei := range hist {
		last := i == len(hist)-1
		e := evs[ei]
		if !last || !check {
			_, p, _, _ := w.apply(e)
			if p {
				return "PANICKED:" + fmt.Sprint(hist[:i+1])
			}
			continue
		}
		c := c09Case{Part: "bfs", World: world, Hist: append([]int(nil), hist...)}
		pre := w.logical()
		preAcct := w.Args.AccumulateArgs.ResultContextX.PartialState.ServiceAccounts[c09Caller]
		preRaw := hcRawPresent(w.Args.AccumulateArgs.ResultContextX.StorageKeyVal, w.Reg, c09Caller)
		pi, po := hcFootprint(preAcct, preRaw)
		preThr := hcThreshold(pi, po, hcBig(uint64(preAcct.ServiceInfo.DepositOffset)))
		preBal := hcBig(uint64(preAcct.ServiceInfo.Balance))
		had := c09LookupLen(w, e)
		preBad := map[types.ServiceID]bool{} // accounts already inconsistent before this event (reported at the event that broke them)
		for sid, a := range w.Args.AccumulateArgs.ResultContextX.PartialState.ServiceAccounts {
			di, do := hcFootprint(a, hcRawPresent(w.Args.AccumulateArgs.ResultContextX.StorageKeyVal, w.Reg, sid))
			if di.Cmp(hcBig(uint64(a.ServiceInfo.Items))) != 0 || do.Cmp(hcBig(uint64(a.ServiceInfo.Bytes))) != 0 {
				preBad[sid] = true
			}
		}
		out, p, msg, site := w.apply(e)
		r.Transition()
		r.Eval()
		key := "op=" + hostCallName[e.Op]
		if p {
			r.Class(key + " go-panic")
			r.Violation("PVM."+site, "go-panic", key, fmt.Sprintf("world %d history %s: Go panic %s", world, c09HistString(evs, hist), msg), c)
			return "PANICKED:" + fmt.Sprint(hist)
		}
		res := hcErrName(w.Regs[7])
		if res == "" {
			res = "ok"
		}
		wk := "parsed"
		if world == 2*len(c09Margins)+len(c09RegMargins) {
			wk = "edge-rich"
		} else if world >= 2*len(c09Margins) {
			wk = "registrar"
		} else if world >= len(c09Margins) {
			wk = "raw"
		}
		r.Class(fmt.Sprintf("%s exit=%s result=%s%s world=%s", key, hcExitName(out.ExitReason), res, had, wk))
		x := w.Args.AccumulateArgs.ResultContextX
		// (1) recorded = derived, for every account
		ids := make([]int, 0, len(x.PartialState.ServiceAccounts))
		for sid := range x.PartialState.ServiceAccounts {
			ids = append(ids, int(sid))
		}
		sort.Ints(ids)
		for _, id := range ids {
			sid := types.ServiceID(id)
			a := x.PartialState.ServiceAccounts[sid]
			di, do := hcFootprint(a, hcRawPresent(x.StorageKeyVal, w.Reg, sid))
			if !preBad[sid] && (di.Cmp(hcBig(uint64(a.ServiceInfo.Items))) != 0 || do.Cmp(hcBig(uint64(a.ServiceInfo.Bytes))) != 0) {
				who := "caller"
				if sid != c09Caller {
					who = "other"
					if sid != c09Other {
						who = "created"
					}
				}
				r.Violation("PVM."+hostCallName[e.Op], "footprint-mismatch", key+" acct="+who,
					fmt.Sprintf("world %d history %s: account %d records items=%d octets=%d but its entries give items=%s octets=%s",
						world, c09HistString(evs, hist), sid, a.ServiceInfo.Items, a.ServiceInfo.Bytes, di, do), c)
			}
		}
		post := w.logical()
		// (2) FULL => unchanged
		if w.Regs[7] == FULL && out.ExitReason == ExitContinue {
			if d := hcDiff(pre, post); len(d) > 0 {
				r.Violation("PVM."+hostCallName[e.Op], "state-changed-on-FULL", key,
					fmt.Sprintf("world %d history %s: FULL returned but %d leaves differ, first %s: %s -> %s",
						world, c09HistString(evs, hist), len(d), d[0], hcLeafShow(pre, d[0]), hcLeafShow(post, d[0])), c)
			}
		}
		// (3) success must not leave a raised threshold above the balance
		success := out.ExitReason == ExitContinue && (res == "ok" || (e.Op == WriteOp && w.Regs[7] != FULL))
		if success {
			a := x.PartialState.ServiceAccounts[c09Caller]
			ai, ao := hcFootprint(a, hcRawPresent(x.StorageKeyVal, w.Reg, c09Caller))
			thr := hcThreshold(ai, ao, hcBig(uint64(a.ServiceInfo.DepositOffset)))
			if e.Op != NewOp && thr.Cmp(preThr) > 0 && thr.Cmp(preBal) > 0 {
				// "a mutation that would raise the threshold above the balance returns FULL": the balance
				// is the one the account has when the call is made
				r.Violation("PVM."+hostCallName[e.Op], "threshold-above-balance", key,
					fmt.Sprintf("world %d history %s: success raised the threshold %s -> %s above the balance %s the account had at the call (FULL expected); balance afterwards %d",
						world, c09HistString(evs, hist), preThr, thr, preBal, a.ServiceInfo.Balance), c)
			} else if e.Op != NewOp && thr.Cmp(preThr) > 0 && thr.Cmp(hcBig(uint64(a.ServiceInfo.Balance))) > 0 {
				r.Violation("PVM."+hostCallName[e.Op], "threshold-above-balance", key,
					fmt.Sprintf("world %d history %s: success raised the threshold %s -> %s above the balance %d (FULL expected)",
						world, c09HistString(evs, hist), preThr, thr, a.ServiceInfo.Balance), c)
			}
		}
		if r.WantSample() && len(hist) >= 2 {
			r.Sample(map[string]interface{}{"world": world, "history": c09HistString(evs, hist), "result": res})
		}
	}
	return w.key()
}

func c09HistString(evs []c09Event, hist []int) string {
	s := ""
	for i, h := range hist {
		if i > 0 {
			s += ";"
		}
		s += evs[h].Name
	}
	return s
}

func TestVerif_C09(t *testing.T) {
	r := vlib.Start(t, "C09")
	defer r.Finish()
	evs := c09Events()

	var rc c09Case
	if r.IsReplay(&rc) {
		if rc.Part == "arith" {
			c09Arith(r, rc)
		} else if rc.Part == "helper" {
			c09Helper(r, rc)
		} else {
			c09Step(r, evs, rc.World, rc.Hist, true)
		}
		return
	}

	// part 1: arithmetic
	cases := c09ArithCases(r)
	for i, c := range cases {
		if !r.Mine(uint64(i)) {
			continue
		}
		r.Space(1)
		c09Arith(r, c)
		if r.WantSample() && i%997 == 5 {
			r.Sample(c)
		}
	}

	for i, c := range c09HelperCases() {
		if !r.Mine(uint64(1<<44) + uint64(i)) {
			continue
		}
		r.Space(1)
		c09Helper(r, c)
	}

	// part 2: bfs. Work unit = (world, first event); dedup inside the unit on the full context.
	// self-check: two rebuilds of the same history give the same key
	if c09Step(r, evs, 1, []int{0, 7}, false) != c09Step(r, evs, 1, []int{0, 7}, false) {
		r.Violation("harness", "nondeterministic-rebuild", "c09", "two rebuilds of the same history differ", c09Case{Part: "bfs"})
		return
	}
	depth := vlib.Pick(r, 3, 4)
	unit := uint64(0)
	for world := 0; world < c09NWorlds(); world++ {
		for e0 := range evs {
			unit++
			if !r.Mine(unit) {
				continue
			}
			seen := map[string]bool{}
			root := []int{e0}
			r.Space(1)
			k := c09Step(r, evs, world, root, true)
			r.State(fmt.Sprintf("w%d|%s", world, k))
			seen[k] = true
			frontier := [][]int{root}
			for d := 2; d <= depth; d++ {
				var next [][]int
				for _, h := range frontier {
					for e := range evs {
						hh := append(append([]int(nil), h...), e)
						r.Space(1)
						k := c09Step(r, evs, world, hh, true)
						if !seen[k] {
							seen[k] = true
							r.State(fmt.Sprintf("w%d|%s", world, k))
							next = append(next, hh)
							r.Trace()
						}
					}
				}
				frontier = next
			}
		}
	}
}
