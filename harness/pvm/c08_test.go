package PVM

// C08 — token conservation during accumulation.
//
// Part "bfs": explicit-state search over host-call histories {new, transfer, eject, upgrade,
//   checkpoint} with argument lattices resolved against the *current* state (free balance,
//   balance, 2^32, 2^64), driven through the real accumulate Omegas on a context built as Psi_A
//   builds it. Invariant on every transition, in math/big:
//     Σ balances + Σ deferred amounts never increases; a successful call moves exactly the
//     specified amount and no balance wraps; every error result / panic / OOG changes no balance;
//     a call that would leave the caller below its threshold must not succeed.
// Part "credit": the incoming-transfer credit at the head of Psi_A (input enumeration).

import (
	"fmt"
	"math/big"
	"sort"
	"testing"

	"github.com/New-JAMneration/JAM-Protocol/internal/types"
	"github.com/New-JAMneration/JAM-Protocol/internal/zzverif/vlib"
)

type c08Case struct {
	Part    string   `json:"part"` // "bfs" | "credit"
	World   int      `json:"world,omitempty"`
	Hist    []int    `json:"hist,omitempty"`
	Prog    []int    `json:"prog,omitempty"`   // psia part
	Ending  string   `json:"ending,omitempty"` // psia part
	Gas     int64    `json:"gas,omitempty"`    // psia part
	Balance uint64   `json:"balance,omitempty"`
	Amounts []uint64 `json:"amounts,omitempty"`
}

const (
	c08Caller  = types.ServiceID(100)
	c08Other   = types.ServiceID(200)
	c08Victim  = types.ServiceID(300)
	c08Missing = types.ServiceID(999)
	c08Slot    = types.TimeSlot(100)
	c08Page    = 0x20
	c08Base    = uint64(c08Page) * ZP
	c08OffCode = 0x000
	c08OffMemo = 0x100
	c08OffHV   = 0x200
	c08OffUp   = 0x300
)

var c08HV = hcHash([]byte("c08-victim-code"))

type c08Event struct {
	Op   OperationType
	Name string
	A, B int
}

var c08NewNames = []string{"0", "1", "L*-1", "L*", "L*+1", "Lb", "Lb+1", "2^32-1"}
var c08AmtNames = []string{"0", "1", "free-1", "free", "free+1", "bal", "bal+1", "2^64-1"}
var c08ToNames = []string{"self", "other", "victim", "missing"}
var c08EjNames = []string{"victim", "other", "missing", "self", "lastnew"}

func c08Events() []c08Event {
	var ev []c08Event
	for i, n := range c08NewNames {
		ev = append(ev, c08Event{NewOp, "new(l=" + n + ")", i, 0})
	}
	// requested reserved index (ω12): 0 is used above; 50 is free, 200 is taken. Only matters in the
	// worlds where the caller is the registrar (x_s = CreateAcct, i < S = 2^16).
	ev = append(ev, c08Event{NewOp, "new(l=1,i=50)", 1, 1})
	ev = append(ev, c08Event{NewOp, "new(l=1,i=200)", 1, 2})
	for t, tn := range c08ToNames {
		for a, an := range c08AmtNames {
			ev = append(ev, c08Event{TransferOp, "transfer(" + tn + "," + an + ")", t, a})
		}
	}
	for i, n := range c08EjNames {
		ev = append(ev, c08Event{EjectOp, "eject(" + n + ")", i, 0})
	}
	ev = append(ev, c08Event{UpgradeOp, "upgrade", 0, 0})
	ev = append(ev, c08Event{CheckpointOp, "checkpoint", 0, 0})
	return ev
}

var c08WorldNames = []string{"rich", "exact", "below", "near2^64", "above2^32", "rich+registrar"}

var c08NewIndex = []uint64{0, 50, 200}

type c08World struct {
	Regs    Registers
	Mem     *Memory
	Args    HostCallArgs
	LastNew types.ServiceID
}

func c08Build(world int) *c08World {
	caller := hcAccount(0, types.OpaqueHash{1}, map[string][]byte{"k": {1, 2}}, nil, nil)
	thr := hcThreshold(hcBig(uint64(caller.ServiceInfo.Items)), hcBig(uint64(caller.ServiceInfo.Bytes)), big.NewInt(0)).Uint64()
	switch world {
	case 0, 5:
		caller.ServiceInfo.Balance = types.U64(thr + 1_000_000)
	case 1:
		caller.ServiceInfo.Balance = types.U64(thr)
	case 2:
		caller.ServiceInfo.Balance = types.U64(thr - 50)
	case 3:
		caller.ServiceInfo.Balance = types.U64(^uint64(0) - 1000)
	case 4:
		caller.ServiceInfo.Balance = types.U64(thr + 1<<32 + 10)
	}
	other := hcAccount(7000, types.OpaqueHash{2}, nil, nil, nil)
	// ejectable victim: code hash = E_32(caller), exactly one lookup entry (h, z) with two old slots
	var vcode types.OpaqueHash
	copy(vcode[:], hcLE(uint64(c08Caller), 32))
	victim := hcAccount(5000, vcode, nil, map[types.LookupMetaMapkey]types.TimeSlotSet{{Hash: c08HV, Length: 9}: {5, 10}}, nil)
	victim.ServiceInfo.MinMemoGas = 5
	ps := types.PartialStateSet{
		ServiceAccounts: types.ServiceAccountState{c08Caller: caller, c08Other: other, c08Victim: victim},
		Assign:          types.ServiceIDList{0, 0},
		Authorizers:     types.AuthQueues{{}, {}},
		AlwaysAccum:     types.AlwaysAccumulateMap{},
	}
	if world == 5 {
		ps.CreateAcct = c08Caller // the caller is the registrar: new(i < 2^16) takes the requested index
	} else {
		ps.CreateAcct = 77777
	}
	w := &c08World{LastNew: c08Missing}
	w.Args = hcAccCtx(ps, c08Caller, c08Slot, types.Entropy{3}, types.StateKeyVals{}, nil)
	w.Mem = hcNewMem([]hcPageSpec{{No: c08Page, Acc: MemoryReadWrite}})
	nc := hcHash([]byte("c08-new-code"))
	hcPoke(w.Mem, c08Base+c08OffCode, nc[:])
	hcPoke(w.Mem, c08Base+c08OffHV, c08HV[:])
	up := hcHash([]byte("c08-upgrade"))
	hcPoke(w.Mem, c08Base+c08OffUp, up[:])
	return w
}

type c08Money struct {
	Bal      map[types.ServiceID]*big.Int
	Deferred []*big.Int
}

func c08Snap(w *c08World) c08Money {
	x := w.Args.AccumulateArgs.ResultContextX
	m := c08Money{Bal: map[types.ServiceID]*big.Int{}}
	for sid, a := range x.PartialState.ServiceAccounts {
		m.Bal[sid] = hcBig(uint64(a.ServiceInfo.Balance))
	}
	for _, t := range x.DeferredTransfers {
		m.Deferred = append(m.Deferred, hcBig(uint64(t.Balance)))
	}
	return m
}

func (m c08Money) Sum() *big.Int {
	s := big.NewInt(0)
	for _, b := range m.Bal {
		s.Add(s, b)
	}
	for _, d := range m.Deferred {
		s.Add(s, d)
	}
	return s
}

func c08Clamp(x *big.Int, hi uint64) (uint64, bool) {
	if x.Sign() < 0 {
		return 0, false
	}
	if x.Cmp(hcBig(hi)) > 0 {
		return 0, false
	}
	return x.Uint64(), true
}

// callerThreshold: exact threshold from the caller's recorded footprint
func c08CallerThr(w *c08World) *big.Int {
	a := w.Args.AccumulateArgs.ResultContextX.PartialState.ServiceAccounts[c08Caller]
	return hcThreshold(hcBig(uint64(a.ServiceInfo.Items)), hcBig(uint64(a.ServiceInfo.Bytes)), hcBig(uint64(a.ServiceInfo.DepositOffset)))
}

// resolve computes the concrete argument of a symbolic event in the current state; ok=false when
// the lattice point does not exist in this state (negative / out of range): the event is a no-op.
func (w *c08World) resolve(e c08Event) (arg uint64, target types.ServiceID, ok bool) {
	a := w.Args.AccumulateArgs.ResultContextX.PartialState.ServiceAccounts[c08Caller]
	bal := hcBig(uint64(a.ServiceInfo.Balance))
	free := (&big.Int{}).Sub(bal, c08CallerThr(w))
	switch e.Op {
	case NewOp:
		lstar := (&big.Int{}).Sub(free, big.NewInt(201)) // 201 + l = free
		lb := (&big.Int{}).Sub(bal, big.NewInt(201))     // 201 + l = balance
		var x *big.Int
		switch e.A {
		case 0:
			x = big.NewInt(0)
		case 1:
			x = big.NewInt(1)
		case 2:
			x = (&big.Int{}).Sub(lstar, big.NewInt(1))
		case 3:
			x = lstar
		case 4:
			x = (&big.Int{}).Add(lstar, big.NewInt(1))
		case 5:
			x = lb
		case 6:
			x = (&big.Int{}).Add(lb, big.NewInt(1))
		case 7:
			x = hcBig(1<<32 - 1)
		}
		arg, ok = c08Clamp(x, 1<<32-1)
		return
	case TransferOp:
		target = []types.ServiceID{c08Caller, c08Other, c08Victim, c08Missing}[e.A]
		var x *big.Int
		switch e.B {
		case 0:
			x = big.NewInt(0)
		case 1:
			x = big.NewInt(1)
		case 2:
			x = (&big.Int{}).Sub(free, big.NewInt(1))
		case 3:
			x = free
		case 4:
			x = (&big.Int{}).Add(free, big.NewInt(1))
		case 5:
			x = bal
		case 6:
			x = (&big.Int{}).Add(bal, big.NewInt(1))
		case 7:
			x = hcBig(^uint64(0))
		}
		arg, ok = c08Clamp(x, ^uint64(0))
		return
	case EjectOp:
		target = []types.ServiceID{c08Victim, c08Other, c08Missing, c08Caller, w.LastNew}[e.A]
		return 0, target, true
	}
	return 0, 0, true
}

func (w *c08World) apply(e c08Event) (out OmegaOutput, arg uint64, target types.ServiceID, skipped, panicked bool, msg, site string) {
	var ok bool
	arg, target, ok = w.resolve(e)
	if !ok {
		return OmegaOutput{}, 0, 0, true, false, "", ""
	}
	for i := range w.Regs {
		w.Regs[i] = 0xC8C8C8C800000000 + uint64(i)
	}
	switch e.Op {
	case NewOp:
		w.Regs[7] = c08Base + c08OffCode
		w.Regs[8] = arg
		w.Regs[9], w.Regs[10], w.Regs[11], w.Regs[12] = 1, 2, 0, c08NewIndex[e.B]
	case TransferOp:
		w.Regs[7] = uint64(target)
		w.Regs[8] = arg
		w.Regs[9] = 0 // gas limit of the transfer
		w.Regs[10] = c08Base + c08OffMemo
	case EjectOp:
		w.Regs[7] = uint64(target)
		w.Regs[8] = c08Base + c08OffHV
	case UpgradeOp:
		w.Regs[7] = c08Base + c08OffUp
		w.Regs[8], w.Regs[9] = 7, 3
	}
	gas := Gas(1_000_000)
	importID := w.Args.AccumulateArgs.ResultContextX.ImportServiceID
	out, panicked, msg, site = hcCall(AccumulateOmegas[e.Op], e.Op, &w.Regs, w.Mem, &gas, &w.Args, AccumulateOmegas)
	_ = importID
	if !panicked && e.Op == NewOp && out.ExitReason == ExitContinue && hcErrName(w.Regs[7]) == "" {
		w.LastNew = types.ServiceID(w.Regs[7]) // x_i, or the requested reserved index for the registrar
	}
	return
}

func (w *c08World) key() string {
	f := hcSnap("args", w.Args, nil)
	f["lastnew"] = fmt.Sprint(w.LastNew)
	return hcCanon(f)
}

func c08HistString(evs []c08Event, hist []int) string {
	s := ""
	for i, h := range hist {
		if i > 0 {
			s += ";"
		}
		s += evs[h].Name
	}
	return s
}

func c08Step(r *vlib.Run, evs []c08Event, world int, hist []int, check bool) string {
	w := c08Build(world)
	for i, ei := range hist {
		e := evs[ei]
		last := i == len(hist)-1
		if !last || !check {
			_, _, _, _, p, _, _ := w.apply(e)
			if p {
				return "PANICKED:" + fmt.Sprint(hist[:i+1])
			}
			continue
		}
		c := c08Case{Part: "bfs", World: world, Hist: append([]int(nil), hist...)}
		pre := c08Snap(w)
		preThr := c08CallerThr(w)
		out, arg, target, skipped, p, msg, site := w.apply(e)
		r.Eval()
		opn := hostCallName[e.Op]
		if skipped {
			r.Class("op=" + opn + " lattice-point-absent")
			continue
		}
		r.Transition()
		where := fmt.Sprintf("world %s history %s (arg=%d target=%d)", c08WorldNames[world], c08HistString(evs, hist), arg, target)
		if p {
			r.Class("op=" + opn + " go-panic")
			r.Violation("PVM."+site, "go-panic", "op="+opn, where+": Go panic "+msg, c)
			return "PANICKED:" + fmt.Sprint(hist)
		}
		post := c08Snap(w)
		res := hcErrName(w.Regs[7])
		success := out.ExitReason == ExitContinue && res == ""
		cls := res
		if success {
			cls = "ok"
		}
		branch := ""
		if e.Op == NewOp && success {
			branch = " id=import"
			if w.Regs[7] < 1<<16 {
				branch = " id=reserved"
			}
		}
		r.Class(fmt.Sprintf("op=%s exit=%s result=%s%s world=%s", opn, hcExitName(out.ExitReason), cls, branch, c08WorldNames[world]))
		reported := false
		viol := func(kind, key, detail string) {
			reported = true
			r.Violation("PVM."+opn, kind, key, where+": "+detail, c)
		}
		callerPre := pre.Bal[c08Caller]
		callerPost := post.Bal[c08Caller]
		if callerPost == nil {
			viol("caller-removed", "op="+opn, "caller account disappeared")
			continue
		}
		same := func(except ...types.ServiceID) string {
			ex := map[types.ServiceID]bool{}
			for _, s := range except {
				ex[s] = true
			}
			ids := map[types.ServiceID]bool{}
			for s := range pre.Bal {
				ids[s] = true
			}
			for s := range post.Bal {
				ids[s] = true
			}
			var list []int
			for s := range ids {
				list = append(list, int(s))
			}
			sort.Ints(list)
			for _, si := range list {
				s := types.ServiceID(si)
				if ex[s] {
					continue
				}
				a, oka := pre.Bal[s]
				b, okb := post.Bal[s]
				if oka != okb {
					return fmt.Sprintf("service %d appeared/disappeared", s)
				}
				if a.Cmp(b) != 0 {
					return fmt.Sprintf("balance of %d changed %s -> %s", s, a, b)
				}
			}
			return ""
		}
		defSame := func(extra *big.Int) string {
			want := len(pre.Deferred)
			if extra != nil {
				want++
			}
			if len(post.Deferred) != want {
				return fmt.Sprintf("deferred transfers %d -> %d", len(pre.Deferred), len(post.Deferred))
			}
			for i := range pre.Deferred {
				if pre.Deferred[i].Cmp(post.Deferred[i]) != 0 {
					return fmt.Sprintf("deferred[%d] amount changed", i)
				}
			}
			if extra != nil && post.Deferred[want-1].Cmp(extra) != 0 {
				return fmt.Sprintf("new deferred amount %s, expected %s", post.Deferred[want-1], extra)
			}
			return ""
		}
		switch {
		case !success:
			// error code, panic, OOG: nothing moves
			if d := same(); d != "" {
				viol("balance-changed-on-error", "op="+opn+" result="+cls, "result "+cls+" / exit "+hcExitName(out.ExitReason)+" but "+d)
			} else if d := defSame(nil); d != "" {
				viol("balance-changed-on-error", "op="+opn+" result="+cls, "result "+cls+" but "+d)
			}
		case e.Op == NewOp:
			id := types.ServiceID(w.Regs[7])
			T := big.NewInt(201 + int64(arg)) // B_S + 2*B_I + (81+l)*B_L
			exact := (&big.Int{}).Sub(callerPre, T)
			switch {
			case exact.Sign() < 0:
				viol("balance-wrapped", "new-threshold>caller-balance", fmt.Sprintf("new account threshold %s exceeds the caller balance %s, yet the call succeeded: caller balance became %s (exact %s)", T, callerPre, callerPost, exact))
			case exact.Cmp(preThr) < 0:
				viol("below-threshold-accepted", "op=new", fmt.Sprintf("caller %s - %s = %s is below its threshold %s, CASH expected", callerPre, T, exact, preThr))
			case callerPost.Cmp(exact) != 0:
				viol("wrong-amount", "op=new caller", fmt.Sprintf("caller balance %s -> %s, expected %s", callerPre, callerPost, exact))
			case post.Bal[id] == nil || pre.Bal[id] != nil:
				viol("wrong-amount", "op=new created", fmt.Sprintf("returned id %d is not a fresh account", id))
			case post.Bal[id].Cmp(T) != 0:
				viol("wrong-amount", "op=new created", fmt.Sprintf("new account balance %s, expected its threshold %s", post.Bal[id], T))
			default:
				if d := same(c08Caller, id); d != "" {
					viol("wrong-amount", "op=new others", d)
				} else if d := defSame(nil); d != "" {
					viol("wrong-amount", "op=new deferred", d)
				}
			}
		case e.Op == TransferOp:
			A := hcBig(arg)
			exact := (&big.Int{}).Sub(callerPre, A)
			switch {
			case exact.Sign() < 0:
				viol("balance-wrapped", "transfer-amount>caller-balance", fmt.Sprintf("amount %s exceeds balance %s yet succeeded; caller became %s", A, callerPre, callerPost))
			case exact.Cmp(preThr) < 0:
				viol("below-threshold-accepted", "op=transfer", fmt.Sprintf("caller %s - %s = %s is below its threshold %s, CASH expected", callerPre, A, exact, preThr))
			case callerPost.Cmp(exact) != 0:
				viol("wrong-amount", "op=transfer caller", fmt.Sprintf("caller balance %s -> %s, expected %s", callerPre, callerPost, exact))
			default:
				if d := same(c08Caller); d != "" {
					viol("wrong-amount", "op=transfer others", d)
				} else if d := defSame(A); d != "" {
					viol("wrong-amount", "op=transfer deferred", d)
				}
			}
		case e.Op == EjectOp:
			vb := pre.Bal[target]
			switch {
			case vb == nil || post.Bal[target] != nil:
				viol("wrong-amount", "op=eject victim", fmt.Sprintf("eject(%d) succeeded but the victim was not an existing account that is now removed", target))
			default:
				exact := (&big.Int{}).Add(callerPre, vb)
				if exact.BitLen() > 64 {
					viol("balance-wrapped", "caller+victim>=2^64", fmt.Sprintf("caller %s + ejected %s = %s does not fit 64 bits; caller balance became %s", callerPre, vb, exact, callerPost))
				} else if callerPost.Cmp(exact) != 0 {
					viol("wrong-amount", "op=eject caller", fmt.Sprintf("caller balance %s -> %s, expected %s", callerPre, callerPost, exact))
				} else if d := same(c08Caller, target); d != "" {
					viol("wrong-amount", "op=eject others", d)
				} else if d := defSame(nil); d != "" {
					viol("wrong-amount", "op=eject deferred", d)
				}
			}
		default: // upgrade, checkpoint
			if d := same(); d != "" {
				viol("wrong-amount", "op="+opn, d)
			} else if d := defSame(nil); d != "" {
				viol("wrong-amount", "op="+opn, d)
			}
		}
		// the global clause, independent of the per-event bookkeeping above
		if !reported && post.Sum().Cmp(pre.Sum()) > 0 {
			k := "op=" + opn
			viol("sum-increased", k, fmt.Sprintf("Σ balances + Σ deferred went from %s to %s", pre.Sum(), post.Sum()))
		}
		if r.WantSample() && len(hist) >= 2 && success {
			r.Sample(map[string]interface{}{"world": c08WorldNames[world], "history": c08HistString(evs, hist), "sum_before": pre.Sum().String(), "sum_after": post.Sum().String()})
		}
	}
	return w.key()
}

// ------------------------------------------------------------------ credit part

func c08Credit(r *vlib.Run, c c08Case) {
	sid := types.ServiceID(100)
	acct := hcAccount(c.Balance, types.OpaqueHash{9}, nil, nil, nil)
	ps := types.PartialStateSet{ServiceAccounts: types.ServiceAccountState{sid: acct}}
	var ops []types.OperandOrDeferredTransfer
	exact := hcBig(c.Balance)
	for i, a := range c.Amounts {
		if i == 1 {
			ops = append(ops, types.OperandOrDeferredTransfer{Operand: &types.Operand{}})
		}
		ops = append(ops, types.OperandOrDeferredTransfer{DeferredTransfer: &types.DeferredTransfer{SenderID: 7, ReceiverID: sid, Balance: types.U64(a)}})
		exact.Add(exact, hcBig(a))
	}
	var res Psi_A_ReturnType
	p, msg, site := vlib.Guard(func() { res = Psi_A(ps, 100, sid, 1000, ops, types.Entropy{}, types.StateKeyVals{}) })
	r.Eval()
	r.Transition()
	fits := exact.BitLen() <= 64
	r.Class(fmt.Sprintf("credit n=%d fits=%v", len(c.Amounts), fits))
	if p {
		r.Violation("PVM."+site, "go-panic", "credit", fmt.Sprintf("balance %d amounts %v: Go panic %s", c.Balance, c.Amounts, msg), c)
		return
	}
	got := hcBig(uint64(res.PartialStateSet.ServiceAccounts[sid].ServiceInfo.Balance))
	if got.Cmp(exact) != 0 {
		key := "credit"
		kind := "wrong-amount"
		if !fits {
			key = "balance+incoming>=2^64"
			kind = "balance-wrapped"
		}
		r.Violation("PVM.Psi_A", kind, key, fmt.Sprintf("balance %d credited with %v became %s, exact %s", c.Balance, c.Amounts, got, exact), c)
	}
}

func c08CreditCases() []c08Case {
	bals := []uint64{0, 1000, 1<<63 + 5, ^uint64(0) - 1000, ^uint64(0)}
	amts := []uint64{0, 1, 999, 1000, 1001, 1 << 63, ^uint64(0)}
	var out []c08Case
	for _, b := range bals {
		out = append(out, c08Case{Part: "credit", Balance: b})
		for _, a := range amts {
			out = append(out, c08Case{Part: "credit", Balance: b, Amounts: []uint64{a}})
			for _, a2 := range amts {
				out = append(out, c08Case{Part: "credit", Balance: b, Amounts: []uint64{a, a2}})
			}
		}
	}
	return out
}

// ------------------------------------------------------------------ psia part
//
// The real Psi_A end to end on assembled programs `op ; op ; … ; ending`: conservation is judged on
// the context Psi_A RETURNS (x after a halt, y — the last checkpoint or the imported state — after a
// panic or out-of-gas), so leaks between the two contexts and into the caller's state are in scope.

var c08PsiaOps = []string{"new(l=0)", "transfer(other,10)", "eject(victim)", "upgrade", "checkpoint"}
var c08PsiaEndings = []string{"halt", "trap", "hostcall-panic"}

const (
	c08PsiaRO      = uint64(0x10000)
	c08PsiaOffCode = 0x00
	c08PsiaOffMemo = 0x40
	c08PsiaOffHV   = 0xC0
	c08PsiaOffUp   = 0xE0
	c08PsiaCredit  = 7
)

func c08PsiaAssemble(prog []int, ending string) (code []byte, total int64) {
	ro := make([]byte, 0x100)
	nc := hcHash([]byte("c08-new-code"))
	copy(ro[c08PsiaOffCode:], nc[:])
	copy(ro[c08PsiaOffHV:], c08HV[:])
	up := hcHash([]byte("c08-upgrade"))
	copy(ro[c08PsiaOffUp:], up[:])
	var a hcAsm
	a.Trap()
	a.Fallthrough()
	a.Fallthrough()
	a.Fallthrough()
	a.Fallthrough() // accumulate entry = pc 5
	entry := len(a.starts)
	set := func(reg int, v uint64) { a.LoadImm64(reg, v) }
	for _, op := range prog {
		switch op {
		case 0:
			set(7, c08PsiaRO+c08PsiaOffCode)
			set(8, 0)
			set(9, 1)
			set(10, 2)
			set(11, 0)
			set(12, 0)
			a.Ecalli(uint64(NewOp))
		case 1:
			set(7, uint64(c08Other))
			set(8, 10)
			set(9, 0)
			set(10, c08PsiaRO+c08PsiaOffMemo)
			a.Ecalli(uint64(TransferOp))
		case 2:
			set(7, uint64(c08Victim))
			set(8, c08PsiaRO+c08PsiaOffHV)
			a.Ecalli(uint64(EjectOp))
		case 3:
			set(7, c08PsiaRO+c08PsiaOffUp)
			set(8, 7)
			set(9, 3)
			a.Ecalli(uint64(UpgradeOp))
		case 4:
			a.Ecalli(uint64(CheckpointOp))
		}
	}
	switch ending {
	case "halt":
		set(7, c08PsiaRO)
		set(8, 0)
		a.Halt()
	case "trap":
		a.Trap()
	case "hostcall-panic":
		set(7, 0x3000)
		a.Ecalli(uint64(YieldOp))
		a.Trap()
	}
	total = int64(len(a.starts)-entry) + 10*int64(len(prog))
	return hcMetaCode(hcStandardProgram(ro, nil, 0, 4096, a.Blob())), total
}

func c08PsiaSum(ps types.PartialStateSet, ts []types.DeferredTransfer) *big.Int {
	sum := big.NewInt(0)
	for _, a := range ps.ServiceAccounts {
		sum.Add(sum, hcBig(uint64(a.ServiceInfo.Balance)))
	}
	for _, t := range ts {
		sum.Add(sum, hcBig(uint64(t.Balance)))
	}
	return sum
}

func c08Psia(r *vlib.Run, c c08Case) {
	asmEnding := c.Ending
	if c.Ending == "oog" {
		asmEnding = "halt"
	}
	code, _ := c08PsiaAssemble(c.Prog, asmEnding)
	codeHash := hcHash(code)
	caller := hcAccount(0, codeHash, map[string][]byte{"k": {1, 2}}, nil, map[types.OpaqueHash][]byte{codeHash: code})
	caller.ServiceInfo.Balance = 1_000_000
	other := hcAccount(7000, types.OpaqueHash{2}, nil, nil, nil)
	var vcode types.OpaqueHash
	copy(vcode[:], hcLE(uint64(c08Caller), 32))
	victim := hcAccount(5000, vcode, nil, map[types.LookupMetaMapkey]types.TimeSlotSet{{Hash: c08HV, Length: 9}: {5, 10}}, nil)
	ps := types.PartialStateSet{
		ServiceAccounts: types.ServiceAccountState{c08Caller: caller, c08Other: other, c08Victim: victim},
		ValidatorKeys:   make(types.ValidatorsData, 1),
		Authorizers:     types.AuthQueues{make(types.AuthQueue, 1), make(types.AuthQueue, 1)},
		Assign:          types.ServiceIDList{0, 0},
		AlwaysAccum:     types.AlwaysAccumulateMap{},
		CreateAcct:      77777,
	}
	ops := []types.OperandOrDeferredTransfer{{DeferredTransfer: &types.DeferredTransfer{SenderID: c08Other, ReceiverID: c08Caller, Balance: c08PsiaCredit}}}
	before := c08PsiaSum(ps, nil)
	before.Add(before, big.NewInt(c08PsiaCredit))
	var res Psi_A_ReturnType
	p, msg, site := vlib.Guard(func() {
		res = Psi_A(ps, c08Slot, c08Caller, types.Gas(c.Gas), ops, types.Entropy{3}, types.StateKeyVals{})
	})
	r.Eval()
	r.Transition()
	desc := "Psi_A program "
	for i, op := range c.Prog {
		if i > 0 {
			desc += " ; "
		}
		desc += c08PsiaOps[op]
	}
	desc += fmt.Sprintf(" ; ending %s ; gas %d", c.Ending, c.Gas)
	if p {
		r.Class("psia go-panic")
		r.Violation(site, "go-panic", "psia ending="+c.Ending, desc+": Go panic "+msg, c)
		return
	}
	after := c08PsiaSum(res.PartialStateSet, res.DeferredTransfers)
	_, gone := res.PartialStateSet.ServiceAccounts[c08Victim]
	hasCp, hasEj := false, false
	for _, op := range c.Prog {
		hasCp = hasCp || op == 4
		hasEj = hasEj || op == 2
	}
	r.Class(fmt.Sprintf("psia ending=%s checkpoint=%v eject-in-program=%v victim-returned=%v transfers=%d", c.Ending, hasCp, hasEj, gone, min(len(res.DeferredTransfers), 2)))
	if after.Cmp(before) > 0 {
		r.Violation("PVM.Psi_A", "sum-increased", fmt.Sprintf("psia ending=%s checkpoint=%v", c.Ending, hasCp),
			fmt.Sprintf("%s: Σ balances + Σ deferred of the returned context is %s, the imported state + incoming transfers hold %s", desc, after, before), c)
	}
	if r.WantSample() && len(c.Prog) >= 2 && c.Ending != "halt" {
		r.Sample(map[string]interface{}{"psia": desc, "sum_in": before.String(), "sum_returned": after.String()})
	}
}

func c08PsiaPart(r *vlib.Run) {
	maxLen := vlib.Pick(r, 3, 4)
	idx := uint64(1 << 43)
	for n := 0; n <= maxLen; n++ {
		vlib.Sequences(len(c08PsiaOps), n, func(sq []int) {
			idx++
			if !r.Mine(idx) {
				return
			}
			prog := append([]int(nil), sq...)
			for _, e := range c08PsiaEndings {
				r.Space(1)
				c08Psia(r, c08Case{Part: "psia", Prog: prog, Ending: e, Gas: 100000})
			}
			_, total := c08PsiaAssemble(prog, "halt")
			for g := int64(0); g < total; g++ {
				r.Space(1)
				c08Psia(r, c08Case{Part: "psia", Prog: prog, Ending: "oog", Gas: g})
			}
			r.Trace()
		})
	}
}

func TestVerif_C08(t *testing.T) {
	r := vlib.Start(t, "C08")
	defer r.Finish()
	evs := c08Events()

	var rc c08Case
	if r.IsReplay(&rc) {
		if rc.Part == "credit" {
			c08Credit(r, rc)
		} else if rc.Part == "psia" {
			c08Psia(r, rc)
		} else {
			c08Step(r, evs, rc.World, rc.Hist, true)
		}
		return
	}

	for i, c := range c08CreditCases() {
		if !r.Mine(uint64(i)) {
			continue
		}
		r.Space(1)
		c08Credit(r, c)
	}

	c08PsiaPart(r)

	if c08Step(r, evs, 0, []int{0, 9, 45}, false) != c08Step(r, evs, 0, []int{0, 9, 45}, false) {
		r.Violation("harness", "nondeterministic-rebuild", "c08", "two rebuilds of the same history differ", c08Case{Part: "bfs"})
		return
	}
	depth := vlib.Pick(r, 3, 4)
	unit := uint64(0)
	for world := range c08WorldNames {
		for e0 := range evs {
			unit++
			if !r.Mine(unit) {
				continue
			}
			seen := map[uint64]bool{}
			root := []int{e0}
			r.Space(1)
			k := c08Step(r, evs, world, root, true)
			r.State(fmt.Sprintf("w%d|%s", world, k))
			seen[vlib.H(k)] = true
			frontier := [][]int{root}
			for d := 2; d <= depth; d++ {
				var next [][]int
				for _, h := range frontier {
					for e := range evs {
						hh := append(append([]int(nil), h...), e)
						r.Space(1)
						k := c08Step(r, evs, world, hh, true)
						if hk := vlib.H(k); !seen[hk] {
							seen[hk] = true
							r.State(fmt.Sprintf("w%d|%s", world, k))
							next = append(next, hh)
							r.Trace()
						}
					}
				}
				frontier = next
			}
		}
	}
}
