package PVM

// hc_common — shared scaffolding for the host-call checks C07, C08, C09, C10, C33.
// (prefix hc; used only by harness/pvm/c07*, c08*, c09*, c10*, c33*)
//
//   * hcFlat / hcSnap : encoder-independent structural walker (reflect) that flattens any value
//     into path -> leaf; nil and empty collections are identified; maps are keyed by a canonical
//     rendering of the key, so iteration order never matters.
//   * hcMem*          : guest memory worlds, byte-exact snapshots and diffs.
//   * hcAccCtx        : HostCallArgs for accumulation built exactly as Psi_A does (I(...) twice).
//   * hcAsm           : a tiny assembler (load_imm_64, ecalli, jump_ind, trap, fallthrough) + blob /
//     standard-program / meta-code wrappers.
//   * hcLogical       : logical service state in which "entry lives in the raw key-value list" and
//     "entry lives in the parsed account" are the same state.
//
// NOTE: package PVM declares a function named `new`, so the builtin new() is not usable here.

import (
	"encoding/binary"
	"fmt"
	"math/big"
	"reflect"
	"sort"
	"strconv"
	"strings"

	"github.com/New-JAMneration/JAM-Protocol/internal/types"
	"github.com/New-JAMneration/JAM-Protocol/internal/utilities/hash"
	"github.com/New-JAMneration/JAM-Protocol/internal/utilities/merklization"
	"github.com/New-JAMneration/JAM-Protocol/internal/zzverif/vlib"
)

// ---------------------------------------------------------------------------------------------
// structural walker
// ---------------------------------------------------------------------------------------------

type hcFlat map[string]string

var hcSkipTypes = map[string]bool{"Program": true}

func hcSnap(prefix string, v interface{}, out hcFlat) hcFlat {
	if out == nil {
		out = make(hcFlat, 1024)
	}
	hcWalk(prefix, reflect.ValueOf(v), out)
	return out
}

func hcKeyString(v reflect.Value) string {
	switch v.Kind() {
	case reflect.String:
		return "s:" + vlib.Hex([]byte(v.String()))
	case reflect.Int, reflect.Int8, reflect.Int16, reflect.Int32, reflect.Int64:
		return strconv.FormatInt(v.Int(), 10)
	case reflect.Uint, reflect.Uint8, reflect.Uint16, reflect.Uint32, reflect.Uint64:
		return strconv.FormatUint(v.Uint(), 10)
	case reflect.Array:
		if v.Type().Elem().Kind() == reflect.Uint8 {
			b := make([]byte, v.Len())
			for i := range b {
				b[i] = byte(v.Index(i).Uint())
			}
			return vlib.Hex(b)
		}
	case reflect.Struct:
		parts := make([]string, 0, v.NumField())
		for i := 0; i < v.NumField(); i++ {
			parts = append(parts, hcKeyString(v.Field(i)))
		}
		return "{" + strings.Join(parts, ",") + "}"
	}
	return fmt.Sprint(v)
}

func hcWalk(path string, v reflect.Value, out hcFlat) {
	if !v.IsValid() {
		out[path] = "nil"
		return
	}
	switch v.Kind() {
	case reflect.Ptr, reflect.Interface:
		if v.IsNil() {
			out[path] = "nil"
			return
		}
		if v.Kind() == reflect.Ptr && hcSkipTypes[v.Type().Elem().Name()] {
			return
		}
		hcWalk(path+"*", v.Elem(), out)
	case reflect.Struct:
		if hcSkipTypes[v.Type().Name()] {
			return
		}
		for i := 0; i < v.NumField(); i++ {
			hcWalk(path+"."+v.Type().Field(i).Name, v.Field(i), out)
		}
	case reflect.Map:
		it := v.MapRange()
		for it.Next() {
			hcWalk(path+"["+hcKeyString(it.Key())+"]", it.Value(), out)
		}
	case reflect.Slice:
		if v.Type().Elem().Kind() == reflect.Uint8 {
			// a present-but-empty byte string and an absent one differ only through the parent
			// (map entry present / pointer non-nil); as a leaf both are "".
			out[path] = "b:" + string(v.Bytes())
			return
		}
		out[path+".len"] = strconv.Itoa(v.Len())
		for i := 0; i < v.Len(); i++ {
			hcWalk(path+"["+strconv.Itoa(i)+"]", v.Index(i), out)
		}
	case reflect.Array:
		if v.Type().Elem().Kind() == reflect.Uint8 {
			b := make([]byte, v.Len())
			if v.CanInterface() {
				reflect.Copy(reflect.ValueOf(b), v)
			} else {
				for i := range b {
					b[i] = byte(v.Index(i).Uint())
				}
			}
			out[path] = "a:" + string(b)
			return
		}
		for i := 0; i < v.Len(); i++ {
			hcWalk(path+"["+strconv.Itoa(i)+"]", v.Index(i), out)
		}
	case reflect.Func, reflect.Chan, reflect.UnsafePointer:
		// not state
	case reflect.Bool:
		out[path] = strconv.FormatBool(v.Bool())
	case reflect.Int, reflect.Int8, reflect.Int16, reflect.Int32, reflect.Int64:
		out[path] = strconv.FormatInt(v.Int(), 10)
	case reflect.Uint, reflect.Uint8, reflect.Uint16, reflect.Uint32, reflect.Uint64, reflect.Uintptr:
		out[path] = strconv.FormatUint(v.Uint(), 10)
	case reflect.String:
		out[path] = "s:" + v.String()
	default:
		out[path] = fmt.Sprint(v)
	}
}

// hcDiff returns the sorted list of paths whose leaf differs (added, removed or changed).
func hcDiff(a, b hcFlat) []string {
	var d []string
	for k, va := range a {
		if vb, ok := b[k]; !ok || vb != va {
			d = append(d, k)
		}
	}
	for k := range b {
		if _, ok := a[k]; !ok {
			d = append(d, k)
		}
	}
	sort.Strings(d)
	return d
}

func hcLeafShow(f hcFlat, k string) string {
	v, ok := f[k]
	if !ok {
		return "<absent>"
	}
	if len(v) > 2 && (v[:2] == "b:" || v[:2] == "a:") {
		h := vlib.Hex([]byte(v[2:]))
		if len(h) > 80 {
			h = h[:80] + "…"
		}
		return v[:2] + h
	}
	if len(v) > 80 {
		return v[:80] + "…"
	}
	return v
}

// hcCanon renders a flat map as one canonical string (state key for BFS dedup).
func hcCanon(f hcFlat) string {
	keys := make([]string, 0, len(f))
	for k := range f {
		keys = append(keys, k)
	}
	sort.Strings(keys)
	var sb strings.Builder
	n := 0
	for k, v := range f {
		n += len(k) + len(v) + 2
	}
	sb.Grow(n)
	for _, k := range keys {
		sb.WriteString(k)
		sb.WriteByte('=')
		sb.WriteString(f[k])
		sb.WriteByte('\n')
	}
	return sb.String()
}

// ---------------------------------------------------------------------------------------------
// guest memory
// ---------------------------------------------------------------------------------------------

type hcPageSpec struct {
	No   uint32
	Acc  MemoryAccess
	Seed byte
}

func hcPattern(pageNo uint32, seed byte) []byte {
	b := make([]byte, ZP)
	for i := range b {
		b[i] = byte(i*7) ^ byte(i>>8) ^ seed ^ byte(pageNo*13)
	}
	return b
}

func hcNewMem(pages []hcPageSpec) *Memory {
	m := &Memory{Pages: map[uint32]*Page{}}
	for _, p := range pages {
		m.Pages[p.No] = &Page{Value: hcPattern(p.No, p.Seed), Access: p.Acc}
	}
	return m
}

// hcPoke writes bytes into mapped pages ignoring access (world construction only).
func hcPoke(m *Memory, addr uint64, data []byte) {
	for i, c := range data {
		a := addr + uint64(i)
		pg, ok := m.Pages[uint32(a/ZP)]
		if !ok {
			panic(fmt.Sprintf("hcPoke: page of %#x not mapped", a))
		}
		pg.Value[a%ZP] = c
	}
}

func hcPeekRaw(m *Memory, addr uint64, n int) []byte {
	out := make([]byte, n)
	for i := range out {
		a := addr + uint64(i)
		if pg, ok := m.Pages[uint32(a/ZP)]; ok && int(a%ZP) < len(pg.Value) {
			out[i] = pg.Value[a%ZP]
		}
	}
	return out
}

type hcPageSnap struct {
	Acc MemoryAccess
	Val []byte
	Nil bool
}

type hcMemSnap struct {
	Pages map[uint32]hcPageSnap
	NilMap bool
	HeapP, HeapL uint64
}

func hcSnapMem(m *Memory) hcMemSnap {
	s := hcMemSnap{Pages: map[uint32]hcPageSnap{}, NilMap: m.Pages == nil, HeapP: m.heapPointer, HeapL: m.heapLimit}
	for no, p := range m.Pages {
		if p == nil {
			s.Pages[no] = hcPageSnap{Nil: true}
			continue
		}
		s.Pages[no] = hcPageSnap{Acc: p.Access, Val: append([]byte(nil), p.Value...)}
	}
	return s
}

// hcMemChange describes what differs between two snapshots.
type hcMemChange struct {
	Structural []string // page added / removed / access changed / length changed / heap fields
	Lo, Hi     uint64   // smallest and largest+1 changed byte address (valid when Bytes > 0)
	Bytes      int
}

func hcDiffMem(a, b hcMemSnap) hcMemChange {
	var c hcMemChange
	c.Lo = ^uint64(0)
	if a.HeapP != b.HeapP || a.HeapL != b.HeapL {
		c.Structural = append(c.Structural, "heap pointer/limit changed")
	}
	nos := map[uint32]bool{}
	for n := range a.Pages {
		nos[n] = true
	}
	for n := range b.Pages {
		nos[n] = true
	}
	list := make([]uint32, 0, len(nos))
	for n := range nos {
		list = append(list, n)
	}
	sort.Slice(list, func(i, j int) bool { return list[i] < list[j] })
	for _, n := range list {
		pa, oka := a.Pages[n]
		pb, okb := b.Pages[n]
		switch {
		case !oka:
			c.Structural = append(c.Structural, fmt.Sprintf("page %#x added", n))
		case !okb:
			c.Structural = append(c.Structural, fmt.Sprintf("page %#x removed", n))
		case pa.Acc != pb.Acc || pa.Nil != pb.Nil:
			c.Structural = append(c.Structural, fmt.Sprintf("page %#x access %d->%d", n, pa.Acc, pb.Acc))
		case len(pa.Val) != len(pb.Val):
			c.Structural = append(c.Structural, fmt.Sprintf("page %#x length %d->%d", n, len(pa.Val), len(pb.Val)))
		default:
			for i := range pa.Val {
				if pa.Val[i] != pb.Val[i] {
					addr := uint64(n)*ZP + uint64(i)
					if addr < c.Lo {
						c.Lo = addr
					}
					if addr+1 > c.Hi {
						c.Hi = addr + 1
					}
					c.Bytes++
				}
			}
		}
	}
	return c
}

// hcRangeAccess: independent (harness-side) statement of "every byte of [start,start+n) lies in a
// page with access >= want and the range stays below 2^32". n == 0 is vacuously true.
func hcRangeAccess(s hcMemSnap, start, n uint64, want MemoryAccess) bool {
	if n == 0 {
		return true
	}
	end := &big.Int{}
	end.SetUint64(start)
	end.Add(end, (&big.Int{}).SetUint64(n))
	lim := (&big.Int{}).Lsh(big.NewInt(1), 32)
	if end.Cmp(lim) > 0 {
		return false
	}
	for p := start / ZP; p <= (start+n-1)/ZP; p++ {
		pg, ok := s.Pages[uint32(p)]
		if !ok || pg.Nil || pg.Acc < want {
			return false
		}
	}
	return true
}

// ---------------------------------------------------------------------------------------------
// accumulation context (as Psi_A builds it)
// ---------------------------------------------------------------------------------------------

// hcAccCtx mirrors PVM/accumulate_invocation.go:Psi_A lines "newPartialState := ..." to the
// construction of `addition`. The caller's partialState / storageKeyVal play the role of the
// Psi_A arguments (ResultContextY initially aliases them, exactly as in Psi_A).
func hcAccCtx(partialState types.PartialStateSet, serviceID types.ServiceID, timeslot types.TimeSlot,
	eta types.Entropy, storageKeyVal types.StateKeyVals, ops []types.OperandOrDeferredTransfer) HostCallArgs {
	newPartialState := partialState.DeepCopy()
	newStorageKeyVal := storageKeyVal.DeepCopy()
	serviceAccount := newPartialState.ServiceAccounts[serviceID]
	sid := serviceID
	return HostCallArgs{
		GeneralArgs: GeneralArgs{
			ServiceAccount:      &serviceAccount,
			ServiceID:           &sid,
			ServiceAccountState: &newPartialState.ServiceAccounts,
			CoreID:              nil,
			StorageKeyVal:       &newStorageKeyVal,
		},
		AccumulateArgs: AccumulateArgs{
			ResultContextX:             I(newPartialState, serviceID, timeslot, eta, &newStorageKeyVal),
			ResultContextY:             I(partialState, serviceID, timeslot, eta, &storageKeyVal),
			Eta:                        eta,
			OperandOrDeferredTransfers: ops,
			Timeslot:                   timeslot,
		},
	}
}

// hcAccount builds a consistent account: Items/Bytes are derived from the dictionaries by the
// formula of the property statement (harness-side arithmetic, not the repo's).
func hcAccount(balance uint64, codeHash types.OpaqueHash, storage map[string][]byte,
	lookups map[types.LookupMetaMapkey]types.TimeSlotSet, preimages map[types.OpaqueHash][]byte) types.ServiceAccount {
	a := types.ServiceAccount{
		ServiceInfo:    types.ServiceInfo{CodeHash: codeHash, Balance: types.U64(balance)},
		PreimageLookup: types.PreimagesMapEntry{},
		LookupDict:     types.LookupMetaMapEntry{},
		StorageDict:    types.Storage{},
	}
	for k, v := range storage {
		a.StorageDict[k] = append(types.ByteSequence{}, v...)
	}
	for k, v := range lookups {
		a.LookupDict[k] = append(types.TimeSlotSet{}, v...)
	}
	for k, v := range preimages {
		a.PreimageLookup[k] = append(types.ByteSequence{}, v...)
	}
	it, oc := hcFootprint(a, nil)
	a.ServiceInfo.Items = types.U32(it.Uint64())
	a.ServiceInfo.Bytes = types.U64(oc.Uint64())
	return a
}

// hcRawEntry is the harness' own record of an entry it placed into the raw key-value list, so that
// its footprint can be attributed (state keys are hashes; the list itself does not say).
type hcRawEntry struct {
	Key     types.StateKey
	Service types.ServiceID
	Storage bool   // storage entry (else lookup entry)
	KLen    int    // storage key length
	Z       uint32 // lookup length
}

// hcFootprint = (items, octets) by the statement's formula: 2 items and 81+z octets per lookup
// entry, 1 item and 34+|k|+|v| octets per storage entry; raw entries still present are added.
func hcFootprint(a types.ServiceAccount, raw []hcRawFound) (*big.Int, *big.Int) {
	items, oct := big.NewInt(0), big.NewInt(0)
	for k := range a.LookupDict {
		items.Add(items, big.NewInt(2))
		oct.Add(oct, big.NewInt(81+int64(k.Length)))
	}
	for k, v := range a.StorageDict {
		items.Add(items, big.NewInt(1))
		oct.Add(oct, big.NewInt(34+int64(len(k))+int64(len(v))))
	}
	for _, r := range raw {
		if r.E.Storage {
			items.Add(items, big.NewInt(1))
			oct.Add(oct, big.NewInt(34+int64(r.E.KLen)+int64(r.VLen)))
		} else {
			items.Add(items, big.NewInt(2))
			oct.Add(oct, big.NewInt(81+int64(r.E.Z)))
		}
	}
	return items, oct
}

type hcRawFound struct {
	E    hcRawEntry
	VLen int
}

// hcRawPresent lists the registered raw entries of one service that are still in the list.
func hcRawPresent(kv *types.StateKeyVals, reg []hcRawEntry, sid types.ServiceID) []hcRawFound {
	var out []hcRawFound
	if kv == nil {
		return nil
	}
	for _, e := range reg {
		if e.Service != sid {
			continue
		}
		for _, x := range *kv {
			if x.Key == e.Key {
				out = append(out, hcRawFound{E: e, VLen: len(x.Value)})
				break
			}
		}
	}
	return out
}

// hcThreshold = max(0, B_S + B_I*i + B_L*o - f) as an exact integer.
func hcThreshold(items, octets, offset *big.Int) *big.Int {
	t := big.NewInt(int64(types.BasicMinBalance))
	t.Add(t, (&big.Int{}).Mul(big.NewInt(int64(types.AdditionalMinBalancePerItem)), items))
	t.Add(t, (&big.Int{}).Mul(big.NewInt(int64(types.AdditionalMinBalancePerOctet)), octets))
	t.Sub(t, offset)
	if t.Sign() < 0 {
		return big.NewInt(0)
	}
	return t
}

func hcBig(x uint64) *big.Int { return (&big.Int{}).SetUint64(x) }

// hcLogical: service state with raw and parsed entries merged. Storage and lookup entries are
// re-keyed by their state key (through the repo's own key constructors, used only as an injective
// naming function on both sides of a comparison), so an entry that moved from the raw list into
// the parsed account maps to the same leaf.
func hcLogical(prefix string, accounts types.ServiceAccountState, kv *types.StateKeyVals, out hcFlat, kvOnly bool) hcFlat {
	if out == nil {
		out = hcFlat{}
	}
	for sid, a := range accounts {
		p := fmt.Sprintf("%s.acct[%d]", prefix, sid)
		if !kvOnly {
			hcWalk(p+".info", reflect.ValueOf(a.ServiceInfo), out)
			for h, v := range a.PreimageLookup {
				out[p+".preimage["+vlib.Hex(h[:])+"]"] = "b:" + string(v)
			}
		}
		for k, v := range a.StorageDict {
			sk := merklization.WrapEncodeDelta2KeyVal(sid, types.ByteSequence(k), nil).Key
			out[prefix+".kv["+vlib.Hex(sk[:])+"]"] = "storage:" + string(v)
		}
		for k, v := range a.LookupDict {
			sk := merklization.EncodeDelta4Key(sid, k)
			out[prefix+".kv["+vlib.Hex(sk[:])+"]"] = "lookup:" + fmt.Sprint([]types.TimeSlot(v))
		}
	}
	if kv != nil {
		for _, e := range *kv {
			k := prefix + ".kv[" + vlib.Hex(e.Key[:]) + "]"
			if _, dup := out[k]; dup {
				out[k+"#rawdup"] = "b:" + string(e.Value)
				continue
			}
			out[k] = "raw:" + string(e.Value)
		}
	}
	return out
}

// hcRawNormalise rewrites "raw:<bytes>" leaves into the same textual form the parsed entry would
// have, given the registry of raw entries (storage -> "storage:<v>", lookup -> decoded slots).
func hcRawNormalise(f hcFlat, prefix string, reg []hcRawEntry) {
	for _, e := range reg {
		k := prefix + ".kv[" + vlib.Hex(e.Key[:]) + "]"
		v, ok := f[k]
		if !ok || !strings.HasPrefix(v, "raw:") {
			continue
		}
		body := v[4:]
		if e.Storage {
			f[k] = "storage:" + body
			continue
		}
		var ts types.TimeSlotSet
		if err := types.NewDecoder().Decode([]byte(body), &ts); err == nil {
			f[k] = "lookup:" + fmt.Sprint([]types.TimeSlot(ts))
		}
	}
}

// ---------------------------------------------------------------------------------------------
// assembler
// ---------------------------------------------------------------------------------------------

type hcAsm struct {
	code []byte
	mask []bool
	// starts[i] = pc of the i-th instruction
	starts []int
}

func (a *hcAsm) emit(b ...byte) {
	a.starts = append(a.starts, len(a.code))
	for i, c := range b {
		a.code = append(a.code, c)
		a.mask = append(a.mask, i == 0)
	}
}

func (a *hcAsm) LoadImm64(reg int, v uint64) {
	var b [10]byte
	b[0] = 20
	b[1] = byte(reg)
	binary.LittleEndian.PutUint64(b[2:], v)
	a.emit(b[:]...)
}

// Ecalli emits `ecalli id` with the shortest little-endian immediate whose sign extension is id
// (1..4 bytes; id must be representable as a sign-extended 32-bit value).
func (a *hcAsm) Ecalli(id uint64) {
	for n := 1; n <= 4; n++ {
		var x uint64
		switch n {
		case 1:
			x = uint64(int64(int8(id)))
		case 2:
			x = uint64(int64(int16(id)))
		case 3:
			x = uint64(int64(id<<40) >> 40)
		case 4:
			x = uint64(int64(int32(id)))
		}
		if x == id {
			b := []byte{10}
			for i := 0; i < n; i++ {
				b = append(b, byte(id>>(8*uint(i))))
			}
			a.emit(b...)
			return
		}
	}
	panic(fmt.Sprintf("hcAsm.Ecalli: id %#x not encodable", id))
}

// EcalliRaw emits ecalli with exactly the given immediate bytes.
func (a *hcAsm) EcalliRaw(imm ...byte) { a.emit(append([]byte{10}, imm...)...) }

func (a *hcAsm) Trap()        { a.emit(0) }
func (a *hcAsm) Fallthrough() { a.emit(1) }

// Halt = jump_ind r0, 0 ; r0 must hold 2^32-2^16 (it does after the standard initialiser).
func (a *hcAsm) Halt() { a.emit(50, 0) }

// JumpInd emits jump_ind reg, 0.
func (a *hcAsm) JumpInd(reg int) { a.emit(50, byte(reg)) }

func hcVarint(x uint64) []byte {
	// GP C.6 general natural encoding (only small values are needed here)
	switch {
	case x < 1<<7:
		return []byte{byte(x)}
	case x < 1<<14:
		return []byte{0x80 | byte(x>>8), byte(x)}
	case x < 1<<21:
		return []byte{0xC0 | byte(x>>16), byte(x), byte(x >> 8)}
	case x < 1<<28:
		return []byte{0xE0 | byte(x>>24), byte(x), byte(x >> 8), byte(x >> 16)}
	}
	panic("hcVarint: too large")
}

// Blob = E(|j|) ‖ E_1(z) ‖ E(|c|) ‖ j ‖ c ‖ k  (GP A.2), with an empty jump table.
func (a *hcAsm) Blob() []byte {
	out := []byte{0x00, 0x01}
	out = append(out, hcVarint(uint64(len(a.code)))...)
	out = append(out, a.code...)
	k := make([]byte, (len(a.code)+7)/8)
	for i, m := range a.mask {
		if m {
			k[i/8] |= 1 << uint(i%8)
		}
	}
	return append(out, k...)
}

// hcStandardProgram = E_3(|o|) E_3(|w|) E_2(z) E_3(s) o w E_4(|c|) c  (GP A.37)
func hcStandardProgram(ro, rw []byte, heapPages uint16, stack uint32, blob []byte) []byte {
	le := func(x uint64, n int) []byte {
		b := make([]byte, n)
		for i := range b {
			b[i] = byte(x >> (8 * uint(i)))
		}
		return b
	}
	var p []byte
	p = append(p, le(uint64(len(ro)), 3)...)
	p = append(p, le(uint64(len(rw)), 3)...)
	p = append(p, le(uint64(heapPages), 2)...)
	p = append(p, le(uint64(stack), 3)...)
	p = append(p, ro...)
	p = append(p, rw...)
	p = append(p, le(uint64(len(blob)), 4)...)
	p = append(p, blob...)
	return p
}

// hcMetaCode wraps a standard program as the service-code preimage: ↕metadata ‖ code.
func hcMetaCode(program []byte) []byte {
	return append([]byte{1, 'm'}, program...)
}

func hcHash(b []byte) types.OpaqueHash { return hash.Blake2bHash(types.ByteSequence(b)) }

func hcLE(x uint64, n int) []byte {
	b := make([]byte, n)
	for i := range b {
		b[i] = byte(x >> (8 * uint(i)))
	}
	return b
}

func hcErrName(v uint64) string {
	switch v {
	case NONE:
		return "NONE"
	case WHAT:
		return "WHAT"
	case OOB:
		return "OOB"
	case WHO:
		return "WHO"
	case FULL:
		return "FULL"
	case CORE:
		return "CORE"
	case CASH:
		return "CASH"
	case LOW:
		return "LOW"
	case HUH:
		return "HUH"
	}
	return ""
}

func hcExitName(e ExitReason) string {
	switch e.GetReasonType() {
	case CONTINUE:
		return "continue"
	case HALT:
		return "halt"
	case PANIC:
		return "panic"
	case OUT_OF_GAS:
		return "oog"
	case PAGE_FAULT:
		return "fault"
	case HOST_CALL:
		return "host"
	}
	return "?"
}

// hcCall runs one Omega on (regs, mem, gas, args) the way Host.HostCall does: registers, memory and
// gas are shared by pointer, the context is passed by value and replaced by the returned one.
func hcCall(om Omega, op OperationType, regs *Registers, mem *Memory, gas *Gas, args *HostCallArgs, omegas Omegas) (out OmegaOutput, panicked bool, msg, site string) {
	panicked, msg, site = vlib.Guard(func() {
		out = om(OmegaInput{Operation: op, VM: &VMState{Registers: regs, Memory: mem, Gas: gas}, Addition: *args, HostCalls: omegas})
	})
	if !panicked {
		*args = out.Addition
	}
	return
}
