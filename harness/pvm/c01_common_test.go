package PVM

// Shared machinery of the PVM checks C01 (reference conformance), C02 (engine
// equivalence) and C04 (gas): register/memory worlds, case generators (single
// instruction sweep, program sweep), runners for the real engines and for the
// reference interpreter R-PVM (lib/refpvm), comparison and signatures.

import (
	"bytes"
	"fmt"
	"os"
	"regexp"
	"runtime"
	"runtime/debug"
	"sort"
	"strconv"
	"strings"

	"github.com/New-JAMneration/JAM-Protocol/internal/zzverif/refpvm"
	"github.com/New-JAMneration/JAM-Protocol/internal/zzverif/vlib"
)

// ---------------------------------------------------------------------------
// worlds
// ---------------------------------------------------------------------------

type c01WPage struct {
	num      uint32
	acc      MemoryAccess
	pristine []byte
	live     []byte // handed to the implementation; restored after every case
	live2    []byte // second copy for differential checks (C02)
}

type c01World struct {
	id        int
	name      string
	regs      [13]uint64
	pages     []*c01WPage
	heapPtr   uint64
	heapLimit uint64
	ref       *refpvm.Memory // journaling: Begin() before every reference run
	mem       [2]*Memory     // reusable implementation memories (second one for C02)
	memPages  [2][]*Page
}

func c01PageFill(num uint32) []byte {
	d := make([]byte, ZP)
	for i := range d {
		// non-zero, position dependent, different per page, high bit set on odd offsets
		d[i] = byte(int(num)*31+i*7+1) | byte((i&1)<<7)
		if d[i] == 0 {
			d[i] = 0x5A
		}
	}
	return d
}

func c01NewWorld(id int, name string, regs [13]uint64, pages map[uint32]MemoryAccess, heapPtr, heapLimit uint64) *c01World {
	w := &c01World{id: id, name: name, regs: regs, heapPtr: heapPtr, heapLimit: heapLimit}
	w.ref = refpvm.NewMemory()
	w.ref.HeapPtr, w.ref.HeapLimit = heapPtr, heapLimit
	w.ref.SbrkMaxPages = 64
	var nums []uint32
	for n := range pages {
		nums = append(nums, n)
	}
	sort.Slice(nums, func(i, j int) bool { return nums[i] < nums[j] })
	for _, n := range nums {
		p := &c01WPage{num: n, acc: pages[n], pristine: c01PageFill(n)}
		p.live = append([]byte(nil), p.pristine...)
		p.live2 = append([]byte(nil), p.pristine...)
		w.pages = append(w.pages, p)
		w.ref.Map(n, refpvm.Access(pages[n]), p.pristine)
	}
	return w
}

// implMem returns a Memory over the world's live page buffers in its pristine
// state. The Memory/Page objects are reused between cases when the previous
// case left their structure untouched, and rebuilt otherwise.
func (w *c01World) implMem(second bool) *Memory {
	k := 0
	if second {
		k = 1
	}
	w.restoreOne(k)
	if m := w.mem[k]; m != nil && len(m.Pages) == len(w.pages) {
		ok := true
		for i, p := range w.pages {
			pg := m.Pages[p.num]
			buf := p.live
			if second {
				buf = p.live2
			}
			if pg == nil || pg != w.memPages[k][i] || pg.Access != p.acc || len(pg.Value) != ZP || &pg.Value[0] != &buf[0] {
				ok = false
				break
			}
		}
		if ok {
			m.heapPointer, m.heapLimit = w.heapPtr, w.heapLimit
			return m
		}
	}
	m := &Memory{Pages: make(map[uint32]*Page, len(w.pages)+2), heapPointer: w.heapPtr, heapLimit: w.heapLimit}
	w.memPages[k] = w.memPages[k][:0]
	for _, p := range w.pages {
		buf := p.live
		if second {
			buf = p.live2
		}
		pg := &Page{Value: buf, Access: p.acc}
		m.Pages[p.num] = pg
		w.memPages[k] = append(w.memPages[k], pg)
	}
	w.mem[k] = m
	return m
}

func (w *c01World) restoreOne(k int) {
	for _, p := range w.pages {
		buf := p.live
		if k == 1 {
			buf = p.live2
		}
		if !bytes.Equal(buf, p.pristine) {
			copy(buf, p.pristine)
		}
	}
}

func (w *c01World) restore() {
	for _, p := range w.pages {
		if !bytes.Equal(p.live, p.pristine) {
			copy(p.live, p.pristine)
		}
		if !bytes.Equal(p.live2, p.pristine) {
			copy(p.live2, p.pristine)
		}
	}
}

const (
	c01PgA = 0x10 // 0x10000 … 0x10FFF
	c01PgB = 0x11
	c01PgC = 0x12
	c01PgD = 0x13 // unmapped; heap starts here
	c01PgT = 0xFFFFF
)

var c01Worlds []*c01World
var c01Ballast []byte

func c01InitWorlds() {
	if c01Worlds != nil {
		return
	}
	// the sweeps allocate many tiny short-lived objects; with the default GC
	// target the collector and the scavenger (madvise) take half the time
	c01Ballast = make([]byte, 16<<20)
	debug.SetGCPercent(100)
	m1 := ^uint64(0)
	// world 0 "arith": the 13 arithmetic boundary values (DESIGN App. C rule 1).
	// Indices 0,1,4,5,7,8,9,12 are the ones the quick first-byte lattice reaches.
	arith := [13]uint64{
		0: 0, 1: 1, 2: 3, 3: m1 - 1, 4: 2, 5: 1 << 31, 6: 1<<63 - 1,
		7: m1, 8: 1<<32 - 1, 9: 1 << 63, 10: 1<<31 - 1, 11: 1 << 32, 12: 0x8000000080000000,
	}
	// world 1 "addr": page edges, 2^16 boundary, halt address, jump-table addresses.
	addr := [13]uint64{
		0: 0x10000, 1: 0x10FFF, 2: 6, 3: 8, 4: 0x11FFE, 5: 0x12FFC, 6: 0x13000,
		7: 0xFFFF0000, 8: 2, 9: 4, 10: 0xFFFFFFFF, 11: 0x100010000, 12: 0xFFFF,
	}
	// world 2 "prog": for the program sweep.
	prog := [13]uint64{
		0: 0xFFFF0000, 1: 2, 2: 4, 3: 0xFFFFFFF0, 4: 0x10000, 5: 0x10FFF, 6: 0,
		7: 1, 8: m1, 9: 1 << 31, 10: 6, 11: 0x12FFC, 12: 5,
	}
	RW, RO := MemoryReadWrite, MemoryReadOnly
	c01Worlds = []*c01World{
		c01NewWorld(0, "arith", arith, map[uint32]MemoryAccess{c01PgA: RW, c01PgB: RW, c01PgC: RO}, 0x13000, 0x15000),
		c01NewWorld(1, "addr", addr, map[uint32]MemoryAccess{c01PgA: RO, c01PgB: RW, c01PgC: RW}, 0x13000, 0x15000),
		c01NewWorld(2, "prog", prog, map[uint32]MemoryAccess{c01PgA: RW, c01PgB: RO, c01PgT: RW}, 0x12000, 0x14000),
	}
}

// ---------------------------------------------------------------------------
// a case = (blob, world, gas); everything else is derivable
// ---------------------------------------------------------------------------

type c01Case struct {
	Blob  string `json:"blob"`
	World int    `json:"world"`
	Gas   uint64 `json:"gas"`
	Note  string `json:"note,omitempty"`
}

// ---------------------------------------------------------------------------
// running the implementation
// ---------------------------------------------------------------------------

// c01Guard is vlib.Guard without the full stack dump (the sweeps meet millions
// of Go panics): it walks the frames and returns the innermost repo function.
func c01Guard(f func()) (panicked bool, msg string, site string) {
	defer func() {
		if e := recover(); e != nil {
			panicked = true
			msg = fmt.Sprint(e)
			var pcs [48]uintptr
			n := runtime.Callers(2, pcs[:])
			fr := runtime.CallersFrames(pcs[:n])
			site = "unknown"
			for {
				f, more := fr.Next()
				if strings.Contains(f.Function, "JAM-Protocol/") && !strings.Contains(f.File, "zz_verif") &&
					!strings.Contains(f.File, "/verif/") && !strings.Contains(f.Function, "/zzverif/") &&
					!strings.Contains(f.Function, "PVM.c0") && !strings.Contains(f.Function, "PVM.TestVerif") {
					fn := f.Function
					if k := strings.LastIndex(fn, "/"); k >= 0 {
						fn = fn[k+1:]
					}
					site = fn
					break
				}
				if !more {
					break
				}
			}
		}
	}()
	f()
	return
}

var c01Digits = regexp.MustCompile(`[0-9]+`)

// c01PanicClass normalises a Go panic message (numbers → N).
var c01PanicClassCache = map[string]string{}

func c01PanicClass(msg string) string {
	if c, ok := c01PanicClassCache[msg]; ok {
		return c
	}
	c := c01Short(c01Digits.ReplaceAllString(strings.TrimPrefix(msg, "runtime error: "), "N"), 80)
	if len(c01PanicClassCache) < 4096 {
		c01PanicClassCache[msg] = c
	}
	return c
}

const c01Marker = ExitReason(0x7E) << 56

var c01Logged []int64

var c01Omegas = func() Omegas {
	om := make(Omegas, 256)
	for i := range om {
		om[i] = func(in OmegaInput) OmegaOutput {
			c01Logged = append(c01Logged, int64(in.Operation))
			return OmegaOutput{ExitReason: c01Marker, Addition: in.Addition}
		}
	}
	return om
}()

type c01Impl struct {
	deblobOK    bool
	deblobPanic bool
	runPanic    bool
	panicMsg    string
	panicSite   string
	kind        refpvm.ExitKind
	raw         ExitReason
	hostID      int64
	faultAddr   uint32
	pc          uint32
	regs        [13]uint64
	gas         int64
	mem         *Memory
}

// c01Deblob runs the real DeBlobProgramCode on a private copy of the blob.
func c01Deblob(blob []byte, out *c01Impl) *Program {
	var prog Program
	var ex ExitReason
	// exact capacity, as in production where the code is the tail of the standard
	// program blob (reads past len(blob) are then Go panics, never silent)
	b := make([]byte, len(blob))
	copy(b, blob)
	p, msg, site := c01Guard(func() { prog, ex = DeBlobProgramCode(b) })
	if p {
		out.deblobPanic, out.panicMsg, out.panicSite = true, msg, site
		return nil
	}
	if ex != ExitContinue {
		return nil
	}
	out.deblobOK = true
	return &prog
}

// one Host object is reused: NewHost is a plain constructor (it only copies its
// arguments into the struct), and allocating the large HostCallArgs value
// millions of times dominated the run time.
var c01Host = &Host{}

// c01RunImpl drives the top-level path: DeBlobProgramCode → Host.HostCall.
// ip, when non-nil, is the result of an earlier DeBlobProgramCode of the same
// blob (the pre-decoded Program is immutable).
func c01RunImpl(blob []byte, ip *Program, w *c01World, gas uint64) (c01Impl, *Program) {
	var out c01Impl
	if ip == nil {
		ip = c01Deblob(blob, &out)
		if ip == nil {
			return out, nil
		}
	} else {
		out.deblobOK = true
	}
	mem := w.implMem(false)
	host := c01Host
	*host = Host{Interpreter: Interpreter{Program: ip, Registers: Registers(w.regs), Memory: mem, Gas: Gas(gas)}, HostCalls: c01Omegas}
	c01Logged = c01Logged[:0]
	var res Psi_H_ReturnType
	p, msg, site := c01Guard(func() { res = host.HostCall(0, 0) })
	if p {
		out.runPanic, out.panicMsg, out.panicSite = true, msg, site
		return out, ip
	}
	out.raw = res.ExitReason
	out.pc = res.Counter
	out.regs = [13]uint64(host.Interpreter.Registers)
	out.gas = int64(host.Interpreter.Gas)
	out.mem = host.Interpreter.Memory
	switch {
	case res.ExitReason == c01Marker:
		out.kind = refpvm.Host
		if len(c01Logged) > 0 {
			out.hostID = c01Logged[0]
		}
	default:
		out.kind = c01KindOf(res.ExitReason)
		out.faultAddr = res.ExitReason.GetPageFaultAddress()
	}
	return out, ip
}

func c01KindOf(e ExitReason) refpvm.ExitKind {
	switch e.GetReasonType() {
	case HALT:
		return refpvm.Halt
	case PANIC:
		return refpvm.Panic
	case OUT_OF_GAS:
		return refpvm.OOG
	case PAGE_FAULT:
		return refpvm.Fault
	case HOST_CALL:
		return refpvm.Host
	}
	return refpvm.Continue // "unknown": never equal to a reference exit
}

// ---------------------------------------------------------------------------
// running the reference
// ---------------------------------------------------------------------------

type c01Ref struct {
	ok   bool // deblob
	err  string
	prog *refpvm.Program
	exit refpvm.Exit
	pc   uint64 // counter Ψ returns (next instruction after a host call)
	m    *refpvm.Machine
	done bool
	// unknown host calls (identifier outside the 256-slot table) the run went through
	whats    int
	unpinned bool
}

func c01RunRef(prog *refpvm.Program, w *c01World, gas uint64, opt refpvm.Options, maxSteps int) c01Ref {
	w.ref.Begin()
	m := &refpvm.Machine{P: prog, Gas: gas, Regs: w.regs, Mem: w.ref, Opt: opt}
	r := c01Ref{ok: true, prog: prog, m: m}
	for {
		e, done := m.Run(maxSteps - m.Steps)
		r.exit, r.done = e, done
		if !done {
			break
		}
		// The logging host-call table has 256 slots. An identifier outside it is an
		// unknown host call: Ψ_H charges 10, sets φ7 = WHAT and resumes after the
		// ecalli (GP B: default case of the host-call dispatch).
		if e.Kind == refpvm.Host && (int64(e.Arg) < 0 || e.Arg >= 256) {
			if m.Gas < 10 {
				// out of gas inside the host call: which gas/counter the exit carries is
				// not pinned by the property; the case is not judged
				r.unpinned = true
				break
			}
			m.Gas -= 10
			m.Regs[7] = ^uint64(1) // WHAT
			m.PC = m.NextPC
			r.whats++
			continue
		}
		break
	}
	r.pc = m.PC
	if r.exit.Kind == refpvm.Host {
		r.pc = m.NextPC
	}
	if m.Mem.TooBig {
		// an sbrk of more than 64 pages (only possible in the standard-program world,
		// where the heap may grow to the stack): not materialised, run not judged
		r.unpinned = true
	}
	return r
}

// ---------------------------------------------------------------------------
// comparison
// ---------------------------------------------------------------------------

// c01Match compares the implementation's final state with one reference run.
// Returns "" when they agree, else the first differing component and a detail.
func c01Match(ref *c01Ref, im *c01Impl, relaxSbrk bool, want bool) (kind string, detail string) {
	D := func(format string, a ...interface{}) string {
		if !want {
			return ""
		}
		return fmt.Sprintf(format, a...)
	}
	e := ref.exit
	expPC := ref.pc
	exitOK := false
	switch {
	case e.Kind == im.kind && e.Kind != refpvm.Fault && e.Kind != refpvm.Host:
		exitOK = true
	case e.Kind == refpvm.Host && im.kind == refpvm.Host:
		if int64(e.Arg) != im.hostID {
			return "hostid", D("host-call id dispatched %d, reference ecalli immediate %d", im.hostID, int64(e.Arg))
		}
		exitOK = true
	case e.Kind == refpvm.Fault && im.kind == refpvm.Fault:
		lo := uint64(e.AccessAddr) &^ (ZP - 1)
		hi := uint64(e.AccessAddr) + uint64(e.AccessLen) - 1
		if a := uint64(im.faultAddr); a < lo || a > hi {
			return "fault-addr", D("fault address 0x%x outside [0x%x, 0x%x] (GP: 0x%x)", a, lo, hi, e.Arg)
		}
		exitOK = true
	case e.Kind == refpvm.Panic && e.AltFault && im.kind == refpvm.Fault:
		// access wrapping past 2^32 with an inaccessible byte before the wrap:
		// both "panic" and "fault at that byte" are accepted (see refpvm.MemResult)
		lo := uint64(e.AccessAddr) &^ (ZP - 1)
		if a := uint64(im.faultAddr); a < lo {
			return "fault-addr", D("fault address 0x%x below 0x%x", a, lo)
		}
		exitOK = true
		expPC = ref.m.LastPC
	}
	if !exitOK {
		return "exit", D("exit %s (raw 0x%x), reference %s", c01ImplExit(im), uint64(im.raw), e)
	}
	if uint64(im.pc) != expPC {
		return "pc", D("returned counter %d, reference %d (exit %s)", im.pc, expPC, e)
	}
	sbrkSoft := relaxSbrk && ref.m.UsedSbrk
	for i := 0; i < 13; i++ {
		if im.regs[i] != ref.m.Regs[i] {
			if sbrkSoft && ref.m.SbrkRegs&(1<<uint(i)) != 0 {
				continue // only the registers sbrk itself wrote are exempt
			}
			return "reg", D("r%d = 0x%x, reference 0x%x (exit %s)", i, im.regs[i], ref.m.Regs[i], e)
		}
	}
	if im.gas < 0 || uint64(im.gas) != ref.m.Gas {
		return "gas", D("gas left %d, reference %d (exit %s, %d reference steps)", im.gas, ref.m.Gas, e, ref.m.Steps)
	}
	if k, d := c01MatchMem(ref.m.Mem, im.mem, sbrkSoft); k != "" {
		return k, d
	}
	return "", ""
}

func c01ImplExit(im *c01Impl) string {
	switch im.kind {
	case refpvm.Fault:
		return fmt.Sprintf("fault(0x%x)", im.faultAddr)
	case refpvm.Host:
		return fmt.Sprintf("host(%d)", im.hostID)
	case refpvm.Continue:
		return "unknown"
	}
	return im.kind.String()
}

func c01MatchMem(rm *refpvm.Memory, im *Memory, sbrkSoft bool) (string, string) {
	if im == nil {
		return "mem", "implementation memory is nil"
	}
	seen := map[uint32]bool{}
	for n, rp := range rm.Pages {
		seen[n] = true
		ip, ok := im.Pages[n]
		iacc := MemoryInaccessible
		if ok {
			iacc = ip.Access
		}
		if refpvm.Access(iacc) != rp.Access {
			if sbrkSoft {
				continue
			}
			return "mem", fmt.Sprintf("page 0x%x access %d, reference %s", n, iacc, rp.Access)
		}
		if rp.Access == refpvm.AccNone {
			continue
		}
		if len(ip.Value) != ZP || !bytes.Equal(ip.Value, rp.Data) {
			k := 0
			for k < len(ip.Value) && k < len(rp.Data) && ip.Value[k] == rp.Data[k] {
				k++
			}
			var got byte
			if k < len(ip.Value) {
				got = ip.Value[k]
			}
			return "mem", fmt.Sprintf("page 0x%x differs at offset 0x%x: 0x%02x, reference 0x%02x", n, k, got, rp.Data[k%len(rp.Data)])
		}
	}
	for n, ip := range im.Pages {
		if seen[n] || ip.Access == MemoryInaccessible {
			continue
		}
		if sbrkSoft {
			continue
		}
		return "mem", fmt.Sprintf("page 0x%x mapped (access %d) but absent in the reference", n, ip.Access)
	}
	if !sbrkSoft && (im.heapPointer != rm.HeapPtr) {
		return "mem", fmt.Sprintf("heap pointer 0x%x, reference 0x%x", im.heapPointer, rm.HeapPtr)
	}
	return "", ""
}

// c01SbrkClauses checks, for runs that executed sbrk and did not match the
// reference's sbrk model exactly, the clauses property C05 actually states.
func c01SbrkClauses(w *c01World, im *c01Impl) string {
	if im.mem == nil {
		return ""
	}
	if im.mem.heapPointer < w.heapPtr {
		return fmt.Sprintf("heap pointer shrank: 0x%x < 0x%x", im.mem.heapPointer, w.heapPtr)
	}
	if im.mem.heapPointer > w.heapLimit {
		return fmt.Sprintf("heap pointer 0x%x beyond the limit 0x%x", im.mem.heapPointer, w.heapLimit)
	}
	orig := map[uint32]MemoryAccess{}
	for _, p := range w.pages {
		orig[p.num] = p.acc
	}
	for n, p := range im.mem.Pages {
		if a, ok := orig[n]; ok {
			if p.Access != a {
				return fmt.Sprintf("page 0x%x changed access %d → %d", n, a, p.Access)
			}
			continue
		}
		if p.Access != MemoryReadWrite {
			return fmt.Sprintf("new page 0x%x is not writable (access %d)", n, p.Access)
		}
		if uint64(n)*ZP >= w.heapLimit || uint64(n+1)*ZP <= w.heapPtr&^(ZP-1) {
			return fmt.Sprintf("new page 0x%x lies outside the heap range [0x%x, 0x%x)", n, w.heapPtr, w.heapLimit)
		}
	}
	return ""
}

// ---------------------------------------------------------------------------
// signatures: (site, kind, key) with key = category + facet
// ---------------------------------------------------------------------------

// operand bytes the GP reads after the opcode byte for an instruction of
// category cat at pc (given ℓ and the first operand bytes).
func c01Declared(p *refpvm.Program, pc uint64) (need int, l int) {
	op := p.Zeta(pc)
	l = p.Skip(pc)
	b1, b2 := p.Zeta(pc+1), p.Zeta(pc+2)
	cl := func(x int) int {
		if x < 0 {
			return 0
		}
		if x > 4 {
			return 4
		}
		return x
	}
	switch refpvm.CategoryOf(op) {
	case refpvm.CatImm, refpvm.CatOff:
		return cl(l), l
	case refpvm.CatRegImm64:
		return 9, l
	case refpvm.CatImmImm:
		lx := cl(int(b1 % 8))
		return 1 + lx + cl(l-lx-1), l
	case refpvm.CatRegImm, refpvm.CatRegRegImm, refpvm.CatRegRegOff:
		return 1 + cl(l-1), l
	case refpvm.CatRegImmImm, refpvm.CatRegImmOff:
		lx := cl(int((b1 >> 4) % 8))
		return 1 + lx + cl(l-lx-1), l
	case refpvm.CatRegReg:
		return 1, l
	case refpvm.CatRegRegImmImm:
		lx := cl(int(b2 % 8))
		return 2 + lx + cl(l-lx-2), l
	case refpvm.CatRegRegReg:
		return 2, l
	}
	return 0, l
}

// c01Culprit picks the instruction a disagreement is blamed on: the last one
// the reference executed, or - when the reference stopped out of gas but the
// implementation did not - the one the reference was about to execute (the
// implementation did something there without paying).
func c01Culprit(ref *c01Ref, im *c01Impl) (pc uint64, executed bool) {
	if ref.m.Steps == 0 {
		return ref.m.PC, false
	}
	if im != nil && ref.exit.Kind == refpvm.OOG && im.deblobOK && !im.runPanic && im.kind != refpvm.OOG {
		// the implementation ended the run although the reference merely ran out
		// of gas. A block engine can stop without charging only before an
		// instruction it cannot fetch (index past the code, or no bitmask bit);
		// blame that one if it is next, else the last executed instruction.
		if nx := ref.m.PC; nx >= uint64(len(ref.prog.Code)) || !ref.prog.K(nx) {
			return nx, false
		}
	}
	return ref.m.LastPC, true
}

func c01LDependent(cat refpvm.Category) bool { // immediate length is ℓ-1 (unsigned underflow when ℓ = 0)
	return cat == refpvm.CatRegImm || cat == refpvm.CatRegRegImm || cat == refpvm.CatRegRegOff
}

func c01NibbleDeclared(cat refpvm.Category) bool { // first immediate length declared by an operand nibble/byte
	return cat == refpvm.CatImmImm || cat == refpvm.CatRegImmImm || cat == refpvm.CatRegImmOff || cat == refpvm.CatRegRegImmImm
}

// c01KeyOf names the input class of the culprit instruction:
// "cat=<operand category>;<facet>" (+ the opcode for the catch-all facet).
func c01KeyOf(ref *c01Ref, im *c01Impl) string {
	pc, executed := c01Culprit(ref, im)
	m := ref.m
	p := ref.prog
	op := p.Zeta(pc)
	cat := refpvm.CategoryOf(op)
	n := uint64(len(p.Code))
	if !p.K(pc) {
		return "cat=*;k0" // fetched where the bitmask has no bit: the category is beside the point
	}
	ck := "cat=" + cat.String() + ";"
	if pc >= n {
		return ck + "pc>=len"
	}
	need, l := c01Declared(p, pc)
	b1 := p.Zeta(pc + 1)
	continued := executed && ref.exit.Kind == refpvm.OOG // the culprit itself completed
	if executed {
		if op == 10 && ref.exit.Kind == refpvm.Host {
			id := int64(ref.exit.Arg)
			switch {
			case id < 0:
				return ck + "id<0"
			case id >= 256:
				return ck + "id>=256"
			case id > 100:
				return ck + "id=101..255"
			}
			return ck + "id<=100"
		}
		if op == 101 {
			return ck + "sbrk"
		}
		if continued && m.PC == pc {
			return ck + "target=self" // static or dynamic jump to its own address
		}
		if (op == 50 || op == 180) && m.DjumpTable && p.Z > 8 {
			return ck + "z>8"
		}
		if (op == 50 || op == 180) && m.DjumpTable && (m.DjumpEntry.Huge || m.DjumpEntry.Val >= 1<<32) {
			return ck + "jt-entry>=2^32"
		}
	}
	if pc+1+uint64(need) > n {
		return ck + "operands-past-end"
	}
	if cat == refpvm.CatImmImm && b1 >= 8 || cat == refpvm.CatRegImmImm && b1>>4 >= 8 {
		return ck + "lx-nibble>=8"
	}
	if c01LDependent(cat) && l == 0 {
		return ck + "skip=0"
	}
	if executed {
		if m.AccessLen > 0 && uint64(m.AccessAddr)+uint64(m.AccessLen) > 1<<32 {
			return ck + "access-wraps-2^32"
		}
		if t, ok := c01StaticTarget(p, pc); ok {
			taken := ref.exit.Kind == refpvm.Panic || continued && m.PC == uint64(t) && t >= 0
			if taken {
				switch {
				case t < 0:
					return ck + "target<0"
				case uint64(t) >= n:
					return ck + "target>=len"
				case !p.IsBlockStart(uint64(t)):
					if !refpvm.IsValid(p.Zeta(uint64(t))) {
						return ck + "target=nonstart-invalid-opcode"
					}
					return ck + "target=nonstart"
				}
			}
		}
	}
	if c01NibbleDeclared(cat) && need > l {
		return ck + "declared>skip"
	}
	return ck + fmt.Sprintf("op=%d;plain", op)
}

// c01ClassOf is the behaviour class of a full reference run.
func c01ClassOf(ref *c01Ref) string {
	return c01KeyOf(ref, nil) + " exit=" + ref.exit.Kind.String()
}

func c01StaticTarget(p *refpvm.Program, pc uint64) (int64, bool) {
	op := p.Zeta(pc)
	l := p.Skip(pc)
	cl := func(x int) int {
		if x < 0 {
			return 0
		}
		if x > 4 {
			return 4
		}
		return x
	}
	le := func(i uint64, n int) uint64 {
		var v uint64
		for k := 0; k < n; k++ {
			v |= uint64(p.Zeta(i+uint64(k))) << (8 * uint(k))
		}
		return v
	}
	switch refpvm.CategoryOf(op) {
	case refpvm.CatOff:
		lx := cl(l)
		return int64(pc) + int64(refpvm.SignExt(lx, le(pc+1, lx))), true
	case refpvm.CatRegImmOff:
		lx := cl(int((p.Zeta(pc+1) >> 4) % 8))
		ly := cl(l - lx - 1)
		return int64(pc) + int64(refpvm.SignExt(ly, le(pc+2+uint64(lx), ly))), true
	case refpvm.CatRegRegOff:
		lx := cl(l - 1)
		return int64(pc) + int64(refpvm.SignExt(lx, le(pc+2, lx))), true
	}
	return 0, false
}

// c01RejectFacet classifies a blob the reference deblobs but the implementation
// rejects: what a linear scan of the code from 0 meets.
func c01RejectFacet(p *refpvm.Program) string {
	n := uint64(len(p.Code))
	if n == 0 {
		return "empty-code"
	}
	inv, k0 := false, false
	lastTerm := false
	for i := uint64(0); i < n; {
		if !p.K(i) {
			k0 = true
		}
		op := p.Code[i]
		if !refpvm.IsValid(op) {
			inv = true
		}
		lastTerm = refpvm.IsTerminator(op)
		i += 1 + uint64(p.Skip(i))
	}
	switch {
	case inv:
		return "invalid-opcode-in-code"
	case !lastTerm:
		return "no-terminator-at-end"
	case k0:
		return "k0"
	}
	return "other"
}

// ---------------------------------------------------------------------------
// C01 core: one case against the reference
// ---------------------------------------------------------------------------

// c01Viol reports a violation; detail and case are only built for the first
// instance of a signature in this shard (millions of instances are expected).
var c01SeenSig = map[string]bool{}

func c01Viol(r *vlib.Run, site, kind, key string, detail func() string, c func() c01Case) {
	sig := site + "|" + kind + "|" + key
	if c01SeenSig[sig] {
		r.Violation(site, kind, key, "", nil)
		return
	}
	c01SeenSig[sig] = true
	r.Violation(site, kind, key, detail(), c())
}

func c01CaseJSON(blob []byte, w *c01World, gas uint64, note string) c01Case {
	return c01Case{Blob: vlib.Hex(blob), World: w.id, Gas: gas, Note: note}
}

const c01EngineSite = "Interpreter.SingleStepInvokeDecodedBlocks"

func c01StepCap(gas uint64) int {
	if gas > 1<<16 {
		return 1 << 16
	}
	return int(gas) + 2
}

// c01Verdict is the comparison of one implementation run with the reference,
// with every relaxation applied (k = 0 fetches: both readings; sbrk: C05 clauses).
type c01Verdict struct {
	ok     bool
	capped bool
	kind   string // first differing component, or "go-panic"
	detail string // only filled by c01JudgeDetail
	relax  string // which relaxation made it pass ("" = exact)
	ref    c01Ref
	im     c01Impl
	ip     *Program // the implementation's deblobbed program (nil when rejected)
}

func c01Judge(prog *refpvm.Program, blob []byte, ip *Program, w *c01World, gas uint64, want bool) c01Verdict {
	var v c01Verdict
	v.ref = c01RunRef(prog, w, gas, refpvm.Options{}, c01StepCap(gas))
	if !v.ref.done {
		v.capped = true
		return v
	}
	if v.ref.unpinned {
		v.ok, v.relax = true, "unjudged"
		return v
	}
	v.im, v.ip = c01RunImpl(blob, ip, w, gas)
	if v.im.deblobPanic || !v.im.deblobOK {
		v.kind = "deblob"
		return v
	}
	if v.im.runPanic {
		v.kind, v.detail = "go-panic", "Go panic: "+v.im.panicMsg
		return v
	}
	v.kind, v.detail = c01Match(&v.ref, &v.im, false, want)
	if v.kind == "" {
		v.ok = true
		return v
	}
	// sbrk: only the clauses C05 states are binding
	if v.ref.m.UsedSbrk {
		if k3, _ := c01Match(&v.ref, &v.im, true, false); k3 == "" {
			if why := c01SbrkClauses(w, &v.im); why == "" {
				v.ok, v.relax = true, "sbrk-relaxed"
				return v
			} else {
				v.kind, v.detail = "sbrk", why
			}
		}
	}
	// instructions fetched where the bitmask has no bit: second reading (note:
	// this re-runs the reference, whose memory is shared with v.ref)
	if v.ref.m.SawK0 {
		ref2 := c01RunRef(prog, w, gas, refpvm.Options{K0Trap: true}, c01StepCap(gas))
		if ref2.done && !ref2.unpinned {
			if k2, _ := c01Match(&ref2, &v.im, false, false); k2 == "" {
				v.ok, v.relax = true, "k0trap"
				return v
			}
		}
	}
	return v
}

// c01Check runs one (blob, world, gas) through the implementation and the
// reference and reports violations of property pid. It returns the behaviour class.
func c01Check(r *vlib.Run, pid string, blob []byte, w *c01World, gas uint64, note string) string {
	r.Eval()
	r.Transition()
	prog, err := refpvm.Deblob(blob)
	cj := func() c01Case { return c01CaseJSON(blob, w, gas, note) }

	if err != nil {
		// not a program: the implementation must reject it (and not crash)
		im, _ := c01RunImpl(blob, nil, w, gas)
		switch {
		case im.deblobPanic:
			c01Viol(r, im.panicSite, "go-panic", "deblob;"+c01PanicClass(im.panicMsg), func() string { return fmt.Sprintf("blob %x (not a program: %v): Go panic %s", blob, err, im.panicMsg) }, cj)
			return "notprogram impl=gopanic"
		case im.deblobOK:
			c01Viol(r, "DeBlobProgramCode", "deblob-accept", "not-a-program", func() string { return fmt.Sprintf("blob %x accepted, reference: %v", blob, err) }, cj)
			return "notprogram impl=accept"
		}
		return "notprogram"
	}
	v := c01Judge(prog, blob, nil, w, gas, false)
	if v.capped {
		r.Cap("reference step cap hit")
		return "cap"
	}
	class := c01ClassOf(&v.ref)
	if v.ok {
		if v.relax != "" {
			class += " " + v.relax
		}
		return class
	}
	switch {
	case v.im.deblobPanic:
		c01Viol(r, v.im.panicSite, "go-panic", "deblob;"+c01PanicClass(v.im.panicMsg),
			func() string { return fmt.Sprintf("blob %x: DeBlobProgramCode Go panic: %s (the reference runs the program to %s)", blob, v.im.panicMsg, v.ref.exit) }, cj)
		return class + " impl=deblob-gopanic"
	case !v.im.deblobOK:
		c01Viol(r, "DeBlobProgramCode", "deblob-reject", c01RejectFacet(prog),
			func() string { return fmt.Sprintf("blob %x rejected by DeBlobProgramCode; the reference runs it to %s after %d steps", blob, v.ref.exit, v.ref.m.Steps) }, cj)
		return class + " impl=deblob-reject"
	}
	// localise: the smallest gas g at which the two already disagree; the g-th
	// instruction of the reference trace is the one the signature is keyed on
	// (assumes disagreement is monotone in g, which only affects the key)
	full := v
	cul := v // culprit run; the full run stands for "gas = number of steps"
	bad := func(x *c01Verdict) bool { return !x.ok && !x.capped }
	if n := min(gas, uint64(v.ref.m.Steps+10*v.ref.whats)); n >= 1 {
		unpinnedSeen := false
		// most often the last executed instruction is the culprit: try n-1 first
		if v1 := c01Judge(prog, blob, v.ip, w, n-1, false); bad(&v1) || v1.ref.unpinned {
			lo, hi := uint64(0), n-1 // invariant: the run with gas hi is bad (or unpinned)
			if bad(&v1) {
				cul = v1
			} else {
				unpinnedSeen = true
			}
			for lo < hi {
				mid := (lo + hi) / 2
				vm := c01Judge(prog, blob, v.ip, w, mid, false)
				switch {
				case bad(&vm):
					hi, cul = mid, vm
				case vm.ref.unpinned: // not judged: keep looking lower
					hi, unpinnedSeen = mid, true
				default:
					lo = mid + 1
				}
			}
			if unpinnedSeen {
				// runs that end inside an unknown host call without gas are not judged,
				// which breaks the search invariant: scan upwards for the first bad run
				for g := uint64(0); g < n; g++ {
					if vg := c01Judge(prog, blob, v.ip, w, g, false); bad(&vg) {
						cul = vg
						break
					}
				}
			}
		}
	}
	culGas := cul.ref.m.Gas + uint64(cul.ref.m.Steps)
	cpc, _ := c01Culprit(&cul.ref, &cul.im)
	where := func() string {
		return fmt.Sprintf("first disagreement with gas %d (reference steps %d); blamed instruction: opcode %d at pc %d, skip %d, operand bytes % x",
			cul.ref.m.Gas+uint64(cul.ref.m.Steps), cul.ref.m.Steps, prog.Zeta(cpc), cpc, prog.Skip(cpc), c01Operands(prog, cpc))
	}
	if cul.im.runPanic {
		c01Viol(r, cul.im.panicSite, "go-panic", c01PanicClass(cul.im.panicMsg),
			func() string { return fmt.Sprintf("blob %x world %s gas %d: Go panic %s (reference: %s) [%s]", blob, w.name, gas, cul.im.panicMsg, full.ref.exit, where()) }, cj)
		return class + " impl=gopanic"
	}
	key := c01KeyOf(&cul.ref, &cul.im)
	c01Viol(r, c01EngineSite, cul.kind, key,
		func() string { return fmt.Sprintf("blob %x world %s gas %d: %s [%s; with the full gas: %s]", blob, w.name, gas, c01Judge(prog, blob, v.ip, w, culGas, true).detail, where(), c01Judge(prog, blob, v.ip, w, gas, true).detail) }, cj)
	return class + " impl=" + full.kind
}

func c01Operands(p *refpvm.Program, pc uint64) []byte {
	need, l := c01Declared(p, pc)
	if l > need {
		need = l
	}
	var out []byte
	for i := 0; i < need; i++ {
		out = append(out, p.Zeta(pc+1+uint64(i)))
	}
	return out
}

// ---------------------------------------------------------------------------
// generators
// ---------------------------------------------------------------------------

// --- single-instruction sweep ---

var c01InvalidQuick = []byte{2, 9, 11, 19, 21, 99, 231, 255}

type c01OpUnit struct {
	op byte
	z  int
}

func c01OpUnits(thorough bool) []c01OpUnit {
	var out []c01OpUnit
	add := func(op byte) {
		if op == 50 || op == 180 {
			for _, z := range []int{0, 1, 2, 4, 8, 9} {
				out = append(out, c01OpUnit{op, z})
			}
			return
		}
		out = append(out, c01OpUnit{op, 2})
	}
	for i := 0; i < 256; i++ {
		op := byte(i)
		if refpvm.IsValid(op) {
			add(op)
			continue
		}
		if thorough {
			add(op)
		} else {
			for _, q := range c01InvalidQuick {
				if q == op {
					add(op)
				}
			}
		}
	}
	return out
}

func c01FirstBytes(all bool) []byte {
	var out []byte
	if all {
		for i := 0; i < 256; i++ {
			out = append(out, byte(i))
		}
		return out
	}
	for _, hi := range []byte{0, 1, 4, 5, 7, 8, 9, 12, 15} {
		for _, lo := range []byte{0, 1, 7, 8, 9, 12, 15} {
			out = append(out, hi<<4|lo)
		}
	}
	return out
}

var c01SecondQuick = []byte{0x00, 0x01, 0x02, 0x03, 0x04, 0x07, 0x08, 0x0B, 0x0C, 0x10, 0x7F, 0x80, 0x81, 0xFC, 0xFE, 0xFF}

func c01SecondBytes(all bool) []byte {
	if !all {
		return c01SecondQuick
	}
	var out []byte
	for i := 0; i < 256; i++ {
		out = append(out, byte(i))
	}
	return out
}

// second operand byte is structural (immediate-length nibble / third register)
func c01SecondStructural(op byte) bool { return op == 180 || op >= 190 && op <= 230 }

var c01Skips = func() []int {
	var s []int
	for i := 0; i <= 24; i++ {
		s = append(s, i)
	}
	return append(s, 25, 30)
}()

// operand tail after the two enumerated bytes. Variant 0 ("addr"): 3- and
// 4-byte immediates that start at the second operand byte decode to 0x0100xx
// (page 0x10); variant 1 ("neg"): distinct bytes, all with the high bit set.
var c01Tails = [2][]byte{
	{0x00, 0x01, 0x00, 0x00, 0x11, 0x22, 0x33, 0x44, 0x55, 0x66, 0x77, 0x08, 0x19, 0x2A, 0x3B, 0x4C, 0x5D, 0x6E, 0x7F, 0x10, 0x21, 0x32, 0x43, 0x54, 0x65, 0x76, 0x07, 0x18, 0x29, 0x3A},
	{0x81, 0x92, 0xA3, 0xB4, 0xC5, 0xD6, 0xE7, 0xF8, 0x89, 0x9A, 0xAB, 0xBC, 0xCD, 0xDE, 0xEF, 0xF0, 0x8F, 0x9E, 0xAD, 0xBC, 0xCB, 0xDA, 0xE9, 0xF8, 0x87, 0x96, 0xA5, 0xB4, 0xC3, 0xD2},
}

const c01Positions = 4
const c01LongPrefix = 71

// c01SingleBlob builds the blob of one single-instruction case.
//
//	pos 0: I ‖ fallthrough ‖ trap                 (instruction at the start)
//	pos 1: fallthrough ‖ I ‖ fallthrough ‖ trap   (in the middle)
//	pos 2: fallthrough ‖ I                        (code ends exactly at opcode+skip; ≤ 4 bitmask bytes follow)
//	pos 3: jump+71 ‖ fallthrough×69 ‖ I           (same, ≥ 9 bitmask bytes, mostly 0xFF, follow the code)
//
// The instruction occupies 1+s bytes and only its opcode byte has a bitmask
// bit, so skip = min(24, s) (for s > 24 the fall-through lands on an operand byte).
func c01SingleBlob(u c01OpUnit, b1, b2 byte, s, pos, tail int) []byte {
	ins := make([]byte, 1+s)
	ins[0] = u.op
	for i := 1; i <= s; i++ {
		switch i {
		case 1:
			ins[i] = b1
		case 2:
			ins[i] = b2
		default:
			ins[i] = c01Tails[tail][i-3]
		}
	}
	var list []refpvm.Ins
	pcI := 0
	switch pos {
	case 0:
		list = []refpvm.Ins{refpvm.I(ins...), refpvm.I(1), refpvm.I(0)}
	case 1:
		list = []refpvm.Ins{refpvm.I(1), refpvm.I(ins...), refpvm.I(1), refpvm.I(0)}
		pcI = 1
	case 2:
		list = []refpvm.Ins{refpvm.I(1), refpvm.I(ins...)}
		pcI = 1
	case 3:
		// jump over 69 fallthroughs (all with a bitmask bit, so that the bitmask
		// bytes following the code in the blob are 0xFF…) straight to I
		list = append(list, refpvm.I(40, c01LongPrefix))
		for i := 2; i < c01LongPrefix; i++ {
			list = append(list, refpvm.I(1))
		}
		list = append(list, refpvm.I(ins...))
		pcI = c01LongPrefix
	}
	code, mask := refpvm.Concat(list...)
	// jump table (addresses 2, 4, 6, 8, 10): entry 0 → a block start; entry 1 → I's own pc
	// (a dynamic jump back onto itself: with load_imm_jump_ind rA == rB the register is
	// overwritten by the immediate, so the second execution goes elsewhere - a self loop on
	// the first step only); entry 2 → the first operand byte of I (a non-start when s ≥ 1);
	// entry 3 → the block start plus 2^32 (for widths z >= 5 an entry that must not be
	// truncated to 32 bits; for narrower entries simply the block start again); entry 4 →
	// far out of range
	start := uint64(0)
	if pos <= 1 {
		start = uint64(len(code) - 1) // trailing trap, preceded by a fallthrough
	}
	jt := []uint64{start, uint64(pcI), uint64(pcI + 1), 1<<32 + start, uint64(len(code) + 100)}
	return refpvm.Blob(jt, u.z, code, mask)
}

// --- program sweep ---

// instruction instances (opcode + operand bytes); one representative per
// decoding category plus all control flow, operands chosen so that targets hit
// block starts, non-starts, invalid opcodes, the end and far past the end.
var c01ProgAlphabet = [][]byte{
	{0},                // trap
	{1},                // fallthrough
	{10, 7},            // ecalli 7
	{20, 0x06},         // load_imm_64 r6, <next 8 bytes>
	{30, 0x01, 0xF0},   // store_imm_u8 [0xFFFFFFF0] ← (ℓ-dependent)
	{40, 0x02},         // jump +2 (next instruction / just past the end)
	{40, 0x01},         // jump +1 (own operand: non-start, invalid opcode 1? no: byte 0x01 = fallthrough)
	{40, 0x64},         // jump +100 (far past the end)
	{40, 0xFD},         // jump −3
	{50, 0x00},         // jump_ind r0 (= halt address)
	{50, 0x01},         // jump_ind r1 (= 2: table entry 0)
	{50, 0x02},         // jump_ind r2 (= 4: table entry 1)
	{51, 0x07, 0x09},   // load_imm r7, 9
	{52, 0x08, 0xF0},   // load_u8 r8, [0xFFFFFFF0]
	{61, 0x09, 0xFE},   // store_u32 [0xFFFFFFFE] ← r9 (wraps past 2^32)
	{61, 0x09, 0xF0},   // store_u32 [0xFFFFFFF0] ← r9
	{71, 0x04, 0xAB},   // store_imm_ind_u16 [r4] ← 0xFFAB (lX = 0)
	{80, 0x07, 0x03},   // load_imm_jump r7 ← 0 (lX=0), +3
	{81, 0x06, 0x03},   // branch_eq_imm r6 == 0 (lX = 0), +3  (taken: r6 = 0)
	{81, 0x07, 0xF0},   // branch_eq_imm r7 == 0, −16 (not taken unless r7 = 0)
	{100, 0x76},        // move_reg r6 ← r7
	{101, 0x7A},        // sbrk r10 ← sbrk(r7)
	{131, 0x87, 0x01},  // add_imm_32 r7 ← r8 + 1
	{172, 0x76, 0x03},  // branch_lt_u r6 < r7, +3
	{180, 0x06, 0x00},  // load_imm_jump_ind r6 ← 0, jump r0+0 (halt)
	{180, 0x16, 0x00},  // load_imm_jump_ind r6 ← 0, jump r1+0 (table entry 0)
	{200, 0x87, 0x06},  // add_64 r6 ← r7 + r8
	{194, 0x87, 0x0C},  // div_s_32 r12 ← r7 / r8
	{0xF0},             // an invalid opcode
}

// jump table of the program sweep (z = 1): entries → 0, 2, 1, 200
var c01ProgJT = []uint64{0, 2, 1, 200}

// c01ProgCodes enumerates the code byte strings of all programs of 1..maxLen
// instructions over the alphabet, in a fixed order, calling f(code).
func c01ProgCodes(maxLen int, f func(code []byte, nins int)) {
	n := len(c01ProgAlphabet)
	for l := 1; l <= maxLen; l++ {
		vlib.Sequences(n, l, func(s []int) {
			var code []byte
			for _, i := range s {
				code = append(code, c01ProgAlphabet[i]...)
			}
			f(code, l)
		})
	}
}

func c01ProgBlob(code []byte, maskBits uint64) []byte {
	return refpvm.Blob(c01ProgJT, 1, code, refpvm.MaskFromBits(maskBits, len(code)))
}

func c01Short(s string, n int) string {
	if len(s) > n {
		return s[:n]
	}
	return s
}


// ---------------------------------------------------------------------------
// the two sweeps (shared by C01, C02, C04)
// ---------------------------------------------------------------------------

const c01Gas = 100
const c01ProgGas = 40

// c01SingleSweep enumerates the single-instruction sweep of the current tier
// and calls f for the cases of this shard. The a-priori size goes to r.Space.
//
// quick:    147 opcodes (139 defined + 8 undefined; 50 and 180 with 6 jump-table
//           entry widths each → 157 units) × 63 first bytes × 16 second bytes ×
//           27 skips × 4 positions × 2 (world, operand-tail) pairs
// thorough: 256 opcodes (266 units) × 256 first bytes × second bytes (256 for
//           opcode 180, 20 for 190–230, 16 otherwise) × 27 skips × 4 positions ×
//           (4 (world, tail) pairs when the first byte is in the quick lattice, else 2)
func c01SingleSweep(r *vlib.Run, idx *uint64, f func(blob []byte, w *c01World, gas uint64, note string)) {
	c01SingleSweepAxes(r, r.Thorough(), idx, f)
}

// c01SingleSweepQuickLattice is the quick-tier sweep whatever the tier.
func c01SingleSweepQuickLattice(r *vlib.Run, idx *uint64, f func(blob []byte, w *c01World, gas uint64, note string)) {
	c01SingleSweepAxes(r, false, idx, f)
}

var c01ThirdRegBytes = []byte{0, 1, 2, 3, 4, 5, 6, 7, 8, 9, 10, 11, 12, 13, 14, 15, 16, 0x7F, 0x80, 0xFF}

// c01UnitFilter, when set, restricts the sweep to some opcode units (a stated sub-space,
// e.g. C04's quick tier takes only the jump units); nil = all units of the tier.
var c01UnitFilter func(c01OpUnit) bool

func c01SingleSweepAxes(r *vlib.Run, thorough bool, idx *uint64, f func(blob []byte, w *c01World, gas uint64, note string)) {
	units := c01OpUnits(thorough)
	if dev := os.Getenv("C01_DEV_OPS"); dev != "" { // development only: never exhaustive
		r.Cap("C01_DEV_OPS filter")
		var keep []c01OpUnit
		for _, u := range units {
			for _, f := range strings.Split(dev, ",") {
				if v, err := strconv.Atoi(f); err == nil && byte(v) == u.op {
					keep = append(keep, u)
				}
			}
		}
		units = keep
	}
	if c01UnitFilter != nil {
		var keep []c01OpUnit
		for _, u := range units {
			if c01UnitFilter(u) {
				keep = append(keep, u)
			}
		}
		units = keep
	}
	firsts := c01FirstBytes(thorough)
	inLattice := map[byte]bool{}
	for _, b := range c01FirstBytes(false) {
		inLattice[b] = true
	}
	for _, u := range units {
		seconds := c01SecondQuick
		if thorough && u.op == 180 {
			seconds = c01SecondBytes(true)
		} else if thorough && u.op >= 190 && u.op <= 230 {
			seconds = c01ThirdRegBytes
		}
		for _, b1 := range firsts {
			allPairs := thorough && inLattice[b1]
			for _, b2 := range seconds {
				for _, s := range c01Skips {
					for pos := 0; pos < c01Positions; pos++ {
						for tail := 0; tail < 2; tail++ {
							for wi := 0; wi < 2; wi++ {
								if !allPairs && tail != wi {
									continue // operand tail 0 with world "arith", tail 1 with world "addr"
								}
								*idx++
								if !r.Mine(*idx) {
									continue
								}
								r.Space(1)
								f(c01SingleBlob(u, b1, b2, s, pos, tail), c01Worlds[wi], c01Gas, "single")
							}
						}
					}
				}
			}
		}
	}
}

// c01ProgSweep enumerates all programs of 1..maxLen alphabet instructions with
// every bitmask over the code.
func c01ProgSweep(r *vlib.Run, maxLen int, idx *uint64, f func(blob []byte, w *c01World, gas uint64, note string)) {
	w := c01Worlds[2]
	c01ProgCodes(maxLen, func(code []byte, nins int) {
		n := uint64(1) << uint(len(code))
		for m := uint64(0); m < n; m++ {
			*idx++
			if !r.Mine(*idx) {
				continue
			}
			r.Space(1)
			f(c01ProgBlob(code, m), w, c01ProgGas, "prog")
		}
	})
}


// c01ProgSweep4: programs of exactly 4 instructions over a sub-alphabet (indices
// into c01ProgAlphabet), every bitmask (thorough tier).
var c01Sub4 = []int{0, 1, 2, 3, 5, 8, 10, 12, 15, 17, 18, 21, 23, 25, 26, 28}

func c01ProgSweep4(r *vlib.Run, sub []int, idx *uint64, f func(blob []byte, w *c01World, gas uint64, note string)) {
	w := c01Worlds[2]
	vlib.Sequences(len(sub), 4, func(s []int) {
		var code []byte
		for _, i := range s {
			code = append(code, c01ProgAlphabet[sub[i]]...)
		}
		n := uint64(1) << uint(len(code))
		for m := uint64(0); m < n; m++ {
			*idx++
			if !r.Mine(*idx) {
				continue
			}
			r.Space(1)
			f(c01ProgBlob(code, m), w, c01ProgGas, "prog4")
		}
	})
}
