package PVM

// C05 — guest memory protection.
//
// Bounded-exhaustive enumeration of single load/store instructions (all 30
// load/store opcodes) against a small page/access model, through both real
// engines (pre-decoded block engine used by Psi_H, per-instruction engine used
// by the `invoke` host call), plus all sbrk sequences of length <= 4 over a
// size lattice, plus the `pages` host call as a producer of inaccessible pages.
//
// The oracle encodes only what the property statement says:
//   * a read continues iff every byte lies in a page with access R or W,
//   * a write continues iff every byte lies in a page with access W,
//   * any accessed byte below 2^16 (addresses taken mod 2^32) => panic,
//   * a non-continuing access leaves memory and all registers bit-identical,
//   * a page fault reports an address in [start of the page of the first
//     accessed byte, last accessed byte],
//   * sbrk: heap pointer monotone, never above the stack boundary (heapLimit),
//     newly mapped pages are zero and writable, old pages keep their contents.

import (
	"encoding/binary"
	"fmt"
	"sort"
	"syscall"
	"testing"

	"github.com/New-JAMneration/JAM-Protocol/internal/zzverif/vlib"
)

// ---------------------------------------------------------------- model ----

const (
	c05Unmapped = 0 // no entry in Memory.Pages
	c05Present  = 1 // entry with Access == MemoryInaccessible (as `pages` builds it)
	c05RO       = 2
	c05RW       = 3
)

var c05AccName = [4]string{"unmapped", "inacc-present", "R", "W"}

type c05Page struct {
	acc  int
	data [ZP]byte
}

type c05Model struct {
	pages map[uint32]*c05Page
	hp    uint64
	hl    uint64
}

func c05Pattern(addr uint32, pat int) byte {
	if pat == 1 {
		return 0x80 | byte(addr*5+3)&0x7F
	}
	b := byte(addr*7+13) ^ byte(addr>>8)
	if b == 0 {
		b = 0x11
	}
	return b
}

func (m *c05Model) clone() *c05Model {
	n := &c05Model{pages: map[uint32]*c05Page{}, hp: m.hp, hl: m.hl}
	for k, p := range m.pages {
		q := *p
		n.pages[k] = &q
	}
	return n
}

func (m *c05Model) add(pn uint32, acc int, pat int) {
	if acc == c05Unmapped {
		return
	}
	p := &c05Page{acc: acc}
	for i := 0; i < ZP; i++ {
		p.data[i] = c05Pattern(pn*ZP+uint32(i), pat)
	}
	m.pages[pn] = p
}

// real builds a fresh real Memory from the model.
func (m *c05Model) real() *Memory {
	mem := &Memory{Pages: map[uint32]*Page{}, heapPointer: m.hp, heapLimit: m.hl}
	for k, p := range m.pages {
		v := make([]byte, ZP)
		copy(v, p.data[:])
		var a MemoryAccess
		switch p.acc {
		case c05Present:
			a = MemoryInaccessible
		case c05RO:
			a = MemoryReadOnly
		case c05RW:
			a = MemoryReadWrite
		}
		mem.Pages[k] = &Page{Value: v, Access: a}
	}
	return mem
}

func c05AccOf(a MemoryAccess) int {
	switch a {
	case MemoryReadOnly:
		return c05RO
	case MemoryReadWrite:
		return c05RW
	}
	return c05Present
}

// diff compares a real memory with the model; "" when identical.
func (m *c05Model) diff(mem *Memory) string {
	if mem.heapPointer != m.hp || mem.heapLimit != m.hl {
		return fmt.Sprintf("heap pointer/limit %#x/%#x, expected %#x/%#x", mem.heapPointer, mem.heapLimit, m.hp, m.hl)
	}
	keys := make([]uint32, 0, len(mem.Pages))
	for k := range mem.Pages {
		keys = append(keys, k)
	}
	sort.Slice(keys, func(i, j int) bool { return keys[i] < keys[j] })
	for _, k := range keys {
		p := mem.Pages[k]
		q, ok := m.pages[k]
		if !ok {
			return fmt.Sprintf("page %#x appeared", k)
		}
		if p == nil {
			return fmt.Sprintf("page %#x is nil", k)
		}
		if c05AccOf(p.Access) != q.acc {
			return fmt.Sprintf("page %#x access %d, expected %s", k, p.Access, c05AccName[q.acc])
		}
		if len(p.Value) != ZP {
			return fmt.Sprintf("page %#x has %d bytes", k, len(p.Value))
		}
		for i := 0; i < ZP; i++ {
			if p.Value[i] != q.data[i] {
				return fmt.Sprintf("byte %#x = %#02x, expected %#02x", uint64(k)*ZP+uint64(i), p.Value[i], q.data[i])
			}
		}
	}
	for k := range m.pages {
		if _, ok := mem.Pages[k]; !ok {
			return fmt.Sprintf("page %#x disappeared", k)
		}
	}
	return ""
}

// access classification of [addr, addr+w) (mod 2^32)
type c05Verdict struct {
	low      bool // some byte < 2^16
	wraps    bool
	ok       bool // every byte permitted for the operation
	firstBad bool // the first accessed byte itself is not permitted
	cross    bool
}

func (m *c05Model) judge(addr uint32, w int, write bool) c05Verdict {
	v := c05Verdict{ok: true}
	for i := 0; i < w; i++ {
		a := addr + uint32(i) // wraps mod 2^32
		if uint64(addr)+uint64(i) >= 1<<32 {
			v.wraps = true
		}
		if a < 1<<16 {
			v.low = true
		}
		if a/ZP != addr/ZP {
			v.cross = true
		}
		p := m.pages[a/ZP]
		good := p != nil && (p.acc == c05RW || (!write && p.acc == c05RO))
		if !good {
			v.ok = false
			if i == 0 {
				v.firstBad = true
			}
		}
	}
	return v
}

// ---------------------------------------------------------------- ops ------

type c05Op struct {
	code   byte
	name   string
	store  bool
	width  int
	signed bool
	form   int // 0 two-imm, 1 reg+imm, 2 reg+two-imm, 3 two-reg+imm
}

var c05Ops = []c05Op{
	{30, "store_imm_u8", true, 1, false, 0}, {31, "store_imm_u16", true, 2, false, 0},
	{32, "store_imm_u32", true, 4, false, 0}, {33, "store_imm_u64", true, 8, false, 0},
	{52, "load_u8", false, 1, false, 1}, {53, "load_i8", false, 1, true, 1},
	{54, "load_u16", false, 2, false, 1}, {55, "load_i16", false, 2, true, 1},
	{56, "load_u32", false, 4, false, 1}, {57, "load_i32", false, 4, true, 1},
	{58, "load_u64", false, 8, false, 1},
	{59, "store_u8", true, 1, false, 1}, {60, "store_u16", true, 2, false, 1},
	{61, "store_u32", true, 4, false, 1}, {62, "store_u64", true, 8, false, 1},
	{70, "store_imm_ind_u8", true, 1, false, 2}, {71, "store_imm_ind_u16", true, 2, false, 2},
	{72, "store_imm_ind_u32", true, 4, false, 2}, {73, "store_imm_ind_u64", true, 8, false, 2},
	{120, "store_ind_u8", true, 1, false, 3}, {121, "store_ind_u16", true, 2, false, 3},
	{122, "store_ind_u32", true, 4, false, 3}, {123, "store_ind_u64", true, 8, false, 3},
	{124, "load_ind_u8", false, 1, false, 3}, {125, "load_ind_i8", false, 1, true, 3},
	{126, "load_ind_u16", false, 2, false, 3}, {127, "load_ind_i16", false, 2, true, 3},
	{128, "load_ind_u32", false, 4, false, 3}, {129, "load_ind_i32", false, 4, true, 3},
	{130, "load_ind_u64", false, 8, false, 3},
}

// c05Blob wraps code (instruction followed by trap) in the A.2 blob format.
func c05Blob(instr []byte) []byte {
	code := append(append([]byte(nil), instr...), 0) // + trap
	mask := make([]byte, (len(code)+7)/8)
	mask[0] |= 1
	mask[len(instr)/8] |= 1 << (uint(len(instr)) % 8)
	out := []byte{0, 0, byte(len(code))}
	out = append(out, code...)
	return append(out, mask...)
}

func c05LE(v uint64, n int) []byte {
	b := make([]byte, 8)
	binary.LittleEndian.PutUint64(b, v)
	return b[:n]
}

const c05Sentinel = 0x1122334455667788

// c05Build returns the instruction bytes, initial registers, the store value
// (for stores) and the destination register (for loads; -1 otherwise).
func c05Build(op c05Op, addr uint32, pat, split int) (instr []byte, regs Registers, val uint64, dst int) {
	for i := range regs {
		regs[i] = c05Sentinel + uint64(i)*0x0101010101010101
	}
	dst = -1
	immVal := func() (b []byte, v uint64) { // the immediate to store and its sign-extended value
		if pat == 0 {
			return []byte{0xA1, 0xB2, 0xC3, 0x84}, 0xFFFFFFFF84C3B2A1
		}
		return []byte{0x5A}, 0x5A
	}
	regVal := uint64(0x8877665544332211)
	if pat == 1 {
		regVal = 0x00000000000000FF
	}
	// base register / immediate split for the indirect forms
	base, imm := uint64(addr), []byte(nil)
	if split == 1 {
		base = 0xABCD000000000000 | uint64(addr+0x1234)
		imm = c05LE(uint64(0x10000-0x1234), 2) // -0x1234 as 2 bytes
	}
	switch op.form {
	case 0: // op, lX, vX(4), vY
		ib, iv := immVal()
		instr = append([]byte{op.code, 4}, c05LE(uint64(addr), 4)...)
		instr = append(instr, ib...)
		val = iv
	case 1: // op, rA, vX(4)
		rA := 3
		if pat == 1 {
			rA = 12
		}
		instr = append([]byte{op.code, byte(rA)}, c05LE(uint64(addr), 4)...)
		if op.store {
			regs[rA] = regVal
			val = regVal
		} else {
			dst = rA
		}
	case 2: // op, rA | lX<<4, vX(lX), vY
		ib, iv := immVal()
		rA := 5
		instr = append([]byte{op.code, byte(rA) | byte(len(imm))<<4}, imm...)
		instr = append(instr, ib...)
		regs[rA] = base
		val = iv
	case 3: // op, rA | rB<<4, vX
		rA, rB := 4, 9
		if split == 2 { // destination aliases the base register (loads only)
			rA = rB
		}
		instr = append([]byte{op.code, byte(rA) | byte(rB)<<4}, imm...)
		regs[rB] = base
		if op.store {
			regs[rA] = regVal
			val = regVal
		} else {
			dst = rA
		}
	}
	return
}

func c05Splits(op c05Op) int {
	switch op.form {
	case 2:
		return 2
	case 3:
		if !op.store {
			return 3
		}
		return 2
	}
	return 1
}

// ---------------------------------------------------------------- engines --

const (
	c05Cont  = "continue"
	c05Fault = "fault"
	c05Panic = "panic"
)

type c05Res struct {
	exit  string // continue | fault | panic | other:<..> | go-panic
	fa    uint32
	regs  Registers
	mem   *Memory
	msg   string
	gsite string
}

var c05EngineNames = [2]string{"decoded", "single-step"}

// c05Run executes one instruction (blob = instr + trap) with gas 1.
func c05Run(engine int, blob []byte, regs Registers, mem *Memory) c05Res {
	res := c05Res{mem: mem}
	pnk, msg, site := vlib.Guard(func() {
		prog, er := DeBlobProgramCode(blob)
		if er != ExitContinue {
			res.exit = "other:deblob-failed"
			return
		}
		interp := NewInterpreter(&prog, regs, mem, 1)
		var er2 ExitReason
		var pc ProgramCounter
		if engine == 0 {
			er2, pc = interp.SingleStepInvokeDecodedBlocks(0)
			// gas 1: a continuing instruction is followed by OOG at the trap
			if er2.GetReasonType() == OUT_OF_GAS && int(pc) == len(prog.InstructionData)-1 {
				er2 = ExitContinue
			}
		} else {
			er2, pc = interp.SingleStepStateTransition(0)
		}
		res.regs = interp.Registers
		switch er2.GetReasonType() {
		case CONTINUE:
			res.exit = c05Cont
			if engine == 1 && int(pc) != len(prog.InstructionData)-1 {
				res.exit = fmt.Sprintf("other:continue-pc=%d", pc)
			}
		case PAGE_FAULT:
			res.exit = c05Fault
			res.fa = er2.GetPageFaultAddress()
		case PANIC:
			res.exit = c05Panic
		default:
			res.exit = "other:" + er2.String()
		}
	})
	if pnk {
		res.exit = "go-panic"
		res.msg = msg
		res.gsite = site
	}
	return res
}

// ---------------------------------------------------------------- cases ----

type c05Case struct {
	Fam   string `json:"fam"` // ls | sbrk | pages
	Op    int    `json:"op,omitempty"`
	AccA  int    `json:"acc_a,omitempty"`
	AccB  int    `json:"acc_b,omitempty"`
	PageA uint32 `json:"page_a,omitempty"`
	Addr  uint32 `json:"addr,omitempty"`
	Pat   int    `json:"pat,omitempty"`
	Split int    `json:"split,omitempty"`
	World int    `json:"world,omitempty"`
	Seq   []int  `json:"seq,omitempty"`
	R1    int    `json:"r1,omitempty"`
	R2    int    `json:"r2,omitempty"`
	Off   uint32 `json:"off,omitempty"`
	Len   uint32 `json:"len,omitempty"`
	Bad   int    `json:"bad,omitempty"`     // index (within the covered pages) of the page lacking access, -1 none
	BadAc int    `json:"bad_acc,omitempty"` // its access: unmapped | inacc-present | R
	Side  int    `json:"side,omitempty"`    // 0: the outer buffer has the bad page, 1: the inner buffer
}

type c05Finding struct{ site, kind, key, detail string }

// c05Judge evaluates one engine result of a load/store against the model.
func c05Judge(op c05Op, before *c05Model, addr uint32, val uint64, dst int, regs0 Registers, res c05Res) (out []c05Finding, class string) {
	v := before.judge(addr, op.width, op.store)
	site := "loadFromMemory"
	if op.store {
		site = "storeIntoMemory"
	}
	facet := ""
	switch {
	case v.low && v.wraps:
		facet = "wraps-past-2^32"
	case v.low:
		facet = "below-2^16"
	case v.cross:
		facet = "cross-page"
	default:
		facet = "single-page"
	}
	// access kinds of the touched pages (all / not permitted for this access)
	accs, badAccs := map[string]bool{}, map[string]bool{}
	for i := 0; i < op.width; i++ {
		a := addr + uint32(i)
		n := c05AccName[c05Unmapped]
		p := before.pages[a/ZP]
		if p != nil {
			n = c05AccName[p.acc]
		}
		accs[n] = true
		if !(p != nil && (p.acc == c05RW || (!op.store && p.acc == c05RO))) {
			badAccs[n] = true
		}
	}
	names := func(m map[string]bool) []string {
		an := make([]string, 0, 2)
		for k := range m {
			an = append(an, k)
		}
		sort.Strings(an)
		return an
	}
	key := fmt.Sprintf("%s;pages=%v", facet, names(accs))
	kindOp := "load"
	if op.store {
		kindOp = "store"
	}
	class = fmt.Sprintf("%s w=%d %s exit=%s", kindOp, op.width, key, res.exit)
	// violation keys are coarser than classes: one defect, one signature
	add := func(kind, detail string) {
		k := fmt.Sprintf("%s;bad-pages=%v", facet, names(badAccs))
		switch kind {
		case "read-of-non-readable-page", "write-to-non-writable-page":
			k = fmt.Sprintf("bad-pages=%v", names(badAccs))
		case "access-below-2^16-continues", "access-below-2^16-does-not-panic":
			k = facet
		}
		out = append(out, c05Finding{site, kind, k, detail})
	}

	if res.exit == "go-panic" {
		out = append(out, c05Finding{res.gsite, "go-panic", key, res.msg})
		return
	}
	if len(res.exit) > 6 && res.exit[:6] == "other:" {
		add("unexpected-exit", res.exit)
		return
	}
	expCont := v.ok && !v.low
	switch {
	case expCont && res.exit != c05Cont:
		add("permitted-access-refused", fmt.Sprintf("exit %s", res.exit))
	case !expCont && res.exit == c05Cont:
		if v.low {
			add("access-below-2^16-continues", "")
		} else if op.store {
			add("write-to-non-writable-page", "")
		} else {
			add("read-of-non-readable-page", "")
		}
	case v.low && res.exit != c05Panic:
		// a wrapped access whose first byte is itself inaccessible: the GP's
		// literal min-address rule yields a fault; the statement is read
		// generously and both are accepted.
		if !(v.wraps && v.firstBad) {
			add("access-below-2^16-does-not-panic", fmt.Sprintf("exit %s fa=%#x", res.exit, res.fa))
		}
	}
	if res.exit == c05Fault && !v.wraps {
		lo := uint64(addr/ZP) * ZP
		hi := uint64(addr) + uint64(op.width) - 1
		if uint64(res.fa) < lo || uint64(res.fa) > hi {
			add("fault-address-out-of-range", fmt.Sprintf("fa=%#x not in [%#x,%#x]", res.fa, lo, hi))
		}
	}
	// effects
	exp := before
	expRegs := regs0
	if res.exit == c05Cont && expCont {
		if op.store {
			exp = before.clone()
			for i := 0; i < op.width; i++ {
				a := addr + uint32(i)
				exp.pages[a/ZP].data[a%ZP] = byte(val >> (8 * uint(i)))
			}
		} else {
			var x uint64
			for i := 0; i < op.width; i++ {
				a := addr + uint32(i)
				x |= uint64(before.pages[a/ZP].data[a%ZP]) << (8 * uint(i))
			}
			if op.signed {
				sh := uint(64 - 8*op.width)
				x = uint64(int64(x<<sh) >> sh)
			}
			expRegs[dst] = x
		}
	}
	if res.exit == c05Cont && !expCont {
		return // already reported; effects are meaningless
	}
	if d := exp.diff(res.mem); d != "" {
		if res.exit == c05Cont {
			add("wrong-memory-after-store", d)
		} else {
			add("memory-changed-by-failed-access", d)
		}
	}
	if res.regs != expRegs {
		for i := range expRegs {
			if res.regs[i] != expRegs[i] {
				if res.exit == c05Cont {
					add("wrong-register-after-access", fmt.Sprintf("r%d=%#x expected %#x", i, res.regs[i], expRegs[i]))
				} else {
					add("register-changed-by-failed-access", fmt.Sprintf("r%d=%#x expected %#x", i, res.regs[i], expRegs[i]))
				}
				break
			}
		}
	}
	return
}

// c05Report merges the per-engine findings: a finding shown by both engines is
// reported once under the shared helper; otherwise the engine and opcode are
// part of the key.
func c05Report(r *vlib.Run, opname string, per [2][]c05Finding, c c05Case, ctx string) {
	type k struct{ site, kind, key string }
	seen := [2]map[k]string{{}, {}}
	for e := 0; e < 2; e++ {
		for _, f := range per[e] {
			seen[e][k{f.site, f.kind, f.key}] = f.detail
		}
	}
	for e := 0; e < 2; e++ {
		for _, f := range per[e] {
			kk := k{f.site, f.kind, f.key}
			if _, both := seen[1-e][kk]; both {
				if e == 0 {
					r.Violation(f.site, f.kind, f.key, fmt.Sprintf("%s (both engines): %s", ctx, f.detail), c)
				}
				continue
			}
			r.Violation(f.site, f.kind, fmt.Sprintf("%s;engine=%s;op=%s", f.key, c05EngineNames[e], opname),
				fmt.Sprintf("%s (engine %s only): %s", ctx, c05EngineNames[e], f.detail), c)
		}
	}
}

func c05World(pageA uint32, accA, accB, pat int) *c05Model {
	m := &c05Model{pages: map[uint32]*c05Page{}, hp: 0x5000000, hl: 0x6000000}
	m.add(pageA, accA, pat)
	m.add(pageA+1, accB, pat)
	return m
}

func c05RunLS(r *vlib.Run, c c05Case) {
	op := c05Ops[c.Op]
	model := c05World(c.PageA, c.AccA, c.AccB, c.Pat)
	instr, regs, val, dst := c05Build(op, c.Addr, c.Pat, c.Split)
	blob := c05Blob(instr)
	var per [2][]c05Finding
	for e := 0; e < 2; e++ {
		res := c05Run(e, blob, regs, model.real())
		r.Transition()
		f, class := c05Judge(op, model, c.Addr, val, dst, regs, res)
		per[e] = f
		r.Class(class)
	}
	r.Eval()
	ctx := fmt.Sprintf("%s addr=%#x pageA=%#x access=(%s,%s) pat=%d split=%d", op.name, c.Addr, c.PageA, c05AccName[c.AccA], c05AccName[c.AccB], c.Pat, c.Split)
	c05Report(r, op.name, per, c, ctx)
	// the same instruction on a Memory value that has served other accesses before and whose page map
	// was then edited in place (as the `pages` host call does) and copied by value (as `invoke` does):
	// a Memory must behave as a function of its page map only.
	var warm [2][]c05Finding
	for e := 0; e < 2; e++ {
		res := c05Run(e, blob, regs, c05WarmMemory(e, model, c.Addr, op.width, c.Pat))
		r.Transition()
		f, class := c05Judge(op, model, c.Addr, val, dst, regs, res)
		for i := range f {
			f[i].key += ";memory-reused-after-remap"
		}
		warm[e] = f
		r.Class("reused-memory " + class)
	}
	c05Report(r, op.name, warm, c, ctx+" on a reused, remapped Memory")
	if r.WantSample() && c.AccA == c05RW && c.AccB == c05RO && c.Addr%ZP == ZP-2 {
		r.Sample(map[string]interface{}{"case": c, "instr": vlib.Hex(instr)})
	}
}

// c05WarmMemory returns a real Memory whose page map equals the model's, but which has a history:
// it was created with other (writable) pages at the addresses of the access, served two loads (last
// page of the access first, then the first page), then had every map entry deleted and the model's
// pages inserted, and was finally copied by value.
func c05WarmMemory(engine int, model *c05Model, addr uint32, width, pat int) *Memory {
	first, last := addr/ZP, (addr+uint32(width)-1)/ZP
	old := &c05Model{pages: map[uint32]*c05Page{}, hp: model.hp, hl: model.hl}
	old.add(last, c05RW, pat^1)
	old.add(first, c05RW, pat^1)
	mem := old.real()
	ld := c05Ops[4] // load_u8
	for _, a := range []uint32{last * ZP, first*ZP + addr%ZP} {
		if a < 1<<16 {
			continue
		}
		instr, regs, _, _ := c05Build(ld, a, 0, 0)
		c05Run(engine, c05Blob(instr), regs, mem)
	}
	for k := range mem.Pages {
		delete(mem.Pages, k)
	}
	for k, p := range model.real().Pages {
		mem.Pages[k] = p
	}
	m2 := *mem
	return &m2
}

// the page placements: A = first page of the pair
var c05Placements = []uint32{0, 15, 0x30, 0xFFFFE}

func c05Addrs(pageA uint32) []uint32 {
	a := pageA * ZP
	b := a + ZP
	var out []uint32
	out = append(out, a-1, a, a+1)
	for d := -8; d <= 1; d++ { // end-8 .. end+1 of page A, i.e. around the A/B boundary
		out = append(out, b+uint32(d))
	}
	for d := -8; d <= 1; d++ { // around the end of page B (wraps for the top pair)
		out = append(out, b+ZP+uint32(d))
	}
	return out
}

// ---------------------------------------------------------------- sbrk -----

const (
	c05H0 = 0x40000
	c05L  = c05H0 + 3*ZP
)

// sbrk worlds: 0 = heap [H0, L) empty, data page below, stack page at L;
// 1 = inner machine as `machine` leaves it (nil page map, pointer = limit = 0)
func c05SbrkWorld(w int) (*c05Model, *Memory) {
	if w == 1 {
		return &c05Model{pages: map[uint32]*c05Page{}}, &Memory{}
	}
	m := &c05Model{pages: map[uint32]*c05Page{}, hp: c05H0, hl: c05L}
	m.add(c05H0/ZP-1, c05RW, 0)
	m.add(c05L/ZP, c05RW, 0)
	m.add(c05L/ZP+1, c05RO, 1)
	return m, m.real()
}

func c05SbrkSize(idx int, hp, hl uint64) uint64 {
	to := hl - hp
	switch idx {
	case 0:
		return 0
	case 1:
		return 1
	case 2:
		return 4095
	case 3:
		return 4096
	case 4:
		return 4097
	case 5:
		return to - 1
	case 6:
		return to
	case 7:
		return to + 1
	case 8:
		return 1 << 32
	}
	return ^uint64(0)
}

const c05NSizes = 10

func c05RunSbrk(r *vlib.Run, c c05Case) {
	sbrkBlob := c05Blob([]byte{101, 7 | 8<<4})
	for e := 0; e < 2; e++ {
		site := "instSbrkMeta"
		if e == 1 {
			site = "instSbrk"
		}
		model, mem := c05SbrkWorld(c.World)
		trace := ""
		bad := func(kind, key, detail string) {
			r.Violation(site, kind, key, fmt.Sprintf("world=%d sizes%s: %s", c.World, trace, detail), c)
		}
		cls := fmt.Sprintf("sbrk world=%d", c.World)
		for _, si := range c.Seq {
			hp0, hl := mem.heapPointer, mem.heapLimit
			if hp0 != model.hp || hl != model.hl {
				bad("heap-state-drift", "between-calls", "pointer/limit changed between calls")
				break
			}
			size := c05SbrkSize(si, hp0, hl)
			trace += fmt.Sprintf(" %#x", size)
			var regs Registers
			regs[7] = c05Sentinel
			regs[8] = size
			res := c05Run(e, sbrkBlob, regs, mem)
			r.Transition()
			if res.exit == "go-panic" {
				r.Violation(res.gsite, "go-panic", "sbrk", fmt.Sprintf("world=%d sizes%s: %s", c.World, trace, res.msg), c)
				break
			}
			hp1 := mem.heapPointer
			key := "size=in-range"
			switch {
			case size == 0:
				key = "size=0"
			case size > hl-hp0:
				key = "size=beyond-limit"
			case size == hl-hp0:
				key = "size=to-limit"
			}
			grew := hp1 > hp0
			cls += fmt.Sprintf(" [%s %s grew=%v]", key, res.exit, grew)
			if res.exit != c05Cont {
				// not forbidden by the statement, but then nothing may change
				if d := model.diff(mem); d != "" {
					bad("memory-changed-by-failed-sbrk", key, d)
				}
				continue
			}
			if mem.heapLimit != hl {
				bad("stack-boundary-moved", key, fmt.Sprintf("limit %#x -> %#x", hl, mem.heapLimit))
				break
			}
			if hp1 < hp0 {
				bad("heap-pointer-decreased", key, fmt.Sprintf("%#x -> %#x", hp0, hp1))
				break
			}
			if hp1 > hl {
				bad("heap-beyond-stack-boundary", key, fmt.Sprintf("pointer %#x > limit %#x", hp1, hl))
				break
			}
			// page map: old pages identical, new pages only inside [floor(hp0), hl), zero, writable
			keys := make([]uint32, 0, len(mem.Pages))
			for k := range mem.Pages {
				keys = append(keys, k)
			}
			sort.Slice(keys, func(i, j int) bool { return keys[i] < keys[j] })
			stop := false
			for _, k := range keys {
				p := mem.Pages[k]
				if _, old := model.pages[k]; old {
					continue
				}
				lo, hi := uint64(k)*ZP, uint64(k)*ZP+ZP
				if hi <= hp0 || lo >= hl || lo >= (hp1+ZP-1)/ZP*ZP {
					bad("page-mapped-outside-heap-growth", key, fmt.Sprintf("page %#x mapped; heap %#x -> %#x limit %#x", k, hp0, hp1, hl))
					stop = true
					break
				}
				if p == nil || len(p.Value) != ZP || p.Access != MemoryReadWrite {
					bad("new-page-not-writable", key, fmt.Sprintf("page %#x", k))
					stop = true
					break
				}
				for i := range p.Value {
					if p.Value[i] != 0 {
						bad("new-page-not-zero", key, fmt.Sprintf("byte %#x = %#x", lo+uint64(i), p.Value[i]))
						stop = true
						break
					}
				}
				if stop {
					break
				}
				model.pages[k] = &c05Page{acc: c05RW}
			}
			if stop {
				break
			}
			model.hp = hp1
			if d := model.diff(mem); d != "" {
				bad("old-contents-not-preserved", key, d)
				break
			}
			if grew {
				// every granted byte must be usable
				for a := hp0; a < hp1; a += ZP {
					if p := model.pages[uint32(a/ZP)]; p == nil || p.acc != c05RW {
						bad("granted-heap-not-writable", key, fmt.Sprintf("address %#x", a))
						stop = true
						break
					}
				}
				if p := model.pages[uint32((hp1-1)/ZP)]; !stop && (p == nil || p.acc != c05RW) {
					bad("granted-heap-not-writable", key, fmt.Sprintf("address %#x", hp1-1))
					stop = true
				}
				if stop {
					break
				}
				// probe the newest byte through the engine: store then load
				top := uint32(hp1 - 1)
				st := c05Ops[11] // store_u8
				ld := c05Ops[4]  // load_u8
				si, sregs, sval, _ := c05Build(st, top, 0, 0)
				sval = 0xA5
				sregs[3] = sval
				sres := c05Run(e, c05Blob(si), sregs, mem)
				r.Transition()
				f, _ := c05Judge(st, model, top, sval, -1, sregs, sres)
				if sres.exit == c05Cont {
					model.pages[top/ZP].data[top%ZP] = 0xA5
				}
				li, lregs, _, ldst := c05Build(ld, top, 0, 0)
				lres := c05Run(e, c05Blob(li), lregs, mem)
				r.Transition()
				f2, _ := c05Judge(ld, model, top, 0, ldst, lregs, lres)
				for _, x := range append(f, f2...) {
					bad("probe:"+x.kind, key, x.detail)
					stop = true
				}
				if stop {
					break
				}
			}
		}
		r.Class(cls)
		r.Trace()
	}
	r.Eval()
}

// ---------------------------------------------------------------- pages ----

// c05RunPages: access of an inner-machine page is changed by the real `pages`
// host call (r1 then r2); afterwards a load and a store probe the page.
func c05RunPages(r *vlib.Run, c c05Case) {
	const pn = 0x30
	for e := 0; e < 2; e++ {
		inner := Memory{Pages: map[uint32]*Page{}}
		m := IntegratedPVMMap{0: IntegratedPVMType{Memory: inner}}
		outer := &Memory{Pages: map[uint32]*Page{}}
		acc := c05Unmapped
		okAll := true
		for _, rr := range []int{c.R1, c.R2} {
			var regs Registers
			regs[7], regs[8], regs[9], regs[10] = 0, pn, 1, uint64(rr)
			gas := Gas(100)
			in := OmegaInput{Operation: PagesOp, VM: &VMState{Registers: &regs, Memory: outer, Gas: &gas},
				Addition: HostCallArgs{RefineArgs: RefineArgs{IntegratedPVMMap: m}}}
			var out OmegaOutput
			pnk, msg, gs := vlib.Guard(func() { out = pages(in) })
			r.Transition()
			if pnk {
				r.Violation(gs, "go-panic", "pages", fmt.Sprintf("pages r=%d: %s", rr, msg), c)
				okAll = false
				break
			}
			if out.ExitReason != ExitContinue || regs[7] != OK {
				continue // refused: no change expected
			}
			switch rr {
			case 0:
				acc = c05Unmapped // inaccessible (mapped or not is irrelevant to the guest)
			case 1, 3:
				acc = c05RO
			case 2, 4:
				acc = c05RW
			}
		}
		if !okAll {
			continue
		}
		mem := m[0].Memory
		for _, oi := range []int{4, 11} { // load_u8, store_u8
			op := c05Ops[oi]
			instr, regs, _, _ := c05Build(op, pn*ZP+5, 0, 0)
			res := c05Run(e, c05Blob(instr), regs, &mem)
			r.Transition()
			allowed := acc == c05RW || (!op.store && acc == c05RO)
			r.Class(fmt.Sprintf("pages r1=%d r2=%d access=%s %s exit=%s", c.R1, c.R2, c05AccName[acc], op.name, res.exit))
			ctx := fmt.Sprintf("pages(r=%d) then pages(r=%d) on inner page %#x, then %s (engine %s)", c.R1, c.R2, pn, op.name, c05EngineNames[e])
			switch {
			case res.exit == "go-panic":
				r.Violation(res.gsite, "go-panic", "after-pages", ctx+": "+res.msg, c)
			case !allowed && res.exit == c05Cont:
				r.Violation("pages", "page-still-accessible-after-pages-call", fmt.Sprintf("r=%d", c.R2),
					ctx+": the access continues although the page was made "+c05AccName[acc]+" (inaccessible for this access)", c)
			case allowed && res.exit != c05Cont:
				r.Violation("pages", "page-not-accessible-after-pages-call", fmt.Sprintf("r=%d", c.R2), ctx+": exit "+res.exit, c)
			}
		}
	}
	r.Eval()
}

// ---------------------------------------------------------------- history --

// c05RunHist drives a real inner machine through the host calls:
//
//	machine(blob); pages(X..X+1, r1); invoke -> [access 1; ecalli 0];
//	pages(T, r2) with T in {X, X+1}; invoke -> [access 2; ecalli 1]
//
// and judges both accesses with the page/access model (statement clauses only).
type c05HistAcc struct {
	store bool
	addr  uint32
	width int
}

const c05HX = 0x30 // page X of the inner machine

func c05HistAccs() []c05HistAcc {
	var out []c05HistAcc
	for _, st := range []bool{false, true} {
		out = append(out, c05HistAcc{st, c05HX*ZP + 5, 1}, c05HistAcc{st, (c05HX+1)*ZP + 5, 1}, c05HistAcc{st, c05HX*ZP + ZP - 1, 2})
	}
	return out
}

func (a c05HistAcc) instr() []byte {
	op := byte(52) // load_u8 r3
	reg := byte(3)
	switch {
	case a.store && a.width == 1:
		op, reg = 59, 4
	case a.store:
		op, reg = 60, 4
	case a.width == 2:
		op = 54
	}
	return append([]byte{op, reg}, c05LE(uint64(a.addr), 4)...)
}

func (a c05HistAcc) String() string {
	k := "load"
	if a.store {
		k = "store"
	}
	return fmt.Sprintf("%s_u%d@%#x", k, 8*a.width, a.addr)
}

func c05RunHist(r *vlib.Run, c c05Case) {
	accs := c05HistAccs()
	a1, a2 := accs[c.Op], accs[c.Split]
	target := uint32(c05HX + c.World) // page changed by the second pages call
	// inner program: access1; ecalli 0; access2; ecalli 1; trap
	code := append([]byte(nil), a1.instr()...)
	starts := []int{0, len(code)}
	code = append(code, 10, 0)
	starts = append(starts, len(code))
	code = append(code, a2.instr()...)
	starts = append(starts, len(code))
	code = append(code, 10, 1)
	starts = append(starts, len(code))
	code = append(code, 0)
	mask := make([]byte, (len(code)+7)/8)
	for _, s := range starts {
		mask[s/8] |= 1 << (uint(s) % 8)
	}
	blob := append([]byte{0, 0, byte(len(code))}, code...)
	blob = append(blob, mask...)

	const obase = 0x20000
	outer := &Memory{Pages: map[uint32]*Page{obase / ZP: {Value: make([]byte, ZP), Access: MemoryReadWrite}}}
	copy(outer.Pages[obase/ZP].Value[128:], blob)
	m := IntegratedPVMMap{}
	add := HostCallArgs{RefineArgs: RefineArgs{IntegratedPVMMap: m}}
	ctx := fmt.Sprintf("machine; pages(%#x..+1, r=%d); invoke[%v]; pages(%#x, r=%d); invoke[%v]", c05HX, c.R1, a1, target, c.R2, a2)
	fail := func(site, kind, key, detail string) { r.Violation(site, kind, key, ctx+": "+detail, c) }
	call := func(f Omega, regs *Registers) (ok bool) {
		gas := Gas(1000)
		in := OmegaInput{VM: &VMState{Registers: regs, Memory: outer, Gas: &gas}, Addition: add}
		var out OmegaOutput
		pnk, msg, gs := vlib.Guard(func() { out = f(in) })
		r.Transition()
		if pnk {
			fail(gs, "go-panic", "inner-machine-history", msg)
			return false
		}
		return out.ExitReason == ExitContinue
	}
	var regs Registers
	regs[7], regs[8], regs[9] = obase+128, uint64(len(blob)), 0
	if !call(machine, &regs) || regs[7] != 0 {
		fail("machine", "machine-refused-valid-blob", "hist", fmt.Sprintf("r7=%#x", regs[7]))
		return
	}
	model := &c05Model{pages: map[uint32]*c05Page{}}
	applyPages := func(p uint32, n int, rr int) bool {
		var rg Registers
		rg[7], rg[8], rg[9], rg[10] = 0, uint64(p), uint64(n), uint64(rr)
		if !call(pages, &rg) {
			return false
		}
		if rg[7] != OK {
			return true // refused: nothing changes
		}
		for i := uint32(0); i < uint32(n); i++ {
			switch rr {
			case 0:
				delete(model.pages, p+i)
			case 1:
				model.pages[p+i] = &c05Page{acc: c05RO}
			case 2:
				model.pages[p+i] = &c05Page{acc: c05RW}
			case 3:
				if q := model.pages[p+i]; q != nil {
					q.acc = c05RO
				}
			case 4:
				if q := model.pages[p+i]; q != nil {
					q.acc = c05RW
				}
			}
		}
		return true
	}
	inRegs := func() Registers {
		var w Registers
		for i := range w {
			w[i] = c05Sentinel + uint64(i)
		}
		w[4] = 0xB6A7
		return w
	}
	invokeOnce := func(acc c05HistAcc, wantHost uint64, step string) bool {
		blk := outer.Pages[obase/ZP].Value
		binary.LittleEndian.PutUint64(blk[0:], 100)
		w := inRegs()
		for i := range w {
			binary.LittleEndian.PutUint64(blk[8+8*i:], w[i])
		}
		before := model.clone()
		v := model.judge(acc.addr, acc.width, acc.store)
		var rg Registers
		rg[7], rg[8] = 0, obase
		if !call(invoke, &rg) {
			fail("invoke", "invoke-failed", "hist", step)
			return false
		}
		var got Registers
		for i := range got {
			got[i] = binary.LittleEndian.Uint64(blk[8+8*i:])
		}
		inner := m[0].Memory
		site := "loadFromMemory"
		if acc.store {
			site = "storeIntoMemory"
		}
		key := fmt.Sprintf("inner-machine-history;%s;pages-r=%d", step, c.R2)
		allowed := v.ok && !v.low
		cont := rg[7] == INNERHOST && rg[8] == wantHost
		r.Class(fmt.Sprintf("hist %s r1=%d r2=%d allowed=%v result=%d", step, c.R1, c.R2, allowed, rg[7]))
		switch {
		case allowed && !cont:
			fail(site, "permitted-access-refused", key, fmt.Sprintf("%s: invoke returned r7=%d r8=%#x", step, rg[7], rg[8]))
			return false
		case !allowed && cont:
			if acc.store {
				fail(site, "write-to-non-writable-page", key, step+": the store continues")
			} else {
				fail(site, "read-of-non-readable-page", key, step+": the load continues")
			}
			return false
		case !allowed && rg[7] != INNERFAULT && rg[7] != INNERPANIC:
			fail(site, "unexpected-exit", key, fmt.Sprintf("%s: r7=%d", step, rg[7]))
			return false
		}
		exp := before
		expRegs := w
		if allowed {
			if acc.store {
				exp = before.clone()
				for i := 0; i < acc.width; i++ {
					a := acc.addr + uint32(i)
					exp.pages[a/ZP].data[a%ZP] = byte(w[4] >> (8 * uint(i)))
				}
			} else {
				var x uint64
				for i := 0; i < acc.width; i++ {
					a := acc.addr + uint32(i)
					x |= uint64(before.pages[a/ZP].data[a%ZP]) << (8 * uint(i))
				}
				expRegs[3] = x
			}
		} else if rg[7] == INNERFAULT {
			lo, hi := uint64(acc.addr/ZP)*ZP, uint64(acc.addr)+uint64(acc.width)-1
			if rg[8] < lo || rg[8] > hi {
				fail(site, "fault-address-out-of-range", key, fmt.Sprintf("%s: %#x not in [%#x,%#x]", step, rg[8], lo, hi))
			}
		}
		if d := exp.diff(&inner); d != "" {
			kind := "memory-changed-by-failed-access"
			if allowed {
				kind = "wrong-memory-after-access"
			}
			fail(site, kind, key, step+": "+d)
			return false
		}
		if got != expRegs {
			kind := "register-changed-by-failed-access"
			if allowed {
				kind = "wrong-register-after-access"
			}
			fail(site, kind, key, fmt.Sprintf("%s: registers %x expected %x", step, got, expRegs))
			return false
		}
		model.pages = exp.pages
		return true
	}
	if !applyPages(c05HX, 2, c.R1) {
		return
	}
	if !invokeOnce(a1, 0, "first-invoke") {
		r.Eval()
		return
	}
	if !applyPages(target, 1, c.R2) {
		return
	}
	invokeOnce(a2, 1, "second-invoke")
	r.Eval()
}

// ---------------------------------------------------------------- ranges ---

// c05RunRange: host-call buffer ranges. (a) isReadable / isWriteable directly against the model;
// (b) the real peek / poke host calls copying between an outer buffer and an inner-machine buffer:
// unaligned starts x lengths straddling 0..3 page boundaries x per-page access maps in which exactly
// one covered page (first, middle or LAST) lacks the access the copy needs.
//
//	peek(n, o, s, z): inner [s, s+z) is read, outer [o, o+z) is written
//	poke(n, s, o, z): outer [s, s+z) is read, inner [o, o+z) is written
const (
	c05ROuter = 0x40 // first page of the outer buffer
	c05RInner = 0x50 // first page of the inner buffer
)

func c05RunRange(r *vlib.Run, c c05Case) {
	op := "peek"
	if c.Op == 1 {
		op = "poke"
	}
	// which side is written
	outerWritten := c.Op == 0
	mk := func(base uint32, written bool, bad bool) *c05Model {
		m := &c05Model{pages: map[uint32]*c05Page{}}
		pat := 0
		if base == c05RInner {
			pat = 1
		}
		for i := uint32(0); i < 6; i++ {
			acc := c05RW
			if !written && i%2 == 1 {
				acc = c05RO // a read buffer may as well be read-only
			}
			m.add(base+i, acc, pat)
		}
		if bad && c.Bad >= 0 {
			pn := base + uint32(c.Bad)
			delete(m.pages, pn)
			m.add(pn, c.BadAc, pat)
		}
		return m
	}
	outerM := mk(c05ROuter, outerWritten, c.Side == 0)
	innerM := mk(c05RInner, !outerWritten, c.Side == 1)
	outer, innerMem := outerM.real(), innerM.real()
	oAddr := uint64(c05ROuter*ZP + c.Off)
	iAddr := uint64(c05RInner*ZP + c.Off)
	z := uint64(c.Len)
	key := fmt.Sprintf("%s;bad-page=%s", op, map[bool]string{true: "outer", false: "inner"}[c.Side == 0])
	if c.Bad < 0 {
		key = op + ";all-pages-accessible"
	}
	lastIdx := int((uint64(c.Off) + z - 1) / ZP)
	pos := "none"
	switch {
	case c.Bad < 0:
	case c.Bad == lastIdx && c.Bad == 0:
		pos = "only"
	case c.Bad == lastIdx:
		pos = "last"
	case c.Bad == 0:
		pos = "first"
	default:
		pos = "middle"
	}
	key += ";position=" + pos
	ctx := fmt.Sprintf("%s off=%d len=%d bad page %d (%s) on side %d", op, c.Off, c.Len, c.Bad, c05AccName[c.BadAc], c.Side)

	// (a) the range predicates themselves
	for _, q := range []struct {
		name string
		m    *c05Model
		mem  *Memory
		a    uint64
	}{{"outer", outerM, outer, oAddr}, {"inner", innerM, innerMem, iAddr}} {
		for _, wr := range []bool{false, true} {
			want := true
			for i := uint64(0); i < z; i++ {
				pg := q.m.pages[uint32((q.a+i)/ZP)]
				if pg == nil || !(pg.acc == c05RW || (!wr && pg.acc == c05RO)) {
					want = false
				}
			}
			var got bool
			fn := "isReadable"
			pnk, msg, gs := vlib.Guard(func() {
				if wr {
					got = isWriteable(q.a, z, *q.mem)
				} else {
					got = isReadable(q.a, z, *q.mem)
				}
			})
			if wr {
				fn = "isWriteable"
			}
			r.Transition()
			r.Class(fmt.Sprintf("range %s want=%v pos=%s", fn, want, pos))
			switch {
			case pnk:
				r.Violation(gs, "go-panic", "range-check", ctx+": "+msg, c)
			case got && !want:
				r.Violation(fn, "range-with-inaccessible-page-accepted", "position="+pos, fmt.Sprintf("%s: %s(%#x, %d) = true although a covered page lacks the access", ctx, fn, q.a, z), c)
			case !got && want:
				r.Violation(fn, "accessible-range-refused", "position="+pos, fmt.Sprintf("%s: %s(%#x, %d) = false", ctx, fn, q.a, z), c)
			}
		}
	}

	// (b) through the host call
	m := IntegratedPVMMap{0: IntegratedPVMType{Memory: *innerMem}}
	var regs Registers
	if c.Op == 0 {
		regs[7], regs[8], regs[9], regs[10] = 0, oAddr, iAddr, z
	} else {
		regs[7], regs[8], regs[9], regs[10] = 0, oAddr, iAddr, z
	}
	gas := Gas(1000)
	in := OmegaInput{VM: &VMState{Registers: &regs, Memory: outer, Gas: &gas}, Addition: HostCallArgs{RefineArgs: RefineArgs{IntegratedPVMMap: m}}}
	var out OmegaOutput
	pnk, msg, gs := vlib.Guard(func() {
		if c.Op == 0 {
			out = peek(in)
		} else {
			out = poke(in)
		}
	})
	r.Transition()
	r.Eval()
	if pnk {
		r.Class(fmt.Sprintf("range %s go-panic", op))
		r.Violation(gs, "go-panic", key, ctx+": "+msg, c)
		return
	}
	srcM, dstM, srcA, dstA := innerM, outerM, iAddr, oAddr
	if c.Op == 1 {
		srcM, dstM, srcA, dstA = outerM, innerM, oAddr, iAddr
	}
	permitted := true
	for i := uint64(0); i < z; i++ {
		sp := srcM.pages[uint32((srcA+i)/ZP)]
		dp := dstM.pages[uint32((dstA+i)/ZP)]
		if sp == nil || (sp.acc != c05RO && sp.acc != c05RW) || dp == nil || dp.acc != c05RW {
			permitted = false
		}
	}
	okRes := out.ExitReason == ExitContinue && regs[7] == OK
	r.Class(fmt.Sprintf("range %s permitted=%v ok=%v pos=%s", op, permitted, okRes, pos))
	innerAfter := m[0].Memory
	expOuter, expInner := outerM, innerM
	if okRes {
		if !permitted {
			kind := "host-call-writes-non-writable-page"
			if (c.Side == 0) != outerWritten {
				kind = "host-call-reads-non-readable-page"
			}
			r.Violation(op, kind, key, ctx+": the call answers OK", c)
			return
		}
		d := dstM.clone()
		for i := uint64(0); i < z; i++ {
			sa, da := srcA+i, dstA+i
			d.pages[uint32(da/ZP)].data[da%ZP] = srcM.pages[uint32(sa/ZP)].data[sa%ZP]
		}
		if c.Op == 0 {
			expOuter = d
		} else {
			expInner = d
		}
	}
	// refused (or OK): everything outside the permitted copy is unchanged
	if dd := expOuter.diff(outer); dd != "" {
		r.Violation(op, "outer-memory-wrong-after-host-call", key, ctx+": "+dd, c)
	}
	if dd := expInner.diff(&innerAfter); dd != "" {
		r.Violation(op, "inner-memory-wrong-after-host-call", key, ctx+": "+dd, c)
	}
}

// ---------------------------------------------------------------- main -----

func TestVerif_C05(t *testing.T) {
	r := vlib.Start(t, "C05")
	defer r.Finish()
	defer func() { r.Extra("sum_cpu_s", c05CPUSeconds()) }()
	pvmLogger.Disable()

	var rc c05Case
	if r.IsReplay(&rc) {
		switch rc.Fam {
		case "ls":
			c05RunLS(r, rc)
		case "sbrk":
			c05RunSbrk(r, rc)
		case "pages":
			c05RunPages(r, rc)
		case "hist":
			c05RunHist(r, rc)
		case "range":
			c05RunRange(r, rc)
		}
		return
	}

	idx := uint64(0)
	// (1) load/store sweep
	for oi := range c05Ops {
		for _, pa := range c05Placements {
			for accA := 0; accA < 4; accA++ {
				for accB := 0; accB < 4; accB++ {
					idx++
					if !r.Mine(idx) {
						continue
					}
					for _, addr := range c05Addrs(pa) {
						for pat := 0; pat < 2; pat++ {
							for sp := 0; sp < c05Splits(c05Ops[oi]); sp++ {
								r.Space(1)
								c05RunLS(r, c05Case{Fam: "ls", Op: oi, AccA: accA, AccB: accB, PageA: pa, Addr: addr, Pat: pat, Split: sp})
							}
						}
					}
				}
			}
		}
	}
	// (2) sbrk sequences of length 1..maxLen
	maxLen := vlib.Pick(r, 4, 5)
	for w := 0; w < 2; w++ {
		for l := 1; l <= maxLen; l++ {
			vlib.Sequences(c05NSizes, l, func(s []int) {
				idx++
				if !r.Mine(idx) {
					return
				}
				r.Space(1)
				c05RunSbrk(r, c05Case{Fam: "sbrk", World: w, Seq: append([]int(nil), s...)})
			})
		}
	}
	// (3) access changes through the `pages` host call
	for r1 := 1; r1 <= 2; r1++ {
		for r2 := 0; r2 <= 4; r2++ {
			idx++
			if !r.Mine(idx) {
				continue
			}
			r.Space(1)
			c05RunPages(r, c05Case{Fam: "pages", R1: r1, R2: r2})
		}
	}
	// (5) host-call buffer ranges (isReadable / isWriteable, peek, poke)
	for opi := 0; opi < 2; opi++ {
		for _, off := range []uint32{0, 1, 2048, 4095} {
			for _, ln := range []uint32{1, 2, 4095, 4096, 4097, 8191, 8192, 8193, 12288, 12289} {
				last := int((uint64(off) + uint64(ln) - 1) / ZP)
				for bad := -1; bad <= last; bad++ {
					for _, ba := range []int{c05Unmapped, c05Present, c05RO} {
						for side := 0; side < 2; side++ {
							if bad < 0 && (ba != c05Unmapped || side != 0) {
								continue
							}
							// R is only a lack of access on the side that is written
							if bad >= 0 && ba == c05RO && (side == 0) != (opi == 0) {
								continue
							}
							idx++
							if !r.Mine(idx) {
								continue
							}
							r.Space(1)
							c05RunRange(r, c05Case{Fam: "range", Op: opi, Off: off, Len: ln, Bad: bad, BadAc: ba, Side: side})
						}
					}
				}
			}
		}
	}
	// (4) inner-machine histories through machine / pages / invoke
	nAcc := len(c05HistAccs())
	for r1 := 1; r1 <= 2; r1++ {
		for r2 := 0; r2 <= 4; r2++ {
			for tgt := 0; tgt < 2; tgt++ {
				for i1 := 0; i1 < nAcc; i1++ {
					if c05HistAccs()[i1].store && r1 == 1 {
						continue // the first access must succeed (it is what leaves a history behind)
					}
					for i2 := 0; i2 < nAcc; i2++ {
						idx++
						if !r.Mine(idx) {
							continue
						}
						r.Space(1)
						c05RunHist(r, c05Case{Fam: "hist", R1: r1, R2: r2, World: tgt, Op: i1, Split: i2})
					}
				}
			}
		}
	}
}

// c05CPUSeconds: user+system CPU time of this shard (the machine is shared, wall time is noise).
func c05CPUSeconds() float64 {
	var ru syscall.Rusage
	if syscall.Getrusage(syscall.RUSAGE_SELF, &ru) != nil {
		return 0
	}
	return float64(ru.Utime.Sec+ru.Stime.Sec) + float64(ru.Utime.Usec+ru.Stime.Usec)/1e6
}
