package PVM

// C03 — untrusted program bytes never crash the node.
//
// Bounded-exhaustive enumeration of byte strings given to the blob parser
// (DeBlobProgramCode), the standard-program path (Psi_M = SingleInitializer +
// DeBlobProgramCode + Psi_H with each of the three host-call tables and an
// addition built the way Psi_I / RefineInvoke / Psi_A build it) and the
// inner-machine path (a real outer guest program that calls `machine` and
// `invoke` on the candidate bytes, run through Psi_M with the refine table).
//
// Oracle: no Go panic escapes; Psi_M returns one of the defined outcomes; the
// call terminates (all gas values are small; a hung or killed worker is
// attributed to the case recorded with r.Cur); bytes allocated during the call
// <= 64 MiB + 4*(declared |o|+|w|+z*4096+s+|a|) + 8*|blob|.

import (
	"fmt"
	"math/bits"
	"os"
	"runtime"
	"runtime/debug"
	"runtime/metrics"
	"strings"
	"sync/atomic"
	"syscall"
	"testing"
	"time"

	"github.com/New-JAMneration/JAM-Protocol/internal/types"
	"github.com/New-JAMneration/JAM-Protocol/internal/zzverif/vlib"
)

// ------------------------------------------------------------ plumbing -----

// c03Guard recovers a Go panic and attributes it: root-cause grouping is by
// the call path, not only by the innermost frame (one defect, one signature).
//
//	via = "invoke"  : the panic happened while `invoke` ran an inner machine
//	via = "operands": the panic happened inside decodeOperands (pre-decode), or
//	                  a handler indexed the register file with the 0xFF
//	                  sentinel decodeOperands leaves behind
func c03Guard(f func()) (p bool, msg, site string, via string) {
	defer func() {
		if e := recover(); e != nil {
			p = true
			msg = fmt.Sprint(e)
			st := string(debug.Stack())
			site = vlib.TopRepoFrame(st)
			switch {
			case strings.Contains(st, "PVM.invoke("):
				via = "invoke"
			case strings.Contains(st, "PVM.decodeOperands("):
				via = "operands"
			case strings.Contains(msg, "index out of range [255] with length 13"):
				via = "operands"
			}
		}
	}()
	f()
	return
}

var c03Sample = []metrics.Sample{{Name: "/gc/heap/allocs:bytes"}}

func c03Allocs() uint64 {
	metrics.Read(c03Sample)
	return c03Sample[0].Value.Uint64()
}

// c03MsgClass strips the concrete numbers from a runtime panic message.
func c03MsgClass(msg string) string {
	switch {
	case strings.Contains(msg, "slice bounds out of range"):
		return "slice-bounds-out-of-range"
	case strings.Contains(msg, "index out of range"):
		return "index-out-of-range"
	case strings.Contains(msg, "nil map"):
		return "assignment-to-nil-map"
	case strings.Contains(msg, "nil pointer"):
		return "nil-pointer-dereference"
	case strings.Contains(msg, "makeslice"):
		return "makeslice"
	}
	out := make([]byte, 0, 40)
	for i := 0; i < len(msg) && len(out) < 40; i++ {
		c := msg[i]
		if c >= '0' && c <= '9' {
			continue
		}
		if c == ' ' {
			c = '-'
		}
		out = append(out, c)
	}
	return "explicit:" + string(out)
}

func c03Nat(v uint64) []byte { // GP natural-number encoding
	if v < 1<<7 {
		return []byte{byte(v)}
	}
	for l := 1; l <= 7; l++ {
		if v < uint64(1)<<(7*uint(l+1)) {
			out := []byte{byte(256 - (1 << (8 - uint(l))) + int(v>>(8*uint(l))))}
			for i := 0; i < l; i++ {
				out = append(out, byte(v>>(8*uint(i))))
			}
			return out
		}
	}
	out := []byte{0xFF}
	for i := 0; i < 8; i++ {
		out = append(out, byte(v>>(8*uint(i))))
	}
	return out
}

func c03LE(v uint64, n int) []byte {
	b := make([]byte, n)
	for i := range b {
		b[i] = byte(v >> (8 * uint(i)))
	}
	return b
}

// c03Std assembles a standard program blob (declared lengths may differ from actual)
func c03Std(oDecl, wDecl, z, s, cDecl uint64, o, w, c []byte) []byte {
	out := make([]byte, 0, 15+len(o)+len(w)+len(c))
	out = append(out, c03LE(oDecl, 3)...)
	out = append(out, c03LE(wDecl, 3)...)
	out = append(out, c03LE(z, 2)...)
	out = append(out, c03LE(s, 3)...)
	out = append(out, o...)
	out = append(out, w...)
	out = append(out, c03LE(cDecl, 4)...)
	return append(out, c...)
}

func c03Wrap(inner []byte) []byte { // plain wrapper: no data, no stack
	return c03Std(0, 0, 0, 0, uint64(len(inner)), nil, nil, inner)
}

var c03RO = []byte{1, 2, 3, 4, 5, 6, 7, 8}
var c03RW = []byte{9, 10, 11, 12, 13, 14, 15, 16}

func c03WrapData(inner []byte) []byte { // wrapper with ro/rw data, one heap page and a stack page
	return c03Std(8, 8, 1, 4096, uint64(len(inner)), c03RO, c03RW, inner)
}

// tiny assembler
type c03Asm struct {
	code   []byte
	starts []int
}

func (a *c03Asm) ins(b ...byte) *c03Asm {
	a.starts = append(a.starts, len(a.code))
	a.code = append(a.code, b...)
	return a
}

func (a *c03Asm) blob(z int, jt ...uint64) []byte {
	mask := make([]byte, (len(a.code)+7)/8)
	for _, s := range a.starts {
		mask[s/8] |= 1 << (uint(s) % 8)
	}
	out := append([]byte(nil), c03Nat(uint64(len(jt)))...)
	out = append(out, byte(z))
	out = append(out, c03Nat(uint64(len(a.code)))...)
	for _, e := range jt {
		out = append(out, c03LE(e, z)...)
	}
	out = append(out, a.code...)
	return append(out, mask...)
}

func c03Imm32(v uint32) []byte { return c03LE(uint64(v), 4) }

// ------------------------------------------------------------ additions ----

func c03Account() types.ServiceAccount {
	return types.ServiceAccount{
		ServiceInfo:    types.ServiceInfo{Balance: 1 << 40, MinItemGas: 10, MinMemoGas: 10},
		PreimageLookup: types.PreimagesMapEntry{},
		LookupDict:     types.LookupMetaMapEntry{},
		StorageDict:    types.Storage{},
	}
}

func c03AdditionIsAuthorized() HostCallArgs {
	c := types.CoreIndex(1)
	return HostCallArgs{GeneralArgs: GeneralArgs{ServiceID: nil, CoreID: &c}}
}

func c03AdditionRefine() HostCallArgs {
	sid := types.ServiceID(42)
	core := types.CoreIndex(1)
	accounts := types.ServiceAccountState{sid: c03Account()}
	wp := types.WorkPackage{Items: []types.WorkItem{{Service: sid, Payload: types.ByteSequence{1, 2, 3}}}}
	extr := make([][]types.ExtrinsicSpec, len(wp.Items))
	return HostCallArgs{
		GeneralArgs: GeneralArgs{ServiceID: &sid, ServiceAccountState: &accounts, CoreID: &core},
		RefineArgs: RefineArgs{
			WorkItemIndex:       types.Some(uint(0)),
			WorkPackage:         types.Some(wp),
			AuthOutput:          types.Some(types.ByteSequence{7, 7}),
			ImportSegments:      [][]types.ExportSegment{{}},
			ExportSegmentOffset: 0,
			ExtrinsicDataMap:    ExtrinsicDataMap{},
			IntegratedPVMMap:    IntegratedPVMMap{},
			ExportSegment:       []types.ExportSegment{},
			TimeSlot:            5,
			Extrinsics:          extr,
		},
	}
}

func c03AdditionAccumulate() HostCallArgs {
	sid := types.ServiceID(42)
	mk := func() (types.PartialStateSet, *types.StateKeyVals) {
		ps := types.PartialStateSet{
			ServiceAccounts: types.ServiceAccountState{sid: c03Account()},
			AlwaysAccum:     types.AlwaysAccumulateMap{},
		}
		kv := types.StateKeyVals{}
		return ps, &kv
	}
	psX, kvX := mk()
	psY, kvY := mk()
	var eta types.Entropy
	acct := psX.ServiceAccounts[sid]
	return HostCallArgs{
		GeneralArgs: GeneralArgs{ServiceAccount: &acct, ServiceID: &sid, ServiceAccountState: &psX.ServiceAccounts, StorageKeyVal: kvX},
		AccumulateArgs: AccumulateArgs{
			ResultContextX: I(psX, sid, 7, eta, kvX),
			ResultContextY: I(psY, sid, 7, eta, kvY),
			Eta:            eta,
			Timeslot:       7,
		},
	}
}

type c03Par struct {
	pc    ProgramCounter
	gas   uint64
	arg   int // 0 nil, 1 one byte, 2 4096 bytes
	omega int // 0 is-authorized, 1 refine, 2 accumulate
}

var c03Args = [3][]byte{nil, {0x5A}, nil}
var c03OmegaNames = [3]string{"is-authorized", "refine", "accumulate"}

func init() {
	c03Args[2] = make([]byte, 4096)
	for i := range c03Args[2] {
		c03Args[2][i] = byte(i*3 + 1)
	}
}

// level -1: one setting; level 0: two settings; level 1: 12; level 2: the full product 2*4*3*3 = 72
func c03Pars(level int) []c03Par {
	switch level {
	case -1:
		return []c03Par{{0, 50, 0, 0}}
	case 0:
		return []c03Par{{0, 50, 0, 0}, {5, 2000, 1, 2}}
	case 1:
		var out []c03Par
		for _, pc := range []ProgramCounter{0, 5} {
			for _, g := range []uint64{1, 2000} {
				for k := 0; k < 3; k++ {
					out = append(out, c03Par{pc, g, k, k})
				}
			}
		}
		return out
	}
	var out []c03Par
	for _, pc := range []ProgramCounter{0, 5} {
		for _, g := range []uint64{0, 1, 50, 2000} {
			for a := 0; a < 3; a++ {
				for o := 0; o < 3; o++ {
					out = append(out, c03Par{pc, g, a, o})
				}
			}
		}
	}
	return out
}

// ------------------------------------------------------------ seams --------

type c03Case struct {
	Fam   string `json:"fam"`
	Hex   string `json:"hex,omitempty"`  // the candidate bytes (small cases)
	Kind  string `json:"kind,omitempty"` // inner | std
	Seed  string `json:"seed,omitempty"` // large seeds are rebuilt: boot
	Pos   int    `json:"pos,omitempty"`
	Val   int    `json:"val,omitempty"`
	Cut   int    `json:"cut,omitempty"` // prefix length + 1 (0 = no cut)
	Level int    `json:"level"`
	Size  uint64 `json:"size,omitempty"`
}

type c03Ctx struct {
	r     *vlib.Run
	c     c03Case
	cjson string
}

// per-case watchdog. The machine is shared and page faults are slow, so wall time says little: a case
// is reported as a hang when the process has burnt 200 s of CPU (user+system) since the case started
// (expected: micro- to milliseconds; the 256 MiB layouts a few CPU-seconds). A genuinely non-terminating
// case spins and reaches that; a starved one does not. The worker exits, the driver attributes the dead
// worker to the case recorded with r.Cur.
var c03CaseStart atomic.Int64 // process CPU nanoseconds at case start + 1 (0 = no case running)

func c03CPUNanos() int64 { return int64(c03CPUSeconds() * 1e9) }

func c03Watchdog() {
	go func() {
		for {
			time.Sleep(2 * time.Second)
			if t := c03CaseStart.Load(); t != 0 && c03CPUNanos()-(t-1) > int64(200*time.Second) {
				fmt.Println("c03 watchdog: case consumed more than 200 CPU-seconds without returning: test timed out (hang)")
				os.Exit(3)
			}
		}
	}()
}

func (x *c03Ctx) cur(site string) {
	if x.c.Fam == "bytes" {
		if x.cjson != "" {
			return // one record per case is enough for the tiny exhaustive strings
		}
		site = "DeBlobProgramCode/Psi_M"
	}
	if x.cjson == "" {
		x.cjson = fmt.Sprintf(`,"case":{"fam":%q,"hex":%q,"kind":%q,"seed":%q,"pos":%d,"val":%d,"cut":%d,"level":%d,"size":%d}}`,
			x.c.Fam, x.c.Hex, x.c.Kind, x.c.Seed, x.c.Pos, x.c.Val, x.c.Cut, x.c.Level, x.c.Size)
	}
	x.r.Cur(`{"site":"` + site + `"` + x.cjson)
}

// declared sizes of a standard blob (own parse; zero when the header is short)
func c03Declared(p []byte) uint64 {
	if len(p) < 11 {
		return 0
	}
	le := func(b []byte) uint64 {
		var v uint64
		for i := range b {
			v |= uint64(b[i]) << (8 * uint(i))
		}
		return v
	}
	return le(p[0:3]) + le(p[3:6]) + le(p[6:8])*4096 + le(p[8:11])
}

func (x *c03Ctx) report(seam string, pnk bool, msg, site string, via string, alloc, bound uint64, what string) {
	r := x.r
	if pnk {
		key := c03MsgClass(msg)
		switch via {
		case "invoke":
			key = "inner-run;" + key
			msg = msg + " (top frame " + site + ")"
			site = "PVM.invoke"
		case "operands":
			if strings.Contains(msg, "[255] with length 13") {
				key = "register-index-255"
			}
			key = "operands-past-code-end;" + key
			msg = msg + " (top frame " + site + ")"
			site = "PVM.decodeOperands"
		}
		r.Violation(site, "go-panic", key, fmt.Sprintf("%s %s: Go panic: %s", seam, what, msg), x.c)
		return
	}
	if alloc > bound {
		site := seam
		key := "blob"
		if x.c.Fam == "sbrk" {
			site, key = "instSbrkMeta", "sbrk"
		}
		r.Violation(site, "alloc-beyond-bound", key, fmt.Sprintf("%s %s: allocated %d bytes, bound %d", seam, what, alloc, bound), x.c)
	}
}

const c03Fixed = 64 << 20

func (x *c03Ctx) deblob(b []byte) {
	x.cur("DeBlobProgramCode")
	var er ExitReason
	a0 := c03Allocs()
	pnk, msg, site, vi := c03Guard(func() { _, er = DeBlobProgramCode(append([]byte(nil), b...)) })
	a1 := c03Allocs()
	x.r.Transition()
	cls := "deblob:accept"
	if pnk {
		cls = "deblob:go-panic"
	} else if er != ExitContinue {
		cls = "deblob:reject"
	}
	x.r.Class(x.c.Fam + " " + cls)
	x.report("DeBlobProgramCode", pnk, msg, site, vi, a1-a0, c03Fixed+8*uint64(len(b)), "")
}

func (x *c03Ctx) psiM(p []byte, par c03Par, tag string) (res Psi_M_ReturnType, ok bool) {
	x.cur("Psi_M")
	var add HostCallArgs
	var om Omegas
	switch par.omega {
	case 0:
		add, om = c03AdditionIsAuthorized(), IsAuthorizedOmegas
	case 1:
		add, om = c03AdditionRefine(), RefineOmegas
	default:
		add, om = c03AdditionAccumulate(), AccumulateOmegas
	}
	arg := c03Args[par.arg]
	a0 := c03Allocs()
	pnk, msg, site, vi := c03Guard(func() {
		res = Psi_M(append([]byte(nil), p...), par.pc, types.Gas(par.gas), append([]byte(nil), arg...), om, add)
	})
	a1 := c03Allocs()
	x.r.Transition()
	what := fmt.Sprintf("pc=%d gas=%d |a|=%d table=%s", par.pc, par.gas, len(arg), c03OmegaNames[par.omega])
	bound := uint64(c03Fixed) + 4*(c03Declared(p)+uint64(len(arg))) + 8*uint64(len(p))
	x.report("Psi_M", pnk, msg, site, vi, a1-a0, bound, what)
	out := "go-panic"
	if !pnk {
		switch v := res.ReasonOrBytes.(type) {
		case nil:
			out = "halt-empty"
		case []byte:
			out = "halt-bytes"
		case ExitReasonType:
			switch v {
			case PANIC:
				out = "panic"
			case OUT_OF_GAS:
				out = "out-of-gas"
			default:
				out = fmt.Sprintf("undefined:%d", v)
			}
		case ExitReason:
			// no consumer of Psi_M recognises an ExitReason here: RefineInvoke, Psi_I and C compare with
			// the ExitReasonType constants PANIC / OUT_OF_GAS
			out = fmt.Sprintf("undefined:ExitReason(%s)", v.String())
		default:
			out = fmt.Sprintf("undefined-type:%T", v)
		}
		if strings.HasPrefix(out, "undefined") {
			x.r.Violation("Psi_M", "undefined-outcome", out, fmt.Sprintf("Psi_M %s returned %T(%v); the defined outcomes are PANIC, OUT_OF_GAS (ExitReasonType), nil or []byte", what, res.ReasonOrBytes, res.ReasonOrBytes), x.c)
		}
	}
	x.r.Class(fmt.Sprintf("%s %s psi_m:%s", x.c.Fam, tag, out))
	return res, !pnk
}

// driver: a real outer guest that calls machine(po, pz, 0) and invoke(n, o) on
// the candidate bytes and halts with the 128-byte result block.
//
//	w = [gas(8) regs(13*8)] [invoke r7 (8)] [invoke r8 (8)] candidate...
func c03Driver(inner []byte, withPages bool) []byte {
	const base = 0x20000
	a := &c03Asm{}
	a.ins(append([]byte{51, 7}, c03Imm32(base+128)...)...)           // r7 = po
	a.ins(append([]byte{51, 8}, c03Imm32(uint32(len(inner)))...)...) // r8 = pz
	a.ins(51, 9, 0)                                                  // r9 = i = 0
	a.ins(10, 8)                                                     // machine -> r7 = n
	if withPages {
		a.ins(51, 8, 16) // p
		a.ins(51, 9, 1)  // c
		a.ins(51, 10, 2) // r = 2 (writable, zeroed)
		a.ins(10, 11)    // pages(n, 16, 1, 2) -> r7 = OK (= 0 = n)
	}
	a.ins(append([]byte{51, 8}, c03Imm32(base)...)...) // r8 = o
	a.ins(10, 12)                                      // invoke
	a.ins(append([]byte{62, 7}, c03Imm32(base+112)...)...)
	a.ins(append([]byte{62, 8}, c03Imm32(base+120)...)...)
	a.ins(append([]byte{51, 7}, c03Imm32(base)...)...)
	a.ins(51, 8, 0x80, 0) // r8 = 128
	a.ins(50, 0)          // jump_ind r0 -> halt
	w := make([]byte, 128, 128+len(inner))
	copy(w, c03LE(1000, 8)) // inner gas
	copy(w[8:], c03LE(0xFFFF0000, 8))
	for i := 1; i < 13; i++ {
		copy(w[8+8*i:], c03LE(uint64(i), 8))
	}
	w = append(w, inner...)
	drv := a.blob(0)
	return c03Std(0, uint64(len(w)), 0, 0, uint64(len(drv)), nil, w, drv)
}

var c03InnerNames = map[uint64]string{INNERHALT: "HALT", INNERPANIC: "PANIC", INNERFAULT: "FAULT", INNERHOST: "HOST", INNEROOG: "OOG", WHO: "WHO(machine refused)"}

func (x *c03Ctx) inner(b []byte, withPages bool) {
	tag := "machine+invoke"
	if withPages {
		tag = "machine+pages+invoke"
	}
	res, ok := x.psiM(c03Driver(b, withPages), c03Par{0, 200, 0, 1}, tag)
	if !ok {
		return
	}
	out, isBytes := res.ReasonOrBytes.([]byte)
	if !isBytes || len(out) != 128 {
		x.r.Class(fmt.Sprintf("%s %s driver-did-not-halt:%v", x.c.Fam, tag, res.ReasonOrBytes))
		return
	}
	var r7 uint64
	for i := 0; i < 8; i++ {
		r7 |= uint64(out[112+i]) << (8 * uint(i))
	}
	n, known := c03InnerNames[r7]
	if !known {
		n = fmt.Sprintf("r7=%#x", r7)
		x.r.Violation("PVM.invoke", "undefined-inner-outcome", n, fmt.Sprintf("invoke returned r7=%#x", r7), x.c)
	}
	x.r.Class(fmt.Sprintf("%s %s inner:%s", x.c.Fam, tag, n))
}

// probeInner runs every seam on candidate inner-blob bytes.
func (x *c03Ctx) probeInner(b []byte, level int, data bool) {
	x.deblob(b)
	wrap := c03Wrap(b)
	if data {
		wrap = c03WrapData(b)
	}
	for _, par := range c03Pars(level) {
		x.psiM(wrap, par, "as-program")
	}
	x.inner(b, false)
	x.r.Eval()
}

func (x *c03Ctx) probeStd(p []byte, level int) {
	for _, par := range c03Pars(level) {
		x.psiM(p, par, "as-std-blob")
	}
	x.r.Eval()
}

// ------------------------------------------------------------ seeds --------

type c03Seed struct {
	name string
	blob []byte
}

func c03Seeds() []c03Seed {
	var s []c03Seed
	add := func(n string, b []byte) { s = append(s, c03Seed{n, b}) }
	add("empty", []byte{0, 0, 0})
	add("trap", (&c03Asm{}).ins(0).blob(0))
	add("fallthrough", (&c03Asm{}).ins(1).ins(1).ins(0).blob(0))
	add("halt", (&c03Asm{}).ins(50, 0).blob(0)) // jump_ind r0 = 0xFFFF0000
	add("loop", (&c03Asm{}).ins(1).ins(40, 0xFF).blob(0))
	add("spin", (&c03Asm{}).ins(40, 0).blob(0)) // jump to itself: terminates only by running out of gas
	add("jump-fwd", (&c03Asm{}).ins(40, 3).ins(0).ins(1).ins(0).blob(0))
	add("jump-table", (&c03Asm{}).ins(51, 2, 2).ins(50, 2).ins(0).ins(1).ins(0).ins(0).blob(1, 6))
	add("jump-table-w2", (&c03Asm{}).ins(51, 2, 4).ins(50, 2).ins(0).ins(1).ins(0).ins(0).blob(2, 5, 6))
	add("load-imm-64", (&c03Asm{}).ins(20, 3, 0x88, 0x77, 0x66, 0x55, 0x44, 0x33, 0x22, 0x11).ins(0).blob(0))
	add("ecalli", (&c03Asm{}).ins(10, 0).ins(10, 1).ins(10, 100).ins(10, 0xFF, 0x7F).ins(0).blob(0))
	add("memory", (&c03Asm{}).
		ins(append([]byte{32, 4}, append(c03Imm32(0x20000), 7)...)...). // store_imm_u32 [0x20000] = 7
		ins(append([]byte{56, 3}, c03Imm32(0x20000)...)...).            // load_u32 r3
		ins(append([]byte{52, 4}, c03Imm32(0x10000)...)...).            // load_u8 r4 (ro data)
		ins(120, 0x13, 0xFC).                                           // store_ind_u8 [r1-4] = r3 (stack)
		ins(0).blob(0))
	add("branch", (&c03Asm{}).ins(81, 0x17, 0, 5).ins(1).ins(170, 0x12, 2).ins(0).ins(0).blob(0))
	add("sbrk", (&c03Asm{}).ins(101, 0x87).ins(101, 0x87).ins(0).blob(0))
	add("jump-ind-imm", (&c03Asm{}).ins(180, 0x23, 1, 9, 2).ins(0).ins(1).ins(0).blob(1, 5))
	add("alu", (&c03Asm{}).ins(200, 0x12, 3).ins(203, 0x45, 6).ins(100, 0x12).ins(149, 0x12, 0xFF).ins(0).blob(0))
	return s
}

var c03Boot []byte

func c03LoadBoot(r *vlib.Run) []byte {
	if c03Boot == nil {
		b, err := os.ReadFile("test-file/jam-bootstrap-service.pvm")
		if err != nil {
			r.T.Fatalf("bootstrap blob: %v", err)
		}
		c03Boot = b
	}
	return c03Boot
}

// the nine boundary values used for substitutions in large blobs
var c03Nine = []int{0x00, 0x01, 0x7F, 0x80, 0xBF, 0xC0, 0xFE, 0xFF, -1} // -1: original ^ 0x01

func c03BootMut(boot []byte, c c03Case) []byte {
	b := append([]byte(nil), boot...)
	if c.Cut > 0 {
		return b[:c.Cut-1]
	}
	if c.Val < 0 {
		b[c.Pos] ^= 0x01
	} else {
		b[c.Pos] = byte(c.Val)
	}
	return b
}

// structural positions of the bootstrap blob: headers, field boundaries, the
// whole jump table head, the first code bytes, the ends of code and bitmask.
func c03BootStructural(boot []byte) []int {
	le := func(b []byte) int { return int(b[0]) | int(b[1])<<8 | int(b[2])<<16 }
	o, w := le(boot[0:3]), le(boot[3:6])
	cAt := 11 + o + w
	inner := cAt + 4
	// inner header: |j| (2 bytes), z, |c| (3 bytes) for this blob
	const hdr, nj, zj, nc = 6, 961, 2, 53963
	jt := inner + hdr
	code := jt + nj*zj
	mask := code + nc
	set := map[int]bool{}
	span := func(from, n int) {
		for i := from; i < from+n && i < len(boot); i++ {
			if i >= 0 {
				set[i] = true
			}
		}
	}
	span(0, 11+16)
	span(11+o-8, 16)
	span(cAt-8, 12+hdr+64)
	span(code-16, 16+512)
	span(mask-32, 32+64)
	span(len(boot)-16, 16)
	out := make([]int, 0, len(set))
	for i := 0; i < len(boot); i++ {
		if set[i] {
			out = append(out, i)
		}
	}
	return out
}

// ------------------------------------------------------------ lattices -----

var c03Template = []byte{51, 2, 2, 50, 2, 0, 1, 0, 0} // load_imm r2,2; jump_ind r2; trap; fallthrough; trap; trap
var c03TemplateStarts = []int{0, 3, 5, 6, 7, 8}

func c03LatVals(actual uint64, max uint64) []uint64 {
	cand := []uint64{0, 1, actual - 1, actual, actual + 1, 1 << 7, 1 << 14, 1 << 21, 1<<24 - 1, 1<<32 - 1, ^uint64(0)}
	var out []uint64
	seen := map[uint64]bool{}
	for _, v := range cand {
		if actual == 0 && v == ^uint64(0) && max != ^uint64(0) {
			continue
		}
		if v > max {
			v = max
		}
		if !seen[v] {
			seen[v] = true
			out = append(out, v)
		}
	}
	return out
}

// ------------------------------------------------------------ main ---------

func c03RunCase(r *vlib.Run, c c03Case) {
	x := &c03Ctx{r: r, c: c}
	switch c.Fam {
	case "boot":
		p := c03BootMut(c03LoadBoot(r), c)
		x.probeStd(p, c.Level)
	case "sbrk":
		// load_imm_64 r8, size; sbrk r7, r8; trap
		prog := (&c03Asm{}).ins(append([]byte{20, 8}, c03LE(c.Size, 8)...)...).ins(101, 0x87).ins(0).blob(0)
		x.psiM(c03WrapData(prog), c03Par{0, 10, 0, 0}, "sbrk")
		r.Eval()
		runtime.GC()
	case "inner-pages":
		x.inner(vlib.Unhex(c.Hex), true)
		r.Eval()
	default:
		b := vlib.Unhex(c.Hex)
		if c.Kind == "std" {
			x.probeStd(b, c.Level)
		} else {
			x.probeInner(b, c.Level, c.Fam == "seed")
		}
	}
}

func TestVerif_C03(t *testing.T) {
	r := vlib.Start(t, "C03")
	defer r.Finish()
	defer func() { r.Extra("sum_cpu_s", c03CPUSeconds()) }()
	pvmLogger.Disable()

	var rc c03Case
	if r.IsReplay(&rc) {
		c03RunCase(r, rc)
		return
	}
	th := r.Thorough()
	c03Watchdog()
	idx := uint64(0)
	famT := map[string]float64{}
	famN := map[string]float64{}
	defer func() {
		for k, v := range famT {
			r.Extra("sum_seconds_"+k, v)
			r.Extra("sum_cases_"+k, famN[k])
		}
	}()
	run := func(c c03Case) {
		idx++
		if !r.Mine(idx) {
			return
		}
		r.Space(1)
		t0 := time.Now()
		c03CaseStart.Store(c03CPUNanos() + 1)
		c03RunCase(r, c)
		c03CaseStart.Store(0)
		famT[c.Fam] += time.Since(t0).Seconds()
		famN[c.Fam]++
	}

	// (i) every byte string of length 0..2 (quick) / 0..3 (thorough), as inner blob and as standard blob
	maxLen := vlib.Pick(r, 2, 3)
	for n := 0; n <= maxLen; n++ {
		total := 1 << (8 * uint(n))
		for v := 0; v < total; v++ {
			b := make([]byte, n)
			for i := 0; i < n; i++ {
				b[i] = byte(v >> (8 * uint(n-1-i)))
			}
			h := vlib.Hex(b)
			run(c03Case{Fam: "bytes", Kind: "inner", Hex: h, Level: 0})
			run(c03Case{Fam: "bytes", Kind: "std", Hex: h, Level: 0})
		}
	}

	// (ii-a) inner header lattice
	widths := []int{0, 1, 2, 3, 4, 5, 6, 7, 8, 255}
	for _, nc := range []int{0, 1, 9} {
		code := c03Template[:nc]
		var starts []int
		for _, s := range c03TemplateStarts {
			if s < nc {
				starts = append(starts, s)
			}
		}
		exactMask := make([]byte, (nc+7)/8)
		for _, s := range starts {
			exactMask[s/8] |= 1 << (uint(s) % 8)
		}
		for _, njBytes := range []int{0, 1, 9, -1} { // -1: exactly |j|*z bytes (entry value 6)
			for _, z := range widths {
				for _, jDecl := range c03LatVals(1, ^uint64(0)) {
					for _, cDecl := range c03LatVals(uint64(nc), ^uint64(0)) {
						for mv := 0; mv < 3; mv++ { // bitmask: exact for actual code | one byte short | one extra byte
							var jt []byte
							if njBytes >= 0 {
								jt = make([]byte, njBytes)
								if njBytes > 0 {
									jt[0] = 6
								}
							} else {
								tot := jDecl * uint64(z)
								if jDecl > 64 || tot > 1024 {
									continue
								}
								jt = make([]byte, tot)
								for e := uint64(0); e < jDecl && z > 0; e++ {
									jt[e*uint64(z)] = 6
								}
							}
							mask := exactMask
							switch mv {
							case 1:
								if len(mask) == 0 {
									continue
								}
								mask = mask[:len(mask)-1]
							case 2:
								mask = append(append([]byte(nil), mask...), 0xFF)
							}
							b := append([]byte(nil), c03Nat(jDecl)...)
							b = append(b, byte(z))
							b = append(b, c03Nat(cDecl)...)
							b = append(b, jt...)
							b = append(b, code...)
							b = append(b, mask...)
							run(c03Case{Fam: "inner-lat", Kind: "inner", Hex: vlib.Hex(b), Level: 0})
						}
					}
				}
			}
		}
	}

	// (ii-b) standard header lattice
	good := (&c03Asm{code: c03Template, starts: c03TemplateStarts}).blob(1, 6)
	zsL := []uint64{0, 1, 1 << 7}
	ssL := []uint64{0, 1, 1 << 7, 1 << 14, 1<<24 - 1}
	latLevel := -1
	if th {
		zsL = append(zsL, 1<<14, 65535)
		ssL = []uint64{0, 1, 1 << 7, 1 << 14, 1 << 21, 1<<24 - 1}
		latLevel = 0
	}
	for _, no := range []int{0, 1, 9} {
		for _, nw := range []int{0, 1, 9} {
			for _, cb := range [][]byte{good, good[:len(good)-1], nil} {
				for _, oDecl := range c03LatVals(uint64(no), 1<<24-1) {
					for _, wDecl := range c03LatVals(uint64(nw), 1<<24-1) {
						for _, z := range zsL {
							for _, s := range ssL {
								for _, cDecl := range c03LatVals(uint64(len(cb)), 1<<32-1) {
									o := make([]byte, no)
									w := make([]byte, nw)
									for i := range o {
										o[i] = byte(0xA0 + i)
									}
									for i := range w {
										w[i] = byte(0xB0 + i)
									}
									p := c03Std(oDecl, wDecl, z, s, cDecl, o, w, cb)
									run(c03Case{Fam: "std-lat", Kind: "std", Hex: vlib.Hex(p), Level: latLevel})
								}
							}
						}
					}
				}
			}
		}
	}

	// (iii) seeds: every prefix and every one-byte substitution
	level := vlib.Pick(r, 1, 2)
	seeds := c03Seeds()
	for _, sd := range seeds {
		run(c03Case{Fam: "seed", Kind: "inner", Hex: vlib.Hex(sd.blob), Level: 2})
		run(c03Case{Fam: "inner-pages", Hex: vlib.Hex(sd.blob)})
		for cut := 0; cut < len(sd.blob); cut++ {
			run(c03Case{Fam: "seed", Kind: "inner", Hex: vlib.Hex(sd.blob[:cut]), Level: level})
		}
		for pos := 0; pos < len(sd.blob); pos++ {
			for v := 0; v < 256; v++ {
				if byte(v) == sd.blob[pos] {
					continue
				}
				m := append([]byte(nil), sd.blob...)
				m[pos] = byte(v)
				run(c03Case{Fam: "seed", Kind: "inner", Hex: vlib.Hex(m), Level: level})
			}
		}
	}
	// standard-format seeds: the data wrapper of two seeds, every prefix and substitution
	for _, si := range []int{7, 11} { // jump-table, memory
		p := c03WrapData(seeds[si].blob)
		stdLevel := vlib.Pick(r, 0, 2)
		for cut := 0; cut <= len(p); cut++ {
			run(c03Case{Fam: "stdseed", Kind: "std", Hex: vlib.Hex(p[:cut]), Level: stdLevel})
		}
		for pos := 0; pos < len(p); pos++ {
			for v := 0; v < 256; v++ {
				if byte(v) == p[pos] {
					continue
				}
				if !th && pos == 7 && v > 4 { // z high byte: 256..64K heap pages (1 MiB..256 MiB each); quick keeps z < 1280
					continue
				}
				m := append([]byte(nil), p...)
				m[pos] = byte(v)
				lv := stdLevel
				if pos >= 6 && pos <= 10 { // z and s fields: megabytes of pages per run
					lv = 0
				}
				run(c03Case{Fam: "stdseed", Kind: "std", Hex: vlib.Hex(m), Level: lv})
			}
		}
	}
	// the bootstrap service blob
	boot := c03LoadBoot(r)
	structural := c03BootStructural(boot)
	isStruct := map[int]bool{}
	for _, p := range structural {
		isStruct[p] = true
	}
	// prefixes: every length in thorough; in quick every length up to the end of the inner header + 64,
	// every length within 64 of a field boundary, and every 64th length in between
	le3 := func(b []byte) int { return int(b[0]) | int(b[1])<<8 | int(b[2])<<16 }
	cAt := 11 + le3(boot[0:3]) + le3(boot[3:6])
	for cut := 0; cut < len(boot); cut++ {
		if !th {
			near := cut < 128 || (cut > cAt-64 && cut < cAt+128) || cut > len(boot)-64 || cut%64 == 0
			if !near {
				continue
			}
		}
		run(c03Case{Fam: "boot", Seed: "boot", Cut: cut + 1, Level: -1})
	}
	for pos := 0; pos < len(boot); pos++ {
		if !th && !isStruct[pos] {
			continue
		}
		vals := c03Nine
		if th {
			switch {
			case pos < 27 || (pos >= cAt-8 && pos < cAt+10): // the two headers: all 256 values
				vals = nil
				for v := 0; v < 256; v++ {
					vals = append(vals, v)
				}
			case isStruct[pos]:
				vals = c03Nine
			default:
				vals = []int{-1} // every other position: flip the low bit
			}
		}
		for _, v := range vals {
			if v >= 0 && byte(v) == boot[pos] {
				continue
			}
			if pos == 7 && v > 4 && !th {
				continue
			}
			run(c03Case{Fam: "boot", Seed: "boot", Pos: pos, Val: v, Level: -1})
		}
	}
	// (ii-c) jump-table headers whose |j|*z wraps uint64: DeBlobProgramCode multiplies in 64 bits, so a
	// blob can declare an astronomically large table and supply only (|j|*z mod 2^64) bytes of it. The
	// code executes a dynamic jump (jump_ind and load_imm_jump_ind) with a chosen register value.
	for _, z := range []uint64{2, 3, 5, 6, 7, 8, 9, 255} {
		q := ^uint64(0)/z + 1 // ceil(2^64/z) for z not a power of two; 2^64/z otherwise
		js := []uint64{q, q + 1, q + 2, q - 1, 1 << 63, 1<<63 + 1, ^uint64(0), ^uint64(0) - 1}
		for k := uint64(1); k <= 8; k++ { // floor((2^64+k)/z)
			quo, _ := bits.Div64(1, k, z) // (2^64 + k) / z
			js = append(js, quo)
		}
		seenJ := map[uint64]bool{}
		for _, j := range js {
			if seenJ[j] {
				continue
			}
			seenJ[j] = true
			need := j * z // wrapped product = what deblob asks for
			supplies := []uint64{need}
			if need > 4096 {
				supplies = []uint64{0, 9}
			}
			for _, sup := range supplies {
				for _, rv := range []uint32{2, 4, 0x100000, uint32(2 * j), 1<<32 - 2} {
					for form := 0; form < 2; form++ {
						a := &c03Asm{}
						if form == 0 {
							a.ins(append([]byte{51, 2}, c03Imm32(rv)...)...) // load_imm r2, rv
							a.ins(50, 2)                                     // jump_ind r2
						} else {
							a.ins(append([]byte{51, 3}, c03Imm32(rv)...)...) // load_imm r3, rv
							a.ins(180, 0x32, 1, 7)                           // load_imm_jump_ind r2 = 7, jump r3 + 0
						}
						trapAt := len(a.code)
						a.ins(0).ins(1).ins(0)
						mask := make([]byte, (len(a.code)+7)/8)
						for _, st := range a.starts {
							mask[st/8] |= 1 << (uint(st) % 8)
						}
						b := append([]byte(nil), c03Nat(j)...)
						b = append(b, byte(z))
						b = append(b, c03Nat(uint64(len(a.code)))...)
						tbl := make([]byte, sup)
						for e := uint64(0); e+z <= sup; e += z {
							tbl[e] = byte(trapAt + 1) // every complete entry points at the fallthrough after the trap
						}
						b = append(b, tbl...)
						b = append(b, a.code...)
						b = append(b, mask...)
						run(c03Case{Fam: "jt-wrap", Kind: "inner", Hex: vlib.Hex(b), Level: 0})
					}
				}
			}
		}
	}

	// allocation amplification through sbrk (one gas unit per call)
	szs := []uint64{1 << 12, 1 << 20, 1 << 26, 1 << 27}
	if th {
		szs = append(szs, 1<<28)
	}
	for _, sz := range szs {
		run(c03Case{Fam: "sbrk", Size: sz})
	}
}

// c03CPUSeconds: user+system CPU time of this shard (the machine is shared, wall time is noise).
func c03CPUSeconds() float64 {
	var ru syscall.Rusage
	if syscall.Getrusage(syscall.RUSAGE_SELF, &ru) != nil {
		return 0
	}
	return float64(ru.Utime.Sec+ru.Stime.Sec) + float64(ru.Utime.Usec+ru.Stime.Usec)/1e6
}
