package PVM

// C04 (host-call gas with a populated context) — part "hostgas" of TestVerif_C04.
// (prefix c04hg; uses the host-call context builder of hc_common_test.go)
//
// Real assembled program  `load_imm_64 ω7..ω12 ; ecalli k ; halt`  run by the real Host.HostCall
// with the accumulate omega table on a real accumulation context (built as Psi_A builds it), and
// the reported gas taken from the real R (A.41). Gas model of the C04 statement: every instruction
// 1; every host call its specified charge — 10, and 10 + l for a `transfer` that returns OK
// (DESIGN §3.5) — out of gas exactly when the remaining gas cannot pay for the next step; remaining
// gas never increases across a host call; reported used ∈ [0, limit].
//   rows:     every call of the accumulate table (general 0..5, accumulate 14..26, log 100) × two
//             register presets × limits {enough-1, enough, enough+1 for the host call; 1000};
//   transfer: receiver {existing, missing, balance too low, l below the receiver's min-memo-gas} ×
//             l ∈ {0, 1, rem-11, rem-10, rem-9, 2^31, 2^32, 2^63-1, 2^63, 2^63+rem, 2^64-1}
//             (rem = gas left when the host call starts) × limits {1000, 2^62}.

import (
	"fmt"

	"github.com/New-JAMneration/JAM-Protocol/internal/types"
	"github.com/New-JAMneration/JAM-Protocol/internal/zzverif/vlib"
)

type c04hgCase struct {
	Mode   string    `json:"mode"` // "hostgas"
	Op     int       `json:"op"`
	Regs   [6]uint64 `json:"regs"` // ω7..ω12
	Limit  int64     `json:"limit"`
	Expect string    `json:"expect,omitempty"` // transfer: result the world is built to give (ignoring gas)
	Note   string    `json:"note,omitempty"`
}

const (
	c04hgCaller  = types.ServiceID(100)
	c04hgOther   = types.ServiceID(200) // min-memo-gas 0
	c04hgPicky   = types.ServiceID(300) // min-memo-gas 2^64-1 (as uint64)
	c04hgMissing = uint64(999)
	c04hgRO      = uint64(0x10000)
	c04hgRW      = uint64(0x12000)
	c04hgPre     = int64(7) // 6 × load_imm_64 + ecalli
	c04hgBalance = uint64(1_000_000)
)

func c04hgWorld() (HostCallArgs, *Memory) {
	h1 := hcHash([]byte("c04hg-h1"))
	caller := hcAccount(0, types.OpaqueHash{1}, map[string][]byte{"k": {1}},
		map[types.LookupMetaMapkey]types.TimeSlotSet{{Hash: h1, Length: 0}: {}}, nil)
	caller.ServiceInfo.Balance = types.U64(c04hgBalance)
	other := hcAccount(5000, types.OpaqueHash{2}, nil, nil, nil)
	picky := hcAccount(5000, types.OpaqueHash{3}, nil, nil, nil)
	picky.ServiceInfo.MinMemoGas = ^types.Gas(0)
	ps := types.PartialStateSet{
		ServiceAccounts: types.ServiceAccountState{c04hgCaller: caller, c04hgOther: other, c04hgPicky: picky},
		ValidatorKeys:   make(types.ValidatorsData, 1),
		Authorizers:     types.AuthQueues{make(types.AuthQueue, 1), make(types.AuthQueue, 1)},
		Assign:          types.ServiceIDList{c04hgCaller, c04hgCaller},
		Bless:           c04hgCaller, Designate: c04hgCaller, CreateAcct: 77777,
		AlwaysAccum: types.AlwaysAccumulateMap{},
	}
	args := hcAccCtx(ps, c04hgCaller, 100, types.Entropy{4}, types.StateKeyVals{}, nil)
	mem := hcNewMem([]hcPageSpec{{uint32(c04hgRO / ZP), MemoryReadOnly, 1}, {uint32(c04hgRW / ZP), MemoryReadWrite, 2}, {uint32(c04hgRW/ZP) + 1, MemoryReadWrite, 3}})
	hcPoke(mem, c04hgRO, h1[:])
	return args, mem
}

func c04hgThreshold() uint64 {
	args, _ := c04hgWorld()
	a := args.AccumulateArgs.ResultContextX.PartialState.ServiceAccounts[c04hgCaller]
	return hcThreshold(hcBig(uint64(a.ServiceInfo.Items)), hcBig(uint64(a.ServiceInfo.Bytes)), hcBig(0)).Uint64()
}

func c04hgCheck(r *vlib.Run, c c04hgCase) {
	var a hcAsm
	for i := 0; i < 6; i++ {
		a.LoadImm64(7+i, c.Regs[i])
	}
	a.Ecalli(uint64(c.Op))
	a.Halt()
	prog, ex := DeBlobProgramCode(a.Blob())
	if ex != ExitContinue {
		r.Violation("harness", "program-does-not-deblob", "c04hg", "", c)
		return
	}
	args, mem := c04hgWorld()
	args.Program = &prog
	var regs Registers
	regs[0] = 0xFFFF0000
	h := NewHost(&prog, regs, mem, Gas(c.Limit), args, AccumulateOmegas)
	var res Psi_H_ReturnType
	var used Gas
	var outcome interface{}
	p, msg, site := vlib.Guard(func() {
		res = h.HostCall(0, 0)
		used, outcome, _ = R(types.Gas(c.Limit), res)
	})
	r.Eval()
	r.Transition()
	name := hostCallName[c.Op]
	desc := fmt.Sprintf("%s(ω7..ω12 = %#x) limit %d %s", name, c.Regs, c.Limit, c.Note)
	key := "hostgas op=" + name
	if p {
		r.Class("hostgas " + name + " go-panic")
		r.Violation(site, "go-panic", key, desc+": Go panic "+msg, c)
		return
	}
	left := int64(h.Interpreter.Gas)
	exit := res.ExitReason.GetReasonType()
	w7 := h.Interpreter.Registers[7]
	_ = outcome
	viol := func(kind, detail string) {
		r.Violation("PVM."+name, kind, key, desc+": "+detail, c)
	}
	// statement clauses that need no model
	if int64(used) < 0 || int64(used) > c.Limit {
		viol("used-outside-0..limit", fmt.Sprintf("reported used %d with limit %d", used, c.Limit))
	}
	if left > c.Limit {
		viol("gas-increased", fmt.Sprintf("remaining gas %d exceeds the limit %d", left, c.Limit))
	}
	// model
	rem := c.Limit - c04hgPre // gas left when the host call starts
	type exp struct {
		kind string // "oog" | "halt" | "panic-or-halt"
		used int64
	}
	var want exp
	charge := int64(10)
	chargeFits := true
	if name == "transfer" && c.Expect == "OK" {
		l := c.Regs[2]
		if l > uint64(1<<62) || int64(l) > rem-10 {
			chargeFits = false
		} else {
			charge = 10 + int64(l)
		}
	}
	switch {
	case rem < 0, rem < 10, !chargeFits:
		want = exp{kind: "oog"}
	case rem-charge < 1:
		want = exp{kind: "oog-or-panic"} // the host call is paid; the halt is not (a panicking call ends earlier)
	default:
		want = exp{kind: "panic-or-halt", used: c04hgPre + charge + 1}
	}
	cls := ""
	switch exit {
	case OUT_OF_GAS:
		cls = "oog"
	case HALT:
		cls = "halt"
	case PANIC:
		cls = "panic"
	default:
		cls = hcExitName(res.ExitReason)
	}
	r.Class(fmt.Sprintf("hostgas %s want=%s got=%s expect=%s", name, want.kind, cls, c.Expect))
	switch want.kind {
	case "oog":
		if exit != OUT_OF_GAS {
			viol("not-out-of-gas", fmt.Sprintf("the remaining gas %d cannot pay the charge, but the run ended with %s (ω7=%#x, gas left %d, used %d)", rem, cls, w7, left, used))
		}
	case "oog-or-panic":
		if exit != OUT_OF_GAS && exit != PANIC {
			viol("not-out-of-gas", fmt.Sprintf("after the host call no gas is left for the halt, but the run ended with %s (gas left %d)", cls, left))
		}
	case "panic-or-halt":
		switch exit {
		case HALT:
			if int64(used) != want.used {
				viol("wrong-charge", fmt.Sprintf("halted with used %d, expected %d = 7 instructions + charge %d + halt", used, want.used, charge))
			}
			if name == "transfer" && c.Expect != "" {
				got := hcErrName(w7)
				if got == "" && w7 == OK {
					got = "OK"
				}
				if got != c.Expect {
					viol("unexpected-result", fmt.Sprintf("ω7 = %#x (%s), the world is built for %s", w7, got, c.Expect))
				}
			}
		case PANIC:
			// a host call that panics is still charged: used = 7 + 10
			if int64(used) != c04hgPre+10 {
				viol("wrong-charge", fmt.Sprintf("host-call panic with used %d, expected %d", used, c04hgPre+10))
			}
		default:
			viol("unexpected-out-of-gas", fmt.Sprintf("enough gas for everything (needs %d) but the run ended with %s, used %d", want.used, cls, used))
		}
	}
	if r.WantSample() && name == "transfer" && c.Regs[2] >= 1<<31 {
		r.Sample(map[string]interface{}{"hostgas": desc, "exit": cls, "used": int64(used)})
	}
}

func c04hgCases() []c04hgCase {
	var out []c04hgCase
	ops := []int{0, 1, 2, 3, 4, 5, 14, 15, 16, 17, 18, 19, 21, 22, 23, 24, 25, 26, 100}
	presets := [][6]uint64{
		{c04hgRO, 0, c04hgRW, 0, 0, 0},
		{^uint64(0), c04hgRO, 1, c04hgRW, 0, 8},
	}
	for _, op := range ops {
		for pi, pr := range presets {
			for _, lim := range []int64{c04hgPre + 9, c04hgPre + 10, c04hgPre + 11, 1000, 0, 3} {
				out = append(out, c04hgCase{Mode: "hostgas", Op: op, Regs: pr, Limit: lim, Note: fmt.Sprintf("preset %d", pi)})
			}
		}
	}
	thr := c04hgThreshold()
	type recv struct {
		id     uint64
		amount uint64
		expect func(l uint64) string
		note   string
	}
	rs := []recv{
		{uint64(c04hgOther), 10, func(uint64) string { return "OK" }, "existing receiver"},
		{c04hgMissing, 10, func(uint64) string { return "WHO" }, "missing receiver"},
		{uint64(c04hgOther), c04hgBalance - thr + 1, func(uint64) string { return "CASH" }, "balance too low"},
		{uint64(c04hgPicky), 10, func(l uint64) string {
			if l < ^uint64(0) {
				return "LOW"
			}
			return "OK"
		}, "l below min-memo-gas"},
	}
	for _, lim := range []int64{1000, 1 << 62} {
		rem := uint64(lim - c04hgPre)
		ls := []uint64{0, 1, rem - 11, rem - 10, rem - 9, 1 << 31, 1 << 32, 1<<63 - 1, 1 << 63, 1<<63 + rem, ^uint64(0)}
		for _, rc := range rs {
			for _, l := range ls {
				out = append(out, c04hgCase{Mode: "hostgas", Op: int(TransferOp), Limit: lim, Expect: rc.expect(l),
					Regs: [6]uint64{rc.id, rc.amount, l, c04hgRO, 0, 0}, Note: rc.note})
			}
		}
	}
	// transfer with limits around "exactly enough" for l = 5
	for _, lim := range []int64{c04hgPre + 14, c04hgPre + 15, c04hgPre + 16, c04hgPre + 17} {
		out = append(out, c04hgCase{Mode: "hostgas", Op: int(TransferOp), Limit: lim, Expect: "OK",
			Regs: [6]uint64{uint64(c04hgOther), 10, 5, c04hgRO, 0, 0}, Note: "existing receiver, l=5"})
	}
	return out
}

// c04HostGasPart is called from TestVerif_C04 (after its own parts).
func c04HostGasPart(r *vlib.Run) {
	for i, c := range c04hgCases() {
		if !r.Mine(uint64(1<<42) + uint64(i)) {
			continue
		}
		r.Space(1)
		c04hgCheck(r, c)
	}
}

// c04HostGasReplay re-runs one recorded case (mode "hostgas").
func c04HostGasReplay(r *vlib.Run) {
	var c c04hgCase
	if r.IsReplay(&c) {
		c04hgCheck(r, c)
	}
}
