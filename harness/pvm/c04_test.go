package PVM

// C04 — gas metering and reported gas usage. Every program of the C01 program
// sweep that R-PVM finishes in n ≤ 12 steps is run with every gas limit
// 0..n+1 and with huge limits, (a) through Host.HostCall and (b) through Psi_M
// (standard-program wrapper; limits ≥ 2^63 only exist there). Oracle: R-PVM run
// with the same limit. Only gas clauses are judged here: a program on which the
// implementation already disagrees with R-PVM for reasons other than gas (C01's
// business) is skipped and counted.

import (
	"fmt"
	"testing"

	"github.com/New-JAMneration/JAM-Protocol/internal/types"
	"github.com/New-JAMneration/JAM-Protocol/internal/zzverif/refpvm"
	"github.com/New-JAMneration/JAM-Protocol/internal/zzverif/vlib"
)

const c04MaxSteps = 12
const c04Ample = 1000

var c04Huge = []uint64{1 << 31, 1<<62 + 1, 1<<63 - 1, 1 << 63, 1<<64 - 2, 1<<64 - 1}

type c04Case struct {
	Blob  string `json:"blob"`
	World int    `json:"world"`
	Mode  string `json:"mode"` // "prog" | "host"
	Op    int    `json:"op,omitempty"`
	Table string `json:"table,omitempty"`
}

// c04StdWorld is what SingleInitializer yields for a standard program with
// empty o, w, z = s = 0 and an empty argument: no pages at all.
func c04StdWorld() *c01World {
	regs := [13]uint64{0: 1<<32 - 1<<16, 1: 1<<32 - 2*ZZ - ZI, 7: 1<<32 - ZZ - ZI, 8: 0}
	return c01NewWorld(3, "std", regs, map[uint32]MemoryAccess{}, 2*ZZ, 1<<32-2*ZZ-ZI)
}

func c04StdBlob(code []byte) []byte {
	out := make([]byte, 0, 15+len(code))
	out = append(out, 0, 0, 0, 0, 0, 0, 0, 0, 0, 0, 0) // E3(|o|) E3(|w|) E2(z) E3(s)
	n := len(code)
	out = append(out, byte(n), byte(n>>8), byte(n>>16), byte(n>>24))
	return append(out, code...)
}

// c04CleanModuloGas: with ample gas the implementation reaches the reference's
// exit, counter, registers and memory (gas itself not compared).
func c04CleanModuloGas(prog *refpvm.Program, blob []byte, w *c01World) (clean bool, ip *Program, n int, why string) {
	// the reference must finish (not run out of gas) within c04MaxSteps steps
	pre := c01RunRef(prog, w, c04Ample, refpvm.Options{}, c04MaxSteps+1)
	if !pre.done || pre.unpinned || pre.exit.Kind == refpvm.OOG || pre.m.Steps > c04MaxSteps {
		return false, nil, 0, "long"
	}
	v := c01Judge(prog, blob, nil, w, c04Ample, false)
	if v.capped {
		return false, nil, 0, "long"
	}
	n = int(c04Ample - v.ref.m.Gas) // gas units the reference consumes (steps + 10 per unknown host call)
	if v.im.deblobPanic || !v.im.deblobOK {
		return false, nil, n, "deblob"
	}
	if v.im.runPanic {
		return false, v.ip, n, "gopanic"
	}
	if v.ok || v.kind == "gas" {
		return true, v.ip, n, ""
	}
	if v.im.kind == refpvm.OOG {
		// the reference finishes within n <= 12 units but the implementation reports
		// out-of-gas although 1000 units were supplied: that *is* a gas clause ("stops with
		// out-of-gas precisely when the remaining gas cannot pay for the next step"), not a
		// difference to leave to C01. Judged with the limits 0..n+1 only (no huge limits: the
		// implementation may really be spinning).
		return true, v.ip, n, "oog-with-ample-gas"
	}
	return false, v.ip, n, "c01-divergent"
}

// c04Judge compares one gas-limited run on the gas clauses only.
func c04Judge(prog *refpvm.Program, blob []byte, ip *Program, w *c01World, g uint64, want bool) (kind, detail string, v c01Verdict) {
	v = c01Judge(prog, blob, ip, w, g, want)
	if v.ok || v.capped {
		return "", "", v
	}
	if v.im.runPanic {
		return "go-panic", "Go panic: " + v.im.panicMsg, v
	}
	refOOG := v.ref.exit.Kind == refpvm.OOG
	imOOG := v.im.kind == refpvm.OOG
	D := func(format string, a ...interface{}) string {
		if !want {
			return ""
		}
		return fmt.Sprintf(format, a...)
	}
	switch {
	case refOOG && !imOOG:
		return "oog-missing", D("gas %d: the reference runs out of gas after %d steps (next instruction at pc %d) but the implementation exits %s with gas %d",
			g, v.ref.m.Steps, v.ref.m.PC, c01ImplExit(&v.im), v.im.gas), v
	case !refOOG && imOOG:
		return "oog-spurious", D("gas %d: out-of-gas exit (gas left %d) but the reference finishes with %s after %d steps, gas left %d",
			g, v.im.gas, v.ref.exit, v.ref.m.Steps, v.ref.m.Gas), v
	case refOOG && imOOG:
		if v.kind == "gas" {
			return "gas", D("gas %d: both out of gas but %s", g, v.detail), v
		}
		return "oog-state", D("gas %d: out-of-gas state differs from the state before the unpaid step: %s", g, v.detail), v
	case v.kind == "gas":
		return "gas", D("gas %d: %s", g, v.detail), v
	}
	return "", "", v // a non-gas difference that only shows with this limit: C01's business
}

func c04CheckProg(r *vlib.Run, blob []byte, w *c01World, std *c01World, note string) string {
	r.Eval()
	prog, err := refpvm.Deblob(blob)
	if err != nil {
		return "notprogram"
	}
	cj := func() c04Case { return c04Case{Blob: vlib.Hex(blob), World: w.id, Mode: "prog"} }
	class := ""
	// (a) Host.HostCall seam
	clean, ip, n, why := c04CleanModuloGas(prog, blob, w)
	switch {
	case why == "long":
		class = "hostcall:long"
	case !clean:
		class = "hostcall:" + why
	default:
		class = fmt.Sprintf("hostcall:n=%d", min(n, 4))
		gases := make([]uint64, 0, n+2+3)
		for g := 0; g <= n+1; g++ {
			gases = append(gases, uint64(g))
		}
		if why == "" {
			gases = append(gases, c04Huge[:3]...)
		}
		for _, g := range gases {
			r.Transition()
			kind, _, v := c04Judge(prog, blob, ip, w, g, false)
			if kind == "" {
				continue
			}
			site := c01EngineSite
			key := c01KeyOf(&v.ref, &v.im)
			if kind == "go-panic" {
				site, key = v.im.panicSite, c01PanicClass(v.im.panicMsg)
			}
			gg := g
			c04Viol(r, site, kind, key, func() string {
				_, d, _ := c04Judge(prog, blob, ip, w, gg, true)
				return fmt.Sprintf("blob %x world %s (reference: %d steps with ample gas): %s", blob, w.name, n, d)
			}, cj)
			class += " " + kind
			break
		}
	}
	// (b) Psi_M on the same code as a standard program. In that world the heap may
	// grow up to the stack (≈ 4 GiB): code containing the sbrk opcode byte is left out
	// (a mis-decoded operand could make the implementation map gigabytes)
	for _, b := range prog.Code {
		if b == 101 {
			return class + " psim:has-sbrk-byte"
		}
	}
	clean3, _, n3, why3 := c04CleanModuloGas(prog, blob, std)
	if why3 == "long" {
		return class + " psim:long"
	}
	sb := c04StdBlob(blob)
	gases := make([]uint64, 0, n3+2+6)
	for g := 0; g <= n3+1; g++ {
		gases = append(gases, uint64(g))
	}
	if clean3 && why3 == "" { // the implementation is known to stop within n3 steps: huge limits are safe
		gases = append(gases, c04Huge...)
	}
	pclass := "psim:" + why3
	if clean3 {
		pclass = fmt.Sprintf("psim:n=%d", min(n3, 4))
	}
	for _, g := range gases {
		r.Transition()
		var res Psi_M_ReturnType
		p, msg, site := c01Guard(func() { res = Psi_M(StandardCodeFormat(sb), 0, types.Gas(g), nil, c01Omegas, HostCallArgs{}) })
		big := ""
		if g >= 1<<63 {
			big = ";limit>=2^63"
		}
		gg := g
		if p {
			if clean3 { // otherwise it is the Go panic C01 already reports
				c04Viol(r, site, "go-panic", "psi_m;"+c01PanicClass(msg), func() string {
					return fmt.Sprintf("standard program %x gas %d: Psi_M Go panic %s", sb, gg, msg)
				}, cj)
				pclass += " gopanic"
			}
			break
		}
		used := uint64(res.Gas)
		if used > g {
			c04Viol(r, "Psi_M", "used>limit", "psi_m"+big, func() string {
				return fmt.Sprintf("standard program %x gas limit %d: reported gas used %d exceeds the limit", sb, gg, used)
			}, cj)
			pclass += " used>limit"
			break
		}
		if !clean3 {
			continue
		}
		imOOG := false
		if t, ok := res.ReasonOrBytes.(ExitReasonType); ok && t == OUT_OF_GAS {
			imOOG = true
		}
		judge := func(opt refpvm.Options) (string, c01Ref, bool) {
			ref := c01RunRef(prog, std, g, opt, c04MaxSteps+2)
			if !ref.done || ref.unpinned {
				return "", ref, false
			}
			refOOG := ref.exit.Kind == refpvm.OOG
			switch {
			case refOOG && !imOOG:
				return "oog-missing", ref, true
			case !refOOG && imOOG:
				return "oog-spurious", ref, true
			case used != g-ref.m.Gas:
				return "used-wrong", ref, true
			}
			return "", ref, true
		}
		kind, ref, judged := judge(refpvm.Options{})
		if !judged {
			continue
		}
		if kind != "" && ref.m.SawK0 {
			// second accepted reading for an instruction fetched where the bitmask bit is 0
			if k2, _, ok2 := judge(refpvm.Options{K0Trap: true}); ok2 && k2 == "" {
				kind = ""
			}
			ref = c01RunRef(prog, std, g, refpvm.Options{}, c04MaxSteps+2) // restore the literal run for the key
		}
		if kind == "" {
			continue
		}
		key := "psi_m" + big
		if big == "" {
			// name the instruction like the HostCall seam does (c01Culprit needs to know
			// whether the implementation ended out of gas)
			pim := c01Impl{deblobOK: true, kind: refpvm.Panic}
			if imOOG {
				pim.kind = refpvm.OOG
			}
			key = "psi_m;" + c01KeyOf(&ref, &pim)
		}
		c04Viol(r, "Psi_M", kind, key, func() string {
			return fmt.Sprintf("standard program %x gas limit %d: Psi_M reports gas used %d, result %v; the reference exits %s after %d steps with %d gas left (used %d)",
				sb, gg, used, res.ReasonOrBytes, ref.exit, ref.m.Steps, ref.m.Gas, gg-ref.m.Gas)
		}, cj)
		pclass += " " + kind
		break
	}
	return class + " " + pclass
}

var c04SeenSig = map[string]bool{}

func c04Viol(r *vlib.Run, site, kind, key string, detail func() string, c func() c04Case) {
	sig := site + "|" + kind + "|" + key
	if c04SeenSig[sig] {
		r.Violation(site, kind, key, "", nil)
		return
	}
	c04SeenSig[sig] = true
	r.Violation(site, kind, key, detail(), c())
}

// ---- host-call charge --------------------------------------------------------

type c04Table struct {
	name string
	om   Omegas
}

func c04Tables() []c04Table {
	return []c04Table{{"accumulate", AccumulateOmegas}, {"refine", RefineOmegas}, {"is_authorized", IsAuthorizedOmegas}}
}

// c04CheckHost: program "ecalli k; trap" with gas 0..22 against a real omega
// table and an empty host-call context. GP: the instruction costs 1, the host
// call 10 (also when it fails or is unknown: WHAT), out-of-gas when fewer than
// 10 remain, then the trap costs 1. Host functions that Go-panic on the empty
// context are inconclusive here (C07 drives them with a populated context).
func c04CheckHost(r *vlib.Run, tb c04Table, k int, w *c01World) string {
	r.Eval()
	blob := refpvm.Assemble(nil, 0, refpvm.I(append([]byte{10}, c04IDBytes(k)...)...), refpvm.I(0))
	idClass := c04IDClass(tb, k)
	cj := func() c04Case { return c04Case{Blob: vlib.Hex(blob), World: w.id, Mode: "host", Op: k, Table: tb.name} }
	var im c01Impl
	ip := c01Deblob(blob, &im)
	if ip == nil {
		return "host deblob-reject"
	}
	class := "host"
	for g := uint64(0); g <= 22; g++ {
		r.Transition()
		mem := w.implMem(false)
		host := NewHost(ip, Registers(w.regs), mem, Gas(g), HostCallArgs{}, tb.om)
		var res Psi_H_ReturnType
		p, _, _ := c01Guard(func() { res = host.HostCall(0, 0) })
		if p {
			return class + " inconclusive(go-panic on empty context)"
		}
		left := int64(host.Interpreter.Gas)
		exit := c01KindOf(res.ExitReason)
		// expectation
		var wantLeft int64
		wantOOG := false
		hostExit := false // the host function itself ended the run (panic / halt)
		switch {
		case g < 1:
			wantOOG, wantLeft = true, int64(g)
		case g < 11:
			wantOOG, wantLeft = true, int64(g)-1 // GP: state at a host-call OOG keeps the gas before the charge
		default:
			wantLeft = int64(g) - 11
		}
		gg := g
		key := fmt.Sprintf("table=%s;ecalli=%d", tb.name, k)
		if wantOOG {
			if exit != refpvm.OOG {
				c04Viol(r, "Host.HostCall", "oog-missing", key, func() string {
					return fmt.Sprintf("ecalli %d (%s table) with gas %d: exit %s, gas left %d; expected out-of-gas", k, tb.name, gg, exit, left)
				}, cj)
				return class + " oog-missing"
			}
			// every host call - registered here, registered for another invocation kind or
			// not at all - costs 10; when they cannot be paid the invocation's reported usage
			// (R: used = limit - max(left, 0)) is the whole limit, i.e. nothing is left over
			if left > 0 {
				c04Viol(r, "Host.HostCall", "oog-undercharged", "table="+tb.name+";id="+idClass, func() string {
					return fmt.Sprintf("ecalli %d (%s table, id class %s) with gas %d: out-of-gas exit with %d gas left over: reported usage %d instead of the limit %d (the host call's charge of 10 was not taken)",
						k, tb.name, idClass, gg, left, int64(gg)-left, gg)
				}, cj)
				return class + " oog-undercharged"
			}
			// reported usage must stay within the limit whatever the convention for the remainder
			if left > int64(g) {
				c04Viol(r, "Host.HostCall", "gas", key, func() string {
					return fmt.Sprintf("ecalli %d (%s table) with gas %d: gas left %d exceeds the limit", k, tb.name, gg, left)
				}, cj)
				return class + " gas>limit"
			}
			_ = wantLeft
			continue
		}
		if exit == refpvm.OOG {
			// the trap after the call may run out of gas only when exactly 11 were supplied
			if g == 11 {
				continue
			}
			c04Viol(r, "Host.HostCall", "oog-spurious", key, func() string {
				return fmt.Sprintf("ecalli %d (%s table) with gas %d: out-of-gas (gas left %d); expected the host call to be charged 10 and execution to go on", k, tb.name, gg, left)
			}, cj)
			return class + " oog-spurious"
		}
		// the call returned: either the host function ended the run (panic …) right
		// after the charge (left = g-11) or execution continued into the trap (g-12)
		switch left {
		case int64(g) - 11:
			hostExit = true
		case int64(g) - 12:
		default:
			c04Viol(r, "Host.HostCall", "charge", key, func() string {
				return fmt.Sprintf("ecalli %d (%s table) with gas %d: exit %s, gas left %d; expected %d (host function ends the run) or %d (continues into trap): charge must be exactly 10",
					k, tb.name, gg, exit, left, int64(gg)-11, int64(gg)-12)
			}, cj)
			return class + " charge"
		}
		if g == 22 {
			if hostExit {
				class += " host-ends"
			} else {
				class += " continues"
			}
		}
	}
	return class + " charged=10 id=" + idClass
}

// c04IDBytes encodes a host-call identifier as the shortest ecalli immediate whose
// sign extension is id (1..4 bytes, little-endian).
func c04IDBytes(id int) []byte {
	for n := 1; n <= 4; n++ {
		lo, hi := -(1 << uint(8*n-1)), 1<<uint(8*n-1)-1
		if id >= lo && id <= hi {
			out := make([]byte, n)
			for i := range out {
				out[i] = byte(id >> uint(8*i))
			}
			return out
		}
	}
	panic("c04IDBytes: id out of range")
}

// c04IDClass: registered in this table / registered for another invocation kind /
// not assigned at all (below 256) / beyond one byte / negative.
func c04IDClass(tb c04Table, id int) string {
	switch {
	case id < 0:
		return "negative"
	case id >= 256:
		return ">=256"
	case id < len(tb.om) && tb.om[id] != nil:
		return "registered"
	case id < len(HostCallFunctions) && HostCallFunctions[id] != nil:
		return "other-context"
	}
	return "unassigned<256"
}

func TestVerif_C04(t *testing.T) {
	r := vlib.Start(t, "C04")
	defer r.Finish()
	c01InitWorlds()
	std := c04StdWorld()

	var rc c04Case
	if r.IsReplay(&rc) {
		switch rc.Mode {
		case "hostgas": // part added by the host-call author (c04_hostgas_test.go)
			c04HostGasReplay(r)
		case "host":
			for _, tb := range c04Tables() {
				if tb.name == rc.Table {
					c04CheckHost(r, tb, rc.Op, c01Worlds[2])
				}
			}
		default:
			c04CheckProg(r, vlib.Unhex(rc.Blob), c01Worlds[rc.World], std, "replay")
		}
		return
	}
	var idx uint64
	run := func(blob []byte, w *c01World, gas uint64, note string) {
		class := c04CheckProg(r, blob, w, std, note)
		r.Class(class)
		if r.WantSample() && idx%100003 == 17 {
			r.Sample(map[string]interface{}{"blob": vlib.Hex(blob), "world": w.name, "class": class})
		}
	}
	c01ProgSweep(r, 3, &idx, run)
	if !r.Thorough() {
		// quick: the jump units of the single-instruction sweep (jump_ind, load_imm_jump,
		// load_imm_jump_ind with z = 2): register operands that coincide, jump-table targets
		// including the instruction's own pc ("a self loop on the first step only")
		c01UnitFilter = func(u c01OpUnit) bool { return (u.op == 50 || u.op == 180) && u.z == 2 || u.op == 80 || u.op == 40 }
		c01SingleSweepQuickLattice(r, &idx, run)
		c01UnitFilter = nil
	}
	if r.Thorough() {
		c01ProgSweep4(r, c04Sub, &idx, run)
		c01SingleSweepQuickLattice(r, &idx, run)
	}
	for _, tb := range c04Tables() {
		ks := []int{}
		for k := 0; k <= 26; k++ {
			ks = append(ks, k)
		}
		// unassigned below 256, beyond one byte (256+k must not run host call k), negative
		ks = append(ks, 100, 27, 50, 77, 99, 101, 127, 128, 200, 255, 256, 256+20, 1000, 65535, 1<<24, -1, -128)
		for _, k := range ks {
			idx++
			if !r.Mine(idx) {
				continue
			}
			r.Space(1)
			r.Class(fmt.Sprintf("%s k=%d: %s", tb.name, k, c04CheckHost(r, tb, k, c01Worlds[2])))
		}
	}
	// host calls with a populated accumulation context, incl. transfer's 10 + l (c04_hostgas_test.go)
	c04HostGasPart(r)
}

// sub-alphabet of the 4-instruction programs (thorough tier): control flow and gas relevant instances
var c04Sub = []int{0, 1, 2, 5, 6, 7, 8, 9, 10, 12, 17, 18, 20, 23}
