package PVM

// C07 — host-call register, memory and error discipline (frame oracle, DESIGN Appendix A).
//
// Part "row": every Omega function is called directly on a prepared (registers, memory, gas,
//   HostCallArgs) world; the world is deep-snapshotted before and after with the structural walker
//   of hc_common. Oracle (no functional model):
//     * no Go panic; exit ∈ {continue, panic, oog};
//     * only the row's result registers differ; on exit=panic no register differs;
//     * memory differs only inside the row's output range, and only if that whole range was
//       writable beforehand; page set / access never change; on exit=panic nothing differs;
//     * a required input range that is unreadable ⇒ exit=panic;
//     * ω7 ∈ {NONE,WHAT,OOB,WHO,FULL,CORE,CASH,LOW,HUH} ⇒ logical service/refine state deep-equal
//       (raw→parsed moves are not changes; `write` returning NONE = "no previous value" is a
//       success, not an error);
//     * success ⇒ state differs only in the row's "ctx on success" paths;
//     * a service-id register ≥ 2^32 (other than the 2^64-1 "self" sentinel where the call has one)
//       denotes no account: the outcome must equal the outcome for a missing id (twin run).
// Part "id": `ecalli id ; halt` through Host.HostCall for the three omega tables and every
//   identifier class: unknown id ⇒ ω7 = WHAT, gas -10 (+2 for the two instructions), nothing else.

import (
	"fmt"
	"math/big"
	"regexp"
	"sort"
	"strings"
	"testing"

	"github.com/New-JAMneration/JAM-Protocol/internal/types"
	"github.com/New-JAMneration/JAM-Protocol/internal/utilities/merklization"
	"github.com/New-JAMneration/JAM-Protocol/internal/zzverif/vlib"
)

type c07Case struct {
	Part   string `json:"part"` // "row" | "id"
	Row    string `json:"row,omitempty"`
	Digits []int  `json:"digits,omitempty"`
	Mem    int    `json:"mem"`
	Svc    int    `json:"svc"`
	First  string `json:"first,omitempty"`  // seq part: preset of the first call
	Second string `json:"second,omitempty"` // seq part: preset of the judged second call
	Tab    string `json:"tab,omitempty"`
	Imm    string `json:"imm,omitempty"` // hex of the ecalli immediate bytes
	Gas    int64  `json:"gas,omitempty"`
}

const (
	c07Caller  = types.ServiceID(100)
	c07Other   = types.ServiceID(200)
	c07Victim  = types.ServiceID(300)
	c07Missing = uint64(999)
	c07Slot    = types.TimeSlot(100)

	c07RO      = uint64(0x10000)
	c07RW      = uint64(0x12000)
	c07Blob    = c07RW + 0x100
	c07InvBlk  = c07RW + 0x200
	c07BlessA  = c07RW + 0x400
	c07BlessZ  = c07RW + 0x440
	c07InnerRW = uint64(0x20000)
	c07InnerRO = uint64(0x21000)
	c07GasInit = Gas(100000)
)

var (
	c07H1 = hcHash([]byte("c07-h1"))
	c07H2 = hcHash([]byte("c07-h2"))
	c07P1 = []byte("c07 preimage of the caller, fifty bytes long......")
	c07P2 = []byte("c07 other's preimage")
)

func c07InnerBlob() []byte {
	var a hcAsm
	a.LoadImm64(7, 0x1234)
	a.Trap()
	return a.Blob()
}

var c07MemNames = []string{"std", "rw|ro", "ro-only", "empty"}

func c07BuildMem(world int) *Memory {
	var pages []hcPageSpec
	switch world {
	case 0:
		pages = []hcPageSpec{{0x10, MemoryReadOnly, 1}, {0x12, MemoryReadWrite, 2}, {0x13, MemoryReadWrite, 3}, {0xFFFFF, MemoryReadWrite, 4}}
	case 1:
		pages = []hcPageSpec{{0x10, MemoryReadOnly, 1}, {0x12, MemoryReadWrite, 2}, {0x13, MemoryReadOnly, 3}}
	case 2:
		pages = []hcPageSpec{{0x10, MemoryReadOnly, 1}, {0x12, MemoryReadOnly, 2}, {0x13, MemoryReadOnly, 3}}
	case 3:
	}
	m := hcNewMem(pages)
	put := func(addr uint64, b []byte) {
		if _, ok := m.Pages[uint32(addr/ZP)]; ok {
			hcPoke(m, addr, b)
		}
	}
	put(c07RO, c07H1[:])
	put(c07RW, c07H2[:])
	put(c07Blob, c07InnerBlob())
	blk := hcLE(100, 8)
	for i := 0; i < 13; i++ {
		blk = append(blk, hcLE(uint64(0x1000+i), 8)...)
	}
	put(c07InvBlk, blk)
	put(c07BlessA, append(hcLE(uint64(c07Caller), 4), hcLE(uint64(c07Other), 4)...))
	put(c07BlessZ, append(append(hcLE(200, 4), hcLE(77, 8)...), append(hcLE(300, 4), hcLE(88, 8)...)...))
	return m
}

var c07SvcNames = []string{"solo", "pair+priv+machines", "raw+exportfull", "tight"}

type c07World struct {
	Regs Registers
	Mem  *Memory
	Gas  Gas
	Args HostCallArgs
	Reg  []hcRawEntry
}

var (
	c07RefMem = c07BuildMem(0)
	c07Prov1  = hcHash(hcPeekRaw(c07RefMem, c07RO, 1))
	c07Prov32 = hcHash(hcPeekRaw(c07RefMem, c07RO, 32))
)

var c07OuterProgram = func() *Program {
	var a hcAsm
	a.Ecalli(12)
	a.Trap()
	p, ex := DeBlobProgramCode(a.Blob())
	if ex != ExitContinue {
		panic("c07: outer program does not deblob")
	}
	return &p
}()

func c07Build(mem, svc int) *c07World {
	w := &c07World{Mem: c07BuildMem(mem), Gas: c07GasInit}
	roMem := c07RefMem // contents of the designed data, independent of the world (never written)
	k1 := string(hcPeekRaw(roMem, c07RO, 1))
	k32 := string(hcPeekRaw(roMem, c07RO, 32))
	prov1 := c07Prov1
	prov32 := c07Prov32
	storage := map[string][]byte{k1: []byte("v-1"), k32: make([]byte, 40)}
	lookups := map[types.LookupMetaMapkey]types.TimeSlotSet{
		{Hash: c07H1, Length: 50}: {5},
		{Hash: c07H1, Length: 0}:  {},
		{Hash: c07H1, Length: 1}:  {5},
		{Hash: c07H1, Length: 32}: {5, 10},
		// every slot-count state with expired / unexpired middle slot (t = 100, D = 32)
		{Hash: c07H1, Length: 7}: {1, 2, 3},
		{Hash: c07H1, Length: 8}: {1, 95, 97},
		{Hash: c07H1, Length: 9}: {5, 95},
		{Hash: prov1, Length: 1}:  {},
		{Hash: prov32, Length: 32}: {},
	}
	caller := hcAccount(0, types.OpaqueHash{0xCA}, storage, lookups, map[types.OpaqueHash][]byte{c07H1: c07P1})
	var kv types.StateKeyVals
	if svc == 2 {
		// caller's storage and lookup entries live only in the raw key-value list
		for k, v := range storage {
			e := merklization.WrapEncodeDelta2KeyVal(c07Caller, types.ByteSequence(k), types.ByteSequence(v))
			kv = append(kv, e)
			w.Reg = append(w.Reg, hcRawEntry{Key: e.Key, Service: c07Caller, Storage: true, KLen: len(k)})
		}
		for k, v := range lookups {
			e := merklization.EncodeDelta4KeyVal(c07Caller, k, v)
			kv = append(kv, e)
			w.Reg = append(w.Reg, hcRawEntry{Key: e.Key, Service: c07Caller, Z: uint32(k.Length)})
		}
		sort.Slice(kv, func(i, j int) bool { return string(kv[i].Key[:]) < string(kv[j].Key[:]) })
		caller.StorageDict = types.Storage{}
		caller.LookupDict = types.LookupMetaMapEntry{}
	}
	thr := hcThreshold(hcBig(uint64(caller.ServiceInfo.Items)), hcBig(uint64(caller.ServiceInfo.Bytes)), big.NewInt(0)).Uint64()
	caller.ServiceInfo.Balance = types.U64(thr + 1_000_000)
	if svc == 3 {
		caller.ServiceInfo.Balance = types.U64(thr)
	}
	accounts := types.ServiceAccountState{c07Caller: caller}
	ps := types.PartialStateSet{
		ServiceAccounts: accounts,
		ValidatorKeys:   make(types.ValidatorsData, 1),
		Authorizers:     types.AuthQueues{make(types.AuthQueue, 2), make(types.AuthQueue, 1)},
		Assign:          types.ServiceIDList{0, 0},
		AlwaysAccum:     types.AlwaysAccumulateMap{7: 9},
	}
	if svc >= 1 {
		other := hcAccount(50_000, types.OpaqueHash{0x07}, map[string][]byte{k1: []byte("o")},
			map[types.LookupMetaMapkey]types.TimeSlotSet{{Hash: c07H1, Length: types.U32(len(c07P2))}: {5}, {Hash: prov1, Length: 1}: {}},
			map[types.OpaqueHash][]byte{c07H1: c07P2})
		other.ServiceInfo.MinMemoGas = 5
		accounts[c07Other] = other
		var vcode types.OpaqueHash
		copy(vcode[:], hcLE(uint64(c07Caller), 32))
		victim := hcAccount(4000, vcode, nil, map[types.LookupMetaMapkey]types.TimeSlotSet{{Hash: c07H1, Length: 7}: {5, 10}}, nil)
		accounts[c07Victim] = victim
		ps.Bless, ps.Designate, ps.CreateAcct = c07Caller, c07Caller, c07Caller
		ps.Assign = types.ServiceIDList{c07Caller, c07Caller}
	}
	ops := []types.OperandOrDeferredTransfer{
		{Operand: &types.Operand{GasLimit: 5, Result: types.WorkExecResult{Type: types.WorkExecResultOk, Data: []byte{1, 2, 3}}, AuthOutput: types.ByteSequence{9}}},
		{DeferredTransfer: &types.DeferredTransfer{SenderID: 200, ReceiverID: 100, Balance: 5, GasLimit: 7}},
	}
	w.Args = hcAccCtx(ps, c07Caller, c07Slot, types.Entropy{0xE7}, kv, ops)
	if svc == 3 {
		x := &w.Args.AccumulateArgs.ResultContextX
		x.DeferredTransfers = append(x.DeferredTransfers, types.DeferredTransfer{SenderID: 100, ReceiverID: 200, Balance: 1})
		h := types.OpaqueHash{0xEE}
		x.Exception = &h
		x.ServiceBlobs[types.OpaqueHash{0xBB}] = types.ServiceBlob{ServiceID: 200, Blob: []byte{1}}
	}
	// refine side
	var seg types.ExportSegment
	for i := range seg {
		seg[i] = byte(i * 3)
	}
	wp := types.WorkPackage{
		AuthCodeHost: 100, Authorization: types.ByteSequence{1, 2}, AuthorizerConfig: types.ByteSequence{3, 4, 5},
		Items: []types.WorkItem{{Service: 100, CodeHash: c07H1, RefineGasLimit: 1000, AccumulateGasLimit: 1000, ExportCount: 1,
			Payload: types.ByteSequence("payload"), ImportSegments: []types.ImportSpec{{TreeRoot: c07H2, Index: 0}},
			Extrinsic: []types.ExtrinsicSpec{{Hash: c07H2, Len: 4}}}},
	}
	wi := uint(0)
	auth := types.ByteSequence{0xA, 0xB}
	ra := RefineArgs{
		WorkItemIndex: &wi, WorkPackage: &wp, AuthOutput: &auth,
		ImportSegments:   [][]types.ExportSegment{{seg}},
		ExtrinsicDataMap: ExtrinsicDataMap{c07H2: ExtrinsicData{1, 2, 3, 4}},
		IntegratedPVMMap: IntegratedPVMMap{},
		ExportSegment:    []types.ExportSegment{},
		TimeSlot:         c07Slot,
		Extrinsics:       [][]types.ExtrinsicSpec{{{Hash: c07H2, Len: 4}}},
	}
	if svc == 1 || svc == 3 || svc == 2 {
		// inner page pattern of machine 0:  0x20 W, 0x21 R, 0x22 ∅, 0x23 R, 0x24 W, 0x25 ∅  — so that
		// `pages` ranges meet [R,∅], [W,∅], [W,R,∅], [R,W,∅], [∅,R] and [∅,W]
		inner := hcNewMem([]hcPageSpec{{0x20, MemoryReadWrite, 9}, {0x21, MemoryReadOnly, 10}, {0x23, MemoryReadOnly, 11}, {0x24, MemoryReadWrite, 12}})
		ra.IntegratedPVMMap[0] = IntegratedPVMType{ProgramCode: ProgramCode(c07InnerBlob()), Memory: *inner, PC: 0}
	}
	if svc == 1 || svc == 3 {
		// machine 1 is whatever the real `machine` host call creates (blob at c07Blob, pc 3)
		tmp := HostCallArgs{RefineArgs: RefineArgs{IntegratedPVMMap: ra.IntegratedPVMMap}}
		var rg Registers
		rg[7], rg[8], rg[9] = c07Blob, uint64(len(c07InnerBlob())), 3
		g := Gas(100)
		out, p, _, _ := hcCall(machine, MachineOp, &rg, c07BuildMem(0), &g, &tmp, RefineOmegas)
		if p || out.ExitReason != ExitContinue || rg[7] != 1 {
			panic("c07: machine() did not create inner machine 1")
		}
	}
	if svc == 2 {
		ra.ExportSegmentOffset = types.MaxExportCount
		ra.ExportSegment = append(ra.ExportSegment, seg)
	}
	w.Args.RefineArgs = ra
	w.Args.Program = c07OuterProgram
	return w
}

// c07State: structural flat of the context with the storage/lookup dictionaries and the raw lists
// replaced by their logical (state-key indexed) union.
func c07State(w *c07World) hcFlat {
	f := hcSnap("args", w.Args, nil)
	for k := range f {
		if strings.Contains(k, ".StorageDict[") || strings.Contains(k, ".LookupDict[") || strings.Contains(k, "StorageKeyVal") {
			delete(f, k)
		}
	}
	x := w.Args.AccumulateArgs.ResultContextX
	y := w.Args.AccumulateArgs.ResultContextY
	hcLogical("X", x.PartialState.ServiceAccounts, x.StorageKeyVal, f, true)
	hcLogical("Y", y.PartialState.ServiceAccounts, y.StorageKeyVal, f, true)
	g := w.Args.GeneralArgs
	if g.ServiceAccountState != nil {
		hcLogical("G", *g.ServiceAccountState, g.StorageKeyVal, f, true)
	}
	hcRawNormalise(f, "X", w.Reg)
	hcRawNormalise(f, "Y", w.Reg)
	hcRawNormalise(f, "G", w.Reg)
	return f
}

// ---------------------------------------------------------------------------------------------
// rows
// ---------------------------------------------------------------------------------------------

type c07Axis struct {
	Reg  int
	Vals []uint64
}

type c07Row struct {
	Op    OperationType
	Name  string
	Fn    Omega
	Axes  []c07Axis
	In    func(rg *Registers) [][2]uint64 // required input ranges (start, len); unreadable ⇒ panic
	Out   func(pre, post *Registers, ok bool) (uint64, uint64)
	Res   []int
	Allow *regexp.Regexp
	AllowFn func(path string, pre *Registers) bool
	SidReg int  // register holding a service id (-1: none)
	SelfSentinel bool // 2^64-1 in SidReg means "self"
	NoneIsSuccess bool
}

const c07Max = ^uint64(0)

func c07Ptr(r *vlib.Run, extra ...uint64) []uint64 {
	q := []uint64{c07RO, 0x10FF0, 0x11000, c07RW, 0x12FF0, 0x13FF0, 0xFFFFFFF0, c07Max - 15}
	t := []uint64{0, 0xFFFF, c07RO, 0x10FE0, 0x10FF0, 0x11000, c07RW, 0x12FF0, 0x13FE0, 0x13FF0, 0xFFFFFFE0, 0xFFFFFFF0, 0xFFFFFFFF, 1 << 32, c07Max - 15, c07Max}
	return append(vlib.Pick(r, q, t), extra...)
}

func c07Sid(r *vlib.Run, self bool) []uint64 {
	v := []uint64{uint64(c07Caller), uint64(c07Other), c07Missing, 1<<32 - 1, 1<<32 + uint64(c07Other), 1<<32 + uint64(c07Caller), c07Max}
	_ = self
	return v
}

func c07AcctRe(sid types.ServiceID, fields string) string {
	return fmt.Sprintf(`^args\.(AccumulateArgs\.ResultContextX\.PartialState\.ServiceAccounts|GeneralArgs\.ServiceAccountState\*)\[%d\]\.ServiceInfo\.(%s)$|^args\.GeneralArgs\.ServiceAccount\*\.ServiceInfo\.(%s)$`, sid, fields, fields)
}

const c07KVRe = `^(X|G)\.kv\[`

func c07Re(parts ...string) *regexp.Regexp {
	if len(parts) == 0 {
		return nil
	}
	return regexp.MustCompile(strings.Join(parts, "|"))
}

func c07ValOut(ptr, off, ln int) func(pre, post *Registers, ok bool) (uint64, uint64) {
	return func(pre, post *Registers, ok bool) (uint64, uint64) {
		if !ok {
			return pre[ptr], 0
		}
		vlen := post[7]
		f := min(pre[off], vlen)
		return pre[ptr], min(pre[ln], vlen-f)
	}
}

func c07Mul(a, b uint64) uint64 {
	x := (&big.Int{}).Mul(hcBig(a), hcBig(b))
	if x.BitLen() > 64 {
		return c07Max
	}
	return x.Uint64()
}

var c07AcctPathRe = regexp.MustCompile(`^args\.(AccumulateArgs\.ResultContextX\.PartialState\.ServiceAccounts|GeneralArgs\.ServiceAccountState\*)\[(\d+)\]\.`)

func c07Rows(r *vlib.Run) []c07Row {
	P := func(extra ...uint64) []uint64 { return c07Ptr(r, extra...) }
	lenL := vlib.Pick(r, []uint64{0, 1, 32, 4097, c07Max}, []uint64{0, 1, 32, 4096, 4097, 1 << 32, 1<<32 + 1, c07Max})
	_ = lenL
	offL := vlib.Pick(r, []uint64{0, 1}, []uint64{0, 1, c07Max})
	outL := vlib.Pick(r, []uint64{0, 40, c07Max}, []uint64{0, 1, 40, c07Max})
	idxL := vlib.Pick(r, []uint64{0, 1}, []uint64{0, 1, c07Max})
	nL := []uint64{0, 1, 5, c07Max}
	innerP := []uint64{c07InnerRW, 0x20FF0, c07InnerRO, 0x21FF0, 0x22000, 0x23FF0, 0x24FF0, 1<<32 - 8, c07Max - 3}
	innerLen := []uint64{0, 1, 32, 4097, c07Max}
	blobLen := uint64(len(c07InnerBlob()))
	in32 := func(reg int) func(rg *Registers) [][2]uint64 {
		return func(rg *Registers) [][2]uint64 { return [][2]uint64{{rg[reg], 32}} }
	}
	rows := []c07Row{
		{Op: GasOp, Name: "gas", Res: []int{7}, SidReg: -1},
		{Op: FetchOp, Name: "fetch", Res: []int{7}, SidReg: -1,
			Axes: []c07Axis{{10, []uint64{0, 1, 2, 3, 4, 5, 6, 7, 8, 9, 10, 11, 12, 13, 14, 15, 16, c07Max}}, {7, P()}, {8, offL}, {9, outL}, {11, idxL}, {12, idxL}},
			Out:  c07ValOut(7, 8, 9)},
		{Op: LookupOp, Name: "lookup", Res: []int{7}, SidReg: 7, SelfSentinel: true,
			Axes: []c07Axis{{7, c07Sid(r, true)}, {8, P()}, {9, P()}, {10, offL}, {11, outL}},
			In:   in32(8), Out: c07ValOut(9, 10, 11)},
		{Op: ReadOp, Name: "read", Res: []int{7}, SidReg: 7, SelfSentinel: true,
			Axes: []c07Axis{{7, c07Sid(r, true)}, {8, P()}, {9, []uint64{0, 1, 32, c07Max}}, {10, P()}, {11, []uint64{0, 1}}, {12, outL}},
			In:   func(rg *Registers) [][2]uint64 { return [][2]uint64{{rg[8], rg[9]}} }, Out: c07ValOut(10, 11, 12)},
		{Op: WriteOp, Name: "write", Res: []int{7}, SidReg: -1, NoneIsSuccess: true,
			Axes: []c07Axis{{7, P()}, {8, []uint64{0, 1, 32, 4097, c07Max}}, {9, P()}, {10, []uint64{0, 1, 40, 4097, c07Max}}},
			In:   func(rg *Registers) [][2]uint64 { return [][2]uint64{{rg[7], rg[8]}, {rg[9], rg[10]}} },
			Allow: c07Re(c07KVRe, c07AcctRe(c07Caller, "Items|Bytes"))},
		{Op: InfoOp, Name: "info", Res: []int{7}, SidReg: 7, SelfSentinel: true,
			Axes: []c07Axis{{7, c07Sid(r, true)}, {8, P()}, {9, offL}, {10, outL}},
			Out:  c07ValOut(8, 9, 10)},
		{Op: HistoricalLookupOp, Name: "historicalLookup", Res: []int{7}, SidReg: 7, SelfSentinel: true,
			Axes: []c07Axis{{7, c07Sid(r, true)}, {8, P()}, {9, P()}, {10, offL}, {11, outL}},
			In:   in32(8), Out: c07ValOut(9, 10, 11)},
		{Op: ExportOp, Name: "export", Res: []int{7}, SidReg: -1,
			Axes:  []c07Axis{{7, P()}, {8, []uint64{0, 1, 4104, 4105, 1 << 32, c07Max}}},
			In:    func(rg *Registers) [][2]uint64 { return [][2]uint64{{rg[7], min(rg[8], uint64(types.SegmentSize))}} },
			Allow: c07Re(`^args\.RefineArgs\.ExportSegment[.\[]`)},
		{Op: MachineOp, Name: "machine", Res: []int{7}, SidReg: -1,
			Axes:  []c07Axis{{7, P(c07Blob)}, {8, []uint64{0, 1, blobLen - 1, blobLen, blobLen + 1, 4097, c07Max}}, {9, []uint64{0, 3, 1<<32 + 1}}},
			In:    func(rg *Registers) [][2]uint64 { return [][2]uint64{{rg[7], rg[8]}} },
			Allow: c07Re(`^args\.RefineArgs\.IntegratedPVMMap\[`)},
		{Op: PeekOp, Name: "peek", Res: []int{7}, SidReg: -1,
			Axes: []c07Axis{{7, nL}, {8, P()}, {9, innerP}, {10, innerLen}},
			Out: func(pre, post *Registers, ok bool) (uint64, uint64) {
				if !ok {
					return pre[8], 0
				}
				return pre[8], pre[10]
			}},
		{Op: PokeOp, Name: "poke", Res: []int{7}, SidReg: -1,
			Axes:  []c07Axis{{7, nL}, {8, P()}, {9, innerP}, {10, innerLen}},
			In:    func(rg *Registers) [][2]uint64 { return [][2]uint64{{rg[8], rg[10]}} },
			Allow: c07Re(`^args\.RefineArgs\.IntegratedPVMMap\[\d+\]\.Memory\.Pages\[\d+\]\*\.Value$`)},
		{Op: PagesOp, Name: "pages", Res: []int{7}, SidReg: -1,
			Axes:  []c07Axis{{7, nL}, {8, []uint64{0, 15, 16, 0x1F, 0x20, 0x21, 0x22, 0x23, 0x24, 0xFFFFF, 0x100000, c07Max}}, {9, []uint64{0, 1, 2, 3, 1 << 20, c07Max - 14, c07Max}}, {10, []uint64{0, 1, 2, 3, 4, 5}}},
			Allow: c07Re(`^args\.RefineArgs\.IntegratedPVMMap\[\d+\]\.Memory\.Pages\[`)},
		{Op: InvokeOp, Name: "invoke", Res: []int{7, 8}, SidReg: -1,
			Axes: []c07Axis{{7, nL}, {8, P(c07InvBlk)}},
			In:   func(rg *Registers) [][2]uint64 { return [][2]uint64{{rg[8], 112}} },
			Out: func(pre, post *Registers, ok bool) (uint64, uint64) {
				if !ok {
					return pre[8], 0
				}
				return pre[8], 112
			},
			Allow: c07Re(`^args\.RefineArgs\.IntegratedPVMMap\[\d+\]\.`)},
		{Op: ExpungeOp, Name: "expunge", Res: []int{7}, SidReg: -1,
			Axes: []c07Axis{{7, nL}}, Allow: c07Re(`^args\.RefineArgs\.IntegratedPVMMap\[`)},
		{Op: BlessOp, Name: "bless", Res: []int{7}, SidReg: -1,
			Axes: []c07Axis{{7, []uint64{1, 1 << 32}}, {8, P(c07BlessA)}, {9, []uint64{2, 1 << 32}}, {10, []uint64{3, c07Max}}, {11, P(c07BlessZ)},
				{12, []uint64{0, 1, 2, 342, c07Max/12 + 2, c07Max}}},
			In: func(rg *Registers) [][2]uint64 {
				return [][2]uint64{{rg[8], uint64(4 * types.CoresCount)}, {rg[11], c07Mul(12, rg[12])}}
			},
			Allow: c07Re(`^args\.AccumulateArgs\.ResultContextX\.PartialState\.(Bless|Assign|Designate|CreateAcct|AlwaysAccum)`)},
		{Op: AssignOp, Name: "assign", Res: []int{7}, SidReg: -1,
			Axes:  []c07Axis{{7, []uint64{0, 1, 2, 1 << 32, c07Max}}, {8, P()}, {9, []uint64{0, 100, 1 << 32, c07Max}}},
			In:    func(rg *Registers) [][2]uint64 { return [][2]uint64{{rg[8], uint64(32 * types.AuthQueueSize)}} },
			Allow: c07Re(`^args\.AccumulateArgs\.ResultContextX\.PartialState\.(Authorizers|Assign)\[`)},
		{Op: DesignateOp, Name: "designate", Res: []int{7}, SidReg: -1,
			Axes:  []c07Axis{{7, P()}},
			In:    func(rg *Registers) [][2]uint64 { return [][2]uint64{{rg[7], uint64(336 * types.ValidatorsCount)}} },
			Allow: c07Re(`^args\.AccumulateArgs\.ResultContextX\.PartialState\.ValidatorKeys`)},
		{Op: CheckpointOp, Name: "checkpoint", Res: []int{7}, SidReg: -1,
			Allow: c07Re(`^args\.AccumulateArgs\.ResultContextY\.`, `^Y\.`)},
		{Op: NewOp, Name: "new", Res: []int{7}, SidReg: -1,
			Axes: []c07Axis{{7, P()}, {8, []uint64{0, 5, 1<<32 - 1, 1 << 32, c07Max}}, {9, []uint64{1}}, {10, []uint64{2}}, {11, []uint64{0, 1}},
				{12, []uint64{0, 100, 70000, 1<<32 + 100, c07Max}}},
			In:    in32(7),
			Allow: c07Re(c07KVRe, c07AcctRe(c07Caller, "Balance"), `^args\.AccumulateArgs\.ResultContextX\.ImportServiceID$`),
			AllowFn: func(path string, pre *Registers) bool { // a fresh account may appear
				m := c07AcctPathRe.FindStringSubmatch(path)
				return m != nil && m[2] != "100" && m[2] != "200" && m[2] != "300"
			}},
		{Op: UpgradeOp, Name: "upgrade", Res: []int{7}, SidReg: -1,
			Axes:  []c07Axis{{7, P()}, {8, []uint64{0, 1 << 63, c07Max}}, {9, []uint64{0, c07Max}}},
			In:    in32(7),
			Allow: c07Re(c07AcctRe(c07Caller, "CodeHash|MinItemGas|MinMemoGas"))},
		{Op: TransferOp, Name: "transfer", Res: []int{7}, SidReg: 7,
			Axes: []c07Axis{{7, append(c07Sid(r, false), uint64(c07Victim))}, {8, []uint64{0, 1, 1_000_000, 1_000_001, c07Max}}, {9, []uint64{0, 4, 5, uint64(c07GasInit), c07Max}}, {10, P()}},
			In:    func(rg *Registers) [][2]uint64 { return [][2]uint64{{rg[10], 128}} },
			Allow: c07Re(c07AcctRe(c07Caller, "Balance"), `^args\.AccumulateArgs\.ResultContextX\.DeferredTransfers[.\[]`)},
		{Op: EjectOp, Name: "eject", Res: []int{7}, SidReg: 7,
			Axes:  []c07Axis{{7, append(c07Sid(r, false), uint64(c07Victim), 1<<32+uint64(c07Victim))}, {8, P()}},
			In:    in32(8),
			Allow: c07Re(c07KVRe, c07AcctRe(c07Caller, "Balance")),
			AllowFn: func(path string, pre *Registers) bool { // the ejected account disappears
				m := c07AcctPathRe.FindStringSubmatch(path)
				return m != nil && m[2] != "100"
			}},
		{Op: QueryOp, Name: "query", Res: []int{7, 8}, SidReg: -1,
			Axes: []c07Axis{{7, P()}, {8, []uint64{0, 1, 7, 8, 9, 32, 50, 1 << 32, 1<<32 + 1}}}, In: in32(7)},
		{Op: SolicitOp, Name: "solicit", Res: []int{7}, SidReg: -1,
			Axes: []c07Axis{{7, P()}, {8, []uint64{0, 1, 7, 8, 9, 32, 50, 1 << 32, 1<<32 + 1}}}, In: in32(7),
			Allow: c07Re(c07KVRe, c07AcctRe(c07Caller, "Items|Bytes"))},
		{Op: ForgetOp, Name: "forget", Res: []int{7}, SidReg: -1,
			Axes: []c07Axis{{7, P()}, {8, []uint64{0, 1, 7, 8, 9, 32, 50, 1 << 32, 1<<32 + 1}}}, In: in32(7),
			Allow: c07Re(c07KVRe, c07AcctRe(c07Caller, "Items|Bytes"),
				`^args\.(AccumulateArgs\.ResultContextX\.PartialState\.ServiceAccounts|GeneralArgs\.ServiceAccountState\*)\[100\]\.PreimageLookup\[`, `^args\.GeneralArgs\.ServiceAccount\*\.PreimageLookup\[`)},
		{Op: YieldOp, Name: "yield", Res: []int{7}, SidReg: -1,
			Axes: []c07Axis{{7, P()}}, In: in32(7), Allow: c07Re(`^args\.AccumulateArgs\.ResultContextX\.Exception`)},
		{Op: ProvideOp, Name: "provide", Res: []int{7}, SidReg: 7, SelfSentinel: true,
			Axes:  []c07Axis{{7, c07Sid(r, true)}, {8, P()}, {9, []uint64{0, 1, 32, 4097, c07Max}}},
			In:    func(rg *Registers) [][2]uint64 { return [][2]uint64{{rg[8], rg[9]}} },
			Allow: c07Re(`^args\.AccumulateArgs\.ResultContextX\.ServiceBlobs\[`)},
		{Op: LogOp, Name: "log", Res: nil, SidReg: -1,
			Axes: []c07Axis{{7, []uint64{0, 4, 5}}, {8, []uint64{0, c07RO, 0x11000, c07Max}}, {9, []uint64{0, 8}}, {10, P()}, {11, []uint64{0, 8, c07Max}}}},
	}
	for i := range rows {
		rows[i].Fn = HostCallFunctions[rows[i].Op]
	}
	return rows
}

// refine ops are dispatched from RefineOmegas, the rest from AccumulateOmegas (incl. wrapWithG)
func c07Omega(row *c07Row) (Omega, Omegas) {
	if row.Op >= HistoricalLookupOp && row.Op <= ExpungeOp {
		return RefineOmegas[row.Op], RefineOmegas
	}
	return AccumulateOmegas[row.Op], AccumulateOmegas
}

var c07Seen = map[string]int{}

func c07Class(r *vlib.Run, s string) {
	c07Seen[s]++
	r.Class(s)
}

type c07Outcome struct {
	Panicked bool
	Msg, Site string
	Exit  ExitReason
	Regs  Registers
	Gas   Gas
	State hcFlat
	Mem   hcMemSnap
}

func c07Exec(row *c07Row, mem, svc int, regs Registers) (*c07World, c07Outcome) {
	w := c07Build(mem, svc)
	w.Regs = regs
	om, tab := c07Omega(row)
	out, p, msg, site := hcCall(om, row.Op, &w.Regs, w.Mem, &w.Gas, &w.Args, tab)
	o := c07Outcome{Panicked: p, Msg: msg, Site: site, Exit: out.ExitReason, Regs: w.Regs, Gas: w.Gas}
	if !p {
		o.State = c07State(w)
		o.Mem = hcSnapMem(w.Mem)
	}
	return w, o
}

type c07Pre struct {
	State hcFlat
	Mem   hcMemSnap
}

var c07PreCache = map[[2]int]*c07Pre{}

func c07GetPre(mem, svc int) *c07Pre {
	k := [2]int{mem, svc}
	if p, ok := c07PreCache[k]; ok {
		return p
	}
	w := c07Build(mem, svc)
	p := &c07Pre{State: c07State(w), Mem: hcSnapMem(w.Mem)}
	c07PreCache[k] = p
	return p
}

func c07Regs(row *c07Row, digits []int) Registers {
	var rg Registers
	for i := range rg {
		rg[i] = 0x5E00000000000000 | uint64(i)
	}
	for i, ax := range row.Axes {
		rg[ax.Reg] = ax.Vals[digits[i]]
	}
	return rg
}

func c07IsErr(row *c07Row, v uint64) bool {
	if hcErrName(v) == "" {
		return false
	}
	if row.NoneIsSuccess && v == NONE {
		return false
	}
	return true
}

func c07RunRow(r *vlib.Run, row *c07Row, mem, svc int, digits []int) {
	c := c07Case{Part: "row", Row: row.Name, Digits: append([]int(nil), digits...), Mem: mem, Svc: svc}
	pre := c07GetPre(mem, svc)
	regs := c07Regs(row, digits)
	_, o := c07Exec(row, mem, svc, regs)
	c07Judge(r, row, mem, svc, regs, pre, o, c, "", true)
}

// c07Judge applies the frame oracle to one executed call: pre = snapshot before the call, o = outcome.
// after != "" names the call that was executed before it in the same context (seq part).
func c07Judge(r *vlib.Run, row *c07Row, mem, svc int, regs Registers, pre *c07Pre, o c07Outcome, c c07Case, after string, twin bool) {
	r.Eval()
	r.Transition()
	site := "PVM." + row.Name
	opk := "op=" + row.Name
	if after != "" {
		opk += " after=" + after
	}
	desc := func() string {
		s := fmt.Sprintf("%s mem=%s svc=%s", row.Name, c07MemNames[mem], c07SvcNames[svc])
		if after != "" {
			s = "[after " + after + "] " + s
		}
		for _, ax := range row.Axes {
			s += fmt.Sprintf(" w%d=%#x", ax.Reg, regs[ax.Reg])
		}
		return s
	}
	if o.Panicked {
		c07Class(r, opk+" go-panic")
		r.Violation(o.Site, "go-panic", opk, desc()+": Go panic "+o.Msg, c)
		return
	}
	exit := hcExitName(o.Exit)
	resName := hcErrName(o.Regs[7])
	isErr := o.Exit == ExitContinue && len(row.Res) > 0 && c07IsErr(row, o.Regs[7])
	cls := "ok"
	if isErr {
		cls = resName
	}
	if o.Exit != ExitContinue {
		cls = "-"
	}
	c07Class(r, fmt.Sprintf("%s exit=%s res=%s", opk, exit, cls))
	if o.Exit != ExitContinue && o.Exit != ExitPanic && o.Exit != ExitOOG {
		r.Violation(site, "bad-exit", opk, desc()+": exit "+exit, c)
	}
	// ---- registers
	isRes := map[int]bool{}
	for _, i := range row.Res {
		isRes[i] = true
	}
	for i := range regs {
		if o.Regs[i] == regs[i] {
			continue
		}
		switch {
		case o.Exit == ExitPanic:
			if i == 7 && o.Regs[7] == OOB {
				r.Violation("PVM.host-call panic path", "register-changed-on-panic", "w7:=OOB", desc()+": exit=panic but ω7 was overwritten with OOB", c)
			} else {
				r.Violation(site, "register-changed-on-panic", fmt.Sprintf("%s reg=%d", opk, i), desc()+fmt.Sprintf(": exit=panic but ω%d %#x -> %#x", i, regs[i], o.Regs[i]), c)
			}
		case o.Exit == ExitOOG:
			// the statement is silent about out-of-gas; the invocation collapses to the checkpoint
		case !isRes[i]:
			r.Violation(site, "register-changed", fmt.Sprintf("%s reg=%d", opk, i), desc()+fmt.Sprintf(": ω%d %#x -> %#x is not a result register", i, regs[i], o.Regs[i]), c)
		}
	}
	// ---- required input ranges
	unreadable := false
	if row.In != nil {
		for _, rg := range row.In(&regs) {
			if !hcRangeAccess(pre.Mem, rg[0], rg[1], MemoryReadOnly) {
				unreadable = true
			}
		}
	}
	if unreadable && o.Exit != ExitPanic && o.Exit != ExitOOG {
		r.Violation(site, "no-panic-on-unreadable-input", opk, desc()+": a required input range is unreadable but exit="+exit+" w7="+fmt.Sprintf("%#x", o.Regs[7]), c)
	}
	// ---- memory
	mc := hcDiffMem(pre.Mem, o.Mem)
	if len(mc.Structural) > 0 {
		r.Violation(site, "memory-structure-changed", opk, desc()+": "+strings.Join(mc.Structural, "; "), c)
	}
	if mc.Bytes > 0 && o.Exit != ExitOOG {
		switch {
		case o.Exit != ExitContinue:
			r.Violation(site, "memory-changed-on-"+exit, opk, desc()+fmt.Sprintf(": %d bytes changed in [%#x,%#x)", mc.Bytes, mc.Lo, mc.Hi), c)
		case row.Out == nil:
			r.Violation(site, "memory-outside-output-range", opk, desc()+fmt.Sprintf(": the call has no output range but %d bytes changed in [%#x,%#x)", mc.Bytes, mc.Lo, mc.Hi), c)
		default:
			start, l := row.Out(&regs, &o.Regs, !isErr)
			end := (&big.Int{}).Add(hcBig(start), hcBig(l))
			if mc.Lo < start || hcBig(mc.Hi).Cmp(end) > 0 {
				r.Violation(site, "memory-outside-output-range", opk, desc()+fmt.Sprintf(": bytes changed in [%#x,%#x) but the output range is [%#x,+%d)", mc.Lo, mc.Hi, start, l), c)
			} else if !hcRangeAccess(pre.Mem, start, l, MemoryReadWrite) {
				r.Violation(site, "memory-written-unwritable-range", opk, desc()+fmt.Sprintf(": wrote into [%#x,%#x) although [%#x,+%d) was not writable as a whole", mc.Lo, mc.Hi, start, l), c)
			}
		}
	}
	// ---- state
	d := hcDiff(pre.State, o.State)
	if len(d) > 0 && o.Exit != ExitOOG {
		show := func(k string) string {
			return fmt.Sprintf("%s: %s -> %s", k, hcLeafShow(pre.State, k), hcLeafShow(o.State, k))
		}
		switch {
		case o.Exit != ExitContinue:
			r.Violation(site, "state-changed-on-"+exit, opk, desc()+fmt.Sprintf(": %d leaves differ, first %s", len(d), show(d[0])), c)
		case isErr:
			r.Violation(site, "state-changed-on-error", opk+" res="+resName, desc()+fmt.Sprintf(": result %s but %d leaves differ, first %s", resName, len(d), show(d[0])), c)
		default:
			for _, k := range d {
				if row.Allow != nil && row.Allow.MatchString(k) {
					continue
				}
				if row.AllowFn != nil && row.AllowFn(k, &regs) {
					continue
				}
				r.Violation(site, "state-changed-outside-frame", opk, desc()+": "+show(k), c)
				break
			}
		}
	}
	// ---- 64-bit service ids denote no account
	if twin && row.SidReg >= 0 {
		v := regs[row.SidReg]
		if v >= 1<<32 && !(row.SelfSentinel && v == c07Max) {
			tr := regs
			tr[row.SidReg] = c07Missing
			_, t := c07Exec(row, mem, svc, tr)
			r.Transition()
			same := !t.Panicked && t.Exit == o.Exit && len(hcDiff(t.State, o.State)) == 0 && hcDiffMem(t.Mem, o.Mem).Bytes == 0
			if o.Exit == ExitContinue { // on a panic exit the registers are the (different) inputs
				for _, i := range row.Res {
					if t.Regs[i] != o.Regs[i] {
						same = false
					}
				}
			}
			if !same {
				r.Violation(site, "id-aliasing", opk+" id>=2^32", desc()+fmt.Sprintf(": service id %#x is not a 32-bit id and must behave like a missing id (exit=%s w7=%#x), but exit=%s w7=%#x, %d state leaves and %d memory bytes differ from that outcome",
					v, hcExitName(t.Exit), t.Regs[7], exit, o.Regs[7], len(hcDiff(t.State, o.State)), hcDiffMem(t.Mem, o.Mem).Bytes), c)
			}
		}
	}
	if r.WantSample() && len(d) > 0 && !isErr {
		r.Sample(map[string]interface{}{"call": desc(), "exit": exit, "w7": fmt.Sprintf("%#x", o.Regs[7]), "state_leaves_changed": len(d)})
	}
}

// ---------------------------------------------------------------------------------------------
// two-call sequences: the frame oracle applied to a second call made in the context a first call left
// ---------------------------------------------------------------------------------------------

type c07Preset struct {
	Name string
	Op   OperationType
	R    [6]uint64 // ω7..ω12
}

func c07Presets() []c07Preset {
	scratch := c07RW + 0x800
	return []c07Preset{
		{"eject(victim)", EjectOp, [6]uint64{uint64(c07Victim), c07RO}},
		{"transfer(other,10)", TransferOp, [6]uint64{uint64(c07Other), 10, 5, c07RW}},
		{"new(import id)", NewOp, [6]uint64{c07RO, 5, 1, 2, 0, 70000}},
		{"new(reserved 50)", NewOp, [6]uint64{c07RO, 5, 1, 2, 0, 50}},
		{"upgrade", UpgradeOp, [6]uint64{c07RO, 7, 3}},
		{"write(existing)", WriteOp, [6]uint64{c07RO, 1, c07RW, 1}},
		{"write(new key)", WriteOp, [6]uint64{c07RW, 4, c07RW, 8}},
		{"write(delete)", WriteOp, [6]uint64{c07RO, 1, 0, 0}},
		{"read(self)", ReadOp, [6]uint64{c07Max, c07RO, 1, scratch, 0, 100}},
		{"info(self)", InfoOp, [6]uint64{c07Max, scratch, 0, 200}},
		{"lookup(self)", LookupOp, [6]uint64{c07Max, c07RO, scratch, 0, 100}},
		{"solicit(new)", SolicitOp, [6]uint64{c07RW, 5}},
		{"solicit(2 slots)", SolicitOp, [6]uint64{c07RO, 32}},
		{"forget(empty)", ForgetOp, [6]uint64{c07RO, 0}},
		{"forget(1 slot)", ForgetOp, [6]uint64{c07RO, 1}},
		{"forget(3 slots)", ForgetOp, [6]uint64{c07RO, 7}},
		{"forget(2 slots, expired)", ForgetOp, [6]uint64{c07RO, 32}},
		{"solicit(2 slots, unexpired)", SolicitOp, [6]uint64{c07RO, 9}},
		{"query", QueryOp, [6]uint64{c07RO, 1}},
		{"yield", YieldOp, [6]uint64{c07RO}},
		{"provide(self)", ProvideOp, [6]uint64{c07Max, c07RO, 1}},
		{"checkpoint", CheckpointOp, [6]uint64{}},
		{"bless", BlessOp, [6]uint64{uint64(c07Caller), c07BlessA, uint64(c07Caller), uint64(c07Caller), c07BlessZ, 2}},
		{"assign(0)", AssignOp, [6]uint64{0, c07RW, uint64(c07Caller)}},
		{"designate", DesignateOp, [6]uint64{c07RW}},
		{"gas", GasOp, [6]uint64{}},
		{"fetch(constants)", FetchOp, [6]uint64{scratch, 0, 64, 0, 0, 0}},
	}
}

func c07PresetRegs(p c07Preset) Registers {
	var rg Registers
	for i := range rg {
		rg[i] = 0x5E00000000000000 | uint64(i)
	}
	for i := 0; i < 6; i++ {
		rg[7+i] = p.R[i]
	}
	return rg
}

func c07RowOf(rows []c07Row, op OperationType) *c07Row {
	for i := range rows {
		if rows[i].Op == op {
			return &rows[i]
		}
	}
	panic("c07: no row")
}

// c07RunSeq: first call (preset) on a fresh world, snapshot, second call (preset), frame oracle on the
// second call relative to that snapshot.
func c07RunSeq(r *vlib.Run, rows []c07Row, first, second c07Preset, svc int) {
	c := c07Case{Part: "seq", First: first.Name, Second: second.Name, Mem: 0, Svc: svc}
	w := c07Build(0, svc)
	row1 := c07RowOf(rows, first.Op)
	w.Regs = c07PresetRegs(first)
	om1, tab1 := c07Omega(row1)
	out1, p1, msg1, site1 := hcCall(om1, row1.Op, &w.Regs, w.Mem, &w.Gas, &w.Args, tab1)
	r.Transition()
	if p1 {
		r.Violation(site1, "go-panic", "op="+row1.Name, "seq first call "+first.Name+": Go panic "+msg1, c)
		return
	}
	res1 := hcErrName(w.Regs[7])
	if res1 == "" || (row1.NoneIsSuccess && w.Regs[7] == NONE) {
		res1 = "ok"
	}
	if out1.ExitReason != ExitContinue {
		res1 = hcExitName(out1.ExitReason)
	}
	firstTag := first.Name + "=" + res1
	w.Gas = c07GasInit
	pre := &c07Pre{State: c07State(w), Mem: hcSnapMem(w.Mem)}
	row2 := c07RowOf(rows, second.Op)
	regs := c07PresetRegs(second)
	w.Regs = regs
	om2, tab2 := c07Omega(row2)
	out2, p2, msg2, site2 := hcCall(om2, row2.Op, &w.Regs, w.Mem, &w.Gas, &w.Args, tab2)
	o := c07Outcome{Panicked: p2, Msg: msg2, Site: site2, Exit: out2.ExitReason, Regs: w.Regs, Gas: w.Gas}
	if !p2 {
		o.State = c07State(w)
		o.Mem = hcSnapMem(w.Mem)
	}
	c07Class(r, "seq first="+firstTag)
	c07Judge(r, row2, 0, svc, regs, pre, o, c, first.Name, false)
}

// ---------------------------------------------------------------------------------------------
// identifier classes through Host.HostCall
// ---------------------------------------------------------------------------------------------

func c07Tables() map[string]Omegas {
	return map[string]Omegas{"accumulate": AccumulateOmegas, "refine": RefineOmegas, "is_authorized": IsAuthorizedOmegas}
}

func c07ImmValue(imm []byte) uint64 {
	var x uint64
	for i, b := range imm {
		x |= uint64(b) << (8 * uint(i))
	}
	switch len(imm) {
	case 0:
		return 0
	case 1:
		return uint64(int64(int8(x)))
	case 2:
		return uint64(int64(int16(x)))
	case 3:
		return uint64(int64(x<<40) >> 40)
	}
	return uint64(int64(int32(x)))
}

func c07IdCases() [][]byte {
	var out [][]byte
	for id := 0; id <= 300; id++ {
		if id < 128 {
			out = append(out, []byte{byte(id)})
		} else {
			out = append(out, []byte{byte(id), byte(id >> 8)})
		}
	}
	defined := []int{0, 1, 2, 3, 4, 5, 6, 7, 8, 9, 10, 11, 12, 13, 14, 15, 16, 17, 18, 19, 20, 21, 22, 23, 24, 25, 26, 100}
	for _, k := range []int{2, 3, 255} {
		for _, j := range defined {
			v := 256*k + j
			out = append(out, []byte{byte(v), byte(v >> 8), byte(v >> 16)})
		}
	}
	for _, j := range defined { // 2^16 + j, 2^24 + j
		out = append(out, []byte{byte(j), 0, 1}, []byte{byte(j), 0, 0, 1})
	}
	out = append(out,
		[]byte{},                       // no immediate bytes: id 0
		[]byte{0xFF},                   // -1 -> 2^64-1
		[]byte{0x80},                   // -128
		[]byte{0xE4},                   // -28: low byte 228
		[]byte{0xFF, 0xFF, 0xFF, 0x7F}, // 2^31-1
		[]byte{0x00, 0x00, 0x00, 0x80}, // sign-extended 2^31
		[]byte{0xFF, 0xFF, 0xFF, 0xFF}, // 2^32-1 -> 2^64-1
		[]byte{0x00, 0xFF, 0xFF, 0xFF}, // low byte 0, sign-extended
		[]byte{0x64, 0xFF, 0xFF, 0xFF}, // low byte 100 (log), sign-extended
	)
	return out
}

func c07RunID(r *vlib.Run, tab string, imm []byte, gas int64) {
	c := c07Case{Part: "id", Tab: tab, Imm: vlib.Hex(imm), Gas: gas, Mem: 0, Svc: 1}
	id := c07ImmValue(imm)
	omegas := c07Tables()[tab]
	defined := id < uint64(len(omegas)) && omegas[id] != nil
	var a hcAsm
	a.EcalliRaw(imm...)
	a.Halt()
	prog, ex := DeBlobProgramCode(a.Blob())
	if ex != ExitContinue {
		r.Violation("harness", "program-does-not-deblob", "c07-id", fmt.Sprintf("imm %x", imm), c)
		return
	}
	w := c07Build(0, 1)
	w.Args.Program = &prog
	for i := range w.Regs {
		w.Regs[i] = 0x5E00000000000000 | uint64(i)
	}
	w.Regs[0] = 0xFFFF0000
	pre := c07GetPre(0, 1)
	preRegs := w.Regs
	h := NewHost(&prog, w.Regs, w.Mem, Gas(gas), w.Args, omegas)
	var res Psi_H_ReturnType
	p, msg, site := vlib.Guard(func() { res = h.HostCall(0, 0) })
	r.Eval()
	r.Transition()
	low := id & 0xFF
	lowCls := "low-byte-undefined"
	switch {
	case low < uint64(len(omegas)) && omegas[low] != nil:
		lowCls = "low-byte-defined"
	case low > 100:
		lowCls = "low-byte=101..255"
	}
	idClass := "defined"
	switch {
	case defined:
	case id <= 100:
		idClass = "undefined<=100"
	case id <= 255:
		idClass = "101..255"
	case id < 1<<32:
		idClass = "256..2^31," + lowCls
	default:
		idClass = "sign-extended(>=2^56)," + lowCls
	}
	vkey := "id=" + idClass
	switch {
	case id >= 1<<56:
		vkey = "id>=2^56"
	case !defined && lowCls == "low-byte=101..255":
		vkey = "id-low-byte=101..255"
	case id >= 256:
		vkey = "id>=256," + lowCls
	}
	desc := fmt.Sprintf("table=%s ecalli imm=%x (id %#x, class %s) gas=%d", tab, imm, id, idClass, gas)
	if p {
		c07Class(r, "id "+idClass+" go-panic")
		r.Violation(site, "go-panic", vkey, desc+": Go panic "+msg, c)
		return
	}
	exit := hcExitName(res.ExitReason)
	c07Class(r, fmt.Sprintf("id %s table=%s exit=%s", idClass, tab, exit))
	if defined {
		return // defined calls are covered by the row part
	}
	w.Regs = h.Interpreter.Registers
	w.Args = res.Addition
	w.Args.Program = c07OuterProgram
	bad := ""
	switch {
	case res.ExitReason.GetReasonType() != HALT:
		bad = "exit " + exit + " (the host call did not continue to the halt)"
	case h.Interpreter.Registers[7] != WHAT:
		bad = fmt.Sprintf("ω7 = %#x, expected WHAT", h.Interpreter.Registers[7])
	case int64(h.Interpreter.Gas) != gas-12:
		bad = fmt.Sprintf("gas %d -> %d, expected -12 (ecalli 1 + host call 10 + halt 1)", gas, h.Interpreter.Gas)
	}
	if bad == "" {
		for i := range preRegs {
			if i != 7 && h.Interpreter.Registers[i] != preRegs[i] {
				bad = fmt.Sprintf("ω%d changed", i)
			}
		}
	}
	if bad == "" {
		if mc := hcDiffMem(pre.Mem, hcSnapMem(w.Mem)); mc.Bytes > 0 || len(mc.Structural) > 0 {
			bad = "memory changed"
		} else if d := hcDiff(pre.State, c07State(w)); len(d) > 0 {
			bad = "context changed: " + d[0]
		}
	}
	if bad != "" {
		r.Violation("PVM.(*Host).HostCall", "unknown-id-not-WHAT", vkey, desc+": "+bad, c)
	}
}

// ---------------------------------------------------------------------------------------------

func c07Worlds(r *vlib.Run) (mems, svcs []int) {
	return vlib.Pick(r, []int{0, 1}, []int{0, 1, 2, 3}), []int{0, 1, 2, 3}
}

func TestVerif_C07(t *testing.T) {
	r := vlib.Start(t, "C07")
	defer r.Finish()
	rows := c07Rows(r)

	var rc c07Case
	if r.IsReplay(&rc) {
		if rc.Part == "id" {
			c07RunID(r, rc.Tab, vlib.Unhex(rc.Imm), rc.Gas)
			return
		}
		if rc.Part == "seq" {
			var f, s2 *c07Preset
			ps := c07Presets()
			for i := range ps {
				if ps[i].Name == rc.First {
					f = &ps[i]
				}
				if ps[i].Name == rc.Second {
					s2 = &ps[i]
				}
			}
			if f != nil && s2 != nil {
				c07RunSeq(r, rows, *f, *s2, rc.Svc)
			}
			return
		}
		for i := range rows {
			if rows[i].Name == rc.Row {
				c07RunRow(r, &rows[i], rc.Mem, rc.Svc, rc.Digits)
			}
		}
		return
	}

	// self-check: world construction is deterministic
	for m := 0; m < 4; m++ {
		for s := 0; s < 4; s++ {
			a, b := c07Build(m, s), c07Build(m, s)
			if hcCanon(c07State(a)) != hcCanon(c07State(b)) || len(hcDiffMem(hcSnapMem(a.Mem), hcSnapMem(b.Mem)).Structural) > 0 || hcDiffMem(hcSnapMem(a.Mem), hcSnapMem(b.Mem)).Bytes > 0 {
				r.Violation("harness", "nondeterministic-world", "c07", fmt.Sprintf("world mem=%d svc=%d differs between two builds", m, s), c07Case{Part: "row"})
				return
			}
		}
	}

	idx := uint64(0)
	mems, svcs := c07Worlds(r)
	sizes := map[string]uint64{}
	for ri := range rows {
		row := &rows[ri]
		radix := make([]int, len(row.Axes))
		for i, ax := range row.Axes {
			radix[i] = len(ax.Vals)
		}
		for _, m := range mems {
			for _, s := range svcs {
				od := vlib.NewOdometer(radix...)
				for od.Next() {
					idx++
					sizes[row.Name]++
					if !r.Mine(idx) {
						continue
					}
					r.Space(1)
					c07RunRow(r, row, m, s, od.Digit)
				}
			}
		}
	}
	names := make([]string, 0, len(sizes))
	for n := range sizes {
		names = append(names, n)
	}
	sort.Strings(names)
	sz := ""
	for _, n := range names {
		sz += fmt.Sprintf("%s=%d ", n, sizes[n])
	}
	r.Extra("row_space_sizes", sz)
	defer func() {
		ks := make([]string, 0, len(c07Seen))
		for k := range c07Seen {
			ks = append(ks, k)
		}
		sort.Strings(ks)
		for _, k := range ks {
			fmt.Printf("CLASS %s %d\n", k, c07Seen[k])
		}
	}()

	// two-call sequences: every preset followed by every preset, in the service worlds with accounts
	presets := c07Presets()
	for _, svc := range []int{1, 2, 3} {
		for _, f := range presets {
			for _, s2 := range presets {
				idx++
				if !r.Mine(idx) {
					continue
				}
				r.Space(1)
				c07RunSeq(r, rows, f, s2, svc)
			}
		}
	}

	tabs := []string{"accumulate", "is_authorized", "refine"}
	for _, tab := range tabs {
		for _, imm := range c07IdCases() {
			for _, gas := range []int64{12, 1000} {
				idx++
				if !r.Mine(idx) {
					continue
				}
				r.Space(1)
				c07RunID(r, tab, imm, gas)
			}
		}
	}
}
