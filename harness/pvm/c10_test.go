package PVM

// C10 — accumulation checkpoint and rollback.
//
// Seam: the real Psi_A on real assembled PVM programs (hcAsm: `load_imm_64` register set-up +
// `ecalli k` per event, then the ending), wrapped as a standard program and stored as the
// service's code preimage. Differential oracle (DESIGN §5 C10), on the five result components
// (partial state, deferred transfers, result hash, provided preimages, raw storage entries):
//   (1) trap / host-call panic / every out-of-gas cut  = Psi_A(e1..e_c ; halt0), e_c the last
//       checkpoint that completed before the exit, or the input state (+ incoming credit) if none;
//   (2) Psi_A(P ; halt0) = Psi_A(P without checkpoints ; halt0);
//   (3) halt with 32 readable bytes: result hash = those bytes, the rest as (2); any other output
//       length or an unreadable output: everything as (2);
//   (4) follows from (1): events after a checkpoint never show up when the run then traps.

import (
	"fmt"
	"sort"
	"strings"
	"testing"

	"github.com/New-JAMneration/JAM-Protocol/internal/types"
	"github.com/New-JAMneration/JAM-Protocol/internal/utilities/merklization"
	"github.com/New-JAMneration/JAM-Protocol/internal/zzverif/vlib"
)

type c10Case struct {
	Prog   []int  `json:"prog"`
	Ending string `json:"ending"`
	Gas    int64  `json:"gas"`
}

const (
	c10Caller = types.ServiceID(100)
	c10Other  = types.ServiceID(200)
	c10Slot   = types.TimeSlot(100)
	c10RO     = uint64(0x10000)
	// offsets inside the read-only data
	c10OffK    = 0x000 // 4-byte storage key
	c10OffV    = 0x010 // 8-byte value
	c10OffMemo = 0x040 // 128 bytes
	c10OffCode = 0x0C0 // 32
	c10OffY1   = 0x0E0
	c10OffY2   = 0x100
	c10OffBlob = 0x120 // 16-byte blob to provide
	c10OffHS   = 0x140 // hash to solicit
	c10OffH3   = 0x160 // hash of the 3-slot lookup entry
	c10OffOut  = 0x180 // 32 output bytes
	c10ROLen   = 0x1A0
	c10BigGas  = 100000
)

var c10EventNames = []string{"write", "write-delete", "transfer", "new", "yield(h1)", "yield(h2)", "provide", "solicit", "forget3", "checkpoint"}

const c10Checkpoint = 9

func c10ROData() []byte {
	ro := make([]byte, c10ROLen)
	copy(ro[c10OffK:], []byte("ckey"))
	copy(ro[c10OffV:], []byte("newvalue"))
	for i := 0; i < 128; i++ {
		ro[c10OffMemo+i] = byte(i)
	}
	h := hcHash([]byte("c10-newcode"))
	copy(ro[c10OffCode:], h[:])
	h = hcHash([]byte("c10-y1"))
	copy(ro[c10OffY1:], h[:])
	h = hcHash([]byte("c10-y2"))
	copy(ro[c10OffY2:], h[:])
	copy(ro[c10OffBlob:], []byte("blob-to-provide!"))
	h = hcHash([]byte("c10-solicit"))
	copy(ro[c10OffHS:], h[:])
	h = hcHash([]byte("c10-h3"))
	copy(ro[c10OffH3:], h[:])
	h = hcHash([]byte("c10-output"))
	copy(ro[c10OffOut:], h[:])
	return ro
}

// c10Emit appends the instructions of one event; returns nothing (gas is derived from the code).
func c10Emit(a *hcAsm, ev int) {
	set := func(reg int, v uint64) { a.LoadImm64(reg, v) }
	switch ev {
	case 0: // write(k, v)
		set(7, c10RO+c10OffK)
		set(8, 4)
		set(9, c10RO+c10OffV)
		set(10, 8)
		a.Ecalli(uint64(WriteOp))
	case 1: // write(k, ∅)  = delete
		set(7, c10RO+c10OffK)
		set(8, 4)
		set(9, 0)
		set(10, 0)
		a.Ecalli(uint64(WriteOp))
	case 2: // transfer(other, 10, gas 0, memo)
		set(7, uint64(c10Other))
		set(8, 10)
		set(9, 0)
		set(10, c10RO+c10OffMemo)
		a.Ecalli(uint64(TransferOp))
	case 3: // new(code, l=5, g=1, m=2, f=0, i=0)
		set(7, c10RO+c10OffCode)
		set(8, 5)
		set(9, 1)
		set(10, 2)
		set(11, 0)
		set(12, 0)
		a.Ecalli(uint64(NewOp))
	case 4:
		set(7, c10RO+c10OffY1)
		a.Ecalli(uint64(YieldOp))
	case 5:
		set(7, c10RO+c10OffY2)
		a.Ecalli(uint64(YieldOp))
	case 6: // provide(self, blob, 16)
		set(7, ^uint64(0))
		set(8, c10RO+c10OffBlob)
		set(9, 16)
		a.Ecalli(uint64(ProvideOp))
	case 7: // solicit(hs, 7)
		set(7, c10RO+c10OffHS)
		set(8, 7)
		a.Ecalli(uint64(SolicitOp))
	case 8: // forget(h3, 9) on a [1,2,3] entry (rewrites the slot slice in place)
		set(7, c10RO+c10OffH3)
		set(8, 9)
		a.Ecalli(uint64(ForgetOp))
	case c10Checkpoint:
		a.Ecalli(uint64(CheckpointOp))
	}
}

var c10Endings = []string{"halt0", "halt32", "halt7", "halt-unreadable", "trap", "hostcall-panic"}

type c10Built struct {
	Code []byte // service code preimage (meta ‖ standard program)
	// gas at which each event's host call has been charged (cumulative, from the entry point),
	// and the total needed to execute the final instruction of the ending
	Charged []int64
	Total   int64
}

func c10Assemble(prog []int, ending string) c10Built {
	var a hcAsm
	a.Trap() // pc 0
	a.Fallthrough()
	a.Fallthrough()
	a.Fallthrough()
	a.Fallthrough() // pc 4 ; accumulate entry = pc 5
	entry := len(a.starts)
	var b c10Built
	gasAt := func() int64 { // gas consumed once every instruction emitted so far has run
		n := int64(len(a.starts) - entry)
		return n + 10*int64(len(b.Charged))
	}
	for _, ev := range prog {
		c10Emit(&a, ev)
		b.Charged = append(b.Charged, gasAt()+10)
	}
	switch ending {
	case "halt0":
		a.LoadImm64(7, c10RO+c10OffOut)
		a.LoadImm64(8, 0)
		a.Halt()
	case "halt32":
		a.LoadImm64(7, c10RO+c10OffOut)
		a.LoadImm64(8, 32)
		a.Halt()
	case "halt7":
		a.LoadImm64(7, c10RO+c10OffOut)
		a.LoadImm64(8, 7)
		a.Halt()
	case "halt-unreadable":
		a.LoadImm64(7, 0x3000)
		a.LoadImm64(8, 32)
		a.Halt()
	case "trap":
		a.Trap()
	case "hostcall-panic":
		a.LoadImm64(7, 0x3000) // unreadable
		a.Ecalli(uint64(YieldOp))
		a.Trap()
	}
	b.Total = int64(len(a.starts)-entry) + 10*int64(len(prog))
	if ending == "hostcall-panic" {
		b.Total += 10
	}
	b.Code = hcMetaCode(hcStandardProgram(c10ROData(), nil, 0, 4096, a.Blob()))
	return b
}

type c10Input struct {
	PS  types.PartialStateSet
	KV  types.StateKeyVals
	Ops []types.OperandOrDeferredTransfer
}

func c10World(code []byte) c10Input {
	ro := c10ROData()
	var h3, blobHash types.OpaqueHash
	copy(h3[:], ro[c10OffH3:c10OffH3+32])
	blobHash = hcHash(ro[c10OffBlob : c10OffBlob+16])
	codeHash := hcHash(code)
	lookups := map[types.LookupMetaMapkey]types.TimeSlotSet{
		{Hash: h3, Length: 9}:        {1, 2, 3},
		{Hash: blobHash, Length: 16}: {},
	}
	caller := hcAccount(0, codeHash, nil, lookups, map[types.OpaqueHash][]byte{codeHash: code})
	// the storage entry "ckey" lives in the raw key-value list; the recorded counts include it
	raw := merklization.WrapEncodeDelta2KeyVal(c10Caller, types.ByteSequence("ckey"), types.ByteSequence("oldv"))
	caller.ServiceInfo.Items++
	caller.ServiceInfo.Bytes += types.U64(34 + 4 + 4)
	caller.ServiceInfo.Balance = 10_000_000
	other := hcAccount(5000, types.OpaqueHash{2}, map[string][]byte{"x": {1}}, nil, nil)
	ps := types.PartialStateSet{
		ServiceAccounts: types.ServiceAccountState{c10Caller: caller, c10Other: other},
		ValidatorKeys:   make(types.ValidatorsData, 1),
		Authorizers:     types.AuthQueues{make(types.AuthQueue, 1), make(types.AuthQueue, 1)},
		Assign:          types.ServiceIDList{0, 0},
		AlwaysAccum:     types.AlwaysAccumulateMap{3: 4},
	}
	ops := []types.OperandOrDeferredTransfer{
		{DeferredTransfer: &types.DeferredTransfer{SenderID: c10Other, ReceiverID: c10Caller, Balance: 7, GasLimit: 1}},
		{Operand: &types.Operand{GasLimit: 5, Result: types.WorkExecResult{Type: types.WorkExecResultOk, Data: []byte{1}}}},
	}
	return c10Input{PS: ps, KV: types.StateKeyVals{raw}, Ops: ops}
}

// c10Result: the five components of the statement, flattened (gas is not a component).
type c10Result struct {
	Flat     hcFlat
	Panicked bool
	Msg      string
	Site     string
}

func c10Flatten(res Psi_A_ReturnType) hcFlat {
	f := hcSnap("state", res.PartialStateSet, nil)
	hcSnap("transfers", res.DeferredTransfers, f)
	hcSnap("result", res.Result, f)
	hcSnap("raw", res.StorageKeyVal, f)
	// provided preimages: a set (C() collects them from a map in iteration order)
	blobs := make([]string, 0, len(res.ServiceBlobs))
	for _, b := range res.ServiceBlobs {
		blobs = append(blobs, fmt.Sprintf("%d:%x", b.ServiceID, []byte(b.Blob)))
	}
	sort.Strings(blobs)
	for i, b := range blobs {
		f[fmt.Sprintf("provided[%d]", i)] = b
	}
	f["provided.len"] = fmt.Sprint(len(blobs))
	// the code preimage and the code hash of the accumulating service differ between the programs
	// of one comparison (a reference run is a different program): they are not compared. No event
	// of the alphabet touches them.
	for k := range f {
		if strings.Contains(k, "ServiceAccounts[100].PreimageLookup[") || strings.HasSuffix(k, "ServiceAccounts[100].ServiceInfo.CodeHash") {
			delete(f, k)
		}
	}
	return f
}

func c10Run(prog []int, ending string, gas int64) c10Result {
	b := c10Assemble(prog, ending)
	in := c10World(b.Code)
	var res Psi_A_ReturnType
	p, msg, site := vlib.Guard(func() {
		res = Psi_A(in.PS, c10Slot, c10Caller, types.Gas(gas), in.Ops, types.Entropy{5}, in.KV)
	})
	if p {
		return c10Result{Panicked: true, Msg: msg, Site: site}
	}
	return c10Result{Flat: c10Flatten(res)}
}

// c10Initial: the input state with the incoming transfers credited — the harness' own reference
// for "never checkpointed" (not taken from a run of the implementation).
func c10Initial() hcFlat {
	in := c10World(c10Assemble(nil, "halt0").Code)
	a := in.PS.ServiceAccounts[c10Caller]
	a.ServiceInfo.Balance += 7
	in.PS.ServiceAccounts[c10Caller] = a
	return c10Flatten(Psi_A_ReturnType{PartialStateSet: in.PS, DeferredTransfers: nil, Result: nil, ServiceBlobs: nil, StorageKeyVal: in.KV})
}

var c10Memo = map[string]hcFlat{}

func c10Halt0(prog []int) (hcFlat, string) {
	key := fmt.Sprint(prog)
	if f, ok := c10Memo[key]; ok {
		return f, ""
	}
	r := c10Run(prog, "halt0", c10BigGas)
	if r.Panicked {
		return nil, "Go panic in reference run: " + r.Msg
	}
	c10Memo[key] = r.Flat
	return r.Flat, ""
}

func c10ProgString(prog []int) string {
	s := ""
	for i, e := range prog {
		if i > 0 {
			s += ";"
		}
		s += c10EventNames[e]
	}
	if s == "" {
		s = "(empty)"
	}
	return s
}

func c10DiffShow(a, b hcFlat) string {
	d := hcDiff(a, b)
	if len(d) == 0 {
		return ""
	}
	comp := map[string]bool{}
	for _, k := range d {
		c := k
		for i := 0; i < len(k); i++ {
			if k[i] == '.' || k[i] == '[' || k[i] == '*' {
				c = k[:i]
				break
			}
		}
		comp[c] = true
	}
	var cs []string
	for c := range comp {
		cs = append(cs, c)
	}
	sort.Strings(cs)
	return fmt.Sprintf("%d leaves differ in components %v; first %s: got %s, expected %s", len(d), cs, d[0], hcLeafShow(a, d[0]), hcLeafShow(b, d[0]))
}

func c10Components(a, b hcFlat) string {
	comp := map[string]bool{}
	for _, k := range hcDiff(a, b) {
		c := k
		for i := 0; i < len(k); i++ {
			if k[i] == '.' || k[i] == '[' || k[i] == '*' {
				c = k[:i]
				break
			}
		}
		comp[c] = true
	}
	var cs []string
	for c := range comp {
		cs = append(cs, c)
	}
	sort.Strings(cs)
	return fmt.Sprint(cs)
}

func c10Check(r *vlib.Run, c c10Case) {
	prog := c.Prog
	r.Eval()
	r.Transition()
	ending := c.Ending
	asmEnding := ending
	if ending == "oog" {
		asmEnding = "halt0"
	}
	b := c10Assemble(prog, asmEnding)
	got := c10Run(prog, asmEnding, c.Gas)
	desc := fmt.Sprintf("program %s ; ending %s ; gas %d", c10ProgString(prog), ending, c.Gas)
	if got.Panicked {
		r.Class("ending=" + ending + " go-panic")
		r.Violation(got.Site, "go-panic", "ending="+ending, desc+": Go panic "+got.Msg, c)
		return
	}
	r.State(hcCanon(got.Flat))
	// last checkpoint that completed
	lastCp := -1
	for i, e := range prog {
		if e != c10Checkpoint {
			continue
		}
		if ending == "oog" && b.Charged[i] > c.Gas {
			break
		}
		lastCp = i
	}
	nocp := make([]int, 0, len(prog))
	for _, e := range prog {
		if e != c10Checkpoint {
			nocp = append(nocp, e)
		}
	}
	switch ending {
	case "trap", "hostcall-panic", "oog":
		var want hcFlat
		var why string
		if lastCp < 0 {
			want = c10Initial()
			why = "the initial context (+ incoming credit)"
		} else {
			var e string
			want, e = c10Halt0(prog[:lastCp+1])
			if e != "" {
				r.Violation("PVM.Psi_A", "go-panic", "reference", desc+": "+e, c)
				return
			}
			why = fmt.Sprintf("the state at checkpoint #%d = Psi_A(%s ; halt0)", lastCp+1, c10ProgString(prog[:lastCp+1]))
		}
		cpk := "none"
		if lastCp >= 0 {
			cpk = "some"
		}
		after := len(prog) - 1 - lastCp
		r.Class(fmt.Sprintf("ending=%s checkpoint=%s events-after=%d", ending, cpk, min(after, 2)))
		if d := c10DiffShow(got.Flat, want); d != "" {
			r.Violation("PVM.Psi_A", "rollback-mismatch", fmt.Sprintf("ending=%s checkpoint=%s", ending, cpk),
				desc+": result must be "+why+"; "+d, c)
		}
	case "halt0":
		want, e := c10Halt0(nocp)
		if e != "" {
			r.Violation("PVM.Psi_A", "go-panic", "reference", desc+": "+e, c)
			return
		}
		r.Class(fmt.Sprintf("ending=halt0 checkpoints=%d", len(prog)-len(nocp)))
		if d := c10DiffShow(got.Flat, want); d != "" {
			r.Violation("PVM.Psi_A", "checkpoint-changes-halt-result", "ending=halt0 components="+c10Components(got.Flat, want),
				desc+": must equal Psi_A("+c10ProgString(nocp)+" ; halt0); "+d, c)
		}
	default: // halt32, halt7, halt-unreadable
		want, e := c10Halt0(prog)
		if e != "" {
			r.Violation("PVM.Psi_A", "go-panic", "reference", desc+": "+e, c)
			return
		}
		w2 := hcFlat{}
		for k, v := range want {
			w2[k] = v
		}
		if ending == "halt32" {
			for k := range w2 {
				if len(k) >= 6 && k[:6] == "result" {
					delete(w2, k)
				}
			}
			out := c10ROData()[c10OffOut : c10OffOut+32]
			w2["result*"] = "a:" + string(out)
		}
		yielded := false
		for _, e := range prog {
			if e == 4 || e == 5 {
				yielded = true
			}
		}
		r.Class(fmt.Sprintf("ending=%s yielded=%v", ending, yielded))
		if d := c10DiffShow(got.Flat, w2); d != "" {
			grp := ending
			if ending != "halt32" {
				grp = "halt-with-non-32-byte-output"
			}
			r.Violation("PVM.Psi_A", "halt-output-mismatch", "ending="+grp+" components="+c10Components(got.Flat, w2), desc+": "+d, c)
		}
	}
	if r.WantSample() && len(prog) >= 2 && ending == "oog" && lastCp >= 0 {
		r.Sample(map[string]interface{}{"program": c10ProgString(prog), "ending": ending, "gas": c.Gas, "rolled_back_to_checkpoint": lastCp + 1})
	}
}

func TestVerif_C10(t *testing.T) {
	r := vlib.Start(t, "C10")
	defer r.Finish()

	var rc c10Case
	if r.IsReplay(&rc) {
		c10Check(r, rc)
		return
	}
	// self-checks: the empty program halts, and its result is the harness' own initial reference
	if e := c10Run(nil, "halt0", c10BigGas); e.Panicked || c10DiffShow(e.Flat, c10Initial()) != "" {
		r.Violation("harness", "empty-program-reference", "c10", "Psi_A(empty ; halt0) differs from the input state + credit: "+e.Msg+c10DiffShow(e.Flat, c10Initial()), c10Case{Ending: "halt0", Gas: c10BigGas})
		return
	}
	if a, b := c10Run([]int{0, 9, 2}, "trap", c10BigGas), c10Run([]int{0, 9, 2}, "trap", c10BigGas); c10DiffShow(a.Flat, b.Flat) != "" {
		r.Violation("harness", "nondeterministic", "c10", "two runs of the same program differ", c10Case{})
		return
	}
	maxLen := vlib.Pick(r, 3, 4)
	idx := uint64(0)
	for n := 0; n <= maxLen; n++ {
		vlib.Sequences(len(c10EventNames), n, func(s []int) {
			idx++
			if !r.Mine(idx) {
				return
			}
			prog := append([]int(nil), s...)
			for _, e := range c10Endings {
				r.Space(1)
				c10Check(r, c10Case{Prog: prog, Ending: e, Gas: c10BigGas})
			}
			total := c10Assemble(prog, "halt0").Total
			for g := int64(0); g < total; g++ {
				r.Space(1)
				c10Check(r, c10Case{Prog: prog, Ending: "oog", Gas: g})
			}
			r.Trace()
		})
	}
}
