package PVM

// C06 — standard program initialisation layout (GP A.37–A.43, "Y").
//
// Every point of a lattice of section sizes (|o|, |w|, z, s, |a|) at and around
// page and zone boundaries, plus a lattice of malformed blobs, is given to the
// real SingleInitializer; the result is compared with an independent reference
// (c06Ref) that produces the Gray Paper memory map as a list of segments. The
// page maps are compared sparsely (only mapped pages are visited).

import (
	"bytes"
	"fmt"
	"hash/fnv"
	"runtime"
	"sort"
	"syscall"
	"testing"

	"github.com/New-JAMneration/JAM-Protocol/internal/zzverif/vlib"
)

// ---- reference (own constants; nothing shared with the code under test) ----

const (
	c06ZP = uint64(1) << 12
	c06ZZ = uint64(1) << 16
	c06ZI = uint64(1) << 24
	c06G  = uint64(1) << 32
)

func c06P(x uint64) uint64 { return (x + c06ZP - 1) / c06ZP * c06ZP }
func c06Z(x uint64) uint64 { return (x + c06ZZ - 1) / c06ZZ * c06ZZ }

type c06Seg struct {
	zone    string
	start   uint64 // page aligned
	end     uint64 // page aligned, exclusive
	write   bool
	content []byte // placed at start; zero afterwards
}

type c06Layout struct {
	ok       bool
	why      string // reason for rejection
	trailing int    // bytes after c (the GP's deserialisation has no room for them)
	code     []byte
	segs     []c06Seg
	regs     [13]uint64
	stackLo  uint64
	rwEnd    uint64
}

func c06LE(b []byte) uint64 {
	var v uint64
	for i := range b {
		v |= uint64(b[i]) << (8 * uint(i))
	}
	return v
}

// c06Ref is Y(p, a).
func c06Ref(p, a []byte) c06Layout {
	var l c06Layout
	take := func(n uint64, what string) []byte {
		if l.why != "" {
			return nil
		}
		if uint64(len(p)) < n {
			l.why = "short:" + what
			return nil
		}
		b := p[:n]
		p = p[n:]
		return b
	}
	num := func(n uint64, what string) uint64 {
		b := take(n, what)
		if b == nil {
			return 0
		}
		return c06LE(b)
	}
	oLen := num(3, "E3(|o|)")
	wLen := num(3, "E3(|w|)")
	z := num(2, "E2(z)")
	s := num(3, "E3(s)")
	o := take(oLen, "o")
	w := take(wLen, "w")
	cLen := num(4, "E4(|c|)")
	c := take(cLen, "c")
	if l.why != "" {
		return l
	}
	l.trailing = len(p)
	if 5*c06ZZ+c06Z(oLen)+c06Z(wLen+z*c06ZP)+c06Z(s)+c06ZI > c06G {
		l.why = "layout>2^32"
		return l
	}
	l.ok = true
	l.code = c
	roStart := c06ZZ
	rwStart := 2*c06ZZ + c06Z(oLen)
	rwEnd := rwStart + c06P(wLen) + z*c06ZP
	stackHi := c06G - 2*c06ZZ - c06ZI
	stackLo := stackHi - c06P(s)
	argStart := c06G - c06ZZ - c06ZI
	l.segs = []c06Seg{
		{"ro", roStart, roStart + c06P(oLen), false, o},
		{"rw", rwStart, rwEnd, true, w},
		{"stack", stackLo, stackHi, true, nil},
		{"arg", argStart, argStart + c06P(uint64(len(a))), false, a},
	}
	l.regs[0] = c06G - (1 << 16)
	l.regs[1] = stackHi
	l.regs[7] = argStart
	l.regs[8] = uint64(len(a))
	l.stackLo = stackLo
	l.rwEnd = rwEnd
	return l
}

func c06ZoneOf(addr uint64, oLen uint64) string {
	switch {
	case addr < c06ZZ:
		return "low"
	case addr < 2*c06ZZ+c06Z(oLen):
		return "ro"
	case addr < c06G-2*c06ZZ-c06ZI-c06ZI:
		return "rw"
	case addr < c06G-2*c06ZZ-c06ZI:
		return "stack"
	case addr < c06G-c06ZZ-c06ZI:
		return "gap"
	}
	return "arg"
}

// ---- pattern data -----------------------------------------------------------

var c06Pat [3][]byte // o, w, a patterns (grown on demand, never zero bytes)

// c06Mode selects the section contents: 0 = never-zero pattern; 1 = all zero; 2 = 100 data bytes then
// zeros; 3 = 100 data bytes, zeros, 100 data bytes (zeros in the middle); 4 = 4097 data bytes then zeros;
// 5 = zeros then one data byte at the very end
var c06Mode int
var c06ModeCache = map[[3]int][]byte{}

func c06Data(which int, n int) []byte {
	if c06Mode != 0 {
		k := [3]int{which, n, c06Mode}
		if b, ok := c06ModeCache[k]; ok {
			return b
		}
		m := c06Mode
		c06Mode = 0
		pat := c06Data(which, n)
		c06Mode = m
		b := make([]byte, n)
		switch m {
		case 2:
			copy(b, pat[:min(n, 100)])
		case 3:
			copy(b, pat[:min(n, 100)])
			if n > 100 {
				copy(b[n-100:], pat[n-100:])
			}
		case 4:
			copy(b, pat[:min(n, 4097)])
		case 5:
			if n > 0 {
				b[n-1] = pat[n-1]
			}
		}
		c06ModeCache[k] = b
		return b
	}
	if len(c06Pat[which]) < n {
		b := make([]byte, n)
		for i := range b {
			v := byte(i*(3+2*which)+17*which+1) ^ byte(i>>8) ^ byte(i>>16)
			if v == 0 {
				v = byte(0x40 + which)
			}
			b[i] = v
		}
		c06Pat[which] = b
	}
	return c06Pat[which][:n]
}

func c06Blob(oLen, wLen int, z, s uint64, oDecl, wDecl, cDecl int64, code []byte, tail int) []byte {
	le := func(v uint64, n int) []byte {
		b := make([]byte, n)
		for i := range b {
			b[i] = byte(v >> (8 * uint(i)))
		}
		return b
	}
	if oDecl < 0 {
		oDecl = int64(oLen)
	}
	if wDecl < 0 {
		wDecl = int64(wLen)
	}
	if cDecl < 0 {
		cDecl = int64(len(code))
	}
	out := make([]byte, 0, 15+oLen+wLen+len(code)+tail)
	out = append(out, le(uint64(oDecl), 3)...)
	out = append(out, le(uint64(wDecl), 3)...)
	out = append(out, le(z, 2)...)
	out = append(out, le(s, 3)...)
	out = append(out, c06Data(0, oLen)...)
	out = append(out, c06Data(1, wLen)...)
	out = append(out, le(uint64(cDecl), 4)...)
	out = append(out, code...)
	for i := 0; i < tail; i++ {
		out = append(out, 0xEE)
	}
	return out
}

// ---- case ---------------------------------------------------------------------

type c06Case struct {
	Fam  string `json:"fam"` // size | malformed
	O    int    `json:"o"`
	W    int    `json:"w"`
	Z    uint64 `json:"z"`
	S    uint64 `json:"s"`
	A    int    `json:"a"`
	Kind string `json:"kind,omitempty"` // malformed: prefix | odecl | wdecl | cdecl | tail
	N    int64  `json:"n,omitempty"`
	M    int    `json:"m,omitempty"` // content mode (c06Mode)
}

var c06Code = []byte{0, 0, 3, 51, 7, 0, 0x05} // tiny valid inner blob: load_imm r7; trap

func c06SizeClass(n uint64) string {
	switch {
	case n == 0:
		return "0"
	case n%c06ZZ == 0:
		return "kZ"
	case n%c06ZP == 0:
		return "kP"
	case n < c06ZP:
		return "<P"
	case n%c06ZZ < c06ZP:
		return "kZ+"
	}
	return "kP+"
}

var c06ZeroPage = make([]byte, ZP)

func c06Run(r *vlib.Run, c c06Case) {
	var blob []byte
	c06Mode = c.M
	defer func() { c06Mode = 0 }()
	switch c.Fam {
	case "size", "reentry", "zeros":
		blob = c06Blob(c.O, c.W, c.Z, c.S, -1, -1, -1, c06Code, 0)
	default:
		switch c.Kind {
		case "prefix":
			full := c06Blob(c.O, c.W, c.Z, c.S, -1, -1, -1, c06Code, 0)
			blob = full[:c.N]
		case "odecl":
			blob = c06Blob(c.O, c.W, c.Z, c.S, c.N, -1, -1, c06Code, 0)
		case "wdecl":
			blob = c06Blob(c.O, c.W, c.Z, c.S, -1, c.N, -1, c06Code, 0)
		case "cdecl":
			blob = c06Blob(c.O, c.W, c.Z, c.S, -1, -1, c.N, c06Code, 0)
		case "tail":
			blob = c06Blob(c.O, c.W, c.Z, c.S, -1, -1, -1, c06Code, int(c.N))
		}
	}
	arg := c06Data(2, c.A)
	ref := c06Ref(blob, arg)

	var code Instructions
	var regs Registers
	var mem Memory
	var er ExitReason
	if c06Pre != nil {
		c06Pre()
	}
	inBlob, inArg := append([]byte(nil), blob...), append([]byte(nil), arg...)
	pnk, msg, site := vlib.Guard(func() {
		code, regs, mem, er = SingleInitializer(inBlob, inArg)
	})
	r.Transition()
	r.Eval()
	defer func() {
		if c.Z > 1024 || c.O > 1<<20 || c.W > 1<<20 || c.A > 1<<20 {
			mem = Memory{}
			runtime.GC()
		}
	}()
	oLenDecl := uint64(0)
	if len(blob) >= 3 {
		oLenDecl = c06LE(blob[:3])
	}
	shape := fmt.Sprintf("o=%s w=%s z=%s s=%s a=%s", c06SizeClass(uint64(c.O)), c06SizeClass(uint64(c.W)), c06SizeClass(c.Z*c06ZP), c06SizeClass(c.S), c06SizeClass(uint64(c.A)))
	if c.Fam == "malformed" {
		shape = "malformed:" + c.Kind
	}
	if c.Fam == "zeros" {
		shape = fmt.Sprintf("content-mode=%d %s", c.M, shape)
	}
	shape = c06ClassPrefix + shape
	if pnk {
		r.Class(shape + " go-panic")
		r.Violation(site, "go-panic", shape, fmt.Sprintf("case %+v: %s", c, msg), c)
		return
	}
	accepted := er == ExitContinue
	switch {
	case !ref.ok && accepted:
		r.Class(shape + " ref=reject:" + ref.why + " impl=accept")
		r.Violation("SingleInitializer", "malformed-blob-accepted", ref.why, fmt.Sprintf("case %+v (blob %d bytes) accepted; reference rejects: %s", c, len(blob), ref.why), c)
		return
	case !ref.ok:
		r.Class(shape + " reject:" + ref.why)
		var zr Registers
		if regs != zr || len(mem.Pages) != 0 {
			r.Violation("SingleInitializer", "rejection-returns-state", ref.why, fmt.Sprintf("case %+v", c), c)
		}
		return
	case ref.trailing > 0:
		// GP: Y(p) is defined only when p is exactly the concatenation; the
		// statement lets an implementation reject or initialise; both accepted.
		if !accepted {
			r.Class(shape + " trailing reject")
			return
		}
		shape += " trailing-accepted"
	case !accepted:
		r.Class(shape + " ref=accept impl=reject")
		r.Violation("SingleInitializer", "wellformed-blob-rejected", shape, fmt.Sprintf("case %+v rejected (exit %v)", c, er), c)
		return
	}
	r.Class(shape + " ok")
	bad := func(kind, key, detail string) {
		r.Violation("SingleInitializer", kind, key+c06KeySuffix, fmt.Sprintf("|o|=%d |w|=%d z=%d s=%d |a|=%d: %s", c.O, c.W, c.Z, c.S, c.A, detail), c)
	}
	if !bytes.Equal(code, ref.code) {
		bad("wrong-code", "c", fmt.Sprintf("returned %d code bytes, expected %d", len(code), len(ref.code)))
	}
	for i := range regs {
		if regs[i] != ref.regs[i] {
			bad("wrong-register", fmt.Sprintf("r%d", i), fmt.Sprintf("r%d=%#x expected %#x", i, regs[i], ref.regs[i]))
		}
	}
	// expected pages, sparsely
	type exp struct {
		seg int
		off uint64
	}
	want := map[uint32]exp{}
	for si, sg := range ref.segs {
		for a := sg.start; a < sg.end; a += c06ZP {
			want[uint32(a/c06ZP)] = exp{si, a - sg.start}
		}
	}
	keys := make([]uint32, 0, len(mem.Pages))
	for k := range mem.Pages {
		keys = append(keys, k)
	}
	sort.Slice(keys, func(i, j int) bool { return keys[i] < keys[j] })
	nExtra := map[string]int{}
	firstExtra := map[string]uint32{}
	for _, k := range keys {
		p := mem.Pages[k]
		e, ok := want[k]
		if !ok {
			zn := c06ZoneOf(uint64(k)*c06ZP, oLenDecl)
			if p != nil && p.Access == MemoryInaccessible {
				continue // an inaccessible entry is the same as no entry
			}
			if nExtra[zn] == 0 {
				firstExtra[zn] = k
			}
			nExtra[zn]++
			continue
		}
		sg := ref.segs[e.seg]
		if p == nil || len(p.Value) != ZP {
			bad("malformed-page", "zone="+sg.zone, fmt.Sprintf("page %#x", k))
			continue
		}
		wantAcc := MemoryReadOnly
		if sg.write {
			wantAcc = MemoryReadWrite
		}
		if p.Access != wantAcc {
			bad("wrong-access", "zone="+sg.zone, fmt.Sprintf("page %#x access %d expected %d", k, p.Access, wantAcc))
		}
		// content
		var data []byte
		if e.off < uint64(len(sg.content)) {
			data = sg.content[e.off:]
			if len(data) > ZP {
				data = data[:ZP]
			}
		}
		if !bytes.Equal(p.Value[:len(data)], data) || !bytes.Equal(p.Value[len(data):], c06ZeroPage[len(data):]) {
			bad("wrong-content", "zone="+sg.zone, fmt.Sprintf("page %#x differs from the reference (content offset %#x)", k, e.off))
		}
	}
	zones := make([]string, 0, len(nExtra))
	for zn := range nExtra {
		zones = append(zones, zn)
	}
	sort.Strings(zones)
	for _, zn := range zones {
		bad("extra-page-mapped", "zone="+zn, fmt.Sprintf("%d page(s) mapped outside the GP map, first %#x (address %#x)", nExtra[zn], firstExtra[zn], uint64(firstExtra[zn])*c06ZP))
	}
	nMissing := map[string]int{}
	for k, e := range want {
		if p, ok := mem.Pages[k]; !ok || p == nil || p.Access == MemoryInaccessible {
			nMissing[ref.segs[e.seg].zone]++
		}
	}
	zones = zones[:0]
	for zn := range nMissing {
		zones = append(zones, zn)
	}
	sort.Strings(zones)
	for _, zn := range zones {
		bad("page-missing", "zone="+zn, fmt.Sprintf("%d page(s) of the GP map are not mapped", nMissing[zn]))
	}
	// glue to C05: the sbrk window must not reach into the stack
	if mem.heapLimit > ref.stackLo || mem.heapPointer > mem.heapLimit {
		bad("heap-window-overlaps-stack", "heap", fmt.Sprintf("pointer %#x limit %#x stack starts %#x", mem.heapPointer, mem.heapLimit, ref.stackLo))
	}
	if c06WantDigest {
		c06LastDigest = c06Digest(&mem, regs)
	}
	// ownership: the initial memory must not share storage with the blob, the argument or another
	// machine initialised from the same bytes (otherwise the next initialisation from these bytes is
	// no longer the GP map). Done for layouts of at most 600 pages (the 16 MiB stacks add nothing here).
	if len(mem.Pages) <= 600 && c.Fam != "malformed" {
		d1 := c06Digest(&mem, regs)
		var regs2, regs3 Registers
		var mem2, mem3 Memory
		var er2, er3 ExitReason
		p2, m2msg, s2 := vlib.Guard(func() { _, regs2, mem2, er2 = SingleInitializer(inBlob, inArg) })
		r.Transition()
		if p2 || er2 != ExitContinue {
			bad("second-initialisation-fails", "same-blob", fmt.Sprintf("panic=%v %s %s exit=%v", p2, m2msg, s2, er2))
			return
		}
		if c06Digest(&mem2, regs2) != d1 {
			bad("same-input-different-page-map", "second-machine", "two initialisations from the same blob differ")
			return
		}
		// a guest store into every writable page of the first machine
		for _, k := range keys {
			if p := mem.Pages[k]; p != nil && p.Access == MemoryReadWrite && len(p.Value) == ZP {
				p.Value[0] ^= 0xFF
				p.Value[ZP/2] ^= 0xFF
				p.Value[ZP-1] ^= 0xFF
			}
		}
		if !bytes.Equal(inBlob, blob) {
			i := 0
			for inBlob[i] == blob[i] {
				i++
			}
			bad("input-modified-through-initial-memory", "blob", fmt.Sprintf("a store into a writable page of the initial memory changed byte %d of the program blob", i))
		}
		if !bytes.Equal(inArg, arg) {
			bad("input-modified-through-initial-memory", "argument", "a store into a writable page of the initial memory changed the argument bytes")
		}
		if c06Digest(&mem2, regs2) != d1 {
			bad("machines-share-pages", "second-machine", "a store in one machine is visible in another machine initialised from the same blob")
		}
		p3, m3msg, s3 := vlib.Guard(func() { _, regs3, mem3, er3 = SingleInitializer(inBlob, inArg) })
		r.Transition()
		if p3 || er3 != ExitContinue {
			bad("second-initialisation-fails", "after-store", fmt.Sprintf("panic=%v %s %s exit=%v", p3, m3msg, s3, er3))
		} else if c06Digest(&mem3, regs3) != d1 {
			bad("reinitialisation-differs-from-gp-map", "after-store", "initialising again from the same blob object after a guest store gives a different page map")
		}
	}
	if r.WantSample() && c.Fam == "size" && c.O == 4097 && c.A == 1 {
		r.Sample(map[string]interface{}{"case": c, "pages": len(mem.Pages), "heap_pointer": mem.heapPointer, "heap_limit": mem.heapLimit})
	}
}

// c06Digest: digest of everything a guest can observe of an initial state (accessible pages with access
// and contents, registers, sbrk window).
func c06Digest(mem *Memory, regs Registers) uint64 {
	keys := make([]uint32, 0, len(mem.Pages))
	for k := range mem.Pages {
		keys = append(keys, k)
	}
	sort.Slice(keys, func(i, j int) bool { return keys[i] < keys[j] })
	h := fnv.New64a()
	for _, k := range keys {
		p := mem.Pages[k]
		if p == nil || p.Access == MemoryInaccessible {
			continue
		}
		fmt.Fprintf(h, "%d:%d:", k, p.Access)
		h.Write(p.Value)
	}
	fmt.Fprintf(h, "regs%v hp%d hl%d", regs, mem.heapPointer, mem.heapLimit)
	return h.Sum64()
}

// ---- re-entry: hidden process-level state between invocations -----------------------------------

var (
	c06Pre         func() // run immediately before SingleInitializer in c06Run
	c06KeySuffix   string
	c06ClassPrefix string
	c06WantDigest  bool
	c06LastDigest  uint64
)

func c06Prog(instrs ...[]byte) []byte {
	var code []byte
	var starts []int
	for _, in := range instrs {
		starts = append(starts, len(code))
		code = append(code, in...)
	}
	mask := make([]byte, (len(code)+7)/8)
	for _, st := range starts {
		mask[st/8] |= 1 << (uint(st) % 8)
	}
	out := append([]byte{0, 0, byte(len(code))}, code...)
	return append(out, mask...)
}

func c06StdBlob(o, w []byte, z, s uint64, code []byte) []byte {
	le := func(v uint64, n int) []byte {
		b := make([]byte, n)
		for i := range b {
			b[i] = byte(v >> (8 * uint(i)))
		}
		return b
	}
	out := append([]byte(nil), le(uint64(len(o)), 3)...)
	out = append(out, le(uint64(len(w)), 3)...)
	out = append(out, le(z, 2)...)
	out = append(out, le(s, 3)...)
	out = append(out, o...)
	out = append(out, w...)
	out = append(out, le(uint64(len(code)), 4)...)
	return append(out, code...)
}

var c06DirtyBlob, c06DirtyArg []byte

// c06Dirty runs one complete, unrelated invocation through Psi_M: a program whose read-only data,
// read-write data, heap page, stack pages and argument are full of 0xBB and which halts.
func c06Dirty(r *vlib.Run) {
	if c06DirtyBlob == nil {
		bb := bytes.Repeat([]byte{0xBB}, 8192)
		prog := c06Prog(
			[]byte{70, 0x11, 0xF8, 0xBB},                // store_imm_ind_u8 [r1-8] = 0xBB      (stack, last page)
			[]byte{70, 0x21, 0xF8, 0xEF, 0xBB},          // store_imm_ind_u8 [r1-4104] = 0xBB   (stack, first page)
			[]byte{30, 4, 0x00, 0x20, 0x03, 0x00, 0xBB}, // store_imm_u8 [0x32000] = 0xBB (heap page)
			[]byte{50, 0}, // jump_ind r0 -> halt, returns the argument
		)
		c06DirtyBlob = c06StdBlob(bb, bb, 1, 8192, prog)
		c06DirtyArg = bb
	}
	var res Psi_M_ReturnType
	pnk, msg, site := vlib.Guard(func() {
		res = Psi_M(append([]byte(nil), c06DirtyBlob...), 0, 1000, append([]byte(nil), c06DirtyArg...), IsAuthorizedOmegas, HostCallArgs{})
	})
	r.Transition()
	if pnk {
		r.T.Fatalf("c06: the filler invocation panicked: %s (%s)", msg, site)
	}
	if out, ok := res.ReasonOrBytes.([]byte); !ok || len(out) != 8192 || out[0] != 0xBB {
		r.T.Fatalf("c06: the filler invocation did not halt with its argument: %v", res.ReasonOrBytes)
	}
}

// c06RunReentry: the init case (a) fresh, (b) again after an unrelated complete invocation, through
// SingleInitializer; both must equal R-Y and each other; then (c) through Psi_M itself: a probe
// program returns the last (partial) page of o, w and the argument, again after an unrelated invocation.
func c06RunReentry(r *vlib.Run, c c06Case) {
	c06WantDigest = true
	c06ClassPrefix = "reentry-first "
	c06Run(r, c)
	first := c06LastDigest
	n0 := r.NViolations()
	c06Pre = func() { c06Dirty(r) }
	c06KeySuffix = ";after-earlier-invocation"
	c06ClassPrefix = "reentry-again "
	c06Run(r, c)
	again := c06LastDigest
	c06Pre, c06KeySuffix, c06ClassPrefix, c06WantDigest = nil, "", "", false
	if first != again && r.NViolations() == n0 {
		r.Violation("SingleInitializer", "same-input-different-page-map", "after-earlier-invocation",
			fmt.Sprintf("|o|=%d |w|=%d z=%d s=%d |a|=%d: page map digest %#x, after an unrelated invocation %#x", c.O, c.W, c.Z, c.S, c.A, first, again), c)
	}
	// (c) through Psi_M
	o, w, arg := c06Data(0, c.O), c06Data(1, c.W), c06Data(2, c.A)
	ref := c06Ref(c06StdBlob(o, w, c.Z, c.S, c06Code), arg)
	for _, sg := range ref.segs {
		if len(sg.content) == 0 {
			continue
		}
		off := uint64(len(sg.content)-1) / c06ZP * c06ZP
		addr := sg.start + off
		le8 := make([]byte, 8)
		for i := range le8 {
			le8[i] = byte(addr >> (8 * uint(i)))
		}
		probe := c06Prog(append([]byte{20, 7}, le8...), []byte{51, 8, 0x00, 0x10}, []byte{50, 0})
		blob := c06StdBlob(o, w, c.Z, c.S, probe)
		c06Dirty(r)
		var res Psi_M_ReturnType
		pnk, msg, site := vlib.Guard(func() {
			res = Psi_M(append([]byte(nil), blob...), 0, 100, append([]byte(nil), arg...), IsAuthorizedOmegas, HostCallArgs{})
		})
		r.Transition()
		if pnk {
			r.Violation(site, "go-panic", "reentry-probe", msg, c)
			continue
		}
		got, ok := res.ReasonOrBytes.([]byte)
		want := make([]byte, c06ZP)
		copy(want, sg.content[off:])
		r.Class(fmt.Sprintf("reentry-psi_m zone=%s readable=%v", sg.zone, ok && len(got) == int(c06ZP)))
		switch {
		case !ok || len(got) != int(c06ZP):
			r.Violation("Psi_M", "initialised-page-not-readable", "zone="+sg.zone+";after-earlier-invocation",
				fmt.Sprintf("|o|=%d |w|=%d z=%d s=%d |a|=%d: probe of page %#x returned %v", c.O, c.W, c.Z, c.S, c.A, addr, res.ReasonOrBytes), c)
		case !bytes.Equal(got, want):
			i := 0
			for got[i] == want[i] {
				i++
			}
			r.Violation("Psi_M", "wrong-content", "zone="+sg.zone+";after-earlier-invocation",
				fmt.Sprintf("|o|=%d |w|=%d z=%d s=%d |a|=%d: guest-visible byte %#x = %#02x, GP map has %#02x (after an unrelated complete invocation)", c.O, c.W, c.Z, c.S, c.A, addr+uint64(i), got[i], want[i]), c)
		}
	}
}

func TestVerif_C06(t *testing.T) {
	r := vlib.Start(t, "C06")
	defer r.Finish()
	defer func() { r.Extra("sum_cpu_s", c06CPUSeconds()) }()
	pvmLogger.Disable()

	var rc c06Case
	if r.IsReplay(&rc) {
		if rc.Fam == "reentry" {
			c06RunReentry(r, rc)
		} else {
			c06Run(r, rc)
		}
		return
	}
	th := r.Thorough()
	ow := []int{0, 1, 4095, 4096, 4097, 65535, 65536, 65537}
	zs := []uint64{0, 1, 15, 16}
	ss := []uint64{0, 1, 4095, 4096, 4097, 65536, 1<<24 - 4096, 1<<24 - 1}
	as := []int{0, 1, 4095, 4096, 4097}
	if th {
		ow = append(ow, 1<<24-1)
		zs = append(zs, 65535)
		as = append(as, 8192, 1<<23, 1<<24-4096, 1<<24-1, 1<<24)
	}
	idx := uint64(0)
	// malformed lattice around three base shapes
	bases := [][2]int{{0, 0}, {5, 4}, {4097, 1}}
	for _, b := range bases {
		o, w := b[0], b[1]
		full := len(c06Blob(o, w, 1, 32, -1, -1, -1, c06Code, 0))
		var cs []c06Case
		for n := 0; n < full; n++ { // every proper prefix
			if n > 40 && n < full-12 && n != 11+o && n != 11+o+w {
				continue
			}
			cs = append(cs, c06Case{Fam: "malformed", O: o, W: w, Z: 1, S: 32, A: 3, Kind: "prefix", N: int64(n)})
		}
		for _, d := range []int64{1, 2, 255, 1<<24 - 1 - int64(o)} {
			cs = append(cs, c06Case{Fam: "malformed", O: o, W: w, Z: 1, S: 32, A: 3, Kind: "odecl", N: int64(o) + d})
		}
		for _, d := range []int64{1, 2, 255, 1<<24 - 1 - int64(w)} {
			cs = append(cs, c06Case{Fam: "malformed", O: o, W: w, Z: 1, S: 32, A: 3, Kind: "wdecl", N: int64(w) + d})
		}
		for _, n := range []int64{int64(len(c06Code)) + 1, int64(len(c06Code)) + 2, 1 << 16, 1<<31 - 1, 1 << 31, 1<<32 - 1} {
			cs = append(cs, c06Case{Fam: "malformed", O: o, W: w, Z: 1, S: 32, A: 3, Kind: "cdecl", N: n})
		}
		// declared lengths smaller than the data: the remainder becomes trailing bytes or shifts fields
		if o > 0 {
			cs = append(cs, c06Case{Fam: "malformed", O: o, W: w, Z: 1, S: 32, A: 3, Kind: "odecl", N: int64(o) - 1})
		}
		cs = append(cs, c06Case{Fam: "malformed", O: o, W: w, Z: 1, S: 32, A: 3, Kind: "cdecl", N: int64(len(c06Code)) - 1})
		for _, n := range []int64{1, 16} {
			cs = append(cs, c06Case{Fam: "malformed", O: o, W: w, Z: 1, S: 32, A: 3, Kind: "tail", N: n})
		}
		for _, c := range cs {
			idx++
			if !r.Mine(idx) {
				continue
			}
			r.Space(1)
			c06Run(r, c)
		}
	}
	// zero-content lattice: sections that are all zero, end in 1..3 whole pages of zeros, or have
	// whole zero pages in the middle (contents are data: a zero byte is as good as any other)
	for m := 1; m <= 5; m++ {
		for _, o := range []int{4096, 4097, 8192, 12289, 16389} {
			for _, w := range []int{4096, 4097, 8192, 12289, 16389} {
				for _, a := range []int{4096, 4097, 8192, 12289, 16389} {
					idx++
					if !r.Mine(idx) {
						continue
					}
					r.Space(1)
					c06Run(r, c06Case{Fam: "zeros", O: o, W: w, Z: 1, S: 4096, A: a, M: m})
				}
			}
		}
	}
	// re-entry lattice: every zone with a partial last page, run after an unrelated invocation
	for _, o := range []int{1, 4095, 4097} {
		for _, w := range []int{1, 4095, 4097} {
			for _, a := range []int{1, 4095, 4097} {
				for _, z := range []uint64{0, 1} {
					for _, s := range []uint64{0, 4096} {
						idx++
						if !r.Mine(idx) {
							continue
						}
						r.Space(1)
						c06RunReentry(r, c06Case{Fam: "reentry", O: o, W: w, Z: z, S: s, A: a})
					}
				}
			}
		}
	}
	// size lattice
	for _, o := range ow {
		for _, w := range ow {
			for _, z := range zs {
				for _, s := range ss {
					for _, a := range as {
						if z == 65535 && !((s == 0 || s == 4097 || s == 1<<24-1) && (a == 0 || a == 1 || a == 4097) &&
							(o == 0 || o == 1 || o == 65537) && (w == 0 || w == 1 || w == 65537)) {
							continue // 256 MiB layouts: reduced s/|a| sub-lattice (the zones are independent)
						}
						idx++
						if !r.Mine(idx) {
							continue
						}
						r.Space(1)
						c06Run(r, c06Case{Fam: "size", O: o, W: w, Z: z, S: s, A: a})
					}
				}
			}
		}
	}
}

// c06CPUSeconds: user+system CPU time of this shard (the machine is shared, wall time is noise).
func c06CPUSeconds() float64 {
	var ru syscall.Rusage
	if syscall.Getrusage(syscall.RUSAGE_SELF, &ru) != nil {
		return 0
	}
	return float64(ru.Utime.Sec+ru.Stime.Sec) + float64(ru.Utime.Usec+ru.Stime.Usec)/1e6
}
