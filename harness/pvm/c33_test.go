package PVM

// C33 — inner PVM machines during refinement.
//
// Explicit-state search over histories of {machine, pages, poke, peek, invoke, expunge} with small
// arguments, driven through the real refine Omegas. Successor = rebuild from scratch + one event.
// Oracle: a one-step model of the machine table written from the Gray Paper (B.? refine host
// calls): the real pre-state is abstracted to a model state (machine table: program blob, pc, page
// access + contents; outer memory: access + contents), the model performs the event (for `invoke`
// with a tiny interpreter of the 6 instructions the test programs use), and the result must equal
// the abstraction of the real post-state: exit reason, ω7/ω8, every other register unchanged, the
// whole outer memory (so outer memory changes only in the designated output range and inner
// operations cannot read outer pages), and the whole machine table. No Go panic; a dead worker is a
// violation (crash_is_violation).

import (
	"encoding/json"
	"fmt"
	"sort"
	"testing"

	"github.com/New-JAMneration/JAM-Protocol/internal/zzverif/vlib"
)

type c33Case struct {
	Part string `json:"part,omitempty"` // "" = main search, "table" = machine-table sub-exploration
	Hist []int  `json:"hist"`
}

const (
	c33Data    = uint64(0x20000) // outer RW page: blobs, blocks, poke data
	c33ROPage  = uint64(0x21000) // outer RO page
	c33Scratch = uint64(0x22000) // outer RW page: peek destination
	c33OffBlobA   = 0x000
	c33OffBlobB   = 0x040
	c33OffBlobC   = 0x080
	c33OffBlobBad = 0x0C0
	c33OffBlock   = 0x200 // 112-byte gas/register block
	c33OffPoke    = 0x300 // 8 bytes to poke
	c33InnerPage  = uint64(0x20) // inner page number used by the events
)

// ---- test programs -------------------------------------------------------------------------

func c33ProgA() []byte { // load_imm_64 r7, 0x1234 ; trap
	var a hcAsm
	a.LoadImm64(7, 0x1234)
	a.Trap()
	return a.Blob()
}

func c33ProgB() []byte { // load_imm_64 r8,5 ; ecalli 7 ; load_imm_64 r9,6 ; jump_ind r0   (halts when r0 = 2^32-2^16)
	var a hcAsm
	a.LoadImm64(8, 5)
	a.Ecalli(7)
	a.LoadImm64(9, 6)
	a.JumpInd(0)
	return a.Blob()
}

func c33ProgC() []byte { // store_imm_u8 [0x20004] = 0xAB ; fallthrough ; trap
	var a hcAsm
	a.emit(30, 3, 0x04, 0x00, 0x02, 0xAB) // lX=3: address 0x020004, vY = 0xAB (1 byte, sign-extended, low byte stored)
	a.Fallthrough()
	a.Trap()
	return a.Blob()
}

func c33ProgBad() []byte { // code length field larger than what follows
	b := c33ProgA()
	return b[:len(b)-2]
}

var c33Blobs = [][]byte{c33ProgA(), c33ProgB(), c33ProgC(), c33ProgBad()}
var c33BlobNames = []string{"A", "B", "C", "invalid"}
var c33BlobOff = []uint64{c33OffBlobA, c33OffBlobB, c33OffBlobC, c33OffBlobBad}

// ---- events ---------------------------------------------------------------------------------

type c33Event struct {
	Op   OperationType
	Name string
	R    [6]uint64 // ω7..ω12
	Blk  int       // invoke: which block content to install first (-1 none)
}

const c33Wrap = ^uint64(0) - 0x1E // 0x20 + c33Wrap = 1 (mod 2^64)

func c33Events(r *vlib.Run) []c33Event {
	var ev []c33Event
	add := func(op OperationType, name string, blk int, regs ...uint64) {
		e := c33Event{Op: op, Name: name, Blk: blk}
		copy(e.R[:], regs)
		ev = append(ev, e)
	}
	for b := range c33Blobs {
		for _, pc := range []uint64{0, 10} {
			if !r.Thorough() && pc == 10 && b != 1 {
				continue
			}
			add(MachineOp, fmt.Sprintf("machine(%s,pc=%d)", c33BlobNames[b], pc), -1, c33Data+c33BlobOff[b], uint64(len(c33Blobs[b])), pc)
		}
	}
	add(MachineOp, "machine(unreadable)", -1, 0x30000, 16, 0)
	type pg struct {
		p, c, r uint64
		n       string
	}
	pgs := []pg{{0x20, 1, 1, "R"}, {0x20, 1, 2, "W"}, {0x20, 2, 2, "W2"}, {0x20, 1, 0, "none"}, {0x20, 1, 3, "R-keep"}, {0x20, 1, 4, "W-keep"},
		{0x20, 1, 5, "r=5"}, {15, 1, 2, "p=15"}, {0xFFFFF, 1, 2, "p+c=2^20"}, {0x20, 1 << 20, 2, "c=2^20"}, {0x20, c33Wrap, 2, "p+c-wraps"}, {0x20, 0, 2, "c=0"}}
	if r.Thorough() {
		pgs = append(pgs, pg{0xFFFFE, 1, 2, "top"}, pg{0x21, 1, 4, "W-keep-absent"})
	}
	for _, n := range []uint64{0, 1} {
		for _, q := range pgs {
			if !r.Thorough() && n == 1 && (q.n != "W" && q.n != "none") {
				continue
			}
			add(PagesOp, fmt.Sprintf("pages(%d,%s)", n, q.n), -1, n, q.p, q.c, q.r)
		}
	}
	add(PagesOp, "pages(9,W)", -1, 9, 0x20, 1, 2)
	in := c33InnerPage * ZP
	for _, n := range []uint64{0, 1} {
		if !r.Thorough() && n == 1 {
			continue
		}
		add(PokeOp, fmt.Sprintf("poke(%d,in)", n), -1, n, c33Data+c33OffPoke, in+8, 8)
		add(PokeOp, fmt.Sprintf("poke(%d,straddle)", n), -1, n, c33Data+c33OffPoke, in+ZP-4, 8)
		add(PokeOp, fmt.Sprintf("poke(%d,unmapped)", n), -1, n, c33Data+c33OffPoke, 0x50000, 8)
		add(PokeOp, fmt.Sprintf("poke(%d,z=0)", n), -1, n, c33Data+c33OffPoke, 0x50000, 0)
		add(PeekOp, fmt.Sprintf("peek(%d,in)", n), -1, n, c33Scratch+16, in+8, 8)
		add(PeekOp, fmt.Sprintf("peek(%d,straddle)", n), -1, n, c33Scratch+16, in+ZP-4, 8)
		add(PeekOp, fmt.Sprintf("peek(%d,unmapped)", n), -1, n, c33Scratch+16, 0x50000, 8)
	}
	add(PokeOp, "poke(0,src-unreadable)", -1, 0, 0x30000, in, 8)
	add(PokeOp, "poke(9,in)", -1, 9, c33Data+c33OffPoke, in, 8)
	add(PeekOp, "peek(0,dst-readonly)", -1, 0, c33ROPage, in, 8)
	add(PeekOp, "peek(9,in)", -1, 9, c33Scratch+16, in, 8)
	add(PeekOp, "peek(9,z=0)", -1, 9, c33Scratch+16, in, 0)
	for _, n := range []uint64{0, 1} {
		for bi, g := range []uint64{0, 1, 100} {
			if !r.Thorough() && n == 1 && g != 100 {
				continue
			}
			add(InvokeOp, fmt.Sprintf("invoke(%d,gas=%d)", n, g), bi, n, c33Data+c33OffBlock)
		}
	}
	add(InvokeOp, "invoke(9)", 2, 9, c33Data+c33OffBlock)
	add(InvokeOp, "invoke(0,block-readonly)", -1, 0, c33ROPage)
	for _, n := range []uint64{0, 1, 9} {
		add(ExpungeOp, fmt.Sprintf("expunge(%d)", n), -1, n)
	}
	return ev
}

// c33TableEvents: the cheap alphabet of the machine-table sub-exploration. The first four are the
// history alphabet; the rest are probes applied as the last event only.
const c33TableAlphabet = 4

func c33TableEvents() []c33Event {
	var ev []c33Event
	add := func(op OperationType, name string, regs ...uint64) {
		e := c33Event{Op: op, Name: name, Blk: -1}
		copy(e.R[:], regs)
		ev = append(ev, e)
	}
	add(MachineOp, "machine(A,pc=0)", c33Data+c33OffBlobA, uint64(len(c33Blobs[0])), 0)
	add(ExpungeOp, "expunge(0)", 0)
	add(ExpungeOp, "expunge(1)", 1)
	add(ExpungeOp, "expunge(2)", 2)
	// probes
	add(ExpungeOp, "expunge(3)", 3)
	for n := uint64(0); n <= 3; n++ {
		add(PeekOp, fmt.Sprintf("peek(%d,z=0)", n), n, c33Scratch+16, c33InnerPage*ZP, 0)
	}
	return ev
}

// c33AliasEvents: page-independence sub-exploration. Event 0 (machine) is only used in the fixed
// prefix [machine, machine]; the alphabet proper is events 1..: pages(n, p, c=1, r in {1,2,4}),
// poke(n, p), peek(n, p) for n in {0,1}, p in {X=0x20, Y=0x21}.
func c33AliasEvents() []c33Event {
	var ev []c33Event
	add := func(op OperationType, name string, regs ...uint64) {
		e := c33Event{Op: op, Name: name, Blk: -1}
		copy(e.R[:], regs)
		ev = append(ev, e)
	}
	add(MachineOp, "machine(A,pc=0)", c33Data+c33OffBlobA, uint64(len(c33Blobs[0])), 0)
	for n := uint64(0); n <= 1; n++ {
		for pi, p := range []uint64{0x20, 0x21} {
			pn := []string{"X", "Y"}[pi]
			for _, rr := range []uint64{1, 2, 4} {
				add(PagesOp, fmt.Sprintf("pages(%d,%s,r=%d)", n, pn, rr), n, p, 1, rr)
			}
			add(PokeOp, fmt.Sprintf("poke(%d,%s)", n, pn), n, c33Data+c33OffPoke, p*ZP+8, 8)
			// each (n,p) peeks into its own 8 bytes of the scratch page
			add(PeekOp, fmt.Sprintf("peek(%d,%s)", n, pn), n, c33Scratch+16*(2*n+uint64(pi)+1), p*ZP+8, 8)
		}
	}
	return ev
}

var c33BlockGas = []uint64{0, 1, 100, 1 << 32, 1<<63 - 1}

// ---- width-edge programs (part "edge") -------------------------------------------------------
// `ecalli imm ; trap` with immediates at the width edges, and `store_imm_u8 [addr] ; trap` with
// addresses at the 2^16 / 2^32 edges. Placed in the outer data page behind the other blobs.

const c33OffEdge = 0x400 // + 0x20 per blob

type c33EdgeProg struct {
	Name string
	Blob []byte
}

func c33EdgeProgs() []c33EdgeProg {
	var out []c33EdgeProg
	imms := [][]byte{{}, {0x01}, {0x7F}, {0xFF, 0x00}, {0x00, 0x01}, {0x2C, 0x01}, {0xFF, 0xFF, 0x00}, {0x00, 0x00, 0x01}, {0xFF, 0xFF, 0xFF, 0x7F},
		{0x00, 0x00, 0x00, 0x80}, {0xFF, 0xFF, 0xFF, 0xFF}, {0xFF}}
	for _, im := range imms {
		var a hcAsm
		a.EcalliRaw(im...)
		a.Trap()
		out = append(out, c33EdgeProg{fmt.Sprintf("ecalli(%#x)", c33SignExt(im)), a.Blob()})
	}
	for _, addr := range []uint32{0xFFFF, 0x10000, 0x10FFF, 0xFFFFF000, 0xFFFFFFFF} {
		var a hcAsm
		a.emit(30, 4, byte(addr), byte(addr>>8), byte(addr>>16), byte(addr>>24), 0x01)
		a.Trap()
		out = append(out, c33EdgeProg{fmt.Sprintf("store[%#x]", addr), a.Blob()})
	}
	return out
}

// c33EdgeEvents: machine(E_i) for every edge program, then invoke(0) with block gas 100, 2^32, 2^63-1.
func c33EdgeEvents() (ev []c33Event, nProgs int) {
	progs := c33EdgeProgs()
	for i, p := range progs {
		e := c33Event{Op: MachineOp, Name: "machine(" + p.Name + ",pc=0)", Blk: -1}
		e.R[0], e.R[1], e.R[2] = c33Data+c33OffEdge+0x20*uint64(i), uint64(len(p.Blob)), 0
		ev = append(ev, e)
	}
	for _, bi := range []int{2, 3, 4} {
		e := c33Event{Op: InvokeOp, Name: fmt.Sprintf("invoke(0,gas=%d)", c33BlockGas[bi]), Blk: bi}
		e.R[0], e.R[1] = 0, c33Data+c33OffBlock
		ev = append(ev, e)
	}
	return ev, len(progs)
}

func c33Block(gas uint64) []byte {
	b := hcLE(gas, 8)
	for i := 0; i < 13; i++ {
		v := uint64(0x7000 + i)
		if i == 0 {
			v = 0xFFFF0000
		}
		b = append(b, hcLE(v, 8)...)
	}
	return b
}

// ---- real world -------------------------------------------------------------------------------

type c33World struct {
	Regs Registers
	Mem  *Memory
	Args HostCallArgs
}

func c33Build() *c33World {
	w := &c33World{}
	w.Mem = hcNewMem([]hcPageSpec{{uint32(c33Data / ZP), MemoryReadWrite, 1}, {uint32(c33ROPage / ZP), MemoryReadOnly, 2}, {uint32(c33Scratch / ZP), MemoryReadWrite, 3}})
	for i, b := range c33Blobs {
		hcPoke(w.Mem, c33Data+c33BlobOff[i], b)
	}
	hcPoke(w.Mem, c33Data+c33OffPoke, []byte{0xD0, 0xD1, 0xD2, 0xD3, 0xD4, 0xD5, 0xD6, 0xD7})
	for i, p := range c33EdgeProgs() {
		if len(p.Blob) > 0x20 {
			panic("c33: edge blob too long")
		}
		hcPoke(w.Mem, c33Data+c33OffEdge+0x20*uint64(i), p.Blob)
	}
	w.Args = HostCallArgs{RefineArgs: RefineArgs{IntegratedPVMMap: IntegratedPVMMap{}}, Program: c33OuterProgram()}
	return w
}

var c33Outer *Program

func c33OuterProgram() *Program {
	if c33Outer == nil {
		var a hcAsm
		a.Ecalli(12)
		a.Trap()
		p, ex := DeBlobProgramCode(a.Blob())
		if ex != ExitContinue {
			panic("c33: outer program does not deblob")
		}
		c33Outer = &p
	}
	return c33Outer
}

func (w *c33World) setRegs(e c33Event) {
	for i := range w.Regs {
		w.Regs[i] = 0x3300000000000000 | uint64(i)
	}
	for i := 0; i < 6; i++ {
		w.Regs[7+i] = e.R[i]
	}
	if e.Blk >= 0 {
		hcPoke(w.Mem, c33Data+c33OffBlock, c33Block(c33BlockGas[e.Blk]))
	}
}

func (w *c33World) apply(e c33Event) (OmegaOutput, bool, string, string) {
	gas := Gas(1000)
	return hcCall(RefineOmegas[e.Op], e.Op, &w.Regs, w.Mem, &gas, &w.Args, RefineOmegas)
}

// ---- model --------------------------------------------------------------------------------------

type c33Page struct {
	Acc  MemoryAccess
	Data []byte
}

type c33Mem map[uint32]*c33Page

type c33Machine struct {
	Blob []byte
	PC   uint64
	Mem  c33Mem
}

type c33Model struct {
	M     map[uint64]*c33Machine
	Outer c33Mem
	Regs  Registers
}

func c33AbsMem(m *Memory) c33Mem {
	out := c33Mem{}
	for no, p := range m.Pages {
		if p == nil || p.Access == MemoryInaccessible {
			continue // an absent page is the inaccessible page
		}
		d := make([]byte, ZP)
		copy(d, p.Value)
		out[no] = &c33Page{Acc: p.Access, Data: d}
	}
	return out
}

func c33Abstract(w *c33World) *c33Model {
	m := &c33Model{M: map[uint64]*c33Machine{}, Outer: c33AbsMem(w.Mem), Regs: w.Regs}
	for n, im := range w.Args.RefineArgs.IntegratedPVMMap {
		mem := im.Memory
		m.M[n] = &c33Machine{Blob: append([]byte(nil), im.ProgramCode...), PC: uint64(im.PC), Mem: c33AbsMem(&mem)}
	}
	return m
}

func (m c33Mem) ok(start, n uint64, want MemoryAccess) bool {
	if n == 0 {
		return true
	}
	if n > 1<<32 || start > 1<<32-n {
		return false
	}
	for p := start / ZP; p <= (start+n-1)/ZP; p++ {
		pg, okp := m[uint32(p)]
		if !okp || pg.Acc < want {
			return false
		}
	}
	return true
}

func (m c33Mem) read(start, n uint64) []byte {
	out := make([]byte, n)
	for i := range out {
		a := start + uint64(i)
		out[i] = m[uint32(a/ZP)].Data[a%ZP]
	}
	return out
}

func (m c33Mem) write(start uint64, b []byte) {
	for i, c := range b {
		a := start + uint64(i)
		m[uint32(a/ZP)].Data[a%ZP] = c
	}
}

// c33Deblob: GP A.2 — E(|j|) ‖ E_1(z) ‖ E(|c|) ‖ E_z(j) ‖ c ‖ k with |k| = ceil(|c|/8); only the
// one-byte forms of the naturals are needed for the test blobs (longer prefixes ⇒ not ok here, and
// no test blob uses them).
func c33Deblob(b []byte) (code []byte, mask []bool, ok bool) {
	if len(b) < 3 || b[0] >= 0x80 || b[2] >= 0x80 {
		return nil, nil, false
	}
	nj, z, nc := int(b[0]), int(b[1]), int(b[2])
	rest := b[3:]
	if len(rest) < nj*z+nc {
		return nil, nil, false
	}
	rest = rest[nj*z:]
	code = rest[:nc]
	k := rest[nc:]
	if len(k) != (nc+7)/8 {
		return nil, nil, false
	}
	mask = make([]bool, nc)
	for i := range mask {
		mask[i] = k[i/8]&(1<<uint(i%8)) != 0
	}
	return code, mask, true
}

type c33Exit struct {
	Kind uint64 // INNERHALT … INNEROOG
	Arg  uint64 // host-call id / fault address
}

func c33Skip(mask []bool, pc int) int {
	j := 0
	for j < 24 {
		n := pc + 1 + j
		if n >= len(mask) || mask[n] {
			break
		}
		j++
	}
	return j
}

func c33Byte(code []byte, i int) byte {
	if i < len(code) {
		return code[i]
	}
	return 0
}

func c33SignExt(b []byte) uint64 {
	var x uint64
	for i, c := range b {
		x |= uint64(c) << (8 * uint(i))
	}
	switch len(b) {
	case 0:
		return 0
	case 1:
		return uint64(int64(int8(x)))
	case 2:
		return uint64(int64(int16(x)))
	case 3:
		return uint64(int64(x<<40) >> 40)
	case 4:
		return uint64(int64(int32(x)))
	}
	return x
}

// c33Interp: GP A.1 for the instructions {trap, fallthrough, ecalli, load_imm_64, store_imm_u8,
// jump_ind}; ok=false when the program leaves that set (the case is then not judged).
func c33Interp(code []byte, mask []bool, pc uint64, gas int64, regs *[13]uint64, mem c33Mem) (ex c33Exit, newPC uint64, newGas int64, pcKnown, ok bool) {
	for steps := 0; steps < 1000; steps++ {
		if pc >= uint64(len(code)) {
			// pc outside the code: the GP executes an implicit trap (charged, out-of-gas test first);
			// whether the gas unit is charged is C04's subject — not judged here
			return c33Exit{}, 0, 0, false, false
		}
		if gas < 1 {
			return c33Exit{Kind: INNEROOG}, pc, gas, true, true
		}
		gas--
		ipc := int(pc)
		op := code[ipc]
		sk := c33Skip(mask, ipc)
		next := pc + 1 + uint64(sk)
		switch op {
		case 0:
			return c33Exit{Kind: INNERPANIC}, 0, gas, false, true
		case 1:
			pc = next
		case 10:
			lx := min(4, sk)
			imm := make([]byte, lx)
			for i := range imm {
				imm[i] = c33Byte(code, ipc+1+i)
			}
			return c33Exit{Kind: INNERHOST, Arg: c33SignExt(imm)}, next, gas, true, true
		case 20:
			ra := min(12, int(c33Byte(code, ipc+1))%16)
			var v uint64
			for i := 0; i < 8; i++ {
				v |= uint64(c33Byte(code, ipc+2+i)) << (8 * uint(i))
			}
			regs[ra] = v
			pc = next
		case 30:
			lx := min(4, int(c33Byte(code, ipc+1))%8)
			ly := min(4, max(0, sk-lx-1))
			bx := make([]byte, lx)
			for i := range bx {
				bx[i] = c33Byte(code, ipc+2+i)
			}
			by := make([]byte, ly)
			for i := range by {
				by[i] = c33Byte(code, ipc+2+lx+i)
			}
			addr := c33SignExt(bx) & 0xFFFFFFFF
			if addr < 1<<16 {
				return c33Exit{Kind: INNERPANIC}, 0, gas, false, true
			}
			if !mem.ok(addr, 1, MemoryReadWrite) {
				return c33Exit{Kind: INNERFAULT, Arg: addr}, pc, gas, true, true
			}
			mem.write(addr, []byte{byte(c33SignExt(by))})
			pc = next
		case 50:
			ra := min(12, int(c33Byte(code, ipc+1))%16)
			lx := min(4, max(0, sk-1))
			bx := make([]byte, lx)
			for i := range bx {
				bx[i] = c33Byte(code, ipc+2+i)
			}
			a := (regs[ra] + c33SignExt(bx)) & 0xFFFFFFFF
			if a == 1<<32-1<<16 {
				return c33Exit{Kind: INNERHALT}, 0, gas, false, true
			}
			return c33Exit{Kind: INNERPANIC}, 0, gas, false, true // empty jump table
		default:
			return c33Exit{}, 0, 0, false, false
		}
	}
	return c33Exit{}, 0, 0, false, false
}

type c33Expect struct {
	Exit    ExitReason
	W7, W8  uint64
	SetW8   bool
	PCKnown map[uint64]bool // machines whose pc the model does not constrain → false
	Judged  bool
	Branch  string
}

// c33Step performs event e on model state m (in place) and says what the call must return.
func c33Step(m *c33Model, e c33Event) c33Expect {
	x := c33Expect{Exit: ExitContinue, Judged: true, PCKnown: map[uint64]bool{}}
	rg := m.Regs
	w7, w8, w9, w10 := rg[7], rg[8], rg[9], rg[10]
	ret := func(v uint64, branch string) c33Expect { x.W7 = v; x.Branch = branch; return x }
	pnc := func(branch string) c33Expect { x.Exit = ExitPanic; x.W7 = w7; x.Branch = branch; return x }
	switch e.Op {
	case MachineOp:
		if !m.Outer.ok(w7, w8, MemoryReadOnly) {
			return pnc("panic:blob-unreadable")
		}
		blob := m.Outer.read(w7, w8)
		if _, _, ok := c33Deblob(blob); !ok {
			return ret(HUH, "HUH")
		}
		n := uint64(0)
		for {
			if _, used := m.M[n]; !used {
				break
			}
			n++
		}
		m.M[n] = &c33Machine{Blob: blob, PC: w9, Mem: c33Mem{}}
		return ret(n, "ok")
	case PeekOp: // (n, o, s, z)
		if !m.Outer.ok(w8, w10, MemoryReadWrite) {
			return pnc("panic:dst-unwritable")
		}
		mc, okn := m.M[w7]
		if !okn {
			return ret(WHO, fmt.Sprintf("WHO z=%d", min(w10, 1)))
		}
		if !mc.Mem.ok(w9, w10, MemoryReadOnly) {
			return ret(OOB, "OOB")
		}
		if w10 > 0 {
			m.Outer.write(w8, mc.Mem.read(w9, w10))
		}
		return ret(OK, fmt.Sprintf("ok z=%d", min(w10, 1)))
	case PokeOp: // (n, s, o, z)
		if !m.Outer.ok(w8, w10, MemoryReadOnly) {
			return pnc("panic:src-unreadable")
		}
		mc, okn := m.M[w7]
		if !okn {
			return ret(WHO, "WHO")
		}
		if !mc.Mem.ok(w9, w10, MemoryReadWrite) {
			return ret(OOB, "OOB")
		}
		if w10 > 0 {
			mc.Mem.write(w9, m.Outer.read(w8, w10))
		}
		return ret(OK, fmt.Sprintf("ok z=%d", min(w10, 1)))
	case PagesOp: // (n, p, c, r)
		mc, okn := m.M[w7]
		if !okn {
			return ret(WHO, "WHO")
		}
		p, c, r := w8, w9, w10
		// p + c as integers
		over := c > 1<<20 || p > 1<<20 || p+c >= 1<<20
		if r > 4 || p < 16 || over {
			return ret(HUH, "HUH:range")
		}
		if r > 2 {
			for i := p; i < p+c; i++ {
				if _, acc := mc.Mem[uint32(i)]; !acc {
					return ret(HUH, "HUH:inaccessible")
				}
			}
		}
		for i := p; i < p+c; i++ {
			var data []byte
			if pg, had := mc.Mem[uint32(i)]; had && r >= 3 {
				data = pg.Data
			} else {
				data = make([]byte, ZP)
			}
			switch r {
			case 0:
				delete(mc.Mem, uint32(i))
			case 1, 3:
				mc.Mem[uint32(i)] = &c33Page{Acc: MemoryReadOnly, Data: data}
			case 2, 4:
				mc.Mem[uint32(i)] = &c33Page{Acc: MemoryReadWrite, Data: data}
			}
		}
		if r > 2 {
			return ret(OK, "ok r>2 (keep contents)")
		}
		return ret(OK, fmt.Sprintf("ok r=%d c=%d", r, min(c, 2)))
	case InvokeOp: // (n, o)
		if !m.Outer.ok(w8, 112, MemoryReadWrite) {
			return pnc("panic:block-unwritable")
		}
		mc, okn := m.M[w7]
		if !okn {
			return ret(WHO, "WHO")
		}
		blk := m.Outer.read(w8, 112)
		le := func(b []byte) uint64 {
			var v uint64
			for i := 0; i < 8; i++ {
				v |= uint64(b[i]) << (8 * uint(i))
			}
			return v
		}
		gas := int64(le(blk[:8]))
		var regs [13]uint64
		for i := range regs {
			regs[i] = le(blk[8+8*i:])
		}
		code, mask, okd := c33Deblob(mc.Blob)
		if !okd {
			x.Judged = false
			return x
		}
		ex, npc, ngas, pcKnown, oki := c33Interp(code, mask, mc.PC, gas, &regs, mc.Mem)
		if !oki {
			x.Judged = false
			return x
		}
		out := hcLE(uint64(ngas), 8)
		for i := range regs {
			out = append(out, hcLE(regs[i], 8)...)
		}
		m.Outer.write(w8, out)
		mc.PC = npc
		if !pcKnown {
			x.PCKnown[w7] = false
		}
		x.W7 = ex.Kind
		if ex.Kind == INNERHOST || ex.Kind == INNERFAULT {
			x.SetW8, x.W8 = true, ex.Arg
		}
		x.Branch = []string{"halt", "panic", "fault", "host", "oog"}[ex.Kind]
		return x
	case ExpungeOp:
		mc, okn := m.M[w7]
		if !okn {
			return ret(WHO, "WHO")
		}
		delete(m.M, w7)
		return ret(mc.PC, "ok")
	}
	x.Judged = false
	return x
}

// c33Compare returns "" when the real post-state matches the model post-state.
func c33CompareMem(what string, got, want c33Mem) string {
	nos := map[uint32]bool{}
	for n := range got {
		nos[n] = true
	}
	for n := range want {
		nos[n] = true
	}
	var list []int
	for n := range nos {
		list = append(list, int(n))
	}
	sort.Ints(list)
	for _, ni := range list {
		n := uint32(ni)
		g, okg := got[n]
		w, okw := want[n]
		switch {
		case !okg:
			return fmt.Sprintf("%s page %#x: inaccessible, model has access %d", what, n, w.Acc)
		case !okw:
			return fmt.Sprintf("%s page %#x: access %d, model has it inaccessible", what, n, g.Acc)
		case g.Acc != w.Acc:
			return fmt.Sprintf("%s page %#x: access %d, model %d", what, n, g.Acc, w.Acc)
		}
		for i := range g.Data {
			if g.Data[i] != w.Data[i] {
				return fmt.Sprintf("%s byte %#x: %#02x, model %#02x", what, uint64(n)*ZP+uint64(i), g.Data[i], w.Data[i])
			}
		}
	}
	return ""
}

func c33HistString(evs []c33Event, hist []int) string {
	s := ""
	for i, h := range hist {
		if i > 0 {
			s += " ; "
		}
		s += evs[h].Name
	}
	return s
}

func c33Key(w *c33World) string {
	f := hcSnap("m", w.Args.RefineArgs.IntegratedPVMMap, nil)
	for no, p := range w.Mem.Pages {
		f[fmt.Sprintf("outer[%d]", no)] = fmt.Sprintf("%d:%s", p.Access, string(p.Value))
	}
	return hcCanon(f)
}

// c33Run replays hist on a fresh world; the last event is checked against the model.
// Returns the state key ("" if the history cannot be continued: Go panic).
func c33Run(r *vlib.Run, evs []c33Event, hist []int, check bool) string {
	return c33RunPart(r, "", evs, hist, check)
}

func c33RunPart(r *vlib.Run, part string, evs []c33Event, hist []int, check bool) string {
	w := c33Build()
	for i, ei := range hist {
		e := evs[ei]
		last := i == len(hist)-1
		w.setRegs(e)
		if !last || !check {
			_, p, _, _ := w.apply(e)
			if p {
				return ""
			}
			continue
		}
		c := c33Case{Part: part, Hist: append([]int(nil), hist...)}
		cur, _ := json.Marshal(map[string]interface{}{"site": "PVM." + hostCallName[e.Op], "case": c})
		r.Cur(string(cur))
		model := c33Abstract(w)
		preRegs := w.Regs
		want := c33Step(model, e)
		out, p, msg, site := w.apply(e)
		r.Eval()
		r.Transition()
		opn := hostCallName[e.Op]
		desc := "history " + c33HistString(evs, hist)
		if p {
			r.Class("op=" + opn + " go-panic")
			r.Violation(site, "go-panic", "op="+opn, desc+": Go panic "+msg, c)
			return ""
		}
		if !want.Judged {
			r.Class("op=" + opn + " not-judged")
			continue
		}
		if part == "edge" {
			r.Class(fmt.Sprintf("edge %s model=%s", e.Name, want.Branch))
		} else if part == "alias" {
			r.Class(fmt.Sprintf("alias op=%s model=%s", opn, want.Branch))
		} else if part == "table" {
			live := len(model.M)
			if e.Op == ExpungeOp && want.Branch == "ok" {
				live++ // the model already removed it
			}
			r.Class(fmt.Sprintf("table op=%s model=%s live-after=%d", opn, want.Branch, len(model.M)))
			_ = live
		} else {
			r.Class(fmt.Sprintf("op=%s model=%s", opn, want.Branch))
		}
		bad := func(kind, key, detail string) {
			r.Violation("PVM."+opn, kind, key, desc+": "+detail, c)
		}
		key := "op=" + opn + " model=" + want.Branch
		if e.Op == InvokeOp && want.Exit == ExitContinue && want.Branch != "WHO" {
			key = "op=invoke (machine exists)"
		}
		if out.ExitReason != want.Exit {
			bad("wrong-exit", key, fmt.Sprintf("exit %s (ω7=%#x), model %s", hcExitName(out.ExitReason), w.Regs[7], hcExitName(want.Exit)))
			continue
		}
		if want.Exit == ExitPanic {
			// registers on a panic exit are C07's subject; here: nothing else may change
			got := c33Abstract(w)
			if d := c33CompareMem("outer", got.Outer, model.Outer); d != "" {
				bad("outer-memory", key, d)
			}
			continue
		}
		if w.Regs[7] != want.W7 {
			bad("wrong-result", key, fmt.Sprintf("ω7 = %#x, model %#x", w.Regs[7], want.W7))
			continue
		}
		for i := range preRegs {
			if i == 7 || (i == 8 && e.Op == InvokeOp) {
				continue
			}
			if w.Regs[i] != preRegs[i] {
				bad("register-changed", key, fmt.Sprintf("ω%d changed", i))
			}
		}
		if want.SetW8 {
			okW8 := w.Regs[8] == want.W8
			if want.W7 == INNERFAULT { // DESIGN §3.5: any address from the page start to the accessed byte
				okW8 = w.Regs[8] >= want.W8/ZP*ZP && w.Regs[8] <= want.W8
			}
			if !okW8 {
				k8 := key
				if want.W7 == INNERHOST && want.W8 >= 1<<56 {
					k8 = "op=invoke inner host-call id>=2^56"
				} else if want.W7 == INNERHOST && want.W8 >= 256 {
					k8 = "op=invoke inner host-call id>=256"
				}
				bad("wrong-result", k8, fmt.Sprintf("ω8 = %#x, model %#x", w.Regs[8], want.W8))
			}
		} else if e.Op == InvokeOp && w.Regs[8] != preRegs[8] {
			bad("register-changed", key, "ω8 changed although the inner exit carries no value")
		}
		got := c33Abstract(w)
		if d := c33CompareMem("outer", got.Outer, model.Outer); d != "" {
			bad("outer-memory", key, d)
			continue
		}
		// machine table
		ns := map[uint64]bool{}
		for n := range got.M {
			ns[n] = true
		}
		for n := range model.M {
			ns[n] = true
		}
		var nl []int
		for n := range ns {
			nl = append(nl, int(n))
		}
		sort.Ints(nl)
		for _, ni := range nl {
			n := uint64(ni)
			g, okg := got.M[n]
			mm, okm := model.M[n]
			if okg != okm {
				bad("machine-table", key, fmt.Sprintf("machine %d present=%v, model %v", n, okg, okm))
				break
			}
			if string(g.Blob) != string(mm.Blob) {
				bad("machine-table", key, fmt.Sprintf("machine %d stores a different program", n))
				break
			}
			if known, set := want.PCKnown[n]; (!set || known) && g.PC != mm.PC {
				bad("machine-table", key, fmt.Sprintf("machine %d pc = %d, model %d", n, g.PC, mm.PC))
				break
			}
			if d := c33CompareMem(fmt.Sprintf("machine %d inner", n), g.Mem, mm.Mem); d != "" {
				bad("inner-memory", key, d)
				break
			}
		}
		if r.WantSample() && len(hist) >= 3 {
			r.Sample(map[string]interface{}{"history": c33HistString(evs, hist), "model_branch": want.Branch})
		}
	}
	return c33Key(w)
}

func TestVerif_C33(t *testing.T) {
	r := vlib.Start(t, "C33")
	defer r.Finish()
	evs := c33Events(r)

	var rc c33Case
	if r.IsReplay(&rc) {
		if rc.Part == "table" {
			c33RunPart(r, "table", c33TableEvents(), rc.Hist, true)
		} else if rc.Part == "edge" {
			eev, _ := c33EdgeEvents()
			c33RunPart(r, "edge", eev, rc.Hist, true)
		} else if rc.Part == "alias" {
			// process-lifetime state is part of this sub-exploration: replay every alias history that
			// precedes the recorded one in enumeration order (unchecked), then the recorded one
			aev := c33AliasEvents()
			done := false
			for n := 1; n <= 5 && !done; n++ {
				vlib.Sequences(len(aev)-1, n, func(sq []int) {
					if done {
						return
					}
					h := []int{0, 0}
					for _, x := range sq {
						h = append(h, x+1)
					}
					if fmt.Sprint(h) == fmt.Sprint(rc.Hist) {
						done = true
						return
					}
					c33RunPart(r, "alias", aev, h, false)
				})
			}
			c33RunPart(r, "alias", aev, rc.Hist, true)
		} else {
			c33Run(r, evs, rc.Hist, true)
		}
		return
	}
	// self-checks: the model's view of the test programs
	for i, b := range c33Blobs {
		_, _, ok := c33Deblob(b)
		if ok != (i != 3) {
			r.Violation("harness", "test-blob", "c33", fmt.Sprintf("blob %s: model deblob ok=%v", c33BlobNames[i], ok), c33Case{})
			return
		}
	}
	if c33Run(r, evs, []int{0, 5}, false) != c33Run(r, evs, []int{0, 5}, false) {
		r.Violation("harness", "nondeterministic-rebuild", "c33", "two rebuilds differ", c33Case{})
		return
	}
	depth := vlib.Pick(r, 3, 4)
	r.Extra("alphabet", len(evs))
	// machine-table sub-exploration: every history of length 1..7 (quick) / 1..8 (thorough) over
	// {machine(valid), expunge(0), expunge(1), expunge(2)} checked at its last event, and after every
	// history of length < max the probes expunge(3), peek(0..3, z=0): the id returned by machine must
	// be the smallest free one and every id must answer WHO / OK as the model's table says.
	{
		tev := c33TableEvents()
		tdepth := vlib.Pick(r, 7, 8)
		tidx := uint64(1 << 40)
		for n := 1; n <= tdepth; n++ {
			vlib.Sequences(c33TableAlphabet, n, func(sq []int) {
				tidx++
				if !r.Mine(tidx) {
					return
				}
				h := append([]int(nil), sq...)
				r.Space(1)
				if c33RunPart(r, "table", tev, h, true) == "" {
					return
				}
				r.Trace()
				if n == tdepth {
					return
				}
				for pi := c33TableAlphabet; pi < len(tev); pi++ {
					r.Space(1)
					c33RunPart(r, "table", tev, append(append([]int(nil), h...), pi), true)
				}
			})
		}
	}

	// width edges: every edge program created and invoked with every block gas
	{
		eev, np := c33EdgeEvents()
		eidx := uint64(1 << 45)
		for i := 0; i < np; i++ {
			for j := np; j < len(eev); j++ {
				eidx++
				if !r.Mine(eidx) {
					continue
				}
				r.Space(2)
				c33RunPart(r, "edge", eev, []int{i}, true)
				c33RunPart(r, "edge", eev, []int{i, j}, true)
			}
		}
	}

	// page-independence sub-exploration ("pages are independent byte arrays"): from two machines,
	// EVERY history of length 1..4 (quick) / 1..5 (thorough) over the 20 events of c33AliasEvents,
	// checked at its last event against the one-step model. No dedup here: two states with equal
	// bytes but different sharing of backing arrays must not be merged. Because the histories run one
	// after the other in the same process, a page array that survives a history (package-level state)
	// shows up in every later history; the explicit re-entry case at the end asserts it once more:
	// a fresh machine's r=1 page reads zero after all the unrelated histories.
	{
		aev := c33AliasEvents()
		adepth := vlib.Pick(r, 4, 5)
		aidx := uint64(1 << 41)
		for n := 1; n <= adepth; n++ {
			vlib.Sequences(len(aev)-1, n, func(sq []int) {
				aidx++
				if !r.Mine(aidx) {
					return
				}
				h := []int{0, 0}
				for _, x := range sq {
					h = append(h, x+1)
				}
				r.Space(1)
				if c33RunPart(r, "alias", aev, h, true) != "" {
					r.Trace()
				}
			})
		}
		// re-entry: pages(0,X,r=1) on fresh machines, then peek(0,X) must deliver zeros
		find := func(name string) int {
			for i, e := range aev {
				if e.Name == name {
					return i
				}
			}
			panic("c33: no alias event " + name)
		}
		r.Space(2)
		c33RunPart(r, "alias", aev, []int{0, 0, find("pages(0,X,r=1)")}, true)
		c33RunPart(r, "alias", aev, []int{0, 0, find("pages(0,X,r=1)"), find("peek(0,X)")}, true)
	}

	// start worlds = histories of real events applied first: the empty table, and one machine with a
	// writable page (so that the poke -> peek / invoke data paths are inside the quick depth)
	find := func(name string) int {
		for i, e := range evs {
			if e.Name == name {
				return i
			}
		}
		panic("c33: no event " + name)
	}
	prefixes := [][]int{{}, {find("machine(B,pc=0)"), find("pages(0,W)")}}
	unit := uint64(0)
	for _, pre := range prefixes {
		for e0 := range evs {
			unit++
			if !r.Mine(unit) {
				continue
			}
			seen := map[uint64]bool{}
			root := append(append([]int(nil), pre...), e0)
			r.Space(1)
			k := c33Run(r, evs, root, true)
			if k == "" {
				continue
			}
			r.State(k)
			seen[vlib.H(k)] = true
			frontier := [][]int{root}
			for d := 2; d <= depth; d++ {
				var next [][]int
				for _, h := range frontier {
					for e := range evs {
						hh := append(append([]int(nil), h...), e)
						r.Space(1)
						k := c33Run(r, evs, hh, true)
						if k == "" {
							continue
						}
						if hk := vlib.H(k); !seen[hk] {
							seen[hk] = true
							r.State(k)
							next = append(next, hh)
							r.Trace()
						}
					}
				}
				frontier = next
			}
		}
	}
}
