package PVM

// C01 — PVM execution matches the Gray Paper machine. Bounded-exhaustive
// enumeration of (program blob, register/memory world, gas) against R-PVM
// (lib/refpvm), through the top-level path DeBlobProgramCode → Host.HostCall.

import (
	"fmt"
	"os"
	"testing"

	"github.com/New-JAMneration/JAM-Protocol/internal/zzverif/refpvm"
	"github.com/New-JAMneration/JAM-Protocol/internal/zzverif/vlib"
)

func TestVerif_C01(t *testing.T) {
	r := vlib.Start(t, "C01")
	defer r.Finish()
	c01InitWorlds()

	var rc c01Case
	if r.IsReplay(&rc) {
		c01Check(r, "C01", vlib.Unhex(rc.Blob), c01Worlds[rc.World], rc.Gas, rc.Note)
		if os.Getenv("C01_DEBUG") != "" {
			c01DebugTrace(t, vlib.Unhex(rc.Blob), c01Worlds[rc.World], rc.Gas)
		}
		return
	}
	var idx uint64
	run := func(blob []byte, w *c01World, gas uint64, note string) {
		class := c01Check(r, "C01", blob, w, gas, note)
		r.Class(class)
		if r.WantSample() && idx%1000003 == 17 {
			r.Sample(map[string]interface{}{"blob": vlib.Hex(blob), "world": w.name, "gas": gas, "class": class})
		}
	}
	// degenerate blobs: not programs at all / empty code
	for _, b := range c01DegenerateBlobs() {
		idx++
		if !r.Mine(idx) {
			continue
		}
		r.Space(1)
		run(b, c01Worlds[0], c01Gas, "degenerate")
	}
	c01SingleSweep(r, &idx, run)
	c01ProgSweep(r, 3, &idx, run)
	if r.Thorough() {
		c01ProgSweep4(r, c01Sub4, &idx, run)
	}
}

// c01DegenerateBlobs: the header corner cases of "for every program blob":
// empty code, truncated / over-long blobs (must be rejected, not crash).
func c01DegenerateBlobs() [][]byte {
	return [][]byte{
		{},
		{0},
		{0, 0},
		{0, 0, 0},          // |j|=0 z=0 |c|=0: the empty program
		{0, 0, 0, 0},       // one byte too many
		{0, 0, 1, 0},       // |c|=1 but no bitmask byte
		{0, 0, 1, 0, 1},    // trap
		{0, 0, 1, 0, 1, 0}, // trailing byte
		{0, 0, 50, 1, 2},   // |c|=50 declared, 2 bytes present (DESIGN App. C)
		{5, 2, 1, 0, 1},    // |j|=5 z=2 declared, not present
		{1, 0, 1, 0, 1},    // |j|=1 z=0: one zero-width entry
		{0, 255, 1, 0, 1},  // z=255, no entries
		{0x80, 0, 1, 0, 1}, // |j| encoded non-minimally (0x80 0x00): not a natural
	}
}

// c01DebugTrace prints, for every gas 0..gas, the verdict of the comparison
// (development aid for triage; only with C01_DEBUG=1 in replay mode).
func c01DebugTrace(t *testing.T, blob []byte, w *c01World, gas uint64) {
	prog, err := refpvm.Deblob(blob)
	if err != nil {
		fmt.Printf("DBG not a program: %v\n", err)
		return
	}
	fmt.Printf("DBG code % x mask %v jt z=%d n=%d blockstarts %v\n", prog.Code, prog.Mask, prog.Z, prog.NJ, prog.BlockStarts())
	for g := uint64(0); g <= gas; g++ {
		v := c01Judge(prog, blob, nil, w, g, true)
		fmt.Printf("DBG gas %d: ok=%v relax=%q kind=%s detail=%s | ref exit=%s pc=%d steps=%d lastpc=%d regs=%x | impl kind=%s pc=%d gas=%d regs=%x panic=%q\n",
			g, v.ok, v.relax, v.kind, v.detail, v.ref.exit, v.ref.pc, v.ref.m.Steps, v.ref.m.LastPC, v.ref.m.Regs, v.im.kind, v.im.pc, v.im.gas, v.im.regs, v.im.panicMsg)
		if g > 12 && g < gas-1 {
			g = gas - 2
		}
	}
}
