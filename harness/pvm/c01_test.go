package PVM

// C01 — PVM execution matches the Gray Paper machine. Bounded-exhaustive
// enumeration of (program blob, register/memory world, gas) against R-PVM
// (lib/refpvm), through the top-level path DeBlobProgramCode → Host.HostCall.

import (
	"os"
	"strconv"
	"strings"
	"testing"

	"github.com/New-JAMneration/JAM-Protocol/internal/zzverif/vlib"
)

const c01Gas = 100
const c01ProgGas = 40

// c01SingleSweep enumerates the single-instruction sweep and calls f for the
// cases of this shard. The a-priori size is reported through r.Space.
func c01SingleSweep(r *vlib.Run, idx *uint64, f func(blob []byte, w *c01World, gas uint64, note string)) {
	thorough := r.Thorough()
	units := c01OpUnits(thorough)
	if dev := os.Getenv("C01_DEV_OPS"); dev != "" { // development only: never exhaustive
		r.Cap("C01_DEV_OPS filter")
		var keep []c01OpUnit
		for _, u := range units {
			for _, f := range strings.Split(dev, ",") {
				if v, err := strconv.Atoi(f); err == nil && byte(v) == u.op {
					keep = append(keep, u)
				}
			}
		}
		units = keep
	}
	firsts := c01FirstBytes(thorough)
	for _, u := range units {
		seconds := c01SecondBytes(thorough && c01SecondStructural(u.op))
		for _, b1 := range firsts {
			for _, b2 := range seconds {
				for _, s := range c01Skips {
					for pos := 0; pos < c01Positions; pos++ {
						for tail := 0; tail < 2; tail++ {
							for wi := 0; wi < 2; wi++ {
								*idx++
								if !r.Mine(*idx) {
									continue
								}
								r.Space(1)
								f(c01SingleBlob(u, b1, b2, s, pos, tail), c01Worlds[wi], c01Gas, "single")
							}
						}
					}
				}
			}
		}
	}
}

// c01ProgSweep enumerates all programs of 1..maxLen alphabet instructions with
// every bitmask over the code.
func c01ProgSweep(r *vlib.Run, maxLen int, idx *uint64, f func(blob []byte, w *c01World, gas uint64, note string)) {
	w := c01Worlds[2]
	c01ProgCodes(maxLen, func(code []byte, nins int) {
		n := uint64(1) << uint(len(code))
		for m := uint64(0); m < n; m++ {
			*idx++
			if !r.Mine(*idx) {
				continue
			}
			r.Space(1)
			f(c01ProgBlob(code, m), w, c01ProgGas, "prog")
		}
	})
}

func TestVerif_C01(t *testing.T) {
	r := vlib.Start(t, "C01")
	defer r.Finish()
	c01InitWorlds()

	var rc c01Case
	if r.IsReplay(&rc) {
		c01Check(r, "C01", vlib.Unhex(rc.Blob), c01Worlds[rc.World], rc.Gas, rc.Note)
		return
	}
	var idx uint64
	run := func(blob []byte, w *c01World, gas uint64, note string) {
		class := c01Check(r, "C01", blob, w, gas, note)
		r.Class(class)
		if r.WantSample() && idx%1000003 == 17 {
			r.Sample(map[string]interface{}{"blob": vlib.Hex(blob), "world": w.name, "gas": gas, "class": class})
		}
	}
	// degenerate blobs: not programs at all / empty code
	for _, b := range c01DegenerateBlobs() {
		idx++
		if !r.Mine(idx) {
			continue
		}
		r.Space(1)
		run(b, c01Worlds[0], c01Gas, "degenerate")
	}
	c01SingleSweep(r, &idx, run)
	c01ProgSweep(r, vlib.Pick(r, 3, 4), &idx, run)
}

// c01DegenerateBlobs: the header corner cases of "for every program blob":
// empty code, truncated / over-long blobs (must be rejected, not crash).
func c01DegenerateBlobs() [][]byte {
	return [][]byte{
		{},
		{0},
		{0, 0},
		{0, 0, 0},          // |j|=0 z=0 |c|=0: the empty program
		{0, 0, 0, 0},       // one byte too many
		{0, 0, 1, 0},       // |c|=1 but no bitmask byte
		{0, 0, 1, 0, 1},    // trap
		{0, 0, 1, 0, 1, 0}, // trailing byte
		{0, 0, 50, 1, 2},   // |c|=50 declared, 2 bytes present (DESIGN App. C)
		{5, 2, 1, 0, 1},    // |j|=5 z=2 declared, not present
		{1, 0, 1, 0, 1},    // |j|=1 z=0: one zero-width entry
		{0, 255, 1, 0, 1},  // z=255, no entries
		{0x80, 0, 1, 0, 1}, // |j| encoded non-minimally (0x80 0x00): not a natural
	}
}
