package PVM

// C02 — the pre-decoded block engine (SingleStepInvokeDecodedBlocks, top-level
// invocations) and the single-step engine (SingleStepInvoke, inner machines)
// are observationally equivalent, also across host-call boundaries.
// Differential: no reference interpreter decides anything here; R-PVM's static
// decoder is only used to *name* the input class of a disagreement.

import (
	"bytes"
	"fmt"
	"testing"

	"github.com/New-JAMneration/JAM-Protocol/internal/zzverif/refpvm"
	"github.com/New-JAMneration/JAM-Protocol/internal/zzverif/vlib"
)

const c02MaxLegs = 64

type c02Leg struct {
	panicked bool
	msg      string
	site     string
	exit     ExitReason
	pc       ProgramCounter // as returned by the engine
	cont     ProgramCounter // where the engine's caller resumes after a host call
}

type c02Run struct {
	legs     int
	differ   bool
	kind     string
	detail   string
	site     string // for Go panics
	exitA    ExitReason
	exitB    ExitReason
	lastPC   ProgramCounter // counter both engines report on the last leg when they agree
	lastExit ExitReason
	hosts    int
	pcA, pcB ProgramCounter // counters returned on the last leg
	gasLeft  Gas            // gas both engines are left with when they agree
}

func c02ExitName(e ExitReason) string {
	switch e.GetReasonType() {
	case CONTINUE:
		return "continue"
	case HALT:
		return "halt"
	case PANIC:
		return "panic"
	case OUT_OF_GAS:
		return "oog"
	case PAGE_FAULT:
		return "fault"
	case HOST_CALL:
		return "host"
	}
	return "unknown"
}

// c02Both runs both engines in lock-step from pc 0 with the given gas,
// resuming after every host call, and reports the first observable difference.
func c02Both(pa, pb *Program, w *c01World, gas uint64, want bool) c02Run {
	var out c02Run
	A := &Interpreter{Program: pa, Registers: Registers(w.regs), Memory: w.implMem(false), Gas: Gas(gas)}
	B := &Interpreter{Program: pb, Registers: Registers(w.regs), Memory: w.implMem(true), Gas: Gas(gas)}
	D := func(format string, a ...interface{}) string {
		if !want {
			return ""
		}
		return fmt.Sprintf(format, a...)
	}
	pcA, pcB := ProgramCounter(0), ProgramCounter(0)
	for leg := 0; leg < c02MaxLegs; leg++ {
		out.legs = leg + 1
		var la, lb c02Leg
		la.panicked, la.msg, la.site = c01Guard(func() { la.exit, la.pc = A.SingleStepInvokeDecodedBlocks(pcA) })
		lb.panicked, lb.msg, lb.site = c01Guard(func() { lb.exit, lb.pc = B.SingleStepInvoke(pcB) })
		out.exitA, out.exitB = la.exit, lb.exit
		out.pcA, out.pcB = la.pc, lb.pc
		switch {
		case la.panicked && lb.panicked:
			out.differ, out.kind, out.site = true, "go-panic-both", la.site
			out.detail = D("leg %d: both engines Go-panic: block engine %q (%s), single-step %q (%s)", leg, la.msg, la.site, lb.msg, lb.site)
			out.exitA, out.exitB = 0xFF<<56, 0xFF<<56
			return out
		case la.panicked:
			out.differ, out.kind, out.site = true, "go-panic-block", la.site
			out.detail = D("leg %d: block engine Go-panics %q at %s; single-step engine returns %s pc %d", leg, la.msg, la.site, lb.exit, lb.pc)
			out.exitA = 0xFF << 56
			return out
		case lb.panicked:
			out.differ, out.kind, out.site = true, "go-panic-step", lb.site
			out.detail = D("leg %d: single-step engine Go-panics %q at %s; block engine returns %s pc %d", leg, lb.msg, lb.site, la.exit, la.pc)
			out.exitB = 0xFF << 56
			return out
		}
		if la.exit != lb.exit {
			out.differ, out.kind = true, "exit"
			out.detail = D("leg %d: block engine exit %s (0x%x) pc %d, single-step exit %s (0x%x) pc %d", leg, la.exit, uint64(la.exit), la.pc, lb.exit, uint64(lb.exit), lb.pc)
			return out
		}
		host := la.exit.GetReasonType() == HOST_CALL
		la.cont, lb.cont = la.pc, lb.pc
		if host {
			// block engine: the returned counter already is the continuation;
			// single-step engine: its caller (the invoke host call) adds 1+skip
			lb.cont = lb.pc + 1 + ProgramCounter(skip(int(lb.pc), pb.Bitmasks))
		}
		if la.cont != lb.cont {
			out.differ, out.kind = true, "pc"
			out.detail = D("leg %d exit %s: block engine next pc %d, single-step next pc %d (returned %d)", leg, la.exit, la.cont, lb.cont, lb.pc)
			return out
		}
		for i := 0; i < 13; i++ {
			if A.Registers[i] != B.Registers[i] {
				out.differ, out.kind = true, "reg"
				out.detail = D("leg %d exit %s: r%d block engine 0x%x, single-step 0x%x", leg, la.exit, i, A.Registers[i], B.Registers[i])
				return out
			}
		}
		if A.Gas != B.Gas {
			out.differ, out.kind = true, "gas"
			out.detail = D("leg %d exit %s: gas block engine %d, single-step %d", leg, la.exit, A.Gas, B.Gas)
			return out
		}
		if d := c02MemDiff(A.Memory, B.Memory); d != "" {
			out.differ, out.kind = true, "mem"
			out.detail = D("leg %d exit %s: %s", leg, la.exit, d)
			return out
		}
		out.lastPC, out.lastExit, out.gasLeft = la.cont, la.exit, A.Gas
		if !host {
			return out
		}
		out.hosts++
		pcA, pcB = la.cont, lb.cont
	}
	return out
}

func c02MemDiff(a, b *Memory) string {
	if a.heapPointer != b.heapPointer {
		return fmt.Sprintf("heap pointer 0x%x vs 0x%x", a.heapPointer, b.heapPointer)
	}
	for n, pa := range a.Pages {
		pb, ok := b.Pages[n]
		if !ok {
			return fmt.Sprintf("page 0x%x only in the block engine's memory", n)
		}
		if pa.Access != pb.Access {
			return fmt.Sprintf("page 0x%x access %d vs %d", n, pa.Access, pb.Access)
		}
		if !bytes.Equal(pa.Value, pb.Value) {
			k := 0
			for k < len(pa.Value) && k < len(pb.Value) && pa.Value[k] == pb.Value[k] {
				k++
			}
			return fmt.Sprintf("page 0x%x differs at offset 0x%x", n, k)
		}
	}
	for n := range b.Pages {
		if _, ok := a.Pages[n]; !ok {
			return fmt.Sprintf("page 0x%x only in the single-step engine's memory", n)
		}
	}
	return ""
}

// c02StaticKey names the instruction at pc by its encoding only.
func c02StaticKey(p *refpvm.Program, pc uint64) string {
	op := p.Zeta(pc)
	cat := refpvm.CategoryOf(op)
	if !p.K(pc) {
		return "cat=*;k0"
	}
	ck := "cat=" + cat.String() + ";"
	n := uint64(len(p.Code))
	if pc >= n {
		return ck + "pc>=len"
	}
	need, l := c01Declared(p, pc)
	b1 := p.Zeta(pc + 1)
	switch {
	case pc+1+uint64(need) > n:
		return ck + "operands-past-end"
	case cat == refpvm.CatImmImm && b1 >= 8 || cat == refpvm.CatRegImmImm && b1>>4 >= 8:
		return ck + "lx-nibble>=8"
	case c01LDependent(cat) && l == 0:
		return ck + "skip=0"
	case c01NibbleDeclared(cat) && need > l:
		return ck + "declared>skip"
	}
	return ck + "plain"
}

func c02Check(r *vlib.Run, blob []byte, w *c01World, gas uint64, note string) string {
	r.Eval()
	var ia, ib c01Impl
	pa := c01Deblob(blob, &ia)
	if pa == nil {
		if ia.deblobPanic {
			return "deblob-gopanic"
		}
		return "deblob-reject"
	}
	pb := c01Deblob(blob, &ib)
	if pb == nil {
		r.Violation("DeBlobProgramCode", "nondeterministic", "deblob", fmt.Sprintf("blob %x deblobs once and not twice", blob), c01CaseJSON(blob, w, gas, note))
		return "deblob-flaky"
	}
	r.TransitionN(2)
	full := c02Both(pa, pb, w, gas, false)
	class := fmt.Sprintf("legs=%d exit=%s", min(full.legs, 3), c02ExitName(full.exitA))
	cul := full
	culGas := gas
	if !full.differ {
		// gas axis (program sweep and resumption programs): a run that finishes within
		// n <= 12 gas units is repeated with every limit 0..n+1, so that every step of it is
		// also the step at which the gas reaches exactly 0
		if !c02GasAxis(note) || full.lastExit.GetReasonType() == OUT_OF_GAS {
			return class + " agree"
		}
		n := uint64(Gas(gas) - full.gasLeft)
		if n > c02GasAxisMax {
			return class + " agree long"
		}
		found := false
		for g := uint64(0); g <= n+1 && g < gas; g++ {
			r.TransitionN(2)
			if rg := c02Both(pa, pb, w, g, false); rg.differ {
				cul, culGas, found = rg, g, true
				break
			}
		}
		if !found {
			return class + fmt.Sprintf(" agree gas0..%d", min(n, 4)+1)
		}
		class += " differ-below-full-gas"
	} else if gas >= 1 {
		// localise: smallest gas at which the engines already differ; the counter
		// both report with one unit less (an out-of-gas exit) is the blamed instruction
		lo, hi := uint64(0), gas
		// the step count is not known without a reference: plain binary search
		for lo < hi {
			mid := (lo + hi) / 2
			if rm := c02Both(pa, pb, w, mid, false); rm.differ {
				hi, cul, culGas = mid, rm, mid
			} else {
				lo = mid + 1
			}
		}
	}
	blame := uint64(0)
	if culGas >= 1 {
		prev := c02Both(pa, pb, w, culGas-1, false)
		if !prev.differ && prev.lastExit.GetReasonType() == OUT_OF_GAS {
			blame = uint64(prev.lastPC)
		} else if !prev.differ {
			blame = uint64(prev.lastPC)
		}
	}
	rp, err := refpvm.Deblob(blob)
	key := "unlabelled"
	if err == nil && cul.site == "" {
		// one engine merely ran out of gas where the other ended the run: if the instruction
		// it could not pay for is unfetchable (past the code, or no bitmask bit) blame that one -
		// the engines differ on the implicit trap, not on the instruction before it
		aOOG := cul.exitA.GetReasonType() == OUT_OF_GAS
		bOOG := cul.exitB.GetReasonType() == OUT_OF_GAS
		if aOOG != bOOG {
			nx := uint64(cul.pcA)
			if bOOG {
				nx = uint64(cul.pcB)
			}
			if nx >= uint64(len(rp.Code)) || !rp.K(nx) {
				blame = nx
			}
		}
	}
	if err == nil {
		key = c02StaticKey(rp, blame)
		if op := rp.Zeta(blame); cul.kind == "reg" || cul.kind == "mem" {
			key += fmt.Sprintf(";op=%d", op)
		}
	}
	if cul.site == "" { // for Go panics the site and the static class say it all
		key += ";block=" + c02ExitName(cul.exitA) + ";step=" + c02ExitName(cul.exitB)
	}
	site := "SingleStepInvoke~SingleStepInvokeDecodedBlocks"
	if cul.site != "" {
		site = cul.site
	}
	c01Viol(r, site, cul.kind, key, func() string {
		d := c02Both(pa, pb, w, culGas, true)
		f := c02Both(pa, pb, w, gas, true)
		opb := byte(0)
		sk := 0
		if err == nil {
			opb, sk = rp.Zeta(blame), rp.Skip(blame)
		}
		fd := f.detail
		if !f.differ {
			fd = "the engines agree"
		}
		return fmt.Sprintf("blob %x world %s gas %d: %s [first difference with gas %d; blamed instruction: opcode %d at pc %d, skip %d; with the full gas: %s]",
			blob, w.name, gas, d.detail, culGas, opb, blame, sk, fd)
	}, func() c01Case { return c01CaseJSON(blob, w, gas, note) })
	return class + " differ=" + cul.kind
}

const c02GasAxisMax = 12

func c02GasAxis(note string) bool {
	return note == "prog" || note == "prog4" || note == "resume"
}

func TestVerif_C02(t *testing.T) {
	r := vlib.Start(t, "C02")
	defer r.Finish()
	c01InitWorlds()

	var rc c01Case
	if r.IsReplay(&rc) {
		c02Check(r, vlib.Unhex(rc.Blob), c01Worlds[rc.World], rc.Gas, rc.Note)
		return
	}
	var idx uint64
	run := func(blob []byte, w *c01World, gas uint64, note string) {
		class := c02Check(r, blob, w, gas, note)
		r.Class(class)
		if r.WantSample() && idx%1000003 == 17 {
			r.Sample(map[string]interface{}{"blob": vlib.Hex(blob), "world": w.name, "gas": gas, "class": class})
		}
	}
	c01SingleSweep(r, &idx, run)
	c01ProgSweep(r, 3, &idx, run)
	if r.Thorough() {
		c01ProgSweep4(r, c01Sub4, &idx, run)
	}
	// host-call resumption: programs with up to 3 ecalli in a row and around branches
	for _, b := range c02ResumeBlobs() {
		idx++
		if !r.Mine(idx) {
			continue
		}
		r.Space(1)
		run(b, c01Worlds[2], c01ProgGas, "resume")
	}
}

// c02ResumeBlobs: all sequences of length 1..4 over {ecalli 0 (ℓ=0), ecalli 7,
// ecalli 0x1234 (ℓ=2), load_imm r7←9, fallthrough, jump +2, trap}, default masks.
func c02ResumeBlobs() [][]byte {
	alpha := [][]byte{{10}, {10, 7}, {10, 0x34, 0x12}, {51, 7, 9}, {1}, {40, 2}, {0}}
	var out [][]byte
	for l := 1; l <= 4; l++ {
		vlib.Sequences(len(alpha), l, func(s []int) {
			var ins []refpvm.Ins
			for _, i := range s {
				ins = append(ins, refpvm.I(alpha[i]...))
			}
			ins = append(ins, refpvm.I(0))
			out = append(out, refpvm.Assemble(c01ProgJT, 1, ins...))
		})
	}
	return out
}
