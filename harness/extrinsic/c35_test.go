package extrinsic

// C35 — dispute records (GP 10.x) checked by an explicit-state search over
// sequences of dispute extrinsics. Seam: extrinsic.Disputes() (what
// stf.UpdateDisputes calls) on the blockchain singleton, tiny V = 6, real
// Ed25519 keys and signatures (crypto/ed25519, fixed seeds). Every transition is
// rebuilt from blockchain.ResetInstance() by replaying the state's history.

import (
	"bytes"
	"crypto/ed25519"
	"fmt"
	"os"
	"sort"
	"strings"
	"testing"

	"github.com/New-JAMneration/JAM-Protocol/internal/blockchain"
	"github.com/New-JAMneration/JAM-Protocol/internal/types"
	"github.com/New-JAMneration/JAM-Protocol/internal/utilities/hash"
	"github.com/New-JAMneration/JAM-Protocol/internal/zzverif/vlib"
	"github.com/New-JAMneration/JAM-Protocol/logger"
)

func init() {
	os.Setenv("JAM_FUZZ", "1") // memory repositories only; nothing is written into the package directory
}

const (
	c35V    = 6
	c35Tau0 = 20 // epoch 1 (E = 12): verdict ages 1 (kappa) and 0 (lambda) are both admissible
)

// ---------- fixed world: keys, reports, targets ----------

type c35World struct {
	priv    [12]ed25519.PrivateKey
	pub     [12]types.Ed25519Public // 0..5 kappa, 6..11 lambda
	reports [3]types.WorkReport     // index = target index after sorting by hash
	target  [3]types.WorkReportHash // T1 < T2 < T3 bytewise
	rho0    [2]int                  // target index pending on core 0 / core 1
	sigs    map[string]types.Ed25519Signature
}

var c35W *c35World

func c35MkReport(tag byte, core int) types.WorkReport {
	var wr types.WorkReport
	wr.CoreIndex = types.CoreIndex(core)
	wr.PackageSpec.Hash[0] = tag
	wr.PackageSpec.Length = types.U32(100 + int(tag))
	wr.AuthorizerHash[0] = tag
	wr.Results = []types.WorkResult{{ServiceID: 1, Result: types.WorkExecResult{Type: types.WorkExecResultOk, Data: []byte{tag}}}}
	return wr
}

func c35ReportHash(wr *types.WorkReport) types.WorkReportHash {
	enc := types.GetEncoder()
	b, err := enc.Encode(wr)
	types.PutEncoder(enc)
	if err != nil {
		panic("harness: work report does not encode: " + err.Error())
	}
	return types.WorkReportHash(hash.Blake2bHash(b))
}

func c35Build() *c35World {
	w := &c35World{sigs: map[string]types.Ed25519Signature{}}
	for i := 0; i < 12; i++ {
		seed := bytes.Repeat([]byte{byte(i + 1)}, ed25519.SeedSize)
		w.priv[i] = ed25519.NewKeyFromSeed(seed)
		copy(w.pub[i][:], w.priv[i].Public().(ed25519.PublicKey))
	}
	type rh struct {
		r    types.WorkReport
		h    types.WorkReportHash
		core int // -1: not pending
	}
	rs := []rh{{r: c35MkReport(0xA1, 0), core: 0}, {r: c35MkReport(0xB2, 1), core: 1}, {r: c35MkReport(0xC3, 0), core: -1}}
	for i := range rs {
		rs[i].h = c35ReportHash(&rs[i].r)
	}
	sort.Slice(rs, func(i, j int) bool { return bytes.Compare(rs[i].h[:], rs[j].h[:]) < 0 })
	for i := range rs {
		w.reports[i], w.target[i] = rs[i].r, rs[i].h
		if rs[i].core >= 0 {
			w.rho0[rs[i].core] = i
		}
	}
	return w
}

func (w *c35World) sign(key int, ctx string, t int) types.Ed25519Signature {
	k := fmt.Sprintf("%d|%s|%d", key, ctx, t)
	if s, ok := w.sigs[k]; ok {
		return s
	}
	msg := append([]byte(ctx), w.target[t][:]...)
	var s types.Ed25519Signature
	copy(s[:], ed25519.Sign(w.priv[key], msg))
	w.sigs[k] = s
	return s
}

func c35Ctx(vote bool) string {
	if vote {
		return "jam_valid"
	}
	return "jam_invalid"
}

// per target: culprit keys c1,c2,c3 and fault keys f,f2 (indices into pub; overlaps are intended)
var c35CulpritKeys = [3][3]int{{0, 1, 6}, {2, 3, 7}, {1, 4, 8}}
var c35FaultKeys = [3][2]int{{5, 11}, {9, 5}, {5, 10}}

// verdicts on T3 are signed by the previous epoch's set (age a-1, lambda)
func c35VerdictKeyBase(t int) (base int, ageDelta int) {
	if t == 2 {
		return 6, 1
	}
	return 0, 0
}

// ---------- events ----------

type c35Verdict struct {
	T int `json:"t"` // target index 0..2
	P int `json:"p"` // positive votes 0..5 (of 5)
}

type c35Event struct {
	V      []c35Verdict `json:"v"`
	Mode   int          `json:"mode"`             // culprit/fault mode, see c35Modes
	BadSig bool         `json:"badsig,omitempty"` // corrupt one judgement signature
}

var c35Modes = []string{"matching", "missing", "surplus-valid", "stray-culprit", "agreeing-fault", "culprits-reversed", "culprit-also-fault", "culprit-also-fault-on-other-verdict"}

type c35Case struct {
	History []c35Event `json:"history"`
	Event   c35Event   `json:"event"`
	// Init: which target is pending on core 0 / core 1 in the installed start state
	// (nil: the standard assignment). All variants use the same assigned slot.
	Init *[2]int `json:"init,omitempty"`
	// Pre: cases run (unchecked) in the same process immediately before this one,
	// without resetting package-level state (re-entry pass)
	Pre []c35Case `json:"pre,omitempty"`
}

func (c c35Case) rho0() [2]int {
	if c.Init != nil {
		return *c.Init
	}
	return c35W.rho0
}

type c35CF struct {
	culprits []types.Culprit
	faults   []types.Fault
}

func c35Class(p int) string {
	switch p {
	case 5:
		return "good"
	case 0:
		return "bad"
	case 2:
		return "wonky"
	}
	return "invalid"
}

// c35Extrinsic materialises the event.
func c35Extrinsic(e c35Event) types.DisputesExtrinsic {
	w := c35W
	var d types.DisputesExtrinsic
	for vi, v := range e.V {
		base, ageDelta := c35VerdictKeyBase(v.T)
		vd := types.Verdict{Target: w.target[v.T], Age: types.U32(c35Tau0/12 - ageDelta)}
		for i := 0; i < 5; i++ {
			vote := i < v.P
			sig := w.sign(base+i, c35Ctx(vote), v.T)
			if e.BadSig && vi == 0 && i == 2 {
				sig[7] ^= 0x40
			}
			vd.Votes = append(vd.Votes, types.Judgement{Vote: vote, Index: types.ValidatorIndex(i), Signature: sig})
		}
		d.Verdicts = append(d.Verdicts, vd)
	}
	addC := func(t, slot int) {
		k := c35CulpritKeys[t][slot]
		d.Culprits = append(d.Culprits, types.Culprit{Target: w.target[t], Key: w.pub[k], Signature: w.sign(k, "jam_guarantee", t)})
	}
	addF := func(t, slot int, vote bool) {
		k := c35FaultKeys[t][slot]
		d.Faults = append(d.Faults, types.Fault{Target: w.target[t], Vote: vote, Key: w.pub[k], Signature: w.sign(k, c35Ctx(vote), t)})
	}
	addFK := func(t, k int, vote bool) {
		d.Faults = append(d.Faults, types.Fault{Target: w.target[t], Vote: vote, Key: w.pub[k], Signature: w.sign(k, c35Ctx(vote), t)})
	}
	// the same validator key in two roles of one extrinsic (legal: psi_o' is a set union)
	firstBad := -1
	for _, v := range e.V {
		if c35Class(v.P) == "bad" && firstBad < 0 {
			firstBad = v.T
		}
	}
	for _, v := range e.V {
		switch c35Class(v.P) {
		case "bad":
			if e.Mode == 6 {
				// its first culprit also judged it valid: culprit and (valid) fault on the same report
				addFK(v.T, c35CulpritKeys[v.T][0], true)
			}
		case "good":
			if e.Mode == 7 && firstBad >= 0 {
				// the first culprit of the bad report is the one who judged this good report invalid
				addFK(v.T, c35CulpritKeys[firstBad][0], false)
			}
		}
	}
	for _, v := range e.V {
		switch c35Class(v.P) {
		case "bad":
			addC(v.T, 0)
			if e.Mode != 1 {
				addC(v.T, 1)
			}
			if e.Mode == 2 {
				addC(v.T, 2)
				addF(v.T, 0, true)
			}
		case "good":
			if e.Mode != 1 && !(e.Mode == 7 && firstBad >= 0) {
				addF(v.T, 0, false)
			}
			if e.Mode == 2 {
				addF(v.T, 1, false)
			}
		}
	}
	first := 0
	firstClass := "none"
	if len(e.V) > 0 {
		first, firstClass = e.V[0].T, c35Class(e.V[0].P)
	}
	switch e.Mode {
	case 3: // a culprit for a target that is not judged bad by this block
		if firstClass != "bad" {
			addC(first, 2)
		}
	case 4: // a fault whose vote agrees with the verdict (or, without verdicts, a "valid" vote on T1)
		switch firstClass {
		case "good", "wonky", "none", "invalid":
			addF(first, 1, true)
		case "bad":
			addF(first, 1, false)
		}
	}
	sort.SliceStable(d.Culprits, func(i, j int) bool { return bytes.Compare(d.Culprits[i].Key[:], d.Culprits[j].Key[:]) < 0 })
	sort.SliceStable(d.Faults, func(i, j int) bool { return bytes.Compare(d.Faults[i].Key[:], d.Faults[j].Key[:]) < 0 })
	if e.Mode == 5 {
		for i, j := 0, len(d.Culprits)-1; i < j; i, j = i+1, j-1 {
			d.Culprits[i], d.Culprits[j] = d.Culprits[j], d.Culprits[i]
		}
	}
	return d
}

func c35ExtKey(d types.DisputesExtrinsic) string {
	var sb strings.Builder
	for _, v := range d.Verdicts {
		fmt.Fprintf(&sb, "V%x:", v.Target[:4])
		for _, j := range v.Votes {
			fmt.Fprintf(&sb, "%v%x", j.Vote, j.Signature[:3])
		}
	}
	for _, c := range d.Culprits {
		fmt.Fprintf(&sb, "C%x/%x", c.Target[:4], c.Key[:4])
	}
	for _, f := range d.Faults {
		fmt.Fprintf(&sb, "F%x/%x/%v", f.Target[:4], f.Key[:4], f.Vote)
	}
	return sb.String()
}

func c35Events(thorough bool) []c35Event {
	var lists [][]c35Verdict
	lists = append(lists, nil)
	for t := 0; t < 3; t++ {
		for p := 0; p <= 5; p++ {
			lists = append(lists, []c35Verdict{{t, p}})
		}
	}
	pairCounts := []int{0, 2, 5}
	if thorough {
		pairCounts = []int{0, 2, 5, 3}
	}
	for t1 := 0; t1 < 3; t1++ {
		for t2 := 0; t2 < 3; t2++ {
			if t1 == t2 && t1 != 0 {
				continue // one duplicate-target shape is enough
			}
			for _, p1 := range pairCounts {
				for _, p2 := range pairCounts {
					lists = append(lists, []c35Verdict{{t1, p1}, {t2, p2}})
				}
			}
		}
	}
	if !thorough { // one pair with an inadmissible count in each position
		lists = append(lists, []c35Verdict{{0, 3}, {1, 0}}, []c35Verdict{{0, 0}, {1, 4}})
	}
	var out []c35Event
	seen := map[string]bool{}
	for _, l := range lists {
		for m := range c35Modes {
			if len(l) == 2 && m >= 3 && m < 6 && !thorough {
				continue // two-verdict blocks: matching / missing / surplus only (quick)
			}
			e := c35Event{V: l, Mode: m}
			k := c35ExtKey(c35Extrinsic(e))
			if seen[k] {
				continue
			}
			seen[k] = true
			out = append(out, e)
		}
	}
	out = append(out, c35Event{V: []c35Verdict{{0, 5}}, Mode: 0, BadSig: true})
	return out
}

// ---------- reference R-stf 10.x ----------

type c35State struct {
	Good, Bad, Wonky map[int]bool // target indices
	Off              map[int]bool // key indices
	Rho              [2]int       // target index pending on the core, -1 = empty
}

func c35InitState() c35State { return c35InitStateRho(c35W.rho0) }

func c35InitStateRho(rho [2]int) c35State {
	return c35State{Good: map[int]bool{}, Bad: map[int]bool{}, Wonky: map[int]bool{}, Off: map[int]bool{}, Rho: rho}
}

func c35SetStr(m map[int]bool) string {
	var ks []int
	for k := range m {
		ks = append(ks, k)
	}
	sort.Ints(ks)
	return fmt.Sprint(ks)
}

func (s c35State) canon() string {
	return fmt.Sprintf("g%s b%s w%s o%s r%v", c35SetStr(s.Good), c35SetStr(s.Bad), c35SetStr(s.Wonky), c35SetStr(s.Off), s.Rho)
}

func (s c35State) clone() c35State {
	cp := func(m map[int]bool) map[int]bool {
		o := map[int]bool{}
		for k := range m {
			o[k] = true
		}
		return o
	}
	return c35State{cp(s.Good), cp(s.Bad), cp(s.Wonky), cp(s.Off), s.Rho}
}

func c35KeyIndex(k types.Ed25519Public) int {
	for i := range c35W.pub {
		if c35W.pub[i] == k {
			return i
		}
	}
	return -1
}

func c35TargetIndex(h types.WorkReportHash) int {
	for i := range c35W.target {
		if c35W.target[i] == h {
			return i
		}
	}
	return -1
}

// c35Ref decides the extrinsic the way GP 10.x does. reason is "" on accept.
// The reasons fall into two groups: those the property statement itself speaks
// about ("vote-split", "already-judged", and everything needed for the sets to
// stay sets) and the remaining GP validity rules.
func c35Ref(s c35State, e c35Event, d types.DisputesExtrinsic) (ok bool, reason string, n c35State) {
	n = s.clone()
	if e.BadSig {
		return false, "bad-signature", s
	}
	// (10.7) verdicts ordered by target, no duplicates
	for i := 1; i < len(e.V); i++ {
		if e.V[i-1].T >= e.V[i].T {
			return false, "verdicts-not-sorted-unique", s
		}
	}
	// (10.9) not judged before
	for _, v := range e.V {
		if s.Good[v.T] || s.Bad[v.T] || s.Wonky[v.T] {
			return false, "already-judged", s
		}
	}
	// (10.11/10.12) admissible vote splits
	for _, v := range e.V {
		switch c35Class(v.P) {
		case "good":
			n.Good[v.T] = true
		case "bad":
			n.Bad[v.T] = true
		case "wonky":
			n.Wonky[v.T] = true
		default:
			return false, "vote-split", s
		}
	}
	// (10.13/10.14) enough faults for good, enough culprits for bad verdicts
	for _, v := range e.V {
		nc, nf := 0, 0
		for _, c := range d.Culprits {
			if c35TargetIndex(c.Target) == v.T {
				nc++
			}
		}
		for _, f := range d.Faults {
			if c35TargetIndex(f.Target) == v.T {
				nf++
			}
		}
		if c35Class(v.P) == "bad" && nc < 2 {
			return false, "not-enough-culprits", s
		}
		if c35Class(v.P) == "good" && nf < 1 {
			return false, "not-enough-faults", s
		}
	}
	// (10.8) culprits and faults ordered by key, no duplicates
	for i := 1; i < len(d.Culprits); i++ {
		if bytes.Compare(d.Culprits[i-1].Key[:], d.Culprits[i].Key[:]) >= 0 {
			return false, "culprits-not-sorted-unique", s
		}
	}
	for i := 1; i < len(d.Faults); i++ {
		if bytes.Compare(d.Faults[i-1].Key[:], d.Faults[i].Key[:]) >= 0 {
			return false, "faults-not-sorted-unique", s
		}
	}
	// (10.5) culprits: target in psi_b', key a validator key not already an offender
	for _, c := range d.Culprits {
		t, k := c35TargetIndex(c.Target), c35KeyIndex(c.Key)
		if !n.Bad[t] {
			return false, "culprit-target-not-bad", s
		}
		if k < 0 || s.Off[k] {
			return false, "culprit-key-offender-or-unknown", s
		}
	}
	// (10.6) faults: (target in psi_b') <=> (target not in psi_g') <=> vote
	for _, f := range d.Faults {
		t, k := c35TargetIndex(f.Target), c35KeyIndex(f.Key)
		inB, inG := n.Bad[t], n.Good[t]
		if !(inB == !inG && !inG == f.Vote) {
			if !inB && !inG {
				return false, "fault-target-neither-good-nor-bad", s
			}
			return false, "fault-vote-agrees-with-verdict", s
		}
		if k < 0 || s.Off[k] {
			return false, "fault-key-offender-or-unknown", s
		}
	}
	for _, c := range d.Culprits {
		n.Off[c35KeyIndex(c.Key)] = true
	}
	for _, f := range d.Faults {
		n.Off[c35KeyIndex(f.Key)] = true
	}
	// (10.15) reports judged bad or wonky leave pending availability
	for c := 0; c < 2; c++ {
		if t := n.Rho[c]; t >= 0 && (n.Bad[t] || n.Wonky[t]) && !(s.Bad[t] || s.Wonky[t]) {
			n.Rho[c] = -1
		}
	}
	return true, "", n
}

// ---------- real side ----------

type c35Real struct {
	psi types.DisputesRecords
	rho types.AvailabilityAssignments
	tau types.TimeSlot
}

func c35Validators(base int) types.ValidatorsData {
	vs := make(types.ValidatorsData, c35V)
	for i := range vs {
		vs[i].Ed25519 = c35W.pub[base+i]
		vs[i].Bandersnatch[0] = byte(base + i + 1)
	}
	return vs
}

func c35Reset() (*blockchain.ChainState, c35Real) { return c35ResetRho(c35W.rho0) }

func c35ResetRho(rho0 [2]int) (*blockchain.ChainState, c35Real) {
	types.SetTinyMode()
	blockchain.ResetInstance()
	blockchain.ClearVerifierCache()
	cs := blockchain.GetInstance()
	rw := c35Real{tau: c35Tau0}
	rw.rho = make(types.AvailabilityAssignments, 2)
	for c := 0; c < 2; c++ {
		rw.rho[c] = &types.AvailabilityAssignment{Report: c35W.reports[rho0[c]], AssignedSlot: 7}
	}
	return cs, rw
}

func c35CopyPsi(p types.DisputesRecords) types.DisputesRecords {
	return types.DisputesRecords{
		Good:      append([]types.WorkReportHash(nil), p.Good...),
		Bad:       append([]types.WorkReportHash(nil), p.Bad...),
		Wonky:     append([]types.WorkReportHash(nil), p.Wonky...),
		Offenders: append([]types.Ed25519Public(nil), p.Offenders...),
	}
}

// c35Install writes the carried real state into a clean prior/posterior pair.
func c35Install(cs *blockchain.ChainState, rw c35Real) {
	p := cs.GetPriorStates()
	p.SetKappa(c35Validators(0))
	p.SetLambda(c35Validators(6))
	p.SetTau(rw.tau)
	p.SetPsi(c35CopyPsi(rw.psi))
	p.SetRho(append(types.AvailabilityAssignments(nil), rw.rho...))
	cs.GetPosteriorStates().SetState(blockchain.NewPosteriorStates().GetState())
}

// c35Step runs one block's dispute extrinsic through the seam.
func c35Step(cs *blockchain.ChainState, rw c35Real, d types.DisputesExtrinsic) (accepted bool, code string, out c35Real, mark types.OffendersMark) {
	c35Install(cs, rw)
	var blk types.Block
	blk.Header.Slot = rw.tau + 1
	blk.Extrinsic.Disputes = d
	cs.AddBlock(blk)
	m, err := Disputes()
	if err != nil {
		return false, err.Error(), rw, nil
	}
	post := cs.GetPosteriorStates()
	out.psi = c35CopyPsi(post.GetPsi())
	out.rho = append(types.AvailabilityAssignments(nil), cs.GetIntermediateStates().GetRhoDagger()...)
	out.tau = rw.tau + 1
	return true, "", out, m
}

func c35HashesToSet(hs []types.WorkReportHash) (map[int]bool, bool) {
	m := map[int]bool{}
	ok := true
	for _, h := range hs {
		i := c35TargetIndex(h)
		if i < 0 || m[i] {
			ok = false
		}
		m[i] = true
	}
	return m, ok
}

func c35SortedHashes(hs []types.WorkReportHash) bool {
	for i := 1; i < len(hs); i++ {
		if bytes.Compare(hs[i-1][:], hs[i][:]) >= 0 {
			return false
		}
	}
	return true
}

func c35PsiString(p types.DisputesRecords) string {
	f := func(hs []types.WorkReportHash) string {
		var s []string
		for _, h := range hs {
			s = append(s, fmt.Sprintf("T%d", c35TargetIndex(h)+1))
		}
		return "[" + strings.Join(s, " ") + "]"
	}
	var o []string
	for _, k := range p.Offenders {
		o = append(o, fmt.Sprintf("k%d", c35KeyIndex(k)))
	}
	return fmt.Sprintf("good=%s bad=%s wonky=%s offenders=[%s]", f(p.Good), f(p.Bad), f(p.Wonky), strings.Join(o, " "))
}

func c35EventString(e c35Event) string {
	var vs []string
	for _, v := range e.V {
		vs = append(vs, fmt.Sprintf("T%d:%d/5", v.T+1, v.P))
	}
	s := "verdicts[" + strings.Join(vs, ",") + "] " + c35Modes[e.Mode]
	if e.BadSig {
		s += " bad-signature"
	}
	return s
}

// reasons of the reference that the property statement does not speak about:
// an implementation that accepts such an extrinsic is recorded as a diagnostic
// (statement-silent), not as a violation. See notes/C35.md.
var c35SilentReasons = map[string]bool{
	// GP 10.6 demands that a fault's target is in exactly one of psi_g' / psi_b';
	// FaultController.VerifyReportHashValidty accepts a fault on a wonky or unjudged
	// target. The property statement says nothing about which faults are valid.
	"fault-target-neither-good-nor-bad": true,
}

var c35Diag = map[string]uint64{}

// c35CheckTransition applies the oracle to the last step of a case.
func c35CheckTransition(r *vlib.Run, c c35Case, before c35Real, sBefore c35State, e c35Event, d types.DisputesExtrinsic,
	accepted bool, code string, after c35Real, refOK bool, reason string, sAfter c35State) {
	ctx := func() string {
		return fmt.Sprintf("state {%s rho=%v}; block %s", c35PsiString(before.psi), sBefore.Rho, c35EventString(e))
	}
	if accepted != refOK {
		if accepted {
			if c35SilentReasons[reason] {
				c35Diag["accepted-gp-invalid;"+reason]++
			} else {
				r.Violation("extrinsic.Disputes", "accepted-invalid", "reason="+reason,
					fmt.Sprintf("%s: accepted (result {%s}) but GP 10.x rejects it: %s", ctx(), c35PsiString(after.psi), reason), c)
			}
		} else {
			r.Violation("extrinsic.Disputes", "rejected-valid", "error-code="+code,
				fmt.Sprintf("%s: rejected with error code %s but GP 10.x accepts it", ctx(), code), c)
		}
	}
	if !accepted {
		return // what a rejected extrinsic leaves behind is not asserted here
	}
	p := after.psi
	g, okg := c35HashesToSet(p.Good)
	b, okb := c35HashesToSet(p.Bad)
	w, okw := c35HashesToSet(p.Wonky)
	if !okg || !okb || !okw {
		r.Violation("extrinsic.UpdatePsiGBW", "set-has-duplicate-or-unknown-entry", "", fmt.Sprintf("%s: result {%s}", ctx(), c35PsiString(p)), c)
	}
	for t := 0; t < 3; t++ {
		n := 0
		for _, m := range []map[int]bool{g, b, w} {
			if m[t] {
				n++
			}
		}
		if n > 1 {
			r.Violation("extrinsic.UpdatePsiGBW", "sets-not-disjoint", "", fmt.Sprintf("%s: result {%s}", ctx(), c35PsiString(p)), c)
			break
		}
	}
	if !c35SortedHashes(p.Good) || !c35SortedHashes(p.Bad) || !c35SortedHashes(p.Wonky) {
		key := "prior-sorted"
		if !c35SortedHashes(before.psi.Good) || !c35SortedHashes(before.psi.Bad) || !c35SortedHashes(before.psi.Wonky) {
			key = "prior-already-unsorted"
		}
		r.Violation("extrinsic.UpdatePsiGBW", "set-not-sorted", key, fmt.Sprintf("%s: result {%s} (T1<T2<T3 bytewise)", ctx(), c35PsiString(p)), c)
	}
	for i := 1; i < len(p.Offenders); i++ {
		if bytes.Compare(p.Offenders[i-1][:], p.Offenders[i][:]) >= 0 {
			r.Violation("extrinsic.UpdatePsiO", "offenders-not-sorted", "", fmt.Sprintf("%s: result {%s}", ctx(), c35PsiString(p)), c)
			break
		}
	}
	off := map[types.Ed25519Public]bool{}
	for _, k := range p.Offenders {
		off[k] = true
	}
	for _, k := range before.psi.Offenders {
		if !off[k] {
			r.Violation("extrinsic.UpdatePsiO", "offender-lost", "", fmt.Sprintf("%s: result {%s}", ctx(), c35PsiString(p)), c)
			break
		}
	}
	if refOK {
		// verdict classification and offender accumulation as GP 10.16-10.19
		if c35SetStr(g) != c35SetStr(sAfter.Good) || c35SetStr(b) != c35SetStr(sAfter.Bad) || c35SetStr(w) != c35SetStr(sAfter.Wonky) {
			r.Violation("extrinsic.UpdatePsiGBW", "wrong-classification", "", fmt.Sprintf("%s: result {%s}, reference %s", ctx(), c35PsiString(p), sAfter.canon()), c)
		}
		om := map[int]bool{}
		for _, k := range p.Offenders {
			om[c35KeyIndex(k)] = true
		}
		if c35SetStr(om) != c35SetStr(sAfter.Off) {
			r.Violation("extrinsic.UpdatePsiO", "wrong-offenders", "", fmt.Sprintf("%s: result {%s}, reference offenders %s", ctx(), c35PsiString(p), c35SetStr(sAfter.Off)), c)
		}
	}
	// reports judged bad or wonky by this block are removed from pending availability; nothing else is
	judged := map[int]string{}
	for _, v := range e.V {
		judged[v.T] = c35Class(v.P)
	}
	if len(after.rho) != 2 {
		r.Violation("extrinsic.ClearWorkReports", "rho-dagger-malformed", "", fmt.Sprintf("%s: rho-dagger has %d entries", ctx(), len(after.rho)), c)
		return
	}
	for core := 0; core < 2; core++ {
		t := sBefore.Rho[core]
		if t < 0 {
			if after.rho[core] != nil {
				r.Violation("extrinsic.ClearWorkReports", "rho-entry-appeared", "", ctx(), c)
			}
			continue
		}
		cls := judged[t]
		mustClear := cls == "bad" || cls == "wonky"
		if mustClear && after.rho[core] != nil {
			r.Violation("extrinsic.ClearWorkReports", "judged-report-still-pending", "verdict="+cls, fmt.Sprintf("%s: core %d still holds T%d", ctx(), core, t+1), c)
		}
		if !mustClear {
			if after.rho[core] == nil {
				r.Violation("extrinsic.ClearWorkReports", "pending-report-removed", "verdict="+cls, fmt.Sprintf("%s: core %d lost T%d", ctx(), core, t+1), c)
			} else if c35ReportHash(&after.rho[core].Report) != c35W.target[t] {
				r.Violation("extrinsic.ClearWorkReports", "pending-report-changed", "", fmt.Sprintf("%s: core %d", ctx(), core), c)
			}
		}
	}
}

// c35RunCase rebuilds the singleton, replays the history and checks the last event.
// Returns the canonical real state after the case (for the self-test).
func c35RunCase(r *vlib.Run, c c35Case) (canon string) {
	panicked, msg, site := vlib.Guard(func() {
		cs, rw := c35ResetRho(c.rho0())
		st := c35InitStateRho(c.rho0())
		all := append(append([]c35Event(nil), c.History...), c.Event)
		for i, e := range all {
			d := c35Extrinsic(e)
			refOK, reason, sNext := c35Ref(st, e, d)
			accepted, code, out, _ := c35Step(cs, rw, d)
			r.Transition()
			last := i == len(all)-1
			if last {
				r.Eval()
				c35CheckTransition(r, c, rw, st, e, d, accepted, code, out, refOK, reason, sNext)
				cls := "accept"
				if !accepted {
					cls = "reject code=" + code
				}
				r.Class(fmt.Sprintf("%s ref=%s verdicts=%d mode=%s", cls, reason, len(e.V), c35Modes[e.Mode]))
				canon = fmt.Sprintf("%v %s %s", accepted, c35PsiString(out.psi), fmt.Sprint(out.rho[0] == nil, out.rho[1] == nil))
				return
			}
			if accepted != refOK {
				canon = "prefix-diverged"
				return // reported by the case whose last event this is
			}
			if accepted {
				rw, st = out, sNext
			}
			// after a rejection the harness re-installs the state from before the block
		}
	})
	if panicked {
		r.Violation(site, "go-panic", fmt.Sprintf("verdicts=%d;mode=%s", len(c.Event.V), c35Modes[c.Event.Mode]), fmt.Sprintf("history %+v event %s: %s", c.History, c35EventString(c.Event), msg), c)
	}
	return
}

// c35RunUnchecked runs a case through the real code without applying the oracle
// (used to put the process into the state "some other transition ran before").
func c35RunUnchecked(c c35Case) {
	vlib.Guard(func() {
		cs, rw := c35ResetRho(c.rho0())
		for _, e := range append(append([]c35Event(nil), c.History...), c.Event) {
			if accepted, _, out, _ := c35Step(cs, rw, c35Extrinsic(e)); accepted {
				rw = out
			}
		}
	})
}

// c35ReentryPass: every transition result must be a function of (installed state,
// extrinsic) only. Within one process, with no reset of package-level state beyond
// what a node does, depth-1 transitions are run from start states that share
// (core, assigned slot) but hold DIFFERENT pending reports, interleaved, each one
// twice with transitions from the other start states in between; each run gets the
// full oracle (in particular "judged bad or wonky => removed from rho-dagger") and
// the two runs must agree.
func c35ReentryPass(r *vlib.Run, events []c35Event) {
	std := c35W.rho0
	third := 3 - std[0] - std[1]
	variants := [][2]int{std, {third, std[1]}, {std[0], third}, {std[1], std[0]}}
	for ei, e := range events {
		if !r.Mine(uint64(ei)) {
			continue
		}
		first := map[int]string{}
		var prev *c35Case
		var lastPre []c35Case
		run := func(vi int) string {
			v := variants[vi]
			c := c35Case{Event: e, Init: &v}
			if prev != nil {
				c.Pre = []c35Case{*prev}
			}
			lastPre = c.Pre
			r.Space(1)
			out := c35RunCase(r, c)
			r.Trace()
			pc := c35Case{Event: e, Init: &v}
			prev = &pc
			return out
		}
		for vi := range variants {
			first[vi] = run(vi)
		}
		for vi := len(variants) - 1; vi >= 0; vi-- {
			again := run(vi)
			if again != first[vi] {
				v := variants[vi]
				r.Violation("extrinsic.Disputes", "result-depends-on-earlier-calls", "",
					fmt.Sprintf("start state with T%d/T%d pending, block %s: first result {%s}, after transitions from other start states {%s}", v[0]+1, v[1]+1, c35EventString(e), first[vi], again),
					c35Case{Event: e, Init: &v, Pre: lastPre})
			}
		}
	}
}

func TestVerif_C35(t *testing.T) {
	r := vlib.Start(t, "C35")
	defer r.Finish()
	logger.ConfigureLogger("main", logger.LoggerConfig{Level: "FATAL", Enabled: false})
	types.SetTinyMode()
	c35W = c35Build()

	var rc c35Case
	if r.IsReplay(&rc) {
		for _, p := range rc.Pre {
			c35RunUnchecked(p)
		}
		c35RunCase(r, rc)
		return
	}

	events := c35Events(r.Thorough())
	depth := 3

	// self-test: two rebuilds of the same history give identical canonical states
	{
		h := c35Case{History: []c35Event{{V: []c35Verdict{{2, 0}}, Mode: 0}, {V: []c35Verdict{{0, 5}, {1, 2}}, Mode: 2}}, Event: c35Event{V: []c35Verdict{}, Mode: 3}}
		a, b := c35RunCase(r, h), c35RunCase(r, h)
		if a != b || a == "" {
			t.Fatalf("harness self-test: two rebuilds differ: %q vs %q", a, b)
		}
	}

	// frontier by the reference model, identical in every shard; the real code is
	// checked on every (state, event) pair, each rebuilt from its shortest history
	type node struct {
		st   c35State
		hist []c35Event
	}
	levels := [][]node{{{st: c35InitState()}}}
	seen := map[string]bool{c35InitState().canon(): true}
	total := 1
	for d := 1; d < depth; d++ {
		var next []node
		for _, n := range levels[d-1] {
			for _, e := range events {
				ok, _, s2 := c35Ref(n.st, e, c35Extrinsic(e))
				if !ok {
					continue
				}
				if k := s2.canon(); !seen[k] {
					seen[k] = true
					next = append(next, node{s2, append(append([]c35Event(nil), n.hist...), e)})
				}
			}
		}
		levels = append(levels, next)
		total += len(next)
	}
	last := map[string]bool{}
	for _, n := range levels[depth-1] {
		for _, e := range events {
			if ok, _, s2 := c35Ref(n.st, e, c35Extrinsic(e)); ok && !seen[s2.canon()] {
				last[s2.canon()] = true
			}
		}
	}
	r.StateCount(uint64(total + len(last)))
	r.Extra("depth", depth)
	r.Extra("events", len(events))
	for d, l := range levels {
		r.Extra(fmt.Sprintf("states_depth_%d", d), len(l))
	}

	idx := uint64(0)
	for _, lvl := range levels {
		for _, n := range lvl {
			for _, e := range events {
				idx++
				if !r.Mine(idx) {
					continue
				}
				if idx%16 == 0 && r.Expired() {
					return
				}
				r.Space(1)
				c := c35Case{History: n.hist, Event: e}
				c35RunCase(r, c)
				r.Trace()
				if r.WantSample() && idx%4999 == 7 {
					r.Sample(map[string]interface{}{"state": n.st.canon(), "event": c35EventString(e)})
				}
			}
		}
	}
	c35ReentryPass(r, events)
	for k, v := range c35Diag {
		r.Extra("sum_diag_"+k, v)
	}
}
