package extrinsic

// C20 — shuffle and guarantor assignment. Bounded-exhaustive enumeration against
// R-shuffle (GP F.1–F.3) and the invariants of GP 11.19–11.22.

import (
	"encoding/binary"
	"fmt"
	"sort"
	"testing"

	"github.com/New-JAMneration/JAM-Protocol/internal/blockchain"
	"github.com/New-JAMneration/JAM-Protocol/internal/types"
	"github.com/New-JAMneration/JAM-Protocol/internal/utilities/shuffle"
	"github.com/New-JAMneration/JAM-Protocol/internal/zzverif/vlib"
	"golang.org/x/crypto/blake2b"
)

// ---------- reference ----------

// GP F.1: F([], r) = []; F(s, r) = [s[r0 mod l]] ⌢ F(s'[..l-1], r[1..]) with s' = s except s'[r0 mod l] = s[l-1].
func c20RefFY(s []uint32, r []uint32) []uint32 {
	w := append([]uint32(nil), s...)
	out := make([]uint32, 0, len(s))
	for k := 0; len(w) > 0; k++ {
		l := uint32(len(w))
		i := r[k] % l
		out = append(out, w[i])
		w[i] = w[l-1]
		w = w[:l-1]
	}
	return out
}

// GP F.2: Q_l(h)_i = E4^-1( H(h ‖ E4(⌊i/8⌋))[4i mod 32 .. +4] )
func c20RefQ(h [32]byte, l int) []uint32 {
	out := make([]uint32, l)
	for i := 0; i < l; i++ {
		var in [36]byte
		copy(in[:32], h[:])
		binary.LittleEndian.PutUint32(in[32:], uint32(i/8))
		d := blake2b.Sum256(in[:])
		o := (4 * i) % 32
		out[i] = binary.LittleEndian.Uint32(d[o : o+4])
	}
	return out
}

func c20RefShuffle(s []uint32, h [32]byte) []uint32 { return c20RefFY(s, c20RefQ(h, len(s))) }

type c20Params struct {
	name       string
	V, C, E, R int
}

func c20ParamSets() []c20Params {
	return []c20Params{{"tiny", 6, 2, 12, 4}, {"full", 1023, 341, 600, 10}}
}

// GP 11.19/11.20: P(e, t) = R(F([⌊C·i/V⌋ | i < V], e), ⌊(t mod E)/R⌋)
func c20RefAssign(p c20Params, e [32]byte, t uint32) []uint32 {
	base := make([]uint32, p.V)
	for i := 0; i < p.V; i++ {
		base[i] = uint32((p.C * i) / p.V)
	}
	sh := c20RefShuffle(base, e)
	n := uint32((int(t) % p.E) / p.R)
	out := make([]uint32, p.V)
	for i, x := range sh {
		out[i] = (x + n) % uint32(p.C)
	}
	return out
}

// ---------- helpers ----------

func c20ToU32(s []uint32) []types.U32 {
	o := make([]types.U32, len(s))
	for i, v := range s {
		o[i] = types.U32(v)
	}
	return o
}

func c20FromU32(s []types.U32) []uint32 {
	o := make([]uint32, len(s))
	for i, v := range s {
		o[i] = uint32(v)
	}
	return o
}

func c20Eq(a, b []uint32) bool {
	if len(a) != len(b) {
		return false
	}
	for i := range a {
		if a[i] != b[i] {
			return false
		}
	}
	return true
}

func c20SameMultiset(a, b []uint32) bool {
	if len(a) != len(b) {
		return false
	}
	x := append([]uint32(nil), a...)
	y := append([]uint32(nil), b...)
	sort.Slice(x, func(i, j int) bool { return x[i] < x[j] })
	sort.Slice(y, func(i, j int) bool { return y[i] < y[j] })
	return c20Eq(x, y)
}

func c20Entropy(k int) [32]byte {
	var e [32]byte
	switch k {
	case 0: // all zero
	case 1:
		for i := range e {
			e[i] = 0xFF
		}
	case 2:
		for i := range e {
			e[i] = byte(i + 1)
		}
	case 3:
		for i := range e {
			e[i] = byte(0xA5 ^ (i * 37))
		}
	case 4:
		e[0] = 1
	case 5:
		e[31] = 0x80
	default:
		// prefix families: k = 6 + 4*fam + v. v = 0 is the base of the family; v = 1, 2, 3 share exactly the
		// first 8, 16, 31 bytes with it (a result that depends on a truncated entropy would coincide)
		fam, v := (k-6)/4, (k-6)%4
		for i := range e {
			e[i] = byte(i*13 + fam*29 + 1)
		}
		from := []int{32, 8, 16, 31}[v]
		for i := from; i < 32; i++ {
			e[i] ^= byte(0x40 + v)
		}
	}
	return e
}

const c20NEntropies = 6 + 4*3 // 6 patterns + 3 prefix families of 4

func c20LenKey(n int) string {
	switch {
	case n == 0:
		return "len=0"
	case n <= 8:
		return "len=1..8"
	case n <= 64:
		return "len=9..64"
	case n <= 1024:
		return "len=65..1024"
	case n <= 2048:
		return "len=1025..2048"
	}
	return "len>2048"
}

type c20Case struct {
	Part    string   `json:"part"` // fy | shuffle | assign
	S       []uint32 `json:"s,omitempty"`
	R       []uint32 `json:"r,omitempty"`
	Len     int      `json:"len,omitempty"`
	Variant int      `json:"variant,omitempty"`
	Ent     int      `json:"ent,omitempty"`
	Mode    string   `json:"mode,omitempty"`
	Slot    uint32   `json:"slot,omitempty"`
	L1      int      `json:"l1,omitempty"` // part seq: lengths of the consecutive Shuffle calls
	L2      int      `json:"l2,omitempty"`
}

// ---------- part 1: FisherYatesShuffle ----------

func c20CheckFY(r *vlib.Run, s, rr []uint32) {
	n := len(s)
	want := c20RefFY(s, rr)
	r.Eval()
	var got []uint32
	in := c20ToU32(s)
	p, msg, _ := vlib.Guard(func() { got = c20FromU32(shuffle.FisherYatesShuffle(in, c20ToU32(rr))) })
	r.Transition()
	wrap := false
	for k, x := range rr {
		if int(x) >= n-k {
			wrap = true
		}
	}
	r.Class(fmt.Sprintf("fy n=%d wrap=%v identity=%v", n, wrap, c20Eq(want, s)))
	c := c20Case{Part: "fy", S: s, R: rr}
	key := fmt.Sprintf("n=%d", n)
	switch {
	case p:
		r.Violation("shuffle.FisherYatesShuffle", "go-panic", key, fmt.Sprintf("s=%v r=%v: Go panic %s", s, rr, msg), c)
	case !c20SameMultiset(got, s):
		r.Violation("shuffle.FisherYatesShuffle", "not-permutation", key, fmt.Sprintf("s=%v r=%v: got %v which is not a permutation of s", s, rr, got), c)
	case !c20Eq(got, want):
		r.Violation("shuffle.FisherYatesShuffle", "wrong-value", key, fmt.Sprintf("s=%v r=%v: got %v, GP F.1 gives %v", s, rr, got, want), c)
	}
}

// ---------- part 2: Shuffle ----------

func c20ShuffleInput(n, variant int) []uint32 {
	s := make([]uint32, n)
	for i := range s {
		if variant == 0 {
			s[i] = uint32(i)
		} else {
			s[i] = uint32(1000 + i/3) // repeated elements
		}
	}
	return s
}

func c20CheckShuffle(r *vlib.Run, n, variant, ent int) {
	s := c20ShuffleInput(n, variant)
	e := c20Entropy(ent)
	want := c20RefShuffle(s, e)
	r.Eval()
	var got []uint32
	in := c20ToU32(s)
	p, msg, _ := vlib.Guard(func() { got = c20FromU32(shuffle.Shuffle(in, types.OpaqueHash(e))) })
	r.Transition()
	r.Class(fmt.Sprintf("shuffle %s variant=%d hashblocks=%d", c20LenKey(n), variant, min((n+7)/8, 5)))
	c := c20Case{Part: "shuffle", Len: n, Variant: variant, Ent: ent}
	key := c20LenKey(n)
	switch {
	case p:
		r.Violation("shuffle.Shuffle", "go-panic", key, fmt.Sprintf("len=%d entropy#%d: Go panic %s", n, ent, msg), c)
	case !c20SameMultiset(got, s):
		r.Violation("shuffle.Shuffle", "not-permutation", key, fmt.Sprintf("len=%d entropy#%d: output is not a permutation of the input (got %v)", n, ent, c20Head(got)), c)
	case !c20Eq(got, want):
		r.Violation("shuffle.Shuffle", "wrong-value", key, fmt.Sprintf("len=%d entropy#%d: %s (GP F.3); got %v...", n, ent, c20Diff(got, want), c20Head(got)), c)
	}
	if r.WantSample() && n == 9 {
		r.Sample(map[string]interface{}{"part": "shuffle", "len": n, "entropy": vlib.Hex(e[:]), "out": got})
	}
}

// c20Diff describes the first position where two sequences differ.
func c20Diff(got, want []uint32) string {
	if len(got) != len(want) {
		return fmt.Sprintf("length %d vs %d", len(got), len(want))
	}
	for i := range got {
		if got[i] != want[i] {
			return fmt.Sprintf("first difference at index %d: got %d, reference %d", i, got[i], want[i])
		}
	}
	return "equal"
}

func c20Head(s []uint32) []uint32 {
	if len(s) > 24 {
		return s[:24]
	}
	return s
}

// ---------- part 3: assignments ----------

func c20SetMode(name string) {
	if name == "full" {
		types.SetFullMode()
	} else {
		types.SetTinyMode()
	}
}

func c20Validators(v int, tag byte) types.ValidatorsData {
	out := make(types.ValidatorsData, v)
	for i := range out {
		out[i].Ed25519[0], out[i].Ed25519[1], out[i].Ed25519[2], out[i].Ed25519[31] = tag, byte(i), byte(i>>8), 1
		out[i].Bandersnatch[0], out[i].Bandersnatch[1], out[i].Bandersnatch[2] = tag, byte(i), byte(i>>8)
		out[i].Bls[0], out[i].Bls[1], out[i].Bls[2] = tag, byte(i), byte(i>>8)
		out[i].Metadata[0], out[i].Metadata[1], out[i].Metadata[2] = tag, byte(i), byte(i>>8)
	}
	return out
}

func c20ValsEq(a []types.Validator, b types.ValidatorsData) bool {
	if len(a) != len(b) {
		return false
	}
	for i := range a {
		if a[i] != b[i] {
			return false
		}
	}
	return true
}

func c20GAEq(a, b GuranatorAssignments) bool {
	return c20Eq(c20Cores(a.CoreAssignments), c20Cores(b.CoreAssignments)) && c20ValsEq(a.PublicKeys, types.ValidatorsData(b.PublicKeys))
}

func c20Cores(a []types.CoreIndex) []uint32 {
	o := make([]uint32, len(a))
	for i, v := range a {
		o[i] = uint32(v)
	}
	return o
}

// c20Fresh resets every process-global input of the assignment code: the blockchain singleton and the
// protocol parameter set.
func c20Fresh(mode string) {
	if types.TEST_MODE != "tiny" {
		types.SetTinyMode() // the singleton preallocates O(E + L) buffers: build it under the small set
	}
	blockchain.ResetInstance()
	if mode != "tiny" {
		c20SetMode(mode)
	}
}

// c20SeqCase is set while an ordered sequence of assignments is evaluated (prefix families).
var c20SeqCase *c20Case

// c20CheckPrefixFamily evaluates the four entropies of one prefix family one after the other in this process
// (odd families in reverse order), each against the reference: a result that is cached or keyed by a truncated
// entropy, or that depends on the evaluation order, shows up as a wrong value for the later ones.
func c20CheckPrefixFamily(r *vlib.Run, p c20Params, fam int, t uint32) {
	cc := c20Case{Part: "prefix", Mode: p.name, Ent: fam, Slot: t}
	c20SeqCase = &cc
	defer func() { c20SeqCase = nil }()
	for i := 0; i < 4; i++ {
		v := i
		if fam%2 == 1 {
			v = 3 - i
		}
		c20CheckAssign(r, p, 6+4*fam+v, t)
	}
	r.Class(fmt.Sprintf("prefix-family mode=%s reversed=%v", p.name, fam%2 == 1))
}

func c20CheckAssign(r *vlib.Run, p c20Params, ent int, t uint32) {
	e := c20Entropy(ent)
	e3 := c20Entropy((ent + 1) % c20NEntropies)
	c := c20Case{Part: "assign", Mode: p.name, Ent: ent, Slot: t}
	if c20SeqCase != nil {
		c = *c20SeqCase // part of an ordered sequence of evaluations in one process: replay the whole sequence
	}
	key := "mode=" + p.name
	bad := func(site, kind, detail string) {
		r.Violation(site, kind, key, fmt.Sprintf("mode=%s entropy#%d slot=%d: %s", p.name, ent, t, detail), c)
	}
	c20Fresh(p.name)
	if types.ValidatorsCount != p.V || types.CoresCount != p.C || types.EpochLength != p.E || types.RotationPeriod != p.R {
		bad("types.Set"+p.name+"Mode", "parameter-set", fmt.Sprintf("V,C,E,R = %d,%d,%d,%d; expected %d,%d,%d,%d", types.ValidatorsCount, types.CoresCount, types.EpochLength, types.RotationPeriod, p.V, p.C, p.E, p.R))
		return
	}
	want := c20RefAssign(p, e, t)
	r.Eval()

	// (a) permute vs GP 11.20, permutation, share
	var got []uint32
	pn, msg, _ := vlib.Guard(func() { got = c20Cores(permute(types.Entropy(e), types.TimeSlot(t))) })
	r.Transition()
	if pn {
		bad("extrinsic.permute", "go-panic", msg)
		return
	}
	base := make([]uint32, p.V)
	for i := range base {
		base[i] = uint32((p.C * i) / p.V)
	}
	sub := (int(t) % p.E) / p.R
	r.Class(fmt.Sprintf("assign mode=%s rot=%d epoch=%d", p.name, min(sub%p.C, 3), int(t)/p.E))
	if len(got) != p.V {
		bad("extrinsic.permute", "wrong-length", fmt.Sprintf("%d assignments for V=%d", len(got), p.V))
		return
	}
	cnt := make([]int, p.C)
	for i, x := range got {
		if int(x) >= p.C {
			bad("extrinsic.permute", "core-out-of-range", fmt.Sprintf("validator %d assigned to core %d >= C=%d", i, x, p.C))
			return
		}
		cnt[x]++
	}
	lo, hi := p.V/p.C, (p.V+p.C-1)/p.C
	for core, k := range cnt {
		if k != lo && k != hi {
			bad("extrinsic.permute", "core-share", fmt.Sprintf("core %d has %d validators, expected %d or %d", core, k, lo, hi))
			break
		}
	}
	if !c20Eq(got, want) {
		bad("extrinsic.permute", "wrong-value", fmt.Sprintf("%s (GP 11.20); got %v...", c20Diff(got, want), c20Head(got)))
	}

	// (b) rotation: within an epoch the assignment is constant inside a rotation period and advances
	// by exactly one core per period.
	if int(t)%p.E+1 < p.E {
		var nx []uint32
		vlib.Guard(func() { nx = c20Cores(permute(types.Entropy(e), types.TimeSlot(t+1))) })
		r.Transition()
		d := uint32(0)
		if (int(t)%p.E+1)%p.R == 0 {
			d = 1
		}
		ok := len(nx) == len(got)
		for i := 0; ok && i < len(got); i++ {
			ok = nx[i] == (got[i]+d)%uint32(p.C)
		}
		if !ok {
			bad("extrinsic.permute", "rotation", fmt.Sprintf("slot %d -> %d should rotate by %d core(s): %v... -> %v...", t, t+1, d, c20Head(got), c20Head(nx)))
		}
	}
	// (every slot of the epoch is enumerated, so the chain of t -> t+1 relations gives t -> t+R = +1 core)

	// (c) NewGuranatorAssignments on two fresh "nodes"
	var res [2]GuranatorAssignments
	for k := 0; k < 2; k++ {
		c20Fresh(p.name)
		vals := c20Validators(p.V, 0x11)
		pn, msg, _ := vlib.Guard(func() { res[k] = NewGuranatorAssignments(types.Entropy(e), types.TimeSlot(t), vals) })
		r.Transition()
		if pn {
			bad("extrinsic.NewGuranatorAssignments", "go-panic", msg)
			return
		}
	}
	if !c20GAEq(res[0], res[1]) {
		bad("extrinsic.NewGuranatorAssignments", "nondeterministic", "two computations from fresh state differ")
	}
	if !c20Eq(c20Cores(res[0].CoreAssignments), want) {
		bad("extrinsic.NewGuranatorAssignments", "wrong-value", fmt.Sprintf("%s (GP 11.20)", c20Diff(c20Cores(res[0].CoreAssignments), want)))
	}
	if !c20ValsEq(res[0].PublicKeys, c20Validators(p.V, 0x11)) {
		bad("extrinsic.NewGuranatorAssignments", "wrong-keys", "public keys differ from the (offender-free) validator set")
	}

	// (d) G and G* on the singleton (GP 11.21, 11.22), for τ′ ≥ R
	if int(t) >= p.R {
		var g, gs [1]GuranatorAssignments
		var gerr, gserr [1]error
		for k := 0; k < 1; k++ {
			c20Fresh(p.name)
			post := blockchain.GetInstance().GetPosteriorStates()
			post.SetEta(types.EntropyBuffer{types.Entropy(c20Entropy(5)), types.Entropy(c20Entropy(4)), types.Entropy(e), types.Entropy(e3)})
			post.SetTau(types.TimeSlot(t))
			post.SetKappa(c20Validators(p.V, 0x11))
			post.SetLambda(c20Validators(p.V, 0x22))
			pn, msg, _ := vlib.Guard(func() {
				g[k], gerr[k] = GFunc(map[types.Ed25519Public]bool{})
				gs[k], gserr[k] = GStarFunc(map[types.Ed25519Public]bool{})
			})
			r.TransitionN(2)
			if pn {
				bad("extrinsic.GFunc/GStarFunc", "go-panic", msg)
				return
			}
		}
		if gerr[0] != nil || gserr[0] != nil {
			bad("extrinsic.GFunc/GStarFunc", "unexpected-error", fmt.Sprintf("G err=%v G* err=%v", gerr[0], gserr[0]))
			return
		}
		if !c20Eq(c20Cores(g[0].CoreAssignments), want) || !c20ValsEq(g[0].PublicKeys, c20Validators(p.V, 0x11)) {
			bad("extrinsic.GFunc", "wrong-value", fmt.Sprintf("G: %s (GP 11.21), keys equal kappa': %v", c20Diff(c20Cores(g[0].CoreAssignments), want), c20ValsEq(g[0].PublicKeys, c20Validators(p.V, 0x11))))
		}
		prev := t - uint32(p.R)
		same := int(prev)/p.E == int(t)/p.E
		we, wtag := e, byte(0x11)
		if !same {
			we, wtag = e3, 0x22
		}
		wstar := c20RefAssign(p, we, prev)
		r.Class(fmt.Sprintf("gstar mode=%s same-epoch=%v", p.name, same))
		if !c20Eq(c20Cores(gs[0].CoreAssignments), wstar) || !c20ValsEq(gs[0].PublicKeys, c20Validators(p.V, wtag)) {
			bad("extrinsic.GStarFunc", "wrong-value", fmt.Sprintf("G*: %s (GP 11.22, tau'-R in the same epoch=%v), keys are the expected set: %v", c20Diff(c20Cores(gs[0].CoreAssignments), wstar), same, c20ValsEq(gs[0].PublicKeys, c20Validators(p.V, wtag))))
		}
		if same {
			a, b := c20Cores(g[0].CoreAssignments), c20Cores(gs[0].CoreAssignments)
			ok := len(a) == len(b)
			for i := 0; ok && i < len(a); i++ {
				ok = a[i] == (b[i]+1)%uint32(p.C)
			}
			if !ok {
				bad("extrinsic.GFunc/GStarFunc", "rotation", "G is not G* rotated by one core inside an epoch")
			}
		}
	}
	if r.WantSample() && p.name == "tiny" && t%7 == 5 {
		r.Sample(map[string]interface{}{"part": "assign", "mode": p.name, "entropy": vlib.Hex(e[:]), "slot": t, "cores": got})
	}
}


// ---------- part 5: call sequences (hidden state between consecutive calls) ----------

var c20SeqLens = []int{0, 1, 5, 6, 7, 8, 9, 16, 20, 341, 1023, 1025}

// c20ShuffleOnce: one Shuffle call compared with the reference computed from scratch; the violation carries the
// whole sequence case.
func c20ShuffleOnce(r *vlib.Run, c c20Case, step string, n, ent int) {
	s := c20ShuffleInput(n, 0)
	e := c20Entropy(ent)
	want := c20RefShuffle(s, e)
	var got []uint32
	in := c20ToU32(s)
	p, msg, _ := vlib.Guard(func() { got = c20FromU32(shuffle.Shuffle(in, types.OpaqueHash(e))) })
	r.Transition()
	key := "sequence=" + c.Mode + ";" + step
	switch {
	case p:
		r.Violation("shuffle.Shuffle", "go-panic", key, fmt.Sprintf("sequence %s entropy#%d lengths (%d,%d), call %s (len %d): Go panic %s", c.Mode, c.Ent, c.L1, c.L2, step, n, msg), c)
	case !c20Eq(got, want):
		r.Violation("shuffle.Shuffle", "wrong-value-after-earlier-call", key, fmt.Sprintf("sequence %s entropy#%d lengths (%d,%d), call %s (len %d, entropy#%d): %s (GP F.3)", c.Mode, c.Ent, c.L1, c.L2, step, n, ent, c20Diff(got, want)), c)
	}
}

// c20CheckSeq: consecutive Shuffle calls in one process. Mode "AA": (A, l1) then (A, l2) — same entropy, shorter /
// longer / equal; mode "ABA": (A, l1), (B, l1), (A, l2) with B sharing the first 8 bytes of A.
func c20CheckSeq(r *vlib.Run, c c20Case) {
	r.Eval()
	rel := "equal"
	if c.L1 < c.L2 {
		rel = "grow"
	} else if c.L1 > c.L2 {
		rel = "shrink"
	}
	r.Class(fmt.Sprintf("seq %s %s first-multiple-of-8=%v", c.Mode, rel, c.L1%8 == 0))
	other := c.Ent ^ 1
	if c.Ent >= 6 {
		other = 6 + 4*((c.Ent-6)/4) + ((c.Ent-6)%4+1)%4 // same prefix family
	}
	c20ShuffleOnce(r, c, "1", c.L1, c.Ent)
	if c.Mode == "ABA" {
		c20ShuffleOnce(r, c, "2-other-entropy", c.L1, other)
	}
	c20ShuffleOnce(r, c, "last-"+rel, c.L2, c.Ent)
}

// c20CheckModeSwitch: the same entropy under the tiny and the full parameter set one after the other in one process
// (V = 6 then 1023 then 6, or 1023, 6, 1023): permute / NewGuranatorAssignments / G / G* each against the reference.
func c20CheckModeSwitch(r *vlib.Run, ent int, fullFirst bool, t uint32) {
	cc := c20Case{Part: "modeswitch", Ent: ent, Slot: t, Variant: map[bool]int{false: 0, true: 1}[fullFirst]}
	c20SeqCase = &cc
	defer func() { c20SeqCase = nil }()
	ps := c20ParamSets()
	order := []c20Params{ps[0], ps[1], ps[0]}
	if fullFirst {
		order = []c20Params{ps[1], ps[0], ps[1]}
	}
	for _, p := range order {
		c20CheckAssign(r, p, ent, t)
	}
	r.Class(fmt.Sprintf("modeswitch full-first=%v", fullFirst))
}

func TestVerif_C20(t *testing.T) {
	r := vlib.Start(t, "C20")
	defer r.Finish()
	defer c20Fresh("tiny")

	var rc c20Case
	if r.IsReplay(&rc) {
		switch rc.Part {
		case "fy":
			c20CheckFY(r, rc.S, rc.R)
		case "shuffle":
			c20CheckShuffle(r, rc.Len, rc.Variant, rc.Ent)
		case "assign":
			for _, p := range c20ParamSets() {
				if p.name == rc.Mode {
					c20CheckAssign(r, p, rc.Ent, rc.Slot)
				}
			}
		case "seq":
			c20CheckSeq(r, rc)
		case "modeswitch":
			c20CheckModeSwitch(r, rc.Ent, rc.Variant == 1, rc.Slot)
		case "prefix":
			for _, p := range c20ParamSets() {
				if p.name == rc.Mode {
					c20CheckPrefixFamily(r, p, rc.Ent, rc.Slot)
				}
			}
		}
		return
	}

	idx := uint64(0)
	// part 1: every (s, r), |s| = n <= N, two element patterns, r in [0, 2n)^n
	maxN := vlib.Pick(r, 5, 6)
	for n := 0; n <= maxN; n++ {
		for variant := 0; variant < 2; variant++ {
			if variant == 1 && n < 2 {
				continue
			}
			s := make([]uint32, n)
			for i := range s {
				if variant == 0 {
					s[i] = uint32(10 + i)
				} else {
					s[i] = uint32(10 + i/2) // repeated elements
				}
			}
			radix := make([]int, n)
			for i := range radix {
				radix[i] = 2 * n
			}
			od := vlib.NewOdometer(radix...)
			for od.Next() {
				idx++
				if !r.Mine(idx) {
					continue
				}
				rr := make([]uint32, n)
				for i, d := range od.Digit {
					rr[i] = uint32(d)
				}
				r.Space(1)
				c20CheckFY(r, s, rr)
			}
		}
	}
	// large r values: r_k in {2^32-1, 2^31, l, l-1} patterns for n = 1..maxN (modulus on the full 32-bit range)
	big := []uint32{0xFFFFFFFF, 0x80000000, 0x7FFFFFFF, 0x00010000}
	for n := 1; n <= 4; n++ {
		radix := make([]int, n)
		for i := range radix {
			radix[i] = len(big)
		}
		od := vlib.NewOdometer(radix...)
		for od.Next() {
			idx++
			if !r.Mine(idx) {
				continue
			}
			s := make([]uint32, n)
			rr := make([]uint32, n)
			for i, d := range od.Digit {
				s[i] = uint32(10 + i)
				rr[i] = big[d]
			}
			r.Space(1)
			c20CheckFY(r, s, rr)
		}
	}

	// part 2: Shuffle for every length × 6 entropies × 2 element patterns
	maxLen := vlib.Pick(r, 600, 1100)
	for n := 0; n <= maxLen; n++ {
		for ent := 0; ent < 10; ent++ { // 6 patterns + prefix family 0
			for variant := 0; variant < 2; variant++ {
				idx++
				if !r.Mine(idx) {
					continue
				}
				r.Space(1)
				c20CheckShuffle(r, n, variant, ent)
			}
		}
	}

	// part 2b: sparse lengths around the encoding boundaries of the block counter floor(i/8) (128 = 2^7 ↔ i = 1024,
	// 256 = 2^8 ↔ i = 2048; 16384 = 2^14 ↔ i = 131072): the control-relevant input of Shuffle is the length
	for _, n := range []int{1023, 1024, 1025, 1026, 1027, 1028, 1029, 1030, 1100, 2047, 2048, 2049, 2050} {
		if n <= maxLen {
			continue
		}
		for ent := 0; ent < 10; ent++ {
			idx++
			if !r.Mine(idx) {
				continue
			}
			r.Space(1)
			c20CheckShuffle(r, n, 0, ent)
		}
	}
	// one long case at the 2-byte boundary of a compact counter, thorough only: the real FisherYatesShuffle
	// allocates O(n^2) (~34 GB of short-lived slices, ~45 CPU-s for this single case)
	idx++
	if r.Thorough() && r.Mine(idx) {
		r.Space(1)
		c20CheckShuffle(r, 131072+2, 0, 2)
	}

	// part 3: assignments for every slot of 3 epochs × 4 entropies × both parameter sets
	for _, p := range c20ParamSets() {
		nEnt := 4
		if p.name == "full" {
			nEnt = vlib.Pick(r, 2, 4) // V=1023: ~8 quadratic-allocation shuffles per slot
		}
		for ent := 0; ent < nEnt; ent++ {
			for t := 0; t < 3*p.E; t++ {
				idx++
				if !r.Mine(idx) {
					continue
				}
				r.Space(1)
				c20CheckAssign(r, p, ent, uint32(t))
			}
		}
	}

	// part 5: consecutive calls in one process: every ordered pair of lengths (l1, l2) from c20SeqLens (multiples and
	// non-multiples of 8; grow, shrink, equal) x every entropy of the alphabet, same entropy twice (AA) and A, B, A;
	// and the same entropy under tiny then full then tiny parameters (and full, tiny, full)
	for ent := 0; ent < c20NEntropies; ent++ {
		for _, mode := range []string{"AA", "ABA"} {
			for _, l1 := range c20SeqLens {
				for _, l2 := range c20SeqLens {
					idx++
					if !r.Mine(idx) {
						continue
					}
					r.Space(1)
					c20CheckSeq(r, c20Case{Part: "seq", Mode: mode, Ent: ent, L1: l1, L2: l2})
				}
			}
		}
	}
	for ent := 0; ent < c20NEntropies; ent++ {
		for _, fullFirst := range []bool{false, true} {
			idx++
			if !r.Mine(idx) {
				continue
			}
			r.Space(1)
			c20CheckModeSwitch(r, ent, fullFirst, uint32(5+ent))
		}
	}

	// part 4: entropies that share their first 8 / 16 / 31 bytes, evaluated back to back in one process, in both
	// orders (families 1 and 2; family 0 already went through Shuffle above), at a few slots of two epochs
	for _, p := range c20ParamSets() {
		for fam := 1; fam <= 2; fam++ {
			for _, t := range []int{0, p.R, p.E - 1, p.E, p.E + p.R + 1} {
				idx++
				if !r.Mine(idx) {
					continue
				}
				r.Space(1)
				c20CheckPrefixFamily(r, p, fam, uint32(t))
			}
		}
	}
}
