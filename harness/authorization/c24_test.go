package authorization

// C24 — authorizer pool transition (GP 8.2–8.3).
//
// E1: every (prior pool, guarantee) per core x slot 0..160 through the real
// Authorization() on the blockchain singleton, compared with a functional
// restatement of 8.2–8.3. E2: every chain of consecutive blocks (commit after
// each block exactly as ChainState.StateCommit does) to a fixed depth, so that
// the output slices of one transition are the input of the next.

import (
	"fmt"
	"strings"
	"testing"

	"github.com/New-JAMneration/JAM-Protocol/config"
	"github.com/New-JAMneration/JAM-Protocol/internal/blockchain"
	"github.com/New-JAMneration/JAM-Protocol/internal/types"
	"github.com/New-JAMneration/JAM-Protocol/internal/zzverif/vlib"
	"github.com/New-JAMneration/JAM-Protocol/logger"
)

// ---------- world (process globals fixed once per process) ----------

const (
	c24O = 8  // GP O
	c24Q = 80 // GP Q
	c24C = 2  // cores
)

func c24World(t *testing.T) {
	logger.GetLogger("main").Disable()
	config.Config.Database.Type = "memory" // never the default pebble dir inside /repo
	types.TEST_MODE = "tiny"
	types.ValidatorsCount = 6
	types.CoresCount = c24C
	types.EpochLength = 12
	types.SlotSubmissionEnd = 10
	types.RotationPeriod = 4
	types.MaxTicketsPerBlock = 3
	types.TicketsPerValidator = 3
	types.ValidatorsSuperMajority = 5
	types.AvailBitfieldBytes = 1
	types.MaxLookupAge = 24
	types.MaxKeyLevelCacheSize = types.EpochLength * 50
	if types.AuthPoolMaxSize != c24O || types.AuthQueueSize != c24Q {
		t.Fatalf("C24: constants changed: O=%d Q=%d", types.AuthPoolMaxSize, types.AuthQueueSize)
	}
}

func c24Reset() *blockchain.ChainState {
	blockchain.ResetInstance()
	blockchain.ClearVerifierCache()
	return blockchain.GetInstance()
}

// ---------- hashes ----------
// labels: 0..2 = A,B,C ; 3 = D (never in a pool or queue) ; 4.. = fillers E,F,…
// queue of core c: index 0,1,2 = A,B,C ; index i>=3 = (0xC0+c, i, …) all distinct.

func c24Label(l int) types.AuthorizerHash {
	var h types.AuthorizerHash
	for i := range h {
		h[i] = 0xA5 // all labels share their first 31 bytes: a comparison that stops early confuses them
	}
	h[31] = byte(l)
	return h
}

func c24QueueHash(core, i int) types.AuthorizerHash {
	if i < 3 {
		return c24Label(i)
	}
	var h types.AuthorizerHash
	h[0] = byte(0xC0 + core)
	h[1] = byte(i)
	for k := 2; k < 32; k++ {
		h[k] = byte(i*7 + k)
	}
	return h
}

// c24Qv selects the posterior queue contents used by the current case: 0 = the base queue, v > 0 = the
// base queue rotated (index i holds the base entry i+1 resp. i+40), so the entry selected by one and the
// same slot differs between variants.
var c24Qv int

func c24Queues() types.AuthQueues {
	base := c24QueuesBase()
	rot := map[int]int{0: 0, 1: 1, 2: 40}[c24Qv]
	if rot == 0 {
		return base
	}
	out := make(types.AuthQueues, c24C)
	for c := range base {
		q := make(types.AuthQueue, c24Q)
		for i := range q {
			q[i] = base[c][(i+rot)%c24Q]
		}
		out[c] = q
	}
	return out
}

func c24QueuesBase() types.AuthQueues {
	qs := make(types.AuthQueues, c24C)
	for c := 0; c < c24C; c++ {
		q := make(types.AuthQueue, c24Q)
		for i := 0; i < c24Q; i++ {
			q[i] = c24QueueHash(c, i)
		}
		qs[c] = q
	}
	return qs
}

func c24Name(h types.AuthorizerHash) string {
	for l := 0; l < 16; l++ {
		if h == c24Label(l) {
			return string(rune('A' + l))
		}
	}
	if h[0]&0xF0 == 0xC0 {
		return fmt.Sprintf("q%d.%d", h[0]&0x0F, h[1])
	}
	return fmt.Sprintf("?%x", h[:4])
}

func c24Str(p []types.AuthorizerHash) string {
	s := make([]string, len(p))
	for i, h := range p {
		s[i] = c24Name(h)
	}
	return "[" + strings.Join(s, " ") + "]"
}

// ---------- reference (GP 8.2, 8.3) ----------

// c24Ref: F(c) = α[c] minus the leftmost occurrence of each used authorizer
// (8.3); α′[c] = ←O (F(c) ⌢ φ′[c][slot mod Q]) (8.2).
func c24Ref(pool []types.AuthorizerHash, used []types.AuthorizerHash, qEntry types.AuthorizerHash) []types.AuthorizerHash {
	f := append([]types.AuthorizerHash(nil), pool...)
	for _, u := range used {
		for i := range f {
			if f[i] == u {
				f = append(append([]types.AuthorizerHash(nil), f[:i]...), f[i+1:]...)
				break
			}
		}
	}
	f = append(f, qEntry)
	if len(f) > c24O {
		f = append([]types.AuthorizerHash(nil), f[len(f)-c24O:]...)
	}
	return f
}

// ---------- alphabet ----------

// A pool spec is a label list; Nil selects the nil-slice representation of the
// empty sequence (what the state decoder produces for an empty pool).
type c24Pool struct {
	L   []int `json:"l"`
	Nil bool  `json:"nil,omitempty"`
}

func (p c24Pool) build() types.AuthPool {
	if p.Nil {
		return nil
	}
	out := make(types.AuthPool, 0, len(p.L)) // cap == len: an append must reallocate
	for _, l := range p.L {
		out = append(out, c24Label(l))
	}
	return out
}

func (p c24Pool) hashes() []types.AuthorizerHash {
	out := []types.AuthorizerHash{}
	for _, l := range p.L {
		out = append(out, c24Label(l))
	}
	return out
}

func c24Pools() []c24Pool {
	var ps []c24Pool
	ps = append(ps, c24Pool{Nil: true})
	for n := 0; n <= 3; n++ {
		vlib.Sequences(3, n, func(s []int) { ps = append(ps, c24Pool{L: append([]int{}, s...)}) })
	}
	// lengths 7 and 8 with a repeated element (E..I = 4..8 are fillers)
	long := [][]int{
		{0, 1, 2, 0, 4, 5, 6},
		{4, 0, 5, 0, 6, 0, 7},
		{1, 1, 1, 1, 1, 1, 1},
		{4, 5, 6, 7, 8, 1, 1},
		{0, 1, 0, 2, 4, 5, 6, 7},
		{4, 5, 6, 7, 8, 9, 0, 0},
		{0, 0, 0, 0, 0, 0, 0, 0},
		{1, 4, 5, 6, 7, 8, 9, 1},
		{4, 5, 6, 7, 8, 9, 10, 11}, // full, neither A nor B present
	}
	for _, l := range long {
		ps = append(ps, c24Pool{L: l})
	}
	return ps
}

// reduced pool set for the "other" core
func c24PoolsSmall() []c24Pool {
	return []c24Pool{{Nil: true}, {L: []int{}}, {L: []int{0}}, {L: []int{1, 0, 1}}, {L: []int{0, 1, 0, 2, 4, 5, 6, 7}}, {L: []int{4, 0, 5, 0, 6, 0, 7}}}
}

// guarantee for a core: -1 none, 0 A, 1 B, 3 D (absent everywhere)
var c24Guar = []int{-1, 0, 1, 3}

type c24Case struct {
	Mode  string     `json:"mode"` // "single" | "chain"
	P     [2]c24Pool `json:"p"`
	G     [2]int     `json:"g"`
	Slot  uint32     `json:"slot"`
	Desc  bool       `json:"desc,omitempty"`  // guarantees listed core 1 first
	Cross bool       `json:"cross,omitempty"` // case of the cross-call pass (violation key says so)
	Qv    int        `json:"qv,omitempty"`    // posterior queue variant (0 base, 1 rotated by 1, 2 rotated by 40)
	Init  [2]c24Pool `json:"init"`
	Steps [][3]int   `json:"steps,omitempty"` // chain: (g0, g1, slot offset k); slot = 80*depth + k
}

func c24Block(slot uint32, g [2]int, desc bool) types.Block {
	var egs types.GuaranteesExtrinsic
	order := []int{0, 1}
	if desc {
		order = []int{1, 0}
	}
	for _, c := range order {
		if g[c] >= 0 {
			egs = append(egs, types.ReportGuarantee{Report: types.WorkReport{CoreIndex: types.CoreIndex(c), AuthorizerHash: types.OpaqueHash(c24Label(g[c]))}})
		}
	}
	return types.Block{Header: types.Header{Slot: types.TimeSlot(slot)}, Extrinsic: types.Extrinsic{Guarantees: egs}}
}

func c24Canon(a types.AuthPools) string {
	var sb strings.Builder
	for c, p := range a {
		fmt.Fprintf(&sb, "%d:%s;", c, c24Str(p))
	}
	return sb.String()
}

func c24Equal(a []types.AuthorizerHash, b types.AuthPool) bool {
	if len(a) != len(b) {
		return false
	}
	for i := range a {
		if a[i] != b[i] {
			return false
		}
	}
	return true
}

func c24PoolClass(p c24Pool, g int) string {
	occ := 0
	for _, l := range p.L {
		if l == g {
			occ++
		}
	}
	gk := "none"
	if g >= 0 {
		switch {
		case occ == 0:
			gk = "absent"
		case occ == 1:
			gk = "once"
		default:
			gk = "repeated"
		}
	}
	lk := "short"
	switch {
	case p.Nil:
		lk = "nil"
	case len(p.L) == 0:
		lk = "empty"
	case len(p.L) == 7:
		lk = "O-1"
	case len(p.L) == 8:
		lk = "O"
	}
	return "pool=" + lk + " used=" + gk
}

func c24Key(p c24Pool, g int) string {
	k := fmt.Sprintf("len=%d", len(p.L))
	if p.Nil {
		k = "pool=nil"
	}
	if g < 0 {
		return k + ",guarantee=none"
	}
	for _, l := range p.L {
		if l == g {
			return k + ",guarantee=present"
		}
	}
	return k + ",guarantee=absent"
}

// one block through the real Authorization(); returns posterior alpha
func c24Apply(cs *blockchain.ChainState, slot uint32, g [2]int, desc bool) (types.AuthPools, error, bool, string) {
	cs.AddBlock(c24Block(slot, g, desc))
	cs.GetPosteriorStates().SetVarphi(c24Queues())
	var err error
	p, msg, _ := vlib.Guard(func() { err = Authorization() })
	if p {
		return nil, nil, true, msg
	}
	return cs.GetPosteriorStates().GetAlpha(), err, false, ""
}

// the tail of ChainState.StateCommit: posterior becomes prior (shallow), posterior reset
func c24Commit(cs *blockchain.ChainState) {
	post := cs.GetPosteriorStates().GetState()
	cs.GetPriorStates().SetState(post)
	cs.GetPosteriorStates().SetState(blockchain.NewPosteriorStates().GetState())
}

var c24PriorMutated int

func c24RunSingle(r *vlib.Run, c c24Case) string {
	c24Qv = c.Qv
	defer func() { c24Qv = 0 }()
	cs := c24Reset()
	prior := types.AuthPools{c.P[0].build(), c.P[1].build()}
	snap := [2][]types.AuthorizerHash{append([]types.AuthorizerHash(nil), prior[0]...), append([]types.AuthorizerHash(nil), prior[1]...)}
	p0, p1 := prior[0], prior[1]
	cs.GetPriorStates().SetAlpha(prior)
	got, err, panicked, msg := c24Apply(cs, c.Slot, c.G, c.Desc)
	r.Transition()
	// diagnostic only (not asserted, the statement does not require it): did the call write into the
	// arrays of the prior state's pools?
	if !c24Equal(snap[0], p0) || !c24Equal(snap[1], p1) {
		c24PriorMutated++
	}
	r.Eval()
	qs := c24Queues()
	var canon strings.Builder
	for core := 0; core < c24C; core++ {
		var used []types.AuthorizerHash
		if c.G[core] >= 0 {
			used = append(used, c24Label(c.G[core]))
		}
		want := c24Ref(c.P[core].hashes(), used, qs[core][int(c.Slot)%c24Q])
		key := c24Key(c.P[core], c.G[core])
		if c.Cross {
			key = fmt.Sprintf("cross-call,queue-variant=%d", c.Qv)
		}
		trim := len(c.P[core].L)+1-len(used) > c24O
		r.Class(fmt.Sprintf("%s trimmed=%v", c24PoolClass(c.P[core], c.G[core]), trim && len(want) == c24O))
		switch {
		case panicked:
			r.Violation("authorization.Authorization", "go-panic", key, fmt.Sprintf("core %d pool %s guarantee %d slot %d: Go panic %s", core, c24Str(c.P[core].hashes()), c.G[core], c.Slot, msg), c)
			return "panic"
		case err != nil:
			// attribute the error to the core whose input explains it (nil pool + guarantee);
			// an error nobody explains is reported for every core
			explained := false
			for k := 0; k < c24C; k++ {
				if c.P[k].Nil && c.G[k] >= 0 {
					explained = true
				}
			}
			if explained && !(c.P[core].Nil && c.G[core] >= 0) {
				continue
			}
			r.Violation("authorization.updatePoolFromQueue", "transition-error", key, fmt.Sprintf("core %d prior pool %s (nil slice=%v) guarantee %d slot %d: Authorization() returned error %q, expected posterior pool %s", core, c24Str(c.P[core].hashes()), c.P[core].Nil, c.G[core], c.Slot, err.Error(), c24Str(want)), c)
		case len(got) != c24C:
			r.Violation("authorization.STFAlpha2AlphaPrime", "wrong-core-count", key, fmt.Sprintf("posterior alpha has %d pools", len(got)), c)
		default:
			if len(got[core]) > c24O {
				r.Violation("authorization.STFAlpha2AlphaPrime", "pool-exceeds-O", key, fmt.Sprintf("core %d posterior pool has %d entries", core, len(got[core])), c)
			}
			if !c24Equal(want, got[core]) {
				r.Violation("authorization.STFAlpha2AlphaPrime", "wrong-pool", key, fmt.Sprintf("core %d prior %s guarantee %d slot %d: posterior %s, reference %s", core, c24Str(c.P[core].hashes()), c.G[core], c.Slot, c24Str(got[core]), c24Str(want)), c)
			}
		}
		canon.WriteString(c24Str(want))
	}
	if err != nil {
		return "err:" + err.Error()
	}
	return c24Canon(got)
}

func c24RunChain(r *vlib.Run, c c24Case) string {
	cs := c24Reset()
	cs.GetPriorStates().SetAlpha(types.AuthPools{c.Init[0].build(), c.Init[1].build()})
	ref := [2][]types.AuthorizerHash{c.Init[0].hashes(), c.Init[1].hashes()}
	qs := c24Queues()
	var trace strings.Builder
	for d, st := range c.Steps {
		slot := uint32(80*d + st[2])
		g := [2]int{st[0], st[1]}
		got, err, panicked, msg := c24Apply(cs, slot, g, false)
		r.Transition()
		key := fmt.Sprintf("chain,depth=%d", d+1)
		if panicked {
			r.Violation("authorization.Authorization", "go-panic", key, fmt.Sprintf("chain %v step %d: Go panic %s", c.Steps, d, msg), c)
			return "panic"
		}
		if err != nil {
			for k := 0; k < c24C; k++ {
				if d == 0 && c.Init[k].Nil && g[k] >= 0 {
					key = "pool=nil,guarantee=absent" // same defect class as in E1
				}
			}
			r.Violation("authorization.updatePoolFromQueue", "transition-error", key, fmt.Sprintf("chain init %s/%s steps %v step %d: error %q", c24Str(ref[0]), c24Str(ref[1]), c.Steps, d, err.Error()), c)
			return "err"
		}
		for core := 0; core < c24C; core++ {
			var used []types.AuthorizerHash
			if g[core] >= 0 {
				used = append(used, c24Label(g[core]))
			}
			before := ref[core]
			ref[core] = c24Ref(before, used, qs[core][int(slot)%c24Q])
			if len(got) != c24C || !c24Equal(ref[core], got[core]) {
				var gs string
				if len(got) == c24C {
					gs = c24Str(got[core])
				}
				r.Violation("authorization.STFAlpha2AlphaPrime", "wrong-pool", key, fmt.Sprintf("chain steps %v: at step %d core %d prior %s guarantee %d slot %d: posterior %s, reference %s", c.Steps, d, core, c24Str(before), g[core], slot, gs, c24Str(ref[core])), c)
				return "diverged"
			}
			if len(got[core]) > c24O {
				r.Violation("authorization.STFAlpha2AlphaPrime", "pool-exceeds-O", key, fmt.Sprintf("core %d posterior pool has %d entries", core, len(got[core])), c)
			}
		}
		trace.WriteString(c24Canon(got))
		trace.WriteString("|")
		r.State(c24Canon(got))
		c24Commit(cs)
		// the committed prior must still be what the transition produced
		if pa := cs.GetPriorStates().GetAlpha(); len(pa) != c24C || !c24Equal(ref[0], pa[0]) || !c24Equal(ref[1], pa[1]) {
			r.Violation("blockchain.StateCommit", "commit-changed-alpha", key, "prior alpha after commit differs from the posterior alpha", c)
		}
	}
	r.Trace()
	r.Eval()
	return trace.String()
}

func c24Run(r *vlib.Run, c c24Case) string {
	if c.Mode == "chain" {
		return c24RunChain(r, c)
	}
	return c24RunSingle(r, c)
}

func TestVerif_C24(t *testing.T) {
	r := vlib.Start(t, "C24")
	defer r.Finish()
	c24World(t)

	var rc c24Case
	if r.IsReplay(&rc) {
		c24Run(r, rc)
		return
	}

	// self-test: two rebuilds of the same case/history give identical canonical results
	selfA := c24Case{Mode: "single", P: [2]c24Pool{{L: []int{0, 1, 0}}, {L: []int{4, 0, 5, 0, 6, 0, 7}}}, G: [2]int{0, 0}, Slot: 81}
	selfB := c24Case{Mode: "chain", Init: [2]c24Pool{{L: []int{0, 1, 0}}, {L: []int{0, 1, 0, 2, 4, 5, 6, 7}}}, Steps: [][3]int{{0, 1, 0}, {-1, 0, 1}, {1, 3, 7}}}
	{
		s1, s2 := c24Run(r, selfA), c24Run(r, selfA)
		s3, s4 := c24Run(r, selfB), c24Run(r, selfB)
		if s1 != s2 || s3 != s4 || strings.HasPrefix(s1, "err") || s3 == "err" {
			t.Fatalf("C24 self-test: rebuilds differ or fail: %q %q %q %q", s1, s2, s3, s4)
		}
	}

	pools := c24Pools()
	small := c24PoolsSmall()
	idx := uint64(0)

	// ---- E1 ----
	// quick: one core ranges over the full pool set, the other over the reduced set (both roles);
	// thorough: full x full.
	type pair struct{ a, b []c24Pool }
	var plans []pair
	if r.Thorough() {
		plans = []pair{{pools, pools}}
	} else {
		plans = []pair{{pools, small}, {small, pools}}
	}
	slots := 161
	for _, pl := range plans {
		for _, p0 := range pl.a {
			for _, p1 := range pl.b {
				for _, g0 := range c24Guar {
					for _, g1 := range c24Guar {
						idx++
						if !r.Mine(idx) {
							continue
						}
						for s := 0; s < slots; s++ {
							for _, desc := range []bool{false, true} {
								if desc && (g0 < 0 || g1 < 0) {
									continue
								}
								c := c24Case{Mode: "single", P: [2]c24Pool{p0, p1}, G: [2]int{g0, g1}, Slot: uint32(s), Desc: desc}
								r.Space(1)
								c24RunSingle(r, c)
								if r.WantSample() && s == 82 && g0 == 0 {
									r.Sample(c)
								}
							}
						}
					}
				}
			}
		}
	}

	// ---- cross-call pass: state kept between calls (e.g. keyed by the slot alone) ----
	// For every slot 0..160 four transitions run back to back in this process: queue variant 0, 1, 0, 2
	// at the SAME slot (sibling blocks with different posterior queues, then the same queue again), and
	// the slot loop gives different slot & same queue; each result is compared with the reference.
	for _, p0 := range small {
		for _, p1 := range small {
			for _, g0 := range c24Guar {
				for _, g1 := range c24Guar {
					idx++
					if !r.Mine(idx) {
						continue
					}
					for sl := 0; sl < slots; sl++ {
						for _, qv := range []int{0, 1, 0, 2} {
							r.Space(1)
							c24RunSingle(r, c24Case{Mode: "single", P: [2]c24Pool{p0, p1}, G: [2]int{g0, g1}, Slot: uint32(sl), Qv: qv, Cross: true})
						}
					}
				}
			}
		}
	}

	// ---- E2: chains of consecutive blocks ----
	depth := vlib.Pick(r, 2, 3)
	inits := [][2]c24Pool{
		{{L: []int{}}, {Nil: true}},
		{{L: []int{0}}, {L: []int{1, 0, 1}}},
		{{L: []int{0, 1, 0}}, {L: []int{0, 1, 0, 2, 4, 5, 6}}},
		{{L: []int{0, 1, 0, 2, 4, 5, 6, 7}}, {L: []int{4, 0, 5, 0, 6, 0, 7}}},
		{{L: []int{0, 0, 0, 0, 0, 0, 0, 0}}, {L: []int{1, 4, 5, 6, 7, 8, 9, 1}}},
	}
	ks := []int{0, 1, 2, 7}
	var events [][3]int
	for _, g0 := range c24Guar {
		for _, g1 := range c24Guar {
			for _, k := range ks {
				events = append(events, [3]int{g0, g1, k})
			}
		}
	}
	for _, in := range inits {
		for d := 1; d <= depth; d++ {
			vlib.Sequences(len(events), d, func(s []int) {
				idx++
				if !r.Mine(idx) {
					return
				}
				c := c24Case{Mode: "chain", Init: in}
				for _, e := range s {
					c.Steps = append(c.Steps, events[e])
				}
				r.Space(1)
				c24RunChain(r, c)
			})
		}
	}
	r.Extra("sum_diagnostic_cases_where_prior_state_pool_array_was_overwritten", c24PriorMutated)
}
