package statistics

// C34 — activity statistics accounting (GP 13.x) checked by an explicit-state
// search over block histories. The real functions (UpdateValidatorActivityStatistics
// and, through it, UpdateCurrentStatistics / UpdateCoreActivityStatistics /
// UpdateServiceActivityStatistics, exactly as stf.UpdateStatistics calls them) run on
// the blockchain singleton, rebuilt from ResetInstance() for every transition by
// replaying the state's event history. The oracle is a from-scratch restatement
// of the clauses of the property.

import (
		"fmt"
	"os"
	"sort"
	"testing"

	"github.com/New-JAMneration/JAM-Protocol/internal/blockchain"
	"github.com/New-JAMneration/JAM-Protocol/internal/types"
	"github.com/New-JAMneration/JAM-Protocol/internal/zzverif/vlib"
	"github.com/New-JAMneration/JAM-Protocol/logger"
)

func init() {
	// no directory-backed database in the package directory: memory repositories only
	os.Setenv("JAM_FUZZ", "1")
}

const (
	c34V     = 6
	c34C     = 2
	c34E     = 12
	c34Tau0  = 5
	c34SegWG = 4104
)

// ---------- events ----------

type c34Event struct {
	Author int `json:"author"` // 0 | 5
	Jump   int `json:"jump"`   // 0: slot+1, 1: first slot of the next epoch
	Tick   int `json:"tick"`   // 0..2 tickets
	Pre    int `json:"pre"`    // 0 none, 1 one 3-byte blob, 2 two blobs
	Guar   int `json:"guar"`   // 0 none, 1 one guarantee with 2 signers, 2 one with 3 signers, 3..8 two guarantees (see c34Guarantees)
	Assur  int `json:"assur"`  // bit0: validator 1 assures, bit1: validator 4 assures
	Work   int `json:"work"`   // index into the work alphabet
}

type c34Case struct {
	History []c34Event `json:"history"`
	Event   c34Event   `json:"event"`
}

func c34Events() []c34Event {
	var out []c34Event
	for _, a := range []int{0, 5} {
		for j := 0; j < 2; j++ {
			for t := 0; t < 3; t++ {
				for p := 0; p < 3; p++ {
					for g := 0; g < 9; g++ {
						for as := 0; as < 4; as++ {
							for w := 0; w < 3; w++ {
								if g >= 3 && (t == 1 || p == 1 || as == 1 || as == 2) {
									// two-guarantee blocks: the other axes at their extremes only
									// (tickets {0,2}, preimages {none,two}, assurers {none,both})
									continue
								}
								out = append(out, c34Event{a, j, t, p, g, as, w})
							}
						}
					}
				}
			}
		}
	}
	return out
}

// one guarantee of a block: its signers, which report it carries (false: the work
// alphabet's reported report; true: the fixed second report on the other core) and
// whether its slot lies in the previous rotation (the G* case of GP 11.22)
type c34Guar struct {
	signers []int
	second  bool
	prevRot bool
}

// Guar 3..8: TWO guarantees in one block (cores c and 1-c) with (a) disjoint signers,
// (b) one common signer, (c) the same signer set; odd codes put the second guarantee
// into the previous rotation. A validator signing both is one reporter (GP 13.5: the
// block-wide reporter SET): it gains exactly one.
func c34Guarantees(code int) []c34Guar {
	switch code {
	case 1:
		return []c34Guar{{signers: []int{1, 3}}}
	case 2:
		return []c34Guar{{signers: []int{0, 3, 5}}}
	case 3, 4:
		return []c34Guar{{signers: []int{1, 3}}, {signers: []int{0, 5}, second: true, prevRot: code == 4}}
	case 5, 6:
		return []c34Guar{{signers: []int{1, 3}}, {signers: []int{3, 5}, second: true, prevRot: code == 6}}
	case 7, 8:
		return []c34Guar{{signers: []int{1, 3}}, {signers: []int{1, 3}, second: true, prevRot: code == 8}}
	}
	return nil
}

// the set of reporters of the block
func c34Reporters(code int) []int {
	seen := map[int]bool{}
	var out []int
	for _, g := range c34Guarantees(code) {
		for _, v := range g.signers {
			if !seen[v] {
				seen[v] = true
				out = append(out, v)
			}
		}
	}
	return out
}

// the report carried by a guarantee
func c34GuarReport(g c34Guar, w c34Work) c34Report {
	if !g.second {
		return w.reported
	}
	return c34Report{core: 1 - w.reported.core, length: 173, exports: 2, authGas: 17, results: []c34Load{{3, 97, 101, 103, 107, 1090}}}
}

// guarantee slot: the block's slot, or a slot of the previous rotation when that
// rotation lies in the same epoch (then G* still looks reporters up in kappa', which
// is what the statement's "each reporting guarantor" unambiguously covers)
func c34GuarSlot(g c34Guar, slot uint32) uint32 {
	const rot = 4
	if g.prevRot && slot >= rot && (slot-rot)/c34E == slot/c34E {
		return slot - rot
	}
	return slot
}
var c34AssurVals = []int{1, 4}
var c34AssurBits = []byte{0x01, 0x03} // validator 1: core 0; validator 4: cores 0 and 1

type c34Blob struct {
	svc  uint32
	size int
}

var c34Preimages = [][]c34Blob{nil, {{1, 3}}, {{1, 3}, {2, 5}}}

// work alphabet: (report carried by the guarantee, newly available reports, accumulation statistics)
type c34Load struct {
	svc                uint32
	gas                uint64
	imp, xc, exp       uint16
	xsize              uint32
}
type c34Report struct {
	core    int
	length  uint32
	exports uint16
	authGas uint64
	results []c34Load
}
type c34Acc struct {
	svc   uint32
	gas   uint64
	count uint64
}
type c34Work struct {
	reported  c34Report
	available []c34Report
	acc       []c34Acc
}

var c34Works = []c34Work{
	{ // 0: one result; nothing available; accumulation statistics with ZERO accumulated reports but gas > 0
		// (always-accumulate / transfer-only services): service 7 appears in no work report and no
		// preimage, service 2 only in the preimages (pre = 2)
		reported: c34Report{core: 0, length: 101, exports: 0, authGas: 7, results: []c34Load{{1, 1000, 2, 3, 5, 70}}},
		acc:      []c34Acc{{7, 13000, 0}, {2, 900, 0}},
		// export counts around the point where 65*n+63 no longer fits 16 bits (n = 1007 | 1008)
		available: []c34Report{{core: 0, length: 131, exports: 1007, results: []c34Load{{1, 1, 1, 1, 1, 1}}}, {core: 1, length: 137, exports: 1008, results: []c34Load{{1, 1, 1, 1, 1, 1}}}},
	},
	{ // 1: two results for two services on core 1; one available report; one accumulated service
		reported:  c34Report{core: 1, length: 211, exports: 3, authGas: 11, results: []c34Load{{1, 2000, 7, 11, 13, 170}, {2, 3000, 17, 19, 23, 290}}},
		available: []c34Report{{core: 1, length: 307, exports: 3072, results: []c34Load{{3, 1, 1, 1, 1, 1}}}}, // 3072 = the legal maximum of exports
		acc:       []c34Acc{{1, 5000, 1}, {8, 0, 2}}, // service 8: reports > 0, gas = 0, accumulation statistics only
	},
	{ // 2: two results for the same service; two available reports; two accumulated services (one otherwise unseen)
		reported:  c34Report{core: 1, length: 401, exports: 1, authGas: 13, results: []c34Load{{2, 31, 37, 41, 43, 470}, {2, 53, 59, 61, 67, 710}}},
		available: []c34Report{{core: 0, length: 503, exports: 64, results: []c34Load{{1, 1, 1, 1, 1, 1}}}, {core: 1, length: 601, exports: 65, results: []c34Load{{1, 1, 1, 1, 1, 1}}}},
		acc:       []c34Acc{{2, 7000, 2}, {9, 11000, 3}},
	},
}

// ---------- reference R-stf 13.x ----------

type c34Rec struct{ B, T, P, D, G, A uint32 }

type c34State struct {
	Tau  uint32
	Curr [c34V]c34Rec
	Last [c34V]c34Rec
}

type c34Core struct {
	DALoad                          uint32
	Popularity                      uint16
	Imports, ExtrinsicCount, Exports uint16
	ExtrinsicSize, BundleSize       uint32
	GasUsed                         uint64
}

type c34Svc struct {
	ProvidedCount                                                            uint16
	ProvidedSize, RefinementCount                                            uint32
	RefinementGasUsed                                                        uint64
	Imports, ExtrinsicCount, ExtrinsicSize, Exports, AccumulateCount         uint32
	AccumulateGasUsed                                                        uint64
}

type c34Out struct {
	St    c34State
	Cores [c34C]c34Core
	Svcs  map[uint32]c34Svc
}

func c34NextSlot(tau uint32, e c34Event) uint32 {
	if e.Jump == 1 {
		return (tau/c34E + 1) * c34E
	}
	return tau + 1
}

func c34Ref(s c34State, e c34Event) c34Out {
	var o c34Out
	slot := c34NextSlot(s.Tau, e)
	// at an epoch change the current validator records become the previous ones and are reset
	if slot/c34E == s.Tau/c34E {
		o.St.Curr, o.St.Last = s.Curr, s.Last
	} else {
		o.St.Last = s.Curr
	}
	o.St.Tau = slot
	// the author gains one block plus the block's ticket count, preimage count and preimage octets
	a := &o.St.Curr[e.Author]
	a.B++
	a.T += uint32(e.Tick)
	for _, b := range c34Preimages[e.Pre] {
		a.P++
		a.D += uint32(b.size)
	}
	// each reporting guarantor gains one
	for _, v := range c34Reporters(e.Guar) {
		o.St.Curr[v].G++
	}
	// each assurer gains one
	for i, v := range c34AssurVals {
		if e.Assur&(1<<i) != 0 {
			o.St.Curr[v].A++
		}
	}
	// cores: sums over the newly reported and newly available work, assurance counts
	w := c34Works[e.Work]
	for _, g := range c34Guarantees(e.Guar) {
		rep := c34GuarReport(g, w)
		c := &o.Cores[rep.core]
		for _, r := range rep.results {
			c.Imports += r.imp
			c.ExtrinsicCount += r.xc
			c.ExtrinsicSize += r.xsize
			c.Exports += r.exp
			c.GasUsed += r.gas
		}
		c.BundleSize += rep.length
	}
	for _, av := range w.available {
		segs := (uint32(av.exports)*65 + 63) / 64
		o.Cores[av.core].DALoad += av.length + c34SegWG*segs
	}
	for i := range c34AssurVals {
		if e.Assur&(1<<i) != 0 {
			for c := 0; c < c34C; c++ {
				if c34AssurBits[i]&(1<<c) != 0 {
					o.Cores[c].Popularity++
				}
			}
		}
	}
	// services: keys = services of reported results ∪ preimage requesters ∪ accumulated services
	o.Svcs = map[uint32]c34Svc{}
	for _, g := range c34Guarantees(e.Guar) {
		for _, r := range c34GuarReport(g, w).results {
			sv := o.Svcs[r.svc]
			sv.RefinementCount++
			sv.RefinementGasUsed += r.gas
			sv.Imports += uint32(r.imp)
			sv.ExtrinsicCount += uint32(r.xc)
			sv.ExtrinsicSize += r.xsize
			sv.Exports += uint32(r.exp)
			o.Svcs[r.svc] = sv
		}
	}
	for _, b := range c34Preimages[e.Pre] {
		sv := o.Svcs[b.svc]
		sv.ProvidedCount++
		sv.ProvidedSize += uint32(b.size)
		o.Svcs[b.svc] = sv
	}
	for _, ac := range w.acc {
		sv := o.Svcs[ac.svc]
		sv.AccumulateCount += uint32(ac.count)
		sv.AccumulateGasUsed += ac.gas
		o.Svcs[ac.svc] = sv
	}
	return o
}

func c34Init() c34State { return c34State{Tau: c34Tau0} }

func (s c34State) canon() string {
	b := make([]byte, 0, 4+2*c34V*6*4)
	put := func(v uint32) { b = append(b, byte(v), byte(v>>8), byte(v>>16), byte(v>>24)) }
	put(s.Tau)
	for _, l := range [][c34V]c34Rec{s.Curr, s.Last} {
		for _, r := range l {
			put(r.B)
			put(r.T)
			put(r.P)
			put(r.D)
			put(r.G)
			put(r.A)
		}
	}
	return string(b)
}

// ---------- real side ----------

func c34Validators(tag byte) types.ValidatorsData {
	vs := make(types.ValidatorsData, c34V)
	for i := range vs {
		for j := 0; j < 32; j++ {
			vs[i].Ed25519[j] = tag ^ byte(i*37+j)
			vs[i].Bandersnatch[j] = tag ^ byte(i*41+j+1)
		}
	}
	return vs
}

func c34MkReport(r c34Report) types.WorkReport {
	wr := types.WorkReport{CoreIndex: types.CoreIndex(r.core), AuthGasUsed: types.Gas(r.authGas)}
	wr.PackageSpec.Length = types.U32(r.length)
	wr.PackageSpec.ExportsCount = types.U16(r.exports)
	wr.PackageSpec.Hash[0] = byte(r.length)
	for _, l := range r.results {
		wr.Results = append(wr.Results, types.WorkResult{
			ServiceID: types.ServiceID(l.svc),
			RefineLoad: types.RefineLoad{GasUsed: types.Gas(l.gas), Imports: types.U16(l.imp), ExtrinsicCount: types.U16(l.xc),
				ExtrinsicSize: types.U32(l.xsize), Exports: types.U16(l.exp)},
		})
	}
	return wr
}

func c34Silence() {
	logger.ConfigureLogger("main", logger.LoggerConfig{Level: "FATAL", Enabled: false})
}

// c34Reset rebuilds every process-global the seam reads.
func c34Reset() *blockchain.ChainState {
	types.SetTinyMode()
	blockchain.ResetInstance()
	blockchain.ClearVerifierCache()
	cs := blockchain.GetInstance()
	p := cs.GetPriorStates()
	p.SetKappa(c34Validators(0x10))
	p.SetLambda(c34Validators(0x80))
	p.SetTau(types.TimeSlot(c34Tau0))
	p.SetPi(types.Statistics{
		ValsCurr: make(types.ValidatorsStatistics, c34V),
		ValsLast: make(types.ValidatorsStatistics, c34V),
		Cores:    make(types.CoresStatistics, c34C),
	})
	var eta types.EntropyBuffer
	for i := range eta {
		for j := range eta[i] {
			eta[i][j] = byte(i*50 + j)
		}
	}
	p.SetEta(eta)
	return cs
}

// c34Step applies one block through the seam and returns the posterior π.
func c34Step(cs *blockchain.ChainState, e c34Event) (types.Statistics, types.TimeSlot) {
	prior := cs.GetPriorStates()
	tau := prior.GetTau()
	slot := types.TimeSlot(c34NextSlot(uint32(tau), e))

	var blk types.Block
	blk.Header.Slot = slot
	blk.Header.AuthorIndex = types.ValidatorIndex(e.Author)
	for i := 0; i < e.Tick; i++ {
		var t types.TicketEnvelope
		t.Attempt = types.TicketAttempt(i)
		t.Signature[0] = byte(i + 1)
		blk.Extrinsic.Tickets = append(blk.Extrinsic.Tickets, t)
	}
	for _, b := range c34Preimages[e.Pre] {
		blob := make(types.ByteSequence, b.size)
		for i := range blob {
			blob[i] = byte(b.size + i)
		}
		blk.Extrinsic.Preimages = append(blk.Extrinsic.Preimages, types.Preimage{Requester: types.ServiceID(b.svc), Blob: blob})
	}
	w := c34Works[e.Work]
	var present []types.WorkReport
	for _, gd := range c34Guarantees(e.Guar) {
		g := types.ReportGuarantee{Report: c34MkReport(c34GuarReport(gd, w)), Slot: types.TimeSlot(c34GuarSlot(gd, uint32(slot)))}
		for _, v := range gd.signers {
			g.Signatures = append(g.Signatures, types.ValidatorSignature{ValidatorIndex: types.ValidatorIndex(v)})
		}
		blk.Extrinsic.Guarantees = append(blk.Extrinsic.Guarantees, g)
		present = append(present, g.Report)
	}
	for i, v := range c34AssurVals {
		if e.Assur&(1<<i) != 0 {
			bf, err := types.MakeBitfieldFromByteSlice([]byte{c34AssurBits[i]})
			if err != nil {
				panic(err)
			}
			blk.Extrinsic.Assurances = append(blk.Extrinsic.Assurances, types.AvailAssurance{Bitfield: bf, ValidatorIndex: types.ValidatorIndex(v)})
		}
	}
	cs.AddBlock(blk)

	// what Safrole / reports / assurances / accumulation leave behind for the statistics step
	post := cs.GetPosteriorStates()
	post.SetTau(slot)
	post.SetKappa(prior.GetKappa())
	post.SetLambda(prior.GetLambda())
	post.SetEta(prior.GetEta())
	inter := cs.GetIntermediateStates()
	inter.SetPresentWorkReports(present)
	var avail []types.WorkReport
	for _, av := range w.available {
		avail = append(avail, c34MkReport(av))
	}
	inter.SetAvailableWorkReports(avail)
	acc := types.AccumulationStatistics{}
	for _, a := range w.acc {
		acc[types.ServiceID(a.svc)] = types.GasAndNumAccumulatedReports{Gas: types.Gas(a.gas), NumAccumulatedReports: types.U64(a.count)}
	}
	inter.SetAccumulationStatistics(acc)

	UpdateValidatorActivityStatistics() // exactly what stf.UpdateStatistics does

	return post.GetPi(), slot
}

// c34Commit: posterior → prior for the fields of this seam (deep copies, so that
// the next block starts from what the real code produced and nothing else).
func c34Commit(cs *blockchain.ChainState, pi types.Statistics, slot types.TimeSlot) {
	cp := types.Statistics{
		ValsCurr: append(types.ValidatorsStatistics(nil), pi.ValsCurr...),
		ValsLast: append(types.ValidatorsStatistics(nil), pi.ValsLast...),
		Cores:    append(types.CoresStatistics(nil), pi.Cores...),
		Services: types.ServicesStatistics{},
	}
	for k, v := range pi.Services {
		cp.Services[k] = v
	}
	cs.GetPriorStates().SetPi(cp)
	cs.GetPriorStates().SetTau(slot)
	cs.GetPosteriorStates().SetState(blockchain.NewPosteriorStates().GetState())
}

func c34FromReal(pi types.Statistics, slot types.TimeSlot) (c34Out, string) {
	var o c34Out
	o.St.Tau = uint32(slot)
	if len(pi.ValsCurr) != c34V || len(pi.ValsLast) != c34V {
		return o, fmt.Sprintf("validator record counts %d/%d, want %d", len(pi.ValsCurr), len(pi.ValsLast), c34V)
	}
	if len(pi.Cores) != c34C {
		return o, fmt.Sprintf("core record count %d, want %d", len(pi.Cores), c34C)
	}
	cv := func(r types.ValidatorActivityRecord) c34Rec {
		return c34Rec{uint32(r.Blocks), uint32(r.Tickets), uint32(r.PreImages), uint32(r.PreImagesSize), uint32(r.Guarantees), uint32(r.Assurances)}
	}
	for i := 0; i < c34V; i++ {
		o.St.Curr[i] = cv(pi.ValsCurr[i])
		o.St.Last[i] = cv(pi.ValsLast[i])
	}
	for i := 0; i < c34C; i++ {
		c := pi.Cores[i]
		o.Cores[i] = c34Core{DALoad: uint32(c.DALoad), Popularity: uint16(c.Popularity), Imports: uint16(c.Imports), ExtrinsicCount: uint16(c.ExtrinsicCount),
			Exports: uint16(c.Exports), ExtrinsicSize: uint32(c.ExtrinsicSize), BundleSize: uint32(c.BundleSize), GasUsed: uint64(c.GasUsed)}
	}
	o.Svcs = map[uint32]c34Svc{}
	for k, s := range pi.Services {
		o.Svcs[uint32(k)] = c34Svc{ProvidedCount: uint16(s.ProvidedCount), ProvidedSize: uint32(s.ProvidedSize), RefinementCount: uint32(s.RefinementCount),
			RefinementGasUsed: uint64(s.RefinementGasUsed), Imports: uint32(s.Imports), ExtrinsicCount: uint32(s.ExtrinsicCount), ExtrinsicSize: uint32(s.ExtrinsicSize),
			Exports: uint32(s.Exports), AccumulateCount: uint32(s.AccumulateCount), AccumulateGasUsed: uint64(s.AccumulateGasUsed)}
	}
	return o, ""
}

func c34SvcString(m map[uint32]c34Svc) string {
	ks := make([]int, 0, len(m))
	for k := range m {
		ks = append(ks, int(k))
	}
	sort.Ints(ks)
	s := ""
	for _, k := range ks {
		s += fmt.Sprintf("%d:%+v ", k, m[uint32(k)])
	}
	return s
}

func (o c34Out) canonFull() string {
	return fmt.Sprintf("%+v|%+v|%s", o.St, o.Cores, c34SvcString(o.Svcs))
}

// c34Compare reports every clause that differs. key = the clause (input class).
func c34Compare(r *vlib.Run, got, want c34Out, prev c34State, e c34Event, c c34Case) {
	epoch := want.St.Tau/c34E != prev.Tau/c34E
	ctx := fmt.Sprintf("prior tau=%d curr=%v last=%v; event %+v", prev.Tau, prev.Curr, prev.Last, e)
	if got.St.Last != want.St.Last {
		r.Violation("statistics.UpdateValidatorActivityStatistics", "wrong-previous-records", fmt.Sprintf("epoch-change=%v", epoch),
			fmt.Sprintf("%s: previous-epoch records %v, reference %v", ctx, got.St.Last, want.St.Last), c)
	}
	for v := 0; v < c34V; v++ {
		g, w := got.St.Curr[v], want.St.Curr[v]
		if g == w {
			continue
		}
		field := ""
		switch {
		case g.B != w.B:
			field = "blocks"
		case g.T != w.T:
			field = "tickets"
		case g.P != w.P:
			field = "preimages"
		case g.D != w.D:
			field = "preimage-octets"
		case g.G != w.G:
			field = "guarantees"
		case g.A != w.A:
			field = "assurances"
		}
		r.Violation("statistics.UpdateCurrentStatistics", "wrong-validator-record", fmt.Sprintf("field=%s;epoch-change=%v", field, epoch),
			fmt.Sprintf("%s: validator %d (author %d) record %+v, reference %+v", ctx, v, e.Author, g, w), c)
		break // one report per case: the first validator that differs
	}
	for i := 0; i < c34C; i++ {
		if got.Cores[i] != want.Cores[i] {
			g, w := got.Cores[i], want.Cores[i]
			field := "refine-sums"
			switch {
			case g.DALoad != w.DALoad:
				field = "da-load"
			case g.Popularity != w.Popularity:
				field = "popularity"
			case g.BundleSize != w.BundleSize:
				field = "bundle-size"
			}
			r.Violation("statistics.UpdateCoreActivityStatistics", "wrong-core-record", "field="+field,
				fmt.Sprintf("%s: core %d record %+v, reference %+v", ctx, i, g, w), c)
		}
	}
	if c34SvcString(got.Svcs) != c34SvcString(want.Svcs) {
		kind := "wrong-service-record"
		if len(got.Svcs) != len(want.Svcs) {
			kind = "wrong-service-key-set"
		}
		r.Violation("statistics.UpdateServiceActivityStatistics", kind, "",
			fmt.Sprintf("%s: service records {%s}, reference {%s}", ctx, c34SvcString(got.Svcs), c34SvcString(want.Svcs)), c)
	}
}

var c34DiagPriorMutated uint64

// c34RunCase: rebuild the singleton from the history, then apply and check the event.
// Every step of the replay is compared as well (only the last one is counted as the transition).
func c34RunCase(r *vlib.Run, c c34Case) (final c34Out, ok bool) {
	ok = true
	panicked, msg, site := vlib.Guard(func() {
		cs := c34Reset()
		st := c34Init()
		all := append(append([]c34Event(nil), c.History...), c.Event)
		for i, e := range all {
			want := c34Ref(st, e)
			priorCurrBefore := append(types.ValidatorsStatistics(nil), cs.GetPriorStates().GetPi().ValsCurr...)
			pi, slot := c34Step(cs, e)
			r.Transition()
			got, bad := c34FromReal(pi, slot)
			last := i == len(all)-1
			if bad != "" {
				r.Violation("statistics.UpdateValidatorActivityStatistics", "malformed-records", "", bad, c)
				ok = false
				return
			}
			if last {
				r.Eval()
				c34Compare(r, got, want, st, e, c)
				final = got
				// diagnostic only (C26 territory): did the step write through the prior state?
				pc := cs.GetPriorStates().GetPi().ValsCurr
				for k := range pc {
					if pc[k] != priorCurrBefore[k] {
						c34DiagPriorMutated++
						break
					}
				}
			} else if got.canonFull() != want.canonFull() {
				// a divergence inside the prefix is reported by the case whose last event it is
				ok = false
				return
			}
			c34Commit(cs, pi, slot)
			st = want.St
		}
	})
	if panicked {
		r.Violation(site, "go-panic", fmt.Sprintf("guar=%d;assur=%d;work=%d", c.Event.Guar, c.Event.Assur, c.Event.Work), fmt.Sprintf("history %+v event %+v: %s", c.History, c.Event, msg), c)
		ok = false
	}
	return
}

func c34Class(s c34State, e c34Event) string {
	epoch := c34NextSlot(s.Tau, e)/c34E != s.Tau/c34E
	return fmt.Sprintf("epoch-change=%v tickets=%v pre=%d guar=%d assur=%d work=%d", epoch, e.Tick > 0, e.Pre, e.Guar, e.Assur, e.Work)
}

func TestVerif_C34(t *testing.T) {
	r := vlib.Start(t, "C34")
	defer r.Finish()
	c34Silence()

	var rc c34Case
	if r.IsReplay(&rc) {
		c34RunCase(r, rc)
		return
	}

	events := c34Events()
	depth := vlib.Pick(r, 2, 3)

	// self-test: two rebuilds of the same history give identical canonical states
	{
		h := c34Case{History: []c34Event{events[len(events)/3], events[len(events)-7]}, Event: events[777]}
		a, ok1 := c34RunCase(r, h)
		b, ok2 := c34RunCase(r, h)
		if !ok1 || !ok2 || a.canonFull() != b.canonFull() {
			// violations (if any) are already recorded; a mere difference is a harness defect
			if a.canonFull() != b.canonFull() {
				t.Fatalf("harness self-test: two rebuilds differ:\n%s\n%s", a.canonFull(), b.canonFull())
			}
		}
	}

	// Frontier by the reference model (pure functions), identical in every shard.
	// The real code is checked on every (state, event) pair below, which by
	// induction over the depth shows that the real reachable states are these.
	type node struct {
		st   c34State
		hist []c34Event
	}
	levels := [][]node{{{st: c34Init()}}}
	seen := map[string]bool{c34Init().canon(): true}
	total := 1
	expand := func(from []node, evs []c34Event, dedupe map[string]bool) []node {
		var next []node
		for _, n := range from {
			for _, e := range evs {
				s2 := c34Ref(n.st, e).St
				k := s2.canon()
				if !dedupe[k] {
					dedupe[k] = true
					next = append(next, node{s2, append(append([]c34Event(nil), n.hist...), e)})
				}
			}
		}
		return next
	}
	// depth 2: every event in every state reachable by one block (full alphabet)
	levels = append(levels, expand(levels[0], events, seen))
	total += len(levels[1])
	if depth == 3 {
		// depth 3: the carried state is only (tau, current, previous records), every
		// field of which is a sum of independent per-block contributions. The two
		// prefix blocks are therefore taken from the sub-alphabet of per-field
		// extremes (tickets {0,2}, preimages {none, two}, guarantee {none, 3 signers},
		// assurers {none, both}, work 0; both authors, both slot steps = 64 events);
		// the third block ranges over the full alphabet in every state so reached.
		var sub []c34Event
		for _, e := range events {
			if e.Tick != 1 && e.Pre != 1 && (e.Guar == 0 || e.Guar == 2) && (e.Assur == 0 || e.Assur == 3) && e.Work == 0 {
				sub = append(sub, e)
			}
		}
		r.Extra("prefix_events_depth3", len(sub))
		seenSub := map[string]bool{}
		l1 := expand(levels[0], sub, seenSub)
		l2 := expand(l1, sub, seenSub)
		levels = append(levels, l2)
		total += len(l2)
		for _, n := range l2 {
			seen[n.st.canon()] = true
		}
	}
	// every state entered by a checked transition counts as visited
	finalStates := map[string]bool{}
	for _, lvl := range levels {
		for _, n := range lvl {
			for _, e := range events {
				k := c34Ref(n.st, e).St.canon()
				if !seen[k] {
					finalStates[k] = true
				}
			}
		}
	}
	r.StateCount(uint64(total + len(finalStates)))
	r.Extra("depth", depth)
	r.Extra("events", len(events))
	for d, l := range levels {
		r.Extra(fmt.Sprintf("states_depth_%d", d), len(l))
	}

	idx := uint64(0)
	for _, lvl := range levels {
		for _, n := range lvl {
			for _, e := range events {
				idx++
				if !r.Mine(idx) {
					continue
				}
				if idx%64 == 0 && r.Expired() {
					r.Extra("sum_diag_prior_pi_written_through", c34DiagPriorMutated)
					return
				}
				r.Space(1)
				c := c34Case{History: n.hist, Event: e}
				c34RunCase(r, c)
				r.Trace()
				r.Class(c34Class(n.st, e))
				if r.WantSample() && idx%9973 == 11 {
					r.Sample(c)
				}
			}
		}
	}
	r.Extra("sum_diag_prior_pi_written_through", c34DiagPriorMutated)
}
