package recent_history

// C19 — Merkle mountain range append / super-peak / no aliasing of peak lists
// handed to callers. Lives in recent_history so that both mmr.MMR and
// AppendAndCommitMmr are reachable without an import cycle.

import (
	"fmt"
	"math/bits"
	"strings"
	"testing"

	"github.com/New-JAMneration/JAM-Protocol/internal/types"
	"github.com/New-JAMneration/JAM-Protocol/internal/utilities/hash"
	"github.com/New-JAMneration/JAM-Protocol/internal/utilities/mmr"
	"github.com/New-JAMneration/JAM-Protocol/internal/zzverif/refmmr"
	"github.com/New-JAMneration/JAM-Protocol/internal/zzverif/vlib"
)

type c19Case struct {
	Via   string `json:"via"`   // mmr | wrapper | frompeaks | commit
	N0    int    `json:"n0"`    // items already in the restored peak list (0 with via=mmr: NewMMR)
	Spare bool   `json:"spare"` // restored list has spare capacity
	N     int    `json:"n"`     // chain continues until N items
	Items string `json:"items"` // item pattern: "" / default | zero2 | zero3 | seq:<digits over 0 fresh,1 zero hash,2 repeat previous>
}

// c19Items builds the item sequence of a pattern:
//   default : distinct Keccak hashes, except items 0 and 5 = the all-zero hash (a valid hash value that must not be
//             taken for "empty" or "nothing seen yet") and item 7 = item 6;
//   zero2   : every 2nd item (indices 0,2,4,..) is the all-zero hash — every odd count has peak 0 = H^0;
//   zero3   : every 3rd item (indices 0,3,6,..) is the all-zero hash;
//   seq:d.. : explicit content word, d_i in {0: fresh distinct hash, 1: all-zero hash, 2: repeat of the previous item}.
func c19Items(pattern string, n int) []refmmr.Hash {
	out := make([]refmmr.Hash, n)
	for i := range out {
		out[i] = refmmr.Keccak([]byte(fmt.Sprintf("c19-item-%d", i)))
	}
	switch {
	case pattern == "" || pattern == "default":
		if n > 0 {
			out[0] = refmmr.Hash{}
		}
		if n > 5 {
			out[5] = refmmr.Hash{}
		}
		if n > 7 {
			out[7] = out[6]
		}
	case pattern == "zero2" || pattern == "zero3":
		k := int(pattern[4] - '0')
		for i := 0; i < n; i += k {
			out[i] = refmmr.Hash{}
		}
	case strings.HasPrefix(pattern, "seq:"):
		w := pattern[4:]
		if len(w) != n {
			panic("c19: content word length != n")
		}
		for i := range out {
			switch w[i] {
			case '1':
				out[i] = refmmr.Hash{}
			case '2':
				if i > 0 {
					out[i] = out[i-1]
				}
			}
		}
	default:
		panic("c19: unknown item pattern " + pattern)
	}
	return out
}

type c19Ref struct {
	items []refmmr.Hash
	peaks [][]*refmmr.Hash // peaks[n] after n items
	super []refmmr.Hash
}

func c19BuildRef(pattern string, n int) *c19Ref {
	ref := &c19Ref{items: c19Items(pattern, n)}
	for k := 0; k <= n; k++ {
		p := refmmr.Peaks(ref.items[:k])
		ref.peaks = append(ref.peaks, p)
		ref.super = append(ref.super, refmmr.SuperPeak(p))
	}
	return ref
}

type c19Elem struct {
	isNil bool
	val   types.OpaqueHash
}

type c19Snap struct {
	list []types.MmrPeak
	snap []c19Elem
	what string
}

func c19Take(list []types.MmrPeak, what string) c19Snap {
	s := c19Snap{list: list, what: what}
	for _, p := range list {
		if p == nil {
			s.snap = append(s.snap, c19Elem{isNil: true})
		} else {
			s.snap = append(s.snap, c19Elem{val: *p})
		}
	}
	return s
}

func (s c19Snap) changed() string {
	if len(s.list) != len(s.snap) {
		return "length changed"
	}
	for i, p := range s.list {
		e := s.snap[i]
		switch {
		case (p == nil) != e.isNil:
			return fmt.Sprintf("position %d: emptiness changed (was empty=%v)", i, e.isNil)
		case p != nil && *p != e.val:
			return fmt.Sprintf("position %d: %x became %x", i, e.val[:6], (*p)[:6])
		}
	}
	return ""
}

// c19Restored builds a fresh peak list (own pointers) for n items.
func c19Restored(ref *c19Ref, n int, spare bool) []types.MmrPeak {
	src := ref.peaks[n]
	capn := len(src)
	if spare {
		capn += 3
	}
	out := make([]types.MmrPeak, len(src), capn)
	for i, p := range src {
		if p != nil {
			h := types.OpaqueHash(*p)
			out[i] = &h
		}
	}
	return out
}

func c19Diff(got []types.MmrPeak, want []*refmmr.Hash) string {
	if len(got) != len(want) {
		return fmt.Sprintf("peak list has %d positions, reference %d", len(got), len(want))
	}
	for i := range got {
		switch {
		case (got[i] == nil) != (want[i] == nil):
			return fmt.Sprintf("peak %d: present=%v, reference present=%v", i, got[i] != nil, want[i] != nil)
		case got[i] != nil && [32]byte(*got[i]) != *want[i]:
			return fmt.Sprintf("peak %d: %x, reference %x", i, (*got[i])[:], want[i][:])
		}
	}
	return ""
}

func c19Run(r *vlib.Run, ref *c19Ref, c c19Case) {
	var snaps []c19Snap
	var m *mmr.MMR
	var belt types.Mmr
	site := map[string]string{"mmr": "mmr.MMR.AppendOne", "wrapper": "mmr.MMR.AppendOne", "frompeaks": "mmr.MMR.AppendOne", "commit": "recent_history.AppendAndCommitMmr"}[c.Via]
	start := "restored"
	switch c.Via {
	case "mmr":
		m = mmr.NewMMR(hash.KeccakHash)
		start = "empty"
	case "wrapper":
		in := c19Restored(ref, c.N0, c.Spare)
		snaps = append(snaps, c19Take(in, "input list given to MmrWrapper"))
		m = mmr.MmrWrapper(&types.Mmr{Peaks: in}, hash.KeccakHash)
	case "frompeaks":
		in := c19Restored(ref, c.N0, c.Spare)
		snaps = append(snaps, c19Take(in, "input list given to NewMMRFromPeaks"))
		m = mmr.NewMMRFromPeaks(in, hash.KeccakHash)
	case "commit":
		in := c19Restored(ref, c.N0, c.Spare)
		snaps = append(snaps, c19Take(in, "input belt given to AppendAndCommitMmr"))
		belt = types.Mmr{Peaks: in}
		if c.N0 == 0 {
			start = "empty"
		}
	}
	if c.Via != "commit" && m == nil {
		r.Violation("mmr."+c.Via, "nil-mmr", "n0="+fmt.Sprint(c.N0), "constructor returned nil", c)
		return
	}
	sp := mmr.NewMMR(hash.KeccakHash) // SuperPeak does not read the receiver's peaks
	for n := c.N0; n < c.N; n++ {
		item := types.OpaqueHash(ref.items[n])
		var got []types.MmrPeak
		var commit types.OpaqueHash
		panicked, msg, psite := vlib.Guard(func() {
			if c.Via == "commit" {
				var nb types.Mmr
				nb, commit = AppendAndCommitMmr(belt, item)
				belt = nb
				got = nb.Peaks
			} else {
				got = m.AppendOne(types.MmrPeak(&item))
				commit = m.SuperPeak(got)
			}
		})
		r.Transition()
		r.Eval()
		r.Space(1)
		merges := bits.TrailingZeros(^uint(n))
		grew := len(ref.peaks[n+1]) > len(ref.peaks[n])
		key := fmt.Sprintf("via=%s;merges=%d;grew=%v", c.Via, merges, grew)
		zeroPeak := false // a present peak that IS the all-zero hash (only peak 0 can be: merged peaks are Keccak outputs)
		for _, p := range ref.peaks[n+1] {
			if p != nil && *p == (refmmr.Hash{}) {
				zeroPeak = true
			}
		}
		npk := bits.OnesCount(uint(n + 1))
		r.Class(fmt.Sprintf("superpeak peaks=%d zero-valued-peak=%v", min(npk, 3), zeroPeak))
		if n == c.N0 {
			r.Class(fmt.Sprintf("first append via=%s start=%s spare=%v merges=%d grew=%v", c.Via, start, c.Spare, min(merges, 3), grew))
		} else {
			r.Class(fmt.Sprintf("append via=%s merges=%d grew=%v", c.Via, merges, grew))
		}
		if panicked {
			r.Violation(psite, "go-panic", key, fmt.Sprintf("appending item %d (n0=%d): %s", n, c.N0, msg), c)
			return
		}
		if d := c19Diff(got, ref.peaks[n+1]); d != "" {
			r.Violation(site, "wrong-peaks", key, fmt.Sprintf("after %d items (restored at %d): %s", n+1, c.N0, d), c)
			return
		}
		if c.Via != "commit" {
			if d := c19Diff(m.Peaks, ref.peaks[n+1]); d != "" {
				r.Violation(site, "wrong-stored-peaks", key, fmt.Sprintf("after %d items: MMR.Peaks: %s", n+1, d), c)
				return
			}
		}
		if [32]byte(commit) != ref.super[n+1] {
			s2 := "mmr.MMR.SuperPeak"
			if c.Via == "commit" {
				s2 = site
			}
			r.Violation(s2, "wrong-superpeak", fmt.Sprintf("via=%s;peaks-present=%d;zero-valued-peak=%v", c.Via, min(npk, 3), zeroPeak), fmt.Sprintf("after %d items: commitment %x, GP super-peak %x", n+1, commit[:], ref.super[n+1][:]), c)
		}
		// no list handed out (or in) earlier may have changed
		for _, s := range snaps {
			if d := s.changed(); d != "" {
				r.Violation(site, "earlier-list-modified", fmt.Sprintf("via=%s;merges=%d", c.Via, merges), fmt.Sprintf("appending item %d changed %s: %s", n, s.what, d), c)
				return
			}
		}
		snaps = append(snaps, c19Take(got, fmt.Sprintf("the list returned after %d items", n+1)))
	}
	_ = sp
	// SuperPeak of the restored list itself (no append)
	if c.Via != "commit" && c.N0 <= c.N {
		in := c19Restored(ref, c.N0, false)
		if got := sp.SuperPeak(in); [32]byte(got) != ref.super[c.N0] {
			r.Violation("mmr.MMR.SuperPeak", "wrong-superpeak", fmt.Sprintf("via=direct;peaks-present=%d;zero-valued-peak=%v", min(bits.OnesCount(uint(c.N0)), 3), c.N0%2 == 1 && ref.items[c.N0-1] == (refmmr.Hash{})), fmt.Sprintf("%d items: %x, GP super-peak %x", c.N0, got[:], ref.super[c.N0][:]), c)
		}
		r.Transition()
	}
	r.Trace()
	if r.WantSample() && c.N0 > 40 && c.N0%7 == 3 {
		r.Sample(map[string]interface{}{"via": c.Via, "restored_at": c.N0, "spare_capacity": c.Spare, "appended_until": c.N, "super_peak_at_end": vlib.Hex(ref.super[c.N][:])})
	}
}

func TestVerif_C19(t *testing.T) {
	r := vlib.Start(t, "C19")
	defer r.Finish()
	var rc c19Case
	if r.IsReplay(&rc) {
		c19Run(r, c19BuildRef(rc.Items, rc.N), rc)
		return
	}
	n := vlib.Pick(r, 300, 700)
	idx := uint64(0)
	states := 0
	// (A) long chains, three content patterns, restored at every n0
	for _, pattern := range []string{"default", "zero2", "zero3"} {
		ref := c19BuildRef(pattern, n+1) // the list restored at n items gets one more append
		// self-check of the reference against the append recursion's defining property
		for k := 0; k <= n+1; k++ {
			for i, p := range ref.peaks[k] {
				if (p != nil) != (k&(1<<uint(i)) != 0) {
					t.Fatalf("reference: bit %d of %d", i, k)
				}
			}
		}
		run := func(c c19Case) {
			idx++
			if r.Mine(idx) {
				c.Items = pattern
				c19Run(r, ref, c)
			}
		}
		run(c19Case{Via: "mmr", N0: 0, N: n + 1})
		for n0 := 0; n0 <= n; n0++ {
			for _, via := range []string{"wrapper", "frompeaks", "commit"} {
				for _, spare := range []bool{false, true} {
					if spare && pattern != "default" && r.Thorough() {
						continue // thorough: spare-capacity lists only with the default contents (cost)
					}
					// every restored list: one append at least; the full chain to n from every restored list
					run(c19Case{Via: via, N0: n0, Spare: spare, N: n + 1})
				}
			}
		}
		states += n + 2
	}
	// (B) content axis: EVERY content word of length <= L over {fresh, zero hash, repeat previous}:
	// chained from empty through AppendOne and through AppendAndCommitMmr, and restored at every prefix
	// (NewMMRFromPeaks) and continued.
	maxL := vlib.Pick(r, 7, 9)
	for l := 1; l <= maxL; l++ {
		vlib.Sequences(3, l, func(w []int) {
			idx++
			if !r.Mine(idx) {
				return
			}
			word := make([]byte, l)
			for i, d := range w {
				word[i] = byte('0' + d)
			}
			pattern := "seq:" + string(word)
			ref := c19BuildRef(pattern, l)
			c19Run(r, ref, c19Case{Via: "mmr", N0: 0, N: l, Items: pattern})
			c19Run(r, ref, c19Case{Via: "commit", N0: 0, N: l, Items: pattern})
			for n0 := 1; n0 < l; n0++ {
				c19Run(r, ref, c19Case{Via: "frompeaks", N0: n0, N: l, Items: pattern})
				c19Run(r, ref, c19Case{Via: "commit", N0: n0, N: l, Items: pattern})
			}
		})
	}
	r.StateCount(uint64(states))
}
