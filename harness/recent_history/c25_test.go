package recent_history

// C25 — recent-history transition (GP 7.5–7.8).
//
// E2: every block history of a 2x3x3 event alphabet to depth H+2 (full
// branching for the first levels, then a deterministic chain) is rebuilt from a
// reset singleton and pushed, block by block, through the real
// STFBetaH2BetaHDagger + STFBetaHDagger2BetaHPrime; after every block the
// posterior β is compared with an independent reference (own header encoding,
// own MMR append / super-peak, own well-balanced Keccak Merkle root).

import (
	"bytes"
	"fmt"
	"sort"
	"strings"
	"testing"

	"github.com/New-JAMneration/JAM-Protocol/config"
	"github.com/New-JAMneration/JAM-Protocol/internal/blockchain"
	"github.com/New-JAMneration/JAM-Protocol/internal/types"
	"github.com/New-JAMneration/JAM-Protocol/internal/zzverif/vlib"
	"github.com/New-JAMneration/JAM-Protocol/logger"
	"golang.org/x/crypto/blake2b"
	"golang.org/x/crypto/sha3"
)

const c25H = 8

func c25World(t *testing.T) {
	logger.GetLogger("main").Disable()
	config.Config.Database.Type = "memory"
	types.TEST_MODE = "tiny"
	types.ValidatorsCount = 6
	types.CoresCount = 2
	types.EpochLength = 12
	types.SlotSubmissionEnd = 10
	types.RotationPeriod = 4
	types.MaxTicketsPerBlock = 3
	types.TicketsPerValidator = 3
	types.ValidatorsSuperMajority = 5
	types.AvailBitfieldBytes = 1
	types.MaxLookupAge = 24
	types.MaxKeyLevelCacheSize = types.EpochLength * 50
	maxBlocksHistory = c25H
	if types.MaxBlocksHistory != c25H {
		t.Fatalf("C25: H changed: %d", types.MaxBlocksHistory)
	}
}

func c25Reset() *blockchain.ChainState {
	blockchain.ResetInstance()
	blockchain.ClearVerifierCache()
	maxBlocksHistory = c25H
	return blockchain.GetInstance()
}

// ---------- reference primitives ----------

type c25Hash = [32]byte

func c25Keccak(parts ...[]byte) c25Hash {
	h := sha3.NewLegacyKeccak256()
	for _, p := range parts {
		h.Write(p)
	}
	var o c25Hash
	copy(o[:], h.Sum(nil))
	return o
}

// GP E.1.1 well-balanced tree: N(v,H)
func c25N(v [][]byte) []byte {
	switch len(v) {
	case 0:
		return make([]byte, 32)
	case 1:
		return v[0]
	}
	mid := (len(v) + 1) / 2
	h := c25Keccak([]byte("node"), c25N(v[:mid]), c25N(v[mid:]))
	return h[:]
}

// M_B(v,H): H(v0) if |v|=1, N(v,H) otherwise
func c25MB(v [][]byte) c25Hash {
	var o c25Hash
	if len(v) == 1 {
		return c25Keccak(v[0])
	}
	copy(o[:], c25N(v))
	return o
}

// GP E.8 MMR append A(r,l,H) on a peak list with nil = empty
func c25MmrAppend(r []*c25Hash, l c25Hash) []*c25Hash {
	out := make([]*c25Hash, len(r))
	copy(out, r)
	cur := l
	for n := 0; ; n++ {
		if n >= len(out) {
			c := cur
			return append(out, &c)
		}
		if out[n] == nil {
			c := cur
			out[n] = &c
			return out
		}
		cur = c25Keccak(out[n][:], cur[:])
		out[n] = nil
	}
}

// GP E.10 super-peak M_R
func c25SuperPeak(r []*c25Hash) c25Hash {
	var hs []c25Hash
	for _, p := range r {
		if p != nil {
			hs = append(hs, *p)
		}
	}
	var rec func(h []c25Hash) c25Hash
	rec = func(h []c25Hash) c25Hash {
		switch len(h) {
		case 0:
			return c25Hash{}
		case 1:
			return h[0]
		}
		a := rec(h[:len(h)-1])
		return c25Keccak([]byte("peak"), a[:], h[len(h)-1][:])
	}
	return rec(hs)
}

// own encoding of a header without marks/offenders (GP C.22), Blake2b-256
func c25HeaderHash(h types.Header) c25Hash {
	var b bytes.Buffer
	b.Write(h.Parent[:])
	b.Write(h.ParentStateRoot[:])
	b.Write(h.ExtrinsicHash[:])
	s := uint32(h.Slot)
	b.Write([]byte{byte(s), byte(s >> 8), byte(s >> 16), byte(s >> 24)})
	b.WriteByte(0) // no epoch mark
	b.WriteByte(0) // no tickets mark
	a := uint16(h.AuthorIndex)
	b.Write([]byte{byte(a), byte(a >> 8)})
	b.Write(h.EntropySource[:])
	b.WriteByte(0) // empty offenders sequence
	b.Write(h.Seal[:])
	return blake2b.Sum256(b.Bytes())
}

// ---------- reference state ----------

type c25Rep struct{ Hash, Exports c25Hash }

type c25Entry struct {
	Header, Beefy, State c25Hash
	Reported             []c25Rep
}

type c25Ref struct {
	Hist  []c25Entry
	Peaks []*c25Hash
}

func (e c25Entry) String() string {
	var sb strings.Builder
	fmt.Fprintf(&sb, "{h=%x b=%x s=%x p=[", e.Header[:3], e.Beefy[:3], e.State[:3])
	for _, p := range e.Reported {
		fmt.Fprintf(&sb, "%x>%x ", p.Hash[:2], p.Exports[:2])
	}
	sb.WriteString("]}")
	return sb.String()
}

func (r *c25Ref) canon() string {
	var sb strings.Builder
	for _, e := range r.Hist {
		fmt.Fprintf(&sb, "%x|%x|%x|", e.Header, e.Beefy, e.State)
		for _, p := range e.Reported {
			fmt.Fprintf(&sb, "%x>%x,", p.Hash, p.Exports)
		}
		sb.WriteString(";")
	}
	sb.WriteString("#")
	for _, p := range r.Peaks {
		if p == nil {
			sb.WriteString("-,")
		} else {
			fmt.Fprintf(&sb, "%x,", *p)
		}
	}
	return sb.String()
}

type c25Theta struct {
	Svc  uint32
	Hash c25Hash
}

// GP 7.5–7.8
func (r *c25Ref) step(headerHash, parentRoot c25Hash, reps []c25Rep, theta []c25Theta) {
	hist := make([]c25Entry, len(r.Hist))
	copy(hist, r.Hist)
	if len(hist) > 0 {
		hist[len(hist)-1].State = parentRoot // 7.5
	}
	var s [][]byte // 7.6
	for _, t := range theta {
		b := []byte{byte(t.Svc), byte(t.Svc >> 8), byte(t.Svc >> 16), byte(t.Svc >> 24)}
		s = append(s, append(b, t.Hash[:]...))
	}
	r.Peaks = c25MmrAppend(r.Peaks, c25MB(s)) // 7.7
	p := append([]c25Rep(nil), reps...)
	sort.Slice(p, func(i, j int) bool { return bytes.Compare(p[i].Hash[:], p[j].Hash[:]) < 0 })
	hist = append(hist, c25Entry{Header: headerHash, Beefy: c25SuperPeak(r.Peaks), Reported: p}) // 7.8
	if len(hist) > c25H {
		hist = hist[len(hist)-c25H:]
	}
	r.Hist = hist
}

func c25FromImpl(b types.RecentBlocks) c25Ref {
	var r c25Ref
	for _, e := range b.History {
		x := c25Entry{Header: c25Hash(e.HeaderHash), Beefy: c25Hash(e.BeefyRoot), State: c25Hash(e.StateRoot)}
		for _, p := range e.Reported {
			x.Reported = append(x.Reported, c25Rep{c25Hash(p.Hash), c25Hash(p.ExportsRoot)})
		}
		r.Hist = append(r.Hist, x)
	}
	for _, p := range b.Mmr.Peaks {
		if p == nil {
			r.Peaks = append(r.Peaks, nil)
		} else {
			c := c25Hash(*p)
			r.Peaks = append(r.Peaks, &c)
		}
	}
	return r
}

func c25EntryEq(a, b c25Entry) bool {
	if a.Header != b.Header || a.Beefy != b.Beefy || a.State != b.State || len(a.Reported) != len(b.Reported) {
		return false
	}
	for i := range a.Reported {
		if a.Reported[i] != b.Reported[i] {
			return false
		}
	}
	return true
}

// ---------- events ----------

// event = root*9 + g*3 + th ; root ∈ {0,1}, g ∈ {0 none,1 one,2 two (descending hash order)}, th ∈ {0,1,2}
const c25NEvents = 18

type c25Case struct {
	Events []int   `json:"events"`         // history from the empty state (for a fork case: the parent P)
	Fork   *[3]int `json:"fork,omitempty"` // fork-order case: events e1, e2 on P and e3 on step(P,e1)
	// guarantee-shape case: one more block (event Ev for root/theta) whose guarantees carry package
	// hashes that share their first Share bytes, listed in the order Order (indices by ascending hash)
	// sentinel-value chain: after Events, one block per code (root*12 + g*4 + th over the alphabets
	// root ∈ {all-zero, r1, r2}, g ∈ {none, one package with all-zero hash and exports root, one
	// package with a hash that is the same in every block}, θ′ ∈ {∅, one all-zero output of service 0,
	// one output that is the same in every block, two different outputs of one and the same service})
	Sent  []int      `json:"sent,omitempty"`
	Shape *c25GShape `json:"shape,omitempty"`
	Ev    int        `json:"ev,omitempty"`
}

type c25GShape struct {
	Share int   `json:"share"`
	Order []int `json:"order"`
}

// package hash number j (ascending in j) of a family sharing the first `share` bytes
func c25SharedHash(d, share, j int) c25Hash {
	h := c25Fill(0xD3, d, 0x5A)
	h[share] = byte(0x20 + 0x30*j)
	return h
}

func c25Fill(tag byte, a, b int) c25Hash {
	var h c25Hash
	for i := range h {
		h[i] = byte(int(tag) + i*3)
	}
	h[0] = tag
	h[1] = byte(a)
	h[2] = byte(b)
	return h
}

// block number d (0-based) of a history, given the parent header hash
func c25Block(d int, ev int, parent c25Hash) (types.Block, c25Hash, []c25Rep, []c25Theta) {
	return c25BlockG(d, ev, parent, nil)
}

func c25BlockG(d int, ev int, parent c25Hash, shape *c25GShape) (types.Block, c25Hash, []c25Rep, []c25Theta) {
	root, g, th := ev/9, (ev/3)%3, ev%3
	pr := c25Fill(0x51+byte(root), 0, 0)
	var reps []c25Rep
	var egs types.GuaranteesExtrinsic
	// package hashes: core 0 gets the LARGER hash so that extrinsic order (by core) is descending by hash
	if shape != nil {
		g = len(shape.Order)
	}
	for c := 0; c < g; c++ {
		ph := c25Fill(byte(0xE0-0x40*c), d, c)
		if shape != nil {
			ph = c25SharedHash(d, shape.Share, shape.Order[c])
		}
		ex := c25Fill(byte(0x30+c), d, ev)
		reps = append(reps, c25Rep{ph, ex})
		egs = append(egs, types.ReportGuarantee{Report: types.WorkReport{
			CoreIndex:   types.CoreIndex(c),
			PackageSpec: types.WorkPackageSpec{Hash: types.WorkPackageHash(ph), ExportsRoot: types.ExportsRoot(ex)},
		}})
	}
	var theta []c25Theta
	for k := 0; k < th; k++ {
		theta = append(theta, c25Theta{Svc: uint32(7 + 300*k), Hash: c25Fill(byte(0x90+k), d, ev)})
	}
	hdr := types.Header{
		Parent:          types.HeaderHash(parent),
		ParentStateRoot: types.StateRoot(pr),
		Slot:            types.TimeSlot(100 + d),
		AuthorIndex:     types.ValidatorIndex(d % 6),
	}
	hdr.ExtrinsicHash[0] = byte(ev)
	hdr.Seal[5] = byte(d)
	return types.Block{Header: hdr, Extrinsic: types.Extrinsic{Guarantees: egs}}, pr, reps, theta
}

// block d of a sentinel-value chain (values that collide with placeholders or with the previous block)
func c25BlockSent(d int, code int, parent c25Hash) (types.Block, c25Hash, []c25Rep, []c25Theta) {
	root, g, th := code/12, (code/4)%3, code%4
	var pr c25Hash // root 0: the all-zero parent state root (same bytes as the H^0 placeholder)
	if root > 0 {
		pr = c25Fill(0x50+byte(root), 0, 0)
	}
	var reps []c25Rep
	var egs types.GuaranteesExtrinsic
	if g > 0 {
		var ph, ex c25Hash // g 1: all-zero package hash and exports root
		if g == 2 {
			ph, ex = c25Fill(0xC7, 0, 0), c25Fill(0x37, 0, 0) // identical in every block
		}
		reps = append(reps, c25Rep{ph, ex})
		egs = append(egs, types.ReportGuarantee{Report: types.WorkReport{
			PackageSpec: types.WorkPackageSpec{Hash: types.WorkPackageHash(ph), ExportsRoot: types.ExportsRoot(ex)},
		}})
	}
	var theta []c25Theta
	switch th {
	case 1:
		theta = []c25Theta{{Svc: 0}} // all-zero output of service 0: the encoding is 36 zero bytes
	case 2:
		theta = []c25Theta{{Svc: 7, Hash: c25Fill(0x97, 0, 0)}} // identical in every block
	case 3:
		// one service with two different outputs in one block: two leaves of the output root
		theta = []c25Theta{{Svc: 7, Hash: c25Fill(0x91, 0, 1)}, {Svc: 7, Hash: c25Fill(0x92, 0, 2)}}
	}
	hdr := types.Header{
		Parent:          types.HeaderHash(parent),
		ParentStateRoot: types.StateRoot(pr),
		Slot:            types.TimeSlot(100 + d),
		AuthorIndex:     types.ValidatorIndex(d % 6),
	}
	return types.Block{Header: hdr, Extrinsic: types.Extrinsic{Guarantees: egs}}, pr, reps, theta
}

func c25LenClass(n int) string {
	switch {
	case n == 0:
		return "0"
	case n < c25H:
		return "1..H-1"
	default:
		return "H"
	}
}

// run one history; returns canonical trace (for the self-test)
func c25Run(r *vlib.Run, c c25Case, checkFrom int) string {
	cs := c25Reset()
	var ref c25Ref
	var parent c25Hash
	var trace strings.Builder
	for d := 0; d < len(c.Events)+len(c.Sent); d++ {
		var blk types.Block
		var pr c25Hash
		var reps []c25Rep
		var theta []c25Theta
		if d < len(c.Events) {
			blk, pr, reps, theta = c25Block(d, c.Events[d], parent)
		} else {
			blk, pr, reps, theta = c25BlockSent(d, c.Sent[d-len(c.Events)], parent)
		}
		hh := c25HeaderHash(blk.Header)
		priorLen := len(ref.Hist)
		priorPeaks := 0
		for _, p := range ref.Peaks {
			if p != nil {
				priorPeaks++
			}
		}
		before := ref
		ref.step(hh, pr, reps, theta)

		lao := make(types.LastAccOut, 0, len(theta))
		for _, t := range theta {
			lao = append(lao, types.AccumulatedServiceHash{ServiceID: types.ServiceID(t.Svc), Hash: types.OpaqueHash(t.Hash)})
		}
		var err error
		panicked, msg, _ := vlib.Guard(func() {
			cs.AddBlock(blk)
			cs.GetPosteriorStates().SetLastAccOut(lao)
			STFBetaH2BetaHDagger()
			err = STFBetaHDagger2BetaHPrime()
		})
		checked := d >= checkFrom
		if checked {
			r.Transition()
			r.Eval()
		}
		key := fmt.Sprintf("len=%s,g=%d,theta=%d", c25LenClass(priorLen), len(reps), len(theta))
		if len(c.Sent) > 0 {
			key = "sentinel-values,len=" + c25LenClass(priorLen) // few signatures per defect
		}
		site := "recent_history.STFBetaHDagger2BetaHPrime"
		if panicked {
			r.Violation(site, "go-panic", key, fmt.Sprintf("history %v block %d: Go panic %s", c.Events, d, msg), c)
			return "panic"
		}
		if err != nil {
			r.Violation(site, "transition-error", key, fmt.Sprintf("history %v block %d: error %v", c.Events, d, err), c)
			return "err"
		}
		got := c25FromImpl(cs.GetPosteriorStates().GetBeta())
		if checked {
			nowPeaks := 0
			for _, p := range ref.Peaks {
				if p != nil {
					nowPeaks++
				}
			}
			r.Class(fmt.Sprintf("prior=%s dropped=%v g=%d theta=%d mmr-merges=%d", c25LenClass(priorLen), priorLen == c25H, len(reps), len(theta), priorPeaks+1-nowPeaks))
			if d >= len(c.Events) {
				code := c.Sent[d-len(c.Events)]
				r.Class(fmt.Sprintf("sentinel prior=%s root=%d g=%d theta=%d (0=all-zero)", c25LenClass(priorLen), code/12, (code/4)%3, code%4))
			}
			r.State(ref.canon())
		}
		where := fmt.Sprintf("history %v block %d (prior length %d)", c.Events, d, priorLen)
		if len(c.Sent) > 0 {
			where = fmt.Sprintf("history %v followed by sentinel-value blocks %v (code = root*12+g*4+θ; 0 = all-zero, 2 = same as previous block, θ=3 = one service with two outputs), block %d (prior length %d)", c.Events, c.Sent, d, priorLen)
		}
		bad := !c25Compare(r, c, key, where, got, ref, before, len(theta), priorPeaks)
		if bad {
			return "diverged"
		}
		trace.WriteString(got.canon())
		trace.WriteString("\n")
		// commit as ChainState.StateCommit does (shallow posterior -> prior, fresh posterior)
		post := cs.GetPosteriorStates().GetState()
		cs.GetPriorStates().SetState(post)
		cs.GetPosteriorStates().SetState(blockchain.NewPosteriorStates().GetState())
		parent = hh
	}
	r.Trace()
	return trace.String()
}

// c25Compare reports every difference between the implementation's posterior β and the reference.
func c25Compare(r *vlib.Run, c c25Case, key, where string, got, ref, before c25Ref, nTheta, priorPeaks int) bool {
	site := "recent_history.STFBetaHDagger2BetaHPrime"
	if len(got.Hist) > c25H {
		r.Violation(site, "history-exceeds-H", key, fmt.Sprintf("%s: %d entries", where, len(got.Hist)), c)
	}
	if len(got.Hist) != len(ref.Hist) {
		r.Violation(site, "wrong-length", key, fmt.Sprintf("%s: %d entries, reference %d", where, len(got.Hist), len(ref.Hist)), c)
		return false
	}
	n := len(ref.Hist)
	bad := false
	for i := 0; i < n; i++ {
		if c25EntryEq(got.Hist[i], ref.Hist[i]) {
			continue
		}
		bad = true
		g, w := got.Hist[i], ref.Hist[i]
		switch {
		case i == n-1 && g.Header != w.Header:
			r.Violation(site, "new-entry-wrong-header-hash", key, fmt.Sprintf("%s: got %x want %x", where, g.Header, w.Header), c)
		case i == n-1 && g.State != w.State:
			r.Violation(site, "new-entry-nonzero-state-root", key, fmt.Sprintf("%s: got %x", where, g.State), c)
		case i == n-1 && g.Beefy != w.Beefy:
			r.Violation("recent_history.AppendAndCommitMmr", "new-entry-wrong-commitment", key, fmt.Sprintf("%s: got %x want %x (theta' has %d outputs, prior belt has %d peaks)", where, g.Beefy, w.Beefy, nTheta, priorPeaks), c)
		case i == n-1:
			r.Violation("recent_history.MapWorkReportFromEg", "new-entry-wrong-reported", key, fmt.Sprintf("%s: got %v want %v", where, g, w), c)
		case i == n-2 && g.State != w.State:
			r.Violation("recent_history.History2HistoryDagger", "wrong-patched-state-root", key, fmt.Sprintf("%s: previous newest entry has state root %x, block's parent state root %x", where, g.State, w.State), c)
		default:
			r.Violation(site, "other-entry-changed", key, fmt.Sprintf("%s: entry %d is %v, reference %v (before the block: %v)", where, i, g, w, before.Hist), c)
		}
	}
	if len(got.Peaks) != len(ref.Peaks) {
		bad = true
		r.Violation("recent_history.AppendAndCommitMmr", "wrong-belt", key, fmt.Sprintf("%s: belt has %d peak slots, reference %d", where, len(got.Peaks), len(ref.Peaks)), c)
	} else {
		for i := range ref.Peaks {
			a, b := got.Peaks[i], ref.Peaks[i]
			if (a == nil) != (b == nil) || a != nil && *a != *b {
				bad = true
				r.Violation("recent_history.AppendAndCommitMmr", "wrong-belt", key, fmt.Sprintf("%s: belt peak %d differs", where, i), c)
				break
			}
		}
	}
	return !bad
}

// ---------- fork-order pass: a transition is a function of (installed prior state, block) only ----------

// fresh repository values for a reference state
func c25ToImpl(s c25Ref) types.RecentBlocks {
	var b types.RecentBlocks
	for _, e := range s.Hist {
		bi := types.BlockInfo{HeaderHash: types.HeaderHash(e.Header), BeefyRoot: types.OpaqueHash(e.Beefy), StateRoot: types.StateRoot(e.State)}
		for _, p := range e.Reported {
			bi.Reported = append(bi.Reported, types.ReportedWorkPackage{Hash: types.WorkReportHash(p.Hash), ExportsRoot: types.ExportsRoot(p.Exports)})
		}
		b.History = append(b.History, bi)
	}
	for _, p := range s.Peaks {
		if p == nil {
			b.Mmr.Peaks = append(b.Mmr.Peaks, nil)
		} else {
			h := types.OpaqueHash(*p)
			b.Mmr.Peaks = append(b.Mmr.Peaks, types.MmrPeak(&h))
		}
	}
	return b
}

func (r *c25Ref) clone() c25Ref {
	var o c25Ref
	o.Hist = append([]c25Entry(nil), r.Hist...)
	for _, p := range r.Peaks {
		if p == nil {
			o.Peaks = append(o.Peaks, nil)
		} else {
			c := *p
			o.Peaks = append(o.Peaks, &c)
		}
	}
	return o
}

// install `from` as the prior state (no process restart, no replay), run block (d, ev, parent) through the
// real code and compare with the reference. Returns the reference successor and the block's header hash.
func c25StepInstalled(r *vlib.Run, cs *blockchain.ChainState, c c25Case, label string, from c25Ref, d, ev int, parent c25Hash) (c25Ref, c25Hash, bool) {
	var shape *c25GShape
	if c.Fork == nil {
		shape = c.Shape
	}
	blk, pr, reps, theta := c25BlockG(d, ev, parent, shape)
	hh := c25HeaderHash(blk.Header)
	after := from.clone()
	after.step(hh, pr, reps, theta)
	lao := make(types.LastAccOut, 0, len(theta))
	for _, t := range theta {
		lao = append(lao, types.AccumulatedServiceHash{ServiceID: types.ServiceID(t.Svc), Hash: types.OpaqueHash(t.Hash)})
	}
	var err error
	panicked, msg, _ := vlib.Guard(func() {
		cs.GetPriorStates().SetBeta(c25ToImpl(from))
		cs.GetPosteriorStates().SetState(blockchain.NewPosteriorStates().GetState())
		cs.AddBlock(blk)
		cs.GetPosteriorStates().SetLastAccOut(lao)
		STFBetaH2BetaHDagger()
		err = STFBetaHDagger2BetaHPrime()
	})
	r.Transition()
	key := "fork-order:" + label // one defect of this kind = few signatures
	var where string
	if shape != nil {
		key = label
		where = fmt.Sprintf("parent history %v, block with event %d and %d guarantees whose package hashes share their first %d bytes, listed in order %v (0 = smallest)", c.Events, ev, len(shape.Order), shape.Share, shape.Order)
	} else {
		where = fmt.Sprintf("parent history %v, fork events %v, transition %s (event %d on an installed prior state of length %d)", c.Events, *c.Fork, label, ev, len(from.Hist))
	}
	site := "recent_history.STFBetaHDagger2BetaHPrime"
	if panicked {
		r.Violation(site, "go-panic", key, where+": Go panic "+msg, c)
		return after, hh, false
	}
	if err != nil {
		r.Violation(site, "transition-error", key, fmt.Sprintf("%s: error %v", where, err), c)
		return after, hh, false
	}
	got := c25FromImpl(cs.GetPosteriorStates().GetBeta())
	pp := 0
	for _, p := range from.Peaks {
		if p != nil {
			pp++
		}
	}
	return after, hh, c25Compare(r, c, key, where, got, after, from, len(theta), pp)
}

// reference-only replay of a history
func c25RefChain(events []int) (c25Ref, c25Hash) {
	var ref c25Ref
	var parent c25Hash
	for d, ev := range events {
		blk, pr, reps, theta := c25Block(d, ev, parent)
		hh := c25HeaderHash(blk.Header)
		ref.step(hh, pr, reps, theta)
		parent = hh
	}
	return ref, parent
}

// P --e1--> A, then P --e2--> B, then A --e3--> A2, then P --e1--> A again, all in one process on
// installed prior states: any state carried between calls outside the installed state shows up.
func c25Fork(r *vlib.Run, c c25Case) {
	P, parent := c25RefChain(c.Events)
	d := len(c.Events)
	cs := c25Reset()
	f := *c.Fork
	A, hashA, ok := c25StepInstalled(r, cs, c, "P-e1->A", P, d, f[0], parent)
	_, _, ok2 := c25StepInstalled(r, cs, c, "P-e2->B(after A)", P, d, f[1], parent)
	_, _, ok3 := c25StepInstalled(r, cs, c, "A-e3->A2(after B)", A, d+1, f[2], hashA)
	_, _, ok4 := c25StepInstalled(r, cs, c, "P-e1->A(again)", P, d, f[0], parent)
	r.Eval()
	r.Trace()
	r.Class(fmt.Sprintf("fork-order parent=%s all-agree=%v", c25LenClass(len(P.Hist)), ok && ok2 && ok3 && ok4))
}

// one block with a guarantee set of the given shape on the installed state after c.Events
func c25ShapeRun(r *vlib.Run, c c25Case) {
	P, parent := c25RefChain(c.Events)
	cs := c25Reset()
	sorted := "ascending"
	for i := 1; i < len(c.Shape.Order); i++ {
		if c.Shape.Order[i] < c.Shape.Order[i-1] {
			sorted = "not-ascending"
		}
	}
	label := fmt.Sprintf("guarantee-hashes:share=%d,n=%d,%s", c.Shape.Share, len(c.Shape.Order), sorted)
	_, _, ok := c25StepInstalled(r, cs, c, label, P, len(c.Events), c.Ev, parent)
	r.Eval()
	r.Trace()
	r.Class(fmt.Sprintf("%s prior=%s agree=%v", label, c25LenClass(len(P.Hist)), ok))
}

func TestVerif_C25(t *testing.T) {
	r := vlib.Start(t, "C25")
	defer r.Finish()
	c25World(t)

	var rc c25Case
	if r.IsReplay(&rc) {
		if rc.Fork != nil {
			c25Fork(r, rc)
		} else if rc.Shape != nil {
			c25ShapeRun(r, rc)
		} else {
			c25Run(r, rc, 0)
		}
		return
	}

	// self-tests
	{
		// own header encoding agrees with the repository's header hash (codec is C11's subject)
		blk, _, _, _ := c25Block(3, 14, c25Fill(9, 9, 9))
		enc, err := types.NewEncoder().Encode(&blk.Header)
		if err != nil {
			t.Fatalf("C25 self-test: header encode: %v", err)
		}
		if blake2b.Sum256(enc) != c25HeaderHash(blk.Header) {
			t.Fatalf("C25 self-test: own header encoding differs from the repository encoder")
		}
		self := c25Case{Events: []int{0, 17, 5, 13, 8, 2, 16, 4, 9, 11, 7}}
		a := c25Run(r, self, 1<<30)
		b := c25Run(r, self, 1<<30)
		if a != b || a == "" || a == "diverged" || a == "panic" || a == "err" {
			// a divergence is reported as a violation by the enumeration below; only
			// nondeterminism is fatal here
			if a != b {
				t.Fatalf("C25 self-test: two rebuilds of the same history differ")
			}
		}
	}

	depth := c25H + 2
	full := vlib.Pick(r, 3, 4)
	idx := uint64(0)
	vlib.Sequences(c25NEvents, full, func(s []int) {
		idx++
		if !r.Mine(idx) {
			return
		}
		c := c25Case{Events: append([]int{}, s...)}
		sum := 0
		for _, e := range s {
			sum += e
		}
		for k := full; k < depth; k++ {
			c.Events = append(c.Events, (sum+5*k+k*k)%c25NEvents)
		}
		r.Space(1)
		c25Run(r, c, 0)
		if r.WantSample() && idx%997 == 5 {
			r.Sample(c)
		}
	})

	// ---- fork-order pass ----
	// parents: every history of depth <= 1 (quick) / <= 2 (thorough) plus prefixes of two long chains
	// (so that full histories and multi-peak belts are forked too)
	var parents [][]int
	for n := 0; n <= vlib.Pick(r, 1, 2); n++ {
		vlib.Sequences(c25NEvents, n, func(s []int) { parents = append(parents, append([]int{}, s...)) })
	}
	for _, chain := range [][]int{{0, 17, 5, 13, 8, 2, 16, 4, 9, 11}, {4, 1, 14, 10, 7, 12, 3, 15, 6, 2}} {
		for _, n := range []int{2, 3, 7, 8, 9} {
			parents = append(parents, append([]int{}, chain[:n]...))
		}
	}
	for _, p := range parents {
		for e1 := 0; e1 < c25NEvents; e1++ {
			for e2 := 0; e2 < c25NEvents; e2++ {
				if e1 == e2 {
					continue
				}
				idx++
				if !r.Mine(idx) {
					continue
				}
				for e3 := 0; e3 < c25NEvents; e3++ {
					r.Space(1)
					c25Fork(r, c25Case{Events: p, Fork: &[3]int{e1, e2, e3}})
				}
			}
		}
	}

	// ---- guarantee-hash shapes: package hashes that share long prefixes ----
	var shapes []c25GShape
	for _, sh := range []int{1, 8, 16, 31} {
		shapes = append(shapes, c25GShape{Share: sh, Order: []int{0, 1}}, c25GShape{Share: sh, Order: []int{1, 0}})
	}
	for _, sh := range []int{8, 31} {
		vlib.Permutations(3, func(p []int) { shapes = append(shapes, c25GShape{Share: sh, Order: append([]int{}, p...)}) })
	}
	for _, p := range [][]int{{}, {5}, {0, 17, 5, 13, 8, 2, 16, 4}, {4, 1, 14, 10, 7, 12, 3, 15, 6}} {
		for _, ev := range []int{0, 1, 11} {
			for _, sh := range shapes {
				idx++
				if !r.Mine(idx) {
					continue
				}
				sh := sh
				r.Space(1)
				c25ShapeRun(r, c25Case{Events: p, Shape: &sh, Ev: ev})
			}
		}
	}

	// ---- sentinel-value chains: all-zero and equal-to-previous values in every position ----
	sentLen := vlib.Pick(r, 3, 4)
	for _, pre := range [][]int{{}, {0, 17, 5, 13, 8, 2, 16}} {
		vlib.Sequences(36, sentLen, func(q []int) {
			idx++
			if !r.Mine(idx) {
				return
			}
			r.Space(1)
			c25Run(r, c25Case{Events: pre, Sent: append([]int{}, q...)}, 0)
		})
	}
}
