package ce

// C18 — binary Merkle commitments (GP E.1): N, Mb, M, C, T, Jx, Lx,
// VerifyMerkleProof of internal/utilities/merkle_tree and the two users
// work_package.PagedProofs and ce.constructMerkleCoPath, against R-merkle
// (lib/refmerkle). The harness lives in package ce because that package can
// reach all three (constructMerkleCoPath is unexported).

import (
	"bytes"
	"fmt"
	"os"
	"testing"

	"github.com/New-JAMneration/JAM-Protocol/internal/types"
	"github.com/New-JAMneration/JAM-Protocol/internal/utilities/hash"
	"github.com/New-JAMneration/JAM-Protocol/internal/utilities/merkle_tree"
	"github.com/New-JAMneration/JAM-Protocol/internal/work_package"
	"github.com/New-JAMneration/JAM-Protocol/internal/zzverif/refmerkle"
	"github.com/New-JAMneration/JAM-Protocol/internal/zzverif/vlib"
)

type c18Case struct {
	Mode string `json:"mode"` // tree | paged
	N    int    `json:"n"`
	Pat  string `json:"pat"` // distinct32 | short | identical | empty | nil   (tree); distinct | identical (paged)
	Pos  int    `json:"pos"` // position of the empty / nil element
	Hash string `json:"hash"`
}

var c18DevNull *os.File

// c18Quiet runs f with os.Stdout pointing at /dev/null (VerifyMerkleProof prints).
func c18Quiet(f func()) {
	if c18DevNull == nil {
		c18DevNull, _ = os.OpenFile(os.DevNull, os.O_WRONLY, 0)
	}
	old := os.Stdout
	if c18DevNull != nil {
		os.Stdout = c18DevNull
	}
	defer func() { os.Stdout = old }()
	f()
}

func c18Elem32(j int) []byte {
	b := make([]byte, 32)
	for k := range b {
		b[k] = byte(0x9D + 31*j + 7*k + (j>>8)*3)
	}
	b[0], b[1] = byte(j), byte(j>>8)
	return b
}

func c18Build(c c18Case) [][]byte {
	v := make([][]byte, c.N)
	for j := range v {
		switch c.Pat {
		case "short":
			if j%2 == 0 {
				v[j] = []byte{byte(j + 1)}
			} else {
				v[j] = []byte{byte(j), 0xEE, byte(j >> 8)}
			}
		case "identical":
			v[j] = c18Elem32(7)
		default:
			v[j] = c18Elem32(j)
		}
	}
	if c.Pat == "empty" {
		v[c.Pos] = []byte{}
	}
	if c.Pat == "nil" {
		v[c.Pos] = nil
	}
	return v
}

func c18ToSeq(v [][]byte) []types.ByteSequence {
	out := make([]types.ByteSequence, len(v))
	for i, b := range v {
		if b != nil {
			out[i] = types.ByteSequence(append([]byte{}, b...))
		}
	}
	return out
}

func c18Alt(b []byte) []byte {
	if len(b) == 0 {
		return []byte{0x5A}
	}
	o := append([]byte{}, b...)
	o[len(o)-1] ^= 1
	return o
}

func c18LenClass(n int) string {
	switch {
	case n <= 2:
		return fmt.Sprint(n)
	case n&(n-1) == 0:
		return "pow2"
	case n%2 == 1:
		return "odd"
	}
	return "even"
}

type c18H struct {
	name string
	impl func(types.ByteSequence) types.OpaqueHash
	ref  refmerkle.HashFn
}

func c18Hash(name string) c18H {
	if name == "keccak" {
		return c18H{name, hash.KeccakHash, refmerkle.Keccak}
	}
	return c18H{"blake2b", hash.Blake2bHash, refmerkle.Blake2b}
}

func c18RunTree(r *vlib.Run, c c18Case) {
	h := c18Hash(c.Hash)
	v := c18Build(c)
	n := len(v)
	elemClass := "non-nil"
	if c.Pat == "nil" {
		elemClass = "nil-element"
	}
	ev := func() { r.Eval(); r.Space(1) }
	guard := func(site string, f func()) bool {
		r.Transition()
		if p, msg, fr := vlib.Guard(f); p {
			r.Violation("merkle_tree."+site, "go-panic", elemClass+";len="+c18LenClass(n), fmt.Sprintf("%+v: %s (%s)", c, msg, fr), c)
			return false
		}
		return true
	}

	// ---- N, Mb, C, M ----
	wantN := refmerkle.N(v, h.ref)
	var gotN types.ByteSequence
	if guard("N", func() { gotN = merkle_tree.N(c18ToSeq(v), h.impl) }) {
		ev()
		kind := "hash"
		if n == 0 {
			kind = "zero"
		} else if n == 1 {
			kind = "raw"
		}
		r.Class(fmt.Sprintf("N len=%s pat=%s result=%s", c18LenClass(n), c.Pat, kind))
		if !bytes.Equal(gotN, wantN) {
			r.Violation("merkle_tree.N", "wrong-root", elemClass, fmt.Sprintf("%+v: N = %x, GP E.1 N = %x", c, []byte(gotN), wantN), c)
		}
	}
	wantMb := refmerkle.Mb(v, h.ref)
	var gotMb types.OpaqueHash
	okMb := guard("Mb", func() { gotMb = merkle_tree.Mb(c18ToSeq(v), h.impl) })
	if okMb {
		ev()
		r.Class(fmt.Sprintf("Mb len=%s pat=%s", c18LenClass(n), c.Pat))
		if [32]byte(gotMb) != wantMb {
			r.Violation("merkle_tree.Mb", "wrong-root", elemClass, fmt.Sprintf("%+v: Mb = %x, GP M_B = %x", c, gotMb[:], wantMb[:]), c)
		}
	}
	wantC := refmerkle.C(v, h.ref)
	var gotC []types.OpaqueHash
	if guard("C", func() { gotC = merkle_tree.C(c18ToSeq(v), h.impl) }) {
		ev()
		same := len(gotC) == len(wantC)
		for i := 0; same && i < len(wantC); i++ {
			same = [32]byte(gotC[i]) == wantC[i]
		}
		r.Class(fmt.Sprintf("C padded=%v", len(wantC) != n))
		if !same {
			r.Violation("merkle_tree.C", "wrong-leaves", elemClass, fmt.Sprintf("%+v: C has %d entries (reference %d) or differs", c, len(gotC), len(wantC)), c)
		}
	}
	wantM := refmerkle.M(v, h.ref)
	if refmerkle.Levelwise(wantC, h.ref) != wantM {
		r.T.Fatalf("C18 reference inconsistent: N(C(v)) != level-wise reduction for %+v", c)
	}
	var gotM types.OpaqueHash
	okM := guard("M", func() { gotM = merkle_tree.M(c18ToSeq(v), h.impl) })
	if okM {
		ev()
		r.Class(fmt.Sprintf("M len=%s", c18LenClass(n)))
		if [32]byte(gotM) != wantM {
			r.Violation("merkle_tree.M", "wrong-root", elemClass, fmt.Sprintf("%+v: M = %x, GP M = %x", c, gotM[:], wantM[:]), c)
		}
	}

	// ---- T (every index) and the CE-140 co-path built from it ----
	for i := 0; i < n; i++ {
		odd := refmerkle.OddNodeOnPath(n, i)
		key := fmt.Sprintf("%s;odd-node-on-path=%v", elemClass, odd)
		wantT := refmerkle.T(v, i, h.ref)
		var gotT []types.ByteSequence
		if guard("T", func() { gotT = merkle_tree.T(c18ToSeq(v), types.U32(i), h.impl) }) {
			ev()
			tr := make([][]byte, len(gotT))
			for k := range gotT {
				tr[k] = gotT[k]
			}
			root, ok := refmerkle.FoldT(n, i, v[i], tr, h.ref)
			r.Class(fmt.Sprintf("T odd-node-on-path=%v tracelen=%d rawsibling=%v", odd, min(len(wantT), 3), len(wantT) > 0 && len(wantT[len(wantT)-1]) != 32))
			if !ok || !bytes.Equal(root, wantN) {
				r.Violation("merkle_tree.T", "fold-mismatch", key, fmt.Sprintf("%+v index %d: folding T(v,i) (%d entries, reference %d) from the leaf gives %x, N(v) = %x", c, i, len(gotT), len(wantT), root, wantN), c)
			}
		}
		if h.name == "blake2b" && n < 65536 {
			var want []byte
			for _, s := range wantT {
				want = append(append(want, 0x00), s...)
			}
			seq := make([][]byte, n)
			for k := range v {
				if v[k] != nil {
					seq[k] = append([]byte{}, v[k]...)
				}
			}
			var got []byte
			var err error
			r.Transition()
			if p, msg, fr := vlib.Guard(func() { got, err = constructMerkleCoPath(seq, uint16(i)) }); p {
				r.Violation("ce."+fr, "go-panic", key, fmt.Sprintf("%+v index %d: %s", c, i, msg), c)
			} else {
				ev()
				r.Class(fmt.Sprintf("copath odd-node-on-path=%v", odd))
				if err != nil {
					r.Violation("ce.constructMerkleCoPath", "error", key, fmt.Sprintf("%+v index %d: %v", c, i, err), c)
				} else if !bytes.Equal(got, want) {
					r.Violation("ce.constructMerkleCoPath", "copath-mismatch", key, fmt.Sprintf("%+v index %d: co-path %x, reference (0x00 ‖ h for h in T(s,i,H)) %x", c, i, got, want), c)
				}
			}
		}
	}

	// ---- pages: Jx, Lx for every exponent and every page ----
	depth := refmerkle.CeilLog2Max1(n)
	for x := 0; x <= 6; x++ {
		pages := (n + (1 << uint(x)) - 1) >> uint(x)
		if pages == 0 {
			pages = 1
		}
		for i := 0; i < pages; i++ {
			pkey := fmt.Sprintf("%s;x>=depth=%v", elemClass, x >= depth)
			wantL := refmerkle.Lx(x, v, i, h.ref)
			wantJ := refmerkle.Jx(x, v, i, h.ref)
			var gotL, gotJ []types.OpaqueHash
			okL := guard("Lx", func() { gotL = merkle_tree.Lx(types.U8(x), c18ToSeq(v), types.U32(i), h.impl) })
			okJ := guard("Jx", func() { gotJ = merkle_tree.Jx(types.U8(x), c18ToSeq(v), types.U32(i), h.impl) })
			if !okL || !okJ {
				continue
			}
			ev()
			r.Class(fmt.Sprintf("page x>=depth=%v partial=%v justlen=%d", x >= depth, len(wantL) < 1<<uint(x), min(len(wantJ), 3)))
			sameL := len(gotL) == len(wantL)
			for k := 0; sameL && k < len(wantL); k++ {
				sameL = [32]byte(gotL[k]) == wantL[k]
			}
			if !sameL {
				r.Violation("merkle_tree.Lx", "wrong-page", pkey, fmt.Sprintf("%+v x=%d page %d: Lx has %d leaves, the page has %d (or contents differ)", c, x, i, len(gotL), len(wantL)), c)
			}
			if len(gotJ) != len(wantJ) {
				r.Violation("merkle_tree.Jx", "wrong-length", pkey, fmt.Sprintf("%+v x=%d page %d: Jx has %d entries, GP max(0, ceil(log2 max(1,|v|)) - x) = %d", c, x, i, len(gotJ), len(wantJ)), c)
			}
			ls := make([]refmerkle.Hash, len(gotL))
			for k := range gotL {
				ls[k] = gotL[k]
			}
			js := make([]refmerkle.Hash, len(gotJ))
			for k := range gotJ {
				js[k] = gotJ[k]
			}
			root, ok := refmerkle.FoldPage(x, n, i, ls, js, h.ref)
			if !ok || root != wantM {
				r.Violation("merkle_tree.Jx", "page-fold-mismatch", pkey, fmt.Sprintf("%+v x=%d page %d: folding Lx then Jx gives %x (ok=%v), M(v) = %x", c, x, i, root[:], ok, wantM[:]), c)
			}
			if x == 0 && n > 0 && okM {
				// the repository's own verifier on (leaf, J0, index, M(v))
				var acc, accWrong bool
				other := c18Alt(v[i])
				if guard("VerifyMerkleProof", func() {
					c18Quiet(func() {
						acc = merkle_tree.VerifyMerkleProof(v[i], gotJ, i, h.impl, gotM)
						accWrong = merkle_tree.VerifyMerkleProof(other, gotJ, i, h.impl, gotM)
					})
				}) {
					ev()
					r.Class(fmt.Sprintf("verify valid=%v altered=%v", acc, accWrong))
					if !acc {
						r.Violation("merkle_tree.VerifyMerkleProof", "valid-proof-rejected", elemClass, fmt.Sprintf("%+v index %d: (leaf, J0(v,i), i, M(v)) rejected", c, i), c)
					}
					if accWrong {
						r.Violation("merkle_tree.VerifyMerkleProof", "altered-leaf-accepted", elemClass, fmt.Sprintf("%+v index %d: an altered leaf verifies", c, i), c)
					}
				}
			}
		}
	}

	// ---- changing any single element changes Mb and M ----
	if okMb && okM {
		for j := 0; j < n; j++ {
			v2 := append([][]byte{}, v...)
			v2[j] = c18Alt(v[j])
			var mb2, m2 types.OpaqueHash
			if !guard("Mb", func() { mb2 = merkle_tree.Mb(c18ToSeq(v2), h.impl) }) || !guard("M", func() { m2 = merkle_tree.M(c18ToSeq(v2), h.impl) }) {
				continue
			}
			ev()
			r.Class(fmt.Sprintf("change Mb-changed=%v M-changed=%v", mb2 != gotMb, m2 != gotM))
			if mb2 == gotMb {
				r.Violation("merkle_tree.Mb", "change-not-reflected", elemClass, fmt.Sprintf("%+v: replacing element %d (%x -> %x) leaves Mb = %x", c, j, v[j], v2[j], gotMb[:]), c)
			}
			if m2 == gotM {
				r.Violation("merkle_tree.M", "change-not-reflected", elemClass, fmt.Sprintf("%+v: replacing element %d leaves M = %x", c, j, gotM[:]), c)
			}
		}
	}
	if r.WantSample() && n >= 5 && c.Pat == "distinct32" {
		r.Sample(map[string]interface{}{"case": c, "N": vlib.Hex(wantN), "Mb": vlib.Hex(wantMb[:]), "M": vlib.Hex(wantM[:])})
	}
}

// ---- work_package.PagedProofs (GP 14.10) ----

func c18RunPaged(r *vlib.Run, c c18Case) {
	n := c.N
	segs := make([]types.ExportSegment, n)
	v := make([][]byte, n)
	for j := range segs {
		for k := range segs[j] {
			if c.Pat == "identical" {
				segs[j][k] = byte(0x31 + 5*k)
			} else {
				segs[j][k] = byte(0x31 + 5*k + 11*j + (k>>8)*j)
			}
		}
		if c.Pat != "identical" {
			segs[j][0], segs[j][1] = byte(j), byte(j>>8)
		}
		v[j] = append([]byte{}, segs[j][:]...)
	}
	var got []types.ExportSegment
	var err error
	r.Transition()
	key := fmt.Sprintf("lastpage-partial=%v", n%64 != 0)
	if p, msg, fr := vlib.Guard(func() { got, err = work_package.PagedProofs(segs) }); p {
		r.Violation("work_package."+fr, "go-panic", key, fmt.Sprintf("%+v: %s", c, msg), c)
		return
	}
	r.Eval()
	r.Space(1)
	pages := (n + 63) / 64
	r.Class(fmt.Sprintf("paged pages=%d lastpage-partial=%v", pages, n%64 != 0))
	if err != nil {
		r.Violation("work_package.PagedProofs", "error", key, fmt.Sprintf("%+v: %v", c, err), c)
		return
	}
	if len(got) != pages {
		r.Violation("work_package.PagedProofs", "wrong-page-count", key, fmt.Sprintf("%+v: %d proof pages, GP 14.10 gives ceil(|s|/64) = %d", c, len(got), pages), c)
		return
	}
	wantM := refmerkle.M(v, refmerkle.Blake2b)
	for i := 0; i < pages; i++ {
		j6 := refmerkle.Jx(6, v, i, refmerkle.Blake2b)
		l6 := refmerkle.Lx(6, v, i, refmerkle.Blake2b)
		// the page must reproduce the segment root
		if root, ok := refmerkle.FoldPage(6, n, i, l6, j6, refmerkle.Blake2b); !ok || root != wantM {
			r.T.Fatalf("C18 reference inconsistent for paged proofs %+v page %d", c, i)
		}
		want := []byte{byte(len(j6))} // compact length, < 128
		for _, x := range j6 {
			want = append(want, x[:]...)
		}
		want = append(want, byte(len(l6)))
		for _, x := range l6 {
			want = append(want, x[:]...)
		}
		want = append(want, make([]byte, types.SegmentSize-len(want))...)
		r.Eval()
		r.Space(1)
		if !bytes.Equal(got[i][:], want) {
			r.Violation("work_package.PagedProofs", "wrong-proof-page", key, fmt.Sprintf("%+v page %d: differs from P_l(E(↕J6, ↕L6)) (|J6|=%d, |L6|=%d); first octets %x vs %x", c, i, len(j6), len(l6), got[i][:40], want[:40]), c)
		}
	}
}

func TestVerif_C18(t *testing.T) {
	r := vlib.Start(t, "C18")
	defer r.Finish()
	var rc c18Case
	if r.IsReplay(&rc) {
		if rc.Mode == "paged" {
			c18RunPaged(r, rc)
		} else {
			c18RunTree(r, rc)
		}
		return
	}
	maxLen := vlib.Pick(r, 40, 70)
	lens := []int{}
	for n := 0; n <= maxLen; n++ {
		lens = append(lens, n)
	}
	if r.Thorough() {
		lens = append(lens, 127, 128, 129)
	}
	idx := uint64(0)
	run := func(c c18Case) {
		idx++
		if !r.Mine(idx) {
			return
		}
		if c.Mode == "paged" {
			c18RunPaged(r, c)
		} else {
			c18RunTree(r, c)
		}
	}
	for _, hn := range []string{"blake2b", "keccak"} {
		for _, n := range lens {
			for _, pat := range []string{"distinct32", "short", "identical"} {
				run(c18Case{Mode: "tree", N: n, Pat: pat, Pos: -1, Hash: hn})
			}
			for _, pat := range []string{"empty", "nil"} {
				for pos := 0; pos < n; pos++ {
					run(c18Case{Mode: "tree", N: n, Pat: pat, Pos: pos, Hash: hn})
				}
			}
		}
	}
	for _, n := range lens {
		for _, pat := range []string{"distinct", "identical"} {
			run(c18Case{Mode: "paged", N: n, Pat: pat, Hash: "blake2b"})
		}
	}
}
