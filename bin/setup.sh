#!/bin/bash
# setup_cmd: offline; pre-builds every check's test binary so the Go build cache is warm.
set -u
cd "$(dirname "$0")/.."
mkdir -p .build evidence replays
ids=$(cat ready.txt)
fail=0
# build sequentially per package group (go build itself is parallel)
for id in $ids; do
  bin/vcheck "$id" --build-only || { echo "setup: build of $id failed"; fail=1; }
done
exit $fail
