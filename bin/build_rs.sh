#!/bin/bash
# build_rs.sh : builds /repo's reed-solomon-ffi staticlib (lib.rs from the CURRENT tree, or from a
# mutant overlay) against the std-only stand-in crate. The target directory is keyed by the content
# hash of all inputs (never by mtimes), and the link path handed to go carries that hash, so neither
# cargo's freshness check nor the Go build cache can reuse a library built from other sources.
set -eu
V="$(cd "$(dirname "$0")/.." && pwd)"
S=/repo/pkg/erasure_coding/reed-solomon-ffi
W="$V/.build/rs/work.$$"; rm -rf "$W"; mkdir -p "$W/src"
cp "$S/src/lib.rs" "$W/src/lib.rs"
if [ -n "${VERIF_MUTANT:-}" ]; then
  python3 - "$VERIF_MUTANT" "$S/src/lib.rs" "$W/src/lib.rs" <<'PY'
import json,sys,shutil
rep=json.load(open(sys.argv[1]))["Replace"]
if sys.argv[2] in rep: shutil.copy(rep[sys.argv[2]], sys.argv[3])
PY
fi
sed "s#^reed-solomon-simd = .*#reed-solomon-simd = { path = \"$V/standin/reed-solomon-simd\" }#" "$S/Cargo.toml" > "$W/Cargo.toml"
grep -q 'path = ' "$W/Cargo.toml" || { echo "build_rs: could not redirect the reed-solomon-simd dependency"; exit 2; }
h=$(cat "$W/src/lib.rs" "$W/Cargo.toml" "$V/standin/reed-solomon-simd/src/lib.rs" "$V/standin/reed-solomon-simd/Cargo.toml" | sha256sum | cut -c1-16)
L="$V/.build/rs/lib-$h"
if [ ! -f "$L/libreed_solomon_ffi.a" ]; then
  D="$V/.build/rs/ffi-$h"; rm -rf "$D"; mv "$W" "$D"
  (cd "$D" && CARGO_NET_OFFLINE=true CARGO_TARGET_DIR="$V/.build/rs/target-$h" cargo build --release --offline -q 2>&1 | tail -20)
  test -f "$V/.build/rs/target-$h/release/libreed_solomon_ffi.a"
  mkdir -p "$L.tmp.$$"; cp "$V/.build/rs/target-$h/release/libreed_solomon_ffi.a" "$L.tmp.$$/"
  mv "$L.tmp.$$" "$L" 2>/dev/null || rm -rf "$L.tmp.$$"
  rm -rf "$V/.build/rs/target-$h" "$D"
else
  rm -rf "$W"
fi
if [ -n "${VERIF_BDIR:-}" ]; then
  printf '{"CGO_LDFLAGS": "-L%s"}\n' "$L" > "$VERIF_BDIR/build_env.json"
fi
echo "build_rs: library $L"
