#!/bin/bash
# build_rs.sh : builds /repo's reed-solomon-ffi staticlib (lib.rs from the CURRENT tree, or from a
# mutant overlay) against the std-only stand-in crate, into /verif/.build/rs/target/release.
set -eu
V="$(cd "$(dirname "$0")/.." && pwd)"
S=/repo/pkg/erasure_coding/reed-solomon-ffi
D="$V/.build/rs/ffi"
rm -rf "$D"; mkdir -p "$D/src"
cp "$S/src/lib.rs" "$D/src/lib.rs"
if [ -n "${VERIF_MUTANT:-}" ]; then
  python3 - "$VERIF_MUTANT" "$S/src/lib.rs" "$D/src/lib.rs" <<'PY'
import json,sys,shutil
rep=json.load(open(sys.argv[1]))["Replace"]
if sys.argv[2] in rep: shutil.copy(rep[sys.argv[2]], sys.argv[3])
PY
fi
sed "s#^reed-solomon-simd = .*#reed-solomon-simd = { path = \"$V/standin/reed-solomon-simd\" }#" "$S/Cargo.toml" > "$D/Cargo.toml"
grep -q 'path = ' "$D/Cargo.toml" || { echo "build_rs: could not redirect the reed-solomon-simd dependency"; exit 2; }
cd "$D"
CARGO_NET_OFFLINE=true CARGO_TARGET_DIR="$V/.build/rs/target" cargo build --release --offline -q 2>&1 | tail -20
test -f "$V/.build/rs/target/release/libreed_solomon_ffi.a"
