#!/usr/bin/env python3
"""Run the repository's pinned baseline suite (guard OFF, no overlay) in a tree and
compare with /root/.vp/BASELINE.json. usage: baseline.py [repo_dir]"""
import json, os, subprocess, sys
repo = sys.argv[1] if len(sys.argv) > 1 else "/repo"
base = json.load(open("/root/.vp/BASELINE.json"))
env = dict(os.environ); env.update(GOFLAGS="-mod=mod", GOPROXY="off", GOTOOLCHAIN="auto"); env.pop("GOSUMDB", None)
ov = ["-overlay", sys.argv[2]] if len(sys.argv) > 2 else []
p = subprocess.run(["go", "test", "-mod=mod"] + ov + [ "-json", "-vet=off", "-count=1", "-timeout", "25m", "./..."],
                   cwd=repo, env=env, stdout=subprocess.PIPE, stderr=subprocess.DEVNULL, text=True)
passed, failed = set(), set()
for line in p.stdout.splitlines():
    try: e = json.loads(line)
    except Exception: continue
    if e.get("Test") and e.get("Action") in ("pass", "fail"):
        (passed if e["Action"] == "pass" else failed).add(e["Package"] + "::" + e["Test"])
missing = [t for t in base["stable_pass"] if t not in passed]
newfail = [t for t in failed if t not in base["always_fail"] and t not in base["flaky"]]
print(f"baseline: passed={len(passed)} failed={len(failed)} stable_missing={len(missing)} new_failures={len(newfail)}")
for t in missing: print("  MISSING", t)
for t in newfail: print("  NEWFAIL", t)
sys.exit(1 if missing or newfail else 0)
