#!/bin/bash
# vrw.sh <repo-rel-pkgdir>... : (re)build vrewrite if needed and instrument the packages into $VERIF_BDIR/rw
# If VERIF_MUTANT is set, the mutant's replacement files are used as the source of the rewrite.
set -eu
V="$(cd "$(dirname "$0")/.." && pwd)"
export GOFLAGS=-mod=mod GOPROXY=off GOTOOLCHAIN=local
mkdir -p "$V/.build/bin"
# always rebuild (content-addressed by the Go build cache; never trust mtimes)
(cd "$V" && go build -o ".build/bin/vrewrite.$$" ./cmd/vrewrite && mv ".build/bin/vrewrite.$$" .build/bin/vrewrite)
out="$VERIF_BDIR/rw"; rm -rf "$out"; mkdir -p "$out"
if [ "${VRW_MAPS:-0}" = 1 ]; then
  # range-over-map sites from the compiler's type information (needs the repo's own toolchain)
  (cd "$V/cmd/vmapsites" && GOTOOLCHAIN=auto go build -o "$V/.build/bin/vmapsites.$$" . && mv "$V/.build/bin/vmapsites.$$" "$V/.build/bin/vmapsites")
  python3 - "$out/ms_overlay.json" "${VERIF_MUTANT:-}" "$V" <<'PY'
import json,sys,os
rep={"/repo/pkg/Rust-VRF/vrf-func-ffi/src/vrf.go": sys.argv[3]+"/standin/vrf/vrf.go"}
if sys.argv[2]:
    rep.update(json.load(open(sys.argv[2]))["Replace"])
json.dump({"Replace":rep},open(sys.argv[1],"w"))
PY
  pk=""; for pkg in "$@"; do pk="$pk ./$pkg"; done
  (cd /repo && GOTOOLCHAIN=auto "$V/.build/bin/vmapsites" -overlay "$out/ms_overlay.json" -dir /repo $pk) > "$out/mapsites.txt"
fi
frags=()
for pkg in "$@"; do
  src="/repo/$pkg"
  VRW_FLAGS=""
  if [ "${VRW_MAPS:-0}" = 1 ]; then
    grep "^$pkg/[^/]*$" "$out/mapsites.txt" | sed "s#^$pkg/##" > "$out/$(echo $pkg | tr / _).mapsites" || true
    VRW_FLAGS="-mapsites $out/$(echo $pkg | tr / _).mapsites"
  fi
  if [ -n "${VERIF_MUTANT:-}" ]; then
    # materialise a scratch copy of the package dir with the mutant's files swapped in
    scratch="$VERIF_BDIR/rwsrc/$pkg"; rm -rf "$scratch"; mkdir -p "$scratch"
    cp "$src"/*.go "$scratch"/
    python3 - "$VERIF_MUTANT" "$src" "$scratch" <<'PY'
import json,sys,os,shutil
rep=json.load(open(sys.argv[1]))["Replace"]
src,dst=sys.argv[2],sys.argv[3]
for k,v in rep.items():
    if os.path.dirname(k)==src and v:
        shutil.copy(v, os.path.join(dst, os.path.basename(k)))
PY
    "$V/.build/bin/vrewrite" -pkgdir "$scratch" -out "$out/$(echo $pkg | tr / _)" -drop-tests ${VRW_FLAGS:-} -overlay "$out/$(echo $pkg | tr / _).json.tmp"
    # map back to the real paths
    python3 - "$out/$(echo $pkg | tr / _).json.tmp" "$scratch" "$src" <<'PY'
import json,sys
d=json.load(open(sys.argv[1])); a,b=sys.argv[2],sys.argv[3]
d["Replace"]={k.replace(a,b,1):v for k,v in d["Replace"].items()}
json.dump(d,open(sys.argv[1][:-4],"w"),indent=1)
PY
  else
    "$V/.build/bin/vrewrite" -pkgdir "$src" -out "$out/$(echo $pkg | tr / _)" -drop-tests ${VRW_FLAGS:-} -overlay "$out/$(echo $pkg | tr / _).json"
  fi
  frags+=("$out/$(echo $pkg | tr / _).json")
done
python3 - "$out/overlay.json" "${frags[@]}" <<'PY'
import json,sys
rep={}; sites=[]
for f in sys.argv[2:]:
    d=json.load(open(f)); rep.update(d["Replace"]); sites+=d.get("sites",[])
json.dump({"Replace":rep,"sites":sites},open(sys.argv[1],"w"),indent=1)
PY
