// Package refmmr is R-mmr: the Gray Paper Merkle mountain range (E.2) stated
// on the item sequence itself rather than by the append recursion.
//
//	peaks(items)_i = ∅                                   if bit i of |items| is clear
//	               = merge(items[start_i : start_i+2^i])  otherwise,
//	                 start_i = Σ 2^j over the set bits j > i
//	merge([x]) = x ; merge(v) = H_K(merge(v[:|v|/2]) ‖ merge(v[|v|/2:]))
//	|peaks| = bit length of |items|
//
//	M_R(b): h = [x | x <- b, x ≠ ∅];  H^0 if |h| = 0;  h_0 if |h| = 1;
//	        H_K("peak" ‖ M_R(h[:|h|-1]) ‖ h[|h|-1]) otherwise            (E.10)
//
// Only the standard library and golang.org/x/crypto are imported.
package refmmr

import (
	"golang.org/x/crypto/sha3"
)

type Hash = [32]byte

func Keccak(b []byte) Hash {
	h := sha3.NewLegacyKeccak256()
	h.Write(b)
	var out Hash
	copy(out[:], h.Sum(nil))
	return out
}

// Merge is the root of the perfect binary tree over 2^i items.
func Merge(items []Hash) Hash {
	if len(items) == 1 {
		return items[0]
	}
	if len(items) == 0 || len(items)&(len(items)-1) != 0 {
		panic("refmmr: Merge needs a power-of-two number of items")
	}
	l, r := Merge(items[:len(items)/2]), Merge(items[len(items)/2:])
	return Keccak(append(append([]byte{}, l[:]...), r[:]...))
}

// Peaks returns the peak list after appending all items to the empty range.
// A nil entry is an empty (∅) position.
func Peaks(items []Hash) []*Hash {
	n := len(items)
	bl := 0
	for (n >> uint(bl)) != 0 {
		bl++
	}
	out := make([]*Hash, bl)
	start := 0
	for i := bl - 1; i >= 0; i-- {
		if n&(1<<uint(i)) != 0 {
			h := Merge(items[start : start+(1<<uint(i))])
			out[i] = &h
			start += 1 << uint(i)
		}
	}
	return out
}

// SuperPeak is M_R.
func SuperPeak(b []*Hash) Hash {
	var h []*Hash
	for _, x := range b {
		if x != nil {
			h = append(h, x)
		}
	}
	return superPeak(h)
}

func superPeak(h []*Hash) Hash {
	switch len(h) {
	case 0:
		return Hash{}
	case 1:
		return *h[0]
	}
	rest := superPeak(h[:len(h)-1])
	buf := append([]byte("peak"), rest[:]...)
	buf = append(buf, h[len(h)-1][:]...)
	return Keccak(buf)
}
