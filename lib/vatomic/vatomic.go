// Package vatomic replaces "sync/atomic" in rewritten sources (see vsched).
package vatomic

import (
	"github.com/New-JAMneration/JAM-Protocol/internal/zzverif/vsched"
)

type reg struct {
	id    uint64
	epoch uint64
}

func (r *reg) point(s interface{ StateHash() uint64 }, kind string) {
	e := vsched.Current()
	if e == nil {
		return
	}
	if r.epoch != e.Epoch() {
		r.epoch = e.Epoch()
		r.id = e.NewObj(s)
	}
	if !e.Aborted() {
		e.Point(kind, r.id)
	}
}

type Bool struct {
	r reg
	v bool
}

func (b *Bool) StateHash() uint64 {
	if b.v {
		return b.r.id<<4 | 1
	}
	return b.r.id << 4
}
// Peek reads without a scheduling point (harness / scheduler predicates only).
func (b *Bool) Peek() bool { return b.v }
func (b *Bool) Load() bool   { b.r.point(b, "atomic.load"); return b.v }
func (b *Bool) Store(v bool) { b.r.point(b, "atomic.store"); b.v = v }
func (b *Bool) Swap(v bool) bool {
	b.r.point(b, "atomic.swap")
	o := b.v
	b.v = v
	return o
}
func (b *Bool) CompareAndSwap(o, n bool) bool {
	b.r.point(b, "atomic.cas")
	if b.v == o {
		b.v = n
		return true
	}
	return false
}

type num interface {
	~int32 | ~int64 | ~uint32 | ~uint64 | ~uintptr
}

type numBox[T num] struct {
	r reg
	v T
}

func (b *numBox[T]) StateHash() uint64 { return b.r.id<<32 ^ uint64(b.v) }
func (b *numBox[T]) Load() T           { b.r.point(b, "atomic.load"); return b.v }
func (b *numBox[T]) Store(v T)         { b.r.point(b, "atomic.store"); b.v = v }
func (b *numBox[T]) Add(d T) T         { b.r.point(b, "atomic.add"); b.v += d; return b.v }
func (b *numBox[T]) Swap(v T) T        { b.r.point(b, "atomic.swap"); o := b.v; b.v = v; return o }
func (b *numBox[T]) CompareAndSwap(o, n T) bool {
	b.r.point(b, "atomic.cas")
	if b.v == o {
		b.v = n
		return true
	}
	return false
}

type Int32 struct{ numBox[int32] }
type Int64 struct{ numBox[int64] }
type Uint32 struct{ numBox[uint32] }
type Uint64 struct{ numBox[uint64] }
type Uintptr struct{ numBox[uintptr] }

type Pointer[T any] struct {
	r reg
	v *T
}

func (p *Pointer[T]) StateHash() uint64 {
	if p.v != nil {
		return p.r.id<<4 | 1
	}
	return p.r.id << 4
}
func (p *Pointer[T]) Load() *T   { p.r.point(p, "atomic.load"); return p.v }
func (p *Pointer[T]) Store(v *T) { p.r.point(p, "atomic.store"); p.v = v }
func (p *Pointer[T]) Swap(v *T) *T {
	p.r.point(p, "atomic.swap")
	o := p.v
	p.v = v
	return o
}
func (p *Pointer[T]) CompareAndSwap(o, n *T) bool {
	p.r.point(p, "atomic.cas")
	if p.v == o {
		p.v = n
		return true
	}
	return false
}

type Value struct {
	r reg
	v any
}

func (p *Value) StateHash() uint64 {
	if p.v != nil {
		return p.r.id<<4 | 1
	}
	return p.r.id << 4
}
func (p *Value) Load() any   { p.r.point(p, "atomic.load"); return p.v }
func (p *Value) Store(v any) { p.r.point(p, "atomic.store"); p.v = v }

// function forms on plain words: a scheduling point, then the plain operation
// (only one logical thread runs at a time).
type fnObj struct{}

func (fnObj) StateHash() uint64 { return 0 }

var fnReg reg

func pt(kind string) { fnReg.point(fnObj{}, kind) }

func AddInt32(p *int32, d int32) int32     { pt("atomic.add"); *p += d; return *p }
func AddInt64(p *int64, d int64) int64     { pt("atomic.add"); *p += d; return *p }
func AddUint32(p *uint32, d uint32) uint32 { pt("atomic.add"); *p += d; return *p }
func AddUint64(p *uint64, d uint64) uint64 { pt("atomic.add"); *p += d; return *p }
func LoadInt32(p *int32) int32             { pt("atomic.load"); return *p }
func LoadInt64(p *int64) int64             { pt("atomic.load"); return *p }
func LoadUint32(p *uint32) uint32          { pt("atomic.load"); return *p }
func LoadUint64(p *uint64) uint64          { pt("atomic.load"); return *p }
func StoreInt32(p *int32, v int32)         { pt("atomic.store"); *p = v }
func StoreInt64(p *int64, v int64)         { pt("atomic.store"); *p = v }
func StoreUint32(p *uint32, v uint32)      { pt("atomic.store"); *p = v }
func StoreUint64(p *uint64, v uint64)      { pt("atomic.store"); *p = v }
func CompareAndSwapInt32(p *int32, o, n int32) bool {
	pt("atomic.cas")
	if *p == o {
		*p = n
		return true
	}
	return false
}
func CompareAndSwapInt64(p *int64, o, n int64) bool {
	pt("atomic.cas")
	if *p == o {
		*p = n
		return true
	}
	return false
}
func CompareAndSwapUint32(p *uint32, o, n uint32) bool {
	pt("atomic.cas")
	if *p == o {
		*p = n
		return true
	}
	return false
}
func CompareAndSwapUint64(p *uint64, o, n uint64) bool {
	pt("atomic.cas")
	if *p == o {
		*p = n
		return true
	}
	return false
}
