// Package vlib is the Go side of the /verif check protocol. It is compiled into
// the repository's packages through `go test -overlay` (virtual directory
// internal/zzverif/vlib) and imports only the standard library.
//
// A harness is a test function TestVerif_<ID>. It calls Start, enumerates its
// (sharded) space, reports evaluations / behaviour classes / states /
// transitions / violations, and calls Finish, which writes the shard report the
// driver (/verif/bin/vcheck) merges.
package vlib

import (
	"encoding/json"
	"fmt"
	"hash/fnv"
	"os"
	"runtime"
	"runtime/debug"
	"sort"
	"strconv"
	"strings"
	"testing"
	"time"
)

// Violation is one failing case. Site/Kind/Key form the signature that the
// known-findings file is matched against; Detail is free text; Case is the
// replayable input (must be JSON serialisable).
type Violation struct {
	Site   string      `json:"site"`
	Kind   string      `json:"kind"`
	Key    string      `json:"key"`
	Detail string      `json:"detail"`
	Case   interface{} `json:"case"`
	Count  uint64      `json:"count"`
}

type Report struct {
	ID          string                 `json:"id"`
	Tier        string                 `json:"tier"`
	Shard       int                    `json:"shard"`
	NShards     int                    `json:"nshards"`
	Evaluations uint64                 `json:"evaluations"`
	SpaceSize   uint64                 `json:"space_size"`
	Transitions uint64                 `json:"transitions"`
	Traces      uint64                 `json:"traces"`
	Classes     []uint64               `json:"classes"`
	ClassNames  []string               `json:"class_names"`
	States      []uint64               `json:"states"`
	StatesCount uint64                 `json:"states_count"` // used when states are counted globally by every shard
	Samples     []interface{}          `json:"samples"`
	Violations  []*Violation           `json:"violations"`
	Exhaustive  bool                   `json:"exhaustive"`
	Caps        []string               `json:"caps"`
	Extra       map[string]interface{} `json:"extra"`
	Done        bool                   `json:"done"`
	WallS       float64                `json:"wall_s"`
}

type Run struct {
	T        *testing.T
	ID       string
	Tier     string
	Shard    int
	NShards  int
	Seed     int64
	out      string
	cur      string
	replay   string
	rep      Report
	classes  map[uint64]struct{}
	cnames   map[string]struct{}
	states   map[uint64]struct{}
	viol     map[string]*Violation
	start    time.Time
	deadline time.Time
	sampleN  int
	curF     *os.File
}

const maxSamples = 6
const maxViolPerSig = 1
const maxSigs = 400

// Start reads the VERIF_* environment. When the environment is absent (someone
// runs `go test` by hand) the harness is skipped.
func Start(t *testing.T, id string) *Run {
	if os.Getenv("VERIF_ID") != id {
		t.Skip("not selected (VERIF_ID)")
	}
	r := &Run{T: t, ID: id, Tier: os.Getenv("VERIF_TIER"), NShards: 1}
	if r.Tier == "" {
		r.Tier = "quick"
	}
	if s := os.Getenv("VERIF_SHARD"); s != "" {
		p := strings.Split(s, "/")
		r.Shard, _ = strconv.Atoi(p[0])
		r.NShards, _ = strconv.Atoi(p[1])
	}
	if s := os.Getenv("VERIF_SEED"); s != "" {
		r.Seed, _ = strconv.ParseInt(s, 10, 64)
	}
	r.out = os.Getenv("VERIF_OUT")
	r.cur = r.out + ".cur"
	r.replay = os.Getenv("VERIF_REPLAY")
	r.classes = map[uint64]struct{}{}
	r.cnames = map[string]struct{}{}
	r.states = map[uint64]struct{}{}
	r.viol = map[string]*Violation{}
	r.start = time.Now()
	r.rep = Report{ID: id, Tier: r.Tier, Shard: r.Shard, NShards: r.NShards, Exhaustive: true, Extra: map[string]interface{}{}}
	if s := os.Getenv("VERIF_DEADLINE_S"); s != "" {
		if d, err := strconv.Atoi(s); err == nil && d > 0 {
			r.deadline = r.start.Add(time.Duration(d) * time.Second)
		}
	}
	return r
}

func (r *Run) Thorough() bool { return r.Tier == "thorough" }

// Pick returns q for the quick tier and th for the thorough tier.
func Pick[T any](r *Run, q, th T) T {
	if r.Thorough() {
		return th
	}
	return q
}

// Mine says whether case index i belongs to this shard.
func (r *Run) Mine(i uint64) bool {
	if r.replay != "" {
		return true
	}
	return int((i+uint64(r.Seed))%uint64(r.NShards)) == r.Shard
}

// IsReplay reports whether this run replays one recorded case; if so it decodes
// the case into v.
func (r *Run) IsReplay(v interface{}) bool {
	if r.replay == "" {
		return false
	}
	b, err := os.ReadFile(r.replay)
	if err != nil {
		r.T.Fatalf("replay: %v", err)
	}
	var w struct {
		Case json.RawMessage `json:"case"`
	}
	if err := json.Unmarshal(b, &w); err != nil {
		r.T.Fatalf("replay: %v", err)
	}
	if err := json.Unmarshal(w.Case, v); err != nil {
		r.T.Fatalf("replay case: %v", err)
	}
	return true
}

// Cur records the case about to run so that a worker that dies (fatal error,
// watchdog) can be attributed to it. Cheap: one pwrite.
func (r *Run) Cur(s string) {
	if r.out == "" {
		return
	}
	if r.curF == nil {
		f, err := os.Create(r.cur)
		if err != nil {
			return
		}
		r.curF = f
	}
	b := []byte(s)
	if len(b) > 4000 {
		b = b[:4000]
	}
	pad := make([]byte, 4096)
	for i := range pad {
		pad[i] = ' '
	}
	copy(pad, b)
	r.curF.WriteAt(pad, 0)
}

func (r *Run) Eval()               { r.rep.Evaluations++ }
func (r *Run) EvalN(n uint64)      { r.rep.Evaluations += n }
func (r *Run) Transition()         { r.rep.Transitions++ }
func (r *Run) TransitionN(n uint64) { r.rep.Transitions += n }
func (r *Run) Trace()              { r.rep.Traces++ }
func (r *Run) TraceN(n uint64)     { r.rep.Traces += n }
func (r *Run) Space(n uint64)      { r.rep.SpaceSize += n }
func (r *Run) Evaluations() uint64 { return r.rep.Evaluations }

func H(s string) uint64 {
	h := fnv.New64a()
	h.Write([]byte(s))
	return h.Sum64()
}

// Class records the behaviour class of a case (for distinct_nontrivial).
func (r *Run) Class(key string) {
	h := H(key)
	if _, ok := r.classes[h]; !ok {
		r.classes[h] = struct{}{}
		if len(r.cnames) < 40 {
			r.cnames[key] = struct{}{}
		}
	}
}

// State records a canonical state (by key). Returns true when new.
func (r *Run) State(key string) bool {
	h := H(key)
	if _, ok := r.states[h]; ok {
		return false
	}
	r.states[h] = struct{}{}
	return true
}

// StateCount is used by searches that every shard performs identically (the
// frontier is computed redundantly and only the checking is sharded).
func (r *Run) StateCount(n uint64) { r.rep.StatesCount = n }

func (r *Run) Sample(v interface{}) {
	r.sampleN++
	if len(r.rep.Samples) < maxSamples {
		r.rep.Samples = append(r.rep.Samples, v)
	}
}

// WantSample is true for the first few cases and then sparsely.
func (r *Run) WantSample() bool { return len(r.rep.Samples) < maxSamples }

func (r *Run) Extra(k string, v interface{}) { r.rep.Extra[k] = v }

// Cap records that a cap was hit; the run is then not exhaustive.
func (r *Run) Cap(what string) {
	r.rep.Exhaustive = false
	for _, c := range r.rep.Caps {
		if c == what {
			return
		}
	}
	r.rep.Caps = append(r.rep.Caps, what)
}

// Expired is true once the internal deadline passed (the caller must then stop
// and call Cap).
func (r *Run) Expired() bool {
	if r.deadline.IsZero() {
		return false
	}
	if time.Now().After(r.deadline) {
		r.Cap("deadline")
		return true
	}
	return false
}

func (r *Run) Violation(site, kind, key, detail string, c interface{}) {
	sig := site + "|" + kind + "|" + key
	if v, ok := r.viol[sig]; ok {
		v.Count++
		return
	}
	if len(r.viol) >= maxSigs {
		return
	}
	if len(detail) > 2000 {
		detail = detail[:2000]
	}
	r.viol[sig] = &Violation{Site: site, Kind: kind, Key: key, Detail: detail, Case: c, Count: 1}
}

func (r *Run) NViolations() int { return len(r.viol) }

// Guard runs f and converts a Go panic into (true, message, top repo frame).
func Guard(f func()) (panicked bool, msg string, site string) {
	defer func() {
		if e := recover(); e != nil {
			panicked = true
			msg = fmt.Sprint(e)
			site = TopRepoFrame(string(debug.Stack()))
		}
	}()
	f()
	return
}

// TopRepoFrame extracts the innermost stack frame that lies in the repository
// (not in a zz_verif harness file, not in the runtime).
func TopRepoFrame(stack string) string {
	lines := strings.Split(stack, "\n")
	seenPanic := false
	for i := 0; i+1 < len(lines); i++ {
		l := lines[i]
		if strings.HasPrefix(l, "panic(") || strings.Contains(l, "runtime.gopanic") || strings.HasPrefix(l, "runtime.panic") || strings.HasPrefix(l, "runtime.goPanic") {
			seenPanic = true
			continue
		}
		if !seenPanic {
			continue
		}
		if strings.HasPrefix(l, "runtime.") || strings.HasPrefix(l, "\t") {
			continue
		}
		loc := strings.TrimSpace(lines[i+1])
		if strings.Contains(loc, "zz_verif") || strings.Contains(loc, "/zzverif/") || !strings.Contains(loc, "JAM-Protocol") && !strings.Contains(loc, "/repo/") {
			continue
		}
		fn := l
		if k := strings.LastIndex(fn, "("); k > 0 {
			fn = fn[:k]
		}
		if k := strings.LastIndex(fn, "/"); k >= 0 {
			fn = fn[k+1:]
		}
		return fn
	}
	return "unknown"
}

// AllocDelta measures bytes allocated by f (single goroutine assumed).
func AllocDelta(f func()) uint64 {
	var a, b runtime.MemStats
	runtime.ReadMemStats(&a)
	f()
	runtime.ReadMemStats(&b)
	return b.TotalAlloc - a.TotalAlloc
}

func (r *Run) Finish() {
	r.rep.Done = true
	r.rep.WallS = time.Since(r.start).Seconds()
	for h := range r.classes {
		r.rep.Classes = append(r.rep.Classes, h)
	}
	sort.Slice(r.rep.Classes, func(i, j int) bool { return r.rep.Classes[i] < r.rep.Classes[j] })
	for n := range r.cnames {
		r.rep.ClassNames = append(r.rep.ClassNames, n)
	}
	sort.Strings(r.rep.ClassNames)
	for h := range r.states {
		r.rep.States = append(r.rep.States, h)
	}
	sort.Slice(r.rep.States, func(i, j int) bool { return r.rep.States[i] < r.rep.States[j] })
	sigs := make([]string, 0, len(r.viol))
	for s := range r.viol {
		sigs = append(sigs, s)
	}
	sort.Strings(sigs)
	for _, s := range sigs {
		r.rep.Violations = append(r.rep.Violations, r.viol[s])
	}
	if r.out == "" {
		for _, v := range r.rep.Violations {
			r.T.Errorf("violation %s|%s|%s: %s", v.Site, v.Kind, v.Key, v.Detail)
		}
		return
	}
	b, err := json.Marshal(&r.rep)
	if err != nil {
		r.T.Fatalf("report marshal: %v", err)
	}
	if err := os.WriteFile(r.out, b, 0o644); err != nil {
		r.T.Fatalf("report write: %v", err)
	}
	if r.curF != nil {
		r.curF.Close()
		os.Remove(r.cur)
	}
}

// ---------- small enumeration helpers ----------

// Odometer iterates the mixed-radix product of the given radices.
type Odometer struct {
	Radix []int
	Digit []int
	first bool
	Index uint64
}

func NewOdometer(radix ...int) *Odometer {
	return &Odometer{Radix: radix, Digit: make([]int, len(radix)), first: true}
}

func (o *Odometer) Size() uint64 {
	n := uint64(1)
	for _, r := range o.Radix {
		n *= uint64(r)
	}
	return n
}

// Next advances; returns false when the product is exhausted.
func (o *Odometer) Next() bool {
	if o.first {
		o.first = false
		for _, r := range o.Radix {
			if r == 0 {
				return false
			}
		}
		return true
	}
	o.Index++
	for i := len(o.Digit) - 1; i >= 0; i-- {
		o.Digit[i]++
		if o.Digit[i] < o.Radix[i] {
			return true
		}
		o.Digit[i] = 0
	}
	return false
}

// Permutations calls f with every permutation of 0..n-1 (Heap's algorithm); f
// must not retain the slice.
func Permutations(n int, f func(p []int)) {
	p := make([]int, n)
	for i := range p {
		p[i] = i
	}
	var rec func(k int)
	rec = func(k int) {
		if k <= 1 {
			f(p)
			return
		}
		for i := 0; i < k; i++ {
			rec(k - 1)
			if k%2 == 0 {
				p[i], p[k-1] = p[k-1], p[i]
			} else {
				p[0], p[k-1] = p[k-1], p[0]
			}
		}
	}
	rec(n)
}

// Subsets calls f with every subset of 0..n-1 of size <= k.
func Subsets(n, k int, f func(s []int)) {
	var cur []int
	var rec func(start int)
	rec = func(start int) {
		f(cur)
		if len(cur) == k {
			return
		}
		for i := start; i < n; i++ {
			cur = append(cur, i)
			rec(i + 1)
			cur = cur[:len(cur)-1]
		}
	}
	rec(0)
}

// Sequences calls f with every sequence over 0..n-1 of length exactly l.
func Sequences(n, l int, f func(s []int)) {
	s := make([]int, l)
	var rec func(i int)
	rec = func(i int) {
		if i == l {
			f(s)
			return
		}
		for v := 0; v < n; v++ {
			s[i] = v
			rec(i + 1)
		}
	}
	rec(0)
}

func Hex(b []byte) string {
	const d = "0123456789abcdef"
	o := make([]byte, 0, len(b)*2)
	for _, c := range b {
		o = append(o, d[c>>4], d[c&15])
	}
	return string(o)
}

func Unhex(s string) []byte {
	o := make([]byte, 0, len(s)/2)
	v := func(c byte) byte {
		switch {
		case c >= '0' && c <= '9':
			return c - '0'
		case c >= 'a' && c <= 'f':
			return c - 'a' + 10
		case c >= 'A' && c <= 'F':
			return c - 'A' + 10
		}
		return 0
	}
	for i := 0; i+1 < len(s); i += 2 {
		o = append(o, v(s[i])<<4|v(s[i+1]))
	}
	return o
}
