// Package vtime replaces "time" in rewritten sources: types and constants are
// aliases of the real package, clocks and timers are virtual (see vsched).
package vtime

import (
	"time"

	"github.com/New-JAMneration/JAM-Protocol/internal/zzverif/vsched"
)

type (
	Duration = time.Duration
	Time     = time.Time
	Month    = time.Month
	Weekday  = time.Weekday
	Location = time.Location
	Timer    = vsched.Timer
	Ticker   = vsched.Ticker
)

const (
	Nanosecond  = time.Nanosecond
	Microsecond = time.Microsecond
	Millisecond = time.Millisecond
	Second      = time.Second
	Minute      = time.Minute
	Hour        = time.Hour
	RFC3339     = time.RFC3339
	RFC3339Nano = time.RFC3339Nano
)

var UTC = time.UTC

func Now() Time                               { return vsched.Now() }
func Since(t Time) Duration                   { return vsched.Since(t) }
func Until(t Time) Duration                   { return t.Sub(vsched.Now()) }
func After(d Duration) *vsched.Chan[Time]     { return vsched.After(d) }
func NewTimer(d Duration) *Timer              { return vsched.NewTimer(d) }
func NewTicker(d Duration) *Ticker            { return vsched.NewTicker(d) }
func Sleep(d Duration)                        { vsched.Sleep(d) }
func Unix(sec, nsec int64) Time               { return time.Unix(sec, nsec) }
func UnixMilli(ms int64) Time                 { return time.UnixMilli(ms) }
func UnixMicro(us int64) Time                 { return time.UnixMicro(us) }
func ParseDuration(s string) (Duration, error) { return time.ParseDuration(s) }
func Date(year int, month Month, day, hour, min, sec, nsec int, loc *Location) Time {
	return time.Date(year, month, day, hour, min, sec, nsec, loc)
}
