// Package vsingleflight replaces golang.org/x/sync/singleflight in instrumented sources.
package vsingleflight

import (
	"github.com/New-JAMneration/JAM-Protocol/internal/zzverif/vsched"
)

type call struct {
	done bool
	val  interface{}
	err  error
	dups int
}

type Result struct {
	Val    interface{}
	Err    error
	Shared bool
}

type Group struct {
	id    uint64
	epoch uint64
	m     map[string]*call
}

func (g *Group) StateHash() uint64 { return g.id<<16 | uint64(len(g.m)) }

func (g *Group) Do(key string, fn func() (interface{}, error)) (v interface{}, err error, shared bool) {
	e := vsched.Current()
	if e != nil && g.epoch != e.Epoch() {
		g.epoch = e.Epoch()
		g.id = e.NewObj(g)
		g.m = nil
	}
	if e != nil && !e.Aborted() {
		e.Point("singleflight.do", g.id)
	}
	if g.m == nil {
		g.m = map[string]*call{}
	}
	if c, ok := g.m[key]; ok {
		c.dups++
		if e != nil && !e.Aborted() {
			e.Yield(&vsched.Op{Kind: "singleflight.wait", Obj: g.id, Enabled: func() bool { return c.done }})
		}
		return c.val, c.err, true
	}
	c := &call{}
	g.m[key] = c
	// fn runs while the call is registered: a concurrent Do with the same key arriving now joins it.
	// Worker bodies are atomic between scheduling points, so the window is made explicit here.
	if e != nil && !e.Aborted() {
		e.Point("singleflight.run", g.id)
	}
	c.val, c.err = fn()
	c.done = true
	delete(g.m, key)
	return c.val, c.err, c.dups > 0
}

func (g *Group) Forget(key string) {
	if g.m != nil {
		delete(g.m, key)
	}
}
