// Package verrgroup replaces golang.org/x/sync/errgroup in instrumented sources.
package verrgroup

import (
	"context"

	"github.com/New-JAMneration/JAM-Protocol/internal/zzverif/vsched"
)

type Group struct {
	id     uint64
	epoch  uint64
	active int
	limit  int
	err    error
	cancel func(error)
}

func (g *Group) StateHash() uint64 { return g.id<<16 | uint64(g.active) }

func (g *Group) reg() *vsched.Exec {
	e := vsched.Current()
	if e != nil && g.epoch != e.Epoch() {
		g.epoch = e.Epoch()
		g.id = e.NewObj(g)
	}
	return e
}

func WithContext(ctx context.Context) (*Group, context.Context) {
	ctx, cancel := context.WithCancelCause(ctx)
	return &Group{cancel: cancel}, ctx
}

func (g *Group) SetLimit(n int) {
	if n < 0 {
		g.limit = 0
		return
	}
	g.limit = n
}

func (g *Group) run(f func() error) {
	vsched.Go(func() {
		err := f()
		if err != nil && g.err == nil {
			g.err = err
			if g.cancel != nil {
				g.cancel(err)
			}
		}
		g.active--
	})
}

func (g *Group) Go(f func() error) {
	e := g.reg()
	if e == nil {
		// outside the scheduler: run inline, deterministic
		if err := f(); err != nil && g.err == nil {
			g.err = err
		}
		return
	}
	if e.Aborted() {
		return
	}
	if g.limit > 0 {
		e.Yield(&vsched.Op{Kind: "errgroup.go", Obj: g.id, Enabled: func() bool { return g.active < g.limit }})
	}
	g.active++
	g.run(f)
}

func (g *Group) TryGo(f func() error) bool {
	e := g.reg()
	if e != nil && !e.Aborted() {
		e.Point("errgroup.trygo", g.id)
	}
	if g.limit > 0 && g.active >= g.limit {
		return false
	}
	if e == nil {
		if err := f(); err != nil && g.err == nil {
			g.err = err
		}
		return true
	}
	g.active++
	g.run(f)
	return true
}

func (g *Group) Wait() error {
	e := g.reg()
	if e != nil && !e.Aborted() {
		e.Yield(&vsched.Op{Kind: "errgroup.wait", Obj: g.id, Enabled: func() bool { return g.active == 0 }})
	}
	if g.cancel != nil {
		g.cancel(g.err)
	}
	return g.err
}
