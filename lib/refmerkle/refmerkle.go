// Package refmerkle is R-merkle: the Gray Paper Appendix E.1 binary Merkle
// functions written from their definitions.
//
//	N(v)   = H^0                                             |v| = 0
//	       = v_0                                             |v| = 1
//	       = H("node" ‖ N(v[:⌈|v|/2⌉]) ‖ N(v[⌈|v|/2⌉:]))    otherwise
//	M_B(v) = H(v_0) if |v| = 1, N(v) otherwise                           (well-balanced)
//	T(v,i) = [N(P⊥(v,i))] ++ T(P⊤(v,i), i − P_I(v,i))  if |v| > 1, [] otherwise
//	         P^s(v,i) = v[:⌈|v|/2⌉] if (i < ⌈|v|/2⌉) = s, v[⌈|v|/2⌉:] otherwise
//	         P_I(v,i) = 0 if i < ⌈|v|/2⌉, ⌈|v|/2⌉ otherwise
//	C(v)   = v' with |v'| = 2^⌈log2 max(1,|v|)⌉, v'_i = H("leaf" ‖ v_i) (i < |v|), H^0 otherwise
//	M(v)   = N(C(v))                                                      (constant depth)
//	J_x(v,i) = T(C(v), 2^x i)[: max(0, ⌈log2 max(1,|v|)⌉ − x)]
//	L_x(v,i) = [H("leaf" ‖ l) | l <- v[2^x i : min(2^x i + 2^x, |v|)]]
//
// An element is a blob; a nil slice is the empty blob. Only the standard
// library and golang.org/x/crypto are imported.
package refmerkle

import (
	"golang.org/x/crypto/blake2b"
	"golang.org/x/crypto/sha3"
)

type Hash = [32]byte
type HashFn func([]byte) Hash

func Blake2b(b []byte) Hash { return blake2b.Sum256(b) }

func Keccak(b []byte) Hash {
	h := sha3.NewLegacyKeccak256()
	h.Write(b)
	var out Hash
	copy(out[:], h.Sum(nil))
	return out
}

func cat(parts ...[]byte) []byte {
	var out []byte
	for _, p := range parts {
		out = append(out, p...)
	}
	return out
}

func ceilHalf(n int) int { return (n + 1) / 2 }

// CeilLog2Max1 is ⌈log2 max(1, n)⌉.
func CeilLog2Max1(n int) int {
	if n < 1 {
		n = 1
	}
	l := 0
	for (1 << uint(l)) < n {
		l++
	}
	return l
}

// N returns a blob: a raw element for |v| = 1, otherwise 32 octets.
func N(v [][]byte, h HashFn) []byte {
	switch len(v) {
	case 0:
		return make([]byte, 32)
	case 1:
		return append([]byte{}, v[0]...)
	}
	m := ceilHalf(len(v))
	x := h(cat([]byte("node"), N(v[:m], h), N(v[m:], h)))
	return x[:]
}

func toHash(b []byte) Hash {
	if len(b) != 32 {
		panic("refmerkle: not a hash")
	}
	var o Hash
	copy(o[:], b)
	return o
}

// Mb is the well-balanced Merkle root.
func Mb(v [][]byte, h HashFn) Hash {
	if len(v) == 1 {
		return h(v[0])
	}
	return toHash(N(v, h))
}

// T is the trace (justification) of element i in the well-balanced tree.
func T(v [][]byte, i int, h HashFn) [][]byte {
	if len(v) <= 1 {
		return nil
	}
	m := ceilHalf(len(v))
	if i < m {
		return append([][]byte{N(v[m:], h)}, T(v[:m], i, h)...)
	}
	return append([][]byte{N(v[:m], h)}, T(v[m:], i-m, h)...)
}

// FoldT folds a trace of element i (of n elements) from the leaf value upwards
// and returns the root it implies; ok = false if the trace has the wrong length.
func FoldT(n, i int, leaf []byte, t [][]byte, h HashFn) (root []byte, ok bool) {
	if n <= 1 {
		return append([]byte{}, leaf...), len(t) == 0
	}
	if len(t) == 0 {
		return nil, false
	}
	m := ceilHalf(n)
	if i < m {
		sub, ok := FoldT(m, i, leaf, t[1:], h)
		if !ok {
			return nil, false
		}
		x := h(cat([]byte("node"), sub, t[0]))
		return x[:], true
	}
	sub, ok := FoldT(n-m, i-m, leaf, t[1:], h)
	if !ok {
		return nil, false
	}
	x := h(cat([]byte("node"), t[0], sub))
	return x[:], true
}

// OddNodeOnPath says whether the path from the root to element i passes a node
// with an odd number (> 1) of elements.
func OddNodeOnPath(n, i int) bool {
	for n > 1 {
		if n%2 == 1 {
			return true
		}
		m := ceilHalf(n)
		if i < m {
			n = m
		} else {
			n, i = n-m, i-m
		}
	}
	return false
}

// C is the constancy preprocessor.
func C(v [][]byte, h HashFn) []Hash {
	sz := 1 << uint(CeilLog2Max1(len(v)))
	out := make([]Hash, sz)
	for i := range v {
		out[i] = h(cat([]byte("leaf"), v[i]))
	}
	return out
}

func hashesToBlobs(hs []Hash) [][]byte {
	out := make([][]byte, len(hs))
	for i := range hs {
		out[i] = append([]byte{}, hs[i][:]...)
	}
	return out
}

// M is the constant-depth Merkle root, by the definition N(C(v)).
func M(v [][]byte, h HashFn) Hash {
	return toHash(N(hashesToBlobs(C(v, h)), h))
}

// Levelwise reduces a power-of-two row of hashes pairwise, level by level: an
// independent formulation of the constant-depth tree.
func Levelwise(row []Hash, h HashFn) Hash {
	if len(row) == 0 || len(row)&(len(row)-1) != 0 {
		panic("refmerkle: Levelwise needs a power-of-two row")
	}
	for len(row) > 1 {
		next := make([]Hash, len(row)/2)
		for i := range next {
			next[i] = h(cat([]byte("node"), row[2*i][:], row[2*i+1][:]))
		}
		row = next
	}
	return row[0]
}

// Jx is the justification of page i of size 2^x.
func Jx(x int, v [][]byte, i int, h HashFn) []Hash {
	t := T(hashesToBlobs(C(v, h)), (1<<uint(x))*i, h)
	n := CeilLog2Max1(len(v)) - x
	if n < 0 {
		n = 0
	}
	out := make([]Hash, n)
	for k := 0; k < n; k++ {
		out[k] = toHash(t[k])
	}
	return out
}

// Lx is page i (size 2^x) of hashed leaves.
func Lx(x int, v [][]byte, i int, h HashFn) []Hash {
	lo := (1 << uint(x)) * i
	hi := lo + (1 << uint(x))
	if hi > len(v) {
		hi = len(v)
	}
	var out []Hash
	for k := lo; k < hi; k++ {
		out = append(out, h(cat([]byte("leaf"), v[k])))
	}
	return out
}

// FoldPage rebuilds the constant-depth root of a sequence of n elements from
// page i (size 2^x) of hashed leaves and its justification.
func FoldPage(x, n, i int, leaves []Hash, just []Hash, h HashFn) (Hash, bool) {
	depth := CeilLog2Max1(n)
	pd := x
	if pd > depth {
		pd = depth
	}
	if len(leaves) > 1<<uint(pd) || len(just) != depth-pd {
		return Hash{}, false
	}
	row := make([]Hash, 1<<uint(pd))
	copy(row, leaves)
	cur := Levelwise(row, h)
	for j := len(just) - 1; j >= 0; j-- {
		bit := (i >> uint(len(just)-1-j)) & 1
		if bit == 0 {
			cur = h(cat([]byte("node"), cur[:], just[j][:]))
		} else {
			cur = h(cat([]byte("node"), just[j][:], cur[:]))
		}
	}
	return cur, true
}
