// Package refpvm is R-PVM: a from-scratch reference interpreter of the Gray
// Paper (v0.7.x) Appendix A virtual machine, written for clarity, not speed.
// It shares no code with the implementation under test and imports only the
// standard library.
//
// Conventions (GP A.1 – A.5):
//
//	p  = E(|j|) ‖ E1(z) ‖ E(|c|) ‖ E_z(j) ‖ c ‖ bits(k),  |k| = |c|
//	ζ  = c ‖ 0 0 0 …          (code implicitly zero-extended)
//	k' = k ‖ 1 1 1 …          (bitmask implicitly extended with ones)
//	skip(i) = min(24, first j ≥ 0 with k'[i+1+j] = 1)
//	ϖ  = ({0} ∪ {n+1+skip(n) : k[n]=1 ∧ c[n] ∈ T}) ∩ {n : k[n]=1 ∧ c[n] ∈ U}
//
// Every executed instruction costs one unit of gas, also when it panics or
// faults; when the gas cannot pay for the next instruction the machine exits
// with out-of-gas and the state is the one before that instruction.
package refpvm

import (
	"errors"
	"fmt"
)

// JTEntry is one dynamic-jump table entry. Entries are z-byte little-endian
// naturals; for z > 8 an entry whose high bytes are non-zero cannot be a code
// index and is flagged Huge.
type JTEntry struct {
	Val  uint64
	Huge bool
}

// Program is a deblobbed program (c, k, j).
type Program struct {
	Code []byte
	Mask []bool // len(Mask) == len(Code)
	Z    int    // jump-table entry width in bytes
	NJ   uint64 // |j|
	JRaw []byte // E_z(j): NJ entries of Z bytes each

	blockStart []bool
}

// ---- opcode classes -------------------------------------------------------

// Category of operand encoding (GP A.5.1 – A.5.13).
type Category uint8

const (
	CatInvalid Category = iota
	CatNone             // A.5.1
	CatImm              // A.5.2
	CatRegImm64         // A.5.3
	CatImmImm           // A.5.4
	CatOff              // A.5.5
	CatRegImm           // A.5.6
	CatRegImmImm        // A.5.7
	CatRegImmOff        // A.5.8
	CatRegReg           // A.5.9
	CatRegRegImm        // A.5.10
	CatRegRegOff        // A.5.11
	CatRegRegImmImm     // A.5.12
	CatRegRegReg        // A.5.13
)

var catNames = [...]string{"invalid", "none", "imm", "reg_imm64", "imm_imm", "off", "reg_imm", "reg_imm_imm",
	"reg_imm_off", "reg_reg", "reg_reg_imm", "reg_reg_off", "reg_reg_imm_imm", "reg_reg_reg"}

func (c Category) String() string { return catNames[c] }

// CategoryOf returns the operand category of an opcode byte (CatInvalid for
// the 117 undefined values).
func CategoryOf(op byte) Category {
	switch {
	case op == 0 || op == 1:
		return CatNone
	case op == 10:
		return CatImm
	case op == 20:
		return CatRegImm64
	case op >= 30 && op <= 33:
		return CatImmImm
	case op == 40:
		return CatOff
	case op >= 50 && op <= 62:
		return CatRegImm
	case op >= 70 && op <= 73:
		return CatRegImmImm
	case op >= 80 && op <= 90:
		return CatRegImmOff
	case op >= 100 && op <= 111:
		return CatRegReg
	case op >= 120 && op <= 161:
		return CatRegRegImm
	case op >= 170 && op <= 175:
		return CatRegRegOff
	case op == 180:
		return CatRegRegImmImm
	case op >= 190 && op <= 230:
		return CatRegRegReg
	}
	return CatInvalid
}

// IsValid reports op ∈ U.
func IsValid(op byte) bool { return CategoryOf(op) != CatInvalid }

// IsTerminator reports op ∈ T (instructions that end a basic block).
func IsTerminator(op byte) bool {
	switch {
	case op == 0, op == 1: // trap, fallthrough
		return true
	case op == 40, op == 50: // jump, jump_ind
		return true
	case op >= 80 && op <= 90: // load_imm_jump, branch_*_imm
		return true
	case op >= 170 && op <= 175: // branch_*
		return true
	case op == 180: // load_imm_jump_ind
		return true
	}
	return false
}

// ValidOpcodes lists U in increasing order.
func ValidOpcodes() []byte {
	var out []byte
	for i := 0; i < 256; i++ {
		if IsValid(byte(i)) {
			out = append(out, byte(i))
		}
	}
	return out
}

// ---- deblob ---------------------------------------------------------------

// DecodeNat decodes one general natural E(x) (GP C.6) from the front of b and
// returns the value and the number of bytes consumed. Non-canonical (over-long)
// encodings are rejected: E is a bijection.
func DecodeNat(b []byte) (uint64, int, error) {
	if len(b) == 0 {
		return 0, 0, errors.New("natural: empty")
	}
	p := b[0]
	l := 0
	for l < 8 && p&(0x80>>uint(l)) != 0 {
		l++
	}
	if len(b) < 1+l {
		return 0, 0, errors.New("natural: truncated")
	}
	var v uint64
	for i := 0; i < l; i++ {
		v |= uint64(b[1+i]) << (8 * uint(i))
	}
	if l < 8 {
		hi := uint64(p) & (0xFF >> uint(l+1)) // bits below the 1…10 prefix
		v |= hi << (8 * uint(l))
	}
	// canonical: l = 0 for v < 2^7, else 2^(7l) ≤ v < 2^(7(l+1)), l=8 for v ≥ 2^56
	if l > 0 && v < uint64(1)<<(7*uint(l)) {
		return 0, 0, errors.New("natural: non-minimal")
	}
	return v, 1 + l, nil
}

// EncodeNat is E(x) for x < 2^64.
func EncodeNat(x uint64) []byte {
	for l := 0; l < 8; l++ {
		if x < uint64(1)<<(7*uint(l+1)) {
			prefix := byte(0xFF<<uint(8-l)) | byte(x>>(8*uint(l)))
			out := []byte{prefix}
			for i := 0; i < l; i++ {
				out = append(out, byte(x>>(8*uint(i))))
			}
			return out
		}
	}
	out := []byte{0xFF}
	for i := 0; i < 8; i++ {
		out = append(out, byte(x>>(8*uint(i))))
	}
	return out
}

// Deblob parses a program blob. It fails exactly when the blob is not of the
// form E(|j|) ‖ E1(z) ‖ E(|c|) ‖ E_z(j) ‖ c ‖ bits(k) with nothing left over.
// The contents of c and k are not inspected: any code is a program.
func Deblob(blob []byte) (*Program, error) {
	nj, n, err := DecodeNat(blob)
	if err != nil {
		return nil, fmt.Errorf("|j|: %w", err)
	}
	b := blob[n:]
	if len(b) < 1 {
		return nil, errors.New("z: truncated")
	}
	z := int(b[0])
	b = b[1:]
	nc, n, err := DecodeNat(b)
	if err != nil {
		return nil, fmt.Errorf("|c|: %w", err)
	}
	b = b[n:]
	if z != 0 && (nj > uint64(len(b)) || nj*uint64(z) > uint64(len(b))) {
		return nil, errors.New("jump table: truncated")
	}
	jbytes := 0
	if z != 0 {
		jbytes = int(nj) * z
	}
	jt := b[:jbytes]
	b = b[jbytes:]
	if nc > uint64(len(b)) {
		return nil, errors.New("code: truncated")
	}
	code := b[:nc]
	b = b[nc:]
	if len(b) != (int(nc)+7)/8 {
		return nil, fmt.Errorf("bitmask: want %d bytes, have %d", (int(nc)+7)/8, len(b))
	}
	p := &Program{Code: append([]byte(nil), code...), Mask: make([]bool, nc), Z: z, NJ: nj, JRaw: append([]byte(nil), jt...)}
	for i := range p.Mask {
		p.Mask[i] = b[i/8]&(1<<uint(i%8)) != 0
	}
	p.computeBlocks()
	return p, nil
}

// Entry returns j_i (0 ≤ i < |j|).
func (p *Program) Entry(i uint64) JTEntry {
	var e JTEntry
	for k := 0; k < p.Z; k++ {
		v := p.JRaw[i*uint64(p.Z)+uint64(k)]
		if k < 8 {
			e.Val |= uint64(v) << (8 * uint(k))
		} else if v != 0 {
			e.Huge = true
		}
	}
	return e
}

// NewProgram builds a program directly from its parts (used by the assembler).
func NewProgram(code []byte, mask []bool, z int, j []uint64) *Program {
	p := &Program{Code: append([]byte(nil), code...), Mask: append([]bool(nil), mask...), Z: z, NJ: uint64(len(j))}
	for _, v := range j {
		for k := 0; k < z; k++ {
			if k < 8 {
				p.JRaw = append(p.JRaw, byte(v>>(8*uint(k))))
			} else {
				p.JRaw = append(p.JRaw, 0)
			}
		}
	}
	p.computeBlocks()
	return p
}

// Zeta is ζ_i.
func (p *Program) Zeta(i uint64) byte {
	if i < uint64(len(p.Code)) {
		return p.Code[i]
	}
	return 0
}

// K is (k ‖ 1 1 …)_i.
func (p *Program) K(i uint64) bool {
	if i < uint64(len(p.Mask)) {
		return p.Mask[i]
	}
	return true
}

// Skip is skip(i) (GP A.3).
func (p *Program) Skip(i uint64) int {
	for j := 0; j < 24; j++ {
		if p.K(i + 1 + uint64(j)) {
			return j
		}
	}
	return 24
}

func (p *Program) computeBlocks() {
	n := len(p.Code)
	cand := make([]bool, n)
	if n > 0 {
		cand[0] = true
	}
	for i := 0; i < n; i++ {
		if p.Mask[i] && IsTerminator(p.Code[i]) {
			t := i + 1 + p.Skip(uint64(i))
			if t < n {
				cand[t] = true
			}
		}
	}
	p.blockStart = make([]bool, n)
	for i := 0; i < n; i++ {
		p.blockStart[i] = cand[i] && p.Mask[i] && IsValid(p.Code[i])
	}
}

// IsBlockStart reports i ∈ ϖ. Indices ≥ |c| are never block starts (c_n is
// only defined inside the code).
func (p *Program) IsBlockStart(i uint64) bool {
	return i < uint64(len(p.blockStart)) && p.blockStart[i]
}

// BlockStarts lists ϖ.
func (p *Program) BlockStarts() []int {
	var out []int
	for i, b := range p.blockStart {
		if b {
			out = append(out, i)
		}
	}
	return out
}
