package refpvm

import "sort"

const (
	PageSize   = 4096
	LowLimit   = 1 << 16 // any access below this address panics
	HaltAddr   = 1<<32 - 1<<16
	JumpAlign  = 2 // Z_A
	AddrSpace  = 1 << 32
	NumRegs    = 13
	MaxSkip    = 24
	pageShift  = 12
	offsetMask = PageSize - 1
)

// Access of a page.
type Access uint8

const (
	AccNone  Access = iota // ∅ (same as an unmapped page)
	AccRead                // R
	AccWrite               // W (readable and writable)
)

func (a Access) String() string { return [...]string{"-", "R", "W"}[a] }

// Page is one 4096-byte page. Data may be shared with other Memory values
// (copy-on-write, see Memory.Clone).
type Page struct {
	Access Access
	Data   []byte
	shared bool
}

// Memory is sparse paged RAM plus the two numbers sbrk needs.
type Memory struct {
	Pages     map[uint32]*Page
	HeapPtr   uint64
	HeapLimit uint64
	// SbrkMaxPages (0 = no bound) keeps the reference from materialising gigabytes: an
	// sbrk that would map more new pages than this sets TooBig and changes nothing;
	// the caller must then discard the run.
	SbrkMaxPages int
	TooBig       bool

	// optional undo journal (Begin / Rollback) so that one Memory can serve
	// many runs without being cloned
	journaling bool
	undo       []undoRec
	added      []uint32
	heap0      uint64
}

type undoRec struct {
	addr uint32
	old  byte
}

// Begin rolls back whatever the previous run did (if any) and starts recording
// a new undo journal. While journaling, stores write in place.
func (m *Memory) Begin() {
	m.Rollback()
	m.journaling = true
	m.heap0 = m.HeapPtr
}

// Rollback undoes all stores and sbrk growth since Begin.
func (m *Memory) Rollback() {
	if !m.journaling {
		return
	}
	for i := len(m.undo) - 1; i >= 0; i-- {
		u := m.undo[i]
		m.Pages[u.addr>>pageShift].Data[u.addr&offsetMask] = u.old
	}
	m.undo = m.undo[:0]
	for _, n := range m.added {
		delete(m.Pages, n)
	}
	m.added = m.added[:0]
	m.HeapPtr = m.heap0
	m.TooBig = false
	m.journaling = false
}

func NewMemory() *Memory { return &Memory{Pages: map[uint32]*Page{}} }

// Map installs a page. data (≤ 4096 bytes) is copied and zero padded.
func (m *Memory) Map(page uint32, acc Access, data []byte) {
	d := make([]byte, PageSize)
	copy(d, data)
	m.Pages[page] = &Page{Access: acc, Data: d}
}

// Clone returns a copy-on-write copy: page contents are shared until written.
func (m *Memory) Clone() *Memory {
	c := &Memory{Pages: make(map[uint32]*Page, len(m.Pages)), HeapPtr: m.HeapPtr, HeapLimit: m.HeapLimit}
	for n, p := range m.Pages {
		p.shared = true
		c.Pages[n] = &Page{Access: p.Access, Data: p.Data, shared: true}
	}
	return c
}

// PageNumbers lists the mapped pages in increasing order.
func (m *Memory) PageNumbers() []uint32 {
	out := make([]uint32, 0, len(m.Pages))
	for n := range m.Pages {
		out = append(out, n)
	}
	sort.Slice(out, func(i, j int) bool { return out[i] < out[j] })
	return out
}

func (m *Memory) access(addr uint32) Access {
	if p, ok := m.Pages[addr>>pageShift]; ok {
		return p.Access
	}
	return AccNone
}

// MemResult of an access check.
type MemResult struct {
	OK        bool
	Panic     bool   // some accessed byte lies below 2^16
	FaultPage uint32 // !OK && !Panic: start address of the page holding the lowest inaccessible byte
	// AltFault: the access wraps past 2^32 (hence Panic, because bytes 0… are
	// touched) but a byte *before* the wrap is itself inaccessible. Reading GP
	// A.8/A.9 with min() over the un-reduced indices gives a page fault at that
	// byte instead; both readings are reported.
	AltFault     bool
	AltFaultPage uint32
}

// Check decides whether the n bytes at addr (indices reduced mod 2^32) may be
// read (write=false) or written (write=true).
func (m *Memory) Check(addr uint32, n int, write bool) MemResult {
	var r MemResult
	need := AccRead
	if write {
		need = AccWrite
	}
	low := false
	bad := false
	var firstBad uint32
	badBeforeWrap := false
	var firstBadBeforeWrap uint32
	for i := 0; i < n; i++ {
		a := addr + uint32(i) // wraps mod 2^32
		wrapped := a < addr
		if a < LowLimit {
			low = true
		}
		if m.access(a) < need {
			if !bad || a < firstBad {
				bad, firstBad = true, a
			}
			if !wrapped && !badBeforeWrap {
				badBeforeWrap, firstBadBeforeWrap = true, a
			}
		}
	}
	switch {
	case low:
		r.Panic = true
		if addr >= LowLimit && badBeforeWrap {
			r.AltFault = true
			r.AltFaultPage = firstBadBeforeWrap &^ offsetMask
		}
	case bad:
		r.FaultPage = firstBad &^ offsetMask
	default:
		r.OK = true
	}
	return r
}

// Load reads n ≤ 8 bytes little-endian. The caller has checked access.
func (m *Memory) Load(addr uint32, n int) uint64 {
	var v uint64
	for i := 0; i < n; i++ {
		a := addr + uint32(i)
		v |= uint64(m.Pages[a>>pageShift].Data[a&offsetMask]) << (8 * uint(i))
	}
	return v
}

// Store writes the low n ≤ 8 bytes of v little-endian. The caller has checked access.
func (m *Memory) Store(addr uint32, n int, v uint64) {
	for i := 0; i < n; i++ {
		a := addr + uint32(i)
		p := m.Pages[a>>pageShift]
		if m.journaling {
			m.undo = append(m.undo, undoRec{a, p.Data[a&offsetMask]})
		} else if p.shared {
			p.Data = append([]byte(nil), p.Data...)
			p.shared = false
		}
		p.Data[a&offsetMask] = byte(v >> (8 * uint(i)))
	}
}

// Sbrk is the reference's model of the (non-GP) sbrk instruction, restricted
// to what property C05 states: the heap pointer only grows, never beyond
// HeapLimit; pages newly exposed are zero and writable; existing pages keep
// their contents and access. n = 0 queries the pointer. On failure the result
// is 0 and nothing changes. On success the result is the new heap pointer.
func (m *Memory) Sbrk(n uint64) uint64 {
	if n == 0 {
		return m.HeapPtr
	}
	nh := m.HeapPtr + n
	if nh < m.HeapPtr || nh > m.HeapLimit || nh > AddrSpace {
		return 0
	}
	first := m.HeapPtr >> pageShift
	last := (nh - 1) >> pageShift
	if m.SbrkMaxPages > 0 && last-first+1 > uint64(m.SbrkMaxPages) {
		m.TooBig = true
		return 0
	}
	for pg := first; pg <= last; pg++ {
		if _, ok := m.Pages[uint32(pg)]; !ok {
			m.Pages[uint32(pg)] = &Page{Access: AccWrite, Data: make([]byte, PageSize)}
			if m.journaling {
				m.added = append(m.added, uint32(pg))
			}
		}
	}
	m.HeapPtr = nh
	return nh
}
